/-
Line-protocol driver for C01 (runs the definitions of GPVerif/Model/ExactGP.lean at ℚ).

Requests (one per line; matrices as `rows cols v11 v12 …`, exact rationals, no separators):
  post  n s  J[(n+s)×(n+s)] mj[(n+s)×1] S[n×n] y[n×1] St[s×s]  c cfg_1 … cfg_c
        -> ok alpha | mean | covar | covarNoisy | Ainv | gmean_1 | gcovar_1 | … | gmean_c | gcovar_c   (or `singular`)
           the first five from the hand-written model (the specification, `ExactGP.posterior`), the g* from the
           GENERATED `Gen.ExactAlgebra.exact_prediction` (translator G7) under the branch configuration cfg_i
           (bit mask: 1 fast, 2 skip, 4 detach, 8 eager, 16 ttDim2; policy ignore; only non-fast or skip cfgs);
           `nogen` in place of a pair when the generated function returns none
  root  n s k  J[(n+s)×(n+s)] R[n×k] cfg
        -> ok covar | R Rᵀ | predCovarRoot      covar = GENERATED split + `exact_predictive_covar` on its fast_pred_var
           branch (cfg has bit 1, bit 8 = eager) at the *observed* covar_cache R; predCovarRoot = hand-written model
           (= the specification given R)
  given n s  mt[s×1] Kts[s×n] a[n×1]
        -> ok predMean                                            (mean from the *observed* mean_cache)
  solve n s  Ktt[s×s] Kts[s×n] X[n×s]
        -> ok predCovarOfSolve | predCovarOfSolveNeg              (covariance from an observed solve)
  chol  n p  L[n×n] r[n×p]
        -> ok cholSolve                                           (or `singular`)
 call structure (GENERATED `Gen.ExactCall`, translator g7_exact_call.py; replies are plain naturals):
  mode  k_1 … k_m           (k = bit mask: 1 training, 2 hasInputs, 4 hasTargets, 8 debug, 16 priorMode, 32 inputsEqual,
                             64 outputIsMVN)
        -> ok g_1 s_1 … g_m s_m      g = code of GENERATED callMode, s = code of the specification callSpec
                             (0 raiseNoTrainInputs 1 raiseMustTrain 2 raiseNotMVN 3 priorAtInputs 4 priorAtArgs
                              5 posterior 6 posterior+warning)
  cat   n s  r bt_1 … bt_r  q bi_1 … bi_q      (batch shapes in torch order)
        -> ok T(generated) | T(specification)   with T = rank shape… (torch order) numel v_1 … v_numel: GENERATED catInputs and
           the specification concatSpec on row-id tensors (train rows numbered 0…, test rows after them), flattened row-major; or `none none`
           / `none some` / `some none` when torch.broadcast_shapes fails on one / both sides
  mt    n s t               (t = 0: single-output)
        -> ok numTrain rank testShape… | s·t generated flat joint indices of viewPredMean∘testMean (row-major (p, τ)) |
           n·t generated flat label positions of flattenLabels on the (point, task) table
  det   -> ok b_1 … b_10    GENERATED meanCacheDetached (ignore on/off, mask on/off, fill on/off), covarCacheDetached
           on/off, solveOperandDetached on/off
-/
import GPVerif.Model.ExactGP
import GPVerif.Gen.ExactAlgebra
import GPVerif.Gen.ExactCall
import GPVerif.Model.Proto
open Proto ExactGP

def cfgOf (code : Nat) (pol : Policy) : Gen.ExactAlgebra.Cfg :=
  { fast := code % 2 == 1, skip := (code / 2) % 2 == 1, detach := (code / 4) % 2 == 1, eager := (code / 8) % 2 == 1,
    ttDim2 := (code / 16) % 2 == 1, ttIsTensor := (code / 32) % 2 == 1, cache4d := false, policy := pol }

def takeD (n m : Nat) (ts : List String) : Option (DMat n m Rat × List String) := do
  let (r, c, rows, rest) ← takeMat? ts
  if r = n ∧ c = m then some (DMat.ofRaw rows, rest) else none

def showD {n m : Nat} (A : DMat n m Rat) : String := showRows A.toRows

def reply (parts : List String) : String := "ok " ++ " | ".intercalate parts

def stepPost (n s : Nat) (ts : List String) : Option String := do
  let (J, ts) ← takeD (n + s) (n + s) ts
  let (mj, ts) ← takeD (n + s) 1 ts
  let (S, ts) ← takeD n n ts
  let (y, ts) ← takeD n 1 ts
  let (St, ts) ← takeD s s ts
  let codes : List Nat := match ts with
    | c :: rest => (rest.take (c.toNat?.getD 0)).filterMap String.toNat?
    | [] => []
  match posterior J mj S y St with
  | some P =>
    let A := marginal (trainBlock J) S
    let mx := (splitMean mj).1
    let gen := codes.map fun code =>
      match Gen.ExactAlgebra.exact_prediction (cfgOf code Policy.ignore) J mj A mx y (DMat.zero : DMat n 1 Rat)
              (fun _ => true) 0 with
      | some (m, C) => showD m ++ " | " ++ showD C
      | none => "nogen"
    some (reply ([showD P.alpha, showD P.mean, showD P.covar, showD P.covarNoisy, showD P.Ainv] ++ gen))
  | none => some "singular"

def stepRoot (n s k : Nat) (ts : List String) : Option String := do
  let (J, ts) ← takeD (n + s) (n + s) ts
  let (R, ts) ← takeD n k ts
  let code := (ts.head?.bind String.toNat?).getD 1
  let cfg := cfgOf code Policy.ignore
  -- the generated split (eager / lazy as in cfg) feeds the generated fast-path covariance
  let sp := Gen.ExactAlgebra.split cfg J (DMat.zero : DMat (n + s) 1 Rat)
  let hand := predCovarRoot (splitLazy J).2 (splitLazy J).1 R
  match Gen.ExactAlgebra.exact_predictive_covar { cfg with ttIsTensor := cfg.eager } sp.2.2.1 sp.2.2.2
          (DMat.zero : DMat n n Rat) R (fun _ => true) with
  | some C => some (reply [showD C, showD (rootGram R), showD hand])
  | none => some "nogen"

def stepGiven (n s : Nat) (ts : List String) : Option String := do
  let (mt, ts) ← takeD s 1 ts
  let (Kts, ts) ← takeD s n ts
  let (a, _) ← takeD n 1 ts
  some (reply [showD (predMean mt Kts a)])

def stepSolve (n s : Nat) (ts : List String) : Option String := do
  let (Ktt, ts) ← takeD s s ts
  let (Kts, ts) ← takeD s n ts
  let (X, _) ← takeD n s ts
  some (reply [showD (predCovarOfSolve Ktt Kts X), showD (predCovarOfSolveNeg Ktt Kts X)])

def stepChol (n p : Nat) (ts : List String) : Option String := do
  let (L, ts) ← takeD n n ts
  let (r, _) ← takeD n p ts
  match cholSolve L r with
  | some x => some (reply [showD x])
  | none => some "singular"

/-! ### call structure (generated) -/

def natList (ts : List String) : List Nat := ts.filterMap String.toNat?

def stepMode (ts : List String) : Option String :=
  let out := (natList ts).map fun k =>
    let c := ExactCall.cfgOfCode k
    s!"{(Gen.ExactCall.callMode c).code} {(ExactCall.callSpec c).code}"
  some ("ok " ++ " ".intercalate out)

/-- row-id tensor: batch shape `bt` (torch order), `n` rows, values `off + flat position`. -/
def rowIds (n : Nat) (bt : List Nat) (off : Nat) : Bcast.T Nat :=
  let sh := n :: Bcast.ofTorch bt
  ⟨sh, fun idx => off + Bcast.flat sh idx⟩

def showT (t : Bcast.T Nat) : String :=
  let sh := Bcast.toTorch t.shape
  " ".intercalate ((toString sh.length :: sh.map toString) ++ [toString (Bcast.numel t.shape)] ++ t.toFlat.map toString)

def stepCat (n s : Nat) (ts : List String) : Option String := do
  let v := natList ts
  let r ← v.head?
  let bt := (v.drop 1).take r
  let q ← (v.drop (1 + r)).head?
  let bi := (v.drop (2 + r)).take q
  let tr := rowIds n bt 0
  let te := rowIds s bi (Bcast.numel tr.shape)
  match Gen.ExactCall.catInputs tr te, ExactCall.concatSpec tr te with
  | some g, some m => some ("ok " ++ showT g ++ " | " ++ showT m)
  | none, none => some "none none"
  | none, some _ => some "none some"
  | some _, none => some "some none"

def stepMt (n s t : Nat) : Option String :=
  let (joint, train) := if t = 0 then ([n + s], [n]) else ([n + s, t], [n, t])
  let m := if t = 0 then 1 else t
  let mj : Bcast.T Nat := ⟨[(n + s) * m], fun idx => idx.headD 0⟩
  let v := Gen.ExactCall.viewPredMean (Gen.ExactCall.testMean mj train) joint train
  let tsh := Gen.ExactCall.testShape joint train
  let y : Bcast.T Nat := ⟨Bcast.ofTorch train, Bcast.flat (Bcast.ofTorch train)⟩
  let fl := Gen.ExactCall.flattenLabels y train
  some ("ok " ++ " ".intercalate ([toString (Gen.ExactCall.numTrain train), toString tsh.length] ++ tsh.map toString)
        ++ " | " ++ " ".intercalate (v.toFlat.map toString) ++ " | " ++ " ".intercalate (fl.toFlat.map toString))

def stepDet : Option String :=
  let bit (b : Bool) : String := if b then "1" else "0"
  let pols := [Policy.ignore, Policy.mask, Policy.fill]
  let ms := pols.flatMap fun p => [bit (Gen.ExactCall.meanCacheDetached p true), bit (Gen.ExactCall.meanCacheDetached p false)]
  some ("ok " ++ " ".intercalate (ms ++ [bit (Gen.ExactCall.covarCacheDetached true), bit (Gen.ExactCall.covarCacheDetached false),
    bit (Gen.ExactCall.solveOperandDetached true), bit (Gen.ExactCall.solveOperandDetached false)]))

def step (line : String) : String :=
  let r : Option String :=
    match tokens line with
    | "post" :: n :: s :: ts => do stepPost (← n.toNat?) (← s.toNat?) ts
    | "root" :: n :: s :: k :: ts => do stepRoot (← n.toNat?) (← s.toNat?) (← k.toNat?) ts
    | "given" :: n :: s :: ts => do stepGiven (← n.toNat?) (← s.toNat?) ts
    | "solve" :: n :: s :: ts => do stepSolve (← n.toNat?) (← s.toNat?) ts
    | "chol" :: n :: p :: ts => do stepChol (← n.toNat?) (← p.toNat?) ts
    | "mode" :: ts => stepMode ts
    | "cat" :: n :: s :: ts => do stepCat (← n.toNat?) (← s.toNat?) ts
    | "mt" :: n :: s :: t :: _ => do stepMt (← n.toNat?) (← s.toNat?) (← t.toNat?)
    | "det" :: _ => stepDet
    | _ => none
  r.getD "bad-request"

def main : IO Unit := Proto.main step

/-
Line-protocol driver for C01 (runs the definitions of GPVerif/Model/ExactGP.lean at ℚ).

Requests (one per line; matrices as `rows cols v11 v12 …`, exact rationals, no separators):
  post  n s  J[(n+s)×(n+s)] mj[(n+s)×1] S[n×n] y[n×1] St[s×s]  c cfg_1 … cfg_c
        -> ok alpha | mean | covar | covarNoisy | Ainv | gmean_1 | gcovar_1 | … | gmean_c | gcovar_c   (or `singular`)
           the first five from the hand-written model (the specification, `ExactGP.posterior`), the g* from the
           GENERATED `Gen.ExactAlgebra.exact_prediction` (translator G7) under the branch configuration cfg_i
           (bit mask: 1 fast, 2 skip, 4 detach, 8 eager, 16 ttDim2; policy ignore; only non-fast or skip cfgs);
           `nogen` in place of a pair when the generated function returns none
  root  n s k  J[(n+s)×(n+s)] R[n×k] cfg
        -> ok covar | R Rᵀ | predCovarRoot      covar = GENERATED split + `exact_predictive_covar` on its fast_pred_var
           branch (cfg has bit 1, bit 8 = eager) at the *observed* covar_cache R; predCovarRoot = hand-written model
           (= the specification given R)
  given n s  mt[s×1] Kts[s×n] a[n×1]
        -> ok predMean                                            (mean from the *observed* mean_cache)
  solve n s  Ktt[s×s] Kts[s×n] X[n×s]
        -> ok predCovarOfSolve | predCovarOfSolveNeg              (covariance from an observed solve)
  chol  n p  L[n×n] r[n×p]
        -> ok cholSolve                                           (or `singular`)
-/
import GPVerif.Model.ExactGP
import GPVerif.Gen.ExactAlgebra
import GPVerif.Model.Proto
open Proto ExactGP

def cfgOf (code : Nat) (pol : Policy) : Gen.ExactAlgebra.Cfg :=
  { fast := code % 2 == 1, skip := (code / 2) % 2 == 1, detach := (code / 4) % 2 == 1, eager := (code / 8) % 2 == 1,
    ttDim2 := (code / 16) % 2 == 1, ttIsTensor := (code / 32) % 2 == 1, cache4d := false, policy := pol }

def takeD (n m : Nat) (ts : List String) : Option (DMat n m Rat × List String) := do
  let (r, c, rows, rest) ← takeMat? ts
  if r = n ∧ c = m then some (DMat.ofRaw rows, rest) else none

def showD {n m : Nat} (A : DMat n m Rat) : String := showRows A.toRows

def reply (parts : List String) : String := "ok " ++ " | ".intercalate parts

def stepPost (n s : Nat) (ts : List String) : Option String := do
  let (J, ts) ← takeD (n + s) (n + s) ts
  let (mj, ts) ← takeD (n + s) 1 ts
  let (S, ts) ← takeD n n ts
  let (y, ts) ← takeD n 1 ts
  let (St, ts) ← takeD s s ts
  let codes : List Nat := match ts with
    | c :: rest => (rest.take (c.toNat?.getD 0)).filterMap String.toNat?
    | [] => []
  match posterior J mj S y St with
  | some P =>
    let A := marginal (trainBlock J) S
    let mx := (splitMean mj).1
    let gen := codes.map fun code =>
      match Gen.ExactAlgebra.exact_prediction (cfgOf code Policy.ignore) J mj A mx y (DMat.zero : DMat n 1 Rat)
              (fun _ => true) 0 with
      | some (m, C) => showD m ++ " | " ++ showD C
      | none => "nogen"
    some (reply ([showD P.alpha, showD P.mean, showD P.covar, showD P.covarNoisy, showD P.Ainv] ++ gen))
  | none => some "singular"

def stepRoot (n s k : Nat) (ts : List String) : Option String := do
  let (J, ts) ← takeD (n + s) (n + s) ts
  let (R, ts) ← takeD n k ts
  let code := (ts.head?.bind String.toNat?).getD 1
  let cfg := cfgOf code Policy.ignore
  -- the generated split (eager / lazy as in cfg) feeds the generated fast-path covariance
  let sp := Gen.ExactAlgebra.split cfg J (DMat.zero : DMat (n + s) 1 Rat)
  let hand := predCovarRoot (splitLazy J).2 (splitLazy J).1 R
  match Gen.ExactAlgebra.exact_predictive_covar { cfg with ttIsTensor := cfg.eager } sp.2.2.1 sp.2.2.2
          (DMat.zero : DMat n n Rat) R (fun _ => true) with
  | some C => some (reply [showD C, showD (rootGram R), showD hand])
  | none => some "nogen"

def stepGiven (n s : Nat) (ts : List String) : Option String := do
  let (mt, ts) ← takeD s 1 ts
  let (Kts, ts) ← takeD s n ts
  let (a, _) ← takeD n 1 ts
  some (reply [showD (predMean mt Kts a)])

def stepSolve (n s : Nat) (ts : List String) : Option String := do
  let (Ktt, ts) ← takeD s s ts
  let (Kts, ts) ← takeD s n ts
  let (X, _) ← takeD n s ts
  some (reply [showD (predCovarOfSolve Ktt Kts X), showD (predCovarOfSolveNeg Ktt Kts X)])

def stepChol (n p : Nat) (ts : List String) : Option String := do
  let (L, ts) ← takeD n n ts
  let (r, _) ← takeD n p ts
  match cholSolve L r with
  | some x => some (reply [showD x])
  | none => some "singular"

def step (line : String) : String :=
  let r : Option String :=
    match tokens line with
    | "post" :: n :: s :: ts => do stepPost (← n.toNat?) (← s.toNat?) ts
    | "root" :: n :: s :: k :: ts => do stepRoot (← n.toNat?) (← s.toNat?) (← k.toNat?) ts
    | "given" :: n :: s :: ts => do stepGiven (← n.toNat?) (← s.toNat?) ts
    | "solve" :: n :: s :: ts => do stepSolve (← n.toNat?) (← s.toNat?) ts
    | "chol" :: n :: p :: ts => do stepChol (← n.toNat?) (← p.toNat?) ts
    | _ => none
  r.getD "bad-request"

def main : IO Unit := Proto.main step

/-
Line-protocol driver for C01 (runs the definitions of GPVerif/Model/ExactGP.lean at ℚ).

Requests (one per line; matrices as `rows cols v11 v12 …`, exact rationals, no separators):
  post  n s  J[(n+s)×(n+s)] mj[(n+s)×1] S[n×n] y[n×1] St[s×s]
        -> ok alpha | mean | covar | covarNoisy | Ainv            (or `singular`)
  root  n s k  Ktt[s×s] Kts[s×n] R[n×k]
        -> ok predCovarRoot | R Rᵀ                                (fast path from the *observed* covar_cache)
  given n s  mt[s×1] Kts[s×n] a[n×1]
        -> ok predMean                                            (mean from the *observed* mean_cache)
  solve n s  Ktt[s×s] Kts[s×n] X[n×s]
        -> ok predCovarOfSolve | predCovarOfSolveNeg              (covariance from an observed solve)
  chol  n p  L[n×n] r[n×p]
        -> ok cholSolve                                           (or `singular`)
-/
import GPVerif.Model.ExactGP
import GPVerif.Model.Proto
open Proto ExactGP

def takeD (n m : Nat) (ts : List String) : Option (DMat n m Rat × List String) := do
  let (r, c, rows, rest) ← takeMat? ts
  if r = n ∧ c = m then some (DMat.ofRaw rows, rest) else none

def showD {n m : Nat} (A : DMat n m Rat) : String := showRows A.toRows

def reply (parts : List String) : String := "ok " ++ " | ".intercalate parts

def stepPost (n s : Nat) (ts : List String) : Option String := do
  let (J, ts) ← takeD (n + s) (n + s) ts
  let (mj, ts) ← takeD (n + s) 1 ts
  let (S, ts) ← takeD n n ts
  let (y, ts) ← takeD n 1 ts
  let (St, _) ← takeD s s ts
  match posterior J mj S y St with
  | some P => some (reply [showD P.alpha, showD P.mean, showD P.covar, showD P.covarNoisy, showD P.Ainv])
  | none => some "singular"

def stepRoot (n s k : Nat) (ts : List String) : Option String := do
  let (Ktt, ts) ← takeD s s ts
  let (Kts, ts) ← takeD s n ts
  let (R, _) ← takeD n k ts
  some (reply [showD (predCovarRoot Ktt Kts R), showD (rootGram R)])

def stepGiven (n s : Nat) (ts : List String) : Option String := do
  let (mt, ts) ← takeD s 1 ts
  let (Kts, ts) ← takeD s n ts
  let (a, _) ← takeD n 1 ts
  some (reply [showD (predMean mt Kts a)])

def stepSolve (n s : Nat) (ts : List String) : Option String := do
  let (Ktt, ts) ← takeD s s ts
  let (Kts, ts) ← takeD s n ts
  let (X, _) ← takeD n s ts
  some (reply [showD (predCovarOfSolve Ktt Kts X), showD (predCovarOfSolveNeg Ktt Kts X)])

def stepChol (n p : Nat) (ts : List String) : Option String := do
  let (L, ts) ← takeD n n ts
  let (r, _) ← takeD n p ts
  match cholSolve L r with
  | some x => some (reply [showD x])
  | none => some "singular"

def step (line : String) : String :=
  let r : Option String :=
    match tokens line with
    | "post" :: n :: s :: ts => do stepPost (← n.toNat?) (← s.toNat?) ts
    | "root" :: n :: s :: k :: ts => do stepRoot (← n.toNat?) (← s.toNat?) (← k.toNat?) ts
    | "given" :: n :: s :: ts => do stepGiven (← n.toNat?) (← s.toNat?) ts
    | "solve" :: n :: s :: ts => do stepSolve (← n.toNat?) (← s.toNat?) ts
    | "chol" :: n :: p :: ts => do stepChol (← n.toNat?) (← p.toNat?) ts
    | _ => none
  r.getD "bad-request"

def main : IO Unit := Proto.main step

import GPVerif.Model.KernelIndex
import GPVerif.Model.KernelIndexExec
import GPVerif.Gen.LazyIndex
import GPVerif.Model.Proto
open Bcast PyIndex KernelIndex

/-! Line protocol of the C06 driver (all integers; `N` = None):

  idx   <shape> | <items>                           → dense indexing plan (L1 model of torch)
  lazy  <x1 batch> ; <x2 batch> ; <kernel batch> ; n1 n2 | <items>
                                                    → the lazy `_getitem` path and the direct path
  mo    n1 n2 tr tc | s e st isSlice | s e st isSlice → generated multi-output slice division
  aux   <x1 batch> ; <x2 batch> ; <kernel batch> ; n1 n2 r c
                                                    → diag / swapped inputs / repeat, as offsets into dense K(x1,x2)
  blocks <x batch> ; <kernel batch> ; na nb         → K on stacked inputs: per entry (block, offset in block)
  kget  <kernel batch> ; <active_dims|N> | <items>  → Kernel.__getitem__ (generated flag): shape, active_dims, params
  kexp  <kernel batch> ; <new batch> ; <active_dims|N> → Kernel.expand_batch
  flags                                             → the generated flags

shapes: comma separated ints (`-` = empty); items: `;`-separated  i:<k> | s:<a>:<b>:<c> | t:<k,k,…> | e
-/

def commaNats (s : String) : Option (List Nat) :=
  if s = "-" ∨ s = "" then some [] else (s.splitOn ",").mapM String.toNat?
def commaInts (s : String) : Option (List Int) :=
  if s = "-" ∨ s = "" then some [] else (s.splitOn ",").mapM String.toInt?
def optInt (s : String) : Option (Option Int) := if s = "N" then some none else s.toInt?.map some

def parseItem (s : String) : Option Item :=
  match s.splitOn ":" with
  | ["e"] => some .ellipsis
  | ["i", k] => k.toInt?.map .int
  | ["s", a, b, c] => do some (.slice (← optInt a) (← optInt b) (← optInt c))
  | ["t", l] => (commaInts l).map .tensor
  | _ => none

def parseItems (s : String) : Option (List Item) :=
  let s := s.trimAscii.toString
  if s = "" ∨ s = "-" then some [] else (s.splitOn ";").mapM fun t => parseItem t.trimAscii.toString

def showNats (l : List Nat) : String := if l.isEmpty then "-" else ",".intercalate (l.map toString)

def stepIdx (rest : String) : String :=
  match rest.splitOn "|" with
  | [sh, its] =>
    match commaNats sh.trimAscii.toString, parseItems its with
    | some shape, some items =>
      match indexFlat shape items with
      | some (rs, pos) => s!"shape={showNats rs};pos={showNats pos}"
      | none => "none"
    | _, _ => "bad-request"
  | _ => "bad-request"

def stepLazy (rest : String) : String :=
  match rest.splitOn "|" with
  | [hd, its] =>
    match (hd.splitOn ";").map (·.trimAscii.toString), parseItems its with
    | [b1, b2, bk, nn], some items =>
      match commaNats b1, commaNats b2, commaNats bk, (Proto.tokens nn).mapM String.toNat? with
      | some b1, some b2, some bk, some [n1, n2] =>
        match lazyPositions (ofTorch b1) (ofTorch b2) (ofTorch bk) n1 n2 items with
        | some r => s!"shape={showNats r.shape};x1={showNats r.x1pos};x2={showNats r.x2pos};th={showNats r.thpos};dense={showNats r.densepos};direct={showNats r.directpos}"
        | none => "none"
      | _, _, _, _ => "bad-request"
    | _, _ => "bad-request"
  | _ => "bad-request"

def stepMo (rest : String) : String :=
  match (rest.splitOn "|").map Proto.tokens with
  | [hd, rsl, csl] =>
    match hd.mapM String.toNat?, rsl.mapM optInt, csl.mapM optInt with
    | some [n1, n2, tr, tc], some [rs, re, rst, some rIs], some [cs, ce, cst, some cIs] =>
      let nRows : Int := ((n1 * tr : Nat) : Int)
      let nCols : Int := ((n2 * tc : Nat) : Int)
      match Gen.LazyIndex.divide (rs, re, rst) (cs, ce, cst) (rIs != 0) (cIs != 0) nRows nCols tr tc with
      | none => "fallback"
      | some ((a, b), (c, d)) =>
        -- the code then applies slice(a, b, None) / slice(c, d, None) to the points of x1 / x2
        match slicePositions n1 (some a) (some b) none, slicePositions n2 (some c) (some d) none with
        | some p1, some p2 =>
          s!"rows={a},{b};cols={c},{d};x1pts={showNats p1};x2pts={showNats p2};rowpos={showNats (multiRows tr p1)};colpos={showNats (multiRows tc p2)}"
        | _, _ => "none"
    | _, _, _ => "bad-request"
  | _ => "bad-request"

def showOptNats (o : Option (List Nat)) : String := match o with | none => "N" | some l => showNats l

def optNats (s : String) : Option (Option (List Nat)) :=
  let s := s.trimAscii.toString
  if s = "N" then some none else (commaNats s).map some

def stepAux (rest : String) : String :=
  match (rest.splitOn ";").map (·.trimAscii.toString) with
  | [b1, b2, bk, nn] =>
    match commaNats b1, commaNats b2, commaNats bk, (Proto.tokens nn).mapM String.toNat? with
    | some b1, some b2, some bk, some [n1, n2, r, c] =>
      match auxPositions (ofTorch b1) (ofTorch b2) (ofTorch bk) n1 n2 r c with
      | some a => s!"bshape={showNats a.bshape};diag={showOptNats a.diag};swap={showOptNats a.swap};rep={showOptNats a.rep}"
      | none => "none"
    | _, _, _, _ => "bad-request"
  | _ => "bad-request"

def stepBlocks (rest : String) : String :=
  match (rest.splitOn ";").map (·.trimAscii.toString) with
  | [bx, bk, nn] =>
    match commaNats bx, commaNats bk, (Proto.tokens nn).mapM String.toNat? with
    | some bx, some bk, some [na, nb] =>
      match blockPositions (ofTorch bx) (ofTorch bk) na nb with
      | some l => s!"blk={showNats (l.map (·.1))};off={showNats (l.map (·.2))}"
      | none => "none"
    | _, _, _ => "bad-request"
  | _ => "bad-request"

def showKGet (r : KGetResult) : String :=
  s!"shape={showNats r.shape};ad={showOptNats r.activeDims};th={showNats r.th}"

def stepKGet (rest : String) : String :=
  match rest.splitOn "|" with
  | [hd, its] =>
    match (hd.splitOn ";").map (·.trimAscii.toString), parseItems its with
    | [kb, ad], some items =>
      match commaNats kb, optNats ad with
      | some kb, some ad =>
        match kgetPositions Gen.LazyIndex.getitemIndexesActiveDims (ofTorch kb) ad items with
        | some r => showKGet r
        | none => "none"
      | _, _ => "bad-request"
    | _, _ => "bad-request"
  | _ => "bad-request"

def stepKExp (rest : String) : String :=
  match (rest.splitOn ";").map (·.trimAscii.toString) with
  | [kb, nw, ad] =>
    match commaNats kb, commaNats nw, optNats ad with
    | some kb, some nw, some ad =>
      match kexpandPositions Gen.LazyIndex.expandBatchExpandsActiveDims (ofTorch kb) (ofTorch nw) ad with
      | some r => showKGet r
      | none => "none"
    | _, _, _ => "bad-request"
  | _ => "bad-request"

def stepFlags : String :=
  s!"getitem_indexes_active_dims={Gen.LazyIndex.getitemIndexesActiveDims};expand_batch_expands_active_dims={Gen.LazyIndex.expandBatchExpandsActiveDims}"

def step (line : String) : String :=
  let line := line.trimAscii.toString
  match line.splitOn " " with
  | "idx" :: r => stepIdx (" ".intercalate r)
  | "lazy" :: r => stepLazy (" ".intercalate r)
  | "mo" :: r => stepMo (" ".intercalate r)
  | "aux" :: r => stepAux (" ".intercalate r)
  | "blocks" :: r => stepBlocks (" ".intercalate r)
  | "kget" :: r => stepKGet (" ".intercalate r)
  | "kexp" :: r => stepKExp (" ".intercalate r)
  | "flags" :: _ => stepFlags
  | _ => "bad-request"

def main : IO Unit := Proto.main step

import GPVerif.Model.KernelIndex
import GPVerif.Model.KernelIndexExec
import GPVerif.Gen.LazyIndex
import GPVerif.Gen.KernelCall
import GPVerif.Model.Proto
open Bcast PyIndex KernelIndex

/-! Line protocol of the C06 driver (all integers; `N` = None):

  idx   <shape> | <items>                           → dense indexing plan (L1 model of torch)
  lazy  <x1 batch> ; <x2 batch> ; <kernel batch> ; n1 n2 | <items>
                                                    → the lazy `_getitem` path and the direct path
  mo    n1 n2 tr tc | s e st isSlice | s e st isSlice → generated multi-output slice division
  aux   <x1 batch> ; <x2 batch> ; <kernel batch> ; n1 n2 r c
                                                    → diag / swapped inputs / repeat, as offsets into dense K(x1,x2)
  blocks <x batch> ; <kernel batch> ; na nb         → K on stacked inputs: per entry (block, offset in block)
  kget  <kernel batch> ; <active_dims|N> | <items>  → Kernel.__getitem__ (generated flag): shape, active_dims, params
  kexp  <kernel batch> ; <new batch> ; <active_dims|N> → Kernel.expand_batch
  flags                                             → the generated flags
  gk    <family> | <kernel batch> ; <x1 batch> ; <x2 batch> ; n1 n2 d | <θ per kernel batch element: nl ls… np ps… s k>
        | <x1 storage> | <x2 storage> | <items>     → the REGENERATED matrix-level forward (`Gen.KernelCall.genMat`, Float):
                                                      on the selected rows / batch elements (lazy path), the selected entries
                                                      of the full evaluation, the full evaluation; IEEE bit patterns
  gkd   <diag family> | … (as gk, no items)         → regenerated `diag=True` forward and the diagonal of the regenerated matrix
  gkx   <family> | … (as gk) | r c                  → the regenerated forward on swapped, row-repeated and stacked inputs
  cprep <active_dims|N> ; <debug 0/1> ; <ard|N> ; <x1> ; <x2>   with x ::= N | v n | m <batch> n d   (arange values)
                                                    → the regenerated input preparation of `Kernel.__call__` run on them
  cdiag <b1> ; <b2> ; <bk> ; n1 n2 ldb resDim l2a l2b → regenerated `res.diagonal()` decision of `Kernel.__call__(diag=True)`
  gbranch rbf|matern g1 g2 <ard|N> diag ldb trace   → regenerated branch condition of `forward` (true = generic branch)
  gflags                                            → regenerated constants of covar_dist / the fast-path callbacks

shapes: comma separated ints (`-` = empty); items: `;`-separated  i:<k> | s:<a>:<b>:<c> | t:<k,k,…> | e
-/

def commaNats (s : String) : Option (List Nat) :=
  if s = "-" ∨ s = "" then some [] else (s.splitOn ",").mapM String.toNat?
def commaInts (s : String) : Option (List Int) :=
  if s = "-" ∨ s = "" then some [] else (s.splitOn ",").mapM String.toInt?
def optInt (s : String) : Option (Option Int) := if s = "N" then some none else s.toInt?.map some

def parseItem (s : String) : Option Item :=
  match s.splitOn ":" with
  | ["e"] => some .ellipsis
  | ["i", k] => k.toInt?.map .int
  | ["s", a, b, c] => do some (.slice (← optInt a) (← optInt b) (← optInt c))
  | ["t", l] => (commaInts l).map .tensor
  | _ => none

def parseItems (s : String) : Option (List Item) :=
  let s := s.trimAscii.toString
  if s = "" ∨ s = "-" then some [] else (s.splitOn ";").mapM fun t => parseItem t.trimAscii.toString

def showNats (l : List Nat) : String := if l.isEmpty then "-" else ",".intercalate (l.map toString)

def stepIdx (rest : String) : String :=
  match rest.splitOn "|" with
  | [sh, its] =>
    match commaNats sh.trimAscii.toString, parseItems its with
    | some shape, some items =>
      match indexFlat shape items with
      | some (rs, pos) => s!"shape={showNats rs};pos={showNats pos}"
      | none => "none"
    | _, _ => "bad-request"
  | _ => "bad-request"

def stepLazy (rest : String) : String :=
  match rest.splitOn "|" with
  | [hd, its] =>
    match (hd.splitOn ";").map (·.trimAscii.toString), parseItems its with
    | [b1, b2, bk, nn], some items =>
      match commaNats b1, commaNats b2, commaNats bk, (Proto.tokens nn).mapM String.toNat? with
      | some b1, some b2, some bk, some [n1, n2] =>
        match lazyPositions (ofTorch b1) (ofTorch b2) (ofTorch bk) n1 n2 items with
        | some r => s!"shape={showNats r.shape};x1={showNats r.x1pos};x2={showNats r.x2pos};th={showNats r.thpos};dense={showNats r.densepos};direct={showNats r.directpos}"
        | none => "none"
      | _, _, _, _ => "bad-request"
    | _, _ => "bad-request"
  | _ => "bad-request"

def stepMo (rest : String) : String :=
  match (rest.splitOn "|").map Proto.tokens with
  | [hd, rsl, csl] =>
    match hd.mapM String.toNat?, rsl.mapM optInt, csl.mapM optInt with
    | some [n1, n2, tr, tc], some [rs, re, rst, some rIs], some [cs, ce, cst, some cIs] =>
      let nRows : Int := ((n1 * tr : Nat) : Int)
      let nCols : Int := ((n2 * tc : Nat) : Int)
      match Gen.LazyIndex.divide (rs, re, rst) (cs, ce, cst) (rIs != 0) (cIs != 0) nRows nCols tr tc with
      | none => "fallback"
      | some ((a, b), (c, d)) =>
        -- the code then applies slice(a, b, None) / slice(c, d, None) to the points of x1 / x2
        match slicePositions n1 (some a) (some b) none, slicePositions n2 (some c) (some d) none with
        | some p1, some p2 =>
          s!"rows={a},{b};cols={c},{d};x1pts={showNats p1};x2pts={showNats p2};rowpos={showNats (multiRows tr p1)};colpos={showNats (multiRows tc p2)}"
        | _, _ => "none"
    | _, _, _ => "bad-request"
  | _ => "bad-request"

def showOptNats (o : Option (List Nat)) : String := match o with | none => "N" | some l => showNats l

def optNats (s : String) : Option (Option (List Nat)) :=
  let s := s.trimAscii.toString
  if s = "N" then some none else (commaNats s).map some

def stepAux (rest : String) : String :=
  match (rest.splitOn ";").map (·.trimAscii.toString) with
  | [b1, b2, bk, nn] =>
    match commaNats b1, commaNats b2, commaNats bk, (Proto.tokens nn).mapM String.toNat? with
    | some b1, some b2, some bk, some [n1, n2, r, c] =>
      match auxPositions (ofTorch b1) (ofTorch b2) (ofTorch bk) n1 n2 r c with
      | some a => s!"bshape={showNats a.bshape};diag={showOptNats a.diag};swap={showOptNats a.swap};rep={showOptNats a.rep}"
      | none => "none"
    | _, _, _, _ => "bad-request"
  | _ => "bad-request"

def stepBlocks (rest : String) : String :=
  match (rest.splitOn ";").map (·.trimAscii.toString) with
  | [bx, bk, nn] =>
    match commaNats bx, commaNats bk, (Proto.tokens nn).mapM String.toNat? with
    | some bx, some bk, some [na, nb] =>
      match blockPositions (ofTorch bx) (ofTorch bk) na nb with
      | some l => s!"blk={showNats (l.map (·.1))};off={showNats (l.map (·.2))}"
      | none => "none"
    | _, _, _ => "bad-request"
  | _ => "bad-request"

def showKGet (r : KGetResult) : String :=
  s!"shape={showNats r.shape};ad={showOptNats r.activeDims};th={showNats r.th}"

def stepKGet (rest : String) : String :=
  match rest.splitOn "|" with
  | [hd, its] =>
    match (hd.splitOn ";").map (·.trimAscii.toString), parseItems its with
    | [kb, ad], some items =>
      match commaNats kb, optNats ad with
      | some kb, some ad =>
        match kgetPositions Gen.LazyIndex.getitemIndexesActiveDims (ofTorch kb) ad items with
        | some r => showKGet r
        | none => "none"
      | _, _ => "bad-request"
    | _, _ => "bad-request"
  | _ => "bad-request"

def stepKExp (rest : String) : String :=
  match (rest.splitOn ";").map (·.trimAscii.toString) with
  | [kb, nw, ad] =>
    match commaNats kb, commaNats nw, optNats ad with
    | some kb, some nw, some ad =>
      match kexpandPositions Gen.LazyIndex.expandBatchExpandsActiveDims (ofTorch kb) (ofTorch nw) ad with
      | some r => showKGet r
      | none => "none"
    | _, _, _ => "bad-request"
  | _ => "bad-request"

def stepFlags : String :=
  s!"getitem_indexes_active_dims={Gen.LazyIndex.getitemIndexesActiveDims};expand_batch_expands_active_dims={Gen.LazyIndex.expandBatchExpandsActiveDims}"

/-! ### regenerated kernels at the matrix level (`Gen/KernelCall.lean`) -/

open KernelMatrix in
def famOfName : String → Option Fam
  | "rbfGeneric" => some .rbfGeneric | "rbfFast" => some .rbfFast
  | "matern12Generic" => some .matern12Generic | "matern32Generic" => some .matern32Generic
  | "matern52Generic" => some .matern52Generic
  | "matern12Fast" => some .matern12Fast | "matern32Fast" => some .matern32Fast | "matern52Fast" => some .matern52Fast
  | "rq" => some .rq | "periodic" => some .periodic | "cosine" => some .cosine
  | "linear" => some .linear | "linearSame" => some .linearSame
  | "polynomial" => some .polynomial | "polynomialBatched" => some .polynomialBatched
  | "pp0" => some .pp0 | "pp1" => some .pp1 | "pp2" => some .pp2 | "pp3" => some .pp3
  | "constant" => some .constant
  | _ => none

open KernelMatrix in
def diagFamOfName : String → Option DiagFam
  | "rbf" => some .rbf | "rq" => some .rq | "periodic" => some .periodic | "polynomial" => some .polynomial
  | "constant" => some .constant
  | _ => none

def showBits (l : List Float) : String := if l.isEmpty then "-" else ",".intercalate (l.map fun x => toString x.toBits.toNat)

def floatsOf (s : String) : Option (Array Float) :=
  ((Proto.tokens s).mapM Proto.parseRat?).map fun l => (l.map Scalar.floatOfRat).toArray

def takeFloats (n : Nat) (ts : List String) : Option (List Float × List String) :=
  if ts.length < n then none else ((ts.take n).mapM Proto.parseRat?).map fun l => (l.map Scalar.floatOfRat, ts.drop n)

open KernelMatrix in
/-- `nl ls… np ps… s k`, once per kernel batch element -/
def parseThetas : Nat → List String → Option (List (Theta Float))
  | 0, _ => some []
  | n + 1, ts => do
    let nl ← ts.head?.bind String.toNat?
    let (ls, ts) ← takeFloats nl ts.tail
    let np ← ts.head?.bind String.toNat?
    let (ps, ts) ← takeFloats np ts.tail
    let ([sv], ts) ← takeFloats 1 ts | none
    let k ← ts.head?.bind String.toNat?
    let rest ← parseThetas n ts.tail
    some (⟨ls, ps, sv, k⟩ :: rest)

open KernelMatrix in
structure GkSetup where
  bs : RShape
  p : Params (Theta Float)
  x1 : Inputs (List Float)
  x2 : Inputs (List Float)

open KernelMatrix in
def gkSetup (hd par d1 d2 : String) : Option GkSetup :=
  match (hd.splitOn ";").map (·.trimAscii.toString) with
  | [kb, b1, b2, nn] => do
    let kb ← commaNats kb; let b1 ← commaNats b1; let b2 ← commaNats b2
    let [n1, n2, d] ← (Proto.tokens nn).mapM String.toNat? | none
    let kb := ofTorch kb; let b1 := ofTorch b1; let b2 := ofTorch b2
    let bs ← bcastR3 b1 b2 kb
    let ths ← parseThetas (numel kb) (Proto.tokens par)
    let dflt : Theta Float := ⟨[], [], 0.0, 0⟩
    let p : Params (Theta Float) := ⟨kb, fun b => ths.getD (flat kb b) dflt⟩
    let a1 ← floatsOf d1; let a2 ← floatsOf d2
    if a1.size != numel b1 * n1 * d || a2.size != numel b2 * n2 * d then none else
    some ⟨bs, p, ofStorage b1 n1 d a1, ofStorage b2 n2 d a2⟩
  | _ => none

open KernelMatrix in
def stepGk (rest : String) : String :=
  match (rest.splitOn "|").map (·.trimAscii.toString) with
  | [fam, hd, par, d1, d2, its] =>
    match famOfName fam, gkSetup hd par d1 d2, parseItems its with
    | some f, some g, some items =>
      let full := toTorch g.bs ++ [g.x1.n, g.x2.n]
      match normalize full items with
      | none => "none"
      | some nit =>
        if countAdv nit > 1 then "none" else
        let rank := g.bs.length
        let batch := (nit.take rank).reverse
        let (rws, sqR) := asSel (nit.getD rank (.sel []))
        let (cols, sqC) := asSel (nit.getD (rank + 1) (.sel []))
        let F := Gen.KernelCall.genMat (Prims.euclid (α := Float)) f
        let x1' := g.x1.getitem batch rws
        let x2' := g.x2.getitem batch cols
        let m := inputsEqual g.x1 g.x2
        let m' := inputsEqual x1' x2'
        let D := evalDenseMat F m g.bs g.p g.x1 g.x2
        let L := evalDenseMat F m' (selShape batch) (g.p.getitem batch) x1' x2'
        let viaDense := indexDense batch rws cols D
        let shape := toTorch (selShape batch) ++ (if sqR then [] else [rws.length]) ++ (if sqC then [] else [cols.length])
        s!"shape={showNats shape};same={m},{m'};lazy={showBits L.toFlat};direct={showBits viaDense.toFlat};full={showBits D.toFlat}"
    | _, _, _ => "bad-request"
  | _ => "bad-request"

open KernelMatrix in
def stepGkd (rest : String) : String :=
  match (rest.splitOn "|").map (·.trimAscii.toString) with
  | [fam, hd, par, d1, d2] =>
    match diagFamOfName fam, gkSetup hd par d1 d2 with
    | some gf, some g =>
      if g.x1.n != g.x2.n then "none" else
      let P := Prims.euclid (α := Float)
      let m := inputsEqual g.x1 g.x2
      let dv := evalDiagMat (Gen.KernelCall.genDiag P gf) m g.bs g.p g.x1 g.x2
      let fd := diagonal (evalDenseMat (Gen.KernelCall.genMat P gf.toFam) m g.bs g.p g.x1 g.x2)
      let fast := if gf == .rbf then
          showBits (diagonal (evalDenseMat (Gen.KernelCall.genMat P .rbfFast) m g.bs g.p g.x1 g.x2)).toFlat else "-"
      s!"same={m};diag={showBits dv.toFlat};fulldiag={showBits fd.toFlat};fastdiag={fast}"
    | _, _ => "bad-request"
  | _ => "bad-request"

open KernelMatrix in
def stepGkx (rest : String) : String :=
  match (rest.splitOn "|").map (·.trimAscii.toString) with
  | [fam, hd, par, d1, d2, rc] =>
    match famOfName fam, gkSetup hd par d1 d2, (Proto.tokens rc).mapM String.toNat? with
    | some f, some g, some [r, c] =>
      let F := Gen.KernelCall.genMat (Prims.euclid (α := Float)) f
      let sw := evalDenseMat F (inputsEqual g.x2 g.x1) g.bs g.p g.x2 g.x1
      let x1r := g.x1.repeatRows r
      let x2r := g.x2.repeatRows c
      let rp := evalDenseMat F (inputsEqual x1r x2r) g.bs g.p x1r x2r
      let st := if g.x1.bshape == g.x2.bshape then
          let xs := g.x1.cat g.x2
          showBits (evalDenseMat F true g.bs g.p xs xs).toFlat
        else "-"
      s!"swap={showBits sw.toFlat};rep={showBits rp.toFlat};stack={st}"
    | _, _, _ => "bad-request"
  | _ => "bad-request"

/-! ### `Kernel.__call__`: regenerated input preparation and `diag` decision -/

open KernelCall in
def parsePT (s : String) (base : Nat) : Option (Option (PT Nat)) :=
  match Proto.tokens s with
  | ["N"] => some none
  | ["v", n] => n.toNat?.map fun n => some (.vec ((List.range n).map (· + base)))
  | ["m", b, n, d] => do
    let b ← commaNats b; let n ← n.toNat?; let d ← d.toNat?
    let b := ofTorch b
    some (some (.mat d ⟨b, n, fun bi i => (List.range d).map fun c => base + (flat (n :: b) (i :: bi)) * d + c⟩))
  | _ => none

open KernelCall in
def showPT : Option (PT Nat) → String
  | none => "N"
  | some (.vec l) => s!"v {showNats l}"
  | some (.mat d x) =>
    let vals := (allIdx (x.n :: x.bshape)).flatMap fun idx => x.pt (idx.drop 1) (idx.getD 0 0)
    s!"m {showNats (toTorch x.bshape)} {x.n} {d} {showNats vals}"

open KernelCall in
def stepCPrep (rest : String) : String :=
  match (rest.splitOn ";").map (·.trimAscii.toString) with
  | [ad, dbg, ard, a, b] =>
    match optNats ad, dbg.toNat?, optNats ard, parsePT a 0, parsePT b 100000 with
    | some ad, some dbg, some ard, some (some x1), some x2 =>
      match run ⟨ad, dbg != 0, ard.bind List.head?⟩ Gen.KernelCall.callPrep (St.init x1 x2) with
      | .ok s => s!"ok;x1={showPT s.x1w};x2={showPT s.x2w}"
      | .raised => "raised"
      | .crashed => "crashed"
    | _, _, _, _, _ => "bad-request"
  | _ => "bad-request"

def stepCDiag (rest : String) : String :=
  match (rest.splitOn ";").map (·.trimAscii.toString) with
  | [b1, b2, bk, nn] =>
    match commaNats b1, commaNats b2, commaNats bk, (Proto.tokens nn).mapM String.toNat? with
    | some b1, some b2, some bk, some [n1, n2, ldb, resDim, la, lb] =>
      match Gen.KernelCall.callDiagTakesDiagonal (ofTorch b1) (ofTorch b2) (ofTorch bk) n1 n2 (ldb != 0) resDim (la, lb) with
      | some r => toString r
      | none => "none"
    | _, _, _, _ => "bad-request"
  | _ => "bad-request"

def stepGBranch (ts : List String) : String :=
  match ts with
  | [which, g1, g2, ard, diag, ldb, tr] =>
    let b (s : String) := s != "0"
    let ardv : Option Nat := if ard = "N" then none else ard.toNat?
    if which = "rbf" then toString (Gen.KernelCall.rbfTakesGeneric (b g1) (b g2) ardv (b diag) (b ldb) (b tr))
    else if which = "matern" then toString (Gen.KernelCall.maternTakesGeneric (b g1) (b g2) ardv (b diag) (b ldb) (b tr))
    else "bad-request"
  | _ => "bad-request"

def stepGFlags : String :=
  s!"transposes={Gen.KernelCall.covarDistTransposesLastDim};defaults={Gen.KernelCall.covarDistDefaults};rbf_fast={Gen.KernelCall.rbfFastCallback};matern_fast={Gen.KernelCall.maternFastCallback}"

def step (line : String) : String :=
  let line := line.trimAscii.toString
  match line.splitOn " " with
  | "idx" :: r => stepIdx (" ".intercalate r)
  | "lazy" :: r => stepLazy (" ".intercalate r)
  | "mo" :: r => stepMo (" ".intercalate r)
  | "aux" :: r => stepAux (" ".intercalate r)
  | "blocks" :: r => stepBlocks (" ".intercalate r)
  | "kget" :: r => stepKGet (" ".intercalate r)
  | "kexp" :: r => stepKExp (" ".intercalate r)
  | "flags" :: _ => stepFlags
  | "gk" :: r => stepGk (" ".intercalate r)
  | "gkd" :: r => stepGkd (" ".intercalate r)
  | "gkx" :: r => stepGkx (" ".intercalate r)
  | "cprep" :: r => stepCPrep (" ".intercalate r)
  | "cdiag" :: r => stepCDiag (" ".intercalate r)
  | "gbranch" :: r => stepGBranch (r.filter (· != ""))
  | "gflags" :: _ => stepGFlags
  | _ => "bad-request"

def main : IO Unit := Proto.main step

import Mathlib.Analysis.Calculus.Deriv.Add
import Mathlib.Analysis.Calculus.Deriv.Mul
import Mathlib.Analysis.Calculus.Deriv.Pow
import Mathlib.Analysis.Calculus.Deriv.Inv
import Mathlib.Analysis.SpecialFunctions.Log.Deriv
import Mathlib.Tactic.Ring
import Mathlib.Tactic.FieldSimp
import Mathlib.Tactic.Linarith

/-!
# Scalar natural-gradient step (one inducing point)

`F` is `N · ELBO` for `M = 1` as a function of the expectation parameters
`ξ₁ = μ`, `ξ₂ = S + μ²` of the variational distribution `q = N(μ, S)`:
the likelihood part `-(1/2s)[R - 2 a μ + c (S + μ²) + tK - c]` minus
`KL(N(μ,S) ‖ N(0,1)) = ½ (S + μ² - 1 - log S)`.

The gradient with respect to the expectation parameters is affine in the natural
parameters `η₁ = ξ₁ / (ξ₂ - ξ₁²)`, `η₂ = -1 / (2 (ξ₂ - ξ₁²))`:
`∂F/∂ξ₁ = η₁* - η₁`, `∂F/∂ξ₂ = η₂* - η₂` with `η₁* = a / s`, `η₂* = -(1/2)(1 + c/s)`.
Hence a natural-gradient step of size one lands on the optimum from any start.
-/

namespace NgdScalar

/-- `N · ELBO` for one inducing point, in expectation parameters. -/
noncomputable def F (a c s R tK nlog : ℝ) (ξ₁ ξ₂ : ℝ) : ℝ :=
  -(1 / (2 * s)) * (R - 2 * a * ξ₁ + c * ξ₂ + tK - c) - nlog
    - (1/2) * (ξ₂ - 1 - Real.log (ξ₂ - ξ₁ ^ 2))

theorem hasDerivAt_xi1 (a c s R tK nlog ξ₁ ξ₂ : ℝ) (hS : 0 < ξ₂ - ξ₁ ^ 2) :
    HasDerivAt (fun x => F a c s R tK nlog x ξ₂) (a / s - ξ₁ / (ξ₂ - ξ₁ ^ 2)) ξ₁ := by
  have hne : ξ₂ - ξ₁ ^ 2 ≠ 0 := ne_of_gt hS
  have hid : HasDerivAt (fun x : ℝ => x) 1 ξ₁ := hasDerivAt_id ξ₁
  -- likelihood part
  have h1 : HasDerivAt (fun x : ℝ => R - 2 * a * x + c * ξ₂ + tK - c) (-(2 * a * 1)) ξ₁ := by
    have := ((((hasDerivAt_const ξ₁ R).sub (hid.const_mul (2 * a))).add_const (c * ξ₂)).add_const
      tK).sub_const c
    exact this.congr_deriv (by ring)
  -- S = ξ₂ - x^2
  have h2 : HasDerivAt (fun x : ℝ => ξ₂ - x ^ 2) (-(2 * ξ₁)) ξ₁ := by
    have := (hasDerivAt_const ξ₁ ξ₂).sub (hid.pow 2)
    exact this.congr_deriv (by simp)
  have h3 : HasDerivAt (fun x : ℝ => Real.log (ξ₂ - x ^ 2)) (-(2 * ξ₁) / (ξ₂ - ξ₁ ^ 2)) ξ₁ :=
    h2.log hne
  have h4 : HasDerivAt (fun x : ℝ => ξ₂ - 1 - Real.log (ξ₂ - x ^ 2))
      (0 - (-(2 * ξ₁) / (ξ₂ - ξ₁ ^ 2))) ξ₁ :=
    (hasDerivAt_const ξ₁ (ξ₂ - 1)).sub h3
  have h5 := (((h1.const_mul (-(1 / (2 * s)))).sub_const nlog).sub (h4.const_mul (1/2)))
  unfold F
  refine h5.congr_deriv ?_
  by_cases hs : s = 0
  · subst hs
    field_simp
    simp
  · field_simp
    ring

theorem hasDerivAt_xi2 (a c s R tK nlog ξ₁ ξ₂ : ℝ) (hS : 0 < ξ₂ - ξ₁ ^ 2) :
    HasDerivAt (fun x => F a c s R tK nlog ξ₁ x)
      (-(1/2) * (1 + c / s) - (-1 / (2 * (ξ₂ - ξ₁ ^ 2)))) ξ₂ := by
  have hne : ξ₂ - ξ₁ ^ 2 ≠ 0 := ne_of_gt hS
  have hid : HasDerivAt (fun x : ℝ => x) 1 ξ₂ := hasDerivAt_id ξ₂
  have h1 : HasDerivAt (fun x : ℝ => R - 2 * a * ξ₁ + c * x + tK - c) (c * 1) ξ₂ := by
    have := (((hid.const_mul c).const_add (R - 2 * a * ξ₁)).add_const tK).sub_const c
    exact this
  have h2 : HasDerivAt (fun x : ℝ => x - ξ₁ ^ 2) 1 ξ₂ := hid.sub_const _
  have h3 : HasDerivAt (fun x : ℝ => Real.log (x - ξ₁ ^ 2)) (1 / (ξ₂ - ξ₁ ^ 2)) ξ₂ :=
    h2.log hne
  have h4 : HasDerivAt (fun x : ℝ => x - 1 - Real.log (x - ξ₁ ^ 2))
      (1 - 1 / (ξ₂ - ξ₁ ^ 2)) ξ₂ :=
    (hid.sub_const 1).sub h3
  have h5 := (((h1.const_mul (-(1 / (2 * s)))).sub_const nlog).sub (h4.const_mul (1/2)))
  unfold F
  refine h5.congr_deriv ?_
  by_cases hs : s = 0
  · subst hs
    field_simp
    simp
    ring
  · field_simp
    ring

/-- Hence one step of size one in the natural parameters along this gradient lands on
`(η₁*, η₂*)` from any start. -/
theorem one_step (a c s ξ₁ ξ₂ : ℝ) :
    ξ₁ / (ξ₂ - ξ₁ ^ 2) + 1 * (a / s - ξ₁ / (ξ₂ - ξ₁ ^ 2)) = a / s ∧
    -1 / (2 * (ξ₂ - ξ₁ ^ 2)) + 1 * (-(1/2) * (1 + c / s) - (-1 / (2 * (ξ₂ - ξ₁ ^ 2))))
      = -(1/2) * (1 + c / s) := by
  constructor <;> ring

end NgdScalar

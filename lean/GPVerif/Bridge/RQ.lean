/-
The rational-quadratic profile as a scale mixture of squared-exponentials:
`Γ(α) (1+u)^{−α} = ∫₀^∞ t^{α−1} e^{−(1+u)t} dt`, hence the quadratic form of the RQ Gram matrix is an integral of
the (non-negative) quadratic forms of RBF Gram matrices.
-/
import GPVerif.Bridge.RBF
import Mathlib.Analysis.SpecialFunctions.Gamma.Basic

open Matrix MeasureTheory Set

namespace C07

variable {ι : Type*} [Fintype ι]

theorem rq_profile_eq {α : ℝ} (hα : 0 < α) {u : ℝ} (hu : 0 ≤ u) :
    (1 + u) ^ (-α) =
      (Real.Gamma α)⁻¹ * ∫ t in Ioi (0 : ℝ), t ^ (α - 1) * Real.exp (-((1 + u) * t)) := by
  have h1 : (0 : ℝ) < 1 + u := by linarith
  rw [Real.integral_rpow_mul_exp_neg_mul_Ioi hα h1, one_div, Real.inv_rpow h1.le, ← Real.rpow_neg h1.le]
  have := (Real.Gamma_pos_of_pos hα).ne'
  field_simp

theorem rq_integrand_integrable {α : ℝ} (hα : 0 < α) {u : ℝ} (hu : 0 ≤ u) :
    Integrable (fun t : ℝ => t ^ (α - 1) * Real.exp (-((1 + u) * t))) (volume.restrict (Ioi 0)) := by
  have h1 : (0 : ℝ) < 1 + u := by linarith
  apply Integrable.of_integral_ne_zero
  rw [Real.integral_rpow_mul_exp_neg_mul_Ioi hα h1]
  have := Real.Gamma_pos_of_pos hα
  positivity

/-- Scale mixture: if `exp(−s·D)` (entrywise) is PSD for every `s ≥ 0`, so is `(1 + D)^{−α}`, `α > 0`. -/
theorem rq_gram_psd_of_dist {D : Matrix ι ι ℝ} (hD0 : ∀ i j, 0 ≤ D i j) (hsym : ∀ i j, D i j = D j i)
    (hD : ∀ s : ℝ, 0 ≤ s → (of fun i j => Real.exp (-s * D i j) : Matrix ι ι ℝ).PosSemidef)
    {α : ℝ} (hα : 0 < α) :
    (of fun i j => (1 + D i j) ^ (-α) : Matrix ι ι ℝ).PosSemidef := by
  classical
  refine PosSemidef.of_dotProduct_mulVec_nonneg ?_ fun v => ?_
  · ext i j; simp [conjTranspose_apply, hsym i j]
  · have hG : 0 < (Real.Gamma α)⁻¹ := inv_pos.mpr (Real.Gamma_pos_of_pos hα)
    -- the quadratic form as one integral
    have key : star v ⬝ᵥ ((of fun i j => (1 + D i j) ^ (-α) : Matrix ι ι ℝ) *ᵥ v) =
        (Real.Gamma α)⁻¹ * ∫ t in Ioi (0 : ℝ),
          ∑ i, ∑ j, v i * (t ^ (α - 1) * Real.exp (-((1 + D i j) * t))) * v j := by
      let F : ι → ι → ℝ → ℝ := fun i j t => v i * (t ^ (α - 1) * Real.exp (-((1 + D i j) * t))) * v j
      have hint : ∀ i j, Integrable (F i j) (volume.restrict (Ioi 0)) :=
        fun i j => ((rq_integrand_integrable hα (hD0 i j)).const_mul (v i)).mul_const (v j)
      have hrow : ∀ i, Integrable (fun t => ∑ j, F i j t) (volume.restrict (Ioi 0)) :=
        fun i => integrable_finsetSum Finset.univ fun j _ => hint i j
      have h1 : ∫ t in Ioi (0 : ℝ), ∑ i, ∑ j, F i j t = ∑ i, ∫ t in Ioi (0 : ℝ), ∑ j, F i j t :=
        integral_finsetSum (μ := volume.restrict (Ioi 0)) Finset.univ (f := fun i t => ∑ j, F i j t) fun i _ => hrow i
      have h2 : ∀ i, ∫ t in Ioi (0 : ℝ), ∑ j, F i j t = ∑ j, ∫ t in Ioi (0 : ℝ), F i j t := fun i =>
        integral_finsetSum (μ := volume.restrict (Ioi 0)) Finset.univ (f := fun j t => F i j t) fun j _ => hint i j
      have hG0 : Real.Gamma α ≠ 0 := (Real.Gamma_pos_of_pos hα).ne'
      have hF : ∀ i j, ∫ t in Ioi (0 : ℝ), F i j t = v i * (Real.Gamma α * (1 + D i j) ^ (-α)) * v j := by
        intro i j
        show ∫ t in Ioi (0 : ℝ), v i * (t ^ (α - 1) * Real.exp (-((1 + D i j) * t))) * v j = _
        rw [integral_mul_const, integral_const_mul, rq_profile_eq hα (hD0 i j)]
        field_simp
      show _ = (Real.Gamma α)⁻¹ * ∫ t in Ioi (0 : ℝ), ∑ i, ∑ j, F i j t
      rw [h1]
      simp_rw [h2, hF]
      simp only [dotProduct, mulVec, of_apply, star_trivial, Finset.mul_sum]
      refine Finset.sum_congr rfl fun i _ => Finset.sum_congr rfl fun j _ => ?_
      field_simp
    rw [key]
    refine mul_nonneg hG.le (setIntegral_nonneg measurableSet_Ioi fun t ht => ?_)
    have ht : (0 : ℝ) < t := ht
    have hq := (hD t ht.le).dotProduct_mulVec_nonneg v
    simp only [dotProduct, mulVec, of_apply, star_trivial, Finset.mul_sum] at hq
    have e : ∑ i, ∑ j, v i * (t ^ (α - 1) * Real.exp (-((1 + D i j) * t))) * v j =
        (t ^ (α - 1) * Real.exp (-t)) * ∑ i, ∑ j, v i * (Real.exp (-t * D i j) * v j) := by
      simp only [Finset.mul_sum]
      refine Finset.sum_congr rfl fun i _ => Finset.sum_congr rfl fun j _ => ?_
      have : Real.exp (-((1 + D i j) * t)) = Real.exp (-t) * Real.exp (-t * D i j) := by
        rw [← Real.exp_add]; congr 1; ring
      rw [this]; ring
    rw [e]
    exact mul_nonneg (mul_nonneg (Real.rpow_nonneg ht.le _) (Real.exp_pos _).le) hq

/-- **RQ kernel** `(1 + ‖x_i − x_j‖² / (2 α ℓ²))^{−α}`, `α > 0`, every dimension and lengthscale. -/
theorem rq_gram_psd {d : Type*} [Fintype d] (X : Matrix ι d ℝ) (ℓ : ℝ) {α : ℝ} (hα : 0 < α) :
    (of fun i j => (1 + (∑ k, (X i k - X j k) ^ 2) / (2 * α * ℓ ^ 2)) ^ (-α) : Matrix ι ι ℝ).PosSemidef := by
  have hc : 0 ≤ 1 / (2 * α * ℓ ^ 2) := by positivity
  have h := rq_gram_psd_of_dist (D := of fun i j => (∑ k, (X i k - X j k) ^ 2) / (2 * α * ℓ ^ 2))
    (fun i j => by
      simp only [of_apply]
      exact div_nonneg (Finset.sum_nonneg fun k _ => sq_nonneg _) (by positivity))
    (fun i j => by
      simp only [of_apply]
      congr 1
      exact Finset.sum_congr rfl fun k _ => by ring)
    (fun s hs => by
      have := rbf_gram_psd_coeff X (c := s * (1 / (2 * α * ℓ ^ 2))) (mul_nonneg hs hc)
      convert this using 4
      simp only [of_apply]
      ring_nf)
    hα
  simpa only [of_apply] using h

end C07

/-
Helper lemmas for the moment-equation theorems of `Props/C13.lean`:
linearity of `ghApply` in the integrand, the rule at `m = 0, v = ½` as `(1/√π)·momentSum`, casts `ℚ → ℝ` of the
functions the driver runs in `ℚ` (`momentSum`, `gaussMomentFast`, `ratAbs`, `ratMax`), and the certified rational
enclosure of `1/√π`.
-/
import GPVerif.Bridge.Quadrature
import Mathlib.Analysis.Real.Pi.Bounds
import Mathlib.Data.Rat.Cast.Order
import Mathlib.Algebra.Order.BigOperators.Group.Finset
import Mathlib.Tactic.Linarith
import Mathlib.Tactic.Ring
import Mathlib.Tactic.Positivity

namespace QuadratureReal
open MeasureTheory ProbabilityTheory Polynomial Quadrature Gen.Quadrature Real
open scoped NNReal

/-! ### linearity of the rule in the integrand -/

theorem ghApply_nil (f : ℝ → ℝ) (m v : ℝ) : ghApply [] f m v = 0 := by
  simp [ghApply_eq]

theorem ghApply_cons (tw : ℝ × ℝ) (rule : List (ℝ × ℝ)) (f : ℝ → ℝ) (m v : ℝ) :
    ghApply (tw :: rule) f m v = (1 / √π) * (f (√(2 * v) * tw.1 + m) * tw.2) + ghApply rule f m v := by
  simp [ghApply_eq]

theorem ghApply_finset_sum {ι : Type} (s : Finset ι) (c : ι → ℝ) (g : ι → ℝ → ℝ) (rule : List (ℝ × ℝ)) (m v : ℝ) :
    ghApply rule (fun x => ∑ i ∈ s, c i * g i x) m v = ∑ i ∈ s, c i * ghApply rule (g i) m v := by
  induction rule with
  | nil => simp [ghApply_nil]
  | cons tw rule ih =>
    simp only [ghApply_cons, ih, mul_add, Finset.sum_add_distrib]
    congr 1
    rw [Finset.sum_mul, Finset.mul_sum]
    refine Finset.sum_congr rfl fun i _ => ?_
    ring

/-! ### the rule against the Hermite weight is `(1/√π)·Σ wᵢ tᵢᵏ` -/

theorem powNat_eq_pow (x : ℝ) (k : ℕ) : powNat x k = x ^ k := by
  induction k with
  | zero => simp [powNat]
  | succ k ih => simp [powNat, ih, pow_succ, mul_comm]

theorem momentSum_eq_sum (rule : List (ℝ × ℝ)) (k : ℕ) :
    momentSum rule k = (rule.map fun tw => tw.2 * tw.1 ^ k).sum := by
  simp only [momentSum, foldr_add_eq_sum, powNat_eq_pow]

theorem ghApply_monomial_hermite (rule : List (ℝ × ℝ)) (k : ℕ) :
    ghApply rule (fun x => x ^ k) 0 (1 / 2) = (1 / √π) * momentSum rule k := by
  rw [momentSum_eq_sum]
  induction rule with
  | nil => simp [ghApply_nil]
  | cons tw rule ih =>
    rw [ghApply_cons, ih]
    simp only [List.map_cons, List.sum_cons]
    have h1 : √(2 * (1 / 2 : ℝ)) = 1 := by norm_num
    rw [h1]
    ring

/-! ### casts of what the driver runs in `ℚ` -/

/-- the rule with rational nodes and weights, read in `ℝ` -/
def castRule (rule : List (ℚ × ℚ)) : List (ℝ × ℝ) := rule.map fun tw => ((tw.1 : ℝ), (tw.2 : ℝ))

theorem cast_powNat (x : ℚ) (k : ℕ) : ((powNat x k : ℚ) : ℝ) = powNat (x : ℝ) k := by
  induction k with
  | zero => simp [powNat]
  | succ k ih => simp [powNat, ih]

theorem cast_momentSum (rule : List (ℚ × ℚ)) (k : ℕ) :
    ((momentSum rule k : ℚ) : ℝ) = momentSum (castRule rule) k := by
  induction rule with
  | nil => simp [momentSum, castRule]
  | cons tw rule ih =>
    simp only [momentSum, castRule, List.map_cons, List.foldr_cons, List.map_map] at ih ⊢
    rw [Rat.cast_add, Rat.cast_mul, cast_powNat, ih]

theorem cast_gaussMomentPair (m v : ℚ) (k : ℕ) :
    (((gaussMomentPair m v k).1 : ℚ) : ℝ) = (gaussMomentPair (m : ℝ) (v : ℝ) k).1 ∧
    (((gaussMomentPair m v k).2 : ℚ) : ℝ) = (gaussMomentPair (m : ℝ) (v : ℝ) k).2 := by
  induction k with
  | zero => simp [gaussMomentPair]
  | succ k ih =>
    obtain ⟨h1, h2⟩ := ih
    constructor
    · simp only [gaussMomentPair]; exact h2
    · simp only [gaussMomentPair]
      push_cast
      rw [h1, h2]

theorem cast_gaussMomentFast (m v : ℚ) (k : ℕ) :
    ((gaussMomentFast m v k : ℚ) : ℝ) = gaussMoment (m : ℝ) (v : ℝ) k := by
  rw [← gaussMomentFast_eq]
  exact (cast_gaussMomentPair m v k).1

theorem cast_ratAbs (x : ℚ) : ((ratAbs x : ℚ) : ℝ) = |(x : ℝ)| := by
  unfold ratAbs
  split_ifs with h
  · have : (x : ℝ) < 0 := by exact_mod_cast h
    rw [abs_of_neg this]; simp
  · have : (0 : ℝ) ≤ (x : ℝ) := by exact_mod_cast not_lt.mp h
    rw [abs_of_nonneg this]

theorem cast_ratMax (x y : ℚ) : ((ratMax x y : ℚ) : ℝ) = max (x : ℝ) (y : ℝ) := by
  unfold ratMax
  split_ifs with h
  · have : (x : ℝ) < (y : ℝ) := by exact_mod_cast h
    rw [max_eq_right this.le]
  · have : (y : ℝ) ≤ (x : ℝ) := by exact_mod_cast not_lt.mp h
    rw [max_eq_left this]

/-! ### the certified enclosure of `1/√π` -/

theorem invSqrtPi_mem : ((invSqrtPiLo : ℚ) : ℝ) ≤ 1 / √π ∧ 1 / √π ≤ ((invSqrtPiHi : ℚ) : ℝ) := by
  have hpos : (0 : ℝ) < √π := by positivity
  have hsq : √π * √π = π := Real.mul_self_sqrt pi_pos.le
  have hlo : ((invSqrtPiLo : ℚ) : ℝ) = 56418958354775628694 / 100000000000000000000 := by
    simp [invSqrtPiLo]
  have hhi : ((invSqrtPiHi : ℚ) : ℝ) = 56418958354775628695 / 100000000000000000000 := by
    simp [invSqrtPiHi]
  have h1 := pi_gt_d20
  have h2 := pi_lt_d20
  constructor
  · rw [hlo, le_div_iff₀ hpos]
    -- a·√π ≤ 1  ⇐  a²·π ≤ 1
    have ha : (0 : ℝ) ≤ 56418958354775628694 / 100000000000000000000 := by norm_num
    have : (56418958354775628694 / 100000000000000000000 * √π) ^ 2 ≤ 1 ^ 2 := by
      rw [mul_pow, sq (√π), hsq]
      nlinarith
    exact (pow_le_pow_iff_left₀ (by positivity) (by norm_num) (by norm_num : (2 : ℕ) ≠ 0)).mp this
  · rw [hhi, div_le_iff₀ hpos]
    have hb : (0 : ℝ) ≤ 56418958354775628695 / 100000000000000000000 := by norm_num
    have : (1 : ℝ) ^ 2 ≤ (56418958354775628695 / 100000000000000000000 * √π) ^ 2 := by
      rw [mul_pow, sq (√π), hsq]
      nlinarith
    exact (pow_le_pow_iff_left₀ (by norm_num) (by positivity) (by norm_num : (2 : ℕ) ≠ 0)).mp this

/-- an affine function of `c` on `[lo, hi]` is bounded in absolute value by the larger of the two endpoint values -/
theorem abs_affine_le_max {lo hi c S M : ℝ} (h1 : lo ≤ c) (h2 : c ≤ hi) :
    |c * S - M| ≤ max |lo * S - M| |hi * S - M| := by
  rcases le_total 0 S with hS | hS
  · exact abs_le_max_abs_abs (by nlinarith) (by nlinarith)
  · rw [max_comm]
    exact abs_le_max_abs_abs (by nlinarith) (by nlinarith)

end QuadratureReal

namespace QuadratureReal
open MeasureTheory ProbabilityTheory Polynomial Quadrature Gen.Quadrature Real
open scoped NNReal

/-! ### transfer between `N(m, v)` and the Hermite weight `N(0, ½)` -/

theorem natDegree_comp_affine_le (p : ℝ[X]) (c m : ℝ) : (p.comp (C c * X + C m)).natDegree ≤ p.natDegree :=
  calc (p.comp (C c * X + C m)).natDegree ≤ p.natDegree * (C c * X + C m).natDegree := natDegree_comp_le
    _ ≤ p.natDegree * 1 := Nat.mul_le_mul_left _ (natDegree_linear_le)
    _ = p.natDegree := Nat.mul_one _

theorem ghApply_affine (rule : List (ℝ × ℝ)) (p : ℝ[X]) (m v : ℝ) :
    ghApply rule (fun x => p.eval x) m v =
      ghApply rule (fun x => (p.comp (C √(2 * v) * X + C m)).eval x) 0 (1 / 2) := by
  rw [ghApply_eq, ghApply_eq]
  congr 1
  apply List.map_congr_left
  intro tw _
  simp [eval_comp]

theorem integral_affine (p : ℝ[X]) (m : ℝ) (v : ℝ≥0) :
    ∫ x, p.eval x ∂(gaussianReal m v) =
      ∫ t, (p.comp (C √(2 * (v : ℝ)) * X + C m)).eval t ∂(gaussianReal 0 (1 / 2)) := by
  rw [← map_hermite_weight m v, integral_map (by fun_prop) (p.continuous.aestronglyMeasurable)]
  simp [eval_comp]

/-- `∫ Σ_{i<D} cᵢ tⁱ dN(0,½) = Σ_{i<D} cᵢ·M_i(0,½)` -/
theorem integral_sum_monomials (D : ℕ) (c : ℕ → ℝ) :
    ∫ t, (∑ i ∈ Finset.range D, c i * t ^ i) ∂(gaussianReal 0 (1 / 2)) =
      ∑ i ∈ Finset.range D, c i * gaussMoment (0 : ℝ) (1 / 2) i := by
  rw [integral_finsetSum _ fun i _ => (integrable_pow_gaussianReal 0 (1 / 2) i).const_mul (c i)]
  refine Finset.sum_congr rfl fun i _ => ?_
  rw [integral_const_mul, GaussMoments.integral_pow_gaussianReal]
  simp

end QuadratureReal

/-
Helper lemmas for `Props/C13.lean`: the ℝ reading of `ghApply` as a `List.sum`, the affine pull-back of a
Gaussian measure, integrability of polynomials under a Gaussian.
-/
import GPVerif.Bridge.ScalarFnReal
import GPVerif.Model.Quadrature
import GPVerif.Bridge.GaussMoments
import Mathlib.Probability.Distributions.Gaussian.Real
import Mathlib.Algebra.Polynomial.Eval.Degree
import Mathlib.Algebra.Polynomial.Degree.Lemmas
import Mathlib.Tactic.NormNum

namespace QuadratureReal
open MeasureTheory ProbabilityTheory Polynomial Quadrature Gen.Quadrature Real
open scoped NNReal

theorem foldr_add_eq_sum (l : List ℝ) : l.foldr (· + ·) ((0 : Nat) : ℝ) = l.sum := by
  induction l with
  | nil => simp
  | cons a l ih =>
    simp only [Nat.cast_zero] at ih
    simp [List.foldr_cons, ih]

theorem ghApply_eq (rule : List (ℝ × ℝ)) (f : ℝ → ℝ) (m v : ℝ) :
    ghApply rule f m v = (rule.map fun tw => (1 / √π) * (f (√(2 * v) * tw.1 + m) * tw.2)).sum := by
  simp only [ghApply, foldr_add_eq_sum, ghTerm, ghShift, ScalarFnReal.tf_sqrt, ScalarFnReal.tf_pi,
    Nat.cast_ofNat, Nat.cast_one]

/-- `N(0, ½)` pushed forward by `t ↦ √(2v)·t + m` is `N(m, v)` (all `v ≥ 0`, including the Dirac case). -/
theorem map_hermite_weight (m : ℝ) (v : ℝ≥0) :
    (gaussianReal 0 (1 / 2)).map (fun t => √(2 * v) * t + m) = gaussianReal m v := by
  have h1 : (gaussianReal 0 (1 / 2)).map (fun t => √(2 * (v : ℝ)) * t) = gaussianReal 0 v := by
    rw [gaussianReal_map_const_mul]
    congr 1
    · simp
    · apply NNReal.eq
      simp only [NNReal.coe_mul, NNReal.coe_mk, NNReal.coe_div, NNReal.coe_one, NNReal.coe_ofNat]
      rw [Real.sq_sqrt (by positivity)]
      ring
  have h2 : (fun t => √(2 * (v : ℝ)) * t + m) = (fun y => y + m) ∘ (fun t => √(2 * (v : ℝ)) * t) := rfl
  rw [h2, ← Measure.map_map (by fun_prop) (by fun_prop), h1, gaussianReal_map_add_const]
  simp

theorem integrable_pow_gaussianReal (m : ℝ) (v : ℝ≥0) (k : ℕ) :
    Integrable (fun x : ℝ => x ^ k) (gaussianReal m v) := by
  by_cases hk : k = 0
  · subst hk; simp
  · have h' : MemLp (id : ℝ → ℝ) ((k : ℝ≥0) : ENNReal) (gaussianReal m v) := memLp_id_gaussianReal _
    have := h'.integrable_norm_pow (by exact_mod_cast hk)
    simp only [id] at this
    refine (integrable_norm_iff ?_).mp ?_
    · exact (continuous_pow k).aestronglyMeasurable
    · simpa [norm_pow] using this

theorem integrable_polynomial_gaussianReal (m : ℝ) (v : ℝ≥0) (p : ℝ[X]) :
    Integrable (fun x : ℝ => p.eval x) (gaussianReal m v) := by
  induction p using Polynomial.induction_on' with
  | add p q hp hq =>
    have := hp.add hq
    refine this.congr (Filter.Eventually.of_forall fun x => ?_)
    simp [eval_add]
  | monomial n a => simpa [eval_monomial] using (integrable_pow_gaussianReal m v n).const_mul a

/-- polynomial with coefficient list `cs` (increasing degree) -/
noncomputable def listPoly : List ℝ → ℝ[X]
  | [] => 0
  | c :: cs => C c + X * listPoly cs

theorem listPoly_eval (cs : List ℝ) (x : ℝ) : (listPoly cs).eval x = polyEval cs x := by
  induction cs with
  | nil => simp [listPoly, polyEval]
  | cons c cs ih =>
    simp only [listPoly, eval_add, eval_C, eval_mul, eval_X, ih]
    simp [polyEval]

theorem listPoly_natDegree (cs : List ℝ) : (listPoly cs).natDegree + 1 ≤ max cs.length 1 := by
  induction cs with
  | nil => simp [listPoly]
  | cons c cs ih =>
    simp only [listPoly, List.length_cons]
    have h1 : (C c + X * listPoly cs).natDegree ≤ max (C c).natDegree (X * listPoly cs).natDegree :=
      natDegree_add_le _ _
    have h2 : (X * listPoly cs).natDegree ≤ (listPoly cs).natDegree + 1 := by
      by_cases h0 : listPoly cs = 0
      · simp [h0]
      · rw [natDegree_X_mul h0]
    have h1' : (C c + X * listPoly cs).natDegree ≤ (X * listPoly cs).natDegree := by
      simp only [natDegree_C, Nat.zero_max] at h1
      exact h1
    have h3 : max (cs.length + 1) 1 = cs.length + 1 := by omega
    have h4 : max cs.length 1 ≤ cs.length + 1 := by omega
    rw [h3]
    by_cases hnil : cs = []
    · subst hnil; simp [listPoly]
    · have : 1 ≤ cs.length := List.length_pos_iff.mpr hnil
      have h5 : max cs.length 1 = cs.length := by omega
      rw [h5] at ih
      omega

/-- `∫ xʲ·(Σ_k c_k xᵏ) dN(m,v) = Σ_k c_k·M_{k+j}` -/
theorem integral_pow_mul_listPoly (m : ℝ) (v : ℝ≥0) (cs : List ℝ) :
    ∀ j : ℕ, ∫ x, x ^ j * (listPoly cs).eval x ∂(gaussianReal m v) =
      ((cs.zipIdx j).map fun ck => ck.1 * gaussMoment m (v : ℝ) ck.2).foldr (· + ·) ((0 : Nat) : ℝ) := by
  induction cs with
  | nil => intro j; simp [listPoly]
  | cons c cs ih =>
    intro j
    have hi1 : Integrable (fun x : ℝ => c * x ^ j) (gaussianReal m v) :=
      (integrable_pow_gaussianReal m v j).const_mul c
    have hi2 : Integrable (fun x : ℝ => x ^ (j + 1) * (listPoly cs).eval x) (gaussianReal m v) :=
      (integrable_polynomial_gaussianReal m v (X ^ (j + 1) * listPoly cs)).congr
        (Filter.Eventually.of_forall fun x => by simp)
    have hsplit : ∀ x : ℝ, x ^ j * (listPoly (c :: cs)).eval x
        = c * x ^ j + x ^ (j + 1) * (listPoly cs).eval x := by
      intro x; simp only [listPoly, eval_add, eval_C, eval_mul, eval_X]; ring
    simp_rw [hsplit]
    rw [integral_add hi1 hi2, integral_const_mul, GaussMoments.integral_pow_gaussianReal, ih (j + 1)]
    simp [List.zipIdx_cons]


theorem sqrt_two_div_pi : √(2 / π) = 2 / √(2 * π) := by
  have h2 : (0 : ℝ) ≤ 2 := by norm_num
  rw [Real.sqrt_div h2, Real.sqrt_mul h2]
  have hs : √2 * √2 = 2 := Real.mul_self_sqrt h2
  have h2' : √2 ≠ 0 := by positivity
  have hp : √π ≠ 0 := by positivity
  field_simp
  linarith


theorem horner_step_pos {z a r : ℝ} (hz : z < 0) (ha : 0 < a) (hr : 0 < r) : 0 < -(z * (a / √2)) + r := by
  have h2 : (0 : ℝ) < √2 := by positivity
  have : 0 < a / √2 := div_pos ha h2
  nlinarith


end QuadratureReal

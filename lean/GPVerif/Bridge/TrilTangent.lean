/-
C19 (wave 3) — the second output of `_TrilNaturalToMuVarSqrt.backward`.

`C = natural_tril_mat` is lower triangular with `CᵀC = −2θ` (`θ` the natural matrix), `L = C⁻¹`.  The code returns
`Ċ = Φ(−2·LᵀGL)·C` for `G = dout_dnat2`; the docstring derives it as the forward-mode sensitivity of `θ ↦ C`.
Proved here: `Ċ` is lower triangular, solves the linearised constraint `ĊᵀC + CᵀĊ = −2G` (the differential of
`C ↦ CᵀC` applied to `Ċ` is the differential of `θ ↦ −2θ` applied to `G`), is the only lower-triangular solution,
and therefore is the derivative at `0` of every differentiable curve of lower-triangular factors of `−2(θ + tG)`.
-/
import Mathlib.Analysis.Calculus.Deriv.Mul
import Mathlib.Analysis.Calculus.Deriv.Add
import GPVerif.Model.NaturalGrad

open Matrix

namespace TrilTangent
variable {n : ℕ}

theorem phi_apply (A : DMat n n ℝ) (i j : Fin n) :
    (NaturalGrad.phi A).toMatrix i j
      = if j.1 < i.1 then A.toMatrix i j else if i = j then A.toMatrix i j / 2 else 0 := by
  unfold NaturalGrad.phi; exact congrFun (congrFun (DMat.toMatrix_ofMatrix _) i) j

/-- `Φ(A)` is lower triangular -/
theorem phi_lower (A : DMat n n ℝ) (i j : Fin n) (h : i < j) : (NaturalGrad.phi A).toMatrix i j = 0 := by
  rw [phi_apply]
  have h1 : ¬ (j.1 < i.1) := by have : i.1 < j.1 := h; omega
  have h2 : i ≠ j := ne_of_lt h
  simp [h1, h2]

/-- `Φ(A) + Φ(A)ᵀ = A` for symmetric `A` -/
theorem phi_add_transpose (A : DMat n n ℝ) (hA : A.toMatrixᵀ = A.toMatrix) :
    (NaturalGrad.phi A).toMatrix + (NaturalGrad.phi A).toMatrixᵀ = A.toMatrix := by
  ext i j
  have hs : A.toMatrix j i = A.toMatrix i j := by
    have := congrFun (congrFun hA i) j; simpa [Matrix.transpose_apply] using this
  rw [Matrix.add_apply, Matrix.transpose_apply, phi_apply, phi_apply]
  rcases lt_trichotomy i j with h | h | h
  · have h1 : ¬ (j.1 < i.1) := by have : i.1 < j.1 := h; omega
    have h2 : i.1 < j.1 := h
    have h3 : i ≠ j := ne_of_lt h
    simp [h1, h2, h3, hs]
  · subst h
    simp only [lt_self_iff_false, if_false, if_true]
    ring
  · have h1 : ¬ (i.1 < j.1) := by have : j.1 < i.1 := h; omega
    have h2 : j.1 < i.1 := h
    have h3 : j ≠ i := ne_of_lt h
    simp [h1, h2, h3]

/-- a lower-triangular `P` with `P + Pᵀ = A` is `Φ(A)` -/
theorem lower_unique (A : DMat n n ℝ) (P : Matrix (Fin n) (Fin n) ℝ) (hP : ∀ i j, i < j → P i j = 0)
    (hsum : P + Pᵀ = A.toMatrix) : P = (NaturalGrad.phi A).toMatrix := by
  ext i j
  have hij : P i j + P j i = A.toMatrix i j := by
    have := congrFun (congrFun hsum i) j; simpa [Matrix.add_apply, Matrix.transpose_apply] using this
  rw [phi_apply]
  rcases lt_trichotomy i j with h | h | h
  · have h1 : ¬ (j.1 < i.1) := by have : i.1 < j.1 := h; omega
    have h3 : i ≠ j := ne_of_lt h
    simp [h1, h3, hP i j h]
  · subst h
    simp only [lt_self_iff_false, if_false, if_true]
    linarith
  · have h2 : j.1 < i.1 := h
    simp only [h2, if_true]
    rw [← hij, hP j i h, add_zero]

/-- products of lower-triangular matrices are lower triangular -/
theorem lower_mul (A B : Matrix (Fin n) (Fin n) ℝ) (hA : ∀ i j, i < j → A i j = 0) (hB : ∀ i j, i < j → B i j = 0) :
    ∀ i j, i < j → (A * B) i j = 0 := by
  intro i j hij
  rw [Matrix.mul_apply]
  apply Finset.sum_eq_zero
  intro k _
  by_cases hk : i < k
  · rw [hA i k hk, zero_mul]
  · have : k < j := lt_of_le_of_lt (not_lt.mp hk) hij
    rw [hB k j this, mul_zero]

variable (G L C : DMat n n ℝ)

/-- the returned tangent is lower triangular (for lower-triangular `C`) -/
theorem tangent_lower (hC : ∀ i j, i < j → C.toMatrix i j = 0) :
    ∀ i j, i < j → (NaturalGrad.trilTangent G L C).toMatrix i j = 0 := by
  unfold NaturalGrad.trilTangent
  rw [DMat.toMatrix_mul]
  exact lower_mul _ _ (phi_lower _) hC

/-- **linearised constraint**: `ĊᵀC + CᵀĊ = −2G` for symmetric `G` and `L·C = 1` -/
theorem tangent_solves (hG : G.toMatrixᵀ = G.toMatrix) (hLC : L.toMatrix * C.toMatrix = 1) :
    (NaturalGrad.trilTangent G L C).toMatrixᵀ * C.toMatrix + C.toMatrixᵀ * (NaturalGrad.trilTangent G L C).toMatrix
      = (-2 : ℝ) • G.toMatrix := by
  set A : DMat n n ℝ := ((L.transpose.mul G).mul L).smul (-2) with hA
  have hAs : A.toMatrixᵀ = A.toMatrix := by
    simp only [hA, DMat.toMatrix_smul, DMat.toMatrix_mul, DMat.toMatrix_transpose, Matrix.transpose_smul,
      Matrix.transpose_mul, Matrix.transpose_transpose, hG, Matrix.mul_assoc]
  have hphi := phi_add_transpose A hAs
  have hT : (NaturalGrad.trilTangent G L C).toMatrix = (NaturalGrad.phi A).toMatrix * C.toMatrix := by
    simp [NaturalGrad.trilTangent, hA]
  have hCL : C.toMatrixᵀ * L.toMatrixᵀ = 1 := by rw [← Matrix.transpose_mul, hLC, Matrix.transpose_one]
  rw [hT, Matrix.transpose_mul]
  have key : C.toMatrixᵀ * (NaturalGrad.phi A).toMatrixᵀ * C.toMatrix
        + C.toMatrixᵀ * ((NaturalGrad.phi A).toMatrix * C.toMatrix)
      = C.toMatrixᵀ * (((NaturalGrad.phi A).toMatrix + (NaturalGrad.phi A).toMatrixᵀ) * C.toMatrix) := by
    rw [Matrix.add_mul, Matrix.mul_add, Matrix.mul_assoc, add_comm]
  rw [key, hphi]
  simp only [hA, DMat.toMatrix_smul, DMat.toMatrix_mul, DMat.toMatrix_transpose, Matrix.smul_mul, Matrix.mul_smul]
  congr 1
  calc C.toMatrixᵀ * (L.toMatrixᵀ * G.toMatrix * L.toMatrix * C.toMatrix)
      = (C.toMatrixᵀ * L.toMatrixᵀ) * G.toMatrix * (L.toMatrix * C.toMatrix) := by
        simp only [Matrix.mul_assoc]
    _ = G.toMatrix := by rw [hCL, hLC, Matrix.one_mul, Matrix.mul_one]

/-- **uniqueness**: every lower-triangular solution of the linearised constraint is the returned tangent
(`L` lower triangular, two-sided inverse of `C`) -/
theorem tangent_unique (D : Matrix (Fin n) (Fin n) ℝ) (hD : ∀ i j, i < j → D i j = 0)
    (hL : ∀ i j, i < j → L.toMatrix i j = 0)
    (hLC : L.toMatrix * C.toMatrix = 1) (hCL : C.toMatrix * L.toMatrix = 1)
    (hlin : Dᵀ * C.toMatrix + C.toMatrixᵀ * D = (-2 : ℝ) • G.toMatrix) :
    D = (NaturalGrad.trilTangent G L C).toMatrix := by
  set A : DMat n n ℝ := ((L.transpose.mul G).mul L).smul (-2) with hA
  have hPl := lower_mul D L.toMatrix hD hL
  have hsum : D * L.toMatrix + (D * L.toMatrix)ᵀ = A.toMatrix := by
    have h1 : L.toMatrixᵀ * (Dᵀ * C.toMatrix + C.toMatrixᵀ * D) * L.toMatrix
        = (D * L.toMatrix)ᵀ + D * L.toMatrix := by
      have hLtCt : L.toMatrixᵀ * C.toMatrixᵀ = 1 := by rw [← Matrix.transpose_mul, hCL, Matrix.transpose_one]
      rw [Matrix.mul_add, Matrix.add_mul, Matrix.transpose_mul]
      congr 1
      · rw [Matrix.mul_assoc, Matrix.mul_assoc, hCL, Matrix.mul_one]
      · rw [← Matrix.mul_assoc, hLtCt, Matrix.one_mul]
    rw [add_comm, ← h1, hlin]
    simp only [hA, DMat.toMatrix_smul, DMat.toMatrix_mul, DMat.toMatrix_transpose, Matrix.smul_mul, Matrix.mul_smul]
  have hP := lower_unique A (D * L.toMatrix) hPl hsum
  have hT : (NaturalGrad.trilTangent G L C).toMatrix = (NaturalGrad.phi A).toMatrix * C.toMatrix := by
    simp [NaturalGrad.trilTangent, hA]
  rw [hT, ← hP, Matrix.mul_assoc, hLC, Matrix.mul_one]

/-- **the returned tangent is the derivative of `θ ↦ C(θ)` in the direction `G`**: for every curve `Cc` of
lower-triangular matrices through `C`, entrywise differentiable at `0`, with `Cc(t)ᵀ Cc(t) = −2(θ + t·G)` for all `t`
near `0`, the derivative of `Cc` at `0` is `Φ(−2·LᵀGL)·C`. -/
theorem tangent_is_derivative (θ : Matrix (Fin n) (Fin n) ℝ) (Cc : ℝ → Matrix (Fin n) (Fin n) ℝ)
    (D : Matrix (Fin n) (Fin n) ℝ)
    (h0 : Cc 0 = C.toMatrix) (hder : ∀ i j, HasDerivAt (fun t => Cc t i j) (D i j) 0)
    (hlow : ∀ᶠ t in nhds (0 : ℝ), ∀ i j, i < j → Cc t i j = 0)
    (hcon : ∀ᶠ t in nhds (0 : ℝ), (Cc t)ᵀ * Cc t = (-2 : ℝ) • (θ + t • G.toMatrix))
    (hL : ∀ i j, i < j → L.toMatrix i j = 0)
    (hLC : L.toMatrix * C.toMatrix = 1) (hCL : C.toMatrix * L.toMatrix = 1) :
    D = (NaturalGrad.trilTangent G L C).toMatrix := by
  -- `D` is lower triangular
  have hD : ∀ i j, i < j → D i j = 0 := by
    intro i j hij
    have hz : HasDerivAt (fun t => Cc t i j) 0 0 := by
      refine (hasDerivAt_const (0 : ℝ) (0 : ℝ)).congr_of_eventuallyEq ?_
      exact hlow.mono fun t ht => ht i j hij
    exact (hder i j).unique hz
  -- differentiate the constraint entrywise
  have hlin : Dᵀ * C.toMatrix + C.toMatrixᵀ * D = (-2 : ℝ) • G.toMatrix := by
    ext i j
    have hsum : HasDerivAt (fun t => ∑ k, Cc t k i * Cc t k j)
        (∑ k, (D k i * Cc 0 k j + Cc 0 k i * D k j)) 0 :=
      HasDerivAt.fun_sum fun k _ => (hder k i).mul (hder k j)
    have hid : HasDerivAt (fun t : ℝ => t) 1 (0 : ℝ) := hasDerivAt_id 0
    have hrhs : HasDerivAt (fun t : ℝ => (-2 : ℝ) * (θ i j + t * G.toMatrix i j)) ((-2 : ℝ) * (1 * G.toMatrix i j)) 0 :=
      ((hid.mul_const _).const_add _).const_mul _
    have heq : (fun t => ∑ k, Cc t k i * Cc t k j) =ᶠ[nhds 0] fun t : ℝ => (-2 : ℝ) * (θ i j + t * G.toMatrix i j) := by
      refine hcon.mono fun t ht => ?_
      have := congrFun (congrFun ht i) j
      simpa [Matrix.mul_apply, Matrix.transpose_apply, Matrix.smul_apply, Matrix.add_apply] using this
    have := hsum.unique (hrhs.congr_of_eventuallyEq heq)
    rw [h0] at this
    simp only [Matrix.add_apply, Matrix.mul_apply, Matrix.transpose_apply, Matrix.smul_apply, smul_eq_mul]
    rw [← Finset.sum_add_distrib, this]
    ring
  exact tangent_unique G L C D hD hL hLC hCL hlin

end TrilTangent

/-
Coordinate-wise calculus for the derivative kernels (helpers of `Props/C05.lean`).
-/
import GPVerif.Bridge.KernelLemmas
import GPVerif.Bridge.KernelCalc

namespace Kernels
open Scalar

theorem getD_set_self (a : List ℝ) (k : ℕ) (x d : ℝ) (hk : k < a.length) : (a.set k x).getD k d = x := by
  simp [List.getD_eq_getElem?_getD, List.getElem?_set_self hk]

theorem getD_set_ne (a : List ℝ) (k l : ℕ) (x d : ℝ) (h : k ≠ l) : (a.set k x).getD l d = a.getD l d := by
  simp [List.getD_eq_getElem?_getD, List.getElem?_set_ne h]

/-- the scaled squared distance as a function of coordinate `k` of the first row:
a constant plus `(x − b_k)²/ℓ_k²` -/
theorem sqDistArd_set_left (ls a b : List ℝ) (k : ℕ) (x : ℝ) (ha : k < a.length) (hb : k < b.length)
    (hl : k < ls.length) :
    sqDistArd ls (a.set k x) b
      = sqDistArd ls (a.set k (b.getD k 0)) b + (x - b.getD k 0) ^ 2 / (ls.getD k 1) ^ 2 := by
  induction ls generalizing a b k with
  | nil => simp at hl
  | cons l ls ih =>
    cases a with
    | nil => simp at ha
    | cons a0 a =>
      cases b with
      | nil => simp at hb
      | cons b0 b =>
        cases k with
        | zero => simp [sqDistArd_cons]; ring
        | succ k =>
          have := ih a b k (by simpa using ha) (by simpa using hb) (by simpa using hl)
          simp only [List.set_cons_succ, sqDistArd_cons, List.getD_cons_succ] at this ⊢
          rw [this]; ring

theorem sqDistArd_comm (ls a b : List ℝ) : sqDistArd ls a b = sqDistArd ls b a := by
  induction ls generalizing a b with
  | nil => simp [sqDistArd]
  | cons l ls ih =>
    cases a with
    | nil => cases b <;> simp [sqDistArd]
    | cons x a =>
      cases b with
      | nil => simp [sqDistArd]
      | cons y b => rw [sqDistArd_cons, sqDistArd_cons, ih a b]; ring

theorem sqDistArd_set_right (ls a b : List ℝ) (k : ℕ) (y : ℝ) (ha : k < a.length) (hb : k < b.length)
    (hl : k < ls.length) :
    sqDistArd ls a (b.set k y)
      = sqDistArd ls a (b.set k (a.getD k 0)) + (a.getD k 0 - y) ^ 2 / (ls.getD k 1) ^ 2 := by
  rw [sqDistArd_comm, sqDistArd_set_left ls b a k y hb ha hl, sqDistArd_comm ls a]
  ring

/-- `x ↦ exp(−½(C + (x−β)²/λ²))` -/
theorem hasDerivAt_gauss_coord (C β lam x : ℝ) :
    HasDerivAt (fun x : ℝ => Real.exp (-(1 / 2 * (C + (x - β) ^ 2 / lam ^ 2))))
      (-((x - β) / lam ^ 2) * Real.exp (-(1 / 2 * (C + (x - β) ^ 2 / lam ^ 2)))) x := by
  have h1 : HasDerivAt (fun x : ℝ => (x - β) ^ 2) (2 * (x - β)) x := by
    have := ((hasDerivAt_id x).sub_const β).pow 2
    exact this.congr_deriv (by simp)
  have h2 : HasDerivAt (fun x : ℝ => -(1 / 2 * (C + (x - β) ^ 2 / lam ^ 2))) (-((x - β) / lam ^ 2)) x := by
    have := (((h1.div_const (lam ^ 2)).const_add C).const_mul (1 / 2)).neg
    exact this.congr_deriv (by ring)
  exact h2.exp.congr_deriv (by ring)

theorem dot_set_left (a b : List ℝ) (k : ℕ) (x : ℝ) (ha : k < a.length) (hb : k < b.length) :
    dot (a.set k x) b = dot (a.set k 0) b + x * b.getD k 0 := by
  induction a generalizing b k with
  | nil => simp at ha
  | cons a0 a ih =>
    cases b with
    | nil => simp at hb
    | cons b0 b =>
      cases k with
      | zero => simp [dot_cons]; ring
      | succ k =>
        have := ih b k (by simpa using ha) (by simpa using hb)
        simp only [List.set_cons_succ, dot_cons, List.getD_cons_succ] at this ⊢
        rw [this]; ring

theorem dot_comm (a b : List ℝ) : dot a b = dot b a := by
  induction a generalizing b with
  | nil => simp [dot_nil_left, dot_nil_right]
  | cons x a ih =>
    cases b with
    | nil => simp [dot_nil_left, dot_nil_right]
    | cons y b => rw [dot_cons, dot_cons, ih b]; ring

theorem dot_set_right (a b : List ℝ) (k : ℕ) (y : ℝ) (ha : k < a.length) (hb : k < b.length) :
    dot a (b.set k y) = dot a (b.set k 0) + a.getD k 0 * y := by
  rw [dot_comm, dot_set_left b a k y hb ha, dot_comm a]; ring

end Kernels

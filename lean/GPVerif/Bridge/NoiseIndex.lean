/-
Index arithmetic for the two flattening conventions of multitask covariances (helper lemmas of C12):
interleaved `i·t + a`, non-interleaved `a·n + i`.  Core Lean only.
-/

namespace NoiseIndex

theorem flat_lt {i n a t : Nat} (hi : i < n) (ha : a < t) : i * t + a < n * t := by
  calc i * t + a < i * t + t := by omega
    _ = (i + 1) * t := by rw [Nat.add_mul, Nat.one_mul]
    _ ≤ n * t := Nat.mul_le_mul_right t hi

theorem flat_div {i a t : Nat} (ha : a < t) : (i * t + a) / t = i := by
  have ht : 0 < t := by omega
  rw [Nat.add_comm, Nat.add_mul_div_right _ _ ht, Nat.div_eq_of_lt ha, Nat.zero_add]

theorem flat_mod {i a t : Nat} (ha : a < t) : (i * t + a) % t = a := by
  rw [Nat.add_comm, Nat.add_mul_mod_self_right, Nat.mod_eq_of_lt ha]

end NoiseIndex

/-
Helper lemmas for `Props/C09.lean`: the Kronecker product of a LIST of square matrices, read entrywise at natural-number
positions (`Sq.get`), its unit / associativity / congruence laws, and the consequence that the standard Kronecker
product over the REVERSED list (`kronList Ks.reverse`, what `GridKernel.forward` builds outside interpolation mode) is
entrywise the `gridKron` of the model (first grid dimension fastest), for every number of dimensions and all sizes.
-/
import GPVerif.Bridge.Structured

open Matrix Structured

namespace Structured.Bridge

variable {α : Type}

/-- Kronecker product of two square matrices of any size (`KroneckerProductLinearOperator(A, B)`) -/
def kronSq [Mul α] (A B : Sq α) : Sq α := ⟨A.1 * B.1, kron A.2 B.2⟩

theorem gridKron_cons [Mul α] [Zero α] [One α] (K : Sq α) (Ks : List (Sq α)) :
    gridKron (K :: Ks) = kronSq (gridKron Ks) K := rfl

theorem gridKronRowMajor_cons [Mul α] [Zero α] [One α] (K : Sq α) (Ks : List (Sq α)) :
    gridKronRowMajor (K :: Ks) = kronSq K (gridKronRowMajor Ks) := rfl

/-- two square matrices are the same matrix: equal sizes and equal entries at all natural-number positions -/
def SqEquiv [Zero α] (M N : Sq α) : Prop := M.1 = N.1 ∧ ∀ p q, M.get p q = N.get p q

theorem SqEquiv.refl [Zero α] (M : Sq α) : SqEquiv M M := ⟨rfl, fun _ _ => rfl⟩

theorem SqEquiv.symm [Zero α] {M N : Sq α} (h : SqEquiv M N) : SqEquiv N M := ⟨h.1.symm, fun p q => (h.2 p q).symm⟩

theorem SqEquiv.trans [Zero α] {M N O : Sq α} (h : SqEquiv M N) (h' : SqEquiv N O) : SqEquiv M O :=
  ⟨h.1.trans h'.1, fun p q => (h.2 p q).trans (h'.2 p q)⟩

/-- entry of a Kronecker product at natural-number positions: `(A ⊗ B)[p, q] = A[p / b, q / b] · B[p % b, q % b]` -/
theorem kronSq_get [Mul α] [Zero α] (A B : Sq α) (p q : ℕ) :
    (kronSq A B).get p q
      = if p < A.1 * B.1 ∧ q < A.1 * B.1 then A.get (p / B.1) (q / B.1) * B.get (p % B.1) (q % B.1) else 0 := by
  unfold Sq.get
  by_cases h : p < A.1 * B.1 ∧ q < A.1 * B.1
  · have hb : 0 < B.1 := Nat.pos_of_ne_zero (fun h0 => by rw [h0, Nat.mul_zero] at h; exact Nat.not_lt_zero _ h.1)
    have hp : p / B.1 < A.1 := Nat.div_lt_of_lt_mul (by rw [Nat.mul_comm]; exact h.1)
    have hq : q / B.1 < A.1 := Nat.div_lt_of_lt_mul (by rw [Nat.mul_comm]; exact h.2)
    have hpm : p % B.1 < B.1 := Nat.mod_lt _ hb
    have hqm : q % B.1 < B.1 := Nat.mod_lt _ hb
    have h' : p < (kronSq A B).1 ∧ q < (kronSq A B).1 := h
    rw [if_pos h, dif_pos h', dif_pos ⟨hp, hq⟩, dif_pos ⟨hpm, hqm⟩]
    simp only [kronSq, kron, DMat.toMatrix_ofMatrix, kronM]
    rfl
  · rw [if_neg h]
    have h' : ¬ (p < (kronSq A B).1 ∧ q < (kronSq A B).1) := h
    rw [dif_neg h']

theorem Sq.get_of_not_lt [Zero α] (M : Sq α) (p q : ℕ) (h : ¬ (p < M.1 ∧ q < M.1)) : M.get p q = 0 := by
  unfold Sq.get; rw [dif_neg h]

/-- congruence of the Kronecker product in both factors -/
theorem kronSq_congr [Mul α] [Zero α] {A A' B B' : Sq α} (hA : SqEquiv A A') (hB : SqEquiv B B') :
    SqEquiv (kronSq A B) (kronSq A' B') := by
  refine ⟨by show A.1 * B.1 = A'.1 * B'.1; rw [hA.1, hB.1], fun p q => ?_⟩
  rw [kronSq_get, kronSq_get, hA.1, hB.1, hA.2, hB.2]

/-- the `1 × 1` identity is a left unit -/
theorem kronSq_one_left [MulOneClass α] [Zero α] (K : Sq α) : SqEquiv (kronSq ⟨1, DMat.one⟩ K) K := by
  refine ⟨Nat.one_mul _, fun p q => ?_⟩
  rw [kronSq_get]
  show (if p < 1 * K.1 ∧ q < 1 * K.1 then _ else _) = _
  rw [Nat.one_mul]
  by_cases h : p < K.1 ∧ q < K.1
  · rw [if_pos h, Nat.div_eq_of_lt h.1, Nat.div_eq_of_lt h.2, Nat.mod_eq_of_lt h.1, Nat.mod_eq_of_lt h.2]
    have : Sq.get (⟨1, DMat.one⟩ : Sq α) 0 0 = 1 := by
      unfold Sq.get
      rw [dif_pos ⟨Nat.zero_lt_one, Nat.zero_lt_one⟩]
      simp [DMat.toMatrix_one]
    rw [this, one_mul]
  · rw [if_neg h, Sq.get_of_not_lt K p q h]

/-- the `1 × 1` identity is a right unit -/
theorem kronSq_one_right [MulOneClass α] [Zero α] (K : Sq α) : SqEquiv (kronSq K ⟨1, DMat.one⟩) K := by
  refine ⟨Nat.mul_one _, fun p q => ?_⟩
  rw [kronSq_get]
  show (if p < K.1 * 1 ∧ q < K.1 * 1 then K.get (p / 1) (q / 1) * Sq.get (⟨1, DMat.one⟩ : Sq α) (p % 1) (q % 1) else 0) = _
  rw [Nat.mul_one, Nat.div_one, Nat.div_one, Nat.mod_one, Nat.mod_one]
  by_cases h : p < K.1 ∧ q < K.1
  · rw [if_pos h]
    have : Sq.get (⟨1, DMat.one⟩ : Sq α) 0 0 = 1 := by
      unfold Sq.get
      rw [dif_pos ⟨Nat.zero_lt_one, Nat.zero_lt_one⟩]
      simp [DMat.toMatrix_one]
    rw [this, mul_one]
  · rw [if_neg h, Sq.get_of_not_lt K p q h]

/-- associativity of the Kronecker index arithmetic: `A ⊗ (B ⊗ C) = (A ⊗ B) ⊗ C` entrywise -/
theorem kronSq_assoc [Semigroup α] [Zero α] (A B C : Sq α) :
    SqEquiv (kronSq A (kronSq B C)) (kronSq (kronSq A B) C) := by
  refine ⟨(Nat.mul_assoc _ _ _).symm, fun p q => ?_⟩
  rw [kronSq_get, kronSq_get (kronSq A B) C]
  show (if p < A.1 * (B.1 * C.1) ∧ q < A.1 * (B.1 * C.1) then
        A.get (p / (B.1 * C.1)) (q / (B.1 * C.1)) * (kronSq B C).get (p % (B.1 * C.1)) (q % (B.1 * C.1)) else 0)
      = (if p < A.1 * B.1 * C.1 ∧ q < A.1 * B.1 * C.1 then
        (kronSq A B).get (p / C.1) (q / C.1) * C.get (p % C.1) (q % C.1) else 0)
  rw [Nat.mul_assoc]
  by_cases h : p < A.1 * (B.1 * C.1) ∧ q < A.1 * (B.1 * C.1)
  · rw [if_pos h, if_pos h]
    have hbc : 0 < B.1 * C.1 :=
      Nat.pos_of_ne_zero (fun h0 => by rw [h0, Nat.mul_zero] at h; exact Nat.not_lt_zero _ h.1)
    have hc : 0 < C.1 := Nat.pos_of_ne_zero (fun h0 => by rw [h0, Nat.mul_zero] at hbc; exact Nat.lt_irrefl _ hbc)
    -- inner product B ⊗ C at the remainder positions: in range
    rw [kronSq_get B C, if_pos ⟨Nat.mod_lt _ hbc, Nat.mod_lt _ hbc⟩]
    -- outer product A ⊗ B at the quotient positions: in range
    have hpc : p / C.1 < A.1 * B.1 :=
      Nat.div_lt_of_lt_mul (by rw [Nat.mul_comm, Nat.mul_assoc]; exact h.1)
    have hqc : q / C.1 < A.1 * B.1 :=
      Nat.div_lt_of_lt_mul (by rw [Nat.mul_comm, Nat.mul_assoc]; exact h.2)
    rw [kronSq_get A B, if_pos ⟨hpc, hqc⟩]
    -- index arithmetic
    have e1 : ∀ x : ℕ, x / C.1 / B.1 = x / (B.1 * C.1) := fun x => by
      rw [Nat.div_div_eq_div_mul, Nat.mul_comm]
    have e2 : ∀ x : ℕ, x % (B.1 * C.1) / C.1 = x / C.1 % B.1 := fun x => by
      rw [Nat.mul_comm, Nat.mod_mul_right_div_self]
    have e3 : ∀ x : ℕ, x % (B.1 * C.1) % C.1 = x % C.1 := fun x => by
      rw [Nat.mul_comm, Nat.mod_mul_right_mod]
    rw [e1, e1, e2, e2, e3, e3, mul_assoc]
  · rw [if_neg h, if_neg h]

/-- appending one factor at the END of the row-major product is a Kronecker product on the right -/
theorem gridKronRowMajor_snoc [Monoid α] [Zero α] : ∀ (L : List (Sq α)) (K : Sq α),
    SqEquiv (gridKronRowMajor (L ++ [K])) (kronSq (gridKronRowMajor L) K)
  | [], K => by
      show SqEquiv (kronSq K ⟨1, DMat.one⟩) (kronSq ⟨1, DMat.one⟩ K)
      exact (kronSq_one_right K).trans (kronSq_one_left K).symm
  | A :: L, K => by
      show SqEquiv (kronSq A (gridKronRowMajor (L ++ [K]))) (kronSq (kronSq A (gridKronRowMajor L)) K)
      exact (kronSq_congr (SqEquiv.refl A) (gridKronRowMajor_snoc L K)).trans (kronSq_assoc A _ K)

/-- **the non-interpolation order**: the standard Kronecker product over the reversed factor list is the model's
`gridKron` (first grid dimension fastest), for every number of dimensions and all sizes. -/
theorem gridKronRowMajor_reverse [Monoid α] [Zero α] : ∀ (Ks : List (Sq α)),
    SqEquiv (gridKronRowMajor Ks.reverse) (gridKron Ks)
  | [] => SqEquiv.refl _
  | K :: Ks => by
      rw [List.reverse_cons, gridKron_cons]
      exact (gridKronRowMajor_snoc Ks.reverse K).trans
        (kronSq_congr (gridKronRowMajor_reverse Ks) (SqEquiv.refl K))

/-- one grid dimension of a stationary kernel `k(x, y) = f(x − y)` on the equally spaced grid `g₀ + l·δ`, `l < n` -/
structure GridDim (α : Type) where
  n : ℕ
  f : α → α
  g0 : α
  δ : α

/-- the row `k(g₀, g_l)` that `GridKernel.forward` evaluates under `use_toeplitz` -/
def GridDim.row [Field α] (d : GridDim α) : Σ n : ℕ, Fin n → α := ⟨d.n, fun l => d.f (d.g0 - (d.g0 + l.1 * d.δ))⟩

/-- the dense one-dimensional kernel matrix `k(g_i, g_j)` -/
def GridDim.dense [Field α] (d : GridDim α) : Sq α :=
  ⟨d.n, DMat.ofMatrix (Matrix.of fun i j : Fin d.n => d.f ((d.g0 + i.1 * d.δ) - (d.g0 + j.1 * d.δ)))⟩

end Structured.Bridge

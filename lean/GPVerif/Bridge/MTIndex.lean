/-
Helper lemmas for C11 about the hand-written index model (`GPVerif.Model.MTIndex`): slices, wrap-around,
row-major enumeration.  Nothing here mentions the generated code.
-/
import GPVerif.Model.MTIndex
import Mathlib.Tactic.Ring
import Mathlib.Tactic.Linarith

namespace MTIndex

/-! ### wrap / tensor indices -/

theorem wrap_of_valid {len p : Int} (h0 : 0 ≤ p) (h1 : p < len) : wrap len p = some p := by
  simp [wrap, h0, h1]

theorem wrap_bounds {len p q : Int} (h : wrap len p = some q) : 0 ≤ q ∧ q < len := by
  unfold wrap at h
  split at h
  · cases h; omega
  · split at h
    · cases h; omega
    · cases h

/-- the value `wrap` produces is the one `if p < 0 then p + len else p` computes -/
theorem wrap_eq_norm {len p q : Int} (h : wrap len p = some q) : (if p < 0 then p + len else p) = q := by
  unfold wrap at h
  split at h
  · cases h; split <;> omega
  · split at h
    · cases h; split <;> omega
    · cases h

theorem wrap_eq_norm' {len p q : Int} (h : wrap len p = some q) : (if p < 0 then len + p else p) = q := by
  rw [← wrap_eq_norm h]; split <;> omega

theorem indexTensor_of_valid {len : Int} : ∀ {l : List Int}, (∀ p ∈ l, 0 ≤ p ∧ p < len) → indexTensor len l = some l
  | [], _ => rfl
  | p :: ps, h => by
    have hp := h p (by simp)
    have ih := indexTensor_of_valid (l := ps) (fun q hq => h q (by simp [hq]))
    simp [indexTensor, wrap_of_valid hp.1 hp.2, ih]

theorem indexTensor_bounds {len : Int} : ∀ {l L : List Int}, indexTensor len l = some L → ∀ p ∈ L, 0 ≤ p ∧ p < len
  | [], L, h => by simp [indexTensor] at h; subst h; simp
  | p :: ps, L, h => by
    unfold indexTensor at h
    split at h
    · rename_i q qs hq hqs
      cases h
      intro x hx
      rcases List.mem_cons.mp hx with rfl | hx
      · exact wrap_bounds hq
      · exact indexTensor_bounds hqs x hx
    · cases h

theorem indexTensor_eq_map {len : Int} : ∀ {l L : List Int}, indexTensor len l = some L →
    l.map (fun i => if i < 0 then i + len else i) = L
  | [], L, h => by simp [indexTensor] at h; subst h; rfl
  | p :: ps, L, h => by
    unfold indexTensor at h
    split at h
    · rename_i q qs hq hqs
      cases h
      simp only [List.map_cons, wrap_eq_norm hq, indexTensor_eq_map hqs]
    · cases h

theorem indexTensor_length {len : Int} : ∀ {l L : List Int}, indexTensor len l = some L → L.length = l.length
  | [], L, h => by simp [indexTensor] at h; subst h; rfl
  | p :: ps, L, h => by
    unfold indexTensor at h
    split at h
    · rename_i q qs hq hqs
      cases h
      simp [indexTensor_length hqs]
    · cases h

/-! ### slices -/

theorem clampBound_id {len v : Int} (h0 : 0 ≤ v) (h1 : v ≤ len) : clampBound len v = v := by
  unfold clampBound; split <;> split <;> omega

theorem clampBound_bounds {len : Int} (hl : 0 ≤ len) (v : Int) : 0 ≤ clampBound len v ∧ clampBound len v ≤ len := by
  unfold clampBound; split <;> split <;> omega

theorem indices_bounds (s : PySlice) {len : Int} (hl : 0 ≤ len) :
    0 ≤ (s.indices len).start ∧ (s.indices len).start ≤ len ∧
    0 ≤ (s.indices len).stop ∧ (s.indices len).stop ≤ len := by
  unfold PySlice.indices
  cases s.start <;> cases s.stop <;> simp <;>
    first
      | omega
      | (have := clampBound_bounds hl; grind)

theorem indices_step (s : PySlice) (len : Int) : (s.indices len).step = s.step.getD 1 := rfl

/-- Re-applying a slice whose bounds already lie in `[0, len]` selects exactly `range(start, stop, step)`. -/
theorem applySlice_of_bounds {len : Int} (q : NSlice) (h0 : 0 ≤ q.start) (h1 : q.start ≤ len)
    (h2 : 0 ≤ q.stop) (h3 : q.stop ≤ len) : applySlice len q = q.toList := by
  simp [applySlice, applyPySlice, NSlice.toPy, PySlice.indices, clampBound_id h0 h1, clampBound_id h2 h3]

theorem mem_toList {q : NSlice} {x : Int} (hx : x ∈ q.toList) :
    0 < q.step ∧ ∃ k : Nat, x = q.start + (k : Int) * q.step ∧ x < q.stop := by
  unfold NSlice.toList at hx
  obtain ⟨k, hk, rfl⟩ := List.mem_map.mp hx
  have hk' : k < q.count := List.mem_range.mp hk
  unfold NSlice.count at hk'
  split at hk'
  · rename_i hc
    refine ⟨hc.1, k, rfl, ?_⟩
    -- k < (stop - start - 1)/step + 1  →  k*step ≤ stop - start - 1
    have hs := hc.1
    have hq : (k : Int) ≤ (q.stop - q.start - 1) / q.step := by omega
    have := Int.mul_le_mul_of_nonneg_right hq (Int.le_of_lt hs)
    have h2 := Int.ediv_mul_le (q.stop - q.start - 1) (Int.ne_of_gt hs)
    omega
  · omega

theorem toList_bounds {q : NSlice} (h0 : 0 ≤ q.start) {x : Int} (hx : x ∈ q.toList) : 0 ≤ x ∧ x < q.stop := by
  obtain ⟨hs, k, rfl, hlt⟩ := mem_toList hx
  have : 0 ≤ (k : Int) * q.step := Int.mul_nonneg (Int.natCast_nonneg k) (Int.le_of_lt hs)
  omega

/-- `range(a + off, b + off, s) = [x + off | x ∈ range(a, b, s)]` -/
theorem toList_shift (a b s off : Int) :
    (NSlice.mk (a + off) (b + off) s).toList = (NSlice.mk a b s).toList.map (· + off) := by
  have hc : (NSlice.mk (a + off) (b + off) s).count = (NSlice.mk a b s).count := by
    simp only [NSlice.count]
    have e : b + off - (a + off) - 1 = b - a - 1 := by omega
    rw [e]
    by_cases h : 0 < s ∧ a < b
    · rw [if_pos h, if_pos ⟨h.1, by omega⟩]
    · rw [if_neg h, if_neg (by omega)]
  simp only [NSlice.toList, hc, List.map_map]
  apply List.map_congr_left
  intro k _
  simp only [Function.comp]
  omega

/-- the quotient that makes `range(a·m + c, b·m + c, s·m)` as long as `range(a, b, s)` -/
theorem scaled_count_div {d s m : Int} (hd : 1 ≤ d) (hs : 0 < s) (hm : 0 < m) :
    (d * m - 1) / (s * m) = (d - 1) / s := by
  have hsm : 0 < s * m := Int.mul_pos hs hm
  have hq := Int.mul_ediv_add_emod (d - 1) s
  have hr0 := Int.emod_nonneg (d - 1) (Int.ne_of_gt hs)
  have hr1 := Int.emod_lt_of_pos (d - 1) hs
  have key : ((d - 1) % s + 1) * m - 1 + s * m * ((d - 1) / s) = d * m - 1 := by
    have : d = s * ((d - 1) / s) + (d - 1) % s + 1 := by omega
    calc ((d - 1) % s + 1) * m - 1 + s * m * ((d - 1) / s)
        = (s * ((d - 1) / s) + (d - 1) % s + 1) * m - 1 := by ring
      _ = d * m - 1 := by rw [← this]
  have hlow : 0 ≤ ((d - 1) % s + 1) * m - 1 := by nlinarith
  have hhigh : ((d - 1) % s + 1) * m - 1 < s * m := by nlinarith
  exact ((Int.ediv_emod_unique hsm).mpr ⟨key, hlow, hhigh⟩).1

/-- `range(a·m + c, b·m + c, s·m) = [x·m + c | x ∈ range(a, b, s)]` for `m > 0` -/
theorem toList_scale (a b s m c : Int) (hm : 0 < m) :
    (NSlice.mk (a * m + c) (b * m + c) (s * m)).toList = (NSlice.mk a b s).toList.map (· * m + c) := by
  have hc : (NSlice.mk (a * m + c) (b * m + c) (s * m)).count = (NSlice.mk a b s).count := by
    simp only [NSlice.count]
    by_cases h : 0 < s ∧ a < b
    · have h1 : 0 < s * m := Int.mul_pos h.1 hm
      have h2 : a * m + c < b * m + c := by
        have := (Int.mul_lt_mul_right hm).mpr h.2
        omega
      rw [if_pos h, if_pos ⟨h1, h2⟩]
      have e : b * m + c - (a * m + c) - 1 = (b - a) * m - 1 := by ring
      rw [e, scaled_count_div (by omega) h.1 hm]
    · rw [if_neg h, if_neg]
      rintro ⟨h1, h2⟩
      apply h
      constructor
      · by_contra hs
        have : s * m ≤ 0 := by nlinarith
        omega
      · have : a * m < b * m := by omega
        exact (Int.mul_lt_mul_right hm).mp this
  simp only [NSlice.toList, hc, List.map_map]
  apply List.map_congr_left
  intro k _
  simp only [Function.comp]
  ring

/-- `slice(None, None, None)` selects `0, 1, …, len-1` -/
theorem applyPySlice_full (len : Nat) :
    applyPySlice (len : Int) PySlice.full = (List.range len).map (fun (k : Nat) => (k : Int)) := by
  have hc : (NSlice.mk 0 (len : Int) 1).count = len := by
    unfold NSlice.count
    split
    · simp
    · rename_i hn
      simp only [Int.zero_lt_one, true_and] at hn
      omega
  show (NSlice.mk 0 (len : Int) 1).toList = _
  simp [NSlice.toList, hc]

/-! ### row-major enumeration -/

theorem rowMajor_single_row (nc r : Int) (C : List Int) : rowMajor nc [r] C = C.map (fun c => r * nc + c) := by
  simp [rowMajor]

theorem rowMajor_single_col (nc c : Int) (R : List Int) : rowMajor nc R [c] = R.map (fun r => r * nc + c) := by
  induction R with
  | nil => rfl
  | cons r rs ih =>
    simp only [rowMajor, List.map_cons, List.map_nil] at ih
    simp [rowMajor, ih]

theorem flat_bound {nr nc r c : Int} (hr0 : 0 ≤ r) (hr1 : r < nr) (hc0 : 0 ≤ c) (hc1 : c < nc) :
    0 ≤ r * nc + c ∧ r * nc + c < nr * nc := by
  have h1 : 0 ≤ r * nc := Int.mul_nonneg hr0 (by omega)
  have h2 : r * nc ≤ (nr - 1) * nc := Int.mul_le_mul_of_nonneg_right (by omega) (by omega)
  have h3 : (nr - 1) * nc = nr * nc - nc := by ring
  omega

theorem rowMajor_bounds {nr nc : Int} {R C : List Int} (hR : ∀ r ∈ R, 0 ≤ r ∧ r < nr) (hC : ∀ c ∈ C, 0 ≤ c ∧ c < nc) :
    ∀ p ∈ rowMajor nc R C, 0 ≤ p ∧ p < nr * nc := by
  intro p hp
  simp only [rowMajor, List.mem_flatMap, List.mem_map] at hp
  obtain ⟨r, hr, c, hc, rfl⟩ := hp
  exact flat_bound (hR r hr).1 (hR r hr).2 (hC c hc).1 (hC c hc).2

/-- the row-major enumeration of the full grid is `0 … nr·nc - 1` -/
theorem rowMajor_full (nr nc : Nat) :
    rowMajor (nc : Int) ((List.range nr).map (fun (k : Nat) => (k : Int))) ((List.range nc).map (fun (k : Nat) => (k : Int)))
      = (List.range (nr * nc)).map (fun (k : Nat) => (k : Int)) := by
  induction nr with
  | zero => simp [rowMajor]
  | succ m ih =>
    simp only [rowMajor] at ih
    simp only [rowMajor, List.range_succ, List.map_append, List.flatMap_append, ih]
    have : (m + 1) * nc = m * nc + nc := by ring
    rw [this, List.range_add]
    simp [List.map_append, List.map_map, Function.comp_def]

/-! ### broadcasting -/

theorem bcast_swap (f : Int → Int → Int) (xs ys : List Int) :
    bcast f xs ys = bcast (fun y x => f x y) ys xs := by
  unfold bcast
  by_cases h : xs.length = ys.length
  · rw [if_pos h, if_pos h.symm, List.zipWith_comm]
  · rw [if_neg h, if_neg (Ne.symm h)]
    match xs, ys, h with
    | [x], [y], h => simp at h
    | [x], [], _ => rfl
    | [x], _ :: _ :: _, _ => rfl
    | [], [y], _ => rfl
    | _ :: _ :: _, [y], _ => rfl
    | [], [], h => simp at h
    | [], _ :: _ :: _, _ => rfl
    | _ :: _ :: _, [], _ => rfl
    | _ :: _ :: _, _ :: _ :: _, _ => rfl

theorem mem_zipWith {f : Int → Int → Int} : ∀ {xs ys : List Int} {p : Int}, p ∈ List.zipWith f xs ys →
    ∃ x ∈ xs, ∃ y ∈ ys, p = f x y
  | [], _, _, h => by simp at h
  | _ :: _, [], _, h => by simp at h
  | x :: xs, y :: ys, p, h => by
    simp only [List.zipWith_cons_cons, List.mem_cons] at h
    rcases h with rfl | h
    · exact ⟨x, by simp, y, by simp, rfl⟩
    · obtain ⟨a, ha, b, hb, e⟩ := mem_zipWith h
      exact ⟨a, by simp [ha], b, by simp [hb], e⟩

theorem bcast_mem {f : Int → Int → Int} {xs ys L : List Int} (h : bcast f xs ys = some L) :
    ∀ p ∈ L, ∃ x ∈ xs, ∃ y ∈ ys, p = f x y := by
  unfold bcast at h
  split at h
  · cases h; intro p hp; exact mem_zipWith hp
  · split at h
    · cases h; intro p hp
      obtain ⟨y, hy, rfl⟩ := List.mem_map.mp hp
      exact ⟨_, by simp, y, hy, rfl⟩
    · cases h; intro p hp
      obtain ⟨x, hx, rfl⟩ := List.mem_map.mp hp
      exact ⟨x, hx, _, by simp, rfl⟩
    · cases h

end MTIndex

namespace MTIndex

/-! ### slices whose selected elements stay below the length -/

theorem mem_toList_of_lt {q : NSlice} {k : Nat} (hk : k < q.count) : q.start + (k : Int) * q.step ∈ q.toList :=
  List.mem_map.mpr ⟨k, List.mem_range.mpr hk, rfl⟩

/-- A slice with non-negative bounds all of whose elements are `< len` is not changed by the clamping that
indexing a dimension of length `len` applies. -/
theorem applySlice_of_lt {len : Int} (q : NSlice) (hl : 0 ≤ len) (h0 : 0 ≤ q.start) (h2 : 0 ≤ q.stop)
    (hlt : ∀ x ∈ q.toList, x < len) : applySlice len q = q.toList := by
  by_cases hc : 0 < q.step ∧ q.start < q.stop
  · -- non-empty: start itself is an element
    have hcnt : q.count = ((q.stop - q.start - 1) / q.step + 1).toNat := by simp [NSlice.count, hc]
    have hm0 : 0 ≤ (q.stop - q.start - 1) / q.step := Int.ediv_nonneg (by omega) (Int.le_of_lt hc.1)
    have hpos : 0 < q.count := by omega
    have hstart : q.start < len := by
      have := hlt _ (mem_toList_of_lt hpos)
      simpa using this
    by_cases hs : q.stop ≤ len
    · exact applySlice_of_bounds q h0 (by omega) h2 hs
    · -- stop is clamped to len; the count does not change
      have hlast : q.start + ((q.count - 1 : Nat) : Int) * q.step < len :=
        hlt _ (mem_toList_of_lt (by omega))
      have hk : ((q.count - 1 : Nat) : Int) = (q.stop - q.start - 1) / q.step := by omega
      rw [hk] at hlast
      have hdiv : (len - q.start - 1) / q.step = (q.stop - q.start - 1) / q.step := by
        apply Int.le_antisymm
        · exact Int.ediv_le_ediv hc.1 (by omega)
        · exact Int.le_ediv_of_mul_le hc.1 (by omega)
      have e1 : clampBound len q.start = q.start := clampBound_id h0 (by omega)
      have e2 : clampBound len q.stop = len := by
        unfold clampBound; split <;> split <;> omega
      simp only [applySlice, applyPySlice, NSlice.toPy, PySlice.indices, e1, e2, Option.getD_some, NSlice.toList]
      have : (NSlice.mk q.start len q.step).count = q.count := by
        simp only [NSlice.count, if_pos hc, if_pos (And.intro hc.1 hstart), hdiv]
      rw [this]
  · -- empty before and after clamping
    have hq : q.toList = [] := by simp [NSlice.toList, NSlice.count, hc]
    rw [hq]
    simp only [applySlice, applyPySlice, NSlice.toPy, PySlice.indices, Option.getD_some, NSlice.toList]
    have : (NSlice.mk (clampBound len q.start) (clampBound len q.stop) q.step).count = 0 := by
      simp only [NSlice.count]
      rw [if_neg]
      rintro ⟨hs, hlt'⟩
      apply hc
      refine ⟨hs, ?_⟩
      unfold clampBound at hlt'
      split at hlt' <;> split at hlt' <;> split at hlt' <;> (try split at hlt') <;> omega
    rw [this]
    rfl

/-- positions selected along a dimension are valid positions -/
theorem resolve_bounds {len : Int} (hl : 0 ≤ len) {x : Idx} {L : List Int} (h : x.resolve len = some L) :
    ∀ p ∈ L, 0 ≤ p ∧ p < len := by
  cases x with
  | int i =>
    simp only [Idx.resolve, indexInt, Option.map_eq_some_iff] at h
    obtain ⟨q, hq, rfl⟩ := h
    intro p hp
    simp only [List.mem_singleton] at hp
    subst hp
    exact wrap_bounds hq
  | slice s =>
    simp only [Idx.resolve] at h
    split at h
    · cases h
      intro p hp
      have hb := indices_bounds s hl
      have := toList_bounds (q := s.indices len) hb.1 hp
      omega
    · cases h
  | list l => exact indexTensor_bounds h

theorem resolve_slice {len : Int} {s : PySlice} {R : List Int} (h : (Idx.slice s).resolve len = some R) :
    R = arangeSlice len s := by
  simp only [Idx.resolve] at h
  split at h
  · cases h; rfl
  · cases h

theorem resolve_list {len : Int} {l R : List Int} (h : (Idx.list l).resolve len = some R) :
    indexTensor len l = some R := h

/-- positions in (row, col) coordinates: pairs for two index tensors, the row-major grid otherwise -/
def rcPositions (nc : Int) (paired : Bool) (R C : List Int) : Option (List Int) :=
  if paired then bcast (fun r c => r * nc + c) R C else some (rowMajor nc R C)

theorem specPositions_inter (n t : Int) (paired : Bool) (rows cols : List Int) :
    specPositions true n t paired rows cols = rcPositions t paired rows cols := by
  cases paired <;> simp [specPositions, rcPositions, flat, rowMajor]

theorem specPositions_noninter (n t : Int) (paired : Bool) (rows cols : List Int) :
    specPositions false n t paired rows cols = rcPositions n paired cols rows := by
  cases paired
  · simp [specPositions, rcPositions, flat, rowMajor]
  · simp only [specPositions, rcPositions, flat, if_true]
    rw [bcast_swap]
    rfl

/-! ### division facts for the flattening conventions -/

theorem flat_div {m i a : Int} (ha0 : 0 ≤ a) (ha1 : a < m) : (i * m + a) / m = i := by
  have hm : m ≠ 0 := by omega
  rw [Int.add_comm, Int.add_mul_ediv_right _ _ hm, Int.ediv_eq_zero_of_lt ha0 ha1]
  omega

theorem flat_mod {m i a : Int} (ha0 : 0 ≤ a) (ha1 : a < m) : (i * m + a) % m = a := by
  rw [Int.add_comm, Int.add_mul_emod_self_right, Int.emod_eq_of_lt ha0 ha1]

theorem div_lt_of_lt_mul {p n m : Int} (hp1 : p < n * m) (hm : 0 < m) : p / m < n :=
  Int.ediv_lt_of_lt_mul hm hp1

end MTIndex

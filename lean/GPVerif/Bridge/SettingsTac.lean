/-
Lemmas and the two tactics used by the generated per-class theorems of `Gen/SettingsThms.lean`.
Core Lean only.
-/
import GPVerif.Model.Settings

namespace Settings

theorem setS_apply (σ : Store) (c f : Nat) (v : Val) (c' f' : Nat) :
    setS σ c f v c' f' = if c' = c ∧ f' = f then v else σ c' f' := rfl
theorem setF_apply (φ : Frame) (f : Nat) (v : Val) (f' : Nat) :
    setF φ f v f' = if f' = f then v else φ f' := rfl

theorem store_ext (σ τ : Store) (h : ∀ c f, σ c f = τ c f) : σ = τ := by funext c f; exact h c f
theorem ite_fst {α β} (c : Prop) [Decidable c] (p q : α × β) :
    (if c then p else q).1 = if c then p.1 else q.1 := by split <;> rfl
theorem ite_snd {α β} (c : Prop) [Decidable c] (p q : α × β) :
    (if c then p else q).2 = if c then p.2 else q.2 := by split <;> rfl
theorem ite_env_store (c : Prop) [Decidable c] (a b : Env) :
    (if c then a else b).store = if c then a.store else b.store := by split <;> rfl
theorem ite_env_self (c : Prop) [Decidable c] (a b : Env) :
    (if c then a else b).self = if c then a.self else b.self := by split <;> rfl
theorem ite_env_args (c : Prop) [Decidable c] (a b : Env) :
    (if c then a else b).args = if c then a.args else b.args := by split <;> rfl
theorem ite_env_strict (c : Prop) [Decidable c] (a b : Env) :
    (if c then a else b).strict = if c then a.strict else b.strict := by split <;> rfl
theorem ite_fun_apply {α β} (c : Prop) [Decidable c] (f g : α → β) (x : α) :
    (if c then f else g) x = if c then f x else g x := by split <;> rfl

/-- Proves `Restores c_<name>` for a generated class: symbolic execution of the three statement lists,
then extensionality on the store and case analysis on the (finitely many) guards. -/
macro "settings_restores" d:ident : tactic => `(tactic| (
  intro σ args strict
  simp only [$d:ident, execAll, Stmt.exec, Expr.eval, Cond.eval, setF_apply, List.contains_cons, List.contains_nil,
    Nat.reduceEqDiff, ↓reduceIte, if_true, if_false, ite_fst, ite_snd, ite_env_store, ite_env_self,
    ite_env_args, ite_env_strict, ite_self, ite_fun_apply, Bool.false_eq_true]
  refine ⟨?_, fun _ => ⟨fun _ => ?_, fun _ => ⟨?_, ?_⟩⟩⟩ <;>
  first
    | rfl
    | grind
    | (apply store_ext; intro c f; simp only [setS_apply, ite_fun_apply]; grind)))

/-- Proves the generated `entered_<name>` statements (what is visible inside the block). -/
macro "settings_entered" d:ident : tactic => `(tactic| (
  simp only [enteredStore, $d:ident, execAll, Stmt.exec, Expr.eval, Cond.eval, setF_apply, setS_apply, List.contains_cons,
    List.contains_nil, Nat.reduceEqDiff, ↓reduceIte, if_true, if_false, ite_fst, ite_snd, ite_env_store,
    ite_env_self, ite_env_args, ite_env_strict, ite_self, ite_fun_apply, Bool.false_eq_true, Option.map_some, Option.map_none,
    and_self, and_true, and_false] at *
  try (first | rfl | grind | (simp_all; try simp [setS_apply]))))

/-- Proves the generated `kept_<name>` statements: a field the block did not name (argument `None`) shows, inside
the block, the value it had where the block was entered. -/
macro "settings_kept" d:ident : tactic => `(tactic| (
  simp only [enteredStore, $d:ident, execAll, Stmt.exec, Expr.eval, Cond.eval, setF_apply, setS_apply, List.contains_cons,
    List.contains_nil, Nat.reduceEqDiff, ↓reduceIte, if_true, if_false, ite_fst, ite_snd, ite_env_store,
    ite_env_self, ite_env_args, ite_env_strict, ite_self, ite_fun_apply, Bool.false_eq_true, Option.map_some, Option.map_none,
    and_self, and_true, and_false] at *
  try (first | rfl | grind | (simp_all; try simp [setS_apply]))))

end Settings

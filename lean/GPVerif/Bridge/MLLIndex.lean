/-
Helper lemmas of C02 about multi-indices, row-major flattening and broadcasting (`MLL.flatIdx`,
`MLL.bcastIdx`).
-/
import GPVerif.Model.MLL
import Mathlib.Tactic.SplitIfs

namespace MLLIndex
open MLL

/-- a multi-index within a shape -/
def Valid : List Nat → List Nat → Prop
  | [], [] => True
  | i :: is, s :: ss => i < s ∧ Valid is ss
  | _, _ => False

theorem valid_length : ∀ {b s : List Nat}, Valid b s → b.length = s.length
  | [], [], _ => rfl
  | _ :: _, _ :: _, h => by simp [valid_length h.2]
  | [], _ :: _, h => h.elim
  | _ :: _, [], h => h.elim

theorem bcastIdx_self : ∀ (b s : List Nat), Valid b s → bcastIdx s b = b := by
  intro b s h
  have hl := valid_length h
  simp only [bcastIdx, hl, Nat.sub_self, List.drop_zero]
  induction b generalizing s with
  | nil => cases s <;> simp_all
  | cons i is ih =>
    cases s with
    | nil => exact h.elim
    | cons t ss =>
      have h1 : i < t := h.1
      have := ih ss h.2 (by simpa using hl)
      simp only [List.zipWith_cons_cons, this, List.cons.injEq, and_true]
      split_ifs with ht
      · omega
      · rfl

theorem flatIdx_bcast_ones : ∀ (k : Nat) (b : List Nat), b.length = k →
    flatIdx (bcastIdx (List.replicate k 1) b) (List.replicate k 1) = 0 := by
  intro k b hb
  simp only [bcastIdx, List.length_replicate, hb, Nat.sub_self, List.drop_zero]
  induction k generalizing b with
  | zero => simp [flatIdx]
  | succ k ih =>
    cases b with
    | nil => simp at hb
    | cons i is =>
      simp only [List.replicate_succ, List.zipWith_cons_cons, flatIdx, if_true, Nat.zero_mul, Nat.zero_add]
      exact ih is (by simpa using hb)

end MLLIndex

/-
Jet (value / gradient) version of `hexp_psd`, and `RBFKernelGrad`.
`blocks(exp⟨x,y⟩)` is the entrywise limit of the PSD matrices `∑_{k<N} blocks(⟨x,y⟩^k)/k!` (`polyGrad_psd`; the three block types
need the exponential series shifted by 0, 1, 2).  The RBF kernel is `a(x) a(y) exp⟨z_x, z_y⟩` at the rescaled points `z = x/ℓ`;
its blocks are the jet product of the rank-one blocks of `a ⊗ a` with `blocks(exp)`, conjugated by `diag(1, 1/ℓ_a)` (chain rule).
-/
import GPVerif.Bridge.JetProduct
import GPVerif.Bridge.RBF

open Matrix Filter Topology
open scoped MatrixOrder

set_option linter.unusedSectionVars false

namespace C07

theorem hasSum_exp0 (s : ℝ) : HasSum (fun k : ℕ => s ^ k / (k.factorial : ℝ)) (Real.exp s) := by
  have h := NormedSpace.expSeries_div_hasSum_exp (𝔸 := ℝ) s
  rwa [← Real.exp_eq_exp_ℝ] at h

theorem hasSum_exp1 (s : ℝ) : HasSum (fun k : ℕ => (k : ℝ) * s ^ (k - 1) / (k.factorial : ℝ)) (Real.exp s) := by
  rw [← hasSum_nat_add_iff' 1]
  simp only [Finset.range_one, Finset.sum_singleton, Nat.cast_zero, zero_mul, zero_div, sub_zero]
  have e : (fun n : ℕ => ((n + 1 : ℕ) : ℝ) * s ^ (n + 1 - 1) / ((n + 1).factorial : ℝ)) = fun k : ℕ => s ^ k / (k.factorial : ℝ) := by
    funext n
    rw [Nat.add_sub_cancel, Nat.factorial_succ]
    push_cast
    field_simp
  rw [e]; exact hasSum_exp0 s

theorem hasSum_exp2 (s : ℝ) :
    HasSum (fun k : ℕ => (k : ℝ) * ((k : ℝ) - 1) * s ^ (k - 2) / (k.factorial : ℝ)) (Real.exp s) := by
  rw [← hasSum_nat_add_iff' 2]
  simp only [Finset.sum_range_succ, Finset.range_zero, Finset.sum_empty, Nat.cast_zero, zero_mul, zero_div, Nat.cast_one,
    sub_self, mul_zero, zero_add, sub_zero]
  have e : (fun n : ℕ => ((n + 2 : ℕ) : ℝ) * (((n + 2 : ℕ) : ℝ) - 1) * s ^ (n + 2 - 2) / ((n + 2).factorial : ℝ)) =
      fun k : ℕ => s ^ k / (k.factorial : ℝ) := by
    funext n
    rw [Nat.add_sub_cancel, Nat.factorial_succ, Nat.factorial_succ]
    push_cast
    field_simp
    ring
  rw [e]; exact hasSum_exp0 s

variable {ι d : Type*} [Fintype ι] [Fintype d] [DecidableEq d]

/-- value / gradient blocks of `exp(⟨x, y⟩)`:
`[e^s, e^s x_i b; e^s x_j a, e^s (x_j a x_i b + δ_ab)]`, `s = ⟨x_i, x_j⟩`. -/
noncomputable def expGrad (Z : Matrix ι d ℝ) : Matrix (ι × Option d) (ι × Option d) ℝ :=
  of fun u v => match u.2, v.2 with
    | none, none => Real.exp ((Z * Zᵀ) u.1 v.1)
    | none, some b => Real.exp ((Z * Zᵀ) u.1 v.1) * Z u.1 b
    | some a, none => Real.exp ((Z * Zᵀ) u.1 v.1) * Z v.1 a
    | some a, some b => Real.exp ((Z * Zᵀ) u.1 v.1) * (Z v.1 a * Z u.1 b + (if a = b then 1 else 0))

/-- the jet version of `hexp_psd` for the linear kernel: the blocks of `exp(⟨x,y⟩)` are the entrywise limit of the PSD
matrices `∑_{k<N} blocks(⟨x,y⟩^k)/k!`. -/
theorem expGrad_psd (Z : Matrix ι d ℝ) : (expGrad Z).PosSemidef := by
  classical
  let P : ℕ → Matrix (ι × Option d) (ι × Option d) ℝ :=
    fun N => ∑ k ∈ Finset.range N, ((k.factorial : ℝ)⁻¹) • polyGrad Z 0 k
  have hP : ∀ N, (P N).PosSemidef := fun N =>
    posSemidef_sum _ fun k _ => (polyGrad_psd Z le_rfl k).smul (by positivity)
  have hlim : ∀ u v, Tendsto (fun N => P N u v) atTop (𝓝 (expGrad Z u v)) := by
    rintro ⟨i, α⟩ ⟨j, β⟩
    set s : ℝ := (Z * Zᵀ) i j with hs
    have h0 := (hasSum_exp0 s).tendsto_sum_nat
    have h1 := (hasSum_exp1 s).tendsto_sum_nat
    have h2 := (hasSum_exp2 s).tendsto_sum_nat
    rcases α with _ | a <;> rcases β with _ | b
    · have e : (fun N => P N (i, none) (j, none)) = fun N => ∑ k ∈ Finset.range N, s ^ k / (k.factorial : ℝ) := by
        funext N
        simp only [P, Matrix.sum_apply, Matrix.smul_apply, polyGrad, of_apply, smul_eq_mul, add_zero]
        exact Finset.sum_congr rfl fun k _ => by rw [div_eq_inv_mul]
      rw [e]; simpa [expGrad] using h0
    · have e : (fun N => P N (i, none) (j, some b)) =
          fun N => (∑ k ∈ Finset.range N, (k : ℝ) * s ^ (k - 1) / (k.factorial : ℝ)) * Z i b := by
        funext N
        simp only [P, Matrix.sum_apply, Matrix.smul_apply, polyGrad, of_apply, smul_eq_mul, add_zero, Finset.sum_mul]
        exact Finset.sum_congr rfl fun k _ => by rw [div_eq_inv_mul]; ring
      rw [e]; simpa [expGrad] using h1.mul_const (Z i b)
    · have e : (fun N => P N (i, some a) (j, none)) =
          fun N => (∑ k ∈ Finset.range N, (k : ℝ) * s ^ (k - 1) / (k.factorial : ℝ)) * Z j a := by
        funext N
        simp only [P, Matrix.sum_apply, Matrix.smul_apply, polyGrad, of_apply, smul_eq_mul, add_zero, Finset.sum_mul]
        exact Finset.sum_congr rfl fun k _ => by rw [div_eq_inv_mul]; ring
      rw [e]; simpa [expGrad] using h1.mul_const (Z j a)
    · have e : (fun N => P N (i, some a) (j, some b)) =
          fun N => (∑ k ∈ Finset.range N, (k : ℝ) * ((k : ℝ) - 1) * s ^ (k - 2) / (k.factorial : ℝ)) * (Z j a * Z i b) +
            (∑ k ∈ Finset.range N, (k : ℝ) * s ^ (k - 1) / (k.factorial : ℝ)) * (if a = b then 1 else 0) := by
        funext N
        simp only [P, Matrix.sum_apply, Matrix.smul_apply, polyGrad, of_apply, smul_eq_mul, add_zero, Finset.sum_mul,
          ← Finset.sum_add_distrib]
        refine Finset.sum_congr rfl fun k _ => ?_
        by_cases hab : a = b <;> simp only [hab, if_true, if_false] <;> rw [div_eq_inv_mul, div_eq_inv_mul] <;> ring
      rw [e]
      have := (h2.mul_const (Z j a * Z i b)).add (h1.mul_const (if a = b then (1 : ℝ) else 0))
      convert this using 2
      simp only [expGrad, of_apply]
      ring
  refine PosSemidef.of_dotProduct_mulVec_nonneg ?_ fun v => ?_
  · ext ⟨i, α⟩ ⟨j, β⟩
    have hsym : (Z * Zᵀ) j i = (Z * Zᵀ) i j := by simp [Matrix.mul_apply, mul_comm]
    rcases α with _ | a <;> rcases β with _ | b <;>
      simp [expGrad, conjTranspose_apply, hsym, mul_comm, eq_comm]
  · have ht : Tendsto (fun N => star v ⬝ᵥ (P N *ᵥ v)) atTop (𝓝 (star v ⬝ᵥ (expGrad Z *ᵥ v))) := by
      simp only [dotProduct, mulVec]
      exact tendsto_finsetSum _ fun u _ =>
        tendsto_const_nhds.mul (tendsto_finsetSum _ fun w _ => (hlim u w).mul tendsto_const_nhds)
    exact ge_of_tendsto' ht fun N => (hP N).dotProduct_mulVec_nonneg v

/-- the matrix `RBFKernelGrad.forward` assembles (ARD lengthscales `ℓ_k`): with `k = exp(−½ Σ_k ((x_i−x_j)_k/ℓ_k)²)` and
`o_a = (x_i − x_j)_a / ℓ_a²`: `K11 = k`, `K12 = k·o_b`, `K21 = −k·o_a`, `K22 = k·(δ_ab/ℓ_a² − o_a o_b)`. -/
noncomputable def rbfGrad (X : Matrix ι d ℝ) (ℓ : d → ℝ) : Matrix (ι × Option d) (ι × Option d) ℝ :=
  of fun u v => match u.2, v.2 with
    | none, none => Real.exp (-(∑ k, ((X u.1 k - X v.1 k) / ℓ k) ^ 2) / 2)
    | none, some b => Real.exp (-(∑ k, ((X u.1 k - X v.1 k) / ℓ k) ^ 2) / 2) * ((X u.1 b - X v.1 b) / ℓ b ^ 2)
    | some a, none => -(Real.exp (-(∑ k, ((X u.1 k - X v.1 k) / ℓ k) ^ 2) / 2) * ((X u.1 a - X v.1 a) / ℓ a ^ 2))
    | some a, some b => Real.exp (-(∑ k, ((X u.1 k - X v.1 k) / ℓ k) ^ 2) / 2) *
        ((if a = b then 1 / ℓ a ^ 2 else 0) - (X u.1 a - X v.1 a) / ℓ a ^ 2 * ((X u.1 b - X v.1 b) / ℓ b ^ 2))

theorem rbfGrad_psd (X : Matrix ι d ℝ) (ℓ : d → ℝ) (hℓ : ∀ k, ℓ k ≠ 0) : (rbfGrad X ℓ).PosSemidef := by
  classical
  let Z : Matrix ι d ℝ := of fun i k => X i k / ℓ k
  let a : ι → ℝ := fun i => Real.exp (-(∑ k, Z i k ^ 2) / 2)
  let w : ι × Option d → ℝ := fun u => match u.2 with
    | none => a u.1
    | some c => -(Z u.1 c * a u.1)
  have hW : (vecMulVec w (star w)).PosSemidef := posSemidef_vecMulVec_self_star w
  have hM := jetProd_psd hW (expGrad_psd Z)
  let dv : ι × Option d → ℝ := fun u => match u.2 with
    | none => 1
    | some c => 1 / ℓ c
  have hK := hM.mul_mul_conjTranspose_same (diagonal dv)
  have hk : ∀ i j, a i * a j * Real.exp ((Z * Zᵀ) i j) = Real.exp (-(∑ k, ((X i k - X j k) / ℓ k) ^ 2) / 2) := by
    intro i j
    simp only [a]
    rw [← Real.exp_add, ← Real.exp_add]
    congr 1
    have h2 : ∑ k, ((X i k - X j k) / ℓ k) ^ 2 = ∑ k, Z i k ^ 2 + ∑ k, Z j k ^ 2 - 2 * ∑ k, Z i k * Z j k := by
      simp only [Z, of_apply, sub_div, sub_sq, Finset.sum_add_distrib, Finset.sum_sub_distrib, Finset.mul_sum]
      ring_nf
    rw [h2]
    simp only [Matrix.mul_apply, transpose_apply]
    ring
  convert hK using 1
  ext ⟨i, α⟩ ⟨j, β⟩
  rw [diagonal_conjTranspose, mul_diagonal, diagonal_mul]
  rcases α with _ | p <;> rcases β with _ | q
  · simp only [rbfGrad, of_apply, jetProd, jb, je, vecMulVec_apply, w, dv, expGrad, Pi.star_apply, star_trivial, ← hk i j]
    simp
  · simp only [rbfGrad, of_apply, jetProd, jb, je, vecMulVec_apply, w, dv, expGrad, Pi.star_apply, star_trivial, ← hk i j]
    have := hℓ q
    simp [Z]
    field_simp
    ring
  · simp only [rbfGrad, of_apply, jetProd, jb, je, vecMulVec_apply, w, dv, expGrad, Pi.star_apply, star_trivial, ← hk i j]
    have := hℓ p
    simp [Z]
    field_simp
    ring
  · simp only [rbfGrad, of_apply, jetProd, jb, je, vecMulVec_apply, w, dv, expGrad, Pi.star_apply, star_trivial, ← hk i j]
    have hp := hℓ p
    have hq := hℓ q
    by_cases hpq : p = q
    · subst hpq
      simp [Z]
      field_simp
      ring
    · simp [Z, hpq]
      field_simp
      ring

end C07

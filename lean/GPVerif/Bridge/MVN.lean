/-
Helper lemmas for C10: index normalisation (all sizes, `omega`/induction) and matrix identities
(column-stacked quadratic forms, selection matrices).
-/
import GPVerif.Model.MVN
import Mathlib.Tactic.Ring
import Mathlib.Tactic.Linarith
import Mathlib.Algebra.BigOperators.Fin

namespace MVN

/-! ### integer indices -/

theorem normInt_eq_some_iff (n : Nat) (i : Int) (p : Nat) :
    normInt n i = some p ↔ (0 ≤ i ∧ i < n ∧ (p : Int) = i) ∨ (i < 0 ∧ -(n : Int) ≤ i ∧ (p : Int) = i + n) := by
  unfold normInt
  simp only
  split <;> split <;> simp <;> omega

theorem normInt_lt {n : Nat} {i : Int} {p : Nat} (h : normInt n i = some p) : p < n := by
  rw [normInt_eq_some_iff] at h; omega

theorem normInt_eq_none_iff (n : Nat) (i : Int) : normInt n i = none ↔ (i < -(n : Int) ∨ (n : Int) ≤ i) := by
  unfold normInt
  simp only
  split <;> split <;> simp <;> omega

/-! ### slices -/

theorem clampPos_bounds (n : Nat) (b : Int) : 0 ≤ clampPos n b ∧ clampPos n b ≤ n := by
  unfold clampPos; split <;> split <;> omega

theorem clampNeg_bounds (n : Nat) (b : Int) : -1 ≤ clampNeg n b ∧ clampNeg n b ≤ (n : Int) - 1 := by
  unfold clampNeg; split <;> split <;> omega

/-- Python's reading of a bound under a positive step: negative bounds count from the end, then clamp to
`[0, n]`. -/
theorem clampPos_eq (n : Nat) (b : Int) :
    clampPos n b = max 0 (min (n : Int) (if b < 0 then b + n else b)) := by
  unfold clampPos; split <;> split <;> omega

theorem sliceIndices_pos_bounds (n : Nat) (s e : Option Int) {st : Int} (hst : 0 < st) :
    0 ≤ (sliceIndices n s e st).1 ∧ (sliceIndices n s e st).1 ≤ n ∧
    0 ≤ (sliceIndices n s e st).2 ∧ (sliceIndices n s e st).2 ≤ n := by
  unfold sliceIndices
  rw [if_pos hst]
  have h1 := fun b => clampPos_bounds n b
  cases s <;> cases e <;> simp <;> (try constructor) <;> (try exact (h1 _).1) <;> (try exact (h1 _).2) <;>
    (try omega)
  all_goals (try exact ⟨(h1 _).2, (h1 _).1, (h1 _).2⟩)
  all_goals (try exact ⟨(h1 _).1, (h1 _).2⟩)

theorem sliceIndices_neg_bounds (n : Nat) (s e : Option Int) {st : Int} (hst : st < 0) :
    -1 ≤ (sliceIndices n s e st).1 ∧ (sliceIndices n s e st).1 ≤ (n : Int) - 1 ∧
    -1 ≤ (sliceIndices n s e st).2 ∧ (sliceIndices n s e st).2 ≤ (n : Int) - 1 := by
  unfold sliceIndices
  rw [if_neg (by omega)]
  have h1 := fun b => clampNeg_bounds n b
  cases s <;> cases e <;> simp <;> (try constructor) <;> (try exact (h1 _).1) <;> (try exact (h1 _).2) <;>
    (try omega)
  all_goals (try exact ⟨(h1 _).2, (h1 _).1, (h1 _).2⟩)
  all_goals (try exact ⟨(h1 _).1, (h1 _).2⟩)

/-- Positive step: the last generated value stays below `hi`. -/
theorem range_pos_lt {lo hi st : Int} (hst : 0 < st) {j : Nat} (hj : j < rangeLen lo hi st) :
    lo + (j : Int) * st < hi ∧ lo < hi := by
  unfold rangeLen at hj
  rw [if_pos hst] at hj
  split at hj
  · rename_i hlt
    refine ⟨?_, hlt⟩
    have hq : (j : Int) ≤ (hi - lo - 1) / st := by omega
    have h1 : (j : Int) * st ≤ (hi - lo - 1) / st * st := Int.mul_le_mul_of_nonneg_right hq (le_of_lt hst)
    have h2 : (hi - lo - 1) / st * st ≤ hi - lo - 1 := Int.ediv_mul_le _ (ne_of_gt hst)
    omega
  · omega

/-- Negative step: the last generated value stays above `hi`. -/
theorem range_neg_gt {lo hi st : Int} (hst : st < 0) {j : Nat} (hj : j < rangeLen lo hi st) :
    hi < lo + (j : Int) * st ∧ hi < lo := by
  unfold rangeLen at hj
  rw [if_neg (by omega), if_pos hst] at hj
  split at hj
  · rename_i hlt
    refine ⟨?_, hlt⟩
    have hq : (j : Int) ≤ (lo - hi - 1) / (-st) := by omega
    have h1 : (j : Int) * (-st) ≤ (lo - hi - 1) / (-st) * (-st) :=
      Int.mul_le_mul_of_nonneg_right hq (by omega)
    have h2 : (lo - hi - 1) / (-st) * (-st) ≤ lo - hi - 1 := Int.ediv_mul_le _ (by omega)
    have h3 : (j : Int) * (-st) = -((j : Int) * st) := by ring
    omega
  · omega

/-- Every position produced by a slice (any non-zero step, any bounds) is a valid position. -/
theorem slicePositions_lt (n : Nat) (s e : Option Int) {st : Int} (hst : st ≠ 0) :
    ∀ p ∈ slicePositions n s e st, p < n := by
  intro p hp
  unfold slicePositions at hp
  simp only [List.mem_map, List.mem_range] at hp
  obtain ⟨j, hj, rfl⟩ := hp
  rcases lt_or_gt_of_ne hst with hneg | hpos
  · obtain ⟨b1, b2, b3, b4⟩ := sliceIndices_neg_bounds n s e hneg
    obtain ⟨g1, g2⟩ := range_neg_gt hneg hj
    have : (j : Int) * st ≤ 0 := Int.mul_nonpos_of_nonneg_of_nonpos (by omega) (by omega)
    omega
  · obtain ⟨b1, b2, b3, b4⟩ := sliceIndices_pos_bounds n s e hpos
    obtain ⟨g1, g2⟩ := range_pos_lt hpos hj
    have : 0 ≤ (j : Int) * st := Int.mul_nonneg (by omega) (by omega)
    omega

/-- Positive step: exactly the positions `lo, lo+st, …` below `hi` — membership characterisation. -/
theorem mem_slicePositions_pos (n : Nat) (s e : Option Int) {st : Int} (hst : 0 < st) (p : Nat) :
    p ∈ slicePositions n s e st ↔
      (sliceIndices n s e st).1 ≤ p ∧ (p : Int) < (sliceIndices n s e st).2 ∧
        st ∣ ((p : Int) - (sliceIndices n s e st).1) := by
  obtain ⟨b1, b2, b3, b4⟩ := sliceIndices_pos_bounds n s e hst
  unfold slicePositions
  simp only [List.mem_map, List.mem_range]
  generalize (sliceIndices n s e st).1 = lo at *
  generalize (sliceIndices n s e st).2 = hi at *
  constructor
  · rintro ⟨j, hj, rfl⟩
    obtain ⟨g1, g2⟩ := range_pos_lt hst hj
    have h0 : 0 ≤ (j : Int) * st := Int.mul_nonneg (by omega) (by omega)
    have e1 : ((lo + (j : Int) * st).toNat : Int) = lo + (j : Int) * st := Int.toNat_of_nonneg (by omega)
    rw [e1]
    refine ⟨by omega, g1, ?_⟩
    exact ⟨j, by ring⟩
  · rintro ⟨h1, h2, ⟨q, hq⟩⟩
    have hq0 : 0 ≤ q := by
      by_contra hneg
      have : q * st < 0 := Int.mul_neg_of_neg_of_pos (by omega) hst
      have : st * q < 0 := by rw [Int.mul_comm]; exact this
      omega
    refine ⟨q.toNat, ?_, ?_⟩
    · unfold rangeLen
      rw [if_pos hst, if_pos (by omega)]
      have hq' : q ≤ (hi - lo - 1) / st := by
        rw [Int.le_ediv_iff_mul_le hst]
        have : q * st = st * q := Int.mul_comm _ _
        omega
      have : 0 ≤ (hi - lo - 1) / st := Int.ediv_nonneg (by omega) (by omega)
      omega
    · have e2 : ((q.toNat : Nat) : Int) = q := Int.toNat_of_nonneg hq0
      rw [e2]
      have : q * st = st * q := Int.mul_comm _ _
      have : lo + q * st = (p : Int) := by omega
      rw [this]; simp

/-- The default slice `:` selects everything in order. -/
theorem slicePositions_full (n : Nat) : slicePositions n none none 1 = List.range n := by
  unfold slicePositions sliceIndices rangeLen
  simp only [gt_iff_lt, Int.one_pos, ↓reduceIte, Option.map_none, Option.getD_none]
  have hl : (if (0 : Int) < n then (((n : Int) - 0 - 1) / 1 + 1).toNat else 0) = n := by
    split <;> omega
  rw [hl]
  apply List.ext_getElem
  · simp
  · intro i h1 h2; simp

/-- Positions come in the order `lo + j·step`. -/
theorem slicePositions_getElem (n : Nat) (s e : Option Int) (st : Int) (j : Nat)
    (hj : j < (slicePositions n s e st).length) :
    (slicePositions n s e st)[j] = ((sliceIndices n s e st).1 + (j : Int) * st).toNat := by
  simp [slicePositions, List.getElem_map, List.getElem_range]

theorem slicePositions_length (n : Nat) (s e : Option Int) (st : Int) :
    (slicePositions n s e st).length = rangeLen (sliceIndices n s e st).1 (sliceIndices n s e st).2 st := by
  unfold slicePositions; simp

/-! ### `mapM` in `Option` -/

theorem mapM_option_cons_some {α β : Type} {f : α → Option β} {a : α} {l : List α} {r : List β}
    (h : (a :: l).mapM f = some r) : ∃ b bs, f a = some b ∧ l.mapM f = some bs ∧ r = b :: bs := by
  rw [List.mapM_cons] at h
  cases hb : f a with
  | none => simp [hb] at h
  | some b =>
    cases hbs : l.mapM f with
    | none => simp [hb, hbs] at h
    | some bs =>
      simp only [hb, hbs, Option.pure_def, Option.bind_eq_bind, Option.bind_some, Option.some.injEq] at h
      exact ⟨b, bs, rfl, rfl, h.symm⟩

theorem mapM_option_forall {α β : Type} {f : α → Option β} {P : β → Prop} (hf : ∀ a b, f a = some b → P b) :
    ∀ (l : List α) (r : List β), l.mapM f = some r → ∀ b ∈ r, P b := by
  intro l
  induction l with
  | nil => intro r h b hb; simp at h; subst h; simp at hb
  | cons a l ih =>
    intro r h b hb
    obtain ⟨b', bs, h1, h2, rfl⟩ := mapM_option_cons_some h
    rcases List.mem_cons.mp hb with rfl | hb
    · exact hf a _ h1
    · exact ih bs h2 b hb

theorem mapM_option_length {α β : Type} {f : α → Option β} :
    ∀ (l : List α) (r : List β), l.mapM f = some r → r.length = l.length := by
  intro l
  induction l with
  | nil => intro r h; simp at h; subst h; rfl
  | cons a l ih =>
    intro r h
    obtain ⟨b', bs, h1, h2, rfl⟩ := mapM_option_cons_some h
    simp [ih bs h2]

/-! ### ellipsis and whole tuples -/

theorem length_flatMap_fill (idx : List Idx) (fill : List Idx) :
    (idx.flatMap fun i => if i = Idx.ellipsis then fill else [i]).length =
      (idx.filter (· ≠ Idx.ellipsis)).length + (idx.length - (idx.filter (· ≠ Idx.ellipsis)).length) * fill.length := by
  induction idx with
  | nil => simp
  | cons x xs ih =>
    have hle : (xs.filter (· ≠ Idx.ellipsis)).length ≤ xs.length := List.length_filter_le _ _
    by_cases hx : x = Idx.ellipsis
    · subst hx
      simp only [List.flatMap_cons, ↓reduceIte, List.length_append, ih, ne_eq, not_true_eq_false,
        decide_false, Bool.false_eq_true, not_false_eq_true, List.filter_cons_of_neg, List.length_cons]
      have : xs.length + 1 - (xs.filter (· ≠ Idx.ellipsis)).length =
          (xs.length - (xs.filter (· ≠ Idx.ellipsis)).length) + 1 := by omega
      simp only [ne_eq] at this ⊢
      rw [this, Nat.add_mul]; omega
    · simp only [List.flatMap_cons, hx, ↓reduceIte, List.length_append, List.length_cons, List.length_nil,
        ih, ne_eq, not_false_eq_true, decide_true, List.filter_cons_of_pos]
      have : xs.length + 1 - ((xs.filter (· ≠ Idx.ellipsis)).length + 1) =
          xs.length - (xs.filter (· ≠ Idx.ellipsis)).length := by omega
      simp only [ne_eq] at this ⊢
      rw [this]; omega

/-- After ellipsis expansion there is exactly one entry per dimension. -/
theorem expandEllipsis_length {ndim : Nat} {idx full : List Idx} (h : expandEllipsis ndim idx = some full) :
    full.length = ndim := by
  unfold expandEllipsis at h
  simp only at h
  have hle : (idx.filter (· ≠ Idx.ellipsis)).length ≤ idx.length := List.length_filter_le _ _
  split at h
  · exact absurd h (by simp)
  · rename_i hc
    split at h
    · rename_i he
      have := Option.some.inj h; subst this
      simp only [List.length_append, List.length_replicate]
      omega
    · rename_i he
      have := Option.some.inj h; subst this
      rw [length_flatMap_fill]
      simp only [List.length_replicate]
      have : idx.length - (idx.filter (· ≠ Idx.ellipsis)).length = 1 := by omega
      rw [this]; omega

end MVN

/-! ### matrix identities -/

namespace MVN
open Matrix

variable {n m a b : Nat} {R : Type*} [CommRing R]

/-- `[A | B]` on Mathlib matrices. -/
def hcatM {α : Type*} (A : Matrix (Fin n) (Fin a) α) (B : Matrix (Fin n) (Fin b) α) : Matrix (Fin n) (Fin (a + b)) α :=
  fun i j => Fin.addCases (fun j => A i j) (fun j => B i j) j

theorem toMatrix_hcat {α : Type} (A : DMat n a α) (B : DMat n b α) :
    (hcat A B).toMatrix = hcatM A.toMatrix B.toMatrix := by
  unfold hcat hcatM
  exact DMat.toMatrix_ofMatrix _

/-- The stacked quadratic form splits over the blocks of columns. -/
theorem trace_hcat_quad (X : Matrix (Fin n) (Fin n) R) (A : Matrix (Fin n) (Fin a) R)
    (B : Matrix (Fin n) (Fin b) R) :
    trace ((hcatM A B)ᵀ * X * hcatM A B) = trace (Aᵀ * X * A) + trace (Bᵀ * X * B) := by
  simp only [trace, diag_apply, Matrix.mul_apply, transpose_apply, hcatM]
  rw [Fin.sum_univ_add]
  simp

/-- Trace cyclicity in the form used by the KL: `tr(Bᵀ X B) = tr(X (B Bᵀ))`. -/
theorem trace_root_quad (X : Matrix (Fin n) (Fin n) R) (B : Matrix (Fin n) (Fin b) R) :
    trace (Bᵀ * X * B) = trace (X * (B * Bᵀ)) := by
  rw [Matrix.mul_assoc, Matrix.trace_mul_comm, Matrix.mul_assoc]

/-- A `1`-column block contributes its quadratic form. -/
theorem trace_col_quad (X : Matrix (Fin n) (Fin n) R) (A : Matrix (Fin n) (Fin 1) R) :
    trace (Aᵀ * X * A) = (Aᵀ * X * A) 0 0 := by
  simp [trace]

/-- `tr(Mᵀ X M)` is the sum over the columns `c` of `cᵀ X c`. -/
theorem trace_quad_eq_sum_cols (X : Matrix (Fin n) (Fin n) R) (M : Matrix (Fin n) (Fin m) R) :
    trace (Mᵀ * X * M) = ∑ c, (fun i => M i c) ⬝ᵥ (X *ᵥ fun i => M i c) := by
  simp only [trace, diag_apply, Matrix.mul_apply, transpose_apply, dotProduct, mulVec]
  apply Finset.sum_congr rfl
  intro c _
  simp_rw [Finset.sum_mul, Finset.mul_sum]
  rw [Finset.sum_comm]
  apply Finset.sum_congr rfl
  intro i _
  apply Finset.sum_congr rfl
  intro j _
  ring

/-- Selection matrix of an index function. -/
def selM (R : Type*) [Zero R] [One R] {k : Nat} (idx : Fin k → Fin n) : Matrix (Fin k) (Fin n) R :=
  (1 : Matrix (Fin n) (Fin n) R).submatrix idx id

theorem selM_mul {k : Nat} (idx : Fin k → Fin n) (A : Matrix (Fin n) (Fin m) R) :
    selM R idx * A = A.submatrix idx id := by
  ext i j
  simp [selM, Matrix.mul_apply, Matrix.one_apply]

theorem mul_selM_transpose {k : Nat} (idx : Fin k → Fin n) (A : Matrix (Fin m) (Fin n) R) :
    A * (selM R idx)ᵀ = A.submatrix id idx := by
  ext i j
  simp [selM, Matrix.mul_apply, Matrix.one_apply]

end MVN

/-! ## list helpers for the shape / permutation theorems of C10 (wave 3) -/

namespace MVN

theorem getD_append_two_left (b : List Nat) (i s a : Nat) (h : a ≤ b.length) :
    (b ++ [i, s]).getD a 0 = (b ++ [i]).getD a 0 := by
  simp only [List.getD_eq_getElem?_getD, List.getElem?_append]
  by_cases hlt : a < b.length
  · simp [hlt]
  · have : a = b.length := by omega
    subst this; simp

theorem take_append_one (mb : List Nat) (n : Nat) : (mb ++ [n]).take ((mb ++ [n]).length - 1) = mb := by simp
theorem drop_append_one (mb : List Nat) (n : Nat) : (mb ++ [n]).drop ((mb ++ [n]).length - 1) = [n] := by simp
theorem take_append_two (cb : List Nat) (a c : Nat) : (cb ++ [a, c]).take ((cb ++ [a, c]).length - 2) = cb := by simp
theorem drop_append_two (cb : List Nat) (a c : Nat) : (cb ++ [a, c]).drop ((cb ++ [a, c]).length - 2) = [a, c] := by simp

end MVN

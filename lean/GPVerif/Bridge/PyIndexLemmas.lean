/-
Helper definitions and lemmas for `Props/C06.lean`: validity of normalised index items, Python slice
arithmetic for all lengths, the per-axis core of the multi-output slice division, `multiRows`.
-/
import GPVerif.Model.KernelIndex
import Mathlib.Tactic.Linarith
import Mathlib.Tactic.Ring
import Mathlib.Algebra.Order.Ring.Unbundled.Basic
import Mathlib.Algebra.Order.Ring.Int

namespace PyIndex
open Bcast

/-- all positions of a normalised item are valid for an axis of length `d` -/
def NItem.Valid (d : Nat) : NItem → Prop
  | .pick k => k < d
  | .sel l => ∀ r ∈ l, r < d
  | .adv l => ∀ r ∈ l, r < d

/-- items aligned with a shape (both lists in the same order) -/
def ValidItems : List NItem → List Nat → Prop
  | [], [] => True
  | it :: r, d :: ds => it.Valid d ∧ ValidItems r ds
  | _, _ => False

/-- membership in a step-less Python slice on an axis of length `n`, through `slice.indices` -/
def InSlice (n : Nat) (s e : Option Int) (r : Nat) : Prop :=
  match sliceIndices n s e none with
  | some (A, B, _) => A ≤ (r : Int) ∧ (r : Int) < B
  | none => False

theorem normInt_lt {n : Nat} {k : Int} {r : Nat} (h : normInt n k = some r) : r < n := by
  unfold normInt at h
  split at h
  · simp only [Option.some.injEq] at h; omega
  · split at h
    · simp only [Option.some.injEq] at h; omega
    · simp at h

theorem clamp_pos_bounds (n : Nat) (v : Int) : 0 ≤ clamp n 0 n v ∧ clamp n 0 n v ≤ n := by
  unfold clamp; split <;> omega

theorem clamp_neg_bounds (n : Nat) (v : Int) : -1 ≤ clamp n (-1) ((n : Int) - 1) v ∧ clamp n (-1) ((n : Int) - 1) v ≤ (n : Int) - 1 := by
  unfold clamp; split <;> omega

theorem rangePositions_lt_pos {a b c : Int} {n : Nat} (hc : 0 < c) (ha : 0 ≤ a) (hb : b ≤ n) :
    ∀ r ∈ rangePositions a b c, r < n := by
  intro r hr
  simp only [rangePositions, List.mem_map, List.mem_range] at hr
  obtain ⟨i, hi, rfl⟩ := hr
  unfold rangeLen at hi
  simp only [hc, if_true] at hi
  split at hi
  · rename_i hab
    have hq : 0 ≤ (b - a - 1) / c := Int.ediv_nonneg (by omega) (by omega)
    have h1 : (i : Int) ≤ (b - a - 1) / c := by omega
    have h2 : (b - a - 1) / c * c ≤ b - a - 1 := Int.ediv_mul_le _ (by omega)
    have h3 : (i : Int) * c ≤ (b - a - 1) / c * c := Int.mul_le_mul_of_nonneg_right h1 (by omega)
    have h4 : 0 ≤ (i : Int) * c := Int.mul_nonneg (by omega) (by omega)
    omega
  · omega

theorem rangePositions_lt_neg {a b c : Int} {n : Nat} (hc : c < 0) (ha : a ≤ (n : Int) - 1) (hb : -1 ≤ b) :
    ∀ r ∈ rangePositions a b c, r < n := by
  intro r hr
  simp only [rangePositions, List.mem_map, List.mem_range] at hr
  obtain ⟨i, hi, rfl⟩ := hr
  unfold rangeLen at hi
  have hc' : ¬ 0 < c := by omega
  simp only [hc', if_false, hc, if_true] at hi
  split at hi
  · rename_i hab
    have hq : 0 ≤ (a - b - 1) / (-c) := Int.ediv_nonneg (by omega) (by omega)
    have h1 : (i : Int) ≤ (a - b - 1) / (-c) := by omega
    have h2 : (a - b - 1) / (-c) * (-c) ≤ a - b - 1 := Int.ediv_mul_le _ (by omega)
    have h3 : (i : Int) * (-c) ≤ (a - b - 1) / (-c) * (-c) := Int.mul_le_mul_of_nonneg_right h1 (by omega)
    have h4 : 0 ≤ (i : Int) * (-c) := Int.mul_nonneg (by omega) (by omega)
    have h5 : (i : Int) * (-c) = -((i : Int) * c) := by ring
    omega
  · omega

theorem slicePositions_lt {n : Nat} {s e st : Option Int} {l : List Nat}
    (h : slicePositions n s e st = some l) : ∀ r ∈ l, r < n := by
  unfold slicePositions sliceIndices at h
  by_cases h0 : st.getD 1 = 0
  · simp [h0] at h
  · simp only [h0, if_false, Option.map_some, Option.some.injEq] at h
    subst h
    by_cases hneg : st.getD 1 < 0
    · simp only [hneg, if_true]
      apply rangePositions_lt_neg hneg
      · cases s with
        | none => simp
        | some v => exact (clamp_neg_bounds n v).2
      · cases e with
        | none => simp
        | some v => exact (clamp_neg_bounds n v).1
    · simp only [hneg, if_false]
      apply rangePositions_lt_pos (by omega)
      · cases s with
        | none => simp
        | some v => exact (clamp_pos_bounds n v).1
      · cases e with
        | none => simp
        | some v => exact (clamp_pos_bounds n v).2

theorem sliceIndices_step1 (n : Nat) (s e : Option Int) :
    ∃ A B : Int, sliceIndices n s e none = some (A, B, 1) ∧ 0 ≤ A ∧ A ≤ n ∧ 0 ≤ B ∧ B ≤ n := by
  have hs : ∀ v, 0 ≤ clamp n 0 n v ∧ clamp n 0 n v ≤ n := clamp_pos_bounds n
  refine ⟨_, _, by simp [sliceIndices]; exact ⟨rfl, rfl⟩, ?_, ?_, ?_, ?_⟩ <;> cases s <;> cases e <;> simp <;>
    first | omega | exact (hs _).1 | exact (hs _).2

theorem mem_slicePositions_step1 {n : Nat} {s e : Option Int} {l : List Nat}
    (h : slicePositions n s e none = some l) (r : Nat) : r ∈ l ↔ InSlice n s e r := by
  obtain ⟨A, B, hAB, hA0, hAn, hB0, hBn⟩ := sliceIndices_step1 n s e
  unfold slicePositions at h
  unfold InSlice
  rw [hAB] at h ⊢
  simp only [Option.map_some, Option.some.injEq] at h
  subst h
  simp only [rangePositions, rangeLen, List.mem_map, List.mem_range, Int.mul_one, Int.ediv_one]
  constructor
  · rintro ⟨i, hi, rfl⟩
    simp only [show (0 : Int) < 1 by omega, if_true] at hi
    split at hi <;> omega
  · rintro ⟨h1, h2⟩
    refine ⟨(r - A).toNat, ?_, by omega⟩
    simp only [show (0 : Int) < 1 by omega, if_true]
    split <;> omega

theorem slicePositions_full (n : Nat) : slicePositions n none none none = some (List.range n) := by
  simp only [slicePositions, sliceIndices, Option.getD_none, show ¬ (1 : Int) = 0 by omega, if_false,
    show ¬ (1 : Int) < 0 by omega, Option.map_some, Option.some.injEq, rangePositions, rangeLen,
    show (0 : Int) < 1 by omega, if_true, Int.mul_one, Int.ediv_one, Int.zero_add, Int.toNat_natCast]
  have hl : (if (0 : Int) < (n : Int) then ((n : Int) - 0 - 1 + 1).toNat else 0) = n := by
    split <;> omega
  rw [hl]
  exact List.map_id' _

theorem mapM_normInt_lt {n : Nat} : ∀ {l : List Int} {l' : List Nat},
    l.mapM (normInt n) = some l' → ∀ r ∈ l', r < n
  | [], l', h => by
    simp at h; subst h; simp
  | k :: ks, l', h => by
    rw [List.mapM_cons] at h
    cases hk : normInt n k with
    | none => simp [hk] at h
    | some a =>
      cases hks : ks.mapM (normInt n) with
      | none => simp [hk, hks] at h
      | some as =>
        simp [hk, hks] at h; subst h
        intro r hr
        rcases List.mem_cons.mp hr with rfl | hr
        · exact normInt_lt hk
        · exact mapM_normInt_lt hks r hr

theorem normItem_valid {n : Nat} {it : Item} {a : NItem} (h : normItem n it = some a) : a.Valid n := by
  cases it with
  | int k =>
    simp only [normItem, Option.map_eq_some_iff] at h
    obtain ⟨r, hr, rfl⟩ := h
    exact normInt_lt hr
  | slice s e st =>
    simp only [normItem, Option.map_eq_some_iff] at h
    obtain ⟨l, hl, rfl⟩ := h
    exact slicePositions_lt hl
  | tensor l =>
    simp only [normItem, Option.map_eq_some_iff] at h
    obtain ⟨l', hl, rfl⟩ := h
    exact mapM_normInt_lt hl
  | ellipsis => simp [normItem] at h

theorem normZip_valid : ∀ {shape : List Nat} {its : List Item} {nit : List NItem},
    normZip shape its = some nit → ValidItems nit shape
  | [], [], nit, h => by simp [normZip] at h; subst h; trivial
  | n :: ns, it :: its, nit, h => by
    simp only [normZip, Option.bind_eq_bind] at h
    cases ha : normItem n it with
    | none => simp [ha] at h
    | some a =>
      cases hr : normZip ns its with
      | none => simp [ha, hr] at h
      | some r =>
        simp [ha, hr] at h; subst h
        exact ⟨normItem_valid ha, normZip_valid hr⟩
  | [], _ :: _, _, h => by simp [normZip] at h
  | _ :: _, [], _, h => by simp [normZip] at h

/-! ### the multi-output slice division, one axis -/

theorem clamp_mul (n t : Nat) (ht : 0 < t) (q : Int) :
    clamp ((n * t : Nat) : Int) 0 ((n * t : Nat) : Int) (q * t) = clamp n 0 n q * t := by
  have htI : (0 : Int) < t := by exact_mod_cast ht
  have ht0 : (0 : Int) ≤ t := le_of_lt htI
  unfold clamp
  push_cast
  by_cases hq : q < 0
  · have : q * (t : Int) < 0 := Int.mul_neg_of_neg_of_pos hq htI
    simp only [this, hq, if_true]
    rw [max_mul_of_nonneg _ _ ht0]
    congr 1 <;> ring
  · have : ¬ q * (t : Int) < 0 := by
      have : 0 ≤ q * (t : Int) := Int.mul_nonneg (by omega) ht0
      omega
    simp only [this, hq, if_false]
    rw [min_mul_of_nonneg _ _ ht0]

/-- When the raw start `S` and stop `E` (the user's values, `None` replaced by `0` / the axis length) are
multiples of `t`, the slice `(s, e)` on the `(n·t)` axis selects row `r` iff `slice(S / t, E / t)` on the `n`
points selects point `r / t`. -/
theorem axis_div (n t : Nat) (ht : 0 < t) (s e : Option Int) (S E : Int)
    (hS : S = s.getD 0) (hE : E = e.getD ((n * t : Nat) : Int))
    (hs : S % (t : Int) = 0) (he : E % (t : Int) = 0) (r : Nat) (_hr : r < n * t) :
    InSlice (n * t) s e r ↔ InSlice n (some (S / t)) (some (E / t)) (r / t) := by
  have htI : (0 : Int) < t := by exact_mod_cast ht
  obtain ⟨qs, hqs⟩ : ∃ q, S = q * t := ⟨S / t, by rw [Int.ediv_mul_cancel (Int.dvd_of_emod_eq_zero hs)]⟩
  obtain ⟨qe, hqe⟩ : ∃ q, E = q * t := ⟨E / t, by rw [Int.ediv_mul_cancel (Int.dvd_of_emod_eq_zero he)]⟩
  have dS : S / t = qs := by rw [hqs, Int.mul_ediv_cancel _ (by omega)]
  have dE : E / t = qe := by rw [hqe, Int.mul_ediv_cancel _ (by omega)]
  -- the big slice clamps the raw values
  have big : sliceIndices (n * t) s e none
      = some (clamp ((n * t : Nat) : Int) 0 ((n * t : Nat) : Int) S, clamp ((n * t : Nat) : Int) 0 ((n * t : Nat) : Int) E, 1) := by
    cases s <;> cases e <;> simp_all [sliceIndices, clamp] <;> omega
  have small : sliceIndices n (some (S / t)) (some (E / t)) none
      = some (clamp n 0 n qs, clamp n 0 n qe, 1) := by
    simp [sliceIndices, dS, dE]
  unfold InSlice
  rw [big, small, hqs, hqe, clamp_mul n t ht, clamp_mul n t ht]
  simp only [Int.natCast_ediv]
  rw [Int.le_ediv_iff_mul_le htI, Int.ediv_lt_iff_lt_mul htI]

end PyIndex

namespace KernelIndex

theorem multiRows_cons (t p : Nat) (ps : List Nat) :
    multiRows t (p :: ps) = ((List.range t).map fun a => p * t + a) ++ multiRows t ps := by
  simp [multiRows]

theorem multiRows_getD (t : Nat) (ht : 0 < t) : ∀ (pts : List Nat) (r : Nat), r < pts.length * t →
    (multiRows t pts).getD r 0 = pts.getD (r / t) 0 * t + r % t
  | [], r, h => by simp at h
  | p :: ps, r, h => by
    rw [multiRows_cons]
    by_cases hr : r < t
    · have : r < ((List.range t).map fun a => p * t + a).length := by simpa using hr
      rw [List.getD_eq_getElem?_getD, List.getElem?_append_left this]
      simp [hr, Nat.div_eq_of_lt hr, Nat.mod_eq_of_lt hr]
    · have hlen : ((List.range t).map fun a => p * t + a).length ≤ r := by simp; omega
      rw [List.getD_eq_getElem?_getD, List.getElem?_append_right hlen, ← List.getD_eq_getElem?_getD]
      simp only [List.length_map, List.length_range]
      have h' : r - t < ps.length * t := by
        simp only [List.length_cons, Nat.add_mul, Nat.one_mul] at h; omega
      rw [multiRows_getD t ht ps (r - t) h']
      have e1 : r / t = (r - t) / t + 1 := by
        conv_lhs => rw [show r = (r - t) + t by omega]
        exact Nat.add_div_right _ ht
      have e2 : r % t = (r - t) % t := by
        conv_lhs => rw [show r = (r - t) + t by omega]
        exact Nat.add_mod_right _ _
      rw [e1, e2]
      simp

end KernelIndex

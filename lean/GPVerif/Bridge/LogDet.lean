/-
Matrix-level real-analysis lemmas behind C15 ("the ELBO is a lower bound"):
`log det X ≤ tr X − n`, its two-matrix form, and non-negativity of the Gaussian KL divergence.
-/
import Mathlib.Analysis.Matrix.PosDef
import Mathlib.Analysis.Matrix.Spectrum
import Mathlib.Analysis.Matrix.Order
import Mathlib.Analysis.SpecialFunctions.Log.Basic
import Mathlib.LinearAlgebra.Matrix.NonsingularInverse
import Mathlib.LinearAlgebra.Matrix.Trace
import Mathlib.Tactic.Linarith
import Mathlib.Tactic.Ring
import Mathlib.Tactic.FieldSimp

open Matrix

namespace LogDet
variable {n : Type} [Fintype n] [DecidableEq n]

/-- spectral lemma: `log det X ≤ tr X − n` for a real symmetric positive definite `X`. -/
theorem logdet_le_trace_sub (X : Matrix n n ℝ) (hX : X.PosDef) :
    Real.log X.det ≤ X.trace - Fintype.card n := by
  have hH := hX.isHermitian
  have hdet : X.det = ∏ i, hH.eigenvalues i := by
    have := hH.det_eq_prod_eigenvalues
    simpa using this
  have htr : X.trace = ∑ i, hH.eigenvalues i := by
    have := hH.trace_eq_sum_eigenvalues
    simpa using this
  have hpos : ∀ i, 0 < hH.eigenvalues i := fun i => hX.eigenvalues_pos i
  rw [hdet, htr, Real.log_prod (fun i _ => (hpos i).ne')]
  have : ∑ i, Real.log (hH.eigenvalues i) ≤ ∑ i, (hH.eigenvalues i - 1) :=
    Finset.sum_le_sum fun i _ => Real.log_le_sub_one_of_pos (hpos i)
  simpa [Finset.sum_sub_distrib] using this

/-- `(L Lᵀ)⁻¹ = L⁻ᵀ L⁻¹`. -/
theorem inv_LLt (L : Matrix n n ℝ) : (L * Lᵀ)⁻¹ = (L⁻¹)ᵀ * L⁻¹ := by
  rw [Matrix.mul_inv_rev, Matrix.transpose_nonsing_inv]

/-- congruence by `L⁻¹` keeps positive definiteness. -/
theorem posDef_inv_conj (L B : Matrix n n ℝ) (hL : IsUnit L.det) (hB : B.PosDef) :
    (L⁻¹ * B * (L⁻¹)ᵀ).PosDef := by
  have hU : IsUnit (L⁻¹) := by
    rw [Matrix.isUnit_iff_isUnit_det]
    exact (Matrix.isUnit_nonsing_inv_det_iff).mpr hL
  have := (Matrix.IsUnit.posDef_star_right_conjugate_iff (x := B) hU).mpr hB
  simpa [Matrix.star_eq_conjTranspose, Matrix.conjTranspose_eq_transpose_of_trivial] using this

/-- pair version with a factor of `A`: `A = L Lᵀ`, `L` invertible, `B` positive definite. -/
theorem logdet_pair_le (L B : Matrix n n ℝ) (hL : IsUnit L.det) (hB : B.PosDef) :
    Real.log B.det - Real.log (L * Lᵀ).det ≤ ((L * Lᵀ)⁻¹ * B).trace - Fintype.card n := by
  have hX := posDef_inv_conj L B hL hB
  have hLne : L.det ≠ 0 := hL.ne_zero
  have hBpos : 0 < B.det := hB.det_pos
  have hdetA : (L * Lᵀ).det = L.det ^ 2 := by
    rw [Matrix.det_mul, Matrix.det_transpose]; ring
  have hdetX : (L⁻¹ * B * (L⁻¹)ᵀ).det = B.det / L.det ^ 2 := by
    rw [Matrix.det_mul, Matrix.det_mul, Matrix.det_transpose, Matrix.det_nonsing_inv,
      Ring.inverse_eq_inv']
    field_simp
  have htrX : (L⁻¹ * B * (L⁻¹)ᵀ).trace = ((L * Lᵀ)⁻¹ * B).trace := by
    rw [inv_LLt, Matrix.trace_mul_comm, ← Matrix.mul_assoc]
  have h := logdet_le_trace_sub _ hX
  rw [hdetX, htrX, Real.log_div hBpos.ne' (pow_ne_zero 2 hLne)] at h
  rw [hdetA]
  exact h

/-- the quadratic form of `(L Lᵀ)⁻¹` is a sum of squares. -/
theorem quad_inv_LLt (L : Matrix n n ℝ) (d : n → ℝ) :
    d ⬝ᵥ ((L * Lᵀ)⁻¹ *ᵥ d) = (L⁻¹ *ᵥ d) ⬝ᵥ (L⁻¹ *ᵥ d) := by
  rw [inv_LLt, ← Matrix.mulVec_mulVec, Matrix.dotProduct_mulVec, Matrix.vecMul_transpose]

theorem quad_inv_LLt_nonneg (L : Matrix n n ℝ) (d : n → ℝ) :
    0 ≤ d ⬝ᵥ ((L * Lᵀ)⁻¹ *ᵥ d) := by
  rw [quad_inv_LLt]
  exact Finset.sum_nonneg fun i _ => mul_self_nonneg _

/-- Gaussian KL ≥ 0:
`KL(N(m₁,S) ‖ N(m₀,A)) = ½[tr(A⁻¹S) + dᵀA⁻¹d − n − (log det S − log det A)]`, `A = L Lᵀ`. -/
theorem gaussian_kl_nonneg (L S : Matrix n n ℝ) (d : n → ℝ) (hL : IsUnit L.det) (hS : S.PosDef) :
    0 ≤ (1/2 : ℝ) * (((L * Lᵀ)⁻¹ * S).trace + d ⬝ᵥ ((L * Lᵀ)⁻¹ *ᵥ d) - Fintype.card n
                      - (Real.log S.det - Real.log (L * Lᵀ).det)) := by
  have h1 := logdet_pair_le L S hL hS
  have h2 := quad_inv_LLt_nonneg L d
  linarith

/-- every real positive definite matrix has an invertible factor `A = L Lᵀ`. -/
theorem exists_factor (A : Matrix n n ℝ) (hA : A.PosDef) :
    ∃ L : Matrix n n ℝ, IsUnit L.det ∧ A = L * Lᵀ := by
  open scoped MatrixOrder in
  obtain ⟨y, hy⟩ := CStarAlgebra.nonneg_iff_eq_star_mul_self.mp hA.posSemidef.nonneg
  have hy' : A = yᵀ * yᵀᵀ := by
    rw [hy, Matrix.star_eq_conjTranspose, Matrix.conjTranspose_eq_transpose_of_trivial,
      Matrix.transpose_transpose]
  refine ⟨yᵀ, ?_, hy'⟩
  have hdet : A.det = yᵀ.det * yᵀ.det := by
    conv_lhs => rw [hy', Matrix.det_mul, Matrix.det_transpose yᵀ]
  have hpos : 0 < A.det := hA.det_pos
  rw [isUnit_iff_ne_zero]
  intro h0
  rw [hdet, h0] at hpos
  simp at hpos

/-- pair version with an explicit existence-of-factor hypothesis. -/
theorem logdet_pair_le_of_factor (A B : Matrix n n ℝ)
    (hfac : ∃ L : Matrix n n ℝ, IsUnit L.det ∧ A = L * Lᵀ) (hB : B.PosDef) :
    Real.log B.det - Real.log A.det ≤ (A⁻¹ * B).trace - Fintype.card n := by
  obtain ⟨L, hL, rfl⟩ := hfac
  exact logdet_pair_le L B hL hB

theorem gaussian_kl_nonneg_of_factor (A S : Matrix n n ℝ) (d : n → ℝ)
    (hfac : ∃ L : Matrix n n ℝ, IsUnit L.det ∧ A = L * Lᵀ) (hS : S.PosDef) :
    0 ≤ (1/2 : ℝ) * ((A⁻¹ * S).trace + d ⬝ᵥ (A⁻¹ *ᵥ d) - Fintype.card n
                      - (Real.log S.det - Real.log A.det)) := by
  obtain ⟨L, hL, rfl⟩ := hfac
  exact gaussian_kl_nonneg L S d hL hS

/-- pair version for a positive definite `A` (no factor given). -/
theorem logdet_pair_le_posDef (A B : Matrix n n ℝ) (hA : A.PosDef) (hB : B.PosDef) :
    Real.log B.det - Real.log A.det ≤ (A⁻¹ * B).trace - Fintype.card n :=
  logdet_pair_le_of_factor A B (exists_factor A hA) hB

/-- Gaussian KL ≥ 0 for a positive definite `A` (no factor given). -/
theorem gaussian_kl_nonneg_posDef (A S : Matrix n n ℝ) (d : n → ℝ) (hA : A.PosDef) (hS : S.PosDef) :
    0 ≤ (1/2 : ℝ) * ((A⁻¹ * S).trace + d ⬝ᵥ (A⁻¹ *ᵥ d) - Fintype.card n
                      - (Real.log S.det - Real.log A.det)) :=
  gaussian_kl_nonneg_of_factor A S d (exists_factor A hA) hS

/-- the quadratic form of the inverse of a positive definite matrix is non-negative. -/
theorem quad_inv_nonneg_posDef (A : Matrix n n ℝ) (hA : A.PosDef) (d : n → ℝ) :
    0 ≤ d ⬝ᵥ (A⁻¹ *ᵥ d) := by
  obtain ⟨L, _, rfl⟩ := exists_factor A hA
  exact quad_inv_LLt_nonneg L d

end LogDet

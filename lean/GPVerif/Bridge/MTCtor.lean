/-
Helper lemmas about the hand-written model of the constructor primitives (`GPVerif.Model.MTCtor`): ranges,
the "move one dimension last" permutation.  Nothing here mentions the generated code.
-/
import GPVerif.Model.MTCtor
import GPVerif.Bridge.MTIndex

namespace MTIndex

theorem pyRange_length (a b : Int) : (pyRange a b).length = (b - a).toNat := by simp [pyRange]

/-- reading the coordinates `|pre| … |pre| + |m| - 1` of `pre ++ m ++ post` yields `m` -/
theorem map_getD_pyRange_mid (pre m post : List Int) :
    (pyRange (pre.length : Int) ((pre.length : Int) + m.length)).map (fun d => (pre ++ m ++ post).getD d.toNat 0) = m := by
  apply List.ext_getElem
  · simp [pyRange]
  · intro k h1 h2
    simp only [pyRange, List.map_map, List.getElem_map, List.getElem_range, Function.comp_def]
    have hk : ((pre.length : Int) + (k : Int)).toNat = pre.length + k := by omega
    rw [hk, List.getD_eq_getElem?_getD, List.append_assoc, List.getElem?_append_right (by omega),
      Nat.add_sub_cancel_left, List.getElem?_append_left h2]
    simp [h2]

/-- the permutation `range(0, k), range(k + 1, nd), k` moves coordinate `k` last and keeps the order of the others -/
theorem moveLast_permutedIdx (l1 l2 : List Int) (a i : Int) :
    permutedIdx (pyRange 0 l1.length ++ pyRange ((l1.length : Int) + 1) ((l1.length : Int) + l2.length + 2)
        ++ [(l1.length : Int)]) (l1 ++ a :: l2 ++ [i])
      = l1 ++ l2 ++ [i, a] := by
  unfold permutedIdx
  rw [List.map_append, List.map_append]
  have h1 := map_getD_pyRange_mid [] l1 (a :: l2 ++ [i])
  have h2 := map_getD_pyRange_mid (l1 ++ [a]) (l2 ++ [i]) []
  simp only [List.length_nil, Int.natCast_zero, Int.zero_add, List.nil_append] at h1
  have e2 : ((l1 ++ [a]).length : Int) = (l1.length : Int) + 1 := by simp
  have e3 : ((l1.length : Int) + 1) + ((l2 ++ [i]).length : Int) = (l1.length : Int) + l2.length + 2 := by
    simp; omega
  rw [e2, e3] at h2
  have e4 : l1 ++ [a] ++ (l2 ++ [i]) ++ [] = l1 ++ a :: l2 ++ [i] := by simp
  rw [e4] at h2
  have e5 : l1 ++ (a :: l2 ++ [i]) = l1 ++ a :: l2 ++ [i] := by simp
  rw [e5] at h1
  rw [h1, h2]
  simp

theorem insertAt_split {α : Type} (k : Nat) (x : α) (l : List α) : insertAt k x l = l.take k ++ x :: l.drop k := rfl

end MTIndex

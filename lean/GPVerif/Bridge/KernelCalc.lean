/-
Calculus helpers shared by `Props/C05.lean` and `Props/C19.lean`.
-/
import Mathlib.Analysis.SpecialFunctions.ExpDeriv
import Mathlib.Analysis.Calculus.Deriv.Inv
import Mathlib.Analysis.Calculus.Deriv.Pow
import Mathlib.Analysis.Calculus.Deriv.Mul
import GPVerif.Bridge.ScalarReal
import Mathlib.Analysis.SpecialFunctions.Sqrt

/-- `l ↦ c/|l|` has derivative `−(c/|ℓ|)/ℓ` at every `ℓ ≠ 0` (both signs of `ℓ`) -/
theorem hasDerivAt_div_abs (c ℓ : ℝ) (hℓ : ℓ ≠ 0) :
    HasDerivAt (fun l : ℝ => c / |l|) (-(c / |ℓ|) / ℓ) ℓ := by
  rcases lt_or_gt_of_ne hℓ with h | h
  · have h1 : HasDerivAt (fun l : ℝ => c / (-l)) (-(c / |ℓ|) / ℓ) ℓ := by
      have hd := ((hasDerivAt_id ℓ).neg.inv (by simpa using hℓ)).const_mul c
      have e : (fun l : ℝ => c / (-l)) = fun l => c * (-l)⁻¹ := by funext l; rw [div_eq_mul_inv]
      rw [e]
      refine hd.congr_deriv ?_
      rw [abs_of_neg h]; simp; field_simp
    refine h1.congr_of_eventuallyEq ?_
    filter_upwards [gt_mem_nhds h] with l hl
    rw [abs_of_neg hl]
  · have h1 : HasDerivAt (fun l : ℝ => c / l) (-(c / |ℓ|) / ℓ) ℓ := by
      have hd := ((hasDerivAt_id ℓ).inv hℓ).const_mul c
      have e : (fun l : ℝ => c / l) = fun l => c * l⁻¹ := by funext l; rw [div_eq_mul_inv]
      rw [e]
      refine hd.congr_deriv ?_
      rw [abs_of_pos h]; simp; field_simp
    refine h1.congr_of_eventuallyEq ?_
    filter_upwards [lt_mem_nhds h] with l hl
    rw [abs_of_pos hl]

open Scalar in
/-- the scaled unitless distance `s(l) = dist((x1−m)/l, (x2−m)/l)·c` of `MaternCovariance.forward` has
`s'(ℓ) = −s(ℓ)/ℓ` — for every distance including `0`, every `ℓ ≠ 0`. -/
theorem hasDerivAt_scaledDist (x1 x2 m : List ℝ) (c ℓ : ℝ) (hℓ : ℓ ≠ 0) :
    HasDerivAt (fun l : ℝ => dist (rowDivS (rowSub x1 m) l) (rowDivS (rowSub x2 m) l) * c)
      (-(dist (rowDivS (rowSub x1 m) ℓ) (rowDivS (rowSub x2 m) ℓ) * c) / ℓ) ℓ := by
  simp only [dist_rowDivS]
  have h := (hasDerivAt_div_abs (dist (rowSub x1 m) (rowSub x2 m)) ℓ hℓ).mul_const c
  exact h.congr_deriv (by ring)

open Filter Topology Asymptotics in
/-- chain rule through `r = √(C + (x−β)²/λ²)` that survives `r = 0`: if `g' r = r · G r` (so `g' 0 = 0`) then
`x ↦ g(r(x))` has derivative `G(r)·(x−β)/λ²` at EVERY `x`. -/
theorem hasDerivAt_radial (g G : ℝ → ℝ) (hg : ∀ r, HasDerivAt g (r * G r) r) (C β lam x : ℝ) (hC : 0 ≤ C)
    (hlam : lam ≠ 0) :
    HasDerivAt (fun x : ℝ => g (Real.sqrt (C + (x - β) ^ 2 / lam ^ 2)))
      (G (Real.sqrt (C + (x - β) ^ 2 / lam ^ 2)) * ((x - β) / lam ^ 2)) x := by
  have hl2 : 0 < lam ^ 2 := by positivity
  have hnn : 0 ≤ (x - β) ^ 2 / lam ^ 2 := by positivity
  rcases (add_nonneg hC hnn).lt_or_eq with hpos | hzero
  · have hu : HasDerivAt (fun x : ℝ => C + (x - β) ^ 2 / lam ^ 2) (2 * (x - β) / lam ^ 2) x := by
      have := ((((hasDerivAt_id x).sub_const β).pow 2).div_const (lam ^ 2)).const_add C
      exact this.congr_deriv (by simp)
    have hr := hu.sqrt (ne_of_gt hpos)
    have hrpos : 0 < Real.sqrt (C + (x - β) ^ 2 / lam ^ 2) := Real.sqrt_pos.mpr hpos
    have hc := (hg (Real.sqrt (C + (x - β) ^ 2 / lam ^ 2))).comp x hr
    have key : ∀ r : ℝ, r ≠ 0 → r * G r * (2 * (x - β) / lam ^ 2 / (2 * r)) = G r * ((x - β) / lam ^ 2) := by
      intro r hr; field_simp
    exact hc.congr_deriv (key _ (ne_of_gt hrpos))
  · -- r(x) = 0: C = 0 and x = β
    have hC0 : C = 0 := by linarith
    have hx0 : (x - β) ^ 2 / lam ^ 2 = 0 := by linarith
    have hxb : x = β := by
      have : (x - β) ^ 2 = 0 := by
        rcases div_eq_zero_iff.mp hx0 with h | h
        · exact h
        · exact absurd h (ne_of_gt hl2)
      have := pow_eq_zero_iff (n := 2) (by norm_num) |>.mp this
      linarith
    subst hC0; subst hxb
    simp only [zero_add, sub_self, ne_eq, OfNat.ofNat_ne_zero, not_false_eq_true, zero_pow, zero_div, Real.sqrt_zero,
      mul_zero]
    have h0 : HasDerivAt g 0 0 := by simpa using hg 0
    set ρ : ℝ → ℝ := fun y => Real.sqrt ((y - x) ^ 2 / lam ^ 2) with hρ
    have hρx : ρ x = 0 := by simp [hρ]
    have hcont : Continuous ρ := by
      simp only [hρ]; fun_prop
    have htend : Tendsto ρ (𝓝 x) (𝓝 0) := by
      have := hcont.tendsto x; rwa [hρx] at this
    have hlo := (hasDerivAt_iff_isLittleO.mp h0).comp_tendsto htend
    have hbig : (fun y => ρ y - 0) =O[𝓝 x] (fun y => y - x) := by
      refine IsBigO.of_bound (1 / |lam|) (Filter.Eventually.of_forall fun y => ?_)
      simp only [hρ, sub_zero, Real.norm_eq_abs]
      rw [Real.sqrt_div (sq_nonneg _), Real.sqrt_sq_eq_abs, Real.sqrt_sq_eq_abs, abs_div, abs_abs, abs_abs]
      exact le_of_eq (by ring)
    have := hlo.trans_isBigO hbig
    rw [hasDerivAt_iff_isLittleO]
    refine this.congr_left fun y => ?_
    simp [Function.comp, hρ]

/-
Calculus helpers shared by `Props/C05.lean` and `Props/C19.lean`.
-/
import Mathlib.Analysis.SpecialFunctions.ExpDeriv
import Mathlib.Analysis.Calculus.Deriv.Inv
import Mathlib.Analysis.Calculus.Deriv.Pow
import Mathlib.Analysis.Calculus.Deriv.Mul
import GPVerif.Bridge.ScalarReal

/-- `l ↦ c/|l|` has derivative `−(c/|ℓ|)/ℓ` at every `ℓ ≠ 0` (both signs of `ℓ`) -/
theorem hasDerivAt_div_abs (c ℓ : ℝ) (hℓ : ℓ ≠ 0) :
    HasDerivAt (fun l : ℝ => c / |l|) (-(c / |ℓ|) / ℓ) ℓ := by
  rcases lt_or_gt_of_ne hℓ with h | h
  · have h1 : HasDerivAt (fun l : ℝ => c / (-l)) (-(c / |ℓ|) / ℓ) ℓ := by
      have hd := ((hasDerivAt_id ℓ).neg.inv (by simpa using hℓ)).const_mul c
      have e : (fun l : ℝ => c / (-l)) = fun l => c * (-l)⁻¹ := by funext l; rw [div_eq_mul_inv]
      rw [e]
      refine hd.congr_deriv ?_
      rw [abs_of_neg h]; simp; field_simp
    refine h1.congr_of_eventuallyEq ?_
    filter_upwards [gt_mem_nhds h] with l hl
    rw [abs_of_neg hl]
  · have h1 : HasDerivAt (fun l : ℝ => c / l) (-(c / |ℓ|) / ℓ) ℓ := by
      have hd := ((hasDerivAt_id ℓ).inv hℓ).const_mul c
      have e : (fun l : ℝ => c / l) = fun l => c * l⁻¹ := by funext l; rw [div_eq_mul_inv]
      rw [e]
      refine hd.congr_deriv ?_
      rw [abs_of_pos h]; simp; field_simp
    refine h1.congr_of_eventuallyEq ?_
    filter_upwards [lt_mem_nhds h] with l hl
    rw [abs_of_pos hl]

open Scalar in
/-- the scaled unitless distance `s(l) = dist((x1−m)/l, (x2−m)/l)·c` of `MaternCovariance.forward` has
`s'(ℓ) = −s(ℓ)/ℓ` — for every distance including `0`, every `ℓ ≠ 0`. -/
theorem hasDerivAt_scaledDist (x1 x2 m : List ℝ) (c ℓ : ℝ) (hℓ : ℓ ≠ 0) :
    HasDerivAt (fun l : ℝ => dist (rowDivS (rowSub x1 m) l) (rowDivS (rowSub x2 m) l) * c)
      (-(dist (rowDivS (rowSub x1 m) ℓ) (rowDivS (rowSub x2 m) ℓ) * c) / ℓ) ℓ := by
  simp only [dist_rowDivS]
  have h := (hasDerivAt_div_abs (dist (rowSub x1 m) (rowSub x2 m)) ℓ hℓ).mul_const c
  exact h.congr_deriv (by ring)

/-
ℝ instance of the L3 scalar record `TransFn` (Model/ScalarFn.lean) and the real-analysis facts about the
torch primitives `sigmoid`, `softplus` used by the C17 / C13 theorems.
-/
import GPVerif.Model.ScalarFn
import Mathlib.Analysis.SpecialFunctions.Log.Basic
import Mathlib.Analysis.SpecialFunctions.Sqrt
import Mathlib.Analysis.SpecialFunctions.Trigonometric.Basic
import Mathlib.Tactic.Positivity
import Mathlib.Tactic.Linarith
import Mathlib.Tactic.FieldSimp
import Mathlib.Tactic.Ring

noncomputable instance instTransFnReal : TransFn ℝ where
  exp := Real.exp
  log := Real.log
  expm1 := fun x => Real.exp x - 1
  log1p := fun x => Real.log (1 + x)
  sqrt := Real.sqrt
  abs := fun x => |x|
  pi := Real.pi

namespace ScalarFnReal
open ScalarFn Real

@[simp] theorem tf_exp (x : ℝ) : TransFn.exp x = Real.exp x := rfl
@[simp] theorem tf_log (x : ℝ) : TransFn.log x = Real.log x := rfl
@[simp] theorem tf_expm1 (x : ℝ) : TransFn.expm1 x = Real.exp x - 1 := rfl
@[simp] theorem tf_log1p (x : ℝ) : TransFn.log1p x = Real.log (1 + x) := rfl
@[simp] theorem tf_sqrt (x : ℝ) : TransFn.sqrt x = Real.sqrt x := rfl
@[simp] theorem tf_abs (x : ℝ) : TransFn.abs x = |x| := rfl
@[simp] theorem tf_pi : (TransFn.pi : ℝ) = Real.pi := rfl

theorem sigmoid_eq (x : ℝ) : sigmoid x = 1 / (1 + Real.exp (-x)) := by
  simp [sigmoid]

theorem softplus_eq (x : ℝ) : softplus x = Real.log (1 + Real.exp x) := by
  simp [softplus]

theorem sigmoid_pos (x : ℝ) : 0 < sigmoid x := by
  rw [sigmoid_eq]; positivity

theorem sigmoid_lt_one (x : ℝ) : sigmoid x < 1 := by
  rw [sigmoid_eq, div_lt_one (by positivity)]
  linarith [Real.exp_pos (-x)]

theorem sigmoid_strictMono : StrictMono (sigmoid : ℝ → ℝ) := by
  intro a b hab
  rw [sigmoid_eq, sigmoid_eq]
  apply one_div_lt_one_div_of_lt (by positivity)
  have : Real.exp (-b) < Real.exp (-a) := Real.exp_lt_exp.mpr (by linarith)
  linarith

theorem softplus_pos (x : ℝ) : 0 < softplus x := by
  rw [softplus_eq]
  exact Real.log_pos (by linarith [Real.exp_pos x])

theorem softplus_strictMono : StrictMono (softplus : ℝ → ℝ) := by
  intro a b hab
  rw [softplus_eq, softplus_eq]
  apply Real.log_lt_log (by positivity)
  have : Real.exp a < Real.exp b := Real.exp_lt_exp.mpr hab
  linarith

/-- `exp (softplus x) = 1 + eˣ` -/
theorem exp_softplus (x : ℝ) : Real.exp (softplus x) = 1 + Real.exp x := by
  rw [softplus_eq, Real.exp_log (by positivity)]

end ScalarFnReal

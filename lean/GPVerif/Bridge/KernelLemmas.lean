/-
List-level algebra over `ℝ` for the kernel formulas of `Model/Kernels.lean` (helpers of `Props/C05.lean`).
-/
import GPVerif.Bridge.ScalarReal
import GPVerif.Model.Kernels

namespace Kernels
open Scalar

theorem sqDistArd_nil_ls (a b : List ℝ) : sqDistArd ([] : List ℝ) a b = 0 := by
  simp [sqDistArd]
theorem sqDistArd_cons (l x y : ℝ) (ls a b : List ℝ) :
    sqDistArd (l :: ls) (x :: a) (y :: b) = (x - y) ^ 2 / l ^ 2 + sqDistArd ls a b := by
  simp [sqDistArd]

theorem sqDistArd_nonneg (ls a b : List ℝ) : 0 ≤ sqDistArd ls a b := by
  induction ls generalizing a b with
  | nil => simp [sqDistArd]
  | cons l ls ih =>
    cases a with
    | nil => simp [sqDistArd]
    | cons x a =>
      cases b with
      | nil => simp [sqDistArd]
      | cons y b => rw [sqDistArd_cons]; have := ih a b; positivity

/-- **ARD scaling**: dividing both rows by the per-dimension lengthscales and taking the plain squared
distance is the documented `(a−b)ᵀ Θ⁻² (a−b)` (no hypothesis on the lengthscales: `x/0 = 0` on both sides). -/
theorem sqDist_rowDiv (ls a b : List ℝ) : sqDist (rowDiv a ls) (rowDiv b ls) = sqDistArd ls a b := by
  induction ls generalizing a b with
  | nil => cases a <;> cases b <;> simp [rowDiv, sqDistArd, sqDist_nil_left]
  | cons l ls ih =>
    cases a with
    | nil => simp [rowDiv, sqDistArd, sqDist_nil_left]
    | cons x a =>
      cases b with
      | nil => simp [rowDiv, sqDistArd, sqDist_nil_right]
      | cons y b =>
        have := ih a b
        simp only [rowDiv, zip_cons] at this ⊢
        rw [sqDist_cons, sqDistArd_cons, this]
        by_cases hl : l = 0
        · subst hl; simp
        · field_simp

/-- a single lengthscale broadcast over the dimensions: `sqDistArd = sqDist / ℓ²` -/
theorem sqDistArd_replicate (l : ℝ) (a b : List ℝ) :
    sqDistArd (List.replicate a.length l) a b = sqDist a b / l ^ 2 := by
  induction a generalizing b with
  | nil => simp [sqDistArd, sqDist_nil_left]
  | cons x a ih =>
    cases b with
    | nil => simp [sqDistArd, sqDist_nil_right, List.replicate]
    | cons y b =>
      simp only [List.length_cons, List.replicate_succ]
      rw [sqDistArd_cons, sqDist_cons, ih b]
      ring

/-- **centering invariance** of the squared distance -/
theorem sqDist_rowSub (c a b : List ℝ) (ha : a.length = c.length) (hb : b.length = c.length) :
    sqDist (rowSub a c) (rowSub b c) = sqDist a b := by
  induction c generalizing a b with
  | nil =>
    have : a = [] := List.length_eq_zero_iff.mp ha
    subst this; simp [rowSub, sqDist_nil_left]
  | cons z c ih =>
    cases a with
    | nil => simp at ha
    | cons x a =>
      cases b with
      | nil => simp at hb
      | cons y b =>
        have := ih a b (by simpa using ha) (by simpa using hb)
        simp only [rowSub, zip_cons] at this ⊢
        rw [sqDist_cons, sqDist_cons, this]
        ring

theorem sqDistArd_rowSub (ls c a b : List ℝ) (ha : a.length = c.length) (hb : b.length = c.length) :
    sqDistArd ls (rowSub a c) (rowSub b c) = sqDistArd ls a b := by
  induction ls generalizing a b c with
  | nil => simp [sqDistArd]
  | cons l ls ih =>
    cases c with
    | nil =>
      have : a = [] := List.length_eq_zero_iff.mp ha
      subst this; simp [rowSub, sqDistArd]
    | cons z c =>
      cases a with
      | nil => simp at ha
      | cons x a =>
        cases b with
        | nil => simp at hb
        | cons y b =>
          have := ih c a b (by simpa using ha) (by simpa using hb)
          simp only [rowSub, zip_cons] at this ⊢
          rw [sqDistArd_cons, sqDistArd_cons, this]
          ring

theorem dot_nil_left (b : List ℝ) : dot ([] : List ℝ) b = 0 := by simp [dot, rowMul]
theorem dot_nil_right (a : List ℝ) : dot a ([] : List ℝ) = 0 := by simp [dot, rowMul]
theorem dot_cons (x y : ℝ) (a b : List ℝ) : dot (x :: a) (y :: b) = x * y + dot a b := by
  simp [dot, rowMul]

theorem dot_append (a₁ a₂ b₁ b₂ : List ℝ) (h : a₁.length = b₁.length) :
    dot (a₁ ++ a₂) (b₁ ++ b₂) = dot a₁ b₁ + dot a₂ b₂ := by
  induction a₁ generalizing b₁ with
  | nil =>
    have : b₁ = [] := List.length_eq_zero_iff.mp h.symm
    subst this; simp [dot_nil_left]
  | cons x a ih =>
    cases b₁ with
    | nil => simp at h
    | cons y b =>
      simp only [List.cons_append, dot_cons, ih b (by simpa using h)]
      ring

theorem dot_rowMulS (a b : List ℝ) (s : ℝ) : dot (rowMulS a s) b = s * dot a b := by
  induction a generalizing b with
  | nil => simp [rowMulS, dot_nil_left]
  | cons x a ih =>
    cases b with
    | nil => simp [dot_nil_right]
    | cons y b =>
      have := ih b
      simp only [rowMulS, List.map_cons] at this ⊢
      rw [dot_cons, dot_cons, this]; ring

theorem length_zip (f : ℝ → ℝ → ℝ) (a b : List ℝ) : (Scalar.zip f a b).length = min a.length b.length := by
  induction a generalizing b with
  | nil => simp
  | cons x a ih => cases b with
    | nil => simp
    | cons y b => simp [ih b]

/-- the quadratic expansion after centering is the squared distance (for rows of equal length) -/
theorem sqDistExpansion_eq (c a b : List ℝ) (ha : a.length = c.length) (hb : b.length = c.length) :
    sqDistExpansion c a b = sqDist a b := by
  unfold sqDistExpansion
  induction c generalizing a b with
  | nil =>
    have : a = [] := List.length_eq_zero_iff.mp ha
    subst this; simp [rowSub, sqDist_nil_left, dot_nil_left]
  | cons z c ih =>
    cases a with
    | nil => simp at ha
    | cons x a =>
      cases b with
      | nil => simp at hb
      | cons y b =>
        have := ih a b (by simpa using ha) (by simpa using hb)
        simp only [rowSub, zip_cons, List.map_cons, sum_cons_real, dot_cons, sq_real, lit_real] at this ⊢
        rw [sqDist_cons, ← this]
        push_cast
        ring

theorem sqDistImpl_eq_expansion (c a b : List ℝ) (ha : a.length = c.length) (hb : b.length = c.length) :
    sqDistImpl c a b = Max.max (sqDistExpansion c a b) 0 := by
  unfold sqDistImpl sqDistExpansion
  simp only [max_real, lit_real]
  rw [dot_append _ _ _ _ (by simp [rowMulS, rowSub, length_zip, ha, hb]), dot_rowMulS]
  simp only [dot_cons, dot_nil_left, lit_real]
  push_cast
  congr 1
  ring

theorem sqDistImpl_eq (c a b : List ℝ) (ha : a.length = c.length) (hb : b.length = c.length) :
    sqDistImpl c a b = sqDist a b := by
  rw [sqDistImpl_eq_expansion c a b ha hb, sqDistExpansion_eq c a b ha hb]
  exact max_eq_left (sqDist_nonneg a b)

theorem dot_rowSub (z a b : List ℝ) (h : a.length = b.length) :
    dot z (rowSub a b) = dot z a - dot z b := by
  induction z generalizing a b with
  | nil => simp [dot_nil_left]
  | cons w z ih =>
    cases a with
    | nil =>
      have : b = [] := List.length_eq_zero_iff.mp h.symm
      subst this; simp [rowSub, dot_nil_right]
    | cons x a =>
      cases b with
      | nil => simp at h
      | cons y b =>
        have := ih a b (by simpa using h)
        simp only [rowSub, zip_cons] at this ⊢
        rw [dot_cons, dot_cons, dot_cons, this]; ring

theorem rowSub_rowDiv (ls a b : List ℝ) :
    rowSub (rowDiv a ls) (rowDiv b ls) = rowDiv (rowSub a b) ls := by
  induction ls generalizing a b with
  | nil => cases a <;> cases b <;> simp [rowSub, rowDiv]
  | cons l ls ih =>
    cases a with
    | nil => simp [rowSub, rowDiv]
    | cons x a =>
      cases b with
      | nil => simp [rowSub, rowDiv]
      | cons y b =>
        have := ih a b
        simp only [rowSub, rowDiv, zip_cons] at this ⊢
        rw [this, sub_div]

theorem gradIdx_lt (n m i k : ℕ) (hi : i < n) (hk : k < m) : gradIdx m i k < n * m := by
  unfold gradIdx
  calc i * m + k < i * m + m := by omega
    _ = (i + 1) * m := by ring
    _ ≤ n * m := Nat.mul_le_mul_right m hi

theorem weightedEsymm_congr (e e' : ℕ → ℝ) (h : ∀ k, e k = e' k) (s : List ℝ) (k : ℕ) :
    weightedEsymm e s k = weightedEsymm e' s k := by
  induction s generalizing k with
  | nil => simp [weightedEsymm]
  | cons w s ih => simp [weightedEsymm, h, ih]

end Kernels

/-
C19 (wave 3) — helper lemmas relating the primitives of the regenerated code (`Gen/NaturalGrad.lean`: `tril`,
`scaleDiag`, `ones`, `hcat`, `cols`, broadcasting as multiplication by all-ones matrices) to the hand-written model.
-/
import GPVerif.Gen.NaturalGrad

open Matrix

namespace NatGradGen
variable {n d : ℕ} {α : Type} [Field α]

theorem phi_apply (A : DMat n n α) (i j : Fin n) :
    (NaturalGrad.phi A).toMatrix i j
      = if j.1 < i.1 then A.toMatrix i j else if i = j then A.toMatrix i j / 2 else 0 := by
  unfold NaturalGrad.phi; exact congrFun (congrFun (DMat.toMatrix_ofMatrix _) i) j

/-- `A.tril_().diagonal().mul_(0.5)` is `Φ` -/
theorem scaleDiag_tril_eq_phi (X : DMat n n α) :
    NaturalGrad.scaleDiag ((1 : α) / 2) (NaturalGrad.tril X) = NaturalGrad.phi X := by
  apply DMat.toMatrix_injective
  ext i j
  rw [phi_apply]
  simp only [NaturalGrad.scaleDiag, NaturalGrad.tril, DMat.toMatrix_ofMatrix, Matrix.of_apply]
  rcases lt_trichotomy i j with h | h | h
  · have h1 : ¬ (j.1 ≤ i.1) := by have : i.1 < j.1 := h; omega
    have h2 : ¬ (j.1 < i.1) := by have : i.1 < j.1 := h; omega
    have h3 : i ≠ j := ne_of_lt h
    simp [h1, h2, h3]
  · subst h
    simp [div_eq_mul_inv]
  · have h1 : j.1 ≤ i.1 := by have : j.1 < i.1 := h; omega
    have h2 : j.1 < i.1 := h
    have h3 : i ≠ j := (ne_of_lt h).symm
    simp [h1, h2, h3]

@[simp] theorem toMatrix_ones {r c : ℕ} : (NaturalGrad.ones : DMat r c α).toMatrix = Matrix.of fun _ _ => 1 := by
  simp [NaturalGrad.ones]

/-- a row broadcast over `n` rows, then `⊙ A`: scale the columns of `A` -/
theorem bcast_row_hadamard (v : DMat 1 d α) (A : DMat n d α) :
    ((((NaturalGrad.ones : DMat n 1 α).mul v).hadamard A)).toMatrix = A.toMatrix * Matrix.diagonal (fun j => v.toMatrix 0 j) := by
  ext i j
  simp [Matrix.mul_apply, Matrix.hadamard, Matrix.diagonal, mul_comm]

/-- `(n×1 column broadcast over d columns) ⊙ (1×d row broadcast over n rows)` is the outer product -/
theorem bcast_outer (v : DMat 1 d α) (u : DMat n 1 α) :
    ((((NaturalGrad.ones : DMat n 1 α).mul v).hadamard (u.mul (NaturalGrad.ones : DMat 1 d α)))).toMatrix
      = u.toMatrix * v.toMatrix := by
  ext i j
  simp [Matrix.mul_apply, Matrix.hadamard, mul_comm]

/-- `.sum(dim=-1)` after scaling the columns: `(A·diag w)·1 = A·wᵀ` -/
theorem mul_diagonal_mul_ones (A : Matrix (Fin n) (Fin d) α) (w : Fin d → α) :
    A * Matrix.diagonal w * (Matrix.of fun (_ : Fin d) (_ : Fin 1) => (1 : α))
      = A * (Matrix.of fun j (_ : Fin 1) => w j) := by
  ext i k
  simp [Matrix.mul_apply, Matrix.diagonal]

/-- `diag(w)·M` scales the rows of `M` -/
theorem diagonal_mul_eq_of {c : ℕ} (w : Fin d → α) (M : Matrix (Fin d) (Fin c) α) :
    Matrix.diagonal w * M = Matrix.of fun j k => w j * M j k := by
  ext j k
  simp [Matrix.diagonal_mul]

theorem cols_zero_mul_hcat (S : DMat n n α) (v : DMat n 1 α) (K : DMat n d α) :
    (NaturalGrad.cols (S.mul (NaturalGrad.hcat v K)) 0 : DMat n 1 α) = S.mul v := by
  apply DMat.toMatrix_injective
  ext i j
  have hj : j = 0 := Subsingleton.elim _ _
  subst hj
  have h0 : (⟨0 + (0 : Fin 1).1, by simp⟩ : Fin (1 + d)) = Fin.castAdd d (0 : Fin 1) := by
    ext; simp
  simp only [NaturalGrad.cols, NaturalGrad.hcat, DMat.toMatrix_ofMatrix, DMat.toMatrix_mul, Matrix.mul_apply, Matrix.of_apply]
  rw [dif_pos (by simp)]
  apply Finset.sum_congr rfl
  intro k _
  rw [h0, Fin.addCases_left]

theorem cols_one_mul_hcat (S : DMat n n α) (v : DMat n 1 α) (K : DMat n d α) :
    (NaturalGrad.cols (S.mul (NaturalGrad.hcat v K)) 1 : DMat n d α) = S.mul K := by
  apply DMat.toMatrix_injective
  ext i j
  have h1 : (⟨1 + j.1, by omega⟩ : Fin (1 + d)) = Fin.natAdd 1 j := by
    ext; simp
  simp only [NaturalGrad.cols, NaturalGrad.hcat, DMat.toMatrix_ofMatrix, DMat.toMatrix_mul, Matrix.mul_apply, Matrix.of_apply]
  rw [dif_pos (by omega)]
  apply Finset.sum_congr rfl
  intro k _
  rw [h1, Fin.addCases_right]

end NatGradGen

/-
Fast path (G5-generated `RBFCovariance` / `MaternCovariance` forward terms) and generic path (`Impl`) both equal
the documented `Spec`.  Proofs live here so that `Props/C05.lean` and `Props/C19.lean` can both use them without
C19 depending on the rest of C05 (e.g. on the piecewise-polynomial source).
-/
import GPVerif.Bridge.KernelLemmas
import GPVerif.Gen.Formulas

namespace FastPath
open Scalar Kernels Gen.Formulas

/-! ### RBF -/

/-- generic (autograd) path of `RBFKernel.forward` = documented formula -/
theorem rbf_generic_eq_spec (ls c a b : List ℝ) (ha : a.length = ls.length) (hb : b.length = ls.length)
    (hc : c.length = ls.length) :
    rbfImpl ls (rowDiv c ls) a b = rbfSpec ls a b := by
  have hl : ∀ x : List ℝ, x.length = ls.length → (rowDiv x ls).length = ls.length := by
    intro x hx; simp [rowDiv, length_zip, hx]
  unfold rbfImpl rbfSpec
  rw [sqDistImpl_eq _ _ _ (by rw [hl a ha, hl c hc]) (by rw [hl b hb, hl c hc]), sqDist_rowDiv]
  simp only [exp_real, lit_real]
  congr 1
  push_cast
  ring

/-- fast path: the G5-generated `RBFCovariance.forward` term (with or without saved tensors) = documented
formula with the single lengthscale broadcast over the dimensions -/
theorem rbf_fast_eq_spec (a b : List ℝ) (l : ℝ) :
    rbfFwdGradOut sqDist a b l = rbfSpec (List.replicate a.length l) a b ∧
    rbfFwdNoGradOut sqDist a b l = rbfSpec (List.replicate a.length l) a b := by
  constructor <;>
  · simp only [rbfFwdGradOut, rbfFwdNoGradOut, rbfSpec, sqDist_rowDivS, sqDistArd_replicate, exp_real, lit_real]
    congr 1
    push_cast
    ring

/-! ### Matérn -/

theorem matern_dist_eq (a b m : List ℝ) (l : ℝ) (ha : a.length = m.length) (hb : b.length = m.length) :
    Scalar.dist (rowDivS (rowSub a m) l) (rowDivS (rowSub b m) l)
      = Real.sqrt (sqDistArd (List.replicate a.length l) a b) := by
  simp only [Scalar.dist, sqrt_real, sqDist_rowDivS, sqDistArd_replicate, sqDist_rowSub m a b ha hb]

theorem matern12_fast_eq_spec (a b m : List ℝ) (l : ℝ) (ha : a.length = m.length) (hb : b.length = m.length) :
    matern12FwdGradOut Scalar.dist a b m l = maternSpec 1 (List.replicate a.length l) a b ∧
    matern12FwdNoGradOut Scalar.dist a b m l = maternSpec 1 (List.replicate a.length l) a b := by
  constructor <;>
  · simp only [matern12FwdGradOut, matern12FwdNoGradOut, maternSpec, maternOfDist, matern_dist_eq a b m l ha hb,
      exp_real, sqrt_real, lit_real]
    simp

theorem matern32_fast_eq_spec (a b m : List ℝ) (l : ℝ) (ha : a.length = m.length) (hb : b.length = m.length) :
    matern32FwdGradOut Scalar.dist a b m l = maternSpec 3 (List.replicate a.length l) a b ∧
    matern32FwdNoGradOut Scalar.dist a b m l = maternSpec 3 (List.replicate a.length l) a b := by
  constructor <;>
  · simp only [matern32FwdGradOut, matern32FwdNoGradOut, maternSpec, maternOfDist, matern_dist_eq a b m l ha hb,
      exp_real, sqrt_real, lit_real]
    push_cast
    ring_nf

theorem matern52_fast_eq_spec (a b m : List ℝ) (l : ℝ) (ha : a.length = m.length) (hb : b.length = m.length) :
    matern52FwdGradOut Scalar.dist a b m l = maternSpec 5 (List.replicate a.length l) a b ∧
    matern52FwdNoGradOut Scalar.dist a b m l = maternSpec 5 (List.replicate a.length l) a b := by
  have h5 : Real.sqrt 5 ^ 2 = 5 := Real.sq_sqrt (by norm_num)
  constructor <;>
  · simp only [matern52FwdGradOut, matern52FwdNoGradOut, maternSpec, maternOfDist, matern_dist_eq a b m l ha hb,
      exp_real, sqrt_real, lit_real, npow_real, sq_real]
    push_cast
    rw [mul_pow, h5]
    ring_nf

/-- generic path of `MaternKernel.forward` (centre, scale, distance, closed form) = documented formula -/
theorem matern_generic_eq_spec (nu2 : ℕ) (ls c a b : List ℝ) (ha : a.length = c.length) (hb : b.length = c.length) :
    maternImpl nu2 ls c a b = maternSpec nu2 ls a b := by
  unfold maternImpl maternSpec
  rw [Scalar.dist, sqDist_rowDiv, sqDistArd_rowSub ls c a b ha hb]

end FastPath

/-
Lemmas for C17's matrix-valued priors (`Model/MatrixPriors.lean`): the `scale_tril` pieces of
`MultivariateNormalPrior.log_prob` are the quadratic form / determinant of `Σ = L Lᵀ`; list products / sums over
`List.range` as `Finset.range` products; real powers of the LKJ-Cholesky exponents.
-/
import GPVerif.Model.MatrixPriors
import Mathlib.LinearAlgebra.Matrix.Block
import Mathlib.LinearAlgebra.Matrix.NonsingularInverse
import Mathlib.Analysis.SpecialFunctions.Pow.Real
import Mathlib.Analysis.SpecialFunctions.Log.Basic
import Mathlib.Analysis.SpecialFunctions.Pow.NNReal

set_option linter.unusedSectionVars false

namespace MatrixPriorsBridge
open Matrix MVN MatrixPriors

variable {n : Nat} {α : Type} [Field α] [DecidableEq α]

/-- `‖L⁻¹ r‖² = rᵀ (L Lᵀ)⁻¹ r` -/
theorem quad_tril (L : Matrix (Fin n) (Fin n) α) (r : Matrix (Fin n) (Fin 1) α) :
    (L⁻¹ * r)ᵀ * (L⁻¹ * r) = rᵀ * (L * Lᵀ)⁻¹ * r := by
  rw [Matrix.mul_inv_rev, Matrix.transpose_mul, ← Matrix.transpose_nonsing_inv]
  simp only [Matrix.mul_assoc]

/-- for lower-triangular `L`: `det (L Lᵀ) = (Π L_ii)²` -/
theorem det_tril_gram (L : Matrix (Fin n) (Fin n) α) (hL : L.IsLowerTriangular) :
    (L * Lᵀ).det = (∏ i, L i i) ^ 2 := by
  rw [Matrix.det_mul, Matrix.det_transpose, Matrix.det_of_isLowerTriangular L hL, sq]

theorem mvnTrilParts_correct (L : DMat n n α) (mu v : DMat n 1 α) (M : α) (d : Fin n → α)
    (h : mvnTrilParts? L mu v = some (M, d)) :
    M = ((v.toMatrix - mu.toMatrix)ᵀ * (L.toMatrix * L.toMatrixᵀ)⁻¹ * (v.toMatrix - mu.toMatrix)) 0 0 ∧
      (d = fun i => L.toMatrix i i) ∧ IsUnit L.toMatrix.det := by
  unfold mvnTrilParts? at h
  cases hX : DMat.inv? L with
  | none => simp [hX] at h
  | some Li =>
    simp only [hX, Option.map_some, Option.some.injEq, Prod.mk.injEq] at h
    obtain ⟨h1, h2⟩ := h
    refine ⟨?_, ?_, DMat.inv?_isUnit hX⟩
    · rw [← h1, ← quad_tril]
      simp [DMat.inv?_correct hX]
    · rw [← h2]; rfl

/-- the C10 pieces of `N(μ, S)` (certified inverse, certified `L D Lᵀ`) are the quadratic form and the determinant -/
theorem logProbParts_correct (S : DMat n n α) (mu v : DMat n 1 α) (q dt : α)
    (h : logProbParts? S mu v = some (q, dt)) :
    q = ((v.toMatrix - mu.toMatrix)ᵀ * S.toMatrix⁻¹ * (v.toMatrix - mu.toMatrix)) 0 0 ∧ dt = S.toMatrix.det := by
  unfold logProbParts? quadForm? det? at h
  cases hX : DMat.inv? S with
  | none => simp [hX] at h
  | some X =>
    cases hL : DMat.ldl? S with
    | none => simp [hX, hL] at h
    | some Ld =>
      obtain ⟨Lf, dd⟩ := Ld
      simp only [hX, hL, Option.map_some, Option.bind_eq_bind, Option.bind_some, Option.some.injEq,
        Prod.mk.injEq] at h
      obtain ⟨h1, h2⟩ := h
      refine ⟨?_, ?_⟩
      · rw [← h1, ← DMat.inv?_correct hX]; simp [Matrix.mul_assoc]
      · rw [← h2, DMat.ldl?_det hL]

/-! list ↔ finset -/

theorem list_range_prod {β : Type} [CommMonoid β] (f : Nat → β) (m : Nat) :
    ((List.range m).map f).prod = ∏ k ∈ Finset.range m, f k := by
  induction m with
  | zero => simp
  | succ m ih => rw [List.range_succ, List.map_append, List.prod_append, ih, Finset.prod_range_succ]; simp

theorem list_range_sum {β : Type} [AddCommMonoid β] (f : Nat → β) (m : Nat) :
    ((List.range m).map f).sum = ∑ k ∈ Finset.range m, f k := by
  induction m with
  | zero => simp
  | succ m ih => rw [List.range_succ, List.map_append, List.sum_append, ih, Finset.sum_range_succ]; simp

/-- diagonal entry `k` (0-based) of a square matrix, `1` beyond its size -/
noncomputable def diagN {n : Nat} (L : Matrix (Fin n) (Fin n) ℝ) (k : Nat) : ℝ :=
  if h : k < n then L ⟨k, h⟩ ⟨k, h⟩ else 1

end MatrixPriorsBridge

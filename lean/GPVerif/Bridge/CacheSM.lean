/-
Helper definitions and lemmas for C03 (core Lean only): the invariant of the prediction-cache state machine,
the facts about an invalidation table that the invariant needs (`TableOK`), and the closed form of the answer
of a call in a state that satisfies the invariant.
-/
import GPVerif.Model.CacheSM

set_option linter.unusedSectionVars false
set_option linter.unusedVariables false

namespace CacheSM

def Kind.all : List Kind := [.exact, .kiss, .sgpr, .svgp, .usvgp]

theorem Kind.mem_all (k : Kind) : k ∈ Kind.all := by cases k <;> simp [Kind.all]

theorem Cell.mem_bools (b : Bool) : b ∈ Cell.bools := by cases b <;> simp [Cell.bools]

/-- `Cell.all` really lists every settings cell -/
theorem Cell.mem_all (c : Cell) : c ∈ Cell.all := by
  rcases c with ⟨a, b, c, d, e, f, g, h, i, j, k⟩
  simp only [Cell.all, List.mem_flatMap, List.mem_singleton]
  exact ⟨a, Cell.mem_bools a, b, Cell.mem_bools b, c, Cell.mem_bools c, d, Cell.mem_bools d, e, Cell.mem_bools e,
    f, Cell.mem_bools f, g, Cell.mem_bools g, h, Cell.mem_bools h, i, Cell.mem_bools i, j, Cell.mem_bools j,
    k, Cell.mem_bools k, rfl⟩

/-! ### What the proofs need from an invalidation table (every field is a decidable, finite fact) -/

structure TableOK (T : Table) : Prop where
  /-- `Module.train(False)` on a module in training mode runs `_clear_cache()` -/
  train_to_eval : T.trainClears true false = true
  /-- `_load_from_state_dict` runs `_clear_cache()` -/
  load : T.loadClears = true
  /-- the `_clear_cache` bodies of a model's modules together remove every slot the model can hold -/
  complete : ∀ k ∈ Kind.all, ∀ sl ∈ slotsOf k, (allClearEffects T k).any (·.cleared sl) = true
  /-- `set_train_data` removes every data-dependent slot of an exact GP -/
  set_train_data : ∀ k ∈ Kind.all, k.isExact = true → ∀ a ∈ DataArgs.all, ∀ sl ∈ slotsOf k, dataSensitive sl = true →
      (T.setTrainData a.inputs a.targets).any (·.cleared sl) = true
  /-- `_VariationalStrategy.__call__` clears in training mode (non-prior call) … -/
  var_call : T.varCallClears true false = true
  /-- … and what it clears is the whole memo table of the strategy -/
  var_clear : ∀ k ∈ Kind.all, k.isExact = false → ∀ sl ∈ slotsOf k,
      (T.info (varClass k)).clearCache.any (·.cleared sl) = true
  /-- kernels neither store nor read their attribute caches in training mode -/
  attrs_eval_only : ∀ k ∈ Kind.all, attrsActive T k true = []
  /-- the attribute caches are slots of the model, and none of them is the strategy attribute -/
  attrs_in_slots : ∀ k ∈ Kind.all, ∀ sl ∈ attrsActive T k false, sl ∈ slotsOf k ∧ (sl == sStrat) = false
  /-- the re-whitening of parameters loaded from an old-format state dict empties the memo table afterwards -/
  legacy : T.legacyConversionClears = true
  /-- a strategy object built under the other `lazily_evaluate_kernels` setting is not reused -/
  keyed : T.strategyKeyedOnLazy = true
  /-- `get_fantasy_model` refuses to run without a strategy -/
  fantasy_needs : T.fantasyNeedsStrategy = true
  /-- the attributes set to `None` around `deepcopy(self)` are all put back, in a `finally:` -/
  fantasy_finally : T.fantasyRestoreInFinally = true
  fantasy_all : T.fantasyNulled.all (T.fantasyRestored.contains ·) = true
  /-- what `exact_prediction` of every strategy class reads / creates / pops, under every settings cell, is what
      the specification `accessModel` says (in particular: an entry with two representations is re-validated) -/
  access_ok : ∀ cls ∈ strategyClasses, ∀ c ∈ Cell.all, T.access cls false c = accessModel cls false c
  /-- … and likewise what `get_fantasy_strategy` reads from the source strategy -/
  fantasy_access_ok : ∀ cls ∈ strategyClasses, T.fantasyAccess cls .default = fantasyAccessModel cls .default

instance (T : Table) : Decidable (TableOK T) :=
  decidable_of_iff
    (T.trainClears true false = true ∧ T.loadClears = true ∧
     (∀ k ∈ Kind.all, ∀ sl ∈ slotsOf k, (allClearEffects T k).any (·.cleared sl) = true) ∧
     (∀ k ∈ Kind.all, k.isExact = true → ∀ a ∈ DataArgs.all, ∀ sl ∈ slotsOf k, dataSensitive sl = true →
        (T.setTrainData a.inputs a.targets).any (·.cleared sl) = true) ∧
     T.varCallClears true false = true ∧
     (∀ k ∈ Kind.all, k.isExact = false → ∀ sl ∈ slotsOf k,
        (T.info (varClass k)).clearCache.any (·.cleared sl) = true) ∧
     (∀ k ∈ Kind.all, attrsActive T k true = []) ∧
     (∀ k ∈ Kind.all, ∀ sl ∈ attrsActive T k false, sl ∈ slotsOf k ∧ (sl == sStrat) = false) ∧
     T.legacyConversionClears = true ∧
     T.strategyKeyedOnLazy = true ∧ T.fantasyNeedsStrategy = true ∧ T.fantasyRestoreInFinally = true ∧
     T.fantasyNulled.all (T.fantasyRestored.contains ·) = true ∧
     (∀ cls ∈ strategyClasses, ∀ c ∈ Cell.all, T.access cls false c = accessModel cls false c) ∧
     (∀ cls ∈ strategyClasses, T.fantasyAccess cls .default = fantasyAccessModel cls .default))
    ⟨fun ⟨a, b, c, d, e, f, g, h, m, i, j, k, l, n, o⟩ => ⟨a, b, c, d, e, f, g, h, m, i, j, k, l, n, o⟩,
     fun ⟨a, b, c, d, e, f, g, h, m, i, j, k, l, n, o⟩ => ⟨a, b, c, d, e, f, g, h, m, i, j, k, l, n, o⟩⟩

/-! ### Store predicates -/

/-- only slots of the model kind are live -/
def SuppS (k : Kind) (st : Store) : Prop := ∀ sl e, st sl = some e → sl ∈ slotsOf k

/-- every live entry was computed from parameters `pv` and (if it depends on them) data `dv` -/
def FreshS (pv dv : Nat) (st : Store) : Prop :=
  ∀ sl e, st sl = some e → e.pv = pv ∧ (dataSensitive sl = true → e.dv = dv)

/-- **The invariant.**  In eval mode every live cache entry carries the current versions (and the live
strategy object has the class that the current settings ask for); in every mode the data attributes are set
and only slots of the model kind are live. -/
structure Inv (s : State) : Prop where
  data : s.hasData = true
  supp : SuppS s.kind s.store
  fresh : s.training = false → FreshS s.pv s.dv s.store
  cls : s.training = false → (s.store sStrat).isSome = true → s.stratDefault = (s.kind == .exact || !s.stratLazy)

theorem touch_apply (st : Store) (slot : Nat) (e : Entry) (sl : Nat) :
    touch st slot e sl = if sl = slot then (match st sl with | some x => some x | none => some e) else st sl := rfl

theorem touchAll_of_some (st : Store) (mk : Nat → Entry) (slots : List Nat) (sl : Nat) (x : Entry)
    (h : st sl = some x) : touchAll st mk slots sl = some x := by
  induction slots generalizing st with
  | nil => simpa [touchAll] using h
  | cons a as ih =>
    simp only [touchAll]
    apply ih
    simp only [touch_apply]
    split
    · rw [h]
    · exact h

theorem touchAll_of_none_not_mem (st : Store) (mk : Nat → Entry) (slots : List Nat) (sl : Nat)
    (h : st sl = none) (hm : sl ∉ slots) : touchAll st mk slots sl = none := by
  induction slots generalizing st with
  | nil => simpa [touchAll] using h
  | cons a as ih =>
    simp only [touchAll]
    have hne : sl ≠ a := fun he => hm (by simp [he])
    apply ih
    · simp [touch_apply, hne, h]
    · exact fun hin => hm (by simp [hin])

theorem touchAll_of_none_mem (st : Store) (mk : Nat → Entry) (slots : List Nat) (sl : Nat)
    (h : st sl = none) (hm : sl ∈ slots) : touchAll st mk slots sl = some (mk sl) := by
  induction slots generalizing st with
  | nil => simp at hm
  | cons a as ih =>
    simp only [touchAll]
    by_cases he : sl = a
    · subst he
      apply touchAll_of_some
      simp [touch_apply, h]
    · have : sl ∈ as := by simpa [he] using hm
      apply ih _ _ this
      simp [touch_apply, he, h]

/-- a store after `touchAll`: an entry is either old or one of the newly created ones -/
theorem touchAll_cases (st : Store) (mk : Nat → Entry) (slots : List Nat) (sl : Nat) (e : Entry)
    (h : touchAll st mk slots sl = some e) : st sl = some e ∨ (st sl = none ∧ sl ∈ slots ∧ e = mk sl) := by
  cases hst : st sl with
  | some x =>
    left
    rw [touchAll_of_some st mk slots sl x hst] at h
    exact h
  | none =>
    right
    by_cases hm : sl ∈ slots
    · rw [touchAll_of_none_mem st mk slots sl hst hm] at h
      exact ⟨rfl, hm, by simpa using h.symm⟩
    · rw [touchAll_of_none_not_mem st mk slots sl hst hm] at h
      simp at h

theorem touchAll_live (st : Store) (mk : Nat → Entry) (slots : List Nat) (sl : Nat) (hm : sl ∈ slots) :
    ∃ e, touchAll st mk slots sl = some e := by
  cases hst : st sl with
  | some x => exact ⟨x, touchAll_of_some st mk slots sl x hst⟩
  | none => exact ⟨mk sl, touchAll_of_none_mem st mk slots sl hst hm⟩

theorem SuppS.touchAll {k : Kind} {st : Store} (h : SuppS k st) (mk : Nat → Entry) (slots : List Nat)
    (hs : ∀ sl ∈ slots, sl ∈ slotsOf k) : SuppS k (touchAll st mk slots) := by
  intro sl e he
  rcases touchAll_cases st mk slots sl e he with h1 | ⟨_, hm, _⟩
  · exact h sl e h1
  · exact hs sl hm

theorem FreshS.touchAll {pv dv : Nat} {st : Store} (h : FreshS pv dv st) (mk : Nat → Entry) (slots : List Nat)
    (hmk : ∀ sl, (mk sl).pv = pv ∧ (mk sl).dv = dv) : FreshS pv dv (touchAll st mk slots) := by
  intro sl e he
  rcases touchAll_cases st mk slots sl e he with h1 | ⟨_, _, rfl⟩
  · exact h sl e h1
  · exact ⟨(hmk sl).1, fun _ => (hmk sl).2⟩

theorem clearBy_some {effs : List Effect} {st : Store} {sl : Nat} {e : Entry} (h : clearBy effs st sl = some e) :
    st sl = some e ∧ effs.any (·.cleared sl) = false := by
  unfold clearBy at h
  split at h
  · simp at h
  · rename_i hc
    exact ⟨h, by simpa using hc⟩

theorem SuppS.clearBy {k : Kind} {st : Store} (h : SuppS k st) (effs : List Effect) : SuppS k (clearBy effs st) :=
  fun sl e he => h sl e (clearBy_some he).1

theorem FreshS.clearBy {pv dv : Nat} {st : Store} (h : FreshS pv dv st) (effs : List Effect) :
    FreshS pv dv (clearBy effs st) :=
  fun sl e he => h sl e (clearBy_some he).1

/-- clearing statements that cover every slot of the kind leave nothing -/
theorem clearBy_all_none {k : Kind} {st : Store} (h : SuppS k st) (effs : List Effect)
    (hc : ∀ sl ∈ slotsOf k, effs.any (·.cleared sl) = true) (sl : Nat) : clearBy effs st sl = none := by
  cases hq : clearBy effs st sl with
  | none => rfl
  | some e =>
    have := clearBy_some hq
    have hin := h sl e this.1
    rw [hc sl hin] at this
    exact absurd this.2 (by simp)

theorem FreshS.of_none {pv dv : Nat} {st : Store} (h : ∀ sl, st sl = none) : FreshS pv dv st :=
  fun sl e he => by rw [h sl] at he; simp at he

/-! ### Answers -/

theorem usedOf_eq (s : State) (st : Store) (slots : List Nat)
    (h : ∀ sl ∈ slots, ∃ e, st sl = some e ∧ e.pv = s.pv ∧ (dataSensitive sl = true → e.dv = s.dv)) :
    usedOf s st slots = slots.map fun sl => ⟨sl, s.pv, s.dv⟩ := by
  induction slots with
  | nil => rfl
  | cons a as ih =>
    obtain ⟨e, he, hp, hd⟩ := h a (by simp)
    have ih' := ih (fun sl hsl => h sl (by simp [hsl]))
    unfold usedOf at ih' ⊢
    simp only [List.filterMap_cons, he, Option.map_some, List.map_cons]
    rw [ih']
    congr 1
    cases hds : dataSensitive a with
    | true => simp [hp, hd hds]
    | false => simp [hp]

/-- The answer a call gives in a state that satisfies the invariant, in closed form: it mentions the kind,
the mode, the current versions and the settings cell — nothing else of the state. -/
def specAnswer (T : Table) (k : Kind) (training : Bool) (pv dv : Nat) (c : Cell) (prior : Bool) : Answer :=
  if k.isExact then
    if training then ⟨false, cModule, pv, dv, []⟩
    else if prior then ⟨false, cModule, pv, dv, (attrsActive T k false).map fun sl => ⟨sl, pv, dv⟩⟩
    else
      let cls := stratClassOf k (k == .exact || c.eager)
      ⟨true, cls, pv, dv, (sStrat :: memoReads T cls c ++ attrsActive T k false).map fun sl => ⟨sl, pv, dv⟩⟩
  else if prior then ⟨false, cModule, pv, dv, []⟩
  else ⟨true, varClass k, pv, dv, (varReads k training c).map fun sl => ⟨sl, pv, dv⟩⟩

theorem specAnswer_current (T : Table) (k : Kind) (training : Bool) (pv dv : Nat) (c : Cell) (prior : Bool) :
    (specAnswer T k training pv dv c prior).current = true := by
  unfold specAnswer Answer.current
  split
  · split
    · simp
    · split <;> simp
  · split <;> simp

theorem stratClassOf_mem (k : Kind) (d : Bool) : stratClassOf k d ∈ strategyClasses := by
  cases k <;> cases d <;> decide

theorem clearBy_of_not_cleared {effs : List Effect} {st : Store} {sl : Nat}
    (h : effs.any (·.cleared sl) = false) : clearBy effs st sl = st sl := by
  unfold clearBy
  simp [h]

/-- the specification re-validates every two-representation entry, so which slots a call reads does not depend on
what is live -/
theorem effReads_accessModel (cls : Nat) (c : Cell) (st : Store) :
    effReads (accessModel cls false c) st = effReads (accessModel cls false c) (fun _ => none) := by
  unfold accessModel
  split
  · rfl
  · split
    · cases c.skip <;> rfl
    · split
      · cases h : ((c.fpv || c.fps) && !c.skip) <;> simp [effReads]
      · split
        · cases h : (c.fpv && !c.skip && !c.nan) <;> simp [effReads]
        · rfl

theorem accessModel_facts :
    ∀ k ∈ Kind.all, ∀ d ∈ Cell.bools, ∀ c ∈ Cell.all, k.isExact = true →
      (∀ sl ∈ effReads (accessModel (stratClassOf k d) false c) (fun _ => none),
          sl ∈ slotsOf k ∧ (sl == sStrat) = false) ∧
      ((popped (accessModel (stratClassOf k d) false c)).map Effect.delAttr).any (·.cleared sStrat) = false := by
  decide +kernel

/-- slots read by a strategy class that a model of kind `k` can have: slots of the kind, never slot 0 -/
theorem accessModel_reads (k : Kind) (hk : k.isExact = true) (d : Bool) (c : Cell) (st : Store) :
    ∀ sl ∈ effReads (accessModel (stratClassOf k d) false c) st, sl ∈ slotsOf k ∧ (sl == sStrat) = false := by
  rw [effReads_accessModel]
  exact (accessModel_facts k (Kind.mem_all k) d (Cell.mem_bools d) c (Cell.mem_all c) hk).1

/-- the pops of a call never remove the strategy object -/
theorem popped_effects_keep_strategy (k : Kind) (hk : k.isExact = true) (d : Bool) (c : Cell) :
    ((popped (accessModel (stratClassOf k d) false c)).map Effect.delAttr).any (·.cleared sStrat) = false :=
  (accessModel_facts k (Kind.mem_all k) d (Cell.mem_bools d) c (Cell.mem_all c) hk).2

/-- the fantasy model's kind and the memo entries its strategy is born with -/
theorem fantasyBorn_in_slots :
    ∀ k ∈ Kind.all, ∀ d ∈ Cell.bools,
      ∀ sl ∈ sStrat :: fantasyBornModel (if k.isExact then stratClassOf k d else cDefault),
        sl ∈ slotsOf (if k.isExact then k else .exact) := by decide

theorem effReads_fantasyAccessModel (cls : Nat) (c : Cell) (st : Store) :
    effReads (fantasyAccessModel cls c) st = effReads (fantasyAccessModel cls c) (fun _ => none) := by
  unfold fantasyAccessModel
  split
  · rfl
  · split <;> rfl

theorem fantasyAccessModel_facts :
    ∀ k ∈ Kind.all, ∀ d ∈ Cell.bools, k.isExact = true →
      ∀ sl ∈ effReads (fantasyAccessModel (stratClassOf k d) .default) (fun _ => none),
        sl ∈ slotsOf k ∧ (sl == sStrat) = false := by decide

/-- the slots read while building a fantasy model belong to the kind and none is slot 0 -/
theorem fantasyReads_in_slots {T : Table} (hT : TableOK T) (s : State) :
    ∀ sl ∈ fantasyReads T s, sl ∈ slotsOf s.kind ∧ (sl == sStrat) = false := by
  intro sl h
  unfold fantasyReads at h
  cases hk : s.kind.isExact with
  | true =>
    rw [hk, if_pos rfl, hT.fantasy_access_ok _ (stratClassOf_mem _ _), effReads_fantasyAccessModel] at h
    exact fantasyAccessModel_facts s.kind (Kind.mem_all _) s.stratDefault (Cell.mem_bools _) hk sl h
  | false =>
    rw [hk] at h
    simp only [Bool.false_eq_true, if_false, List.mem_cons, List.not_mem_nil, or_false] at h
    revert hk
    cases s.kind <;> simp [Kind.isExact] <;> rcases h with h | h | h <;> subst h <;> decide

theorem fantasyModel_store (s : State) (sl : Nat) (e : Entry) (h : (fantasyModel s).store sl = some e) :
    sl ∈ sStrat :: fantasyBornModel (if s.kind.isExact then stratClassOf s.kind s.stratDefault else cDefault) ∧
    e = ⟨s.pv, s.dv + 1, false⟩ := by
  have h' : (if (sl == sStrat) = true then some (⟨s.pv, s.dv + 1, false⟩ : Entry)
      else if (fantasyBornModel (if s.kind.isExact then stratClassOf s.kind s.stratDefault else cDefault)).contains sl = true
        then some ⟨s.pv, s.dv + 1, false⟩ else none) = some e := h
  by_cases h1 : (sl == sStrat) = true
  · rw [if_pos h1] at h'
    have : sl = sStrat := by simpa using h1
    exact ⟨by simp [this], by simpa using h'.symm⟩
  · rw [if_neg h1] at h'
    by_cases h2 : (fantasyBornModel (if s.kind.isExact then stratClassOf s.kind s.stratDefault else cDefault)).contains sl = true
    · rw [if_pos h2] at h'
      exact ⟨List.mem_cons_of_mem _ (by simpa using h2), by simpa using h'.symm⟩
    · rw [if_neg h2] at h'
      simp at h'

theorem exact_slots (k : Kind) (hk : k.isExact = true) : sStrat ∈ slotsOf k ∧ sMean ∈ slotsOf k ∧ sCovar ∈ slotsOf k := by
  cases k <;> simp_all [Kind.isExact, slotsOf, sStrat, sMean, sCovar, sInterpInner, sInterpResp, sKMat, sKInvRoot]

theorem varReads_sub (k : Kind) (hk : k.isExact = false) (training : Bool) (c : Cell) :
    ∀ sl ∈ varReads k training c, sl ∈ slotsOf k := by
  intro sl h
  cases k <;> simp [Kind.isExact] at hk
  · unfold varReads at h
    simp only [slotsOf]
    simp only [List.mem_cons, List.not_mem_nil, or_false] at h ⊢
    rcases h with h | h | h <;> simp [h]
  · unfold varReads at h
    simp only [slotsOf]
    cases training <;> cases hc : c.noCholesky <;> simp [hc] at h ⊢ <;> (rcases h with h | h | h) <;> simp_all

/-! ### One call preserves the invariant and answers in closed form -/

theorem newEntry_versions (s : State) (h : Bool) : (newEntry s h).pv = s.pv ∧ (newEntry s h).dv = s.dv := ⟨rfl, rfl⟩

section calls
variable {T : Table} (hT : TableOK T) {s : State} (hI : Inv s)
include hT hI

theorem callKernelOnly_training (htr : s.training = true) : callKernelOnly T s true = (s, ⟨false, cModule, s.pv, s.dv, []⟩) := by
  unfold callKernelOnly
  rw [hT.attrs_eval_only s.kind (Kind.mem_all _)]
  rfl

theorem callKernelOnly_eval_inv (htr : s.training = false) : Inv (callKernelOnly T s false).1 := by
  have ha := hT.attrs_in_slots s.kind (Kind.mem_all _)
  refine ⟨hI.data, ?_, ?_, ?_⟩
  · exact hI.supp.touchAll _ _ (fun sl h => (ha sl h).1)
  · intro _
    exact (hI.fresh htr).touchAll _ _ (fun _ => newEntry_versions s false)
  · intro _ hs
    apply hI.cls htr
    simp only [callKernelOnly] at hs
    cases hq : touchAll s.store (fun _ => newEntry s false) (attrsActive T s.kind false) sStrat with
    | none => rw [hq] at hs; simp at hs
    | some e =>
      rcases touchAll_cases _ _ _ _ _ hq with h1 | ⟨_, hm, _⟩
      · simp [h1]
      · have := (ha sStrat hm).2
        simp at this

theorem callKernelOnly_eval_answer (htr : s.training = false) :
    (callKernelOnly T s false).2 = ⟨false, cModule, s.pv, s.dv, (attrsActive T s.kind false).map fun sl => ⟨sl, s.pv, s.dv⟩⟩ := by
  unfold callKernelOnly
  simp only
  rw [usedOf_eq]
  intro sl hsl
  obtain ⟨e, he⟩ := touchAll_live s.store (fun _ => newEntry s false) _ sl hsl
  have := ((hI.fresh htr).touchAll (fun _ => newEntry s false) (attrsActive T s.kind false)
    (fun _ => newEntry_versions s false)) sl e he
  exact ⟨e, he, this.1, this.2⟩

theorem withStrategy_fields (c : Cell) :
    (withStrategy T s c).kind = s.kind ∧ (withStrategy T s c).training = s.training ∧
    (withStrategy T s c).hasData = s.hasData ∧ (withStrategy T s c).pv = s.pv ∧ (withStrategy T s c).dv = s.dv := by
  unfold withStrategy
  split <;> simp

theorem withStrategy_spec (hk : s.kind.isExact = true) (htr : s.training = false) (c : Cell) :
    Inv (withStrategy T s c) ∧ ((withStrategy T s c).store sStrat).isSome = true ∧
    (withStrategy T s c).stratDefault = (s.kind == .exact || c.eager) := by
  unfold withStrategy
  split
  · refine ⟨⟨hI.data, ?_, ?_, ?_⟩, by simp, rfl⟩
    · intro sl e he
      simp only at he
      split at he
      · rename_i h
        have : sl = sStrat := by simpa using h
        rw [this]; exact (exact_slots s.kind hk).1
      · split at he
        · simp at he
        · exact hI.supp sl e he
    · intro _ sl e he
      simp only at he
      split at he
      · have : e = newEntry s false := by simpa using he.symm
        rw [this]; exact ⟨rfl, fun _ => rfl⟩
      · split at he
        · simp at he
        · exact hI.fresh htr sl e he
    · intro _ _
      simp only
      cases c.eager <;> simp
  · rename_i hn
    have hn' : needsNewStrategy T s c = false := by simpa using hn
    unfold needsNewStrategy at hn'
    simp only [Bool.or_eq_false_iff, hT.keyed, Bool.true_and] at hn'
    obtain ⟨⟨h1, _⟩, h3⟩ := hn'
    have hs : (s.store sStrat).isSome = true := by
      cases hq : s.store sStrat <;> simp [hq] at h1 ⊢
    have hl : s.stratLazy = !c.eager := by
      revert h3; cases s.stratLazy <;> cases c.eager <;> simp
    refine ⟨hI, hs, ?_⟩
    rw [hI.cls htr hs, hl]
    cases c.eager <;> simp

/-- the store a posterior call works on after its pops, and the slots it then reads: in terms of the specification -/
theorem callPosterior_unfold (c : Cell) :
    callPosterior T s c =
      (let s0 := withStrategy T s c
       let cls := stratClassOf s0.kind s0.stratDefault
       let st0 := clearBy ((popped (accessModel cls false c)).map .delAttr) s0.store
       let reads := memoReads T cls c
       let attrs := attrsActive T s0.kind false
       let st := touchAll (touchAll st0 (fun sl => newEntry s (c.keepGraph && T.hookedSlot cls (baseSlot sl))) reads)
                   (fun _ => newEntry s false) attrs
       ({ s0 with store := st }, ⟨true, cls, s.pv, s.dv, usedOf s st (sStrat :: reads ++ attrs)⟩)) := by
  unfold callPosterior memoReads
  simp only
  rw [hT.access_ok _ (stratClassOf_mem _ _) c (Cell.mem_all c), effReads_accessModel]

theorem callPosterior_inv (hk : s.kind.isExact = true) (htr : s.training = false) (c : Cell) :
    Inv (callPosterior T s c).1 := by
  obtain ⟨hI0, hs0, hd0⟩ := withStrategy_spec hT hI hk htr c
  obtain ⟨fk, ft, fd, fp, fv⟩ := withStrategy_fields hT hI c
  have ha := hT.attrs_in_slots s.kind (Kind.mem_all _)
  rw [callPosterior_unfold hT hI c]
  simp only
  have hreads : ∀ sl ∈ memoReads T (stratClassOf (withStrategy T s c).kind (withStrategy T s c).stratDefault) c,
      sl ∈ slotsOf s.kind ∧ (sl == sStrat) = false := by
    unfold memoReads
    rw [hT.access_ok _ (stratClassOf_mem _ _) c (Cell.mem_all c), fk]
    exact accessModel_reads s.kind hk _ c _
  refine ⟨by simpa [fd] using hI.data, ?_, ?_, ?_⟩
  · apply SuppS.touchAll
    · apply SuppS.touchAll (hI0.supp.clearBy _)
      intro sl hsl
      rw [fk]
      exact (hreads sl hsl).1
    · intro sl hsl
      rw [fk] at hsl ⊢
      exact (ha sl hsl).1
  · intro _
    simp only [fp, fv]
    apply FreshS.touchAll
    · apply FreshS.touchAll
      · have := hI0.fresh (by rw [ft]; exact htr)
        rw [fp, fv] at this
        exact this.clearBy _
      · intro sl; exact ⟨rfl, rfl⟩
    · intro sl; exact ⟨rfl, rfl⟩
  · intro _ _
    simp only
    exact hI0.cls (by rw [ft]; exact htr) hs0

theorem callPosterior_answer (hk : s.kind.isExact = true) (htr : s.training = false) (c : Cell) :
    (callPosterior T s c).2 =
      ⟨true, stratClassOf s.kind (s.kind == .exact || c.eager), s.pv, s.dv,
       (sStrat :: memoReads T (stratClassOf s.kind (s.kind == .exact || c.eager)) c
          ++ attrsActive T s.kind false).map fun sl => ⟨sl, s.pv, s.dv⟩⟩ := by
  obtain ⟨hI0, hs0, hd0⟩ := withStrategy_spec hT hI hk htr c
  obtain ⟨fk, ft, fd, fp, fv⟩ := withStrategy_fields hT hI c
  rw [callPosterior_unfold hT hI c]
  simp only [fk, hd0]
  rw [usedOf_eq]
  intro sl hsl
  -- the store after the pops: still fresh, still holding the strategy object
  have hkeep := popped_effects_keep_strategy s.kind hk (s.kind == .exact || c.eager) c
  have hfresh0 : FreshS s.pv s.dv
      (clearBy ((popped (accessModel (stratClassOf s.kind (s.kind == .exact || c.eager)) false c)).map .delAttr)
        (withStrategy T s c).store) := by
    have := hI0.fresh (by rw [ft]; exact htr)
    rw [fp, fv] at this
    exact this.clearBy _
  -- every slot read is live in the final store, and the final store is fresh
  have hfresh : FreshS s.pv s.dv
      (touchAll (touchAll
        (clearBy ((popped (accessModel (stratClassOf s.kind (s.kind == .exact || c.eager)) false c)).map .delAttr)
          (withStrategy T s c).store)
        (fun sl => newEntry s (c.keepGraph && T.hookedSlot (stratClassOf s.kind (s.kind == .exact || c.eager)) (baseSlot sl)))
        (memoReads T (stratClassOf s.kind (s.kind == .exact || c.eager)) c))
        (fun _ => newEntry s false) (attrsActive T s.kind false)) := by
    apply FreshS.touchAll
    · apply FreshS.touchAll hfresh0
      intro sl; exact ⟨rfl, rfl⟩
    · intro sl; exact ⟨rfl, rfl⟩
  have hlive : ∃ e, touchAll (touchAll
        (clearBy ((popped (accessModel (stratClassOf s.kind (s.kind == .exact || c.eager)) false c)).map .delAttr)
          (withStrategy T s c).store)
        (fun sl => newEntry s (c.keepGraph && T.hookedSlot (stratClassOf s.kind (s.kind == .exact || c.eager)) (baseSlot sl)))
        (memoReads T (stratClassOf s.kind (s.kind == .exact || c.eager)) c))
        (fun _ => newEntry s false) (attrsActive T s.kind false) sl = some e := by
    simp only [List.cons_append, List.mem_cons, List.mem_append] at hsl
    rcases hsl with h | h | h
    · subst h
      cases hq : (withStrategy T s c).store sStrat with
      | none => rw [hq] at hs0; simp at hs0
      | some e =>
        refine ⟨e, touchAll_of_some _ _ _ _ _ (touchAll_of_some _ _ _ _ _ ?_)⟩
        rw [clearBy_of_not_cleared hkeep]
        exact hq
    · obtain ⟨e, he⟩ := touchAll_live
        (clearBy ((popped (accessModel (stratClassOf s.kind (s.kind == .exact || c.eager)) false c)).map .delAttr)
          (withStrategy T s c).store)
        (fun sl => newEntry s (c.keepGraph && T.hookedSlot (stratClassOf s.kind (s.kind == .exact || c.eager)) (baseSlot sl))) _ sl h
      exact ⟨e, touchAll_of_some _ _ _ _ _ he⟩
    · exact touchAll_live _ _ _ sl h
  obtain ⟨e, he⟩ := hlive
  have := hfresh sl e he
  exact ⟨e, he, this.1, this.2⟩

theorem convert_fields : (convert T s).kind = s.kind ∧ (convert T s).training = s.training ∧
    (convert T s).dv = s.dv ∧ (convert T s).hasData = s.hasData ∧ (convert T s).pv = (if s.converts then s.pv + 1 else s.pv) := by
  unfold convert
  split <;> simp_all

/-- the legacy re-whitening block preserves the invariant (it ends by emptying the memo table) -/
theorem convert_inv : Inv (convert T s) := by
  unfold convert
  split
  · rename_i hc
    have hk : s.kind = .svgp := by
      unfold State.converts at hc
      simp only [Bool.and_eq_true, beq_iff_eq] at hc
      exact hc.2
    have hsupp : SuppS s.kind (touchAll s.store (fun _ => newEntry s false) [sChol, sVarDist]) := by
      apply hI.supp.touchAll
      intro sl hsl
      rw [hk]
      simp only [List.mem_cons, List.not_mem_nil, or_false] at hsl
      rcases hsl with h | h <;> subst h <;> decide
    have hnone : ∀ sl, clearBy [Effect.clearMemo] (touchAll s.store (fun _ => newEntry s false) [sChol, sVarDist]) sl = none := by
      apply clearBy_all_none hsupp
      rw [hk]
      decide
    simp only [hT.legacy, if_true]
    refine ⟨hI.data, hsupp.clearBy _, fun _ => FreshS.of_none hnone, ?_⟩
    intro _ hs
    simp only at hs
    rw [hnone] at hs
    simp at hs
  · exact hI

theorem callVar_store_fresh (c : Cell) (hk : s.kind.isExact = false) :
    FreshS s.pv s.dv (callVar T s c).1.store ∧ SuppS s.kind (callVar T s c).1.store := by
  unfold callVar
  simp only
  constructor
  · apply FreshS.touchAll
    · cases htr : s.training with
      | true =>
        rw [hT.var_call]
        simp only [if_true]
        exact FreshS.of_none (clearBy_all_none hI.supp _ (hT.var_clear s.kind (Kind.mem_all _) hk))
      | false =>
        split
        · exact (hI.fresh htr).clearBy _
        · exact hI.fresh htr
    · intro sl; exact ⟨rfl, rfl⟩
  · apply SuppS.touchAll
    · split
      · exact hI.supp.clearBy _
      · exact hI.supp
    · exact varReads_sub s.kind hk s.training c

theorem callVar_inv (c : Cell) (hk : s.kind.isExact = false) : Inv (callVar T s c).1 := by
  obtain ⟨hf, hs⟩ := callVar_store_fresh hT hI c hk
  refine ⟨hI.data, hs, fun _ => hf, ?_⟩
  intro _ hsome
  -- a variational model never holds slot 0
  exfalso
  cases hq : (callVar T s c).1.store sStrat with
  | none => rw [hq] at hsome; simp at hsome
  | some e =>
    have := hs sStrat e hq
    have hk' : (callVar T s c).1.kind = s.kind := rfl
    revert this
    cases hkk : s.kind <;> simp [hkk, Kind.isExact] at hk <;>
      simp [slotsOf, sStrat, sChol, sPrior, sVarDist, sPseudo, sAmortized]

theorem callVar_answer (c : Cell) (hk : s.kind.isExact = false) :
    (callVar T s c).2 = ⟨true, varClass s.kind, s.pv, s.dv, (varReads s.kind s.training c).map fun sl => ⟨sl, s.pv, s.dv⟩⟩ := by
  obtain ⟨hf, _⟩ := callVar_store_fresh hT hI c hk
  unfold callVar at hf ⊢
  simp only at hf ⊢
  rw [usedOf_eq]
  intro sl hsl
  obtain ⟨e, he⟩ := touchAll_live
    (if T.varCallClears s.training false then clearBy (T.info (varClass s.kind)).clearCache s.store else s.store)
    (fun _ => newEntry s false) _ sl hsl
  have := hf sl e he
  exact ⟨e, he, this.1, this.2⟩

/-- **A call preserves the invariant.** -/
theorem call_inv (c : Cell) (prior : Bool) : Inv (call T s c prior).1 := by
  unfold call
  cases hk : s.kind.isExact with
  | true =>
    simp only [if_true]
    cases htr : s.training with
    | true =>
      simp only [if_true]
      rw [callKernelOnly_training hT hI htr]
      exact hI
    | false =>
      simp only [Bool.false_eq_true, if_false, hI.data, Bool.not_true, Bool.or_false]
      cases prior with
      | true => simpa using callKernelOnly_eval_inv hT hI htr
      | false => simpa using callPosterior_inv hT hI hk htr c
  | false =>
    simp only [Bool.false_eq_true, if_false]
    cases prior with
    | true => simpa using hI
    | false =>
      have hk' : (convert T s).kind.isExact = false := by rw [(convert_fields hT hI).1]; exact hk
      simpa using callVar_inv hT (convert_inv hT hI) c hk'

/-- **The answer of a call** in a state satisfying the invariant is the closed form `specAnswer`. -/
theorem call_answer (c : Cell) (prior : Bool) :
    (call T s c prior).2 = specAnswer T s.kind s.training (callPv s prior) s.dv c prior := by
  unfold call specAnswer callPv
  cases hk : s.kind.isExact with
  | true =>
    simp only [if_true]
    cases htr : s.training with
    | true =>
      simp only [if_true]
      rw [callKernelOnly_training hT hI htr]
      simp
    | false =>
      simp only [Bool.false_eq_true, if_false, hI.data, Bool.not_true, Bool.or_false]
      cases prior with
      | true => simpa using callKernelOnly_eval_answer hT hI htr
      | false => simpa using callPosterior_answer hT hI hk htr c
  | false =>
    simp only [Bool.false_eq_true, if_false]
    cases prior with
    | true => simp
    | false =>
      have hk' : (convert T s).kind.isExact = false := by rw [(convert_fields hT hI).1]; exact hk
      obtain ⟨fk, ft, fd, _, fp⟩ := convert_fields hT hI
      have := callVar_answer hT (convert_inv hT hI) c hk'
      rw [fk, ft, fd, fp] at this
      simpa [hk] using this

theorem call_fields (c : Cell) (prior : Bool) :
    (call T s c prior).1.kind = s.kind ∧ (call T s c prior).1.training = s.training ∧
    (call T s c prior).1.dv = s.dv := by
  unfold call callKernelOnly callPosterior callVar withStrategy convert
  repeat' split
  all_goals simp

end calls

end CacheSM

/-
Glue between the executable ELBO model (`GPVerif.Model.ELBO`, `DMat` over ℝ) and the matrix-level lemmas of
`GPVerif.Bridge.Collapsed`: column `DMat`s as vectors, quadratic forms as `dotProduct`/`mulVec`, sums over points.
-/
import GPVerif.Model.ELBO
import GPVerif.Bridge.Collapsed

open Matrix DMat Variational ELBO

namespace ElboGlue
variable {M n : Nat}

/-- a column `DMat` as a vector -/
def colVec {α : Type} (v : DMat n 1 α) : Fin n → α := fun i => v.toMatrix i 0

theorem quadForm_eq (Pi : DMat n n ℝ) (d : DMat n 1 ℝ) :
    quadForm Pi d = colVec d ⬝ᵥ (Pi.toMatrix *ᵥ colVec d) := by
  simp only [quadForm, toMatrix_mul, toMatrix_transpose, Matrix.mul_apply, Matrix.transpose_apply, dotProduct,
    Matrix.mulVec, colVec]

theorem mul_col_apply (A : Matrix (Fin n) (Fin M) ℝ) (v : DMat M 1 ℝ) (i : Fin n) :
    (A * v.toMatrix) i 0 = (A *ᵥ colVec v) i := by
  simp only [Matrix.mul_apply, Matrix.mulVec, dotProduct, colVec]

/-- mean of the whitened `q(f)` as a vector: `mX + Bᵀ μ`. -/
theorem whitened_mean_apply (Kzx : DMat M n ℝ) (Kxx : DMat n n ℝ) (mX : DMat n 1 ℝ) (εx : ℝ) (Li : DMat M M ℝ)
    (mw : DMat M 1 ℝ) (Sw : DMat M M ℝ) (i : Fin n) :
    (whitenedFwd Kzx Kxx mX εx Li mw Sw).mean.toMatrix i 0
      = (((Li.mul Kzx).toMatrix)ᵀ *ᵥ colVec mw) i + mX.toMatrix i 0 := by
  simp only [whitenedFwd, toMatrix_add, toMatrix_mul, toMatrix_transpose, Matrix.add_apply]
  rw [← toMatrix_mul, mul_col_apply]

/-- sum of the marginal variances of the whitened `q(f)`: `tr K̃xx − tr BᵀB + tr BᵀSB`. -/
theorem whitened_var_sum (Kzx : DMat M n ℝ) (Kxx : DMat n n ℝ) (mX : DMat n 1 ℝ) (εx : ℝ) (Li : DMat M M ℝ)
    (mw : DMat M 1 ℝ) (Sw : DMat M M ℝ) :
    ∑ i, (whitenedFwd Kzx Kxx mX εx Li mw Sw).cov.toMatrix i i
      = (addJitter Kxx εx).toMatrix.trace - (((Li.mul Kzx).toMatrix)ᵀ * (Li.mul Kzx).toMatrix).trace
        + (((Li.mul Kzx).toMatrix)ᵀ * Sw.toMatrix * (Li.mul Kzx).toMatrix).trace := by
  have : ∑ i, (whitenedFwd Kzx Kxx mX εx Li mw Sw).cov.toMatrix i i
      = (whitenedFwd Kzx Kxx mX εx Li mw Sw).cov.toMatrix.trace := rfl
  rw [this]
  simp only [whitenedFwd, toMatrix_add, toMatrix_sub, toMatrix_mul, toMatrix_transpose, toMatrix_one,
    Matrix.trace_add, Matrix.sub_mul, Matrix.mul_sub, Matrix.one_mul, Matrix.trace_sub, Matrix.mul_assoc]
  ring

theorem trace_one_mul_eq (Sw : DMat M M ℝ) : ((one : DMat M M ℝ).mul Sw).trace = Sw.toMatrix.trace := by
  simp [DMat.trace]

theorem klRatWhitened_eq (mw : DMat M 1 ℝ) (Sw : DMat M M ℝ) :
    klRatWhitened mw Sw = Sw.toMatrix.trace + colVec mw ⬝ᵥ colVec mw - (M : ℝ) := by
  simp only [klRatWhitened, klRat, trace_one_mul_eq, quadForm_eq, toMatrix_one, Matrix.one_mulVec]

/-- `N ·` the value `VariationalELBO` returns (full batch `B = N = n`, `β = 1`, no priors, no added losses) for the
whitened strategy with Gaussian likelihood, exactly as the model computes it: `objective` over the per-point
`gaussExpected` terms of `whitenedFwd`, with `KL = ½ (klRatWhitened − log det S_w)`. -/
noncomputable def modelElboN (Kzx : DMat M n ℝ) (Kxx : DMat n n ℝ) (mX y : DMat n 1 ℝ) (εx s : ℝ) (Li : DMat M M ℝ)
    (mw : DMat M 1 ℝ) (Sw : DMat M M ℝ) : ℝ :=
  (n : ℝ) * objective
    (List.ofFn fun i : Fin n =>
      gaussExpected (y.toMatrix i 0) ((whitenedFwd Kzx Kxx mX εx Li mw Sw).mean.toMatrix i 0)
        ((whitenedFwd Kzx Kxx mX εx Li mw Sw).cov.toMatrix i i) s (Real.log s) (Real.log (2 * Real.pi)))
    (n : ℝ) ((1 / 2) * (klRatWhitened mw Sw - Real.log Sw.toMatrix.det)) (n : ℝ) 1 [] []

/-- residual vector `r = y − mX` -/
def resid (y mX : DMat n 1 ℝ) : Fin n → ℝ := fun i => y.toMatrix i 0 - mX.toMatrix i 0

end ElboGlue

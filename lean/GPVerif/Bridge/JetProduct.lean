/-
Derivative ("jet") kernels.  Index `(i, none)` = value at `x_i`, `(i, some a)` = partial derivative `∂/∂x_a` at `x_i`.
`jetProd A B` is the value / gradient block matrix of the PRODUCT of two kernels given their block matrices (Leibniz rule in
each argument); it maps Gram matrices of features `(φ, ∂φ)`, `(ψ, ∂ψ)` to the Gram matrix of `(φψ, ∂φ ψ + φ ∂ψ)`, hence
preserves PSD.  The blocks of `s(x,y) = ⟨x,y⟩ + c` are a Gram matrix (features `(x, √c)`, `(e_a, 0)`), so by induction the
blocks of `s^p` — exactly what `PolynomialKernelGrad.forward` assembles — are PSD.
-/
import GPVerif.Bridge.PSD

open Matrix
open scoped MatrixOrder

set_option linter.unusedSectionVars false

namespace C07

variable {ι d : Type*} [Fintype ι] [Fintype d] [DecidableEq d]

/-- base point of a jet index `(i, α)`: the value component `(i, none)`. -/
def jb (u : ι × Option d) : ι × Option d := (u.1, none)

/-- `0` on value components, `1` on derivative components. -/
def je (u : ι × Option d) : ℝ := if u.2 = none then 0 else 1

/-- **jet product** of two "kernel with first derivatives" block matrices: the block matrix of the PRODUCT kernel
(Leibniz rule in each argument).  Index `(i, none)` = value at `x_i`, `(i, some a)` = partial derivative `∂/∂x_a` at `x_i`. -/
def jetProd (A B : Matrix (ι × Option d) (ι × Option d) ℝ) : Matrix (ι × Option d) (ι × Option d) ℝ :=
  of fun u v => A u v * B (jb u) (jb v) + je v * (A u (jb v) * B (jb u) v) + je u * (A (jb u) v * B u (jb v)) +
    je u * je v * (A (jb u) (jb v) * B u v)

private lemma sum_sum_mul {F G : Type*} [Fintype F] [Fintype G] (f g : F → ℝ) (f' g' : G → ℝ) :
    ∑ m, ∑ l, (f m * f' l) * (g m * g' l) = (∑ m, f m * g m) * (∑ l, f' l * g' l) := by
  rw [Finset.sum_mul_sum]
  exact Finset.sum_congr rfl fun m _ => Finset.sum_congr rfl fun l _ => by ring

/-- the jet product of two Gram matrices is the Gram matrix of the Leibniz-product features. -/
theorem jetProd_gram {F G : Type*} [Fintype F] [Fintype G] (C : Matrix F (ι × Option d) ℝ) (C' : Matrix G (ι × Option d) ℝ) :
    jetProd (Cᵀ * C) (C'ᵀ * C') =
      (of fun (ml : F × G) u => C ml.1 u * C' ml.2 (jb u) + je u * (C ml.1 (jb u) * C' ml.2 u))ᵀ *
      (of fun (ml : F × G) u => C ml.1 u * C' ml.2 (jb u) + je u * (C ml.1 (jb u) * C' ml.2 u)) := by
  ext u v
  simp only [jetProd, of_apply, mul_apply, transpose_apply, Fintype.sum_prod_type]
  have expand : ∀ m l, (C m u * C' l (jb u) + je u * (C m (jb u) * C' l u)) * (C m v * C' l (jb v) + je v * (C m (jb v) * C' l v)) =
      (C m u * C' l (jb u)) * (C m v * C' l (jb v)) + je v * ((C m u * C' l (jb u)) * (C m (jb v) * C' l v)) +
      je u * ((C m (jb u) * C' l u) * (C m v * C' l (jb v))) + je u * je v * ((C m (jb u) * C' l u) * (C m (jb v) * C' l v)) := by
    intro m l; ring
  simp_rw [expand, Finset.sum_add_distrib, ← Finset.mul_sum, sum_sum_mul]

/-- **the jet product preserves positive semidefiniteness.** -/
theorem jetProd_psd {A B : Matrix (ι × Option d) (ι × Option d) ℝ} (hA : A.PosSemidef) (hB : B.PosSemidef) :
    (jetProd A B).PosSemidef := by
  classical
  obtain ⟨C, rfl⟩ := CStarAlgebra.nonneg_iff_eq_star_mul_self.mp hA.nonneg
  obtain ⟨C', rfl⟩ := CStarAlgebra.nonneg_iff_eq_star_mul_self.mp hB.nonneg
  rw [star_eq_conjTranspose, star_eq_conjTranspose, conjTranspose_eq_transpose_of_trivial,
    conjTranspose_eq_transpose_of_trivial, jetProd_gram]
  have := posSemidef_conjTranspose_mul_self
    (of fun (ml : (ι × Option d) × (ι × Option d)) u => C ml.1 u * C' ml.2 (jb u) + je u * (C ml.1 (jb u) * C' ml.2 u))
  rwa [conjTranspose_eq_transpose_of_trivial] at this


/-- value / derivative blocks of the bilinear kernel `s(x, y) = ⟨x, y⟩ + c`:
`[s(x_i,x_j), ∂s/∂y_b = x_i b; ∂s/∂x_a = x_j a, ∂²s/∂x_a∂y_b = δ_ab]`. -/
def linGrad (X : Matrix ι d ℝ) (c : ℝ) : Matrix (ι × Option d) (ι × Option d) ℝ :=
  of fun u v => match u.2, v.2 with
    | none, none => (X * Xᵀ) u.1 v.1 + c
    | none, some b => X u.1 b
    | some a, none => X v.1 a
    | some a, some b => if a = b then 1 else 0

/-- value / derivative blocks of the polynomial kernel `(⟨x, y⟩ + c)^p` — the matrix `PolynomialKernelGrad` builds:
`[s^p, p s^{p−1} x_i b; p s^{p−1} x_j a, p(p−1) s^{p−2} x_j a x_i b + p s^{p−1} δ_ab]`. -/
def polyGrad (X : Matrix ι d ℝ) (c : ℝ) (p : ℕ) : Matrix (ι × Option d) (ι × Option d) ℝ :=
  of fun u v => match u.2, v.2 with
    | none, none => ((X * Xᵀ) u.1 v.1 + c) ^ p
    | none, some b => p * ((X * Xᵀ) u.1 v.1 + c) ^ (p - 1) * X u.1 b
    | some a, none => p * ((X * Xᵀ) u.1 v.1 + c) ^ (p - 1) * X v.1 a
    | some a, some b => p * (p - 1) * ((X * Xᵀ) u.1 v.1 + c) ^ (p - 2) * X v.1 a * X u.1 b +
        (if a = b then p * ((X * Xᵀ) u.1 v.1 + c) ^ (p - 1) else 0)

theorem linGrad_psd (X : Matrix ι d ℝ) {c : ℝ} (hc : 0 ≤ c) : (linGrad X c).PosSemidef := by
  classical
  -- features: (x_i, √c) for the value component, (e_a, 0) for the derivative components
  let Φ : Matrix (ι × Option d) (Option d) ℝ := of fun u k => match u.2, k with
    | none, none => Real.sqrt c
    | none, some k => X u.1 k
    | some _, none => 0
    | some a, some k => if a = k then 1 else 0
  have h := posSemidef_self_mul_conjTranspose Φ
  rw [conjTranspose_eq_transpose_of_trivial] at h
  convert h using 1
  ext ⟨i, α⟩ ⟨j, β⟩
  rcases α with _ | a <;> rcases β with _ | b <;>
    simp [linGrad, Φ, mul_apply, Fintype.sum_option, Real.mul_self_sqrt hc, add_comm]

theorem polyGrad_succ (X : Matrix ι d ℝ) (c : ℝ) (p : ℕ) :
    polyGrad X c (p + 1) = jetProd (polyGrad X c p) (linGrad X c) := by
  ext ⟨i, α⟩ ⟨j, β⟩
  rcases α with _ | a <;> rcases β with _ | b
  · simp [polyGrad, linGrad, jetProd, jb, je, pow_succ]
  · rcases p with _ | p
    · simp [polyGrad, linGrad, jetProd, jb, je]
    · simp [polyGrad, linGrad, jetProd, jb, je, pow_succ]; ring
  · rcases p with _ | p
    · simp [polyGrad, linGrad, jetProd, jb, je]
    · simp [polyGrad, linGrad, jetProd, jb, je, pow_succ]; ring
  · rcases p with _ | _ | p
    · simp [polyGrad, linGrad, jetProd, jb, je]
    · by_cases hab : a = b <;> simp [polyGrad, linGrad, jetProd, jb, je, hab] <;> ring
    · by_cases hab : a = b <;> simp [polyGrad, linGrad, jetProd, jb, je, hab, pow_succ] <;> ring

theorem polyGrad_zero_psd (X : Matrix ι d ℝ) (c : ℝ) : (polyGrad X c 0).PosSemidef := by
  classical
  have h := posSemidef_vecMulVec_self_star (fun u : ι × Option d => if u.2 = none then (1 : ℝ) else 0)
  convert h using 1
  ext ⟨i, α⟩ ⟨j, β⟩
  rcases α with _ | a <;> rcases β with _ | b <;> simp [polyGrad, vecMulVec_apply]

/-- **`PolynomialKernelGrad`**: the value / gradient block matrix of `(⟨x, y⟩ + c)^p`, `c ≥ 0`, is PSD for every finite point
set, every input dimension and every power. -/
theorem polyGrad_psd (X : Matrix ι d ℝ) {c : ℝ} (hc : 0 ≤ c) (p : ℕ) : (polyGrad X c p).PosSemidef := by
  induction p with
  | zero => exact polyGrad_zero_psd X c
  | succ p ih => rw [polyGrad_succ]; exact jetProd_psd ih (linGrad_psd X hc)

end C07

/-
Helper lemmas for C18 (module-tree persistence).  Core Lean only.

`entries` lists the persisted fields in plain sequence order; `stateDict` (torch's order: parameters, buffers,
children) is a permutation of it, so membership-type facts (no collisions, prefix-freeness) are proved on `entries`
and transported.
-/
import GPVerif.Model.Persist

namespace Persist
variable {N V : Type}

/-- persisted fields in plain entry order -/
def Tree.entries : Tree N V → Dict N V
  | .leaf => []
  | .field k n v r => if k.persisted then ([n], v) :: r.entries else r.entries
  | .cache _ _ _ r => r.entries
  | .child n s r => s.entries.map (pre n) ++ r.entries

theorem isParam_persisted {k : Kind} (h : k.isParam = true) : k.persisted = true := by
  cases k <;> simp_all [Kind.isParam, Kind.persisted]

theorem isPBuf_persisted {k : Kind} (h : k.isPBuf = true) : k.persisted = true := by
  cases k <;> simp_all [Kind.isPBuf, Kind.persisted]

theorem persisted_cases (k : Kind) :
    (k.persisted = true ∧ ((k.isParam = true ∧ k.isPBuf = false) ∨ (k.isParam = false ∧ k.isPBuf = true))) ∨
    (k.persisted = false ∧ k.isParam = false ∧ k.isPBuf = false) := by
  cases k with
  | param => simp [Kind.isParam, Kind.isPBuf, Kind.persisted]
  | buffer p => cases p <;> simp [Kind.isParam, Kind.isPBuf, Kind.persisted]
  | attr c => simp [Kind.isParam, Kind.isPBuf, Kind.persisted]

/-! ### `stateDict` is a permutation of `entries` -/

theorem stateDict_perm_entries (t : Tree N V) : t.stateDict.Perm t.entries := by
  induction t with
  | leaf => simp [Tree.stateDict, Tree.own, Tree.subs, Tree.entries]
  | field k n v r ih =>
    simp only [Tree.stateDict, Tree.own, Tree.subs, Tree.entries] at ih ⊢
    rcases persisted_cases k with ⟨hp, ⟨h1, h2⟩ | ⟨h1, h2⟩⟩ | ⟨hp, h1, h2⟩
    · simp only [hp, h1, h2, if_true, Bool.false_eq_true, if_false, List.cons_append]
      exact List.Perm.cons _ ih
    · simp only [hp, h1, h2, if_true, Bool.false_eq_true, if_false, List.append_assoc, List.cons_append]
      refine List.Perm.trans List.perm_middle (List.Perm.cons _ ?_)
      simpa [List.append_assoc] using ih
    · simpa only [hp, h1, h2, Bool.false_eq_true, if_false] using ih
  | cache tag n v r ih => simpa only [Tree.stateDict, Tree.own, Tree.subs, Tree.entries] using ih
  | child n s r ihs ihr =>
    simp only [Tree.stateDict, Tree.own, Tree.subs, Tree.entries] at ihs ihr ⊢
    have h1 : (r.own Kind.isParam ++ r.own Kind.isPBuf ++
        ((s.own Kind.isParam ++ s.own Kind.isPBuf ++ s.subs).map (pre n) ++ r.subs)).Perm
        ((s.own Kind.isParam ++ s.own Kind.isPBuf ++ s.subs).map (pre n) ++
          (r.own Kind.isParam ++ r.own Kind.isPBuf ++ r.subs)) := by
      rw [← List.append_assoc]
      refine List.Perm.trans (List.Perm.append_right _ List.perm_append_comm) ?_
      rw [List.append_assoc]
    exact h1.trans (List.Perm.append (ihs.map _) ihr)

theorem mem_stateDict_iff (t : Tree N V) (e : Key N × V) : e ∈ t.stateDict ↔ e ∈ t.entries :=
  (stateDict_perm_entries t).mem_iff

/-! ### facts about `entries` -/

theorem entries_head (t : Tree N V) : ∀ e ∈ t.entries, ∃ n rest, e.1 = n :: rest ∧ n ∈ t.names := by
  induction t with
  | leaf => intro e he; simp [Tree.entries] at he
  | field k n v r ih =>
    intro e he
    simp only [Tree.entries] at he
    split at he
    · rcases List.mem_cons.mp he with rfl | he
      · exact ⟨n, [], rfl, by simp [Tree.names]⟩
      · obtain ⟨m, rest, h1, h2⟩ := ih e he
        exact ⟨m, rest, h1, by simp [Tree.names, h2]⟩
    · obtain ⟨m, rest, h1, h2⟩ := ih e he
      exact ⟨m, rest, h1, by simp [Tree.names, h2]⟩
  | cache tag n v r ih =>
    intro e he
    obtain ⟨m, rest, h1, h2⟩ := ih e (by simpa [Tree.entries] using he)
    exact ⟨m, rest, h1, by simp [Tree.names, h2]⟩
  | child n s r _ ihr =>
    intro e he
    simp only [Tree.entries, List.mem_append, List.mem_map] at he
    rcases he with ⟨a, _, rfl⟩ | he
    · exact ⟨n, a.1, rfl, by simp [Tree.names]⟩
    · obtain ⟨m, rest, h1, h2⟩ := ihr e he
      exact ⟨m, rest, h1, by simp [Tree.names, h2]⟩

theorem pre_key_inj (n : N) : ∀ a b : Key N × V, (pre n a).1 = (pre n b).1 → a.1 = b.1 := by
  intro a b h
  simpa [pre] using h

theorem entries_keys_nodup [DecidableEq N] (t : Tree N V) (h : t.wf = true) :
    (t.entries.map (·.1)).Nodup := by
  induction t with
  | leaf => simp [Tree.entries]
  | field k n v r ih =>
    simp only [Tree.wf, Bool.and_eq_true, Bool.not_eq_true', List.contains_eq_mem, decide_eq_false_iff_not] at h
    simp only [Tree.entries]
    split
    · simp only [List.map_cons, List.nodup_cons]
      refine ⟨?_, ih h.2⟩
      intro hm
      obtain ⟨e, he, hk⟩ := List.mem_map.mp hm
      obtain ⟨m, rest, h1, h2⟩ := entries_head r e he
      rw [h1] at hk
      have : m = n := by simpa using congrArg List.head? hk
      exact h.1 (this ▸ h2)
    · exact ih h.2
  | cache tag n v r ih =>
    simp only [Tree.wf, Bool.and_eq_true] at h
    simpa [Tree.entries] using ih h.2
  | child n s r ihs ihr =>
    simp only [Tree.wf, Bool.and_eq_true, Bool.not_eq_true', List.contains_eq_mem, decide_eq_false_iff_not] at h
    obtain ⟨⟨hn, hs⟩, hr⟩ := h
    simp only [Tree.entries, List.map_append, List.map_map]
    refine List.nodup_append.mpr ⟨?_, ihr hr, ?_⟩
    · have : ((fun x : Key N × V => x.1) ∘ pre n) = (fun k => n :: k) ∘ (fun x : Key N × V => x.1) := by
        funext x; rfl
      rw [this, ← List.map_map]
      exact List.Pairwise.map (fun k => n :: k) (fun a b hab h => hab (by simpa using h)) (ihs hs)
    · intro a ha b hb hab
      obtain ⟨x, _, rfl⟩ := List.mem_map.mp ha
      obtain ⟨e, he, rfl⟩ := List.mem_map.mp hb
      obtain ⟨m, rest, h1, h2⟩ := entries_head r e he
      simp only [Function.comp, pre] at hab
      rw [h1] at hab
      have : n = m := by simpa using congrArg List.head? hab
      exact hn (this ▸ h2)

theorem entries_prefix_free [DecidableEq N] (t : Tree N V) (h : t.wf = true) :
    ∀ e ∈ t.entries, ∀ e' ∈ t.entries, e.1 <+: e'.1 → e.1 = e'.1 := by
  induction t with
  | leaf => intro e he; simp [Tree.entries] at he
  | field k n v r ih =>
    simp only [Tree.wf, Bool.and_eq_true, Bool.not_eq_true', List.contains_eq_mem, decide_eq_false_iff_not] at h
    intro e he e' he' hp
    simp only [Tree.entries] at he he'
    split at he
    · rename_i hk
      simp only [hk, if_true] at he'
      rcases List.mem_cons.mp he with rfl | he <;> rcases List.mem_cons.mp he' with rfl | he'
      · rfl
      · obtain ⟨m, rest, h1, h2⟩ := entries_head r e' he'
        rw [h1] at hp
        have : n = m := by
          obtain ⟨t, ht⟩ := hp
          simpa using congrArg List.head? ht
        exact absurd (this ▸ h2) h.1
      · obtain ⟨m, rest, h1, h2⟩ := entries_head r e he
        rw [h1] at hp
        have : m = n := by
          obtain ⟨t, ht⟩ := hp
          simpa using congrArg List.head? ht
        exact absurd (this ▸ h2) h.1
      · exact ih h.2 e he e' he' hp
    · rename_i hk
      simp only [hk] at he'
      exact ih h.2 e he e' he' hp
  | cache tag n v r ih =>
    simp only [Tree.wf, Bool.and_eq_true] at h
    intro e he e' he'
    exact ih h.2 e (by simpa [Tree.entries] using he) e' (by simpa [Tree.entries] using he')
  | child n s r ihs ihr =>
    simp only [Tree.wf, Bool.and_eq_true, Bool.not_eq_true', List.contains_eq_mem, decide_eq_false_iff_not] at h
    obtain ⟨⟨hn, hs⟩, hr⟩ := h
    intro e he e' he' hp
    simp only [Tree.entries, List.mem_append, List.mem_map] at he he'
    rcases he with ⟨a, ha, rfl⟩ | he <;> rcases he' with ⟨a', ha', rfl⟩ | he'
    · simp only [pre, List.cons_prefix_cons, true_and] at hp ⊢
      rw [ihs hs a ha a' ha' hp]
    · obtain ⟨m, rest, h1, h2⟩ := entries_head r e' he'
      rw [h1] at hp
      simp only [pre, List.cons_prefix_cons] at hp
      exact absurd (hp.1 ▸ h2) hn
    · obtain ⟨m, rest, h1, h2⟩ := entries_head r e he
      rw [h1] at hp
      simp only [pre, List.cons_prefix_cons] at hp
      exact absurd (hp.1 ▸ h2) hn
    · exact ihr hr e he e' he' hp

/-! ### lookup -/

theorem lookup_of_mem [DecidableEq N] : ∀ (l : Dict N V), (l.map (·.1)).Nodup → ∀ k v, (k, v) ∈ l →
    lookup k l = some v := by
  intro l
  induction l with
  | nil => intro _ k v h; simp at h
  | cons a l ih =>
    intro hnd k v hm
    obtain ⟨k', v'⟩ := a
    simp only [List.map_cons, List.nodup_cons] at hnd
    simp only [lookup]
    rcases List.mem_cons.mp hm with heq | hm
    · simp only [Prod.mk.injEq] at heq
      simp [heq.1, heq.2]
    · have hne : k' ≠ k := by
        intro h
        exact hnd.1 (List.mem_map.mpr ⟨(k, v), hm, h.symm⟩)
      simp only [hne, if_false]
      exact ih hnd.2 k v hm

/-! ### architecture -/

theorem names_arch (t : Tree N V) : t.arch.names = t.names := by
  induction t <;> simp_all [Tree.arch, Tree.names]

theorem wf_arch [DecidableEq N] (t : Tree N V) : t.arch.wf = t.wf := by
  induction t <;> simp_all [Tree.arch, Tree.wf, names_arch]

theorem wf_of_arch_eq [DecidableEq N] {V' : Type} (t : Tree N V) (u : Tree N V') (h : u.arch = t.arch) :
    u.wf = t.wf := by
  rw [← wf_arch u, ← wf_arch t, h]

/-! ### `load` restricted to one kind selector -/

theorem load_own [DecidableEq N] (cc : Bool) (p : Kind → Bool) (hp : ∀ k, p k = true → k.persisted = true)
    (d : Dict N V) (pfx : Key N) (T : Tree N V) :
    ∀ U : Tree N V, U.arch = T.arch → (∀ k v, (k, v) ∈ T.own p → lookup (pfx ++ k) d = some v) →
      (U.load cc d pfx).own p = T.own p := by
  induction T with
  | leaf => intro U h _; cases U <;> simp_all [Tree.arch, Tree.load, Tree.own]
  | field k n v r ih =>
    intro U h H
    cases U with
    | field k' n' v' r' =>
      simp only [Tree.arch, Tree.field.injEq] at h
      obtain ⟨rfl, rfl, _, hr⟩ := h
      simp only [Tree.load, Tree.own] at H ⊢
      by_cases hk : p k' = true
      · have hpers := hp _ hk
        simp only [hk, if_true, List.mem_cons] at H ⊢
        have h1 := H [n'] v (Or.inl rfl)
        rw [ih r' hr (fun k v hm => H k v (Or.inr hm))]
        simp [hpers, h1]
      · simp only [hk] at H ⊢
        exact ih r' hr H
    | _ => simp [Tree.arch] at h
  | cache tag n v r ih =>
    intro U h H
    cases U with
    | cache t' n' v' r' =>
      simp only [Tree.arch, Tree.cache.injEq] at h
      simp only [Tree.load, Tree.own] at H ⊢
      exact ih r' h.2.2.2 H
    | _ => simp [Tree.arch] at h
  | child n s r _ ihr =>
    intro U h H
    cases U with
    | child n' s' r' =>
      simp only [Tree.arch, Tree.child.injEq] at h
      simp only [Tree.load, Tree.own] at H ⊢
      exact ihr r' h.2.2 H
    | _ => simp [Tree.arch] at h

theorem load_subs [DecidableEq N] (cc : Bool) (d : Dict N V) (T : Tree N V) :
    ∀ (U : Tree N V) (pfx : Key N), U.arch = T.arch →
      (∀ k v, (k, v) ∈ T.subs → lookup (pfx ++ k) d = some v) →
      (U.load cc d pfx).subs = T.subs := by
  induction T with
  | leaf => intro U pfx h _; cases U <;> simp_all [Tree.arch, Tree.load, Tree.subs]
  | field k n v r ih =>
    intro U pfx h H
    cases U with
    | field k' n' v' r' =>
      simp only [Tree.arch, Tree.field.injEq] at h
      simp only [Tree.load, Tree.subs] at H ⊢
      exact ih r' pfx h.2.2.2 H
    | _ => simp [Tree.arch] at h
  | cache tag n v r ih =>
    intro U pfx h H
    cases U with
    | cache t' n' v' r' =>
      simp only [Tree.arch, Tree.cache.injEq] at h
      simp only [Tree.load, Tree.subs] at H ⊢
      exact ih r' pfx h.2.2.2 H
    | _ => simp [Tree.arch] at h
  | child n s r ihs ihr =>
    intro U pfx h H
    cases U with
    | child n' s' r' =>
      simp only [Tree.arch, Tree.child.injEq] at h
      obtain ⟨rfl, hs, hr⟩ := h
      simp only [Tree.load, Tree.subs, List.mem_append, List.mem_map] at H ⊢
      have Hs : ∀ k v, (k, v) ∈ s.own Kind.isParam ++ s.own Kind.isPBuf ++ s.subs →
          lookup ((pfx ++ [n']) ++ k) d = some v := by
        intro k v hm
        have := H (n' :: k) v (Or.inl ⟨(k, v), by simpa [List.mem_append, or_assoc] using hm, rfl⟩)
        simpa [List.append_assoc] using this
      rw [ihr r' pfx hr (fun k v hm => H k v (Or.inr hm))]
      rw [load_own cc Kind.isParam (fun _ => isParam_persisted) d _ s s' hs
            (fun k v hm => Hs k v (by simp [hm])),
          load_own cc Kind.isPBuf (fun _ => isPBuf_persisted) d _ s s' hs
            (fun k v hm => Hs k v (by simp [hm])),
          ihs s' _ hs (fun k v hm => Hs k v (by simp [hm]))]
    | _ => simp [Tree.arch] at h

theorem load_congr [DecidableEq N] (cc : Bool) (d d' : Dict N V) (h : ∀ k, lookup k d = lookup k d') (t : Tree N V) :
    ∀ pfx, t.load cc d pfx = t.load cc d' pfx := by
  induction t with
  | leaf => intro; rfl
  | field k n v r ih => intro pfx; simp [Tree.load, h, ih]
  | cache tag n v r ih => intro pfx; simp [Tree.load, ih]
  | child n s r ihs ihr => intro pfx; simp [Tree.load, ihs, ihr]

/-! ### what `load` and `copy` leave alone -/

theorem load_arch [DecidableEq N] (cc : Bool) (d : Dict N V) (t : Tree N V) :
    ∀ pfx, (t.load cc d pfx).arch = t.arch := by
  induction t with
  | leaf => intro; rfl
  | field k n v r ih => intro pfx; simp [Tree.load, Tree.arch, ih]
  | cache tag n v r ih => intro pfx; simp [Tree.load, Tree.arch, ih]
  | child n s r ihs ihr => intro pfx; simp [Tree.load, Tree.arch, ihs, ihr]

theorem load_attrs [DecidableEq N] (cc : Bool) (d : Dict N V) (p : Kind → Bool) (t : Tree N V) :
    ∀ pfx, (t.load cc d pfx).attrs p = t.attrs p := by
  induction t with
  | leaf => intro; rfl
  | field k n v r ih =>
    intro pfx
    simp only [Tree.load, Tree.attrs, ih]
    cases hk : k.persisted <;> simp
  | cache tag n v r ih => intro pfx; simp [Tree.load, Tree.attrs, ih]
  | child n s r ihs ihr => intro pfx; simp [Tree.load, Tree.attrs, ihs, ihr]

theorem copy_arch (m : Mech) (t : Tree N V) : (t.copy m).arch = t.arch := by
  induction t <;> simp_all [Tree.copy, Tree.arch]

theorem copy_own (m : Mech) (p : Kind → Bool) (t : Tree N V) : (t.copy m).own p = t.own p := by
  induction t <;> simp_all [Tree.copy, Tree.own]

theorem copy_subs (m : Mech) (t : Tree N V) : (t.copy m).subs = t.subs := by
  induction t <;> simp_all [Tree.copy, Tree.subs, copy_own]

theorem copy_attrs (m : Mech) (p : Kind → Bool) (t : Tree N V) : (t.copy m).attrs p = t.attrs p := by
  induction t <;> simp_all [Tree.copy, Tree.attrs]

theorem clearCaches_arch (t : Tree N V) : t.clearCaches.arch = t.arch := by
  induction t <;> simp_all [Tree.clearCaches, Tree.arch]

theorem clearCaches_own (p : Kind → Bool) (t : Tree N V) : t.clearCaches.own p = t.own p := by
  induction t <;> simp_all [Tree.clearCaches, Tree.own]

theorem clearCaches_subs (t : Tree N V) : t.clearCaches.subs = t.subs := by
  induction t <;> simp_all [Tree.clearCaches, Tree.subs, clearCaches_own]

theorem clearCaches_attrs (p : Kind → Bool) (t : Tree N V) : t.clearCaches.attrs p = t.attrs p := by
  induction t <;> simp_all [Tree.clearCaches, Tree.attrs]

theorem clearCaches_live (t : Tree N V) : t.clearCaches.liveCaches = [] := by
  induction t <;> simp_all [Tree.clearCaches, Tree.liveCaches]

/-- keys of the own fields depend on the architecture only -/
theorem own_keys_arch {V' : Type} (p : Kind → Bool) (T : Tree N V) :
    ∀ U : Tree N V', U.arch = T.arch → (U.own p).map (·.1) = (T.own p).map (·.1) := by
  induction T with
  | leaf => intro U h; cases U <;> simp_all [Tree.arch, Tree.own]
  | field k n v r ih =>
    intro U h
    cases U with
    | field k' n' v' r' =>
      simp only [Tree.arch, Tree.field.injEq] at h
      obtain ⟨rfl, rfl, _, hr⟩ := h
      simp only [Tree.own]
      split <;> simp [ih r' hr]
    | _ => simp [Tree.arch] at h
  | cache tag n v r ih =>
    intro U h
    cases U with
    | cache t' n' v' r' =>
      simp only [Tree.arch, Tree.cache.injEq] at h
      simpa [Tree.own] using ih r' h.2.2.2
    | _ => simp [Tree.arch] at h
  | child n s r _ ihr =>
    intro U h
    cases U with
    | child n' s' r' =>
      simp only [Tree.arch, Tree.child.injEq] at h
      simpa [Tree.own] using ihr r' h.2.2
    | _ => simp [Tree.arch] at h

theorem subs_keys_arch {V' : Type} (T : Tree N V) :
    ∀ U : Tree N V', U.arch = T.arch → U.subs.map (·.1) = T.subs.map (·.1) := by
  induction T with
  | leaf => intro U h; cases U <;> simp_all [Tree.arch, Tree.subs]
  | field k n v r ih =>
    intro U h
    cases U with
    | field k' n' v' r' =>
      simp only [Tree.arch, Tree.field.injEq] at h
      simpa [Tree.subs] using ih r' h.2.2.2
    | _ => simp [Tree.arch] at h
  | cache tag n v r ih =>
    intro U h
    cases U with
    | cache t' n' v' r' =>
      simp only [Tree.arch, Tree.cache.injEq] at h
      simpa [Tree.subs] using ih r' h.2.2.2
    | _ => simp [Tree.arch] at h
  | child n s r ihs ihr =>
    intro U h
    cases U with
    | child n' s' r' =>
      simp only [Tree.arch, Tree.child.injEq] at h
      obtain ⟨rfl, hs, hr⟩ := h
      have e1 := own_keys_arch Kind.isParam s s' hs
      have e2 := own_keys_arch Kind.isPBuf s s' hs
      have e3 := ihs s' hs
      have e4 := ihr r' hr
      have hmap : ∀ {W : Type} (l : Dict N W), (l.map (pre n')).map (·.1) = (l.map (·.1)).map (fun k => n' :: k) := by
        intro W l; simp [List.map_map, Function.comp_def, pre]
      simp only [Tree.subs, List.map_append, hmap, e1, e2, e3, e4]
    | _ => simp [Tree.arch] at h

/-! generic monotonicity lemmas for the read classification (lists as sets, Bool-valued tests) -/

theorem contains_flatMap_mono {α : Type} [BEq α] [LawfulBEq α] {m m' : List Nat} (F : Nat → List α) (a : α)
    (hsub : ∀ i ∈ m, i ∈ m') (h : (m.flatMap F).contains a = true) : (m'.flatMap F).contains a = true := by
  simp only [List.contains_iff_mem, List.mem_flatMap] at h ⊢
  obtain ⟨i, hi, ha⟩ := h
  exact ⟨i, hsub i hi, ha⟩

theorem any_filterMap_mono {β : Type} {m m' : List Nat} (R : Nat → Option β) (p : β → Bool)
    (hsub : ∀ i ∈ m, i ∈ m') (h : (m.filterMap R).any p = true) : (m'.filterMap R).any p = true := by
  simp only [List.any_eq_true, List.mem_filterMap] at h ⊢
  obtain ⟨r, ⟨i, hi, hr⟩, hp⟩ := h
  exact ⟨r, ⟨i, hsub i hi, hr⟩, hp⟩

theorem contains_flatMap_filterMap_mono {α β : Type} [BEq α] [LawfulBEq α] {m m' : List Nat} (R : Nat → Option β)
    (F : β → List α) (a : α) (hsub : ∀ i ∈ m, i ∈ m')
    (h : ((m.filterMap R).flatMap F).contains a = true) : ((m'.filterMap R).flatMap F).contains a = true := by
  simp only [List.contains_iff_mem, List.mem_flatMap, List.mem_filterMap] at h ⊢
  obtain ⟨r, ⟨i, hi, hr⟩, ha⟩ := h
  exact ⟨r, ⟨i, hsub i hi, hr⟩, ha⟩

theorem any_contains_mono {γ : Type} {m m' : List Nat} (L : List γ) (f : γ → Nat) (g : γ → Bool)
    (hsub : ∀ i ∈ m, i ∈ m') (h : (L.any fun e => m.contains (f e) && g e) = true) :
    (L.any fun e => m'.contains (f e) && g e) = true := by
  simp only [List.any_eq_true, Bool.and_eq_true, List.contains_iff_mem] at h ⊢
  obtain ⟨e, he, hm, hg⟩ := h
  exact ⟨e, he, hsub _ hm, hg⟩

end Persist

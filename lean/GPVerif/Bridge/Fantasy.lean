/-
Block-matrix lemmas behind C04 (fantasy update = conditioning from scratch), stated over arbitrary finite
index types and an arbitrary commutative ring / field.  `Props/C04.lean` instantiates them at the executable
`DMat` model of `Model/Fantasy.lean`.

Notation (as in `DefaultPredictionStrategy.get_fantasy_strategy`):
  `A`  train×train covariance + noise            `U`  fantasy×train cross covariance
  `S`  fantasy×fantasy covariance + fantasy noise `J = [[A, Uᵀ],[U, S]]`
  `Kinv` what the strategy uses as `A⁻¹` (= `R Rᵀ` of the cached inverse root)
  `Q = Kinv Uᵀ`, `Σ = S − U Q`, `Σinv = Σ⁻¹`, `b = Σinv (r_f − U α)`, `a = α − Q b`.
-/
import Mathlib.LinearAlgebra.Matrix.NonsingularInverse
import Mathlib.Data.Matrix.Block
import Mathlib.Data.Matrix.ColumnRowPartitioned
import Mathlib.Tactic.Abel
import Mathlib.LinearAlgebra.Matrix.SchurComplement

open Matrix

set_option linter.unusedSectionVars false
set_option linter.unusedSimpArgs false

namespace FantasyBridge

variable {ι κ τ ω ρ σ α : Type*}
variable [Fintype ι] [Fintype κ] [Fintype τ] [Fintype ω] [Fintype ρ] [Fintype σ]
variable [DecidableEq ι] [DecidableEq κ] [DecidableEq τ] [DecidableEq ρ] [DecidableEq σ]
variable [CommRing α]

/-- The bordered solve.  No symmetry is needed: only `A·Kinv = 1`, `Σ·Σinv = 1` and `A·α = r`. -/
theorem bordered_solve
    (A Kinv : Matrix ι ι α) (U : Matrix κ ι α) (S Sinv : Matrix κ κ α)
    (al r : Matrix ι ω α) (rf : Matrix κ ω α)
    (hA : A * Kinv = 1) (hS : (S - U * (Kinv * Uᵀ)) * Sinv = 1) (hal : A * al = r) :
    fromBlocks A Uᵀ U S *
        fromRows (al - (Kinv * Uᵀ) * (Sinv * (rf - U * al))) (Sinv * (rf - U * al)) =
      fromRows r rf := by
  rw [fromBlocks_mul_fromRows]
  congr 1
  · -- A (α − Q b) + Uᵀ b = r
    have h1 : A * ((Kinv * Uᵀ) * (Sinv * (rf - U * al))) = Uᵀ * (Sinv * (rf - U * al)) := by
      rw [← Matrix.mul_assoc, ← Matrix.mul_assoc A, hA, Matrix.one_mul]
    rw [Matrix.mul_sub, h1, hal]; abel
  · -- U (α − Q b) + S b = r_f
    have h2 : U * (al - (Kinv * Uᵀ) * (Sinv * (rf - U * al))) + S * (Sinv * (rf - U * al)) =
        U * al + ((S - U * (Kinv * Uᵀ)) * Sinv) * (rf - U * al) := by
      simp only [Matrix.mul_sub, Matrix.sub_mul, Matrix.mul_assoc]; abel
    rw [h2, hS, Matrix.one_mul]; abel

/-- Block form of the inverse of the bordered matrix, as carried by the updated inverse root
(`R' R'ᵀ`).  Written with `Qᵀ`, which is what the code has because its `Kinv = R Rᵀ` is symmetric. -/
def invBlock (Kinv : Matrix ι ι α) (Q : Matrix ι κ α) (Sinv : Matrix κ κ α) : Matrix (ι ⊕ κ) (ι ⊕ κ) α :=
  fromBlocks (Kinv + Q * Sinv * Qᵀ) (-(Q * Sinv)) (-(Sinv * Qᵀ)) Sinv

theorem bordered_mul_invBlock
    (A Kinv : Matrix ι ι α) (U : Matrix κ ι α) (S Sinv : Matrix κ κ α)
    (hA : A * Kinv = 1) (hK : Kinvᵀ = Kinv) (hS : (S - U * (Kinv * Uᵀ)) * Sinv = 1) :
    fromBlocks A Uᵀ U S * invBlock Kinv (Kinv * Uᵀ) Sinv = 1 := by
  have hQt : (Kinv * Uᵀ)ᵀ = U * Kinv := by rw [transpose_mul, transpose_transpose, hK]
  have hAQ : A * (Kinv * Uᵀ) = Uᵀ := by rw [← Matrix.mul_assoc, hA, Matrix.one_mul]
  have hS' : S * Sinv = 1 + U * (Kinv * Uᵀ) * Sinv := by
    have := hS; rw [Matrix.sub_mul] at this
    rw [← this]; abel
  unfold invBlock
  rw [fromBlocks_multiply, hQt, ← fromBlocks_one]
  congr 1
  · -- A (Kinv + Q Σinv U Kinv) − Uᵀ Σinv U Kinv = 1
    rw [Matrix.mul_add, hA, Matrix.mul_assoc (Kinv * Uᵀ), ← Matrix.mul_assoc A, hAQ]
    simp [Matrix.mul_assoc]
  · rw [Matrix.mul_neg, ← Matrix.mul_assoc, hAQ]; simp
  · -- U Kinv + U Q Σinv U Kinv − S Σinv U Kinv = 0
    rw [Matrix.mul_neg, ← Matrix.mul_assoc S, hS']
    simp only [Matrix.mul_add, Matrix.add_mul, Matrix.one_mul, Matrix.mul_assoc]
    abel
  · rw [Matrix.mul_neg, ← Matrix.mul_assoc, ← Matrix.mul_assoc, hS']
    simp only [Matrix.mul_assoc]; abel

theorem bordered_inv
    (A Kinv : Matrix ι ι α) (U : Matrix κ ι α) (S Sinv : Matrix κ κ α)
    (hA : A * Kinv = 1) (hK : Kinvᵀ = Kinv) (hS : (S - U * (Kinv * Uᵀ)) * Sinv = 1) :
    (fromBlocks A Uᵀ U S)⁻¹ = invBlock Kinv (Kinv * Uᵀ) Sinv :=
  Matrix.inv_eq_right_inv (bordered_mul_invBlock A Kinv U S Sinv hA hK hS)

theorem bordered_isUnit_det
    (A Kinv : Matrix ι ι α) (U : Matrix κ ι α) (S Sinv : Matrix κ κ α)
    (hA : A * Kinv = 1) (hK : Kinvᵀ = Kinv) (hS : (S - U * (Kinv * Uᵀ)) * Sinv = 1) :
    IsUnit (fromBlocks A Uᵀ U S).det :=
  Matrix.isUnit_det_of_right_inverse (bordered_mul_invBlock A Kinv U S Sinv hA hK hS)

/-- The updated solve is *the* solution `J⁻¹ [r; r_f]`. -/
theorem bordered_solve_eq_inv_mul
    (A Kinv : Matrix ι ι α) (U : Matrix κ ι α) (S Sinv : Matrix κ κ α)
    (al r : Matrix ι ω α) (rf : Matrix κ ω α)
    (hA : A * Kinv = 1) (hK : Kinvᵀ = Kinv) (hS : (S - U * (Kinv * Uᵀ)) * Sinv = 1) (hal : A * al = r) :
    fromRows (al - (Kinv * Uᵀ) * (Sinv * (rf - U * al))) (Sinv * (rf - U * al)) =
      (fromBlocks A Uᵀ U S)⁻¹ * fromRows r rf := by
  have hu := bordered_isUnit_det A Kinv U S Sinv hA hK hS
  have h := bordered_solve A Kinv U S Sinv al r rf hA hS hal
  calc _ = ((fromBlocks A Uᵀ U S)⁻¹ * fromBlocks A Uᵀ U S) *
        fromRows (al - (Kinv * Uᵀ) * (Sinv * (rf - U * al))) (Sinv * (rf - U * al)) := by
        rw [Matrix.nonsing_inv_mul _ hu, Matrix.one_mul]
    _ = _ := by rw [Matrix.mul_assoc, h]

/-! ### Root and inverse-root update (`LinearOperator.cat_rows`) -/

/-- `Z = [[L, 0],[U R, G]]`. -/
def rootBlock (L R : Matrix ι ρ α) (U : Matrix κ ι α) (G : Matrix κ σ α) : Matrix (ι ⊕ κ) (ρ ⊕ σ) α :=
  fromBlocks L 0 (U * R) G

/-- `R' = [[R, −R (U R)ᵀ Ginvᵀ],[0, Ginvᵀ]]` (= `Z⁻ᵀ` when `R = L⁻ᵀ`). -/
def invRootBlock (R : Matrix ι ρ α) (U : Matrix κ ι α) (Ginv : Matrix σ κ α) : Matrix (ι ⊕ κ) (ρ ⊕ σ) α :=
  fromBlocks R (-(R * (U * R)ᵀ * Ginvᵀ)) 0 Ginvᵀ

/-- `cat_rows` produces a root of the bordered matrix **provided the two cached roots are consistent**
(`L Rᵀ = 1`, i.e. `R = L⁻ᵀ`; true for the Cholesky pair and for a full-rank Lanczos pair) and `G` is a root
of the Schur complement. -/
theorem rootBlock_is_root
    (A : Matrix ι ι α) (L R : Matrix ι ρ α) (U : Matrix κ ι α) (S : Matrix κ κ α) (G : Matrix κ σ α)
    (hL : L * Lᵀ = A) (hLR : L * Rᵀ = 1) (hG : G * Gᵀ = S - (U * R) * (U * R)ᵀ) :
    rootBlock L R U G * (rootBlock L R U G)ᵀ = fromBlocks A Uᵀ U S := by
  have h1 : L * (U * R)ᵀ = Uᵀ := by rw [transpose_mul, ← Matrix.mul_assoc, hLR, Matrix.one_mul]
  have h2 : (U * R) * Lᵀ = U := by
    have : R * Lᵀ = 1 := by
      have := congrArg transpose hLR; rwa [transpose_mul, transpose_transpose, transpose_one] at this
    rw [Matrix.mul_assoc, this, Matrix.mul_one]
  unfold rootBlock
  rw [fromBlocks_transpose, fromBlocks_multiply]
  simp only [transpose_zero, Matrix.zero_mul, Matrix.mul_zero, add_zero, hL, h1, h2, hG]
  congr 1; abel

/-- The updated inverse root is a root of the block inverse (needs only `R Rᵀ = Kinv`). -/
theorem invRootBlock_gram
    (Kinv : Matrix ι ι α) (R : Matrix ι ρ α) (U : Matrix κ ι α) (Sinv : Matrix κ κ α) (Ginv : Matrix σ κ α)
    (hR : R * Rᵀ = Kinv) (hGi : Ginvᵀ * Ginv = Sinv) :
    invRootBlock R U Ginv * (invRootBlock R U Ginv)ᵀ = invBlock Kinv (Kinv * Uᵀ) Sinv := by
  have hQ : R * (U * R)ᵀ = Kinv * Uᵀ := by rw [transpose_mul, ← Matrix.mul_assoc, hR]
  have hQt : (U * R) * Rᵀ = (Kinv * Uᵀ)ᵀ := by
    rw [← hQ, transpose_mul, transpose_transpose]
  unfold invRootBlock invBlock
  rw [fromBlocks_transpose, fromBlocks_multiply, hQ]
  simp only [transpose_zero, Matrix.zero_mul, Matrix.mul_zero, add_zero, zero_add, transpose_neg,
    transpose_mul, transpose_transpose, Matrix.neg_mul, Matrix.mul_neg, neg_neg, hR]
  subst hGi
  simp only [Matrix.mul_assoc]

theorem invRootBlock_is_inv_root
    (A Kinv : Matrix ι ι α) (R : Matrix ι ρ α) (U : Matrix κ ι α) (S Sinv : Matrix κ κ α)
    (Ginv : Matrix σ κ α)
    (hA : A * Kinv = 1) (hR : R * Rᵀ = Kinv)
    (hS : (S - U * (Kinv * Uᵀ)) * Sinv = 1) (hGi : Ginvᵀ * Ginv = Sinv) :
    invRootBlock R U Ginv * (invRootBlock R U Ginv)ᵀ = (fromBlocks A Uᵀ U S)⁻¹ := by
  have hK : Kinvᵀ = Kinv := by rw [← hR, transpose_mul, transpose_transpose]
  rw [invRootBlock_gram Kinv R U Sinv Ginv hR hGi, bordered_inv A Kinv U S Sinv hA hK hS]

/-- What the code literally computes is `Z⁻ᵀ`; with consistent roots that is `invRootBlock`. -/
theorem invRootBlock_transpose_mul_rootBlock
    (L R : Matrix ι ρ α) (U : Matrix κ ι α) (G : Matrix κ σ α) (Ginv : Matrix σ κ α)
    (hRL : Rᵀ * L = 1) (hG : Ginv * G = 1) :
    (invRootBlock R U Ginv)ᵀ * rootBlock L R U G = 1 := by
  unfold invRootBlock rootBlock
  rw [fromBlocks_transpose, fromBlocks_multiply, ← fromBlocks_one]
  simp only [transpose_zero, Matrix.zero_mul, Matrix.mul_zero, add_zero, zero_add, transpose_neg,
    transpose_mul, transpose_transpose, Matrix.neg_mul, hRL, hG]
  congr 1
  -- −Ginv (U R) Rᵀ L + Ginv (U R) = 0
  have h : Ginv * (U * R * Rᵀ) * L = Ginv * (U * R) := by
    simp only [Matrix.mul_assoc, hRL, Matrix.mul_one]
  rw [h]; abel

/-! ### Predictions from the updated caches -/

theorem predCovarRoot_eq (Ktt : Matrix τ τ α) (Kt : Matrix τ ι α) (R : Matrix ι ρ α) (Kinv : Matrix ι ι α)
    (hR : R * Rᵀ = Kinv) :
    Ktt - (Kt * R) * (Kt * R)ᵀ = Ktt - Kt * (Kinv * Ktᵀ) := by
  rw [transpose_mul, ← hR]; simp only [Matrix.mul_assoc]

/-! ### WISKI: the Woodbury-form mean cache is the dense conditional of the interpolated kernel -/

section wiski
variable {μ ν ω α : Type*} [Fintype μ] [Fintype ν] [Fintype ω] [DecidableEq μ] [DecidableEq ν] [Field α]

theorem wiski_isUnit (K : Matrix μ μ α) (W : Matrix μ ν α) (D Dinv : Matrix ν ν α)
    (hD : D * Dinv = 1) (hA : IsUnit (Wᵀ * K * W + D).det) :
    IsUnit (1 + K * (W * Dinv * Wᵀ)).det := by
  have h1 : (1 + K * (W * Dinv * Wᵀ)).det = (1 + Wᵀ * (K * (W * Dinv))).det := by
    have : K * (W * Dinv * Wᵀ) = (K * (W * Dinv)) * Wᵀ := by simp only [Matrix.mul_assoc]
    rw [this, det_one_add_mul_comm]
  have h2 : (1 : Matrix ν ν α) + Wᵀ * (K * (W * Dinv)) = (Wᵀ * K * W + D) * Dinv := by
    rw [Matrix.add_mul, hD]; simp only [Matrix.mul_assoc]; abel
  rw [h1, h2, det_mul]
  have hDi : IsUnit Dinv.det := Matrix.isUnit_det_of_left_inverse hD
  exact hA.mul hDi

theorem wiski_mean_eq_conditional (K : Matrix μ μ α) (W : Matrix μ ν α) (D Dinv : Matrix ν ν α)
    (r : Matrix ν ω α) (mc : Matrix μ ω α)
    (hD : D * Dinv = 1) (hA : IsUnit (Wᵀ * K * W + D).det)
    (hmc : (1 + K * (W * Dinv * Wᵀ)) * mc = K * (W * (Dinv * r))) :
    mc = K * W * ((Wᵀ * K * W + D)⁻¹ * r) := by
  have hu := wiski_isUnit K W D Dinv hD hA
  have hDi : Dinv * D = 1 := mul_eq_one_comm.mp hD
  have hX : (1 + K * (W * Dinv * Wᵀ)) * (K * W * ((Wᵀ * K * W + D)⁻¹ * r)) = K * (W * (Dinv * r)) := by
    have e : (1 + K * (W * Dinv * Wᵀ)) * (K * W) = K * W * Dinv * (Wᵀ * K * W + D) := by
      simp only [Matrix.add_mul, Matrix.mul_add, Matrix.one_mul, Matrix.mul_assoc, hDi, Matrix.mul_one]
      abel
    rw [← Matrix.mul_assoc, e, Matrix.mul_assoc, ← Matrix.mul_assoc (Wᵀ * K * W + D),
      Matrix.mul_nonsing_inv _ hA, Matrix.one_mul]
    simp only [Matrix.mul_assoc]
  calc mc = (1 + K * (W * Dinv * Wᵀ))⁻¹ * ((1 + K * (W * Dinv * Wᵀ)) * mc) := by
        rw [← Matrix.mul_assoc, Matrix.nonsing_inv_mul _ hu, Matrix.one_mul]
    _ = (1 + K * (W * Dinv * Wᵀ))⁻¹ * ((1 + K * (W * Dinv * Wᵀ)) * (K * W * ((Wᵀ * K * W + D)⁻¹ * r))) := by
        rw [hmc, hX]
    _ = _ := by rw [← Matrix.mul_assoc, Matrix.nonsing_inv_mul _ hu, Matrix.one_mul]
end wiski

end FantasyBridge

/-
Normalisation (∫ exp(logProb) over the support = 1) of the modelled scalar prior log-densities of
`Model/Priors.lean`: Uniform, HalfNormal, Gamma, HalfCauchy, LogNormal (Normal is in `Props/C17.lean`).
-/
import GPVerif.Bridge.ScalarFnReal
import GPVerif.Model.Priors
import GPVerif.Gen.Priors
import Mathlib.Probability.Distributions.Gaussian.Real
import Mathlib.Analysis.SpecialFunctions.Gaussian.GaussianIntegral
import Mathlib.Analysis.SpecialFunctions.Gamma.Basic
import Mathlib.Analysis.SpecialFunctions.ImproperIntegrals
import Mathlib.MeasureTheory.Integral.IntegralEqImproper
import Mathlib.Tactic.NormNum

namespace PriorNorm
open MeasureTheory ProbabilityTheory Set Real ScalarFnReal

theorem uniform_normalised (a b : ℝ) (h : a < b) :
    ∫ _x in Ico a b, Real.exp (Priors.uniformLogProb a b) = 1 := by
  have hpos : 0 < b - a := sub_pos.mpr h
  simp only [Priors.uniformLogProb, tf_log, Real.exp_neg, Real.exp_log hpos, setIntegral_const,
    smul_eq_mul, Real.volume_real_Ico_of_le h.le]
  field_simp

theorem exp_normalLogProb (μ σ x : ℝ) (hσ : 0 < σ) :
    Real.exp (Priors.normalLogProb μ σ x) = (σ * √(2 * π))⁻¹ * Real.exp (-(x - μ) ^ 2 / (2 * σ ^ 2)) := by
  have h2 : (0 : ℝ) < √(2 * π) := by positivity
  simp only [Priors.normalLogProb, tf_log, tf_sqrt, tf_pi, Nat.cast_ofNat]
  rw [Real.exp_sub, Real.exp_sub, Real.exp_log hσ, Real.exp_log h2,
    show -((x - μ) * (x - μ)) / (2 * (σ * σ)) = -(x - μ) ^ 2 / (2 * σ ^ 2) by ring]
  field_simp

theorem halfNormal_normalised (σ : ℝ) (hσ : 0 < σ) :
    ∫ x in Ioi (0 : ℝ), Real.exp (Priors.halfNormalLogProb σ x) = 1 := by
  have h2 : (0 : ℝ) < √(2 * π) := by positivity
  have hb : (0 : ℝ) < 1 / (2 * σ ^ 2) := by positivity
  have hfun : ∀ x : ℝ, Real.exp (Priors.halfNormalLogProb σ x)
      = (2 * (σ * √(2 * π))⁻¹) * Real.exp (-(1 / (2 * σ ^ 2)) * x ^ 2) := by
    intro x
    simp only [Priors.halfNormalLogProb, tf_log, Nat.cast_ofNat, Nat.cast_zero]
    rw [Real.exp_add, exp_normalLogProb 0 σ x hσ, Real.exp_log (by norm_num)]
    rw [show -(x - 0) ^ 2 / (2 * σ ^ 2) = -(1 / (2 * σ ^ 2)) * x ^ 2 by ring]
    ring
  simp_rw [hfun]
  rw [integral_const_mul, integral_gaussian_Ioi]
  have hs : √(2 * π * σ ^ 2) = √(2 * π) * σ := by
    rw [Real.sqrt_mul (by positivity), Real.sqrt_sq hσ.le]
  rw [show π / (1 / (2 * σ ^ 2)) = 2 * π * σ ^ 2 by field_simp, hs]
  field_simp

theorem gamma_normalised (a b : ℝ) (ha : 0 < a) (hb : 0 < b) :
    ∫ x in Ioi (0 : ℝ), Real.exp (Priors.gammaLogProb a b (Real.log (Real.Gamma a)) x) = 1 := by
  have hG : 0 < Real.Gamma a := Real.Gamma_pos_of_pos ha
  have hfun : ∀ x ∈ Ioi (0 : ℝ), Real.exp (Priors.gammaLogProb a b (Real.log (Real.Gamma a)) x)
      = (b ^ a / Real.Gamma a) * (x ^ (a - 1) * Real.exp (-(b * x))) := by
    intro x hx
    have hx0 : (0 : ℝ) < x := hx
    simp only [Priors.gammaLogProb, tf_log, Nat.cast_one]
    rw [Real.exp_sub, Real.exp_sub, Real.exp_add, Real.exp_log hG, mul_comm a (Real.log b),
      mul_comm (a - 1) (Real.log x), ← Real.rpow_def_of_pos hb, ← Real.rpow_def_of_pos hx0, Real.exp_neg]
    field_simp
  rw [setIntegral_congr_fun measurableSet_Ioi hfun, integral_const_mul,
    Real.integral_rpow_mul_exp_neg_mul_Ioi ha hb, one_div, Real.inv_rpow hb.le]
  have : b ^ a ≠ 0 := (Real.rpow_pos_of_pos hb a).ne'
  field_simp

theorem halfCauchy_normalised (s : ℝ) (hs : 0 < s) :
    ∫ x in Ioi (0 : ℝ), Real.exp (Priors.halfCauchyLogProb s x) = 1 := by
  have hfun : ∀ x : ℝ, Real.exp (Priors.halfCauchyLogProb s x)
      = (2 / (π * s)) * (fun y : ℝ => (1 + y ^ 2)⁻¹) (s⁻¹ * x) := by
    intro x
    have h1 : (0 : ℝ) < 1 + x / s * (x / s) := by
      have := mul_self_nonneg (x / s)
      linarith
    simp only [Priors.halfCauchyLogProb, tf_log, tf_pi, tf_log1p, Nat.cast_ofNat]
    rw [Real.exp_sub, Real.exp_sub, Real.exp_sub, Real.exp_log (by norm_num), Real.exp_log Real.pi_pos,
      Real.exp_log hs, Real.exp_log h1]
    have : 1 + (s⁻¹ * x) ^ 2 = 1 + x / s * (x / s) := by ring
    rw [this]
    field_simp
  simp_rw [hfun]
  rw [integral_const_mul, integral_comp_mul_left_Ioi (fun y : ℝ => (1 + y ^ 2)⁻¹) 0 (inv_pos.mpr hs)]
  simp only [mul_zero, integral_Ioi_inv_one_add_sq, Real.arctan_zero, sub_zero, inv_inv, smul_eq_mul]
  have := Real.pi_pos.ne'
  field_simp

/-- substitution `x = eᵗ` on `(0, ∞)` -/
theorem integral_Ioi_zero_eq_integral_comp_exp (g : ℝ → ℝ) :
    ∫ x in Ioi (0 : ℝ), g x = ∫ t : ℝ, Real.exp t * g (Real.exp t) := by
  have := integral_image_eq_integral_abs_deriv_smul (s := (univ : Set ℝ)) MeasurableSet.univ
    (fun x _ => (Real.hasDerivAt_exp x).hasDerivWithinAt) Real.exp_injective.injOn g
  rw [image_univ, Real.range_exp] at this
  rw [this]
  simp [abs_of_pos (Real.exp_pos _)]

theorem logNormal_normalised (μ σ : ℝ) (hσ : 0 < σ) :
    ∫ x in Ioi (0 : ℝ), Real.exp (Priors.logNormalLogProb μ σ x) = 1 := by
  rw [integral_Ioi_zero_eq_integral_comp_exp]
  have hfun : ∀ t : ℝ, Real.exp t * Real.exp (Priors.logNormalLogProb μ σ (Real.exp t))
      = gaussianPDFReal μ (Real.toNNReal (σ ^ 2)) t := by
    intro t
    simp only [Priors.logNormalLogProb, tf_log, Real.log_exp]
    rw [Real.exp_sub, exp_normalLogProb μ σ t hσ, gaussianPDFReal, Real.coe_toNNReal _ (sq_nonneg σ)]
    have hs : √(2 * π * σ ^ 2) = √(2 * π) * σ := by
      rw [Real.sqrt_mul (by positivity), Real.sqrt_sq hσ.le]
    rw [hs]
    have := (Real.exp_pos t).ne'
    field_simp
  simp_rw [hfun]
  exact integral_gaussianPDFReal_eq_one μ (by
    intro h0
    have : σ ^ 2 ≤ 0 := Real.toNNReal_eq_zero.mp h0
    exact absurd this (not_le.mpr (pow_pos hσ 2)))

/-! ### smoothed box: two half-Gaussian tails and a plateau -/

theorem integral_Ioi_shift (h : ℝ → ℝ) (b : ℝ) : ∫ x in Ioi b, h (x - b) = ∫ y in Ioi (0 : ℝ), h y := by
  rw [← integral_indicator measurableSet_Ioi, ← integral_indicator measurableSet_Ioi]
  have : (fun x => (Ioi b).indicator (fun x => h (x - b)) x) = fun x => (Ioi (0 : ℝ)).indicator h (x - b) := by
    funext x; simp only [indicator, mem_Ioi, sub_pos]
  rw [this, integral_sub_right_eq_self (fun y => (Ioi (0 : ℝ)).indicator h y) b]

theorem integral_Iic_shift (h : ℝ → ℝ) (a : ℝ) : ∫ x in Iic a, h (x - a) = ∫ y in Iic (0 : ℝ), h y := by
  rw [← integral_indicator measurableSet_Iic, ← integral_indicator measurableSet_Iic]
  have : (fun x => (Iic a).indicator (fun x => h (x - a)) x) = fun x => (Iic (0 : ℝ)).indicator h (x - a) := by
    funext x; simp only [indicator, mem_Iic, sub_nonpos]
  rw [this, integral_sub_right_eq_self (fun y => (Iic (0 : ℝ)).indicator h y) a]

theorem integral_gaussian_Iic_zero (c : ℝ) : ∫ x in Iic (0 : ℝ), Real.exp (-c * x ^ 2) = √(π / c) / 2 := by
  have := integral_comp_neg_Iic (0 : ℝ) (fun x : ℝ => Real.exp (-c * x ^ 2))
  simp only [neg_sq, neg_zero] at this
  rw [this, integral_gaussian_Ioi]

theorem smoothedBox_normalised (a b σ : ℝ) (hab : a < b) (hσ : 0 < σ) :
    ∫ x, Real.exp (Gen.Priors.smoothedBoxLogProb a b σ x) = 1 := by
  set c : ℝ := 1 / (2 * σ ^ 2) with hc
  have hcpos : 0 < c := by positivity
  have h2 : (0 : ℝ) < √(2 * π) := by positivity
  set Z : ℝ := 1 + (b - a) / (√(2 * π) * σ) with hZ
  have hZpos : 0 < Z := by
    have : 0 < (b - a) / (√(2 * π) * σ) := div_pos (sub_pos.mpr hab) (by positivity)
    linarith
  set K : ℝ := (σ * √(2 * π))⁻¹ / Z with hK
  -- the density in terms of the distance X to the box
  have hf : ∀ x X : ℝ, max (|x - (a + b) / 2| - (b - a) / 2) 0 = X →
      Real.exp (Gen.Priors.smoothedBoxLogProb a b σ x) = K * Real.exp (-c * X ^ 2) := by
    intro x X hX
    simp only [Gen.Priors.smoothedBoxLogProb, tf_log, tf_sqrt, tf_pi, tf_abs, Nat.cast_ofNat, Nat.cast_zero,
      Nat.cast_one, hX]
    rw [Real.exp_sub, exp_normalLogProb 0 σ X hσ, Real.exp_log hZpos]
    rw [show -(X - 0) ^ 2 / (2 * σ ^ 2) = -c * X ^ 2 by rw [hc]; ring, hK]
    field_simp
  have hR : ∀ x ∈ Ioi b, Real.exp (Gen.Priors.smoothedBoxLogProb a b σ x) = K * Real.exp (-c * (x - b) ^ 2) := by
    intro x hx
    have hx' : b < x := hx
    apply hf
    rw [abs_of_pos (by linarith), max_eq_left (by linarith)]; ring
  have hL : ∀ x ∈ Iic a, Real.exp (Gen.Priors.smoothedBoxLogProb a b σ x) = K * Real.exp (-c * (x - a) ^ 2) := by
    intro x hx
    have hx' : x ≤ a := hx
    rw [hf x (a - x)]
    · congr 2; ring
    · rw [abs_of_neg (by linarith), max_eq_left (by linarith)]; ring
  have hM : ∀ x ∈ Ioc a b, Real.exp (Gen.Priors.smoothedBoxLogProb a b σ x) = K := by
    intro x hx
    rw [hf x 0]
    · simp
    · apply max_eq_right
      have : |x - (a + b) / 2| ≤ (b - a) / 2 := by
        rw [abs_le]; constructor <;> linarith [hx.1, hx.2]
      linarith
  have hgi : ∀ d : ℝ, Integrable fun x : ℝ => K * Real.exp (-c * (x - d) ^ 2) := fun d =>
    ((integrable_exp_neg_mul_sq hcpos).comp_sub_right d).const_mul K
  have iR : IntegrableOn (fun x => Real.exp (Gen.Priors.smoothedBoxLogProb a b σ x)) (Ioi b) :=
    ((hgi b).integrableOn).congr_fun (fun x hx => (hR x hx).symm) measurableSet_Ioi
  have iL : IntegrableOn (fun x => Real.exp (Gen.Priors.smoothedBoxLogProb a b σ x)) (Iic a) :=
    ((hgi a).integrableOn).congr_fun (fun x hx => (hL x hx).symm) measurableSet_Iic
  have iM : IntegrableOn (fun x => Real.exp (Gen.Priors.smoothedBoxLogProb a b σ x)) (Ioc a b) :=
    (integrableOn_const (by simp) : IntegrableOn (fun _ : ℝ => K) (Ioc a b)).congr_fun
      (fun x hx => (hM x hx).symm) measurableSet_Ioc
  have hunion : Ioc a b ∪ Ioi b = Ioi a := Ioc_union_Ioi_eq_Ioi hab.le
  have iRa : IntegrableOn (fun x => Real.exp (Gen.Priors.smoothedBoxLogProb a b σ x)) (Ioi a) := by
    rw [← hunion]; exact iM.union iR
  rw [← intervalIntegral.integral_Iic_add_Ioi iL iRa, ← hunion,
    setIntegral_union (by
      rw [Set.disjoint_left]; intro x hx hx'; exact absurd hx.2 (not_le.mpr hx')) measurableSet_Ioi iM iR,
    setIntegral_congr_fun measurableSet_Iic hL, setIntegral_congr_fun measurableSet_Ioc hM,
    setIntegral_congr_fun measurableSet_Ioi hR, integral_const_mul, integral_const_mul,
    integral_Iic_shift (fun y => Real.exp (-c * y ^ 2)) a, integral_Ioi_shift (fun y => Real.exp (-c * y ^ 2)) b,
    integral_gaussian_Iic_zero, integral_gaussian_Ioi, setIntegral_const, smul_eq_mul,
    Real.volume_real_Ioc_of_le hab.le]
  have hs : √(π / c) = √(2 * π) * σ := by
    rw [hc, show π / (1 / (2 * σ ^ 2)) = 2 * π * σ ^ 2 by field_simp,
      show 2 * π * σ ^ 2 = (2 * π) * σ ^ 2 by ring]
    rw [Real.sqrt_mul' _ (sq_nonneg σ), Real.sqrt_sq hσ.le]
  have hD : 0 < √(2 * π) * σ := by positivity
  have hba : 0 < b - a := sub_pos.mpr hab
  have hK' : K = 1 / (√(2 * π) * σ + (b - a)) := by
    rw [hK, hZ, mul_comm σ]
    field_simp
  rw [hs, hK']
  generalize √(2 * π) * σ = D at hD
  generalize b - a = w at hba
  have hne : D + w ≠ 0 := by positivity
  field_simp
  ring

end PriorNorm

/-
Helper lemmas for C12: second moment of a real Gaussian about a point, and the logarithm of Mathlib's
Gaussian density in the shape used by gpytorch's closed forms.
-/
import Mathlib.Probability.Distributions.Gaussian.Real
import Mathlib.Probability.Moments.Variance
import Mathlib.Analysis.SpecialFunctions.Log.Basic
import Mathlib.Analysis.SpecialFunctions.Sqrt
import Mathlib.Tactic.Ring
import Mathlib.Tactic.FieldSimp
import Mathlib.Tactic.Positivity
import Mathlib.Tactic.Linarith

open MeasureTheory ProbabilityTheory Real
open scoped NNReal

namespace NoiseGaussian

theorem integrable_sq_dev (y m : ℝ) (v : ℝ≥0) :
    Integrable (fun x : ℝ => (y - x) ^ 2) (gaussianReal m v) := by
  have hL2 : MemLp (fun x : ℝ => x) 2 (gaussianReal m v) := memLp_id_gaussianReal (μ := m) (v := v) 2
  have : MemLp (fun x : ℝ => y - x) 2 (gaussianReal m v) := (memLp_const y).sub hL2
  simpa using this.integrable_sq

/-- `E_{f ~ N(m,v)} (y − f)² = (y − m)² + v`. -/
theorem gaussian_sq_dev (y m : ℝ) (v : ℝ≥0) :
    ∫ x, (y - x) ^ 2 ∂(gaussianReal m v) = (y - m) ^ 2 + v := by
  have hmean : ∫ x, x ∂(gaussianReal m v) = m := integral_id_gaussianReal
  have hvar : Var[fun x => x; gaussianReal m v] = v := variance_fun_id_gaussianReal
  have hL2 : MemLp (fun x : ℝ => x) 2 (gaussianReal m v) := memLp_id_gaussianReal (μ := m) (v := v) 2
  have hint1 : Integrable (fun x : ℝ => x) (gaussianReal m v) := hL2.integrable (by norm_num)
  have hintsq : Integrable (fun x : ℝ => (x - m) ^ 2) (gaussianReal m v) := by
    have : MemLp (fun x : ℝ => x - m) 2 (gaussianReal m v) := hL2.sub (memLp_const m)
    simpa using this.integrable_sq
  have hv2 : ∫ x, (x - m) ^ 2 ∂(gaussianReal m v) = v := by
    rw [variance_eq_integral (by fun_prop)] at hvar
    simpa [hmean] using hvar
  have e : ∀ x : ℝ, (y - x) ^ 2 = (y - m) ^ 2 - 2 * (y - m) * (x - m) + (x - m) ^ 2 := by
    intro x; ring
  rw [show (fun x : ℝ => (y - x) ^ 2) = fun x => (y - m) ^ 2 - 2 * (y - m) * (x - m) + (x - m) ^ 2 from funext e]
  have hlin : Integrable (fun x : ℝ => 2 * (y - m) * (x - m)) (gaussianReal m v) :=
    (hint1.sub (integrable_const m)).const_mul _
  have hA : Integrable (fun x : ℝ => (y - m) ^ 2 - 2 * (y - m) * (x - m)) (gaussianReal m v) :=
    (integrable_const _).sub hlin
  have h1 := integral_add (μ := gaussianReal m v) hA hintsq
  have h2 := integral_sub (μ := gaussianReal m v) (integrable_const ((y - m) ^ 2)) hlin
  have h3 := integral_const_mul (μ := gaussianReal m v) (2 * (y - m)) (fun x : ℝ => x - m)
  have h4 := integral_sub (μ := gaussianReal m v) hint1 (integrable_const m)
  simp only [integral_const, smul_eq_mul] at h2 h4
  have hone : (gaussianReal m v).real Set.univ = 1 := by simp
  rw [h1, h2, h3, h4, hmean, hv2, hone]
  ring

/-- `log N(x | μ, v) = −½ [ (x − μ)²/v + log v + log 2π ]` for Mathlib's `gaussianPDFReal`, `v > 0`. -/
theorem log_gaussianPDFReal (μ : ℝ) (v : ℝ≥0) (hv : v ≠ 0) (x : ℝ) :
    Real.log (gaussianPDFReal μ v x) =
      -(1 / 2 * ((x - μ) ^ 2 / v + Real.log v + Real.log (2 * π))) := by
  have hv' : (0 : ℝ) < v := by
    have : (0 : ℝ) ≤ v := v.2
    exact lt_of_le_of_ne this (by exact_mod_cast hv.symm)
  have h2pi : (0 : ℝ) < 2 * π := by positivity
  have hs : (0 : ℝ) < 2 * π * v := by positivity
  unfold gaussianPDFReal
  rw [Real.log_mul (inv_ne_zero (Real.sqrt_ne_zero'.2 hs)) (Real.exp_ne_zero _), Real.log_inv,
    Real.log_sqrt hs.le, Real.log_exp, Real.log_mul h2pi.ne' hv'.ne']
  field_simp
  ring

end NoiseGaussian

/-
Helper lemmas for `Props/C09.lean` (interpolation): the generated Keys kernel resolves to its polynomial
pieces, the `repeat/view` digit pattern is the (reversed) base-`nc` digit equivalence, list folds ↔ finite
sums.  Everything here is about the GENERATED definitions of `Gen/Interp.lean`.
-/
import GPVerif.Gen.Interp
import Mathlib.Tactic.Ring
import Mathlib.Tactic.Linarith
import Mathlib.Tactic.NormNum
import Mathlib.Tactic.IntervalCases
import Mathlib.Algebra.BigOperators.Fin
import Mathlib.Algebra.BigOperators.Intervals
import Mathlib.Algebra.BigOperators.Ring.Finset

open Gen.Interp Interp

set_option linter.unusedSectionVars false
set_option linter.unusedSimpArgs false

namespace Interp.Bridge

theorem srcOf_eq (d i j : ℕ) : srcOf d i j = j / numCoefficients ^ (d - i - 1) % numCoefficients := rfl

theorem srcOf_lt (d i j : ℕ) : srcOf d i j < numCoefficients := by
  rw [srcOf_eq]; exact Nat.mod_lt _ (by decide)

def lexDigits (d : ℕ) (j : Fin (numCoefficients ^ d)) : Fin d → Fin numCoefficients :=
  fun i => ⟨srcOf d i j, srcOf_lt d i j⟩

theorem lexDigits_eq (d : ℕ) :
    lexDigits d = fun j => (finFunctionFinEquiv.symm j) ∘ Fin.rev := by
  funext j i
  apply Fin.ext
  simp [lexDigits, srcOf_eq, finFunctionFinEquiv, Fin.val_rev, Nat.sub_sub, Nat.add_comm]

section
variable {α : Type} [Field α]

theorem foldl_pair {β γ : Type} [AddCommMonoid β] [CommMonoid γ] (a : ℕ → β) (b : ℕ → γ) (d : ℕ) (z : β) (o : γ) :
    (List.range d).foldl (fun (acc : β × γ) i => (acc.1 + a i, acc.2 * b i)) (z, o)
      = (z + ∑ i ∈ Finset.range d, a i, o * ∏ i ∈ Finset.range d, b i) := by
  induction d with
  | zero => simp
  | succ d ih => simp [List.range_succ, List.foldl_append, ih, Finset.sum_range_succ, Finset.prod_range_succ, add_assoc, mul_assoc]

theorem entry_eq (S : DimSpec α) (sizes : List ℕ) (d : ℕ) (per : ℕ → ℤ × (ℕ → α)) (j : ℕ) :
    entry S sizes d per j
      = (∑ i ∈ Finset.range d, ((per i).1 + S.offset (S.srcOf d i j)) * (S.indexCoeff sizes i : ℤ),
         ∏ i ∈ Finset.range d, (per i).2 (S.srcOf d i j)) := by
  unfold entry
  rw [foldl_pair (fun i => ((per i).1 + S.offset (S.srcOf d i j)) * (S.indexCoeff sizes i : ℤ)) (fun i => (per i).2 (S.srcOf d i j))]
  simp

theorem list_range_map_sum {β : Type} [AddCommMonoid β] (f : ℕ → β) (N : ℕ) :
    ((List.range N).map f).sum = ∑ j ∈ Finset.range N, f j := by
  induction N with
  | zero => simp
  | succ N ih => simp [List.range_succ, ih, Finset.sum_range_succ]

end

section keys
variable {α : Type} [Field α] [LinearOrder α] [IsStrictOrderedRing α] [FloorRing α]

theorem cubicKernel_of_lt_one {s : α} (h : |s| < 1) : cubicKernel s = piece0 |s| := by
  have h0 : (0:α) ≤ |s| := abs_nonneg s
  have hf : ⌊|s|⌋ = 0 := by rw [Int.floor_eq_iff]; constructor <;> simp [h0, h]
  simp [cubicKernel, hf]

theorem cubicKernel_of_one_le {s : α} (h : 1 ≤ |s|) : cubicKernel s = piece1 |s| := by
  have hf : 1 ≤ ⌊|s|⌋ := by rw [Int.le_floor]; simpa using h
  simp [cubicKernel, hf]

theorem piece_at_one : piece0 (1:α) = 0 ∧ piece1 (1:α) = 0 ∧ piece1 (2:α) = 0 ∧ piece0 (0:α) = 1 := by
  refine ⟨?_, ?_, ?_, ?_⟩ <;> simp only [piece0, piece1] <;> norm_num

theorem cubicKernel_of_le_one {s : α} (h : |s| ≤ 1) : cubicKernel s = piece0 |s| := by
  rcases lt_or_eq_of_le h with h | h
  · exact cubicKernel_of_lt_one h
  · rw [cubicKernel_of_one_le (le_of_eq h.symm), h, piece_at_one.1, piece_at_one.2.1]

theorem keys_weights (r : α) (h0 : 0 ≤ r) (h1 : r ≤ 1) :
    cubicKernel (scaledDist r 0) = piece1 (r + 1) ∧ cubicKernel (scaledDist r 1) = piece0 r ∧
    cubicKernel (scaledDist r 2) = piece0 (1 - r) ∧ cubicKernel (scaledDist r 3) = piece1 (2 - r) := by
  refine ⟨?_, ?_, ?_, ?_⟩
  · have : |r + 1| = r + 1 := abs_of_nonneg (by linarith)
    simp only [scaledDist, interpFlip, List.getD_cons_zero, Int.cast_one]
    rw [cubicKernel_of_one_le (by rw [this]; linarith), this]
  · have : |r| = r := abs_of_nonneg h0
    simp only [scaledDist, interpFlip, List.getD_cons_succ, List.getD_cons_zero, Int.cast_zero, add_zero]
    rw [cubicKernel_of_le_one (by rw [this]; exact h1), this]
  · have : |r + -1| = 1 - r := by rw [abs_of_nonpos (by linarith)]; ring
    simp only [scaledDist, interpFlip, List.getD_cons_succ, List.getD_cons_zero, Int.cast_neg, Int.cast_one]
    rw [cubicKernel_of_le_one (by rw [this]; linarith), this]
  · have : |r + -2| = 2 - r := by rw [abs_of_nonpos (by linarith)]; ring
    simp only [scaledDist, interpFlip, List.getD_cons_succ, List.getD_cons_zero, Int.cast_neg, Int.cast_ofNat]
    rw [cubicKernel_of_one_le (by rw [this]; linarith), this]

theorem argminAbs_lt (nodes : ℕ → α) (nc : ℕ) (h : 0 < nc) (x : α) : argminAbs nodes nc x < nc := by
  unfold argminAbs
  have : ∀ (l : List ℕ) (best : ℕ × Option α), (∀ k ∈ l, k < nc) → best.1 < nc →
      (l.foldl (fun (best : ℕ × Option α) k =>
        match best.2 with
        | none => (k, some |nodes k - x|)
        | some b => if |nodes k - x| < b then (k, some |nodes k - x|) else best) best).1 < nc := by
    intro l
    induction l with
    | nil => intro best _ hb; simpa using hb
    | cons k l ih =>
      intro best hl hb
      simp only [List.foldl_cons]
      apply ih _ (fun k hk => hl k (List.mem_cons_of_mem _ hk))
      have hk := hl k List.mem_cons_self
      cases hbo : best.2 with
      | none => simpa using hk
      | some b => by_cases hc : |nodes k - x| < b <;> simp [hc, hk, hb]
  exact this _ _ (fun k hk => List.mem_range.mp hk) h

theorem oneHot_sum (c : ℕ) (hc : c < numCoefficients) (one zero : α) :
    ∑ k ∈ Finset.range numCoefficients, (if k = c then one else zero) = one + 3 * zero := by
  have : c = 0 ∨ c = 1 ∨ c = 2 ∨ c = 3 := by simp [numCoefficients] at hc; omega
  rcases this with h | h | h | h <;> subst h <;> simp [numCoefficients, Finset.sum_range_succ] <;> ring

end keys

end Interp.Bridge

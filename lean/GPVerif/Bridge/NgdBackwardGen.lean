/-
C15 (wave 3) — the regenerated `_NaturalToMuVarSqrt._backward` (`Gen/NaturalGrad.lean`, translator `g5_natgrad` of C19)
equals the hand-written composition `naturalBackward ∘ choleskyBackward` of `Model/NaturalGrad.lean`, so that the
lemmas of `Bridge/NgdBackward.lean` apply to what the source says now.  (C19 proves the same equalities in its own
`Props` file; they are re-proved here so that C15 does not import another property's theorem module.)
-/
import GPVerif.Gen.NaturalGrad
import GPVerif.Gen.NaturalForward
import GPVerif.Bridge.NgdBackward

open Matrix

namespace NgdBackward
variable {n : ℕ} {α : Type} [Field α]

/-- `A.tril_().diagonal(offset=0, dim1=-2, dim2=-1).mul_(0.5)` is `Φ` -/
theorem scaleDiag_tril_eq_phi (X : DMat n n α) :
    NaturalGrad.scaleDiag ((1 : α) / 2) (NaturalGrad.tril X) = NaturalGrad.phi X := by
  apply DMat.toMatrix_injective
  ext i j
  rw [phi_apply]
  simp only [NaturalGrad.scaleDiag, NaturalGrad.tril, DMat.toMatrix_ofMatrix, Matrix.of_apply]
  rcases lt_trichotomy i j with h | h | h
  · have h1 : ¬ (j.1 ≤ i.1) := by have : i.1 < j.1 := h; omega
    have h2 : ¬ (j.1 < i.1) := by have : i.1 < j.1 := h; omega
    have h3 : i ≠ j := ne_of_lt h
    simp [h1, h2, h3]
  · subst h
    simp [div_eq_mul_inv]
  · have h1 : j.1 ≤ i.1 := by have : j.1 < i.1 := h; omega
    have h2 : j.1 < i.1 := h
    have h3 : i ≠ j := (ne_of_lt h).symm
    simp [h1, h2, h3]

theorem gen_choleskyBackward_eq (dout L Linv : DMat n n α) :
    Gen.NaturalGrad.choleskyBackward dout L Linv = NaturalGrad.choleskyBackward dout L Linv := by
  simp only [Gen.NaturalGrad.choleskyBackward, scaleDiag_tril_eq_phi, NaturalGrad.choleskyBackward]

theorem gen_naturalBackward_eq (gMu mu : DMat n 1 α) (gL L C : DMat n n α) :
    Gen.NaturalGrad.naturalBackward gMu gL mu L C
      = NaturalGrad.naturalBackward gMu (NaturalGrad.choleskyBackward gL L C) mu := by
  simp only [Gen.NaturalGrad.naturalBackward, scaleDiag_tril_eq_phi, NaturalGrad.choleskyBackward,
    NaturalGrad.naturalBackward]

theorem gen_naturalFunctionBackward_eq (triInv : DMat n n α → DMat n n α) (gMu mu : DMat n 1 α) (gL L : DMat n n α) :
    Gen.NaturalGrad.naturalFunctionBackward triInv gMu gL mu L
      = Gen.NaturalGrad.naturalBackward gMu gL mu L (triInv L) := rfl

end NgdBackward

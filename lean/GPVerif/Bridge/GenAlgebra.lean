/-
Helper lemmas for the corollaries about the regenerated prediction algebra (`GPVerif/Gen/ExactAlgebra.lean`):
the contract of `solve?`, and the Python slices at `num_train` as the model's block split.
-/
import GPVerif.Gen.ExactAlgebra

open Matrix

namespace ExactGP
variable {n s p : Nat} {α : Type} [Field α] [DecidableEq α]

/-- A successful certified solve is `A⁻¹ B`, and `A` is invertible. -/
theorem solve?_eq_some {A : DMat n n α} {B X : DMat n p α} (h : solve? A B = some X) :
    X.toMatrix = A.toMatrix⁻¹ * B.toMatrix ∧ IsUnit A.toMatrix.det := by
  simp only [solve?, Option.map_eq_some_iff] at h
  obtain ⟨Ai, hAi, rfl⟩ := h
  exact ⟨by simp [DMat.inv?_correct hAi], DMat.inv?_isUnit hAi⟩

omit [DecidableEq α] in
/-- `joint_mean[..., num_train:]`. -/
theorem slice_mean_test (mj : DMat (n + s) 1 α) : (GenOps.slice mj n 0 : DMat s 1 α) = (splitMean mj).2 := by
  apply DMat.toMatrix_injective; ext i j
  rw [GenOps.toMatrix_slice_apply _ _ _ _ _ (by omega) (by omega)]
  simp only [splitMean, DMat.toMatrix_submatrix, Matrix.submatrix_apply, id]
  congr 1 <;> (apply Fin.ext; simp)

omit [DecidableEq α] in
/-- `joint_covar[..., num_train:, :num_train]`. -/
theorem slice_test_train (J : DMat (n + s) (n + s) α) : (GenOps.slice J n 0 : DMat s n α) = (splitLazy J).1 := by
  apply DMat.toMatrix_injective; ext i j
  rw [GenOps.toMatrix_slice_apply _ _ _ _ _ (by omega) (by omega)]
  simp only [splitLazy, DMat.toMatrix_submatrix, Matrix.submatrix_apply]
  congr 1 <;> (apply Fin.ext; simp)

omit [DecidableEq α] in
/-- `joint_covar[..., num_train:, num_train:]`. -/
theorem slice_test_test (J : DMat (n + s) (n + s) α) : (GenOps.slice J n n : DMat s s α) = (splitLazy J).2 := by
  apply DMat.toMatrix_injective; ext i j
  rw [GenOps.toMatrix_slice_apply _ _ _ _ _ (by omega) (by omega)]
  simp only [splitLazy, DMat.toMatrix_submatrix, Matrix.submatrix_apply]
  congr 1 <;> (apply Fin.ext; simp)

omit [DecidableEq α] in
/-- Eager path: `joint_covar[..., num_train:, :]` densely, then `[..., :num_train]`. -/
theorem slice_rows_then_train (J : DMat (n + s) (n + s) α) :
    (GenOps.slice (GenOps.slice J n 0 : DMat s (n + s) α) 0 0 : DMat s n α) = (splitLazy J).1 := by
  apply DMat.toMatrix_injective; ext i j
  rw [GenOps.toMatrix_slice_apply _ _ _ _ _ (by omega) (by omega),
    GenOps.toMatrix_slice_apply _ _ _ _ _ (by simp) (by simp; omega)]
  simp only [splitLazy, DMat.toMatrix_submatrix, Matrix.submatrix_apply]
  congr 1 <;> (apply Fin.ext; simp)

omit [DecidableEq α] in
/-- Eager path: `joint_covar[..., num_train:, :]` densely, then `[..., num_train:]`. -/
theorem slice_rows_then_test (J : DMat (n + s) (n + s) α) :
    (GenOps.slice (GenOps.slice J n 0 : DMat s (n + s) α) 0 n : DMat s s α) = (splitLazy J).2 := by
  apply DMat.toMatrix_injective; ext i j
  rw [GenOps.toMatrix_slice_apply _ _ _ _ _ (by omega) (by omega),
    GenOps.toMatrix_slice_apply _ _ _ _ _ (by simp) (by simp)]
  simp only [splitLazy, DMat.toMatrix_submatrix, Matrix.submatrix_apply]
  congr 1 <;> (apply Fin.ext; simp)

end ExactGP

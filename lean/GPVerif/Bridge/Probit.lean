/-
The probit Gaussian identity  E_{f ~ N(m,v)} Φ(f) = Φ(m / √(1+v))  (all real m, all v ≥ 0), by the
probabilistic argument: Φ(f) = P(Z ≤ f) with Z ~ N(0,1) independent of f, so the expectation is
P(Z − f ≤ 0) and Z − f ~ N(−m, 1+v).  Used by `Props/C13.lean :: probit_identity`.
-/
import Mathlib.Probability.Distributions.Gaussian.Real
import Mathlib.MeasureTheory.Group.Convolution
import Mathlib.Tactic.Positivity
import Mathlib.Tactic.FieldSimp
import Mathlib.Tactic.Linarith

open MeasureTheory ProbabilityTheory Set
open scoped NNReal ENNReal

namespace Probit

/-- standard normal cdf -/
noncomputable def Phi (x : ℝ) : ℝ := ((gaussianReal 0 1) (Iic x)).toReal

theorem conv_Iic_zero (μ ν : Measure ℝ) [SFinite ν] :
    (μ ∗ ν) (Iic 0) = ∫⁻ a, ν (Iic (-a)) ∂μ := by
  rw [← lintegral_indicator_one measurableSet_Iic,
    Measure.lintegral_conv (measurable_one.indicator measurableSet_Iic)]
  congr 1
  funext a
  have h : (fun y : ℝ => (Iic (0 : ℝ)).indicator (1 : ℝ → ℝ≥0∞) (a + y))
      = (Iic (-a)).indicator (1 : ℝ → ℝ≥0∞) := by
    funext y
    by_cases hy : y ≤ -a
    · have : a + y ≤ 0 := by linarith
      simp [indicator, hy, this]
    · have : ¬ a + y ≤ 0 := by intro h'; exact hy (by linarith)
      simp [indicator, hy, this]
  rw [h, lintegral_indicator_one measurableSet_Iic]

theorem measurable_measure_Iic (ν : Measure ℝ) : Measurable fun x : ℝ => ν (Iic x) := by
  have hm : Monotone fun x : ℝ => ν (Iic x) := fun _ _ hab => measure_mono (Iic_subset_Iic.mpr hab)
  exact hm.measurable

/-- standardisation: `N(−m, 1+v)(−∞, 0] = N(0,1)(−∞, m/√(1+v)]` -/
theorem standardise (m : ℝ) (v : ℝ≥0) :
    (gaussianReal (-m) (v + 1)) (Iic 0) = (gaussianReal 0 1) (Iic (m / Real.sqrt (1 + (v : ℝ)))) := by
  have hpos : 0 < Real.sqrt (1 + (v : ℝ)) := Real.sqrt_pos.mpr (by positivity)
  have hmap : (gaussianReal 0 1).map (fun x => Real.sqrt (1 + (v : ℝ)) * x + (-m)) = gaussianReal (-m) (v + 1) := by
    have h1 : (gaussianReal 0 1).map (fun x => Real.sqrt (1 + (v : ℝ)) * x) = gaussianReal 0 (v + 1) := by
      rw [gaussianReal_map_const_mul]
      congr 1
      · simp
      · apply NNReal.eq
        simp only [NNReal.coe_mk, NNReal.coe_one, NNReal.coe_add, mul_one]
        rw [Real.sq_sqrt (by positivity)]
        ring
    have h2 : (fun x => Real.sqrt (1 + (v : ℝ)) * x + (-m))
        = (fun y => y + (-m)) ∘ (fun x => Real.sqrt (1 + (v : ℝ)) * x) := rfl
    rw [h2, ← Measure.map_map (by fun_prop) (by fun_prop), h1, gaussianReal_map_add_const]
    simp
  rw [← hmap, Measure.map_apply (by fun_prop) measurableSet_Iic]
  congr 1
  ext x
  simp only [mem_preimage, mem_Iic]
  rw [le_div_iff₀ hpos]
  constructor <;> intro h <;> linarith [mul_comm x (Real.sqrt (1 + (v : ℝ)))]

/-- **probit identity** -/
theorem probit_identity (m : ℝ) (v : ℝ≥0) :
    ∫ f, Phi f ∂(gaussianReal m v) = Phi (m / Real.sqrt (1 + (v : ℝ))) := by
  unfold Phi
  set ν := gaussianReal 0 1
  rw [integral_toReal (measurable_measure_Iic ν).aemeasurable
    (Filter.Eventually.of_forall fun x => measure_lt_top ν _)]
  congr 1
  have hg : Measurable fun a : ℝ => ν (Iic (-a)) :=
    (measurable_measure_Iic ν).comp measurable_neg
  calc ∫⁻ f, ν (Iic f) ∂(gaussianReal m v)
      = ((gaussianReal m v).map (fun x => -x) ∗ ν) (Iic 0) := by
        rw [conv_Iic_zero, lintegral_map hg measurable_neg]
        simp
    _ = (gaussianReal (-m) (v + 1)) (Iic 0) := by
        rw [gaussianReal_map_neg, gaussianReal_conv_gaussianReal]; simp
    _ = ν (Iic (m / Real.sqrt (1 + (v : ℝ)))) := standardise m v

theorem Phi_nonneg (x : ℝ) : 0 ≤ Phi x := ENNReal.toReal_nonneg

theorem Phi_le_one (x : ℝ) : Phi x ≤ 1 := by
  unfold Phi
  have : (gaussianReal 0 1) (Iic x) ≤ 1 := prob_le_one
  exact ENNReal.toReal_mono ENNReal.one_ne_top this |>.trans (by simp)

end Probit

/-
Autocorrelation kernels.  For `φ_i ∈ L²(μ)` the matrix `∫ φ_i φ_j dμ` is PSD (`integral_gram_psd`); in particular
`k(a,b) = ∫ g(t − a) g(t − b) dt` has a PSD Gram matrix on every finite point set (`autocorr_gram_psd`).  Instances:

* `g(s) = e^{−|s|}`:            `∫ e^{−|t−a|} e^{−|t−b|} dt = (1 + |a−b|) e^{−|a−b|}`             ⇒ Matérn-3/2, d = 1;
* `g(s) = s² e^{−s} 1[s > 0]`:  `∫ g(t−a) g(t−b) dt = ¾ (1 + |a−b| + |a−b|²/3) e^{−|a−b|}`      ⇒ Matérn-5/2, d = 1;
* `g = 1_{(0,1]}`:              `∫ g(t−a) g(t−b) dt = max(0, 1 − |a−b|)`                          ⇒ piecewise polynomial q = 0, d = 1.
-/
import GPVerif.Bridge.RQ
import GPVerif.Bridge.Matern12
import Mathlib.MeasureTheory.Integral.IntervalIntegral.Basic

open Matrix MeasureTheory Set

namespace C07

variable {ι : Type*} [Fintype ι]

/-- Gram matrix of finitely many functions under the `L²(μ)` pairing is PSD. -/
theorem integral_gram_psd {Ω : Type*} [MeasurableSpace Ω] (μ : Measure Ω) (φ : ι → Ω → ℝ)
    (hint : ∀ i j, Integrable (fun t => φ i t * φ j t) μ) :
    (of fun i j => ∫ t, φ i t * φ j t ∂μ : Matrix ι ι ℝ).PosSemidef := by
  classical
  refine PosSemidef.of_dotProduct_mulVec_nonneg ?_ fun v => ?_
  · ext i j; simp [conjTranspose_apply, mul_comm]
  · let F : ι → ι → Ω → ℝ := fun i j t => v i * (φ i t * φ j t) * v j
    have hF : ∀ i j, Integrable (F i j) μ := fun i j => ((hint i j).const_mul (v i)).mul_const (v j)
    have hrow : ∀ i, Integrable (fun t => ∑ j, F i j t) μ :=
      fun i => integrable_finsetSum Finset.univ fun j _ => hF i j
    have h1 : ∫ t, ∑ i, ∑ j, F i j t ∂μ = ∑ i, ∫ t, ∑ j, F i j t ∂μ :=
      integral_finsetSum Finset.univ (f := fun i t => ∑ j, F i j t) fun i _ => hrow i
    have h2 : ∀ i, ∫ t, ∑ j, F i j t ∂μ = ∑ j, ∫ t, F i j t ∂μ := fun i =>
      integral_finsetSum Finset.univ (f := fun j t => F i j t) fun j _ => hF i j
    have h3 : ∀ i j, ∫ t, F i j t ∂μ = v i * (∫ t, φ i t * φ j t ∂μ) * v j := by
      intro i j
      show ∫ t, v i * (φ i t * φ j t) * v j ∂μ = _
      rw [integral_mul_const, integral_const_mul]
    have key : star v ⬝ᵥ ((of fun i j => ∫ t, φ i t * φ j t ∂μ : Matrix ι ι ℝ) *ᵥ v) =
        ∫ t, ∑ i, ∑ j, F i j t ∂μ := by
      rw [h1]
      simp_rw [h2, h3]
      simp only [dotProduct, mulVec, of_apply, star_trivial, Finset.mul_sum]
      exact Finset.sum_congr rfl fun i _ => Finset.sum_congr rfl fun j _ => by ring
    rw [key]
    refine integral_nonneg fun t => ?_
    have e : ∑ i, ∑ j, F i j t = (∑ i, v i * φ i t) * (∑ j, v j * φ j t) := by
      rw [Finset.sum_mul_sum]
      refine Finset.sum_congr rfl fun i _ => Finset.sum_congr rfl fun j _ => ?_
      show v i * (φ i t * φ j t) * v j = _
      ring
    rw [e]
    exact mul_self_nonneg _

/-- **autocorrelation kernels**: `k(a,b) = ∫ g(t − a) g(t − b) dt` has a PSD Gram matrix on every finite point set. -/
theorem autocorr_gram_psd (g : ℝ → ℝ) (x : ι → ℝ)
    (hint : ∀ i j, Integrable (fun t => g (t - x i) * g (t - x j)) volume) :
    (of fun i j => ∫ t, g (t - x i) * g (t - x j) : Matrix ι ι ℝ).PosSemidef :=
  integral_gram_psd volume (fun i t => g (t - x i)) hint

/-! ### `g(s) = e^{−|s|}`: Matérn-3/2 in dimension one -/

private lemma f_Iic {a b t : ℝ} (hab : a ≤ b) (ht : t ≤ a) :
    Real.exp (-|t - a|) * Real.exp (-|t - b|) = Real.exp (2 * t) * Real.exp (-(a + b)) := by
  rw [abs_of_nonpos (by linarith), abs_of_nonpos (by linarith), ← Real.exp_add, ← Real.exp_add]
  congr 1; ring

private lemma f_Ioc {a b t : ℝ} (h1 : a < t) (h2 : t ≤ b) :
    Real.exp (-|t - a|) * Real.exp (-|t - b|) = Real.exp (-(b - a)) := by
  rw [abs_of_nonneg (by linarith), abs_of_nonpos (by linarith), ← Real.exp_add]
  congr 1; ring

private lemma f_Ioi {a b t : ℝ} (hab : a ≤ b) (ht : b < t) :
    Real.exp (-|t - a|) * Real.exp (-|t - b|) = Real.exp (-2 * t) * Real.exp (a + b) := by
  rw [abs_of_nonneg (by linarith), abs_of_nonneg (by linarith), ← Real.exp_add, ← Real.exp_add]
  congr 1; ring

/-- `∫ e^{−|t−a|} e^{−|t−b|} dt = (1 + (b − a)) e^{−(b − a)}` for `a ≤ b`, and the integrand is integrable. -/
theorem integral_exp_abs_mul_of_le {a b : ℝ} (hab : a ≤ b) :
    Integrable (fun t => Real.exp (-|t - a|) * Real.exp (-|t - b|)) volume ∧
    ∫ t, Real.exp (-|t - a|) * Real.exp (-|t - b|) = (1 + (b - a)) * Real.exp (-(b - a)) := by
  set f : ℝ → ℝ := fun t => Real.exp (-|t - a|) * Real.exp (-|t - b|) with hf
  have e1 : EqOn (fun t => Real.exp (2 * t) * Real.exp (-(a + b))) f (Iic a) := fun t ht => (f_Iic hab ht).symm
  have e2 : EqOn (fun _ => Real.exp (-(b - a))) f (Ioc a b) := fun t ht => (f_Ioc ht.1 ht.2).symm
  have e3 : EqOn (fun t => Real.exp (-2 * t) * Real.exp (a + b)) f (Ioi b) := fun t ht => (f_Ioi hab ht).symm
  have i1 : IntegrableOn f (Iic a) :=
    IntegrableOn.congr_fun (f := fun t => Real.exp (2 * t) * Real.exp (-(a + b)))
      ((integrableOn_exp_mul_Iic (by norm_num : (0 : ℝ) < 2) a).mul_const _) e1 measurableSet_Iic
  have i2 : IntegrableOn f (Ioc a b) :=
    (integrableOn_const (by simp)).congr_fun e2 measurableSet_Ioc
  have i3 : IntegrableOn f (Ioi b) :=
    IntegrableOn.congr_fun (f := fun t => Real.exp (-2 * t) * Real.exp (a + b))
      ((integrableOn_exp_mul_Ioi (by norm_num : (-2 : ℝ) < 0) b).mul_const _) e3 measurableSet_Ioi
  have i23 : IntegrableOn f (Ioi a) := by
    rw [← Ioc_union_Ioi_eq_Ioi hab]; exact i2.union i3
  have iall : Integrable f volume := by
    rw [← integrableOn_univ, ← Iic_union_Ioi (a := a)]; exact i1.union i23
  refine ⟨iall, ?_⟩
  have s1 : ∫ t in Iic a, f t = Real.exp (2 * a) / 2 * Real.exp (-(a + b)) := by
    rw [← setIntegral_congr_fun measurableSet_Iic e1, integral_mul_const,
      integral_exp_mul_Iic (by norm_num : (0 : ℝ) < 2) a]
  have s2 : ∫ t in Ioc a b, f t = (b - a) * Real.exp (-(b - a)) := by
    rw [← setIntegral_congr_fun measurableSet_Ioc e2, setIntegral_const]
    simp [hab]
  have s3 : ∫ t in Ioi b, f t = -Real.exp (-2 * b) / (-2) * Real.exp (a + b) := by
    rw [← setIntegral_congr_fun measurableSet_Ioi e3, integral_mul_const,
      integral_exp_mul_Ioi (by norm_num : (-2 : ℝ) < 0) b]
  have s23 : ∫ t in Ioi a, f t = (∫ t in Ioc a b, f t) + ∫ t in Ioi b, f t := by
    rw [← Ioc_union_Ioi_eq_Ioi hab]
    exact setIntegral_union (Ioc_disjoint_Ioi le_rfl) measurableSet_Ioi i2 i3
  rw [← intervalIntegral.integral_Iic_add_Ioi i1 i23, s23, s1, s2, s3]
  have h1 : Real.exp (2 * a) * Real.exp (-(a + b)) = Real.exp (-(b - a)) := by
    rw [← Real.exp_add]; congr 1; ring
  have h3 : Real.exp (-2 * b) * Real.exp (a + b) = Real.exp (-(b - a)) := by
    rw [← Real.exp_add]; congr 1; ring
  have : Real.exp (2 * a) / 2 * Real.exp (-(a + b)) + ((b - a) * Real.exp (-(b - a)) +
      -Real.exp (-2 * b) / (-2) * Real.exp (a + b)) =
      (Real.exp (2 * a) * Real.exp (-(a + b))) / 2 + (b - a) * Real.exp (-(b - a)) +
      (Real.exp (-2 * b) * Real.exp (a + b)) / 2 := by ring
  rw [this, h1, h3]; ring

/-- `∫ e^{−|t−a|} e^{−|t−b|} dt = (1 + |a − b|) e^{−|a − b|}` for all `a, b`. -/
theorem integral_exp_abs_mul (a b : ℝ) :
    Integrable (fun t => Real.exp (-|t - a|) * Real.exp (-|t - b|)) volume ∧
    ∫ t, Real.exp (-|t - a|) * Real.exp (-|t - b|) = (1 + |a - b|) * Real.exp (-|a - b|) := by
  rcases le_total a b with h | h
  · have := integral_exp_abs_mul_of_le h
    rw [abs_of_nonpos (by linarith : a - b ≤ 0)]
    refine ⟨this.1, ?_⟩
    rw [this.2]; ring_nf
  · have := integral_exp_abs_mul_of_le h
    rw [abs_of_nonneg (by linarith : 0 ≤ a - b)]
    have e : (fun t => Real.exp (-|t - a|) * Real.exp (-|t - b|)) =
        fun t => Real.exp (-|t - b|) * Real.exp (-|t - a|) := by funext t; ring
    rw [e]
    exact this

/-- **Matérn-3/2 kernel in dimension one**: `(1 + √3 r) e^{−√3 r}`, `r = |x_i − x_j| / ℓ`, `ℓ > 0`: the autocorrelation of
`s ↦ e^{−|s|}` at the rescaled points `√3 x / ℓ`. -/
theorem matern32_1d_gram_psd (x : ι → ℝ) {ℓ : ℝ} (hℓ : 0 < ℓ) :
    (of fun i j => (1 + Real.sqrt 3 * (|x i - x j| / ℓ)) * Real.exp (-(Real.sqrt 3 * (|x i - x j| / ℓ))) :
      Matrix ι ι ℝ).PosSemidef := by
  have h := autocorr_gram_psd (fun s => Real.exp (-|s|)) (fun i => Real.sqrt 3 * (x i / ℓ))
    (fun i j => (integral_exp_abs_mul _ _).1)
  convert h using 1
  ext i j
  simp only [of_apply]
  rw [(integral_exp_abs_mul _ _).2]
  have e : |Real.sqrt 3 * (x i / ℓ) - Real.sqrt 3 * (x j / ℓ)| = Real.sqrt 3 * (|x i - x j| / ℓ) := by
    rw [← mul_sub, ← sub_div, abs_mul, abs_div, abs_of_nonneg (Real.sqrt_nonneg 3), abs_of_pos hℓ]
  rw [e]

/-! ### `g(s) = s² e^{−s} 1[s > 0]`: Matérn-5/2 in dimension one -/


/-- `∫₀^∞ u^k e^{−2u} du = k! / 2^{k+1}` (and the integrand is integrable). -/
theorem integral_pow_mul_exp_neg_two (k : ℕ) :
    IntegrableOn (fun u : ℝ => u ^ k * Real.exp (-(2 * u))) (Ioi 0) ∧
    ∫ u in Ioi (0 : ℝ), u ^ k * Real.exp (-(2 * u)) = (k.factorial : ℝ) / 2 ^ (k + 1) := by
  have hk : (0 : ℝ) < (k : ℝ) + 1 := by positivity
  have h := Real.integral_rpow_mul_exp_neg_mul_Ioi hk (by norm_num : (0 : ℝ) < 2)
  have e : EqOn (fun t : ℝ => t ^ ((k : ℝ) + 1 - 1) * Real.exp (-(2 * t))) (fun u : ℝ => u ^ k * Real.exp (-(2 * u))) (Ioi 0) := by
    intro t _
    simp only [add_sub_cancel_right, Real.rpow_natCast]
  rw [setIntegral_congr_fun measurableSet_Ioi e] at h
  have hval : (1 / (2 : ℝ)) ^ ((k : ℝ) + 1) * Real.Gamma ((k : ℝ) + 1) = (k.factorial : ℝ) / 2 ^ (k + 1) := by
    rw [Real.Gamma_nat_eq_factorial]
    have : ((k : ℝ) + 1) = ((k + 1 : ℕ) : ℝ) := by push_cast; ring
    rw [this, Real.rpow_natCast, one_div, inv_pow]
    field_simp
  rw [hval] at h
  refine ⟨?_, h⟩
  apply Integrable.of_integral_ne_zero
  rw [h]
  positivity

/-- the causal profile `s ↦ s² e^{−s} 1[s > 0]` (its autocorrelation is the Matérn-5/2 covariance). -/
noncomputable def causal2 (s : ℝ) : ℝ := (Ioi (0 : ℝ)).indicator (fun s => s ^ 2 * Real.exp (-s)) s

theorem causal2_autocorr_of_le {a b : ℝ} (hab : a ≤ b) :
    Integrable (fun t => causal2 (t - a) * causal2 (t - b)) volume ∧
    ∫ t, causal2 (t - a) * causal2 (t - b) = 3 / 4 * (1 + (b - a) + (b - a) ^ 2 / 3) * Real.exp (-(b - a)) := by
  set δ : ℝ := b - a with hδ
  have hδ0 : 0 ≤ δ := by linarith
  let P : ℝ → ℝ := fun u => (u ^ 4 * Real.exp (-(2 * u)) + 2 * δ * (u ^ 3 * Real.exp (-(2 * u))) +
    δ ^ 2 * (u ^ 2 * Real.exp (-(2 * u)))) * Real.exp (-δ)
  let F : ℝ → ℝ := (Ioi (0 : ℝ)).indicator P
  have hfF : (fun t => causal2 (t - a) * causal2 (t - b)) = fun t => F (t - b) := by
    funext t
    simp only [causal2, F, P, indicator_apply, mem_Ioi]
    by_cases h : 0 < t - b
    · have h' : 0 < t - a := by linarith
      simp only [if_pos h, if_pos h']
      have ta : t - a = (t - b) + δ := by rw [hδ]; ring
      rw [ta]
      have : Real.exp (-((t - b) + δ)) * Real.exp (-(t - b)) = Real.exp (-(2 * (t - b))) * Real.exp (-δ) := by
        rw [← Real.exp_add, ← Real.exp_add]; congr 1; ring
      calc ((t - b) + δ) ^ 2 * Real.exp (-((t - b) + δ)) * ((t - b) ^ 2 * Real.exp (-(t - b)))
          = ((t - b) + δ) ^ 2 * (t - b) ^ 2 * (Real.exp (-((t - b) + δ)) * Real.exp (-(t - b))) := by ring
        _ = _ := by rw [this]; ring
    · simp only [if_neg h, mul_zero]
  have i4 := integral_pow_mul_exp_neg_two 4
  have i3 := integral_pow_mul_exp_neg_two 3
  have i2 := integral_pow_mul_exp_neg_two 2
  have hPint : IntegrableOn P (Ioi 0) :=
    (((i4.1.add (i3.1.const_mul (2 * δ))).add (i2.1.const_mul (δ ^ 2))).mul_const _)
  have hFint : Integrable F volume := by
    rw [integrable_indicator_iff measurableSet_Ioi]; exact hPint
  have hFval : ∫ t, F t = 3 / 4 * (1 + δ + δ ^ 2 / 3) * Real.exp (-δ) := by
    rw [integral_indicator measurableSet_Ioi]
    show ∫ u in Ioi (0 : ℝ), (u ^ 4 * Real.exp (-(2 * u)) + 2 * δ * (u ^ 3 * Real.exp (-(2 * u))) +
      δ ^ 2 * (u ^ 2 * Real.exp (-(2 * u)))) * Real.exp (-δ) = _
    have j3 : IntegrableOn (fun u : ℝ => 2 * δ * (u ^ 3 * Real.exp (-(2 * u)))) (Ioi 0) := i3.1.const_mul (2 * δ)
    have j2 : IntegrableOn (fun u : ℝ => δ ^ 2 * (u ^ 2 * Real.exp (-(2 * u)))) (Ioi 0) := i2.1.const_mul (δ ^ 2)
    have j43 : IntegrableOn (fun u : ℝ => u ^ 4 * Real.exp (-(2 * u)) + 2 * δ * (u ^ 3 * Real.exp (-(2 * u)))) (Ioi 0) :=
      i4.1.add j3
    rw [integral_mul_const,
      integral_add (f := fun u : ℝ => u ^ 4 * Real.exp (-(2 * u)) + 2 * δ * (u ^ 3 * Real.exp (-(2 * u))))
        (g := fun u : ℝ => δ ^ 2 * (u ^ 2 * Real.exp (-(2 * u)))) j43 j2,
      integral_add (f := fun u : ℝ => u ^ 4 * Real.exp (-(2 * u)))
        (g := fun u : ℝ => 2 * δ * (u ^ 3 * Real.exp (-(2 * u)))) i4.1 j3,
      integral_const_mul, integral_const_mul, i4.2, i3.2, i2.2]
    norm_num [Nat.factorial]
    ring
  rw [hfF]
  refine ⟨hFint.comp_sub_right b, ?_⟩
  rw [integral_sub_right_eq_self F b, hFval]

/-- `∫ g(t−a) g(t−b) dt = ¾ (1 + |a−b| + |a−b|²/3) e^{−|a−b|}` for `g(s) = s² e^{−s} 1[s > 0]`, all `a, b`. -/
theorem causal2_autocorr (a b : ℝ) :
    Integrable (fun t => causal2 (t - a) * causal2 (t - b)) volume ∧
    ∫ t, causal2 (t - a) * causal2 (t - b) = 3 / 4 * (1 + |a - b| + |a - b| ^ 2 / 3) * Real.exp (-|a - b|) := by
  rcases le_total a b with h | h
  · have := causal2_autocorr_of_le h
    rw [abs_of_nonpos (by linarith : a - b ≤ 0)]
    refine ⟨this.1, ?_⟩
    rw [this.2]; ring_nf
  · have := causal2_autocorr_of_le h
    rw [abs_of_nonneg (by linarith : 0 ≤ a - b)]
    have e : (fun t => causal2 (t - a) * causal2 (t - b)) = fun t => causal2 (t - b) * causal2 (t - a) := by
      funext t; ring
    rw [e]
    exact this

/-- **Matérn-5/2 kernel in dimension one**: `(1 + √5 r + 5r²/3) e^{−√5 r}`, `r = |x_i − x_j| / ℓ`, `ℓ > 0`. -/
theorem matern52_1d_gram_psd (x : ι → ℝ) {ℓ : ℝ} (hℓ : 0 < ℓ) :
    (of fun i j => (1 + Real.sqrt 5 * (|x i - x j| / ℓ) + 5 / 3 * (|x i - x j| / ℓ) ^ 2) *
      Real.exp (-(Real.sqrt 5 * (|x i - x j| / ℓ))) : Matrix ι ι ℝ).PosSemidef := by
  have h := (autocorr_gram_psd causal2 (fun i => Real.sqrt 5 * (x i / ℓ))
    (fun i j => (causal2_autocorr _ _).1)).smul (by norm_num : (0 : ℝ) ≤ 4 / 3)
  convert h using 1
  ext i j
  rw [Matrix.smul_apply, smul_eq_mul]
  simp only [of_apply]
  rw [(causal2_autocorr _ _).2]
  have e : |Real.sqrt 5 * (x i / ℓ) - Real.sqrt 5 * (x j / ℓ)| = Real.sqrt 5 * (|x i - x j| / ℓ) := by
    rw [← mul_sub, ← sub_div, abs_mul, abs_div, abs_of_nonneg (Real.sqrt_nonneg 5), abs_of_pos hℓ]
  rw [e]
  have h5 : Real.sqrt 5 ^ 2 = 5 := Real.sq_sqrt (by norm_num)
  have : (Real.sqrt 5 * (|x i - x j| / ℓ)) ^ 2 = 5 * (|x i - x j| / ℓ) ^ 2 := by rw [mul_pow, h5]
  rw [this]; ring

/-! ### `g = 1_{(0,1]}`: the triangle kernel (piecewise polynomial, q = 0, d = 1) -/

/-- box autocorrelation: `∫ 1_{(0,1]}(t−a) 1_{(0,1]}(t−b) dt = max(0, 1 − |a−b|)`. -/
theorem box_autocorr (a b : ℝ) :
    Integrable (fun t => (Ioc (0 : ℝ) 1).indicator (fun _ => (1 : ℝ)) (t - a) * (Ioc (0 : ℝ) 1).indicator (fun _ => (1 : ℝ)) (t - b)) volume ∧
    ∫ t, (Ioc (0 : ℝ) 1).indicator (fun _ => (1 : ℝ)) (t - a) * (Ioc (0 : ℝ) 1).indicator (fun _ => (1 : ℝ)) (t - b) =
      max 0 (1 - |a - b|) := by
  have e : (fun t => (Ioc (0 : ℝ) 1).indicator (fun _ => (1 : ℝ)) (t - a) * (Ioc (0 : ℝ) 1).indicator (fun _ => (1 : ℝ)) (t - b)) =
      (Ioc (max a b) (min (a + 1) (b + 1))).indicator (fun _ => (1 : ℝ)) := by
    funext t
    simp only [indicator_apply, mem_Ioc, max_lt_iff, le_min_iff]
    by_cases h1 : 0 < t - a ∧ t - a ≤ 1 <;> by_cases h2 : 0 < t - b ∧ t - b ≤ 1
    · rw [if_pos h1, if_pos h2, if_pos ⟨⟨by linarith [h1.1], by linarith [h2.1]⟩, ⟨by linarith [h1.2], by linarith [h2.2]⟩⟩]; ring
    · rw [if_pos h1, if_neg h2, if_neg]; · ring
      rintro ⟨⟨_, q1⟩, ⟨_, q2⟩⟩; exact h2 ⟨by linarith, by linarith⟩
    · rw [if_neg h1, if_pos h2, if_neg]; · ring
      rintro ⟨⟨q1, _⟩, ⟨q2, _⟩⟩; exact h1 ⟨by linarith, by linarith⟩
    · rw [if_neg h1, if_neg h2, if_neg]; · ring
      rintro ⟨⟨q1, _⟩, ⟨q2, _⟩⟩; exact h1 ⟨by linarith, by linarith⟩
  rw [e]
  refine ⟨(integrable_indicator_iff measurableSet_Ioc).mpr (integrableOn_const (by simp)), ?_⟩
  rw [integral_indicator measurableSet_Ioc, setIntegral_const]
  simp only [smul_eq_mul, mul_one, Measure.real, Real.volume_Ioc]
  rcases le_total a b with h | h
  · rw [max_eq_right h, min_eq_left (by linarith : a + 1 ≤ b + 1), abs_of_nonpos (by linarith : a - b ≤ 0)]
    rcases le_total (a + 1 - b) 0 with h0 | h0
    · rw [ENNReal.ofReal_of_nonpos h0, max_eq_left (by linarith)]; simp
    · rw [ENNReal.toReal_ofReal h0, max_eq_right (by linarith)]; ring
  · rw [max_eq_left h, min_eq_right (by linarith : b + 1 ≤ a + 1), abs_of_nonneg (by linarith : 0 ≤ a - b)]
    rcases le_total (b + 1 - a) 0 with h0 | h0
    · rw [ENNReal.ofReal_of_nonpos h0, max_eq_left (by linarith)]; simp
    · rw [ENNReal.toReal_ofReal h0, max_eq_right (by linarith)]; ring

/-- **`PiecewisePolynomialKernel(q = 0)` in dimension one** (`j = ⌊1/2⌋ + 0 + 1 = 1`): the triangle kernel
`max(0, 1 − |x_i − x_j| / ℓ)`, `ℓ > 0` — the autocorrelation of the indicator of `(0, 1]`. -/
theorem piecewise0_1d_gram_psd (x : ι → ℝ) {ℓ : ℝ} (hℓ : 0 < ℓ) :
    (of fun i j => max 0 (1 - |x i - x j| / ℓ) : Matrix ι ι ℝ).PosSemidef := by
  have h := autocorr_gram_psd ((Ioc (0 : ℝ) 1).indicator (fun _ => (1 : ℝ))) (fun i => x i / ℓ)
    (fun i j => (box_autocorr _ _).1)
  convert h using 1
  ext i j
  simp only [of_apply]
  rw [(box_autocorr _ _).2, ← sub_div, abs_div, abs_of_pos hℓ]

end C07

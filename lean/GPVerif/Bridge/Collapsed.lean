/-
Matrix-level lemmas behind C15 ("the ELBO is a lower bound") for the Gaussian likelihood in whitened
coordinates: completion of squares `N·ELBO(q) = L_collapsed − KL(q ‖ q*)` and `L_collapsed ≤ log p(y)`.
-/
import GPVerif.Bridge.LogDet
import Mathlib.LinearAlgebra.Matrix.SchurComplement
import Mathlib.Analysis.SpecialFunctions.Trigonometric.Basic
import Mathlib.Tactic.NoncommRing
import Mathlib.Tactic.Module
import Mathlib.Tactic.Abel

open Matrix

set_option linter.unusedSectionVars false

namespace Collapsed
variable {m n : Type} [Fintype m] [DecidableEq m] [Fintype n] [DecidableEq n]

/-- precision of q*: P = I + s⁻¹ B Bᵀ -/
noncomputable def prec (B : Matrix m n ℝ) (s : ℝ) : Matrix m m ℝ := 1 + s⁻¹ • (B * Bᵀ)

/-- mean of q*: μ* = s⁻¹ P⁻¹ B r -/
noncomputable def muOpt (B : Matrix m n ℝ) (r : n → ℝ) (s : ℝ) : m → ℝ :=
  s⁻¹ • ((prec B s)⁻¹ *ᵥ (B *ᵥ r))

/-- N·ELBO for the Gaussian likelihood, full batch:  Σᵢ E_q log N(yᵢ; fᵢ, s) − KL(N(μ,S) ‖ N(0,I)),
    where q(f) has mean mX + Bᵀμ and covariance K̃xx − BᵀB + BᵀSB -/
noncomputable def elboN (B : Matrix m n ℝ) (r : n → ℝ) (s tK : ℝ) (μ : m → ℝ) (S : Matrix m m ℝ) : ℝ :=
  -(1/2) * (s⁻¹ * ((r - Bᵀ *ᵥ μ) ⬝ᵥ (r - Bᵀ *ᵥ μ) + (tK - (Bᵀ * B).trace + (Bᵀ * S * B).trace))
            + Fintype.card n * Real.log s + Fintype.card n * Real.log (2 * Real.pi))
  - (1/2) * (S.trace + μ ⬝ᵥ μ - Fintype.card m - Real.log S.det)

/-- collapsed bound  log N(r; 0, BᵀB + sI) − (tK − tr BᵀB)/(2s) -/
noncomputable def collapsedBound (B : Matrix m n ℝ) (r : n → ℝ) (s tK : ℝ) : ℝ :=
  -(1/2) * (r ⬝ᵥ ((Bᵀ * B + s • 1)⁻¹ *ᵥ r) + Real.log (Bᵀ * B + s • 1).det
            + Fintype.card n * Real.log (2 * Real.pi))
  - (tK - (Bᵀ * B).trace) / (2 * s)

/-- KL(N(μ,S) ‖ q*),  q* = N(μ*, P⁻¹) -/
noncomputable def klToOpt (B : Matrix m n ℝ) (r : n → ℝ) (s : ℝ) (μ : m → ℝ) (S : Matrix m m ℝ) : ℝ :=
  (1/2) * ((prec B s * S).trace + (μ - muOpt B r s) ⬝ᵥ (prec B s *ᵥ (μ - muOpt B r s)) - Fintype.card m
           - (Real.log S.det - Real.log ((prec B s)⁻¹).det))

/-! ### determinant lemma, positive definiteness, Woodbury -/

/-- determinant lemma: det(BᵀB + sI) = sⁿ · det(I + s⁻¹BBᵀ) -/
theorem det_nystrom_add (B : Matrix m n ℝ) (s : ℝ) (hs : 0 < s) :
    (Bᵀ * B + s • (1 : Matrix n n ℝ)).det = s ^ Fintype.card n * (prec B s).det := by
  have e : Bᵀ * B + s • (1 : Matrix n n ℝ) = s • (1 + (s⁻¹ • Bᵀ) * B) := by
    rw [smul_add, Matrix.smul_mul, smul_smul, mul_inv_cancel₀ hs.ne', one_smul, add_comm]
  rw [e, Matrix.det_smul, Matrix.det_one_add_mul_comm, prec, Matrix.mul_smul]

/-- prec is positive definite (hence invertible) -/
theorem prec_posDef (B : Matrix m n ℝ) (s : ℝ) (hs : 0 < s) : (prec B s).PosDef := by
  unfold prec
  refine Matrix.PosDef.one.add_posSemidef ?_
  have h : (B * Bᵀ).PosSemidef := by
    simpa [Matrix.conjTranspose_eq_transpose_of_trivial] using Matrix.posSemidef_self_mul_conjTranspose B
  exact h.smul (inv_pos.mpr hs).le

theorem prec_isUnit_det (B : Matrix m n ℝ) (s : ℝ) (hs : 0 < s) : IsUnit (prec B s).det :=
  (Matrix.isUnit_iff_isUnit_det _).mp (prec_posDef B s hs).isUnit

theorem prec_transpose (B : Matrix m n ℝ) (s : ℝ) : (prec B s)ᵀ = prec B s := by
  unfold prec
  rw [Matrix.transpose_add, Matrix.transpose_one, Matrix.transpose_smul, Matrix.transpose_mul,
    Matrix.transpose_transpose]

/-- the Nyström-plus-noise matrix is positive definite. -/
theorem nystrom_add_posDef (B : Matrix m n ℝ) (s : ℝ) (hs : 0 < s) :
    (Bᵀ * B + s • (1 : Matrix n n ℝ)).PosDef := by
  have h : (Bᵀ * B).PosSemidef := by
    simpa [Matrix.conjTranspose_eq_transpose_of_trivial] using Matrix.posSemidef_conjTranspose_mul_self B
  exact Matrix.PosDef.posSemidef_add h (Matrix.PosDef.one.smul hs)

/-- `B Bᵀ P⁻¹ X = s (X − P⁻¹ X)`. -/
theorem BBt_precInv_mul {k : Type} [Fintype k] (B : Matrix m n ℝ) (s : ℝ) (hs : 0 < s) (X : Matrix m k ℝ) :
    B * (Bᵀ * ((prec B s)⁻¹ * X)) = s • (X - (prec B s)⁻¹ * X) := by
  have hP := prec_isUnit_det B s hs
  have e : B * Bᵀ = s • (prec B s - 1) := by
    unfold prec
    rw [add_sub_cancel_left, smul_smul, mul_inv_cancel₀ hs.ne', one_smul]
  rw [← Matrix.mul_assoc, e, Matrix.smul_mul, Matrix.sub_mul, Matrix.one_mul,
    Matrix.mul_nonsing_inv_cancel_left _ _ hP]

/-- Woodbury: (BᵀB + sI)⁻¹ = s⁻¹ I − s⁻² Bᵀ P⁻¹ B -/
theorem inv_nystrom_add (B : Matrix m n ℝ) (s : ℝ) (hs : 0 < s) :
    (Bᵀ * B + s • (1 : Matrix n n ℝ))⁻¹
      = s⁻¹ • (1 : Matrix n n ℝ) - s⁻¹ ^ 2 • (Bᵀ * ((prec B s)⁻¹ * B)) := by
  apply Matrix.inv_eq_right_inv
  simp only [Matrix.add_mul, Matrix.mul_sub, Matrix.smul_mul, Matrix.mul_smul, Matrix.mul_one,
    Matrix.one_mul, Matrix.mul_assoc, BBt_precInv_mul B s hs]
  match_scalars <;> field_simp <;> ring

/-- Woodbury for the quadratic term: rᵀ(BᵀB+sI)⁻¹r = s⁻¹ rᵀr − s⁻² (Br)ᵀ P⁻¹ (Br) -/
theorem quad_woodbury (B : Matrix m n ℝ) (r : n → ℝ) (s : ℝ) (hs : 0 < s) :
    r ⬝ᵥ ((Bᵀ * B + s • 1)⁻¹ *ᵥ r)
      = s⁻¹ * (r ⬝ᵥ r) - s⁻¹ ^ 2 * ((B *ᵥ r) ⬝ᵥ ((prec B s)⁻¹ *ᵥ (B *ᵥ r))) := by
  have e : r ⬝ᵥ ((Bᵀ * ((prec B s)⁻¹ * B)) *ᵥ r) = (B *ᵥ r) ⬝ᵥ ((prec B s)⁻¹ *ᵥ (B *ᵥ r)) := by
    rw [← Matrix.mulVec_mulVec, ← Matrix.mulVec_mulVec, Matrix.dotProduct_mulVec,
      Matrix.vecMul_transpose]
  rw [inv_nystrom_add B s hs, Matrix.sub_mulVec, Matrix.smul_mulVec, Matrix.smul_mulVec,
    Matrix.one_mulVec, dotProduct_sub, dotProduct_smul, dotProduct_smul, e, smul_eq_mul, smul_eq_mul]

/-! ### completion of squares: scalar atoms -/

theorem sq_resid (B : Matrix m n ℝ) (r : n → ℝ) (μ : m → ℝ) :
    (r - Bᵀ *ᵥ μ) ⬝ᵥ (r - Bᵀ *ᵥ μ) = r ⬝ᵥ r - 2 * (μ ⬝ᵥ (B *ᵥ r)) + μ ⬝ᵥ ((B * Bᵀ) *ᵥ μ) := by
  have e1 : r ⬝ᵥ (Bᵀ *ᵥ μ) = μ ⬝ᵥ (B *ᵥ r) := by
    rw [Matrix.dotProduct_mulVec, Matrix.vecMul_transpose, dotProduct_comm]
  have e2 : (Bᵀ *ᵥ μ) ⬝ᵥ (Bᵀ *ᵥ μ) = μ ⬝ᵥ ((B * Bᵀ) *ᵥ μ) := by
    rw [← Matrix.mulVec_mulVec, Matrix.dotProduct_mulVec μ, ← Matrix.mulVec_transpose]
  rw [sub_dotProduct, dotProduct_sub, dotProduct_sub, dotProduct_comm (Bᵀ *ᵥ μ) r, e1, e2]
  ring

theorem quad_prec (B : Matrix m n ℝ) (s : ℝ) (μ : m → ℝ) :
    μ ⬝ᵥ (prec B s *ᵥ μ) = μ ⬝ᵥ μ + s⁻¹ * (μ ⬝ᵥ ((B * Bᵀ) *ᵥ μ)) := by
  unfold prec
  rw [Matrix.add_mulVec, Matrix.one_mulVec, Matrix.smul_mulVec, dotProduct_add, dotProduct_smul,
    smul_eq_mul]

theorem prec_mulVec_muOpt (B : Matrix m n ℝ) (r : n → ℝ) (s : ℝ) (hs : 0 < s) :
    prec B s *ᵥ muOpt B r s = s⁻¹ • (B *ᵥ r) := by
  unfold muOpt
  rw [Matrix.mulVec_smul, Matrix.mulVec_mulVec, Matrix.mul_nonsing_inv _ (prec_isUnit_det B s hs),
    Matrix.one_mulVec]

theorem quad_kl (B : Matrix m n ℝ) (r : n → ℝ) (s : ℝ) (hs : 0 < s) (μ : m → ℝ) :
    (μ - muOpt B r s) ⬝ᵥ (prec B s *ᵥ (μ - muOpt B r s))
      = μ ⬝ᵥ (prec B s *ᵥ μ) - 2 * s⁻¹ * (μ ⬝ᵥ (B *ᵥ r))
        + s⁻¹ ^ 2 * ((B *ᵥ r) ⬝ᵥ ((prec B s)⁻¹ *ᵥ (B *ᵥ r))) := by
  have e1 : muOpt B r s ⬝ᵥ (prec B s *ᵥ μ) = s⁻¹ * (μ ⬝ᵥ (B *ᵥ r)) := by
    rw [Matrix.dotProduct_mulVec, ← Matrix.mulVec_transpose, prec_transpose,
      prec_mulVec_muOpt B r s hs, smul_dotProduct, smul_eq_mul, dotProduct_comm]
  have e2 : muOpt B r s ⬝ᵥ (B *ᵥ r) = s⁻¹ * ((B *ᵥ r) ⬝ᵥ ((prec B s)⁻¹ *ᵥ (B *ᵥ r))) := by
    unfold muOpt
    rw [smul_dotProduct, smul_eq_mul, dotProduct_comm]
  rw [Matrix.mulVec_sub, prec_mulVec_muOpt B r s hs, sub_dotProduct, dotProduct_sub, dotProduct_sub,
    dotProduct_smul, dotProduct_smul, e1, e2, smul_eq_mul, smul_eq_mul]
  ring

theorem trace_prec_mul (B : Matrix m n ℝ) (s : ℝ) (S : Matrix m m ℝ) :
    (prec B s * S).trace = S.trace + s⁻¹ * (Bᵀ * S * B).trace := by
  unfold prec
  rw [Matrix.add_mul, Matrix.one_mul, Matrix.smul_mul, Matrix.trace_add, Matrix.trace_smul,
    smul_eq_mul, Matrix.trace_mul_cycle Bᵀ S B]

theorem logdet_nystrom_add (B : Matrix m n ℝ) (s : ℝ) (hs : 0 < s) :
    Real.log (Bᵀ * B + s • (1 : Matrix n n ℝ)).det
      = Fintype.card n * Real.log s + Real.log (prec B s).det := by
  rw [det_nystrom_add B s hs, Real.log_mul (pow_ne_zero _ hs.ne') (prec_posDef B s hs).det_pos.ne',
    Real.log_pow]

theorem logdet_prec_inv (B : Matrix m n ℝ) (s : ℝ) :
    Real.log ((prec B s)⁻¹).det = - Real.log (prec B s).det := by
  rw [Matrix.det_nonsing_inv, Ring.inverse_eq_inv', Real.log_inv]

/-! ### completion of squares -/

/-- completion of squares: N·ELBO(q) = L_collapsed − KL(q ‖ q*)
(`hS` is not needed for the identity itself; kept so all the ELBO lemmas share one signature). -/
theorem elbo_eq_collapsed_sub_kl (B : Matrix m n ℝ) (r : n → ℝ) (s tK : ℝ) (hs : 0 < s) (μ : m → ℝ)
    (S : Matrix m m ℝ) (hS : S.PosDef) :
    elboN B r s tK μ S = collapsedBound B r s tK - klToOpt B r s μ S := by
  have _ := hS
  unfold elboN collapsedBound klToOpt
  rw [sq_resid, quad_kl B r s hs, quad_prec, trace_prec_mul, logdet_nystrom_add B s hs,
    logdet_prec_inv, quad_woodbury B r s hs]
  ring

/-- KL(q ‖ q*) ≥ 0 -/
theorem klToOpt_nonneg (B : Matrix m n ℝ) (r : n → ℝ) (s : ℝ) (hs : 0 < s) (μ : m → ℝ)
    (S : Matrix m m ℝ) (hS : S.PosDef) : 0 ≤ klToOpt B r s μ S := by
  have h := LogDet.gaussian_kl_nonneg_posDef (prec B s)⁻¹ S (μ - muOpt B r s)
    (prec_posDef B s hs).inv hS
  rw [Matrix.nonsing_inv_nonsing_inv _ (prec_isUnit_det B s hs)] at h
  exact h

/-- hence the bound, with equality at q* -/
theorem elbo_le_collapsed (B : Matrix m n ℝ) (r : n → ℝ) (s tK : ℝ) (hs : 0 < s) (μ : m → ℝ)
    (S : Matrix m m ℝ) (hS : S.PosDef) :
    elboN B r s tK μ S ≤ collapsedBound B r s tK := by
  rw [elbo_eq_collapsed_sub_kl B r s tK hs μ S hS]
  linarith [klToOpt_nonneg B r s hs μ S hS]

theorem klToOpt_at_opt (B : Matrix m n ℝ) (r : n → ℝ) (s : ℝ) (hs : 0 < s) :
    klToOpt B r s (muOpt B r s) ((prec B s)⁻¹) = 0 := by
  unfold klToOpt
  rw [Matrix.mul_nonsing_inv _ (prec_isUnit_det B s hs), Matrix.trace_one, sub_self,
    Matrix.mulVec_zero, dotProduct_zero]
  ring

theorem elbo_at_opt (B : Matrix m n ℝ) (r : n → ℝ) (s tK : ℝ) (hs : 0 < s) :
    elboN B r s tK (muOpt B r s) ((prec B s)⁻¹) = collapsedBound B r s tK := by
  rw [elbo_eq_collapsed_sub_kl B r s tK hs _ _ (prec_posDef B s hs).inv, klToOpt_at_opt B r s hs,
    sub_zero]

/-! ### collapsed bound ≤ exact log marginal likelihood -/

/-- Loewner antitonicity of the inverse, as quadratic forms: `A ≤ C` ⇒ `xᵀC⁻¹x ≤ xᵀA⁻¹x`. -/
theorem quad_inv_antitone (A C : Matrix n n ℝ) (hA : A.PosDef) (hC : C.PosDef)
    (hE : (C - A).PosSemidef) (x : n → ℝ) :
    x ⬝ᵥ (C⁻¹ *ᵥ x) ≤ x ⬝ᵥ (A⁻¹ *ᵥ x) := by
  have hAu : IsUnit A.det := (Matrix.isUnit_iff_isUnit_det _).mp hA.isUnit
  have hCu : IsUnit C.det := (Matrix.isUnit_iff_isUnit_det _).mp hC.isUnit
  have hAt : Aᵀ = A := by
    have := hA.isHermitian
    rwa [Matrix.IsHermitian, Matrix.conjTranspose_eq_transpose_of_trivial] at this
  set u := C⁻¹ *ᵥ x with hu
  set v := A⁻¹ *ᵥ x with hv
  have hAv : A *ᵥ v = x := by
    rw [hv, Matrix.mulVec_mulVec, Matrix.mul_nonsing_inv _ hAu, Matrix.one_mulVec]
  have hCu' : C *ᵥ u = x := by
    rw [hu, Matrix.mulVec_mulVec, Matrix.mul_nonsing_inv _ hCu, Matrix.one_mulVec]
  have h1 : 0 ≤ (v - u) ⬝ᵥ (A *ᵥ (v - u)) := by
    have := hA.posSemidef.dotProduct_mulVec_nonneg (v - u)
    simpa using this
  have h2 : 0 ≤ u ⬝ᵥ ((C - A) *ᵥ u) := by
    have := hE.dotProduct_mulVec_nonneg u
    simpa using this
  have e1 : v ⬝ᵥ (A *ᵥ u) = x ⬝ᵥ u := by
    rw [Matrix.dotProduct_mulVec, ← Matrix.mulVec_transpose, hAt, hAv]
  rw [Matrix.mulVec_sub, hAv, sub_dotProduct, dotProduct_sub, dotProduct_sub, e1] at h1
  rw [Matrix.sub_mulVec, hCu', dotProduct_sub] at h2
  have c1 : u ⬝ᵥ x = x ⬝ᵥ u := dotProduct_comm _ _
  have c2 : v ⬝ᵥ x = x ⬝ᵥ v := dotProduct_comm _ _
  linarith

/-- the trace of (positive definite) × (positive semidefinite) is non-negative. -/
theorem trace_mul_nonneg (Q M : Matrix m m ℝ) (hQ : Q.PosDef) (hM : M.PosSemidef) :
    0 ≤ (Q * M).trace := by
  obtain ⟨L, _, rfl⟩ := LogDet.exists_factor Q hQ
  have h : (Lᵀ * M * L).PosSemidef := by
    simpa [Matrix.conjTranspose_eq_transpose_of_trivial] using hM.conjTranspose_mul_mul_same L
  have := h.trace_nonneg
  rwa [Matrix.trace_mul_cycle] at this

/-- `tr((BᵀB + sI)⁻¹ E) ≤ s⁻¹ tr E` for positive semidefinite `E`. -/
theorem trace_inv_nystrom_mul_le (B : Matrix m n ℝ) (s : ℝ) (hs : 0 < s) (E : Matrix n n ℝ)
    (hE : E.PosSemidef) :
    ((Bᵀ * B + s • (1 : Matrix n n ℝ))⁻¹ * E).trace ≤ s⁻¹ * E.trace := by
  have hM : (B * E * Bᵀ).PosSemidef := by
    simpa [Matrix.conjTranspose_eq_transpose_of_trivial] using hE.mul_mul_conjTranspose_same B
  have h := trace_mul_nonneg (prec B s)⁻¹ (B * E * Bᵀ) (prec_posDef B s hs).inv hM
  have e : (Bᵀ * ((prec B s)⁻¹ * B) * E).trace = ((prec B s)⁻¹ * (B * E * Bᵀ)).trace := by
    rw [Matrix.mul_assoc, Matrix.trace_mul_comm]
    simp only [Matrix.mul_assoc]
  rw [inv_nystrom_add B s hs, Matrix.sub_mul, Matrix.smul_mul, Matrix.smul_mul, Matrix.one_mul,
    Matrix.trace_sub, Matrix.trace_smul, Matrix.trace_smul, e, smul_eq_mul, smul_eq_mul]
  have : 0 ≤ s⁻¹ ^ 2 * ((prec B s)⁻¹ * (B * E * Bᵀ)).trace := mul_nonneg (by positivity) h
  linarith

/-- collapsed ≤ exact: with E := Kxx − BᵀB positive semidefinite (Schur complement) and tK = tr Kxx:
    collapsedBound ≤ log N(r; 0, Kxx + sI) -/
theorem collapsed_le_exact (B : Matrix m n ℝ) (Kxx : Matrix n n ℝ) (r : n → ℝ) (s : ℝ) (hs : 0 < s)
    (hK : Kxx.IsHermitian) (hE : (Kxx - Bᵀ * B).PosSemidef) :
    collapsedBound B r s Kxx.trace
      ≤ -(1/2) * (r ⬝ᵥ ((Kxx + s • 1)⁻¹ *ᵥ r) + Real.log (Kxx + s • 1).det
                  + Fintype.card n * Real.log (2 * Real.pi)) := by
  have _ := hK  -- implied by `hE`; kept in the signature for the caller
  have hA := nystrom_add_posDef B s hs
  have hAu : IsUnit (Bᵀ * B + s • (1 : Matrix n n ℝ)).det :=
    (Matrix.isUnit_iff_isUnit_det _).mp hA.isUnit
  have hCA : Kxx + s • (1 : Matrix n n ℝ) = (Bᵀ * B + s • 1) + (Kxx - Bᵀ * B) := by abel
  have hsub : (Kxx + s • (1 : Matrix n n ℝ)) - (Bᵀ * B + s • 1) = Kxx - Bᵀ * B := by abel
  have hC : (Kxx + s • (1 : Matrix n n ℝ)).PosDef := by
    rw [hCA]; exact hA.add_posSemidef hE
  have hquad := quad_inv_antitone (Bᵀ * B + s • 1) (Kxx + s • 1) hA hC (by rw [hsub]; exact hE) r
  have hlog := LogDet.logdet_pair_le_posDef (Bᵀ * B + s • 1) (Kxx + s • 1) hA hC
  have htr : ((Bᵀ * B + s • (1 : Matrix n n ℝ))⁻¹ * (Kxx + s • 1)).trace
      = Fintype.card n + ((Bᵀ * B + s • (1 : Matrix n n ℝ))⁻¹ * (Kxx - Bᵀ * B)).trace := by
    conv_lhs => rw [hCA, Matrix.mul_add, Matrix.nonsing_inv_mul _ hAu, Matrix.trace_add,
      Matrix.trace_one]
  have hle := trace_inv_nystrom_mul_le B s hs _ hE
  rw [Matrix.trace_sub] at hle
  rw [htr] at hlog
  unfold collapsedBound
  have hdiv : (Kxx.trace - (Bᵀ * B).trace) / (2 * s) = (1/2) * (s⁻¹ * (Kxx.trace - (Bᵀ * B).trace)) := by
    field_simp
  rw [hdiv]
  linarith

/-! the hypotheses are satisfiable (e.g. `B = 0`, `Kxx = S = 1`, `s = 1`) -/
example : (1 : Matrix (Fin 2) (Fin 2) ℝ).PosDef := Matrix.PosDef.one
example : ((1 : Matrix (Fin 2) (Fin 2) ℝ)
    - (0 : Matrix (Fin 3) (Fin 2) ℝ)ᵀ * (0 : Matrix (Fin 3) (Fin 2) ℝ)).PosSemidef := by
  simpa using (Matrix.PosSemidef.one : (1 : Matrix (Fin 2) (Fin 2) ℝ).PosSemidef)
example : (1 : Matrix (Fin 2) (Fin 2) ℝ).IsHermitian := Matrix.isHermitian_one

end Collapsed

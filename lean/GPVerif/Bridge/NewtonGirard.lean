/-
Newton–Girard: the coded recursion `e_n = (1/n) Σ_{k=1..n} (−1)^{k−1} e_{n−k} p_k` (`Kernels.ngTable`, as in
`NewtonGirardAdditiveKernel.forward` / `sum_interaction_terms`) computes the elementary symmetric
polynomials (`Kernels.esymm`, defining recursion) — all orders, all list lengths.  From Mathlib's
`MvPolynomial.mul_esymm_eq_sum`.
-/
import Mathlib.RingTheory.MvPolynomial.Symmetric.NewtonIdentities
import GPVerif.Bridge.ScalarReal
import GPVerif.Model.Kernels

namespace Kernels
open Scalar Finset

theorem esymm_zero' (zs : List ℝ) : esymm zs 0 = 1 := by
  cases zs <;> simp [esymm]

theorem esymm_nil_succ (k : ℕ) : esymm ([] : List ℝ) (k + 1) = 0 := by simp [esymm]

theorem esymm_cons_succ (z : ℝ) (zs : List ℝ) (k : ℕ) :
    esymm (z :: zs) (k + 1) = esymm zs (k + 1) + z * esymm zs k := by simp [esymm]

theorem multiset_esymm_cons (z : ℝ) (s : Multiset ℝ) (k : ℕ) :
    (z ::ₘ s).esymm (k + 1) = s.esymm (k + 1) + z * s.esymm k := by
  simp only [Multiset.esymm, Multiset.powersetCard_cons, Multiset.map_add, Multiset.sum_add, Multiset.map_map,
    Function.comp_def, Multiset.prod_cons]
  rw [Multiset.sum_map_mul_left]

theorem esymm_eq_multiset (zs : List ℝ) (k : ℕ) : esymm zs k = (zs : Multiset ℝ).esymm k := by
  induction zs generalizing k with
  | nil =>
    cases k with
    | zero => simp [esymm, Multiset.esymm]
    | succ k => simp [esymm, Multiset.esymm, Multiset.powersetCard_zero_right]
  | cons z zs ih =>
    cases k with
    | zero => simp [esymm, Multiset.esymm]
    | succ k =>
      rw [esymm_cons_succ, ih, ih, ← Multiset.cons_coe, multiset_esymm_cons]

theorem psum_eq_sum (zs : List ℝ) (k : ℕ) : psum zs k = ∑ i : Fin zs.length, zs.get i ^ k := by
  simp only [psum, sum_eq_list_sum, npow_real]
  rw [← List.sum_ofFn]
  congr 1
  apply List.ext_getElem (by simp)
  intro i h1 h2
  simp

/-- Newton's identity on lists of reals -/
theorem newton_list (zs : List ℝ) (k : ℕ) :
    (k : ℝ) * esymm zs k = (-1) ^ (k + 1) *
      ∑ a ∈ antidiagonal k with a.1 < k, (-1) ^ a.1 * esymm zs a.1 * psum zs a.2 := by
  have h := congrArg (MvPolynomial.aeval (fun i : Fin zs.length => zs.get i))
    (MvPolynomial.mul_esymm_eq_sum (Fin zs.length) ℝ k)
  simp only [map_mul, map_natCast, map_pow, map_neg, map_one, map_sum,
    MvPolynomial.aeval_esymm_eq_multiset_esymm, Fin.univ_val_map, List.ofFn_get, MvPolynomial.psum,
    MvPolynomial.aeval_X] at h
  simpa only [esymm_eq_multiset, psum_eq_sum] using h

theorem sign_eq (k : ℕ) (x : ℝ) : (if k % 2 = 1 then x else -x) = (-1) ^ (k + 1) * x := by
  rcases Nat.even_or_odd k with h | h
  · have : k % 2 ≠ 1 := by rw [Nat.even_iff.mp h]; decide
    rw [if_neg this, Odd.neg_one_pow (Even.add_one h)]; ring
  · rw [if_pos (Nat.odd_iff.mp h), Even.neg_one_pow (Odd.add_one h)]; ring

theorem go_eq (zs es : List ℝ) (k0 : ℕ) :
    ngTable.go zs es k0 = ∑ t ∈ range es.length, (-1) ^ (k0 + t + 1) * (es.getD t 0 * psum zs (k0 + t)) := by
  induction es generalizing k0 with
  | nil => simp [ngTable.go]
  | cons e es ih =>
    simp only [ngTable.go, List.length_cons]
    rw [Finset.sum_range_succ', ih (k0 + 1), sign_eq]
    simp only [List.getD_cons_succ, List.getD_cons_zero, add_zero]
    rw [add_comm]
    congr 1
    apply Finset.sum_congr rfl
    intro t _
    congr 2 <;> ring_nf

theorem ngTable_eq (zs : List ℝ) (n : ℕ) :
    ngTable zs n = (List.range (n + 1)).map (fun t => esymm zs (n - t)) := by
  induction n with
  | zero => simp [ngTable, esymm_zero']
  | succ n ih =>
    have hE : ngTable.go zs (ngTable zs n) 1 / ((n + 1 : ℕ) : ℝ) = esymm zs (n + 1) := by
      rw [go_eq, ih]
      simp only [List.length_map, List.length_range]
      have hN := newton_list zs (n + 1)
      have hne : ((n + 1 : ℕ) : ℝ) ≠ 0 := by positivity
      rw [div_eq_iff hne, mul_comm, hN, Finset.sum_filter, Finset.Nat.sum_antidiagonal_succ']
      simp only [lt_self_iff_false, if_false, zero_add]
      rw [Finset.Nat.sum_antidiagonal_eq_sum_range_succ_mk, Finset.mul_sum, ← Finset.sum_range_reflect]
      apply Finset.sum_congr rfl
      intro t ht
      have ht' : t < n + 1 := Finset.mem_range.mp ht
      have h1 : n + 1 - 1 - t = n - t := by omega
      have h3 : n - (n - t) = t := by omega
      have h4 : 1 + (n - t) = n - t + 1 := by omega
      have hlt : n - t < n + 1 := by omega
      simp only [h1, ht', if_true]
      rw [List.getD_eq_getElem?_getD, List.getElem?_map, List.getElem?_range hlt]
      simp only [Option.map_some, Option.getD_some, h3, h4]
      have hs : ((-1 : ℝ)) ^ (n - t + 1 + 1) = (-1) ^ (n + 1 + 1) * (-1) ^ t := by
        rw [← pow_add]
        have : n + 1 + 1 + t = (n - t + 1 + 1) + 2 * t := by omega
        rw [this, pow_add (-1 : ℝ) (n - t + 1 + 1) (2 * t), pow_mul]; simp
      rw [hs]; ring
    show (ngTable.go zs (ngTable zs n) 1 / Scalar.lit (((n + 1 : ℕ) : ℚ))) :: ngTable zs n = _
    rw [lit_real]
    push_cast at hE ⊢
    rw [hE, ih, List.range_succ_eq_map (n := n + 1), List.map_cons, List.map_map]
    congr 1
    apply List.map_congr_left
    intro t _
    simp

/-- **Newton–Girard**: the coded recursion yields `e_n`, for every order `n` and every list -/
theorem esymmNG_eq_esymm (zs : List ℝ) (n : ℕ) : esymmNG zs n = esymm zs n := by
  simp [esymmNG, ngTable_eq, List.range_succ_eq_map]

end Kernels

/-
The exact-moment recursion `Quadrature.gaussMoment` is the sequence of moments of the real Gaussian
measure `gaussianReal m v` (Mathlib).  Route: the moment generating function of `N(m, v)` is
`g t = exp (m t + v t² / 2)`; its iterated derivatives at `0` are the moments
(`iteratedDeriv_mgf_zero`), and `g' = (m + v t) g` gives the three-term recursion
`g⁽ᵏ⁺²⁾ = (m + v t) g⁽ᵏ⁺¹⁾ + (k + 1) v g⁽ᵏ⁾`.
-/
import GPVerif.Model.Quadrature
import Mathlib.Probability.Distributions.Gaussian.Real
import Mathlib.Probability.Moments.MGFAnalytic
import Mathlib.Analysis.Calculus.IteratedDeriv.Lemmas
import Mathlib.Algebra.Polynomial.Eval.Defs

open MeasureTheory ProbabilityTheory

namespace GaussMoments

/-- the moment generating function of `N(m, v)`. -/
noncomputable def mgfFn (m v : ℝ) (t : ℝ) : ℝ := Real.exp (m * t + v * t ^ 2 / 2)

lemma contDiff_mgfFn (m v : ℝ) (n : WithTop ℕ∞) : ContDiff ℝ n (mgfFn m v) := by
  unfold mgfFn
  fun_prop

lemma differentiable_iteratedDeriv_mgfFn (m v : ℝ) (n : ℕ) :
    Differentiable ℝ (iteratedDeriv n (mgfFn m v)) :=
  (contDiff_mgfFn m v (n + 1)).differentiable_iteratedDeriv' n

lemma hasDerivAt_mgfFn (m v t : ℝ) :
    HasDerivAt (mgfFn m v) ((m + v * t) * mgfFn m v t) t := by
  have h1 : HasDerivAt (fun t : ℝ => m * t + v * t ^ 2 / 2) (m + v * t) t :=
    (((hasDerivAt_id' t).const_mul m).add
      (((hasDerivAt_pow 2 t).const_mul v).div_const 2)).congr_deriv (by simp; ring)
  have := h1.exp
  unfold mgfFn
  convert this using 1
  ring

/-- `g⁽¹⁾ = (m + v t) g`. -/
lemma iteratedDeriv_one_mgfFn (m v : ℝ) :
    iteratedDeriv 1 (mgfFn m v) = fun t => (m + v * t) * iteratedDeriv 0 (mgfFn m v) t := by
  funext t
  rw [iteratedDeriv_one, iteratedDeriv_zero]
  exact (hasDerivAt_mgfFn m v t).deriv

/-- `g⁽ᵏ⁺²⁾ = (m + v t) g⁽ᵏ⁺¹⁾ + (k + 1) v g⁽ᵏ⁾`. -/
lemma iteratedDeriv_add_two_mgfFn (m v : ℝ) (k : ℕ) :
    iteratedDeriv (k + 2) (mgfFn m v) = fun t =>
      (m + v * t) * iteratedDeriv (k + 1) (mgfFn m v) t
        + ((k + 1 : ℕ) : ℝ) * v * iteratedDeriv k (mgfFn m v) t := by
  induction k with
  | zero =>
    funext t
    rw [iteratedDeriv_succ, iteratedDeriv_one_mgfFn]
    have hlin : HasDerivAt (fun t : ℝ => m + v * t) v t := by
      simpa using ((hasDerivAt_id t).const_mul v).const_add m
    have h0 : HasDerivAt (iteratedDeriv 0 (mgfFn m v))
        ((m + v * t) * iteratedDeriv 0 (mgfFn m v) t) t := by
      rw [iteratedDeriv_zero]; exact hasDerivAt_mgfFn m v t
    have hd : HasDerivAt (fun t => (m + v * t) * iteratedDeriv 0 (mgfFn m v) t)
        (v * iteratedDeriv 0 (mgfFn m v) t
          + (m + v * t) * ((m + v * t) * iteratedDeriv 0 (mgfFn m v) t)) t := hlin.mul h0
    rw [hd.deriv]
    push_cast
    ring
  | succ k ih =>
    funext t
    rw [iteratedDeriv_succ, ih]
    have hlin : HasDerivAt (fun t : ℝ => m + v * t) v t := by
      simpa using ((hasDerivAt_id t).const_mul v).const_add m
    have hk1 : HasDerivAt (iteratedDeriv (k + 1) (mgfFn m v))
        (iteratedDeriv (k + 2) (mgfFn m v) t) t := by
      rw [iteratedDeriv_succ (n := k + 1)]
      exact (differentiable_iteratedDeriv_mgfFn m v (k + 1) t).hasDerivAt
    have hk0 : HasDerivAt (iteratedDeriv k (mgfFn m v))
        (iteratedDeriv (k + 1) (mgfFn m v) t) t := by
      rw [iteratedDeriv_succ (n := k)]
      exact (differentiable_iteratedDeriv_mgfFn m v k t).hasDerivAt
    have hd : HasDerivAt (fun t => (m + v * t) * iteratedDeriv (k + 1) (mgfFn m v) t
          + ((k + 1 : ℕ) : ℝ) * v * iteratedDeriv k (mgfFn m v) t)
        (v * iteratedDeriv (k + 1) (mgfFn m v) t
          + (m + v * t) * iteratedDeriv (k + 2) (mgfFn m v) t
          + ((k + 1 : ℕ) : ℝ) * v * iteratedDeriv (k + 1) (mgfFn m v) t) t :=
      (hlin.mul hk1).add (hk0.const_mul (((k + 1 : ℕ) : ℝ) * v))
    rw [hd.deriv, ih]
    push_cast
    ring

/-- the derivatives of the mgf at `0` satisfy the `gaussMoment` recursion. -/
lemma iteratedDeriv_mgfFn_zero (m v : ℝ) (k : ℕ) :
    iteratedDeriv k (mgfFn m v) 0 = Quadrature.gaussMoment m v k := by
  induction k using Nat.twoStepInduction with
  | zero => simp [Quadrature.gaussMoment, mgfFn]
  | one =>
    rw [iteratedDeriv_one_mgfFn]
    simp [Quadrature.gaussMoment, mgfFn]
  | more k ih0 ih1 =>
    rw [iteratedDeriv_add_two_mgfFn, Quadrature.gaussMoment]
    simp only [mul_zero, add_zero]
    rw [ih0, ih1]

theorem integrable_pow_gaussianReal (m : ℝ) (v : NNReal) (k : ℕ) :
    Integrable (fun x => x ^ k) (gaussianReal m v) := by
  have h0 : (0 : ℝ) ∈ interior (integrableExpSet id (gaussianReal m v)) := by simp
  simpa using integrable_pow_of_mem_interior_integrableExpSet h0 k

theorem integrable_polynomial_eval_gaussianReal (m : ℝ) (v : NNReal) (p : Polynomial ℝ) :
    Integrable (fun x => p.eval x) (gaussianReal m v) := by
  simp only [Polynomial.eval_eq_sum_range]
  exact integrable_finsetSum _ fun i _ => (integrable_pow_gaussianReal m v i).const_mul _

theorem integral_pow_gaussianReal (m : ℝ) (v : NNReal) (k : ℕ) :
    ∫ x, x ^ k ∂(gaussianReal m v) = Quadrature.gaussMoment m (v : ℝ) k := by
  have h0 : (0 : ℝ) ∈ interior (integrableExpSet id (gaussianReal m v)) := by simp
  have h := iteratedDeriv_mgf_zero h0 k
  rw [mgf_id_gaussianReal] at h
  have h' : iteratedDeriv k (mgfFn m v) 0 = ∫ x, x ^ k ∂(gaussianReal m v) := by
    exact h
  rw [← h', iteratedDeriv_mgfFn_zero]

end GaussMoments

/-
Positive semidefiniteness of the RBF Gram matrix, from the Schur product theorem:
`exp(−‖x−y‖²/2ℓ²) = a(x) a(y) exp(⟨x,y⟩/ℓ²)`, and the entrywise exponential of a PSD matrix is the limit of
the PSD matrices `∑_{k<N} G^{∘k}/k!`.
-/
import GPVerif.Bridge.PSD
import Mathlib.Analysis.SpecialFunctions.Exponential

open Matrix Filter Topology

namespace C07

variable {ι : Type*} [Fintype ι]

/-- The entrywise exponential of a real PSD matrix is PSD. -/
theorem hexp_psd {G : Matrix ι ι ℝ} (hG : G.PosSemidef) :
    (of fun i j => Real.exp (G i j) : Matrix ι ι ℝ).PosSemidef := by
  classical
  let P : ℕ → Matrix ι ι ℝ := fun N => ∑ k ∈ Finset.range N, ((k.factorial : ℝ)⁻¹) • hpow G k
  have hP : ∀ N, (P N).PosSemidef := fun N =>
    posSemidef_sum _ fun k _ => (hpow_psd hG k).smul (by positivity)
  have hlim : ∀ i j, Tendsto (fun N => P N i j) atTop (𝓝 (Real.exp (G i j))) := by
    intro i j
    have h := (NormedSpace.expSeries_div_hasSum_exp (𝔸 := ℝ) (G i j)).tendsto_sum_nat
    rw [← Real.exp_eq_exp_ℝ] at h
    have e : (fun N => P N i j) = fun N => ∑ k ∈ Finset.range N, G i j ^ k / (k.factorial : ℝ) := by
      funext N
      simp only [P, Matrix.sum_apply, Matrix.smul_apply, hpow, of_apply, smul_eq_mul]
      exact Finset.sum_congr rfl fun k _ => by rw [div_eq_inv_mul]
    rw [e]; exact h
  have hsym : ∀ i j, G i j = G j i := fun i j => by
    have := congrFun (congrFun hG.1 j) i
    simpa [conjTranspose_apply] using this
  refine PosSemidef.of_dotProduct_mulVec_nonneg ?_ fun v => ?_
  · ext i j
    simp [conjTranspose_apply, hsym i j]
  · have ht : Tendsto (fun N => star v ⬝ᵥ (P N *ᵥ v)) atTop
        (𝓝 (star v ⬝ᵥ ((of fun i j => Real.exp (G i j) : Matrix ι ι ℝ) *ᵥ v))) := by
      simp only [dotProduct, mulVec, of_apply]
      exact tendsto_finsetSum _ fun i _ =>
        tendsto_const_nhds.mul (tendsto_finsetSum _ fun j _ => (hlim i j).mul tendsto_const_nhds)
    exact ge_of_tendsto' ht fun N => (hP N).dotProduct_mulVec_nonneg v

/-- `exp(−c ‖x_i − x_j‖²)`, `c ≥ 0`: PSD for every finite family of inputs (duplicates included), any dimension. -/
theorem rbf_gram_psd_coeff {d : Type*} [Fintype d] (X : Matrix ι d ℝ) {c : ℝ} (hc : 0 ≤ c) :
    (of fun i j => Real.exp (-c * ∑ k, (X i k - X j k) ^ 2) : Matrix ι ι ℝ).PosSemidef := by
  classical
  have hlin : ((2 * c) • (X * Xᵀ)).PosSemidef := by
    have h : (X * Xᴴ).PosSemidef := posSemidef_self_mul_conjTranspose X
    rw [conjTranspose_eq_transpose_of_trivial] at h
    exact h.smul (by positivity)
  have hE := hexp_psd hlin
  let a : ι → ℝ := fun i => Real.exp (-c * ∑ k, X i k ^ 2)
  have hK := hE.mul_mul_conjTranspose_same (diagonal a)
  have : (of fun i j => Real.exp (-c * ∑ k, (X i k - X j k) ^ 2) : Matrix ι ι ℝ) =
      diagonal a * (of fun i j => Real.exp (((2 * c) • (X * Xᵀ) : Matrix ι ι ℝ) i j)) * (diagonal a)ᴴ := by
    ext i j
    rw [diagonal_conjTranspose, mul_diagonal, diagonal_mul]
    simp only [of_apply, Matrix.smul_apply, Matrix.mul_apply, transpose_apply, smul_eq_mul, a, Pi.star_apply,
      star_trivial]
    rw [← Real.exp_add, ← Real.exp_add]
    congr 1
    have h2 : ∑ k, (X i k - X j k) ^ 2 = ∑ k, X i k ^ 2 + ∑ k, X j k ^ 2 - 2 * ∑ k, X i k * X j k := by
      simp only [sub_sq, Finset.sum_add_distrib, Finset.sum_sub_distrib, Finset.mul_sum]
      ring_nf
    rw [h2]
    ring
  rw [this]; exact hK

/-- The RBF kernel `exp(−‖x_i − x_j‖² / (2ℓ²))`, any input dimension, any lengthscale `ℓ` (ARD: rescale the columns
of `X`). -/
theorem rbf_gram_psd {d : Type*} [Fintype d] (X : Matrix ι d ℝ) (ℓ : ℝ) :
    (of fun i j => Real.exp (-(∑ k, (X i k - X j k) ^ 2) / (2 * ℓ ^ 2)) : Matrix ι ι ℝ).PosSemidef := by
  have h := rbf_gram_psd_coeff X (c := 1 / (2 * ℓ ^ 2)) (by positivity)
  convert h using 4
  ring_nf

/-- `cos(θ_i − θ_j)`: rank-two PSD. -/
theorem cos_diff_gram_psd (θ : ι → ℝ) : (of fun i j => Real.cos (θ i - θ j) : Matrix ι ι ℝ).PosSemidef := by
  have hc := posSemidef_vecMulVec_self_star (fun i => Real.cos (θ i))
  have hs := posSemidef_vecMulVec_self_star (fun i => Real.sin (θ i))
  have : (of fun i j => Real.cos (θ i - θ j) : Matrix ι ι ℝ) =
      vecMulVec (fun i => Real.cos (θ i)) (star fun i => Real.cos (θ i)) +
      vecMulVec (fun i => Real.sin (θ i)) (star fun i => Real.sin (θ i)) := by
    ext i j; simp [vecMulVec_apply, Real.cos_sub]
  rw [this]; exact hc.add hs

/-- The cosine kernel in dimension one: `cos(π |x_i − x_j| / p)`. -/
theorem cosine_gram_psd (x : ι → ℝ) (p : ℝ) :
    (of fun i j => Real.cos (Real.pi * (|x i - x j| / p)) : Matrix ι ι ℝ).PosSemidef := by
  have h := cos_diff_gram_psd (fun i => Real.pi * (x i / p))
  convert h using 4 with i j
  rcases abs_cases (x i - x j) with ⟨h1, _⟩ | ⟨h1, _⟩
  · rw [h1]; congr 1; ring
  · rw [h1, ← Real.cos_neg]; congr 1; ring

/-- One input dimension of the periodic kernel: `exp(−2 sin²(π |x_i − x_j| / p) / ℓ)`, `ℓ > 0`
(the full kernel is the entrywise product over dimensions: `gram_product_psd`). -/
theorem periodic_gram_psd (x : ι → ℝ) (p : ℝ) {ℓ : ℝ} (hℓ : 0 < ℓ) :
    (of fun i j => Real.exp (-2 * Real.sin (Real.pi * (|x i - x j| / p)) ^ 2 / ℓ) : Matrix ι ι ℝ).PosSemidef := by
  have hC := (cos_diff_gram_psd (fun i => 2 * (Real.pi * (x i / p)))).smul (le_of_lt (one_div_pos.mpr hℓ))
  have hE := (hexp_psd hC).smul (le_of_lt (Real.exp_pos (-(1 / ℓ))))
  convert hE using 1
  ext i j
  simp only [of_apply, Matrix.smul_apply, smul_eq_mul]
  rw [← Real.exp_add]
  congr 1
  have hs : Real.sin (Real.pi * (|x i - x j| / p)) ^ 2 = Real.sin (Real.pi * ((x i - x j) / p)) ^ 2 := by
    rcases abs_cases (x i - x j) with ⟨h1, _⟩ | ⟨h1, _⟩
    · rw [h1]
    · rw [h1, neg_div, mul_neg, Real.sin_neg, neg_sq]
  rw [hs, Real.sin_sq_eq_half_sub]
  have : 2 * (Real.pi * (x i / p)) - 2 * (Real.pi * (x j / p)) = 2 * (Real.pi * ((x i - x j) / p)) := by ring
  rw [this]
  field_simp
  ring

/-- One (mixture, dimension) factor of the spectral-mixture kernel:
`exp(−2π² v τ²) cos(2π μ τ)`, `τ = x_i − x_j`, `v ≥ 0`. -/
theorem spectral_mixture_factor_gram_psd (x : ι → ℝ) {v : ℝ} (hv : 0 ≤ v) (μ : ℝ) :
    (of fun i j => Real.exp (-2 * Real.pi ^ 2 * v * (x i - x j) ^ 2) * Real.cos (2 * Real.pi * μ * (x i - x j)) :
      Matrix ι ι ℝ).PosSemidef := by
  have h1 := rbf_gram_psd_coeff (d := Unit) (of fun i _ => x i) (c := 2 * Real.pi ^ 2 * v) (by positivity)
  have h2 := cos_diff_gram_psd (fun i => 2 * Real.pi * μ * x i)
  have h := h1.hadamard h2
  have e : (of fun i j => Real.exp (-2 * Real.pi ^ 2 * v * (x i - x j) ^ 2) * Real.cos (2 * Real.pi * μ * (x i - x j)) :
      Matrix ι ι ℝ) =
      (of fun i j => Real.exp (-(2 * Real.pi ^ 2 * v) * ∑ k : Unit, ((of fun i _ => x i : Matrix ι Unit ℝ) i k -
        (of fun i _ => x i : Matrix ι Unit ℝ) j k) ^ 2) : Matrix ι ι ℝ) ⊙
      (of fun i j => Real.cos (2 * Real.pi * μ * x i - 2 * Real.pi * μ * x j) : Matrix ι ι ℝ) := by
    ext i j
    simp only [of_apply, hadamard_apply, Finset.univ_unique, Finset.sum_singleton]
    congr 2 <;> ring
  rw [e]; exact h

/-- Entrywise product of a finite family of PSD matrices (product over input dimensions / kernel factors). -/
theorem hprod_psd {q : Type*} (s : Finset q) (Kf : q → Matrix ι ι ℝ) (h : ∀ a ∈ s, (Kf a).PosSemidef) :
    (of fun i j => ∏ a ∈ s, Kf a i j : Matrix ι ι ℝ).PosSemidef := by
  classical
  induction s using Finset.induction_on with
  | empty =>
    have : (of fun i j => ∏ a ∈ (∅ : Finset q), Kf a i j : Matrix ι ι ℝ) = constMat ι 1 := by
      ext i j; simp [constMat]
    rw [this]; exact constMat_psd zero_le_one
  | insert a s ha ih =>
    have : (of fun i j => ∏ b ∈ insert a s, Kf b i j : Matrix ι ι ℝ) =
        Kf a ⊙ (of fun i j => ∏ b ∈ s, Kf b i j : Matrix ι ι ℝ) := by
      ext i j; simp [Finset.prod_insert ha, hadamard_apply]
    rw [this]
    exact (h a (Finset.mem_insert_self a s)).hadamard (ih fun b hb => h b (Finset.mem_insert_of_mem hb))

end C07

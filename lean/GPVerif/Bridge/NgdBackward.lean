/-
C15 (wave 3) — from the code's `backward` to the natural-gradient step.

`NaturalVariationalDistribution.forward` maps the natural parameters `(θ₁, θ₂)` to `(μ, L)` (`Σ = L Lᵀ`), the objective
is evaluated from `(μ, L)`, torch autograd delivers `(dout_dmu, dout_dL)` and `_NaturalToMuVarSqrt._backward` turns that
pair into what is handed to `NGD`.  This file proves

* algebra, any field of characteristic ≠ 2: if the loss, as a function of the *expectation* parameters
  `(ξ₁, ξ₂) = (μ, Σ + μμᵀ)`, has gradient `(b, A)` (`A` symmetric) then its chain-rule gradient in `(μ, L)` is
  `(b + 2Aμ, 2AL)`, and `_backward` applied to **that** pair returns `(b, A)` — also when only the lower triangle of
  `dout_dL` is what the chain rule says (a masked / triangular upstream graph);
* the general adjoint form for an arbitrary upstream pair `(g_μ, g_L)` and an arbitrary direction (composition of the two
  identities of C19, re-proved here so that this file does not depend on `Props/C19`);
* calculus over ℝ: `N·ELBO` as a function of `(μ, L)` (`NgdMatrix.G = F ∘ (μ, L) ↦ (μ, LLᵀ + μμᵀ)`) has exactly those
  directional derivatives, with `(b, A) = η* − η`; and `Collapsed.elboN = F` in expectation parameters.
-/
import GPVerif.Model.NaturalGrad
import GPVerif.Bridge.NgdMatrix
import GPVerif.Bridge.Collapsed
import Mathlib.Tactic.Ring
import Mathlib.Tactic.FieldSimp
import Mathlib.Tactic.Linarith

open Matrix

namespace NgdBackward

/-! ## Φ and `_cholesky_backward` (any field, `2 ≠ 0`) -/

section Algebra
variable {n : ℕ} {α : Type} [Field α]

theorem phi_apply (A : DMat n n α) (i j : Fin n) :
    (NaturalGrad.phi A).toMatrix i j
      = if j.1 < i.1 then A.toMatrix i j else if i = j then A.toMatrix i j / 2 else 0 := by
  unfold NaturalGrad.phi
  exact congrFun (congrFun (DMat.toMatrix_ofMatrix _) i) j

/-- `Φ` reads the lower triangle (diagonal included) only. -/
theorem phi_congr (A B : DMat n n α) (h : ∀ i j : Fin n, j ≤ i → A.toMatrix i j = B.toMatrix i j) :
    NaturalGrad.phi A = NaturalGrad.phi B := by
  apply DMat.toMatrix_injective
  funext i j
  rw [phi_apply, phi_apply]
  by_cases h1 : j.1 < i.1
  · simp only [h1, if_true]; exact h i j (le_of_lt h1)
  · by_cases h2 : i = j
    · subst h2; simp only [lt_self_iff_false, if_false, if_true]; rw [h i i le_rfl]
    · simp only [h1, h2, if_false]

/-- for a symmetric `P`: `Φ(P) + Φ(P)ᵀ = P`. -/
theorem phi_add_transpose (h2 : (2 : α) ≠ 0) (P : DMat n n α) (hP : P.toMatrixᵀ = P.toMatrix) :
    (NaturalGrad.phi P).toMatrix + (NaturalGrad.phi P).toMatrixᵀ = P.toMatrix := by
  funext i j
  have hs : P.toMatrix j i = P.toMatrix i j := by
    have := congrFun (congrFun hP i) j
    simpa [Matrix.transpose_apply] using this
  simp only [Matrix.add_apply, Matrix.transpose_apply, phi_apply]
  rcases lt_trichotomy i j with h | h | h
  · have h1 : ¬ (j.1 < i.1) := by simpa using le_of_lt h
    have h3 : i ≠ j := ne_of_lt h
    have h4 : (i.1 < j.1) := h
    simp only [h1, h3, h4, if_true, if_false, zero_add, hs]
  · subst h
    simp only [lt_self_iff_false, if_false, if_true]
    field_simp
    ring
  · have h1 : ¬ (i.1 < j.1) := by simpa using le_of_lt h
    have h3 : j ≠ i := ne_of_lt h
    have h4 : (j.1 < i.1) := h
    simp only [h1, h3, h4, if_true, if_false, add_zero]

/-- lower triangle of `Lᵀ g` for lower-triangular `L`: only the lower triangle of `g` is read. -/
theorem transpose_mul_lower (L g g' : Matrix (Fin n) (Fin n) α) (hL : ∀ i j : Fin n, i < j → L i j = 0)
    (hg : ∀ i j : Fin n, j ≤ i → g i j = g' i j) (i j : Fin n) (hij : j ≤ i) :
    (Lᵀ * g) i j = (Lᵀ * g') i j := by
  simp only [Matrix.mul_apply, Matrix.transpose_apply]
  apply Finset.sum_congr rfl
  intro k _
  by_cases hk : k < i
  · rw [hL k i hk, zero_mul, zero_mul]
  · rw [hg k j (le_trans hij (not_lt.mp hk))]

/-- **`_cholesky_backward` of the chain-rule gradient.**  `L` lower triangular with right inverse `Linv`, `A` symmetric,
and an upstream `dout_dL` whose lower triangle is that of `2·A·L` (the gradient of `L ↦ f(LLᵀ)` when `∇f = A`; the strictly
upper triangle is arbitrary — masked, zero, or the full `2AL`): the function returns `A`. -/
theorem choleskyBackward_of_chain (h2 : (2 : α) ≠ 0) (A L Linv g : DMat n n α)
    (hA : A.toMatrixᵀ = A.toMatrix) (hL : ∀ i j : Fin n, i < j → L.toMatrix i j = 0)
    (hinv : L.toMatrix * Linv.toMatrix = 1)
    (hg : ∀ i j : Fin n, j ≤ i → g.toMatrix i j = ((2 : α) • (A.toMatrix * L.toMatrix)) i j) :
    NaturalGrad.choleskyBackward g L Linv = A := by
  have hinv' : Linv.toMatrix * L.toMatrix = 1 := mul_eq_one_comm.mp hinv
  set P : DMat n n α := DMat.ofMatrix ((2 : α) • (L.toMatrixᵀ * A.toMatrix * L.toMatrix)) with hPdef
  have hPsym : P.toMatrixᵀ = P.toMatrix := by
    simp only [hPdef, DMat.toMatrix_ofMatrix, Matrix.transpose_smul, Matrix.transpose_mul,
      Matrix.transpose_transpose, hA, Matrix.mul_assoc]
  have hphi : NaturalGrad.phi (L.transpose.mul g) = NaturalGrad.phi P := by
    apply phi_congr
    intro i j hij
    rw [DMat.toMatrix_mul, DMat.toMatrix_transpose,
      transpose_mul_lower L.toMatrix g.toMatrix ((2 : α) • (A.toMatrix * L.toMatrix)) hL hg i j hij]
    simp only [hPdef, DMat.toMatrix_ofMatrix, Matrix.mul_smul, Matrix.mul_assoc]
  apply DMat.toMatrix_injective
  have hsum := phi_add_transpose h2 P hPsym
  have hLT : Linv.toMatrixᵀ * L.toMatrixᵀ = 1 := by
    rw [← Matrix.transpose_mul, hinv, Matrix.transpose_one]
  unfold NaturalGrad.choleskyBackward
  simp only [DMat.toMatrix_smul, DMat.toMatrix_add, DMat.toMatrix_mul, DMat.toMatrix_transpose, hphi,
    Matrix.transpose_mul, Matrix.transpose_transpose]
  have e : Linv.toMatrixᵀ * (NaturalGrad.phi P).toMatrix * Linv.toMatrix
        + Linv.toMatrixᵀ * ((NaturalGrad.phi P).toMatrixᵀ * Linv.toMatrix)
      = Linv.toMatrixᵀ * P.toMatrix * Linv.toMatrix := by
    rw [← hsum, Matrix.mul_add, Matrix.add_mul, Matrix.mul_assoc _ (NaturalGrad.phi P).toMatrixᵀ]
  rw [e, hPdef, DMat.toMatrix_ofMatrix, Matrix.mul_smul, Matrix.smul_mul, smul_smul]
  have h12 : (1 / 2 : α) * 2 = 1 := by field_simp
  rw [h12, one_smul]
  calc Linv.toMatrixᵀ * (L.toMatrixᵀ * A.toMatrix * L.toMatrix) * Linv.toMatrix
      = (Linv.toMatrixᵀ * L.toMatrixᵀ) * A.toMatrix * (L.toMatrix * Linv.toMatrix) := by
        simp only [Matrix.mul_assoc]
    _ = A.toMatrix := by rw [hLT, hinv, Matrix.one_mul, Matrix.mul_one]

/-- **`_NaturalToMuVarSqrt._backward` of the chain-rule gradient** returns the expectation-parameter gradient `(b, A)`:
upstream `dout_dmu = b + 2·A·μ`, `dout_dL` with lower triangle `2·A·L`. -/
theorem naturalBackward_of_chain (h2 : (2 : α) ≠ 0) (A L Linv gL : DMat n n α) (b mu gMu : DMat n 1 α)
    (hA : A.toMatrixᵀ = A.toMatrix) (hL : ∀ i j : Fin n, i < j → L.toMatrix i j = 0)
    (hinv : L.toMatrix * Linv.toMatrix = 1)
    (hgMu : gMu.toMatrix = b.toMatrix + (2 : α) • (A.toMatrix * mu.toMatrix))
    (hgL : ∀ i j : Fin n, j ≤ i → gL.toMatrix i j = ((2 : α) • (A.toMatrix * L.toMatrix)) i j) :
    NaturalGrad.naturalBackward gMu (NaturalGrad.choleskyBackward gL L Linv) mu = (b, A) := by
  rw [choleskyBackward_of_chain h2 A L Linv gL hA hL hinv hgL]
  unfold NaturalGrad.naturalBackward
  refine Prod.ext ?_ rfl
  apply DMat.toMatrix_injective
  simp only [DMat.toMatrix_sub, DMat.toMatrix_smul, DMat.toMatrix_mul, hgMu]
  abel

/-- the output of `_cholesky_backward` is symmetric, whatever comes in -/
theorem choleskyBackward_symm (dout L Linv : DMat n n α) :
    (NaturalGrad.choleskyBackward dout L Linv).toMatrixᵀ = (NaturalGrad.choleskyBackward dout L Linv).toMatrix := by
  unfold NaturalGrad.choleskyBackward
  simp only [DMat.toMatrix_smul, DMat.toMatrix_add, DMat.toMatrix_transpose, Matrix.transpose_smul,
    Matrix.transpose_add, Matrix.transpose_transpose]
  rw [add_comm]

end Algebra

/-! ## The general adjoint form (arbitrary upstream gradients, arbitrary direction), over a commutative field -/

section Adjoint
variable {n : ℕ} {α : Type} [Field α]

/-- against a lower-triangular `M`, `Φ(A) + Φ(A)ᵀ` acts like `A` -/
theorem phi_sym_pairing (h2 : (2 : α) ≠ 0) (A : DMat n n α) (M : Matrix (Fin n) (Fin n) α)
    (hM : ∀ i j, i < j → M i j = 0) :
    (((NaturalGrad.phi A).toMatrix + (NaturalGrad.phi A).toMatrixᵀ)ᵀ * M).trace = (A.toMatrixᵀ * M).trace := by
  simp only [Matrix.trace, Matrix.diag, Matrix.mul_apply, Matrix.transpose_apply, Matrix.add_apply]
  apply Finset.sum_congr rfl
  intro j _
  apply Finset.sum_congr rfl
  intro i _
  rcases lt_trichotomy i j with h | h | h
  · rw [hM i j h, mul_zero, mul_zero]
  · subst h
    rw [phi_apply]
    simp only [lt_self_iff_false, if_false, if_true]
    field_simp
    ring
  · have h1 : ¬ (i.1 < j.1) := by simpa using le_of_lt h
    have h2' : (j.1 < i.1) := h
    have h3 : j ≠ i := ne_of_lt h
    rw [phi_apply, phi_apply]
    simp only [h1, h2', h3, if_true, if_false, add_zero]

/-- `⟨_cholesky_backward(dout_dL), δL·Lᵀ + L·δLᵀ⟩ = ⟨dout_dL, δL⟩` for lower-triangular directions `δL`
(`L`, `L⁻¹` lower triangular). -/
theorem choleskyBackward_adjoint (h2 : (2 : α) ≠ 0) (dout L Linv : DMat n n α) (dL : Matrix (Fin n) (Fin n) α)
    (h1 : Linv.toMatrix * L.toMatrix = 1) (hLinv : ∀ i j, i < j → Linv.toMatrix i j = 0)
    (hdL : ∀ i j, i < j → dL i j = 0) :
    ((NaturalGrad.choleskyBackward dout L Linv).toMatrixᵀ * (dL * L.toMatrixᵀ + L.toMatrix * dLᵀ)).trace
      = (dout.toMatrixᵀ * dL).trace := by
  have h2m : L.toMatrix * Linv.toMatrix = 1 := mul_eq_one_comm.mp h1
  set Lm := L.toMatrix
  set Li := Linv.toMatrix
  set P := (NaturalGrad.phi (L.transpose.mul dout)).toMatrix with hP
  have hM : ∀ i j, i < j → (Li * dL) i j = 0 := by
    intro i j hij
    rw [Matrix.mul_apply]
    apply Finset.sum_eq_zero
    intro k _
    by_cases hk : i < k
    · rw [hLinv i k hk, zero_mul]
    · have : k < j := lt_of_le_of_lt (not_lt.mp hk) hij
      rw [hdL k j this, mul_zero]
  have hcore := phi_sym_pairing h2 (L.transpose.mul dout) (Li * dL) hM
  have hG : (NaturalGrad.choleskyBackward dout L Linv).toMatrix
      = (1 / 2 : α) • (Liᵀ * P * Li + (Liᵀ * P * Li)ᵀ) := by
    simp [NaturalGrad.choleskyBackward, hP, Li]
  have hLT : Lmᵀ * Liᵀ = 1 := by rw [← Matrix.transpose_mul, h1, Matrix.transpose_one]
  have hsymm : ((Liᵀ * P * Li + (Liᵀ * P * Li)ᵀ)ᵀ * (Lm * dLᵀ)).trace
      = ((Liᵀ * P * Li + (Liᵀ * P * Li)ᵀ)ᵀ * (dL * Lmᵀ)).trace := by
    rw [← Matrix.trace_transpose]
    simp only [Matrix.transpose_mul, Matrix.transpose_add, Matrix.transpose_transpose]
    rw [Matrix.trace_mul_comm]
    congr 1
    rw [add_comm]
  have hX : Lmᵀ * (Liᵀ * P * Li) = P * Li := by
    rw [← Matrix.mul_assoc, ← Matrix.mul_assoc, hLT, Matrix.one_mul]
  have hXt : Lmᵀ * (Liᵀ * P * Li)ᵀ = Pᵀ * Li := by
    rw [Matrix.transpose_mul, Matrix.transpose_mul, Matrix.transpose_transpose, ← Matrix.mul_assoc, hLT,
      Matrix.one_mul]
  have hS : (Liᵀ * P * Li + (Liᵀ * P * Li)ᵀ)ᵀ = Liᵀ * P * Li + (Liᵀ * P * Li)ᵀ := by
    rw [Matrix.transpose_add, Matrix.transpose_transpose, add_comm]
  have hmain : ((Liᵀ * P * Li + (Liᵀ * P * Li)ᵀ)ᵀ * (dL * Lmᵀ)).trace = ((P + Pᵀ)ᵀ * (Li * dL)).trace := by
    calc ((Liᵀ * P * Li + (Liᵀ * P * Li)ᵀ)ᵀ * (dL * Lmᵀ)).trace
        = ((Liᵀ * P * Li + (Liᵀ * P * Li)ᵀ) * dL * Lmᵀ).trace := by
          rw [hS]; exact congrArg Matrix.trace (Matrix.mul_assoc _ _ _).symm
      _ = (Lmᵀ * ((Liᵀ * P * Li + (Liᵀ * P * Li)ᵀ) * dL)).trace := by rw [Matrix.trace_mul_comm]
      _ = ((P * Li + Pᵀ * Li) * dL).trace := by rw [← Matrix.mul_assoc, Matrix.mul_add, hX, hXt]
      _ = ((P + Pᵀ)ᵀ * (Li * dL)).trace := by
          rw [Matrix.transpose_add, Matrix.transpose_transpose, Matrix.add_mul, Matrix.add_mul, Matrix.mul_assoc,
            Matrix.mul_assoc, add_comm]
  rw [hG, Matrix.transpose_smul, Matrix.smul_mul, Matrix.trace_smul, Matrix.mul_add, Matrix.trace_add,
    hsymm, hmain, hcore]
  simp only [DMat.toMatrix_mul, DMat.toMatrix_transpose, Matrix.transpose_mul, Matrix.transpose_transpose, smul_eq_mul]
  rw [Matrix.mul_assoc, ← Matrix.mul_assoc Lm, h2m, Matrix.one_mul]
  have h12 : (1 / 2 : α) * (1 + 1) = 1 := by
    have : (1 : α) + 1 = 2 := by norm_num
    rw [this]; field_simp
  rw [← two_mul] at *
  rw [← mul_assoc]
  have : (1 / 2 : α) * 2 = 1 := by field_simp
  rw [this, one_mul]

/-- `(μ, Σ) = (ξ₁, ξ₂ − ξ₁ξ₁ᵀ)`: for a symmetric `g_Σ`,
`⟨g_μ, δ₁⟩ + ⟨g_Σ, δ₂ − δ₁μᵀ − μδ₁ᵀ⟩ = ⟨out₁, δ₁⟩ + ⟨out₂, δ₂⟩` for the pair `naturalBackward` returns. -/
theorem naturalBackward_adjoint (gMu mu : DMat n 1 α) (gSigma : DMat n n α)
    (d1 : Matrix (Fin n) (Fin 1) α) (d2 : Matrix (Fin n) (Fin n) α) (hs : gSigma.toMatrixᵀ = gSigma.toMatrix) :
    (gMu.toMatrixᵀ * d1).trace
        + (gSigma.toMatrixᵀ * (d2 - d1 * mu.toMatrixᵀ - mu.toMatrix * d1ᵀ)).trace
      = ((NaturalGrad.naturalBackward gMu gSigma mu).1.toMatrixᵀ * d1).trace
        + ((NaturalGrad.naturalBackward gMu gSigma mu).2.toMatrixᵀ * d2).trace := by
  simp only [NaturalGrad.naturalBackward, DMat.toMatrix_sub, DMat.toMatrix_smul, DMat.toMatrix_mul,
    Matrix.transpose_sub, Matrix.transpose_smul, Matrix.transpose_mul, Matrix.sub_mul, Matrix.mul_sub,
    Matrix.trace_sub, Matrix.smul_mul, Matrix.trace_smul, hs]
  have h1 : (gSigma.toMatrix * (d1 * mu.toMatrixᵀ)).trace = (mu.toMatrixᵀ * gSigma.toMatrix * d1).trace := by
    rw [← Matrix.mul_assoc, Matrix.trace_mul_comm, ← Matrix.mul_assoc]
  have h2 : (gSigma.toMatrix * (mu.toMatrix * d1ᵀ)).trace = (mu.toMatrixᵀ * gSigma.toMatrix * d1).trace := by
    rw [← Matrix.trace_transpose, Matrix.transpose_mul, Matrix.transpose_mul, Matrix.transpose_transpose, hs,
      Matrix.mul_assoc, Matrix.trace_mul_comm, Matrix.mul_assoc]
  rw [h1, h2]
  simp only [smul_eq_mul]
  ring

end Adjoint

/-! ## Calculus over ℝ: `N·ELBO` as a function of `(μ, L)` -/

section Calculus
variable {m : Type} [Fintype m] [DecidableEq m]

/-- `N·ELBO` as the code evaluates it from the outputs `(μ, L)` of `NaturalVariationalDistribution.forward`:
`Σ = L Lᵀ`, i.e. expectation parameters `(μ, LLᵀ + μμᵀ)`. -/
noncomputable def G (a : m → ℝ) (Cm : Matrix m m ℝ) (s R tK nlog : ℝ) (μ : m → ℝ) (L : Matrix m m ℝ) : ℝ :=
  NgdMatrix.F a Cm s R tK nlog μ (L * Lᵀ + Matrix.vecMulVec μ μ)

/-- the symmetric matrix `A = η₂* − η₂ = −½(1 + s⁻¹Cm) + ½Σ⁻¹` -/
noncomputable def gradXi2 (Cm : Matrix m m ℝ) (s : ℝ) (Sg : Matrix m m ℝ) : Matrix m m ℝ :=
  (-(1 / 2 : ℝ)) • (1 + s⁻¹ • Cm) - (-(1 / 2 : ℝ)) • Sg⁻¹

/-- `∂G/∂μ [h] = (s⁻¹a − (1 + s⁻¹Cm)μ)·h` (`Cm` symmetric). -/
theorem hasDerivAt_G_mu (a : m → ℝ) (Cm : Matrix m m ℝ) (hC : Cmᵀ = Cm) (s R tK nlog : ℝ) (μ h : m → ℝ)
    (L : Matrix m m ℝ) :
    HasDerivAt (fun t : ℝ => G a Cm s R tK nlog (μ + t • h) L)
      ((s⁻¹ • a - (1 + s⁻¹ • Cm) *ᵥ μ) ⬝ᵥ h) 0 := by
  have hid : HasDerivAt (fun t : ℝ => t) 1 (0 : ℝ) := hasDerivAt_id 0
  -- the quadratic forms along the line
  have hq1 : ∀ t : ℝ, (Cm * Matrix.vecMulVec (μ + t • h) (μ + t • h)).trace
      = (Cm *ᵥ μ) ⬝ᵥ μ + (2 * ((Cm *ᵥ μ) ⬝ᵥ h)) * t + ((Cm *ᵥ h) ⬝ᵥ h) * t ^ 2 := by
    intro t
    rw [Matrix.mul_vecMulVec, Matrix.trace_vecMulVec, Matrix.mulVec_add, Matrix.mulVec_smul]
    have hsym : (Cm *ᵥ h) ⬝ᵥ μ = (Cm *ᵥ μ) ⬝ᵥ h := by
      rw [dotProduct_comm, Matrix.dotProduct_mulVec, ← Matrix.mulVec_transpose, hC]
    simp only [add_dotProduct, dotProduct_add, smul_dotProduct, dotProduct_smul, smul_eq_mul, hsym]
    ring
  have hq2 : ∀ t : ℝ, (Matrix.vecMulVec (μ + t • h) (μ + t • h)).trace
      = μ ⬝ᵥ μ + (2 * (μ ⬝ᵥ h)) * t + (h ⬝ᵥ h) * t ^ 2 := by
    intro t
    rw [Matrix.trace_vecMulVec]
    simp only [add_dotProduct, dotProduct_add, smul_dotProduct, dotProduct_smul, smul_eq_mul, dotProduct_comm h μ]
    ring
  have hfun : (fun t : ℝ => G a Cm s R tK nlog (μ + t • h) L)
      = fun t : ℝ => -(1 / (2 * s)) * ((R - 2 * (a ⬝ᵥ μ) + (Cm * (L * Lᵀ)).trace + (Cm *ᵥ μ) ⬝ᵥ μ + tK - Cm.trace)
            + (-2 * (a ⬝ᵥ h) + 2 * ((Cm *ᵥ μ) ⬝ᵥ h)) * t + ((Cm *ᵥ h) ⬝ᵥ h) * t ^ 2) - nlog
          - (1 / 2) * (((L * Lᵀ).trace + μ ⬝ᵥ μ - Fintype.card m - Real.log (L * Lᵀ).det)
              + (2 * (μ ⬝ᵥ h)) * t + (h ⬝ᵥ h) * t ^ 2) := by
    funext t
    unfold G NgdMatrix.F
    rw [add_sub_cancel_right, Matrix.mul_add, Matrix.trace_add, Matrix.trace_add, hq1, hq2, dotProduct_add,
      dotProduct_smul]
    simp only [smul_eq_mul]
    ring
  rw [hfun]
  have hsq : HasDerivAt (fun t : ℝ => t ^ 2) (↑2 * 0 ^ (2 - 1) * 1) (0 : ℝ) := hid.pow 2
  have h1 : HasDerivAt (fun t : ℝ => (R - 2 * (a ⬝ᵥ μ) + (Cm * (L * Lᵀ)).trace + (Cm *ᵥ μ) ⬝ᵥ μ + tK - Cm.trace)
      + (-2 * (a ⬝ᵥ h) + 2 * ((Cm *ᵥ μ) ⬝ᵥ h)) * t + ((Cm *ᵥ h) ⬝ᵥ h) * t ^ 2)
      ((-2 * (a ⬝ᵥ h) + 2 * ((Cm *ᵥ μ) ⬝ᵥ h)) * 1 + ((Cm *ᵥ h) ⬝ᵥ h) * (↑2 * 0 ^ (2 - 1) * 1)) 0 :=
    ((hid.const_mul _).const_add _).add (hsq.const_mul _)
  have h2 : HasDerivAt (fun t : ℝ => ((L * Lᵀ).trace + μ ⬝ᵥ μ - Fintype.card m - Real.log (L * Lᵀ).det)
      + (2 * (μ ⬝ᵥ h)) * t + (h ⬝ᵥ h) * t ^ 2)
      ((2 * (μ ⬝ᵥ h)) * 1 + (h ⬝ᵥ h) * (↑2 * 0 ^ (2 - 1) * 1)) 0 :=
    ((hid.const_mul _).const_add _).add (hsq.const_mul _)
  have h3 := ((h1.const_mul (-(1 / (2 * s)))).sub_const nlog).sub (h2.const_mul (1 / 2))
  refine h3.congr_deriv ?_
  rw [sub_dotProduct, smul_dotProduct, Matrix.add_mulVec, Matrix.one_mulVec, Matrix.smul_mulVec, add_dotProduct,
    smul_dotProduct]
  simp only [smul_eq_mul]
  have hs : (1 : ℝ) / (2 * s) = s⁻¹ / 2 := by
    rw [one_div, mul_inv]; ring
  rw [hs]
  ring

/-- `∂G/∂L [K] = ⟨2·A·L, K⟩` with `A = gradXi2 Cm s (LLᵀ)` (`Cm` symmetric, `L` invertible). -/
theorem hasDerivAt_G_L (a : m → ℝ) (Cm : Matrix m m ℝ) (hC : Cmᵀ = Cm) (s R tK nlog : ℝ) (μ : m → ℝ)
    (L K : Matrix m m ℝ) (hL : IsUnit L.det) :
    HasDerivAt (fun t : ℝ => G a Cm s R tK nlog μ (L + t • K))
      ((((2 : ℝ) • (gradXi2 Cm s (L * Lᵀ) * L))ᵀ * K).trace) 0 := by
  set Sg : Matrix m m ℝ := L * Lᵀ with hSg
  have hdet : Sg.det = L.det * L.det := by rw [hSg, Matrix.det_mul, Matrix.det_transpose]
  have hne : L.det ≠ 0 := hL.ne_zero
  have hpos : 0 < Sg.det := by rw [hdet]; exact mul_self_pos.mpr hne
  have hU : IsUnit Sg.det := isUnit_iff_ne_zero.mpr hpos.ne'
  have hSgT : Sgᵀ = Sg := by rw [hSg, Matrix.transpose_mul, Matrix.transpose_transpose]
  have hSgiT : (Sg⁻¹)ᵀ = Sg⁻¹ := by rw [Matrix.transpose_nonsing_inv, hSgT]
  have hid : HasDerivAt (fun t : ℝ => t) 1 (0 : ℝ) := hasDerivAt_id 0
  set D : Matrix m m ℝ := K * Lᵀ + L * Kᵀ with hD
  set E : Matrix m m ℝ := K * Kᵀ with hE
  have hlog := NgdMatrix.hasDerivAt_logdet_quad Sg D E hU hpos
  have hcurve : ∀ t : ℝ, (L + t • K) * (L + t • K)ᵀ = Sg + t • D + t ^ 2 • E := by
    intro t
    rw [hSg, hD, hE, Matrix.transpose_add, Matrix.transpose_smul, Matrix.add_mul, Matrix.mul_add, Matrix.mul_add,
      Matrix.smul_mul, Matrix.mul_smul, Matrix.smul_mul, Matrix.mul_smul, smul_smul, smul_add]
    rw [pow_two]
    abel
  have hfun : (fun t : ℝ => G a Cm s R tK nlog μ (L + t • K))
      = fun t : ℝ => -(1 / (2 * s)) * ((R - 2 * (a ⬝ᵥ μ) + (Cm * Sg).trace + (Cm * Matrix.vecMulVec μ μ).trace + tK
              - Cm.trace) + (Cm * D).trace * t + (Cm * E).trace * t ^ 2) - nlog
          - (1 / 2) * ((Sg.trace + (Matrix.vecMulVec μ μ).trace - Fintype.card m) + D.trace * t + E.trace * t ^ 2
              - Real.log (Sg + t • D + t ^ 2 • E).det) := by
    funext t
    unfold G NgdMatrix.F
    rw [add_sub_cancel_right, hcurve t]
    simp only [Matrix.mul_add, Matrix.trace_add, Matrix.mul_smul, Matrix.trace_smul, smul_eq_mul]
    ring
  rw [hfun]
  have hsq : HasDerivAt (fun t : ℝ => t ^ 2) (↑2 * 0 ^ (2 - 1) * 1) (0 : ℝ) := hid.pow 2
  have h1 : HasDerivAt (fun t : ℝ => (R - 2 * (a ⬝ᵥ μ) + (Cm * Sg).trace + (Cm * Matrix.vecMulVec μ μ).trace + tK
      - Cm.trace) + (Cm * D).trace * t + (Cm * E).trace * t ^ 2)
      ((Cm * D).trace * 1 + (Cm * E).trace * (↑2 * 0 ^ (2 - 1) * 1)) 0 :=
    ((hid.const_mul _).const_add _).add (hsq.const_mul _)
  have h2 : HasDerivAt (fun t : ℝ => (Sg.trace + (Matrix.vecMulVec μ μ).trace - Fintype.card m) + D.trace * t
      + E.trace * t ^ 2 - Real.log (Sg + t • D + t ^ 2 • E).det)
      (D.trace * 1 + E.trace * (↑2 * 0 ^ (2 - 1) * 1) - (Sg⁻¹ * D).trace) 0 :=
    (((hid.const_mul _).const_add _).add (hsq.const_mul _)).sub hlog
  have h3 := ((h1.const_mul (-(1 / (2 * s)))).sub_const nlog).sub (h2.const_mul (1 / 2))
  refine h3.congr_deriv ?_
  -- `tr(X D) = 2 tr((X L)ᵀ K)` for symmetric `X`
  have hpair : ∀ X : Matrix m m ℝ, Xᵀ = X → (X * D).trace = 2 * ((X * L)ᵀ * K).trace := by
    intro X hX
    have e1 : (X * (K * Lᵀ)).trace = ((X * L)ᵀ * K).trace := by
      rw [Matrix.transpose_mul, hX, ← Matrix.mul_assoc, Matrix.trace_mul_comm, ← Matrix.mul_assoc]
    have e2 : (X * (L * Kᵀ)).trace = ((X * L)ᵀ * K).trace := by
      rw [← Matrix.trace_transpose, Matrix.transpose_mul, Matrix.transpose_mul, Matrix.transpose_transpose, hX,
        Matrix.mul_assoc, Matrix.trace_mul_comm, Matrix.transpose_mul, hX, Matrix.mul_assoc]
    rw [hD, Matrix.mul_add, Matrix.trace_add, e1, e2]
    ring
  have hone : D.trace = 2 * (Lᵀ * K).trace := by
    have := hpair 1 Matrix.transpose_one
    simpa using this
  rw [hpair Cm hC, hpair Sg⁻¹ hSgiT, hone]
  unfold gradXi2
  simp only [Matrix.transpose_smul, Matrix.smul_mul, Matrix.trace_smul, Matrix.sub_mul, Matrix.add_mul,
    Matrix.one_mul, Matrix.transpose_sub, Matrix.transpose_add, Matrix.trace_sub, Matrix.trace_add, smul_eq_mul]
  have hs : (1 : ℝ) / (2 * s) = s⁻¹ / 2 := by
    rw [one_div, mul_inv]; ring
  rw [hs]
  ring

/-- The chain-rule gradient in `μ` is `b + 2Aμ` with `b = η₁* − η₁ = s⁻¹a − Σ⁻¹μ`, `A = gradXi2`. -/
theorem grad_mu_eq (a : m → ℝ) (Cm Sg : Matrix m m ℝ) (s : ℝ) (μ : m → ℝ) :
    s⁻¹ • a - (1 + s⁻¹ • Cm) *ᵥ μ = (s⁻¹ • a - Sg⁻¹ *ᵥ μ) + (2 : ℝ) • (gradXi2 Cm s Sg *ᵥ μ) := by
  unfold gradXi2
  rw [Matrix.sub_mulVec, Matrix.smul_mulVec, Matrix.smul_mulVec, smul_sub, smul_smul, smul_smul]
  norm_num
  abel

/-- `Collapsed.elboN` (what `modelElboN_eq` reduces the model's `N·ELBO` to) **is** `NgdMatrix.F` at the expectation
parameters `(μ, S + μμᵀ)`, with `a = B r`, `Cm = B Bᵀ`, `R = r·r`, `nlog = (n/2)(log s + log 2π)`. -/
theorem elboN_eq_F {k : Type} [Fintype k] [DecidableEq k] (B : Matrix m k ℝ) (r : k → ℝ) (s tK : ℝ) (μ : m → ℝ)
    (S : Matrix m m ℝ) :
    Collapsed.elboN B r s tK μ S
      = NgdMatrix.F (B *ᵥ r) (B * Bᵀ) s (r ⬝ᵥ r) tK
          ((Fintype.card k : ℝ) / 2 * (Real.log s + Real.log (2 * Real.pi))) μ (S + Matrix.vecMulVec μ μ) := by
  unfold Collapsed.elboN NgdMatrix.F
  rw [add_sub_cancel_right]
  have e1 : (r - Bᵀ *ᵥ μ) ⬝ᵥ (r - Bᵀ *ᵥ μ) = r ⬝ᵥ r - 2 * ((B *ᵥ r) ⬝ᵥ μ) + ((B * Bᵀ) *ᵥ μ) ⬝ᵥ μ := by
    have c1 : r ⬝ᵥ (Bᵀ *ᵥ μ) = (B *ᵥ r) ⬝ᵥ μ := by
      rw [Matrix.dotProduct_mulVec, ← Matrix.mulVec_transpose, Matrix.transpose_transpose]
    have c2 : (Bᵀ *ᵥ μ) ⬝ᵥ (Bᵀ *ᵥ μ) = ((B * Bᵀ) *ᵥ μ) ⬝ᵥ μ := by
      rw [← Matrix.mulVec_mulVec, dotProduct_comm (B *ᵥ (Bᵀ *ᵥ μ)) μ, Matrix.dotProduct_mulVec μ B,
        ← Matrix.mulVec_transpose]
    rw [sub_dotProduct, dotProduct_sub, dotProduct_sub, dotProduct_comm (Bᵀ *ᵥ μ) r, c1, c2]
    ring
  have e2 : (B * Bᵀ * (S + Matrix.vecMulVec μ μ)).trace = (Bᵀ * S * B).trace + ((B * Bᵀ) *ᵥ μ) ⬝ᵥ μ := by
    rw [Matrix.mul_add, Matrix.trace_add, Matrix.mul_vecMulVec, Matrix.trace_vecMulVec]
    congr 1
    rw [Matrix.mul_assoc, Matrix.trace_mul_comm, Matrix.mul_assoc]
  have e3 : (B * Bᵀ).trace = (Bᵀ * B).trace := Matrix.trace_mul_comm _ _
  have e4 : (S + Matrix.vecMulVec μ μ).trace = S.trace + μ ⬝ᵥ μ := by
    rw [Matrix.trace_add, Matrix.trace_vecMulVec]
  rw [e1, e2, e3, e4]
  have hs : (1 : ℝ) / (2 * s) = s⁻¹ / 2 := by
    rw [one_div, mul_inv]; ring
  rw [hs]
  ring

/-- pairing of two columns: `tr(vᵀ d) = v · d` -/
theorem trace_col_pairing {M : ℕ} (v d : Matrix (Fin M) (Fin 1) ℝ) :
    (vᵀ * d).trace = (fun i => v i 0) ⬝ᵥ (fun i => d i 0) := by
  simp [Matrix.trace, Matrix.mul_apply, dotProduct]

end Calculus

end NgdBackward

/-
Helper lemmas relating the list pipelines of `Gen/KernelFormulas.lean` (generated from the kernel sources) to the
`Spec` functions of `Model/Kernels.lean`.
-/
import GPVerif.Bridge.KernelLemmas
import GPVerif.Gen.KernelFormulas

namespace Kernels
open Scalar

theorem dist_singleton (u v : ℝ) : Scalar.dist [u] [v] = |u - v| := by
  simp [Scalar.dist, sqDist_cons, sqDist_nil_left, Real.sqrt_sq_eq_abs]

theorem sin_abs_sq (t : ℝ) : Real.sin |t| ^ 2 = Real.sin t ^ 2 := by
  rcases abs_cases t with ⟨h, _⟩ | ⟨h, _⟩ <;> rw [h]
  rw [Real.sin_neg]; ring

/-- `x/(p/π) − y/(p/π) = π(x−y)/p`, also for `p = 0` -/
theorem period_scale (x y p : ℝ) : x / (p / Real.pi) - y / (p / Real.pi) = Real.pi * (x - y) / p := by
  by_cases hp : p = 0
  · subst hp; simp
  · have := Real.pi_ne_zero
    field_simp

/-- the per-dimension pipeline of `PeriodicKernel.forward` sums to `−2·periodicSum` -/
theorem periodic_pipeline (ls ps a b : List ℝ) :
    Scalar.sum (rowMulS (rowDiv (((Scalar.zip (fun u v => Scalar.dist [u] [v]) (rowDiv a (rowDivS ps Scalar.pi))
        (rowDiv b (rowDivS ps Scalar.pi))).map Scalar.sin).map fun t => Scalar.npow t 2) ls) (Scalar.lit (-2 : ℚ)))
      = -(2 * periodicSum ls ps a b) := by
  induction ls generalizing ps a b with
  | nil => cases ps <;> cases a <;> cases b <;> simp [rowDiv, rowDivS, rowMulS, periodicSum]
  | cons l ls ih =>
    cases ps with
    | nil => cases a <;> cases b <;> simp [rowDiv, rowDivS, rowMulS, periodicSum]
    | cons p ps =>
      cases a with
      | nil => cases b <;> simp [rowDiv, rowDivS, rowMulS, periodicSum]
      | cons x a =>
        cases b with
        | nil => simp [rowDiv, rowDivS, rowMulS, periodicSum]
        | cons y b =>
          have := ih ps a b
          simp only [rowDiv, rowDivS, rowMulS, List.map_cons, zip_cons, sum_cons_real, periodicSum, dist_singleton,
            sin_real, npow_real, lit_real, pi_real, sq_real] at this ⊢
          rw [this, period_scale, sin_abs_sq]
          push_cast; ring

/-- `LinearKernel`: multiplying both rows by `√v` and taking the dot product is `Σ vᵢ aᵢ bᵢ` (`v ≥ 0`) -/
theorem linear_pipeline (v a b : List ℝ) (hv : ∀ x ∈ v, 0 ≤ x) :
    dot (rowMul a (v.map Scalar.sqrt)) (rowMul b (v.map Scalar.sqrt)) = linearSpec v a b := by
  unfold linearSpec
  induction v generalizing a b with
  | nil => cases a <;> cases b <;> simp [rowMul, dot_nil_left]
  | cons w v ih =>
    cases a with
    | nil => simp [rowMul, dot_nil_left, dot_nil_right]
    | cons x a =>
      cases b with
      | nil => simp [rowMul, dot_nil_left, dot_nil_right]
      | cons y b =>
        have := ih a b (fun z hz => hv z (by simp [hz]))
        have hw : Real.sqrt w * Real.sqrt w = w := Real.mul_self_sqrt (hv w (by simp))
        simp only [rowMul, List.map_cons, zip_cons, dot_cons, sqrt_real] at this ⊢
        rw [this]
        calc x * Real.sqrt w * (y * Real.sqrt w) + dot v (Scalar.zip (fun x1 x2 => x1 * x2) a b)
            = x * y * (Real.sqrt w * Real.sqrt w) + dot v (Scalar.zip (fun x1 x2 => x1 * x2) a b) := by ring
          _ = w * (x * y) + dot v (Scalar.zip (fun x1 x2 => x1 * x2) a b) := by rw [hw]; ring

theorem length_rowDiv (a ls : List ℝ) : (rowDiv a ls).length = min a.length ls.length := by
  simp [rowDiv, length_zip]

theorem length_rowSub (a c : List ℝ) : (rowSub a c).length = min a.length c.length := by
  simp [rowSub, length_zip]

/-- the generated `sq_dist` term is the hand-written `sqDistImpl` (same concatenated dot product, same clamp) -/
theorem sqDistGen_eq_impl (a b c : List ℝ) :
    Gen.KernelFormulas.sqDistGen a b c = sqDistImpl c a b ∧
    Gen.KernelFormulas.sqDistGenSameOff a b c = sqDistImpl c a b := by
  constructor <;>
  · simp only [Gen.KernelFormulas.sqDistGen, Gen.KernelFormulas.sqDistGenSameOff, sqDistImpl, List.append_assoc,
      List.cons_append, List.nil_append]
    congr 2 <;> simp only [npow_real, pow_two] <;> rfl

end Kernels

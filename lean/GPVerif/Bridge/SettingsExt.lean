/-
Helper lemmas for the wave-3 theorems of C20 (`Props/C20.lean`): the invariant `Good` of lists of entered managers,
`unwind` of a good list gives back the store, `enterMany` keeps the invariant.  Core Lean only.
-/
import GPVerif.Model.SettingsExt

namespace Settings

theorem enter1_eq (strict : Bool) (d : ClassDesc) (args : Frame) (σ : Store) :
    enter1 strict d args σ =
      (if (execAll ⟨σ, fun _ => none, args, strict⟩ d.m.init).2 then
        ((execAll ⟨σ, fun _ => none, args, strict⟩ d.m.init).1.store, none)
      else if (execAll (execAll ⟨σ, fun _ => none, args, strict⟩ d.m.init).1 d.m.enter).2 then
        ((execAll (execAll ⟨σ, fun _ => none, args, strict⟩ d.m.init).1 d.m.enter).1.store, none)
      else ((execAll (execAll ⟨σ, fun _ => none, args, strict⟩ d.m.init).1 d.m.enter).1.store,
            some (execAll (execAll ⟨σ, fun _ => none, args, strict⟩ d.m.init).1 d.m.enter).1)) := rfl

/-- `enteredStore` of the shared model is the store component of `enter1`. -/
theorem enteredStore_eq_enter1 (d : ClassDesc) (args : Frame) (σ : Store) (strict : Bool) :
    enteredStore d args σ strict = (enter1 strict d args σ).2.map (fun _ => (enter1 strict d args σ).1) := by
  simp only [enteredStore, enter1_eq]
  split
  · rfl
  · split <;> rfl

theorem enter1_some_store {strict : Bool} {d : ClassDesc} {args : Frame} {σ σ' : Store} {ρ : Env}
    (h : enter1 strict d args σ = (σ', some ρ)) : ρ.store = σ' := by
  rw [enter1_eq] at h
  split at h
  · simp at h
  · split at h
    · simp at h
    · simp only [Prod.mk.injEq, Option.some.injEq] at h
      rw [← h.1, ← h.2]

/-- A manager of a restoring class that fails to enter leaves the store as it found it. -/
theorem enter1_none_store {strict : Bool} {d : ClassDesc} {args : Frame} {σ σ' : Store}
    (hd : Restores d) (h : enter1 strict d args σ = (σ', none)) : σ' = σ := by
  obtain ⟨h0, h1⟩ := hd σ args strict
  rw [enter1_eq] at h
  split at h
  · simp only [Prod.mk.injEq, and_true] at h
    rw [← h]; exact h0
  · rename_i hr0
    obtain ⟨he, _⟩ := h1 (by simpa using hr0)
    split at h
    · rename_i hr1
      simp only [Prod.mk.injEq, and_true] at h
      rw [← h]; exact he hr1
    · simp at h

/-- `__exit__` of a restoring class, run on the instance `__enter__` left behind and on the store as it was right
after `__enter__`, does not raise and gives back the store from before the block. -/
theorem exit_after_enter1 {strict : Bool} {d : ClassDesc} {args : Frame} {σ σ' : Store} {ρ : Env}
    (hd : Restores d) (h : enter1 strict d args σ = (σ', some ρ)) :
    (execAll { ρ with store := σ' } d.m.exit).2 = false ∧ (execAll { ρ with store := σ' } d.m.exit).1.store = σ := by
  obtain ⟨_, h1⟩ := hd σ args strict
  have hs := enter1_some_store h
  rw [enter1_eq] at h
  split at h
  · simp at h
  · rename_i hr0
    obtain ⟨_, hx⟩ := h1 (by simpa using hr0)
    split at h
    · simp at h
    · rename_i hr1
      obtain ⟨hx1, hx2⟩ := hx (by simpa using hr1)
      simp only [Prod.mk.injEq, Option.some.injEq] at h
      have hρ : ({ ρ with store := σ' } : Env) = ρ := by rw [← hs]
      rw [hρ, ← h.2]
      exact ⟨hx1, hx2⟩

/-- `Good strict l σnow σorig`: the managers `l` (most recent first) were entered one after the other starting from the
store `σorig`, each of a restoring class, and the store is now `σnow` = the store right after the most recent
`__enter__`. -/
inductive Good (strict : Bool) : List Entered → Store → Store → Prop where
  | nil (σ : Store) : Good strict [] σ σ
  | cons {d : ClassDesc} {args : Frame} {ρ : Env} {rest : List Entered} {σp σn σo : Store}
      (hd : Restores d) (he : enter1 strict d args σp = (σn, some ρ)) (hr : Good strict rest σp σo) :
      Good strict ((d, ρ) :: rest) σn σo

theorem Good.nil_eq {strict : Bool} {σ τ : Store} (h : Good strict [] σ τ) : σ = τ := by
  cases h; rfl

theorem Good.append {strict : Bool} {l2 l1 : List Entered} {σ2 σ1 σ0 : Store}
    (h2 : Good strict l2 σ2 σ1) (h1 : Good strict l1 σ1 σ0) : Good strict (l2 ++ l1) σ2 σ0 := by
  induction h2 with
  | nil => exact h1
  | cons hd he _ ih => exact Good.cons hd he (ih h1)

/-- Unwinding a good list gives back the original store and no `__exit__` raises. -/
theorem unwind_good {strict : Bool} {l : List Entered} {σn σo : Store} (h : Good strict l σn σo) :
    unwind l σn = (σo, false) := by
  induction h with
  | nil => rfl
  | cons hd he _ ih =>
    obtain ⟨hx1, hx2⟩ := exit_after_enter1 hd he
    simp only [unwind, hx1, hx2, ih, Bool.or_self]

/-- Entering the managers of one multi-manager `with` keeps the invariant — also when a later one fails to enter
(a restoring class that fails to enter has not touched the store). -/
theorem enterMany_good {strict : Bool} (items : List (ClassDesc × Frame)) (hi : ∀ da ∈ items, Restores da.1) :
    ∀ (σ : Store) (acc : List Entered) (σo : Store), Good strict acc σ σo →
      Good strict (enterMany strict items σ acc).2.1 (enterMany strict items σ acc).1 σo := by
  induction items with
  | nil => intro σ acc σo h; exact h
  | cons da rest ih =>
    intro σ acc σo h
    obtain ⟨d, a⟩ := da
    have hd : Restores d := hi (d, a) (by simp)
    have hr : ∀ da ∈ rest, Restores da.1 := fun da h' => hi da (by simp [h'])
    simp only [enterMany]
    cases he : enter1 strict d a σ with
    | mk σ' o =>
      cases o with
      | none =>
        have := enter1_none_store hd he
        subst this
        exact h
      | some ρ => exact ih hr σ' ((d, ρ) :: acc) σo (Good.cons hd he h)

/-- Main invariant of `XProg.run` for well-formed programs over restoring classes: the run registers `new` managers on the
current `ExitStack` (none when `b = false`, i.e. outside the statement level of a `with ExitStack()` body), and these
form a `Good` list from the original store to the store reached. -/
theorem run_good (strict : Bool) (p : XProg) : ∀ (b : Bool), p.wf b = true → (∀ d ∈ p.classes, Restores d) →
    ∀ (σ : Store) (pd : List Entered) (tr : List Store),
      ∃ new, (p.run strict σ pd tr).pend = new ++ pd ∧ Good strict new (p.run strict σ pd tr).store σ ∧
        (b = false → new = []) := by
  induction p with
  | skip => intro b _ _ σ pd tr; exact ⟨[], rfl, Good.nil σ, fun _ => rfl⟩
  | probe => intro b _ _ σ pd tr; exact ⟨[], rfl, Good.nil σ, fun _ => rfl⟩
  | raise => intro b _ _ σ pd tr; exact ⟨[], rfl, Good.nil σ, fun _ => rfl⟩
  | seq p q ihp ihq =>
    intro b hw hc σ pd tr
    simp only [XProg.wf, Bool.and_eq_true] at hw
    have hp' : ∀ d ∈ p.classes, Restores d := fun d hd => hc d (by simp [XProg.classes, hd])
    have hq' : ∀ d ∈ q.classes, Restores d := fun d hd => hc d (by simp [XProg.classes, hd])
    obtain ⟨n1, e1, g1, z1⟩ := ihp b hw.1 hp' σ pd tr
    simp only [XProg.run]
    split
    · exact ⟨n1, e1, g1, z1⟩
    · obtain ⟨n2, e2, g2, z2⟩ := ihq b hw.2 hq' (p.run strict σ pd tr).store (p.run strict σ pd tr).pend
        (p.run strict σ pd tr).trace
      refine ⟨n2 ++ n1, ?_, Good.append g2 g1, fun hb => ?_⟩
      · rw [e2, e1, List.append_assoc]
      · rw [z1 hb, z2 hb]; rfl
  | withC d a body ih =>
    intro b hw hc σ pd tr
    simp only [XProg.wf] at hw
    have hd : Restores d := hc d (by simp [XProg.classes])
    have hb : ∀ d' ∈ body.classes, Restores d' := fun d' h => hc d' (by simp [XProg.classes, h])
    simp only [XProg.run]
    cases he : enter1 strict d a σ with
    | mk σ' o =>
      cases o with
      | none =>
        have := enter1_none_store hd he; subst this
        exact ⟨[], rfl, Good.nil _, fun _ => rfl⟩
      | some ρ =>
        obtain ⟨n, e, g, z⟩ := ih false hw hb σ' pd tr
        have hn := z rfl; subst hn
        have hs := g.nil_eq
        have hu := unwind_good (Good.cons hd he (Good.nil σ))
        simp only [hs, hu]
        exact ⟨[], e, Good.nil _, fun _ => rfl⟩
  | withMany items body ih =>
    intro b hw hc σ pd tr
    simp only [XProg.wf] at hw
    have hi : ∀ da ∈ items, Restores da.1 := fun da h => hc da.1 (by
      simp only [XProg.classes, List.mem_append, List.mem_map]; exact Or.inl ⟨da, h, rfl⟩)
    have hb : ∀ d' ∈ body.classes, Restores d' := fun d' h => hc d' (by simp [XProg.classes, h])
    have hg := enterMany_good (strict := strict) items hi σ [] σ (Good.nil σ)
    simp only [XProg.run]
    cases hem : enterMany strict items σ [] with
    | mk σ' r =>
      obtain ⟨ent, ok⟩ := r
      rw [hem] at hg
      cases ok with
      | true =>
        obtain ⟨n, e, g, z⟩ := ih false hw hb σ' pd tr
        have hn := z rfl; subst hn
        have hs := g.nil_eq
        simp only [hs, unwind_good hg]
        exact ⟨[], e, Good.nil _, fun _ => rfl⟩
      | false =>
        simp only [unwind_good hg]
        exact ⟨[], rfl, Good.nil _, fun _ => rfl⟩
  | stack body ih =>
    intro b hw hc σ pd tr
    simp only [XProg.wf] at hw
    obtain ⟨n, e, g, _⟩ := ih true hw (fun d h => hc d (by simpa [XProg.classes] using h)) σ [] tr
    simp only [XProg.run]
    rw [e, List.append_nil, unwind_good g]
    exact ⟨[], rfl, Good.nil _, fun _ => rfl⟩
  | enterCtx d a =>
    intro b hw hc σ pd tr
    simp only [XProg.wf] at hw
    have hd : Restores d := hc d (by simp [XProg.classes])
    simp only [XProg.run]
    cases he : enter1 strict d a σ with
    | mk σ' o =>
      cases o with
      | none =>
        have := enter1_none_store hd he; subst this
        exact ⟨[], rfl, Good.nil _, fun _ => rfl⟩
      | some ρ =>
        refine ⟨[(d, ρ)], rfl, Good.cons hd he (Good.nil σ), fun hb => ?_⟩
        rw [hb] at hw; exact absurd hw (by decide)
  | attempt p ih =>
    intro b hw hc σ pd tr
    simp only [XProg.wf] at hw
    obtain ⟨n, e, g, z⟩ := ih b hw (fun d h => hc d (by simpa [XProg.classes] using h)) σ pd tr
    exact ⟨n, e, g, z⟩

/-- The operational multi-manager `with` continued from a point where `acc` has already been entered = the nested
single-manager blocks for the remaining items, followed by unwinding `acc`. -/
theorem withMany_aux (strict : Bool) (body : XProg) (pd : List Entered) (tr : List Store) :
    ∀ (items : List (ClassDesc × Frame)) (σ : Store) (acc : List Entered),
      (match enterMany strict items σ acc with
        | (σ', ent, true) =>
            (⟨(unwind ent (body.run strict σ' pd tr).store).1,
              (unwind ent (body.run strict σ' pd tr).store).2 || (body.run strict σ' pd tr).raised,
              (body.run strict σ' pd tr).trace, (body.run strict σ' pd tr).pend⟩ : XRes)
        | (σ', ent, false) => ⟨(unwind ent σ').1, true, tr, pd⟩) =
      ⟨(unwind acc ((XProg.nest items body).run strict σ pd tr).store).1,
       (unwind acc ((XProg.nest items body).run strict σ pd tr).store).2
          || ((XProg.nest items body).run strict σ pd tr).raised,
       ((XProg.nest items body).run strict σ pd tr).trace, ((XProg.nest items body).run strict σ pd tr).pend⟩ := by
  intro items
  induction items with
  | nil => intro σ acc; rfl
  | cons da rest ih =>
    intro σ acc
    obtain ⟨d, a⟩ := da
    simp only [enterMany, XProg.nest, List.foldr_cons, XProg.run]
    cases he : enter1 strict d a σ with
    | mk σ' o =>
      cases o with
      | none => simp
      | some ρ =>
        simp only
        have := ih σ' ((d, ρ) :: acc)
        simp only [XProg.nest] at this
        rw [this]
        simp only [unwind, Bool.or_false]
        congr 1
        ac_rfl

end Settings

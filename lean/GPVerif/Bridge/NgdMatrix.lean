import Mathlib.LinearAlgebra.Matrix.Charpoly.Coeff
import Mathlib.LinearAlgebra.Matrix.NonsingularInverse
import Mathlib.LinearAlgebra.Matrix.Trace
import Mathlib.RingTheory.Ideal.Quotient.Operations
import Mathlib.RingTheory.Polynomial.Basic
import Mathlib.Analysis.Matrix.PosDef
import Mathlib.Analysis.Calculus.Deriv.Add
import Mathlib.Analysis.Calculus.Deriv.Mul
import Mathlib.Analysis.Calculus.Deriv.Pow
import Mathlib.Analysis.Calculus.Deriv.Polynomial
import Mathlib.Analysis.SpecialFunctions.Log.Deriv
import Mathlib.Tactic.Ring
import Mathlib.Tactic.FieldSimp
import Mathlib.Tactic.Linarith

/-!
# Natural-gradient step for `m` inducing points (matrix case)

`F` is `N · ELBO` of the conjugate (Gaussian-likelihood) sparse GP as a function of the
expectation parameters `ξ₁ = μ`, `ξ₂ = Σ + μ μᵀ` of `q(u) = N(μ, Σ)` (whitened prior `N(0, 1)`):
the likelihood part `-(1/2s)[R - 2 a·μ + tr(Cm (Σ + μμᵀ)) + tK - tr Cm]` minus
`KL(N(μ,Σ) ‖ N(0,1)) = ½ (tr(Σ + μμᵀ) - m - log det Σ)`.

The directional derivatives with respect to the expectation parameters are
`∂F/∂ξ₂[H] = tr((η₂* - η₂) H)` and `∂F/∂ξ₁[h] = (η₁* - η₁)·h`, with
`η₁ = Σ⁻¹ μ`, `η₂ = -½ Σ⁻¹`, `η₁* = s⁻¹ a`, `η₂* = -½ (1 + s⁻¹ Cm)`.

Jacobi's formula is not assumed: the derivative of `det` along a line is obtained from the
polynomial expansion `Matrix.det_one_add_smul`, and the derivative along a quadratic curve
`S + t D + t² E` from the fact that `det` of a polynomial matrix is a polynomial whose
first-order coefficient does not see the `X²` term (reduction modulo `X²`).
-/

open Matrix

namespace NgdMatrix
variable {m : Type} [Fintype m] [DecidableEq m]

/-- `N · ELBO` as a function of the expectation parameters.
`a = B r`, `Cm = B Bᵀ` (symmetric), `s = σ²`. -/
noncomputable def F (a : m → ℝ) (Cm : Matrix m m ℝ) (s R tK nlog : ℝ)
    (ξ₁ : m → ℝ) (ξ₂ : Matrix m m ℝ) : ℝ :=
  -(1 / (2 * s)) * (R - 2 * (a ⬝ᵥ ξ₁) + (Cm * ξ₂).trace + tK - Cm.trace) - nlog
  - (1 / 2) * (ξ₂.trace - Fintype.card m - Real.log (ξ₂ - Matrix.vecMulVec ξ₁ ξ₁).det)

/-! ## Jacobi's formula along a line, from the polynomial expansion of `det (1 + t • A)` -/

/-- `d/dt det(1 + t A) = tr A` at `t = 0`. -/
theorem hasDerivAt_det_one_add_smul (A : Matrix m m ℝ) :
    HasDerivAt (fun t : ℝ => (1 + t • A).det) A.trace 0 := by
  set p : Polynomial ℝ :=
    (1 + (Polynomial.X : Polynomial ℝ) •
      A.map ⇑(Polynomial.C : ℝ →+* Polynomial ℝ)).det.divX.divX with hp
  have hfun : (fun t : ℝ => (1 + t • A).det)
      = fun t : ℝ => 1 + A.trace * t + p.eval t * t ^ 2 := by
    funext t
    exact Matrix.det_one_add_smul t A
  rw [hfun]
  have hid : HasDerivAt (fun t : ℝ => t) 1 (0 : ℝ) := hasDerivAt_id 0
  have h1 : HasDerivAt (fun t : ℝ => 1 + A.trace * t) (A.trace * 1) 0 :=
    (hid.const_mul A.trace).const_add 1
  have h2 : HasDerivAt (fun t : ℝ => p.eval t * t ^ 2)
      (p.derivative.eval 0 * 0 ^ 2 + p.eval 0 * (↑2 * 0 ^ (2 - 1) * 1)) 0 :=
    (p.hasDerivAt 0).mul (hid.pow 2)
  exact (h1.add h2).congr_deriv (by simp)

/-- `d/dt det(S + t H) = det S · tr(S⁻¹ H)` at `t = 0`, for invertible `S`. -/
theorem hasDerivAt_det_line (S H : Matrix m m ℝ) (hS : IsUnit S.det) :
    HasDerivAt (fun t : ℝ => (S + t • H).det) (S.det * (S⁻¹ * H).trace) 0 := by
  have hfun : (fun t : ℝ => (S + t • H).det)
      = fun t : ℝ => S.det * (1 + t • (S⁻¹ * H)).det := by
    funext t
    rw [← Matrix.det_mul, Matrix.mul_add, Matrix.mul_one, Matrix.mul_smul, ← Matrix.mul_assoc,
      Matrix.mul_nonsing_inv S hS, Matrix.one_mul]
  rw [hfun]
  exact (hasDerivAt_det_one_add_smul (S⁻¹ * H)).const_mul S.det

/-- `d/dt log det(S + t H) = tr(S⁻¹ H)` at `t = 0`. -/
theorem hasDerivAt_logdet_line (S H : Matrix m m ℝ) (hS : IsUnit S.det) (hpos : 0 < S.det) :
    HasDerivAt (fun t : ℝ => Real.log (S + t • H).det) (S⁻¹ * H).trace 0 := by
  have h := (hasDerivAt_det_line S H hS).log (by simpa using hpos.ne')
  refine h.congr_deriv ?_
  have hne : S.det ≠ 0 := hpos.ne'
  simp only [zero_smul, add_zero]
  field_simp

/-! ## Quadratic curves `S + t D + t² E` -/

/-- the polynomial matrix `S + X D + X² E` -/
noncomputable def polyMat (S D E : Matrix m m ℝ) : Matrix m m (Polynomial ℝ) :=
  fun i j => Polynomial.C (S i j) + Polynomial.X * Polynomial.C (D i j)
    + Polynomial.X ^ 2 * Polynomial.C (E i j)

/-- `det (S + t D + t² E)` is the polynomial `det (polyMat S D E)` evaluated at `t`. -/
theorem det_quad_eq_eval (S D E : Matrix m m ℝ) (t : ℝ) :
    (S + t • D + t ^ 2 • E).det = (polyMat S D E).det.eval t := by
  have h := RingHom.map_det (Polynomial.evalRingHom t) (polyMat S D E)
  rw [Polynomial.coe_evalRingHom] at h
  rw [h]
  congr 1
  ext i j
  simp [polyMat]
  ring

/-- the first-order coefficient of `det (S + X D + X² E)` does not depend on `E`
(reduce modulo `X²`). -/
theorem coeff_one_det_polyMat (S D E : Matrix m m ℝ) :
    (polyMat S D E).det.coeff 1 = (polyMat S D 0).det.coeff 1 := by
  set I : Ideal (Polynomial ℝ) := Ideal.span {(Polynomial.X : Polynomial ℝ) ^ 2}
  have hmat : (Ideal.Quotient.mk I).mapMatrix (polyMat S D E)
      = (Ideal.Quotient.mk I).mapMatrix (polyMat S D 0) := by
    ext i j
    rw [RingHom.mapMatrix_apply, RingHom.mapMatrix_apply, Matrix.map_apply, Matrix.map_apply,
      Ideal.Quotient.eq, Ideal.mem_span_singleton]
    refine ⟨Polynomial.C (E i j), ?_⟩
    simp [polyMat]
  have hdet : Ideal.Quotient.mk I (polyMat S D E).det
      = Ideal.Quotient.mk I (polyMat S D 0).det := by
    rw [RingHom.map_det, RingHom.map_det, hmat]
  rw [Ideal.Quotient.eq, Ideal.mem_span_singleton, Polynomial.X_pow_dvd_iff] at hdet
  have := hdet 1 (by norm_num)
  rw [Polynomial.coeff_sub] at this
  linarith

/-- `d/dt det(S + t D + t² E) = det S · tr(S⁻¹ D)` at `t = 0`: the quadratic term does not
contribute. -/
theorem hasDerivAt_det_quad (S D E : Matrix m m ℝ) (hS : IsUnit S.det) :
    HasDerivAt (fun t : ℝ => (S + t • D + t ^ 2 • E).det) (S.det * (S⁻¹ * D).trace) 0 := by
  have key : ∀ E₀ : Matrix m m ℝ,
      HasDerivAt (fun t : ℝ => (S + t • D + t ^ 2 • E₀).det) ((polyMat S D E₀).det.coeff 1) 0 := by
    intro E₀
    rw [funext (det_quad_eq_eval S D E₀)]
    refine ((polyMat S D E₀).det.hasDerivAt 0).congr_deriv ?_
    rw [← Polynomial.coeff_zero_eq_eval_zero, Polynomial.coeff_derivative]
    simp
  have h0 := key 0
  simp only [smul_zero, add_zero] at h0
  have hc := h0.unique (hasDerivAt_det_line S D hS)
  rw [← hc, ← coeff_one_det_polyMat S D E]
  exact key E

/-- `d/dt log det(S + t D + t² E) = tr(S⁻¹ D)` at `t = 0`. -/
theorem hasDerivAt_logdet_quad (S D E : Matrix m m ℝ) (hS : IsUnit S.det) (hpos : 0 < S.det) :
    HasDerivAt (fun t : ℝ => Real.log (S + t • D + t ^ 2 • E).det) (S⁻¹ * D).trace 0 := by
  have h := (hasDerivAt_det_quad S D E hS).log (by simpa using hpos.ne')
  refine h.congr_deriv ?_
  have hne : S.det ≠ 0 := hpos.ne'
  simp only [zero_smul, add_zero, ne_eq, OfNat.ofNat_ne_zero, not_false_eq_true, zero_pow]
  field_simp

/-! ## The gradient in expectation parameters -/

/-- partial derivative in the `ξ₂` direction `H`: `tr((η₂* − η₂) H)`,
`η₂* = −½(1 + s⁻¹ Cm)`, `η₂ = −½ Σ⁻¹`. -/
theorem hasDerivAt_xi2 (a : m → ℝ) (Cm : Matrix m m ℝ) (s R tK nlog : ℝ) (ξ₁ : m → ℝ)
    (ξ₂ H : Matrix m m ℝ) (hSig : (ξ₂ - Matrix.vecMulVec ξ₁ ξ₁).PosDef) :
    HasDerivAt (fun t : ℝ => F a Cm s R tK nlog ξ₁ (ξ₂ + t • H))
      ((((-(1/2 : ℝ)) • (1 + s⁻¹ • Cm)
        - (-(1/2 : ℝ)) • (ξ₂ - Matrix.vecMulVec ξ₁ ξ₁)⁻¹) * H).trace) 0 := by
  set Sg : Matrix m m ℝ := ξ₂ - Matrix.vecMulVec ξ₁ ξ₁ with hSg
  have hpos : 0 < Sg.det := hSig.det_pos
  have hU : IsUnit Sg.det := isUnit_iff_ne_zero.mpr hpos.ne'
  have hid : HasDerivAt (fun t : ℝ => t) 1 (0 : ℝ) := hasDerivAt_id 0
  have hlog := hasDerivAt_logdet_line Sg H hU hpos
  have hfun : (fun t : ℝ => F a Cm s R tK nlog ξ₁ (ξ₂ + t • H))
      = fun t : ℝ => -(1 / (2 * s)) * ((R - 2 * (a ⬝ᵥ ξ₁) + (Cm * ξ₂).trace + tK - Cm.trace)
            + (Cm * H).trace * t) - nlog
          - (1 / 2) * ((ξ₂.trace - Fintype.card m) + H.trace * t
              - Real.log (Sg + t • H).det) := by
    funext t
    have e1 : ξ₂ + t • H - Matrix.vecMulVec ξ₁ ξ₁ = Sg + t • H := by
      rw [hSg]; abel
    unfold F
    rw [e1, Matrix.mul_add, Matrix.mul_smul, Matrix.trace_add, Matrix.trace_add,
      Matrix.trace_smul, Matrix.trace_smul]
    simp only [smul_eq_mul]
    ring
  rw [hfun]
  have h1 : HasDerivAt (fun t : ℝ => (R - 2 * (a ⬝ᵥ ξ₁) + (Cm * ξ₂).trace + tK - Cm.trace)
      + (Cm * H).trace * t) ((Cm * H).trace * 1) 0 :=
    (hid.const_mul _).const_add _
  have h2 : HasDerivAt (fun t : ℝ => (ξ₂.trace - Fintype.card m) + H.trace * t
      - Real.log (Sg + t • H).det) (H.trace * 1 - (Sg⁻¹ * H).trace) 0 :=
    ((hid.const_mul _).const_add _).sub hlog
  have h3 := ((h1.const_mul (-(1 / (2 * s)))).sub_const nlog).sub (h2.const_mul (1 / 2))
  refine h3.congr_deriv ?_
  rw [Matrix.sub_mul, Matrix.smul_mul, Matrix.smul_mul, Matrix.add_mul, Matrix.one_mul,
    Matrix.smul_mul, Matrix.trace_sub, Matrix.trace_smul, Matrix.trace_smul, Matrix.trace_add,
    Matrix.trace_smul]
  simp only [smul_eq_mul]
  have hs : (1 : ℝ) / (2 * s) = s⁻¹ / 2 := by
    rw [one_div, mul_inv]; ring
  rw [hs]
  ring

/-- symmetry of `Σ⁻¹` for a real positive definite `Σ`, in the form used below. -/
theorem inv_mulVec_dot_symm (Sg : Matrix m m ℝ) (hSig : Sg.PosDef) (u v : m → ℝ) :
    (Sg⁻¹ *ᵥ u) ⬝ᵥ v = (Sg⁻¹ *ᵥ v) ⬝ᵥ u := by
  have hT : Sgᵀ = Sg := by
    have := hSig.isHermitian
    rwa [Matrix.IsHermitian, Matrix.conjTranspose_eq_transpose_of_trivial] at this
  have hTi : (Sg⁻¹)ᵀ = Sg⁻¹ := by
    rw [Matrix.transpose_nonsing_inv, hT]
  calc (Sg⁻¹ *ᵥ u) ⬝ᵥ v = v ⬝ᵥ (Sg⁻¹ *ᵥ u) := dotProduct_comm _ _
    _ = (v ᵥ* Sg⁻¹) ⬝ᵥ u := Matrix.dotProduct_mulVec _ _ _
    _ = ((Sg⁻¹)ᵀ *ᵥ v) ⬝ᵥ u := by rw [Matrix.mulVec_transpose]
    _ = (Sg⁻¹ *ᵥ v) ⬝ᵥ u := by rw [hTi]

/-- partial derivative in the `ξ₁` direction `h`: `(η₁* − η₁)·h`,
`η₁* = s⁻¹ a`, `η₁ = Σ⁻¹ ξ₁`. -/
theorem hasDerivAt_xi1 (a : m → ℝ) (Cm : Matrix m m ℝ) (s R tK nlog : ℝ) (ξ₁ h : m → ℝ)
    (ξ₂ : Matrix m m ℝ) (hSig : (ξ₂ - Matrix.vecMulVec ξ₁ ξ₁).PosDef) :
    HasDerivAt (fun t : ℝ => F a Cm s R tK nlog (ξ₁ + t • h) ξ₂)
      ((s⁻¹ • a - (ξ₂ - Matrix.vecMulVec ξ₁ ξ₁)⁻¹ *ᵥ ξ₁) ⬝ᵥ h) 0 := by
  set Sg : Matrix m m ℝ := ξ₂ - Matrix.vecMulVec ξ₁ ξ₁ with hSg
  have hpos : 0 < Sg.det := hSig.det_pos
  have hU : IsUnit Sg.det := isUnit_iff_ne_zero.mpr hpos.ne'
  have hid : HasDerivAt (fun t : ℝ => t) 1 (0 : ℝ) := hasDerivAt_id 0
  set D : Matrix m m ℝ := -(Matrix.vecMulVec ξ₁ h + Matrix.vecMulVec h ξ₁) with hD
  set E : Matrix m m ℝ := -(Matrix.vecMulVec h h) with hE
  have hlog := hasDerivAt_logdet_quad Sg D E hU hpos
  -- first-order term: `tr(Σ⁻¹ D) = -2 (Σ⁻¹ ξ₁)·h`
  have htr : (Sg⁻¹ * D).trace = -2 * ((Sg⁻¹ *ᵥ ξ₁) ⬝ᵥ h) := by
    rw [hD, Matrix.mul_neg, Matrix.trace_neg, Matrix.mul_add, Matrix.trace_add,
      Matrix.mul_vecMulVec, Matrix.mul_vecMulVec, Matrix.trace_vecMulVec, Matrix.trace_vecMulVec,
      inv_mulVec_dot_symm Sg hSig h ξ₁]
    ring
  have hfun : (fun t : ℝ => F a Cm s R tK nlog (ξ₁ + t • h) ξ₂)
      = fun t : ℝ => -(1 / (2 * s)) * ((R - 2 * (a ⬝ᵥ ξ₁) + (Cm * ξ₂).trace + tK - Cm.trace)
            + (-2 * (a ⬝ᵥ h)) * t) - nlog
          - (1 / 2) * ((ξ₂.trace - Fintype.card m)
              - Real.log (Sg + t • D + t ^ 2 • E).det) := by
    funext t
    have e1 : ξ₂ - Matrix.vecMulVec (ξ₁ + t • h) (ξ₁ + t • h) = Sg + t • D + t ^ 2 • E := by
      rw [hSg, hD, hE, Matrix.add_vecMulVec, Matrix.vecMulVec_add, Matrix.vecMulVec_add,
        Matrix.smul_vecMulVec, Matrix.smul_vecMulVec, Matrix.vecMulVec_smul, Matrix.vecMulVec_smul]
      ext i j
      simp only [Matrix.sub_apply, Matrix.add_apply, Matrix.smul_apply, Matrix.neg_apply,
        smul_eq_mul]
      ring
    unfold F
    rw [e1, dotProduct_add, dotProduct_smul]
    simp only [smul_eq_mul]
    ring
  rw [hfun]
  have h1 : HasDerivAt (fun t : ℝ => (R - 2 * (a ⬝ᵥ ξ₁) + (Cm * ξ₂).trace + tK - Cm.trace)
      + (-2 * (a ⬝ᵥ h)) * t) ((-2 * (a ⬝ᵥ h)) * 1) 0 :=
    (hid.const_mul _).const_add _
  have h2 : HasDerivAt (fun t : ℝ => (ξ₂.trace - Fintype.card m)
      - Real.log (Sg + t • D + t ^ 2 • E).det) (0 - (Sg⁻¹ * D).trace) 0 :=
    (hasDerivAt_const (0 : ℝ) _).sub hlog
  have h3 := ((h1.const_mul (-(1 / (2 * s)))).sub_const nlog).sub (h2.const_mul (1 / 2))
  refine h3.congr_deriv ?_
  rw [htr, sub_dotProduct, smul_dotProduct]
  simp only [smul_eq_mul]
  have hs : (1 : ℝ) / (2 * s) = s⁻¹ / 2 := by
    rw [one_div, mul_inv]; ring
  rw [hs]
  ring

/-! ## One step of size one -/

omit [Fintype m] [DecidableEq m] in
/-- a natural-gradient step of size one along `η* − η` lands on `η*` from any start. -/
theorem one_step_matrix (η₁ η₁s : m → ℝ) (η₂ η₂s : Matrix m m ℝ) :
    η₁ + (1 : ℝ) • (η₁s - η₁) = η₁s ∧ η₂ + (1 : ℝ) • (η₂s - η₂) = η₂s := by
  constructor
  · rw [one_smul]; abel
  · rw [one_smul]; abel

end NgdMatrix

/-
Derivative of the Gaussian log density along a line of covariance matrices `K + t • D` (C02, gradient clause).

* `hasDerivAt_inv_line`  : `d/dt u ⬝ᵥ (K + t D)⁻¹ v |₀ = −u ⬝ᵥ K⁻¹ D K⁻¹ v` — from the resolvent identity
  `(K+tD)⁻¹ − K⁻¹ = −t (K+tD)⁻¹ D K⁻¹` and the continuity of the matrix inverse (adjugate / determinant), no
  normed-ring structure on matrices needed;
* `hasDerivAt_logNormal_line` : with Jacobi's formula along a line (`NgdMatrix.hasDerivAt_logdet_line`)
  `d/dt [−½ rᵀ(K+tD)⁻¹r − ½ log det(K+tD) − c] |₀ = ½ rᵀK⁻¹DK⁻¹r − ½ tr(K⁻¹D)`;
* `hasDerivAt_logNormal_resid` : the derivative in the residual direction `h`: `−h ⬝ᵥ K⁻¹ r` (symmetric `K`).
-/
import GPVerif.Bridge.NgdMatrix
import Mathlib.Topology.Instances.Matrix
import Mathlib.Analysis.Calculus.Deriv.Slope
import Mathlib.Analysis.Calculus.Deriv.Add
import Mathlib.Analysis.Calculus.Deriv.Mul

open Matrix Filter Topology

namespace MLLGrad

variable {m : Type} [Fintype m] [DecidableEq m]

omit [Fintype m] [DecidableEq m] in
theorem continuous_line (K D : Matrix m m ℝ) : Continuous fun t : ℝ => K + t • D :=
  continuous_const.add (continuous_id.smul continuous_const)

/-- `det (K + t D) ≠ 0` for all `t` close to `0`. -/
theorem eventually_isUnit_det (K D : Matrix m m ℝ) (hK : IsUnit K.det) :
    ∀ᶠ t in 𝓝 (0 : ℝ), IsUnit (K + t • D).det := by
  have hc : Continuous fun t : ℝ => (K + t • D).det := (continuous_line K D).matrix_det
  have h0 : (K + (0 : ℝ) • D).det ≠ 0 := by simpa using hK.ne_zero
  have := hc.continuousAt.eventually_ne h0
  exact this.mono fun t ht => isUnit_iff_ne_zero.mpr ht

/-- `(K + t D)⁻¹ → K⁻¹` as `t → 0`. -/
theorem tendsto_inv_line (K D : Matrix m m ℝ) (hK : IsUnit K.det) :
    Tendsto (fun t : ℝ => (K + t • D)⁻¹) (𝓝 0) (𝓝 K⁻¹) := by
  have hinv : ContinuousAt Inv.inv K :=
    continuousAt_matrix_inv K (by
      have : K.det ≠ 0 := hK.ne_zero
      simpa [Ring.inverse_eq_inv'] using continuousAt_inv₀ this)
  have hline : Tendsto (fun t : ℝ => K + t • D) (𝓝 0) (𝓝 K) := by
    have := (continuous_line K D).tendsto 0
    simpa using this
  exact hinv.tendsto.comp hline

/-- resolvent identity. -/
theorem inv_sub_inv_line (K D : Matrix m m ℝ) (t : ℝ) (hK : IsUnit K.det)
    (ht : IsUnit (K + t • D).det) :
    (K + t • D)⁻¹ - K⁻¹ = -(t • ((K + t • D)⁻¹ * D * K⁻¹)) := by
  have h1 : (K + t • D)⁻¹ * (K + t • D) = 1 := Matrix.nonsing_inv_mul _ ht
  have h2 : K * K⁻¹ = 1 := Matrix.mul_nonsing_inv _ hK
  calc (K + t • D)⁻¹ - K⁻¹
      = (K + t • D)⁻¹ * (K * K⁻¹) - ((K + t • D)⁻¹ * (K + t • D)) * K⁻¹ := by
        rw [h1, h2, Matrix.mul_one, Matrix.one_mul]
    _ = -(t • ((K + t • D)⁻¹ * D * K⁻¹)) := by
        rw [Matrix.mul_add, Matrix.add_mul, Matrix.mul_assoc, Matrix.mul_smul, Matrix.smul_mul]
        abel

/-- `d/dt u ⬝ᵥ (K + t D)⁻¹ v = −u ⬝ᵥ K⁻¹ D K⁻¹ v` at `t = 0`. -/
theorem hasDerivAt_inv_line (K D : Matrix m m ℝ) (hK : IsUnit K.det) (u v : m → ℝ) :
    HasDerivAt (fun t : ℝ => u ⬝ᵥ ((K + t • D)⁻¹ *ᵥ v)) (-(u ⬝ᵥ ((K⁻¹ * D * K⁻¹) *ᵥ v))) 0 := by
  rw [hasDerivAt_iff_tendsto_slope]
  -- the limit of the explicit difference quotient
  have hlim : Tendsto (fun t : ℝ => -(u ⬝ᵥ (((K + t • D)⁻¹ * D * K⁻¹) *ᵥ v))) (𝓝 0)
      (𝓝 (-(u ⬝ᵥ ((K⁻¹ * D * K⁻¹) *ᵥ v)))) := by
    have hc : Continuous fun M : Matrix m m ℝ => -(u ⬝ᵥ ((M * D * K⁻¹) *ᵥ v)) := by
      have h1 : Continuous fun M : Matrix m m ℝ => M * D * K⁻¹ :=
        (continuous_id.matrix_mul continuous_const).matrix_mul continuous_const
      have h2 : Continuous fun M : Matrix m m ℝ => (M * D * K⁻¹) *ᵥ v :=
        h1.matrix_mulVec continuous_const
      exact (continuous_const.dotProduct h2).neg
    exact (hc.tendsto K⁻¹).comp (tendsto_inv_line K D hK)
  refine (hlim.mono_left nhdsWithin_le_nhds).congr' ?_
  have hev : ∀ᶠ t in 𝓝[≠] (0 : ℝ), IsUnit (K + t • D).det :=
    nhdsWithin_le_nhds (eventually_isUnit_det K D hK)
  filter_upwards [hev, self_mem_nhdsWithin] with t ht htne
  have htne' : t ≠ 0 := htne
  rw [slope_def_field]
  have hres := inv_sub_inv_line K D t hK ht
  have hzero : (K + (0 : ℝ) • D)⁻¹ = K⁻¹ := by simp
  have : u ⬝ᵥ ((K + t • D)⁻¹ *ᵥ v) - u ⬝ᵥ ((K + (0 : ℝ) • D)⁻¹ *ᵥ v)
      = -(t * (u ⬝ᵥ (((K + t • D)⁻¹ * D * K⁻¹) *ᵥ v))) := by
    rw [hzero, ← dotProduct_sub, ← Matrix.sub_mulVec, hres, Matrix.neg_mulVec, dotProduct_neg,
      Matrix.smul_mulVec, dotProduct_smul, smul_eq_mul]
  rw [this, sub_zero]
  field_simp

/-- **Gradient of the Gaussian log density along a line of covariances.**
`d/dt [−½ rᵀ(K+tD)⁻¹r − ½ log det (K+tD) − c] = ½ rᵀK⁻¹DK⁻¹r − ½ tr(K⁻¹D)` at `t = 0`. -/
theorem hasDerivAt_logNormal_line (K D : Matrix m m ℝ) (hK : IsUnit K.det) (hpos : 0 < K.det)
    (r : m → ℝ) (c : ℝ) :
    HasDerivAt
      (fun t : ℝ => -(1 / 2) * (r ⬝ᵥ ((K + t • D)⁻¹ *ᵥ r)) - (1 / 2) * Real.log (K + t • D).det - c)
      ((1 / 2) * (r ⬝ᵥ ((K⁻¹ * D * K⁻¹) *ᵥ r)) - (1 / 2) * (K⁻¹ * D).trace) 0 := by
  have hq := (hasDerivAt_inv_line K D hK r r).const_mul (-(1 / 2 : ℝ))
  have hl := (NgdMatrix.hasDerivAt_logdet_line K D hK hpos).const_mul (1 / 2 : ℝ)
  exact ((hq.sub hl).sub_const c).congr_deriv (by ring)

/-- derivative in the residual (targets / mean) direction: `d/dt [−½ (r+th)ᵀK⁻¹(r+th)] = −h ⬝ᵥ K⁻¹ r`
for symmetric `K`. -/
theorem hasDerivAt_logNormal_resid (K : Matrix m m ℝ) (hsymm : Kᵀ = K) (r h : m → ℝ) (c : ℝ) :
    HasDerivAt (fun t : ℝ => -(1 / 2) * ((r + t • h) ⬝ᵥ (K⁻¹ *ᵥ (r + t • h))) - c)
      (-(h ⬝ᵥ (K⁻¹ *ᵥ r))) 0 := by
  have hKi : (K⁻¹)ᵀ = K⁻¹ := by rw [Matrix.transpose_nonsing_inv, hsymm]
  have hsw : r ⬝ᵥ (K⁻¹ *ᵥ h) = h ⬝ᵥ (K⁻¹ *ᵥ r) := by
    rw [Matrix.dotProduct_mulVec, ← Matrix.mulVec_transpose, hKi, dotProduct_comm]
  have hfun : (fun t : ℝ => -(1 / 2) * ((r + t • h) ⬝ᵥ (K⁻¹ *ᵥ (r + t • h))) - c)
      = fun t : ℝ => -(1 / 2) * (r ⬝ᵥ (K⁻¹ *ᵥ r) + 2 * (h ⬝ᵥ (K⁻¹ *ᵥ r)) * t
          + (h ⬝ᵥ (K⁻¹ *ᵥ h)) * t ^ 2) - c := by
    funext t
    simp only [Matrix.mulVec_add, Matrix.mulVec_smul, add_dotProduct, dotProduct_add, smul_dotProduct,
      dotProduct_smul, smul_eq_mul, hsw]
    ring
  rw [hfun]
  have hid : HasDerivAt (fun t : ℝ => t) 1 (0 : ℝ) := hasDerivAt_id 0
  have h1 := (hid.const_mul (2 * (h ⬝ᵥ (K⁻¹ *ᵥ r)))).const_add (r ⬝ᵥ (K⁻¹ *ᵥ r))
  have h2 := (hid.pow 2).const_mul (h ⬝ᵥ (K⁻¹ *ᵥ h))
  have := (((h1.add h2).const_mul (-(1 / 2 : ℝ))).sub_const c)
  refine this.congr_deriv ?_
  simp

/-! ## Arbitrary differentiable curves `t ↦ A t` (entrywise `HasDerivAt`), i.e. any hyperparameter

The formulas above hold along every curve of covariance matrices whose entries are differentiable at `0`
with derivative matrix `D` — the chain rule is proved here directly (slope argument for the inverse, Leibniz
expansion + uniqueness against the line for the determinant), so that the gradient formula is a theorem for
every differentiable parameterisation `K(θ)`, `m(θ)`, not only for parameters entering `K` affinely. -/

section curve
open Equiv

omit [Fintype m] [DecidableEq m] in
/-- entrywise differentiable ⇒ continuous at `0` as a matrix-valued map. -/
theorem tendsto_curve (A : ℝ → Matrix m m ℝ) (D : Matrix m m ℝ)
    (hA : ∀ i j, HasDerivAt (fun t => A t i j) (D i j) 0) :
    Tendsto A (𝓝 0) (𝓝 (A 0)) := by
  refine tendsto_pi_nhds.mpr fun i => tendsto_pi_nhds.mpr fun j => ?_
  exact (hA i j).continuousAt.tendsto

/-- the Leibniz expression for the derivative of the determinant. -/
noncomputable def detDeriv (M D : Matrix m m ℝ) : ℝ :=
  ∑ σ : Perm m, Perm.sign σ • ∑ i, (∏ j ∈ Finset.univ.erase i, M (σ j) j) • D (σ i) i

theorem hasDerivAt_det_curve_aux (A : ℝ → Matrix m m ℝ) (D : Matrix m m ℝ)
    (hA : ∀ i j, HasDerivAt (fun t => A t i j) (D i j) 0) :
    HasDerivAt (fun t => (A t).det) (detDeriv (A 0) D) 0 := by
  have hfun : (fun t => (A t).det)
      = fun t => ∑ σ : Perm m, Perm.sign σ • ∏ i, A t (σ i) i := by
    funext t; exact Matrix.det_apply (A t)
  rw [hfun]
  unfold detDeriv
  refine HasDerivAt.fun_sum fun σ _ => ?_
  refine HasDerivAt.const_smul (Perm.sign σ) ?_
  exact HasDerivAt.fun_finsetProd (u := Finset.univ) (f := fun i t => A t (σ i) i)
    (f' := fun i => D (σ i) i) fun i _ => hA (σ i) i

/-- the Leibniz expression is `det M · tr(M⁻¹ D)` (uniqueness of the derivative along the line). -/
theorem detDeriv_eq (M D : Matrix m m ℝ) (hM : IsUnit M.det) :
    detDeriv M D = M.det * (M⁻¹ * D).trace := by
  have h1 := hasDerivAt_det_curve_aux (fun t : ℝ => M + t • D) D (fun i j => by
    have hid : HasDerivAt (fun t : ℝ => t) 1 (0 : ℝ) := hasDerivAt_id 0
    have := (hid.mul_const (D i j)).const_add (M i j)
    simpa [Matrix.add_apply, Matrix.smul_apply] using this)
  have h2 := NgdMatrix.hasDerivAt_det_line M D hM
  simp only [zero_smul, add_zero] at h1
  exact h1.unique h2

/-- **Jacobi's formula along any differentiable curve.** -/
theorem hasDerivAt_logdet_curve (A : ℝ → Matrix m m ℝ) (D : Matrix m m ℝ)
    (hA : ∀ i j, HasDerivAt (fun t => A t i j) (D i j) 0) (hK : IsUnit (A 0).det)
    (hpos : 0 < (A 0).det) :
    HasDerivAt (fun t => Real.log (A t).det) (((A 0)⁻¹ * D).trace) 0 := by
  have h := (hasDerivAt_det_curve_aux A D hA).log hpos.ne'
  rw [detDeriv_eq _ _ hK] at h
  refine h.congr_deriv ?_
  have hne : (A 0).det ≠ 0 := hpos.ne'
  field_simp

/-- derivative of `u ⬝ᵥ (A t)⁻¹ v` along any differentiable curve. -/
theorem hasDerivAt_inv_curve (A : ℝ → Matrix m m ℝ) (D : Matrix m m ℝ)
    (hA : ∀ i j, HasDerivAt (fun t => A t i j) (D i j) 0) (hK : IsUnit (A 0).det) (u v : m → ℝ) :
    HasDerivAt (fun t : ℝ => u ⬝ᵥ ((A t)⁻¹ *ᵥ v))
      (-(u ⬝ᵥ (((A 0)⁻¹ * D * (A 0)⁻¹) *ᵥ v))) 0 := by
  obtain ⟨K, hKdef⟩ : ∃ K, K = A 0 := ⟨_, rfl⟩
  rw [← hKdef] at hK ⊢
  rw [hasDerivAt_iff_tendsto_slope]
  have hcont : Tendsto A (𝓝 0) (𝓝 K) := hKdef ▸ tendsto_curve A D hA
  -- (A t)⁻¹ → K⁻¹
  have hinvT : Tendsto (fun t => (A t)⁻¹) (𝓝 0) (𝓝 K⁻¹) := by
    have hinv : ContinuousAt Inv.inv K :=
      continuousAt_matrix_inv K (by
        have : K.det ≠ 0 := hK.ne_zero
        simpa [Ring.inverse_eq_inv'] using continuousAt_inv₀ this)
    exact hinv.tendsto.comp hcont
  -- the difference quotient of A tends to D (punctured neighbourhood)
  have hslope : Tendsto (fun t : ℝ => t⁻¹ • (A t - K)) (𝓝[≠] 0) (𝓝 D) := by
    refine tendsto_pi_nhds.mpr fun i => tendsto_pi_nhds.mpr fun j => ?_
    have := (hasDerivAt_iff_tendsto_slope.mp (hA i j))
    refine this.congr' ?_
    filter_upwards [self_mem_nhdsWithin] with t _
    rw [slope_def_field, hKdef]
    simp only [Matrix.sub_apply, Matrix.smul_apply, smul_eq_mul, sub_zero]
    rw [div_eq_inv_mul]
  let g : Matrix m m ℝ × Matrix m m ℝ → ℝ := fun p => -(u ⬝ᵥ ((p.1 * p.2 * K⁻¹) *ᵥ v))
  have hc : Continuous g := by
    have h1 : Continuous fun p : Matrix m m ℝ × Matrix m m ℝ => p.1 * p.2 * K⁻¹ :=
      (continuous_fst.matrix_mul continuous_snd).matrix_mul continuous_const
    exact (continuous_const.dotProduct (h1.matrix_mulVec continuous_const)).neg
  have hp : Tendsto (fun t : ℝ => ((A t)⁻¹, t⁻¹ • (A t - K))) (𝓝[≠] 0) (𝓝 (K⁻¹, D)) :=
    (hinvT.mono_left nhdsWithin_le_nhds).prodMk_nhds hslope
  have hlim : Tendsto (g ∘ fun t : ℝ => ((A t)⁻¹, t⁻¹ • (A t - K))) (𝓝[≠] 0) (𝓝 (g (K⁻¹, D))) :=
    (hc.tendsto (K⁻¹, D)).comp hp
  refine hlim.congr' ?_
  have hev : ∀ᶠ t in 𝓝[≠] (0 : ℝ), IsUnit (A t).det := by
    have hcd : Tendsto (fun t => (A t).det) (𝓝 0) (𝓝 K.det) :=
      (continuous_id.matrix_det.tendsto K).comp hcont
    have h0 : K.det ≠ 0 := hK.ne_zero
    exact nhdsWithin_le_nhds ((hcd.eventually_ne h0).mono fun t ht => isUnit_iff_ne_zero.mpr ht)
  filter_upwards [hev, self_mem_nhdsWithin] with t ht htne
  have htne' : t ≠ 0 := htne
  rw [slope_def_field]
  have h1 : (A t)⁻¹ * A t = 1 := Matrix.nonsing_inv_mul _ ht
  have h2 : K * K⁻¹ = 1 := Matrix.mul_nonsing_inv _ hK
  have hres : (A t)⁻¹ - K⁻¹ = -((A t)⁻¹ * (A t - K) * K⁻¹) := by
    calc (A t)⁻¹ - K⁻¹ = (A t)⁻¹ * (K * K⁻¹) - ((A t)⁻¹ * A t) * K⁻¹ := by
          rw [h1, h2, Matrix.mul_one, Matrix.one_mul]
      _ = -((A t)⁻¹ * (A t - K) * K⁻¹) := by
          simp only [Matrix.mul_sub, Matrix.sub_mul, Matrix.mul_assoc]; abel
  have : u ⬝ᵥ ((A t)⁻¹ *ᵥ v) - u ⬝ᵥ ((A 0)⁻¹ *ᵥ v)
      = -(t * (u ⬝ᵥ (((A t)⁻¹ * (t⁻¹ • (A t - K)) * K⁻¹) *ᵥ v))) := by
    rw [← hKdef, ← dotProduct_sub, ← Matrix.sub_mulVec, hres, Matrix.neg_mulVec, dotProduct_neg,
      Matrix.mul_smul, Matrix.smul_mul, Matrix.smul_mulVec, dotProduct_smul, smul_eq_mul,
      ← mul_assoc, mul_inv_cancel₀ htne', one_mul]
  rw [this, sub_zero]
  show -(u ⬝ᵥ (((A t)⁻¹ * (t⁻¹ • (A t - K)) * K⁻¹) *ᵥ v)) = _
  field_simp

/-- **Gradient of the Gaussian log density w.r.t. any hyperparameter** (Rasmussen & Williams (5.9) plus the
mean term): if the covariance `A t` (symmetric at `t = 0`) and the mean `μ t` are entrywise differentiable
at `0` with derivatives `D`, `dμ`, then
`d/dt log N(y | μ t, A t) = ½ rᵀK⁻¹DK⁻¹r − ½ tr(K⁻¹D) + dμ ⬝ᵥ K⁻¹ r` with `K = A 0`, `r = y − μ 0`. -/
theorem hasDerivAt_logNormal_curve (A : ℝ → Matrix m m ℝ) (D : Matrix m m ℝ) (μ : ℝ → m → ℝ)
    (dμ y : m → ℝ) (c : ℝ)
    (hA : ∀ i j, HasDerivAt (fun t => A t i j) (D i j) 0)
    (hμ : ∀ i, HasDerivAt (fun t => μ t i) (dμ i) 0)
    (hK : IsUnit (A 0).det) (hpos : 0 < (A 0).det) (hsymm : (A 0)ᵀ = A 0) :
    HasDerivAt
      (fun t : ℝ => -(1 / 2) * ((y - μ t) ⬝ᵥ ((A t)⁻¹ *ᵥ (y - μ t)))
        - (1 / 2) * Real.log (A t).det - c)
      ((1 / 2) * ((y - μ 0) ⬝ᵥ (((A 0)⁻¹ * D * (A 0)⁻¹) *ᵥ (y - μ 0)))
        - (1 / 2) * ((A 0)⁻¹ * D).trace + dμ ⬝ᵥ ((A 0)⁻¹ *ᵥ (y - μ 0))) 0 := by
  -- quadratic form as a double sum of products of differentiable scalars
  have hinv : ∀ i j, HasDerivAt (fun t => (A t)⁻¹ i j)
      (-(((A 0)⁻¹ * D * (A 0)⁻¹) i j)) 0 := by
    intro i j
    have := hasDerivAt_inv_curve A D hA hK (Pi.single i 1) (Pi.single j 1)
    simpa [Matrix.mulVec_single_one, single_one_dotProduct] using this
  have hr : ∀ i, HasDerivAt (fun t => (y - μ t) i) (-(dμ i)) 0 := by
    intro i
    have := (hμ i).const_sub (y i)
    simpa using this
  have hq : HasDerivAt (fun t : ℝ => (y - μ t) ⬝ᵥ ((A t)⁻¹ *ᵥ (y - μ t)))
      (∑ i, ∑ j, ((-(dμ i)) * ((A 0)⁻¹ i j * (y - μ 0) j)
        + (y - μ 0) i * ((-(((A 0)⁻¹ * D * (A 0)⁻¹) i j)) * (y - μ 0) j
          + (A 0)⁻¹ i j * (-(dμ j))))) 0 := by
    have hfun : (fun t : ℝ => (y - μ t) ⬝ᵥ ((A t)⁻¹ *ᵥ (y - μ t)))
        = fun t => ∑ i, ∑ j, (y - μ t) i * ((A t)⁻¹ i j * (y - μ t) j) := by
      funext t
      simp only [dotProduct, Matrix.mulVec, Finset.mul_sum]
    rw [hfun]
    refine HasDerivAt.fun_sum fun i _ => HasDerivAt.fun_sum fun j _ => ?_
    exact (hr i).mul ((hinv i j).mul (hr j))
  have hl := hasDerivAt_logdet_curve A D hA hK hpos
  have htot := ((hq.const_mul (-(1 / 2 : ℝ))).sub (hl.const_mul (1 / 2 : ℝ))).sub_const c
  refine htot.congr_deriv ?_
  -- algebra: collect the double sum
  have hKi : ((A 0)⁻¹)ᵀ = (A 0)⁻¹ := by rw [Matrix.transpose_nonsing_inv, hsymm]
  have hsym : ∀ i j, (A 0)⁻¹ i j = (A 0)⁻¹ j i := fun i j => by
    have := congrFun (congrFun hKi j) i
    simpa [Matrix.transpose_apply] using this
  set X := (A 0)⁻¹ with hX
  set r := y - μ 0 with hrdef
  have e1 : r ⬝ᵥ ((X * D * X) *ᵥ r) = ∑ i, ∑ j, r i * ((X * D * X) i j * r j) := by
    simp only [dotProduct, Matrix.mulVec, Finset.mul_sum]
  have e2 : dμ ⬝ᵥ (X *ᵥ r) = ∑ i, ∑ j, dμ i * (X i j * r j) := by
    simp only [dotProduct, Matrix.mulVec, Finset.mul_sum]
  have e3 : ∑ i, ∑ j, r i * (X i j * dμ j) = ∑ i, ∑ j, dμ i * (X i j * r j) := by
    rw [Finset.sum_comm]
    refine Finset.sum_congr rfl fun i _ => Finset.sum_congr rfl fun j _ => ?_
    rw [hsym j i]; ring
  rw [e1, e2]
  have : ∑ i, ∑ j, ((-(dμ i)) * (X i j * r j)
        + r i * ((-((X * D * X) i j)) * r j + X i j * (-(dμ j))))
      = -(∑ i, ∑ j, r i * ((X * D * X) i j * r j)) - 2 * ∑ i, ∑ j, dμ i * (X i j * r j) := by
    have : ∀ i j, ((-(dμ i)) * (X i j * r j)
        + r i * ((-((X * D * X) i j)) * r j + X i j * (-(dμ j))))
        = -(r i * ((X * D * X) i j * r j)) - dμ i * (X i j * r j) - r i * (X i j * dμ j) := by
      intro i j; ring
    simp only [this, Finset.sum_sub_distrib, Finset.sum_neg_distrib, e3]
    ring
  rw [this]
  ring

end curve

/-! ## Leave-one-out objective along a curve

With `a i = [A⁻¹]ᵢᵢ` and `b = A⁻¹ r` the code's LOO summand is `−½ log σ²ᵢ − ½ (yᵢ − μᵢ)²/σ²ᵢ = ½ log aᵢ − ½ bᵢ²/aᵢ`
(`σ²ᵢ = 1/aᵢ`, `yᵢ − μᵢ = bᵢ/aᵢ`).  Its derivative along any differentiable curve of covariances and means follows
from `hasDerivAt_inv_curve` entry by entry. -/

section loo

/-- entries of the inverse along a curve. -/
theorem hasDerivAt_inv_entry (A : ℝ → Matrix m m ℝ) (D : Matrix m m ℝ)
    (hA : ∀ i j, HasDerivAt (fun t => A t i j) (D i j) 0) (hK : IsUnit (A 0).det) (i j : m) :
    HasDerivAt (fun t => (A t)⁻¹ i j) (-(((A 0)⁻¹ * D * (A 0)⁻¹) i j)) 0 := by
  have := hasDerivAt_inv_curve A D hA hK (Pi.single i 1) (Pi.single j 1)
  simpa [Matrix.mulVec_single_one, single_one_dotProduct] using this

/-- `b(t) = A(t)⁻¹ (y − μ(t))` entrywise. -/
theorem hasDerivAt_inv_mulVec_entry (A : ℝ → Matrix m m ℝ) (D : Matrix m m ℝ) (μ : ℝ → m → ℝ) (dμ y : m → ℝ)
    (hA : ∀ i j, HasDerivAt (fun t => A t i j) (D i j) 0) (hμ : ∀ i, HasDerivAt (fun t => μ t i) (dμ i) 0)
    (hK : IsUnit (A 0).det) (i : m) :
    HasDerivAt (fun t => ((A t)⁻¹ *ᵥ (y - μ t)) i)
      (-((((A 0)⁻¹ * D * (A 0)⁻¹) *ᵥ (y - μ 0)) i) - ((A 0)⁻¹ *ᵥ dμ) i) 0 := by
  have hr : ∀ j, HasDerivAt (fun t => (y - μ t) j) (-(dμ j)) 0 := fun j => by
    have := (hμ j).const_sub (y j); simpa using this
  have hfun : (fun t => ((A t)⁻¹ *ᵥ (y - μ t)) i) = fun t => ∑ j, (A t)⁻¹ i j * (y - μ t) j := by
    funext t; simp [Matrix.mulVec, dotProduct]
  rw [hfun]
  have := HasDerivAt.fun_sum (u := Finset.univ) fun j _ => (hasDerivAt_inv_entry A D hA hK i j).mul (hr j)
  refine this.congr_deriv ?_
  simp only [Matrix.mulVec, dotProduct, Pi.sub_apply]
  rw [← Finset.sum_neg_distrib, ← Finset.sum_sub_distrib]
  refine Finset.sum_congr rfl fun j _ => ?_
  ring

/-- **Gradient of the leave-one-out objective's rational part along any differentiable curve.** -/
theorem hasDerivAt_loo_curve (A : ℝ → Matrix m m ℝ) (D : Matrix m m ℝ) (μ : ℝ → m → ℝ) (dμ y : m → ℝ)
    (hA : ∀ i j, HasDerivAt (fun t => A t i j) (D i j) 0) (hμ : ∀ i, HasDerivAt (fun t => μ t i) (dμ i) 0)
    (hK : IsUnit (A 0).det) (hpos : ∀ i, 0 < (A 0)⁻¹ i i) :
    HasDerivAt
      (fun t => ∑ i, ((1 / 2) * Real.log ((A t)⁻¹ i i)
        - (1 / 2) * (((A t)⁻¹ *ᵥ (y - μ t)) i) ^ 2 / (A t)⁻¹ i i))
      (∑ i,
        let a := (A 0)⁻¹ i i
        let a' := -(((A 0)⁻¹ * D * (A 0)⁻¹) i i)
        let b := ((A 0)⁻¹ *ᵥ (y - μ 0)) i
        let b' := -((((A 0)⁻¹ * D * (A 0)⁻¹) *ᵥ (y - μ 0)) i) - ((A 0)⁻¹ *ᵥ dμ) i
        (1 / 2) * a' / a - b * b' / a + (1 / 2) * b ^ 2 * a' / a ^ 2) 0 := by
  refine HasDerivAt.fun_sum fun i _ => ?_
  have ha := hasDerivAt_inv_entry A D hA hK i i
  have hb := hasDerivAt_inv_mulVec_entry A D μ dμ y hA hμ hK i
  have hne : (A 0)⁻¹ i i ≠ 0 := (hpos i).ne'
  have h1 := (ha.log hne).const_mul (1 / 2 : ℝ)
  have h2 := (((hb.mul hb).div ha hne).const_mul (1 / 2 : ℝ))
  refine ((h1.sub h2).congr_deriv ?_).congr_of_eventuallyEq (Filter.Eventually.of_forall fun t => ?_)
  · simp only [Pi.mul_apply]
    field_simp
    ring
  · simp only [Pi.mul_apply, Pi.div_apply, Pi.sub_apply]
    ring

end loo

end MLLGrad

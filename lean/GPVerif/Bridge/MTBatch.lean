/-
Helper lemmas for the batch-aware part of C11 about the hand-written model `GPVerif.Model.MTBatch` (index tuples,
ellipsis, gather semantics, chunks).  Nothing here mentions the generated code.
-/
import GPVerif.Model.MTBatch
import GPVerif.Bridge.MTIndex
import Mathlib.Data.List.Nodup

namespace MTIndex

/-! ### index tuples -/

/-- a tuple without `Ellipsis` -/
def embed (cs : List Idx) : List BIdx := cs.map BIdx.comp

@[simp] theorem embed_nil : embed [] = [] := rfl
@[simp] theorem embed_cons (x : Idx) (cs : List Idx) : embed (x :: cs) = BIdx.comp x :: embed cs := rfl
@[simp] theorem embed_length (cs : List Idx) : (embed cs).length = cs.length := by simp [embed]
theorem embed_append (a b : List Idx) : embed (a ++ b) = embed a ++ embed b := by simp [embed]

@[simp] theorem isEllipsis_comp (x : Idx) : (BIdx.comp x).isEllipsis = false := rfl
@[simp] theorem isEllipsis_ellipsis : BIdx.ellipsis.isEllipsis = true := rfl

@[simp] theorem comp?_comp (x : Idx) : (BIdx.comp x).comp? = some x := rfl
@[simp] theorem comp?_ellipsis : BIdx.ellipsis.comp? = none := rfl

@[simp] theorem filterMap_ellipsis_cons (l : List BIdx) :
    (BIdx.ellipsis :: l).filterMap BIdx.comp? = l.filterMap BIdx.comp? := List.filterMap_cons_none rfl
@[simp] theorem filterMap_comp_cons (x : Idx) (l : List BIdx) :
    (BIdx.comp x :: l).filterMap BIdx.comp? = x :: l.filterMap BIdx.comp? := List.filterMap_cons_some rfl
@[simp] theorem comp_beq_ellipsis (x : Idx) : (BIdx.comp x == BIdx.ellipsis) = false :=
  beq_eq_false_iff_ne.mpr (by intro h; cases h)

theorem comps?_embed (cs : List Idx) : BIdx.comps? (embed cs) = some cs := by
  induction cs with
  | nil => rfl
  | cons x cs ih => simp [BIdx.comps?, ih]

theorem ellipsis_not_mem_embed (cs : List Idx) : BIdx.ellipsis ∉ embed cs := by
  simp [embed]

theorem filterMap_embed (cs : List Idx) : (embed cs).filterMap BIdx.comp? = cs := by
  induction cs with
  | nil => rfl
  | cons x cs ih => simp [ih]

/-- every tuple is either free of `Ellipsis` or splits at its first `Ellipsis` -/
theorem tuple_decomp (l : List BIdx) :
    (∃ cs, l = embed cs) ∨ (∃ cs rest, l = embed cs ++ BIdx.ellipsis :: rest) := by
  induction l with
  | nil => exact Or.inl ⟨[], rfl⟩
  | cons x l ih =>
    cases x with
    | ellipsis => exact Or.inr ⟨[], l, rfl⟩
    | comp y =>
      rcases ih with ⟨cs, rfl⟩ | ⟨cs, rest, rfl⟩
      · exact Or.inl ⟨y :: cs, rfl⟩
      · exact Or.inr ⟨y :: cs, rest, rfl⟩

theorem takeWhile_embed_append (cs : List Idx) (rest : List BIdx) :
    (embed cs ++ BIdx.ellipsis :: rest).takeWhile (fun x => !x.isEllipsis) = embed cs := by
  induction cs with
  | nil => simp
  | cons x cs ih => simp [ih]

theorem dropWhile_embed_append (cs : List Idx) (rest : List BIdx) :
    (embed cs ++ BIdx.ellipsis :: rest).dropWhile (fun x => !x.isEllipsis) = BIdx.ellipsis :: rest := by
  induction cs with
  | nil => simp
  | cons x cs ih => simp [ih]

theorem takeWhile_embed (cs : List Idx) : (embed cs).takeWhile (fun x => !x.isEllipsis) = embed cs := by
  induction cs with
  | nil => rfl
  | cons x cs ih => simp [ih]

theorem dropWhile_embed (cs : List Idx) : (embed cs).dropWhile (fun x => !x.isEllipsis) = [] := by
  induction cs with
  | nil => rfl
  | cons x cs ih => simp [ih]

theorem idxOf_embed_append (cs : List Idx) (rest : List BIdx) :
    (embed cs ++ BIdx.ellipsis :: rest).idxOf BIdx.ellipsis = cs.length := by
  induction cs with
  | nil => simp
  | cons x cs ih =>
    simp only [embed_cons, List.cons_append, List.idxOf_cons]
    simp [ih]

/-- `specExpand` on a tuple without ellipsis: pad with full slices -/
theorem specExpand_embed (rank : Nat) (cs : List Idx) :
    specExpand rank (embed cs) =
      if rank < cs.length then none else some (cs ++ List.replicate (rank - cs.length) (.slice PySlice.full)) := by
  simp only [specExpand, filterMap_embed, embed_length, Nat.sub_self, takeWhile_embed, dropWhile_embed]
  simp

/-- `specExpand` on a tuple split at its first ellipsis -/
theorem specExpand_split (rank : Nat) (cs ps : List Idx) :
    specExpand rank (embed cs ++ BIdx.ellipsis :: embed ps) =
      if rank < cs.length + ps.length then none
      else some (cs ++ List.replicate (rank - (cs.length + ps.length)) (.slice PySlice.full) ++ ps) := by
  have hf : (embed cs ++ BIdx.ellipsis :: embed ps).filterMap BIdx.comp? = cs ++ ps := by
    simp [List.filterMap_append, filterMap_embed]
  simp only [specExpand, hf, takeWhile_embed_append, dropWhile_embed_append, filterMap_embed, List.drop_succ_cons,
    List.drop_zero, List.length_append, List.length_cons, embed_length]
  have : ¬ (1 < cs.length + (ps.length + 1) - (cs.length + ps.length)) := by omega
  simp [this]

/-- a second ellipsis is an error -/
theorem specExpand_two (rank : Nat) (cs : List Idx) (rest : List BIdx) (h : BIdx.ellipsis ∈ rest) :
    specExpand rank (embed cs ++ BIdx.ellipsis :: rest) = none := by
  have hlen : (rest.filterMap BIdx.comp?).length + 1 ≤ rest.length := by
    clear cs
    induction rest with
    | nil => simp at h
    | cons x r ih =>
      cases x with
      | ellipsis =>
        have := List.length_filterMap_le BIdx.comp? r
        simp; omega
      | comp y =>
        have h' : BIdx.ellipsis ∈ r := by simpa using h
        have := ih h'
        simp; omega
  have hf : ((embed cs ++ BIdx.ellipsis :: rest).filterMap BIdx.comp?).length = cs.length + (rest.filterMap BIdx.comp?).length := by
    simp [List.filterMap_append, filterMap_embed]
  simp only [specExpand, hf, List.length_append, List.length_cons, embed_length]
  rw [if_pos]
  left
  omega

end MTIndex

namespace MTIndex

/-! ### Python tuple primitives -/

theorem pyRepeat_singleton {α : Type} (x : α) (k : Int) : pyRepeat [x] k = List.replicate k.toNat x := by
  unfold pyRepeat
  induction k.toNat with
  | zero => rfl
  | succ n ih => simp [List.replicate_succ, ih]

theorem pyTake_natCast {α : Type} (l : List α) (n : Nat) : pyTake l (n : Int) = l.take n := by
  simp [pyTake]

theorem pyDrop_natCast {α : Type} (l : List α) (n : Nat) : pyDrop l (n : Int) = l.drop n := by
  simp [pyDrop]

theorem pyIndexOf?_split (cs : List Idx) (rest : List BIdx) :
    pyIndexOf? (embed cs ++ BIdx.ellipsis :: rest) BIdx.ellipsis = some (cs.length : Int) := by
  simp [pyIndexOf?, idxOf_embed_append]

theorem pyTake_split (cs : List Idx) (rest : List BIdx) :
    pyTake (embed cs ++ BIdx.ellipsis :: rest) (cs.length : Int) = embed cs := by
  rw [pyTake_natCast, List.take_left' (by simp)]

theorem pyDrop_split (cs : List Idx) (rest : List BIdx) :
    pyDrop (embed cs ++ BIdx.ellipsis :: rest) ((cs.length : Int) + 1) = rest := by
  have : ((cs.length : Int) + 1) = ((cs.length + 1 : Nat) : Int) := by push_cast; rfl
  rw [this, pyDrop_natCast]
  have h : embed cs ++ BIdx.ellipsis :: rest = (embed cs ++ [BIdx.ellipsis]) ++ rest := by simp
  rw [h, List.drop_left' (by simp)]

/-- `seq[:-2]` and `seq[-2]`, `seq[-1]` of a tuple that ends in two components -/
theorem pyTake_neg_two {α : Type} (b : List α) (r c : α) : pyTake (b ++ [r, c]) (-2) = b := by
  have : ((-2 : Int) + ((b ++ [r, c]).length : Int)).toNat = b.length := by simp
  simp only [pyTake, show ¬ (0 : Int) ≤ -2 by decide, if_false, this]
  exact List.take_left' rfl

theorem pyGet?_neg_two {α : Type} (b : List α) (r c : α) : pyGet? (b ++ [r, c]) (-2) = some r := by
  have h1 : ((-2 : Int) + ((b ++ [r, c]).length : Int)).toNat = b.length := by simp
  have h2 : -(((b ++ [r, c]).length : Nat) : Int) ≤ -2 := by simp
  simp only [pyGet?, show ¬ (0 : Int) ≤ -2 by decide, if_false, h1, h2, if_true]
  simp

theorem pyGet?_neg_one {α : Type} (b : List α) (r c : α) : pyGet? (b ++ [r, c]) (-1) = some c := by
  have h1 : ((-1 : Int) + ((b ++ [r, c]).length : Int)).toNat = b.length + 1 := by simp; omega
  have h2 : -(((b ++ [r, c]).length : Nat) : Int) ≤ -1 := by simp
  simp only [pyGet?, show ¬ (0 : Int) ≤ -1 by decide, if_false, h1, h2, if_true]
  simp

end MTIndex

namespace MTIndex

/-- the selection is a single diagonal entry (`DiagLinearOperator(cov.diagonal()[…])`) -/
def EvSel.isDiag : EvSel → Bool
  | .diag _ => true
  | _ => false

end MTIndex

namespace MTIndex

/-! ### gather: basic (int / slice) items in front of a tail -/

theorem flatMap_congr' {α β : Type} {l : List α} {f g : α → List β} (h : ∀ a ∈ l, f a = g a) :
    l.flatMap f = l.flatMap g := by
  induction l with
  | nil => rfl
  | cons x r ih =>
    simp only [List.flatMap_cons]
    rw [h x (by simp), ih (fun a ha => h a (by simp [ha]))]

def RItem.basic : RItem → Bool
  | .adv _ => false
  | _ => true

def allBasic (items : List RItem) : Bool := items.all RItem.basic

/-- the (reversed) source multi-indices selected by basic items, in row-major order -/
def bsel (items : List RItem) (pre : List Int) : List (List Int) := gIn 0 (fun p => [p]) items pre

def RItem.positions : RItem → List Int
  | .pick p => [p]
  | .keep l => l
  | .adv l => l

def RItem.dims : RItem → List Nat
  | .pick _ => []
  | .keep l => [l.length]
  | .adv l => [l.length]

@[simp] theorem allBasic_nil : allBasic [] = true := rfl
theorem allBasic_cons (x : RItem) (r : List RItem) : allBasic (x :: r) = (x.basic && allBasic r) := by
  simp [allBasic]

theorem gIn_append_basic {α : Type} (L : Nat) (leaf : List Int → List α) (tail : List RItem) :
    ∀ (b : List RItem) (pre : List Int), allBasic b = true →
      gIn L leaf (b ++ tail) pre = (bsel b pre).flatMap fun p => gIn L leaf tail p
  | [], pre, _ => by simp [bsel, gIn]
  | .pick p :: r, pre, h => by
    have hr : allBasic r = true := by simpa [allBasic_cons, RItem.basic] using h
    simpa [bsel, gIn] using gIn_append_basic L leaf tail r (p :: pre) hr
  | .keep l :: r, pre, h => by
    have hr : allBasic r = true := by simpa [allBasic_cons, RItem.basic] using h
    simp only [List.cons_append, gIn, bsel, List.flatMap_assoc]
    apply flatMap_congr'
    intro p _
    exact gIn_append_basic L leaf tail r (p :: pre) hr
  | .adv l :: r, pre, h => by simp [allBasic_cons, RItem.basic] at h

theorem advLen_append_basic (tail : List RItem) : ∀ (b : List RItem), allBasic b = true →
    advLen (b ++ tail) = advLen tail
  | [], _ => rfl
  | .pick p :: r, h => by
    simpa [advLen] using advLen_append_basic tail r (by simpa [allBasic_cons, RItem.basic] using h)
  | .keep l :: r, h => by
    simpa [advLen] using advLen_append_basic tail r (by simpa [allBasic_cons, RItem.basic] using h)
  | .adv l :: r, h => by simp [allBasic_cons, RItem.basic] at h

theorem adjacent_append_basic (tail : List RItem) : ∀ (b : List RItem), allBasic b = true →
    adjacentFrom 0 (b ++ tail) = adjacentFrom 0 tail
  | [], _ => rfl
  | .pick p :: r, h => by
    simpa [adjacentFrom] using adjacent_append_basic tail r (by simpa [allBasic_cons, RItem.basic] using h)
  | .keep l :: r, h => by
    simpa [adjacentFrom] using adjacent_append_basic tail r (by simpa [allBasic_cons, RItem.basic] using h)
  | .adv l :: r, h => by simp [allBasic_cons, RItem.basic] at h

theorem keepDims_append (a b : List RItem) : keepDims (a ++ b) = keepDims a ++ keepDims b := by
  induction a with
  | nil => rfl
  | cons x r ih => cases x <;> simp [keepDims, ih]

theorem shapeIn_append_basic (L : Nat) (tail : List RItem) : ∀ (b : List RItem), allBasic b = true →
    shapeIn L (b ++ tail) = keepDims b ++ shapeIn L tail
  | [], _ => rfl
  | .pick p :: r, h => by
    simpa [shapeIn, keepDims] using shapeIn_append_basic L tail r (by simpa [allBasic_cons, RItem.basic] using h)
  | .keep l :: r, h => by
    simpa [shapeIn, keepDims] using shapeIn_append_basic L tail r (by simpa [allBasic_cons, RItem.basic] using h)
  | .adv l :: r, h => by simp [allBasic_cons, RItem.basic] at h

/-- gathering through basic leading items: the product of the selected leading multi-indices with the gather of
the tail (whose index tensors, if any, are adjacent) -/
theorem gatherFrom_append_basic {α : Type} (leaf : List Int → List α) (b tail : List RItem) (pre : List Int)
    (hb : allBasic b = true) (hadj : adjacent tail = true) :
    gatherFrom leaf (b ++ tail) pre =
      match advLen tail with
      | none => none
      | some none => some ⟨keepDims b ++ keepDims tail, (bsel b pre).flatMap fun p => gIn 0 leaf tail p⟩
      | some (some L) => some ⟨keepDims b ++ shapeIn L tail, (bsel b pre).flatMap fun p => gIn L leaf tail p⟩ := by
  unfold gatherFrom
  rw [advLen_append_basic tail b hb]
  cases h : advLen tail with
  | none => rfl
  | some o =>
    cases o with
    | none => simp only [keepDims_append, gIn_append_basic 0 leaf tail b pre hb]
    | some L =>
      have : adjacent (b ++ tail) = true := by
        unfold adjacent at *; rw [adjacent_append_basic tail b hb]; exact hadj
      simp only [this, if_true, shapeIn_append_basic L tail b hb, gIn_append_basic L leaf tail b pre hb]

end MTIndex

namespace MTIndex

/-! ### chunks -/

theorem chunks_flatMap {α β : Type} (f : α → List β) (m : Nat) :
    ∀ xs : List α, (∀ x ∈ xs, (f x).length = m) → chunks xs.length m (xs.flatMap f) = xs.map f
  | [], _ => rfl
  | x :: r, h => by
    have hx : (f x).length = m := h x (by simp)
    simp only [List.length_cons, chunks, List.flatMap_cons, List.map_cons]
    rw [List.take_left' hx, List.drop_left' hx, chunks_flatMap f m r (fun y hy => h y (by simp [hy]))]

theorem chunks_map {α β : Type} (f : α → β) : ∀ (c m : Nat) (l : List α),
    chunks c m (l.map f) = (chunks c m l).map (List.map f)
  | 0, _, _ => rfl
  | c + 1, m, l => by
    simp only [chunks, List.map_cons]
    rw [← List.map_drop, chunks_map f c m, List.map_take]

theorem chunks_sublist {α : Type} : ∀ (c m : Nat) (l : List α), ∀ blk ∈ chunks c m l, blk.Sublist l
  | 0, _, _, _, h => by simp [chunks] at h
  | c + 1, m, l, blk, h => by
    simp only [chunks, List.mem_cons] at h
    rcases h with rfl | h
    · exact List.take_sublist m l
    · exact (chunks_sublist c m _ blk h).trans (List.drop_sublist m l)

theorem chunks_length {α : Type} : ∀ (c m : Nat) (l : List α), (chunks c m l).length = c
  | 0, _, _ => rfl
  | c + 1, m, l => by simp [chunks, chunks_length c m]

/-! ### the basic selection: size, distinctness -/

theorem prodNat_cons (a : Nat) (l : List Nat) : prodNat (a :: l) = a * prodNat l := rfl

theorem length_flatMap_const {α β : Type} (f : α → List β) (m : Nat) :
    ∀ l : List α, (∀ x ∈ l, (f x).length = m) → (l.flatMap f).length = l.length * m
  | [], _ => by simp
  | x :: r, h => by
    simp only [List.flatMap_cons, List.length_append, List.length_cons, h x (by simp),
      length_flatMap_const f m r (fun y hy => h y (by simp [hy]))]
    rw [Nat.add_mul, Nat.one_mul, Nat.add_comm]

theorem length_bsel : ∀ (b : List RItem) (pre : List Int), allBasic b = true →
    (bsel b pre).length = prodNat (keepDims b)
  | [], _, _ => rfl
  | .pick p :: r, pre, h => by
    have hr : allBasic r = true := by simpa [allBasic_cons, RItem.basic] using h
    simpa [bsel, gIn, keepDims] using length_bsel r (p :: pre) hr
  | .keep l :: r, pre, h => by
    have hr : allBasic r = true := by simpa [allBasic_cons, RItem.basic] using h
    have := length_flatMap_const (fun p => bsel r (p :: pre)) (prodNat (keepDims r)) l
      (fun p _ => length_bsel r (p :: pre) hr)
    simpa [bsel, gIn, keepDims, prodNat_cons] using this
  | .adv l :: r, pre, h => by simp [allBasic_cons, RItem.basic] at h

/-- every selected multi-index extends the prefix by one coordinate per item -/
theorem bsel_suffix : ∀ (b : List RItem) (pre x : List Int), allBasic b = true → x ∈ bsel b pre →
    ∃ s, x = s ++ pre ∧ s.length = b.length
  | [], pre, x, _, hx => by
    simp [bsel, gIn] at hx; exact ⟨[], by simp [hx], rfl⟩
  | .pick p :: r, pre, x, h, hx => by
    have hr : allBasic r = true := by simpa [allBasic_cons, RItem.basic] using h
    obtain ⟨s, rfl, hs⟩ := bsel_suffix r (p :: pre) x hr (by simpa [bsel, gIn] using hx)
    exact ⟨s ++ [p], by simp, by simp [hs]⟩
  | .keep l :: r, pre, x, h, hx => by
    have hr : allBasic r = true := by simpa [allBasic_cons, RItem.basic] using h
    simp only [bsel, gIn, List.mem_flatMap] at hx
    obtain ⟨p, _, hx⟩ := hx
    obtain ⟨s, rfl, hs⟩ := bsel_suffix r (p :: pre) x hr hx
    exact ⟨s ++ [p], by simp, by simp [hs]⟩
  | .adv l :: r, pre, x, h, _ => by simp [allBasic_cons, RItem.basic] at h

/-- distinct selected multi-indices: slices select distinct positions -/
theorem bsel_nodup : ∀ (b : List RItem) (pre : List Int), allBasic b = true →
    (∀ l, RItem.keep l ∈ b → l.Nodup) → (bsel b pre).Nodup
  | [], pre, _, _ => by simp [bsel, gIn]
  | .pick p :: r, pre, h, hk => by
    have hr : allBasic r = true := by simpa [allBasic_cons, RItem.basic] using h
    simpa [bsel, gIn] using bsel_nodup r (p :: pre) hr (fun l hl => hk l (by simp [hl]))
  | .keep l :: r, pre, h, hk => by
    have hr : allBasic r = true := by simpa [allBasic_cons, RItem.basic] using h
    have hl : l.Nodup := hk l (by simp)
    simp only [bsel, gIn]
    rw [List.nodup_flatMap]
    refine ⟨fun p _ => bsel_nodup r (p :: pre) hr (fun l' hl' => hk l' (by simp [hl'])), ?_⟩
    refine List.Pairwise.imp_of_mem ?_ hl
    intro p q _ _ hpq
    simp only [Function.onFun, List.disjoint_left]
    intro x hxp hxq
    obtain ⟨s, rfl, hs⟩ := bsel_suffix r (p :: pre) x hr hxp
    obtain ⟨s', e, hs'⟩ := bsel_suffix r (q :: pre) _ hr hxq
    have := List.append_inj e (by omega)
    simp at this
    exact hpq this.2
  | .adv l :: r, pre, h, _ => by simp [allBasic_cons, RItem.basic] at h

end MTIndex

namespace MTIndex

theorem gatherFrom_append_basic' {α : Type} (leaf : List Int → List α) (b tail : List RItem) (pre : List Int)
    (hb : allBasic b = true) (hadj : adjacent tail = true) (sh : List Nat) (D : List Int → List α)
    (hT : ∀ p, gatherFrom leaf tail p = some ⟨sh, D p⟩) :
    gatherFrom leaf (b ++ tail) pre = some ⟨keepDims b ++ sh, (bsel b pre).flatMap D⟩ := by
  rw [gatherFrom_append_basic leaf b tail pre hb hadj]
  unfold gatherFrom at hT
  cases h : advLen tail with
  | none => simp [h] at hT
  | some o =>
    cases o with
    | none =>
      simp only [h, Option.some.injEq, Gathered.mk.injEq] at hT
      simp only [← (hT []).1]
      congr 2
      exact flatMap_congr' (fun p _ => (hT p).2)
    | some L =>
      simp only [h, hadj, if_true, Option.some.injEq, Gathered.mk.injEq] at hT
      simp only [← (hT []).1]
      congr 2
      exact flatMap_congr' (fun p _ => (hT p).2)

/-! ### the two event dimensions -/

theorem advAt_lt (l : List Int) (j : Nat) (h : j < l.length) : advAt l j = l[j] := by
  unfold advAt
  split
  · rename_i h1
    have : j = 0 := by omega
    subst this
    simp [List.getD_eq_getElem?_getD, h]
  · simp [List.getD_eq_getElem?_getD, h]

theorem range_flatMap_getElem {α β : Type} (f : α → List β) : ∀ l : List α,
    (List.range l.length).flatMap (fun j => match l[j]? with | some x => f x | none => []) = l.flatMap f
  | [] => rfl
  | x :: r => by
    rw [List.length_cons, List.range_succ_eq_map, List.flatMap_cons, List.flatMap_map]
    simp only [List.getElem?_cons_zero, List.getElem?_cons_succ, List.flatMap_cons]
    rw [range_flatMap_getElem f r]

theorem range_flatMap_advAt {β : Type} (f : Int → List β) (l : List Int) :
    (List.range l.length).flatMap (fun j => f (advAt l j)) = l.flatMap f := by
  rw [← range_flatMap_getElem f l]
  apply flatMap_congr'
  intro j hj
  have hj' : j < l.length := List.mem_range.mp hj
  rw [advAt_lt l j hj']
  simp [hj']

/-- the grid of two event components that are not both index tensors: rows × columns, row-major; an index tensor
alone behaves like a slice with the listed positions -/
theorem event_gather_grid {α : Type} (leaf : List Int → List α) (ri ci : RItem) (pre : List Int)
    (h : ¬ (ri.isAdv = true ∧ ci.isAdv = true)) :
    adjacent [ri, ci] = true ∧
    gatherFrom leaf [ri, ci] pre = some ⟨ri.dims ++ ci.dims,
      ri.positions.flatMap fun i => ci.positions.flatMap fun a => leaf (a :: i :: pre)⟩ := by
  cases ri <;> cases ci <;>
    first
      | (exfalso; exact h ⟨rfl, rfl⟩)
      | (refine ⟨rfl, ?_⟩
         simp [gatherFrom, advLen, adjacent, adjacentFrom, keepDims, shapeIn, gIn, gFix, RItem.dims, RItem.positions]
         try first
           | exact range_flatMap_advAt (fun a => leaf (a :: _ :: pre)) _
           | exact range_flatMap_advAt (fun i => leaf (_ :: i :: pre)) _
           | exact flatMap_congr' (fun p _ => range_flatMap_advAt (fun a => leaf (a :: p :: pre)) _)
           | exact range_flatMap_advAt (fun i => List.flatMap (fun a => leaf (a :: i :: pre)) _) _)

/-- two index tensors on the event dimensions: zipped with broadcasting -/
theorem event_gather_pairs {α : Type} (leaf : List Int → List α) (R C : List Int) (pre : List Int) :
    adjacent [.adv R, .adv C] = true ∧
    gatherFrom leaf [.adv R, .adv C] pre =
      (bcastLen R.length C.length).map fun L =>
        ⟨[L], (List.range L).flatMap fun j => leaf (advAt C j :: advAt R j :: pre)⟩ := by
  refine ⟨rfl, ?_⟩
  cases hL : bcastLen R.length C.length <;>
    simp [gatherFrom, advLen, hL, adjacent, adjacentFrom, shapeIn, keepDims, gIn, gFix]

end MTIndex

namespace MTIndex

/-! ### resolving components -/

theorem resolveAll_length : ∀ (ds : List Int) (xs : List Idx) (items : List RItem),
    resolveAll ds xs = some items → ds.length = xs.length ∧ items.length = xs.length
  | [], [], items, h => by simp [resolveAll] at h; subst h; simp
  | [], _ :: _, _, h => by simp [resolveAll] at h
  | _ :: _, [], _, h => by simp [resolveAll] at h
  | d :: ds, x :: xs, items, h => by
    unfold resolveAll at h
    split at h
    · rename_i a r ha hr
      cases h
      have := resolveAll_length ds xs r hr
      simp [this.1, this.2]
    · cases h

theorem resolveAll_append : ∀ (ds : List Int) (xs : List Idx) (es : List Int) (ys : List Idx),
    ds.length = xs.length →
    resolveAll (ds ++ es) (xs ++ ys) = (resolveAll ds xs).bind fun a => (resolveAll es ys).map (a ++ ·)
  | [], [], es, ys, _ => by simp [resolveAll]
  | [], _ :: _, _, _, h => by simp at h
  | _ :: _, [], _, _, h => by simp at h
  | d :: ds, x :: xs, es, ys, h => by
    have ih := resolveAll_append ds xs es ys (by simpa using h)
    simp only [List.cons_append, resolveAll, ih]
    cases x.toRItem d <;> cases resolveAll ds xs <;> cases resolveAll es ys <;> simp

theorem resolveAll_two (n t : Int) (r c : Idx) :
    resolveAll [n, t] [r, c] = (r.toRItem n).bind fun ri => (c.toRItem t).map fun ci => [ri, ci] := by
  simp only [resolveAll]
  cases r.toRItem n <;> cases c.toRItem t <;> simp

theorem toRItem_resolve {len : Int} {x : Idx} {it : RItem} (h : x.toRItem len = some it) :
    x.resolve len = some it.positions := by
  cases x with
  | int i =>
    simp only [Idx.toRItem, Option.map_eq_some_iff] at h
    obtain ⟨p, hp, rfl⟩ := h
    simp [Idx.resolve, indexInt, hp, RItem.positions]
  | slice s =>
    simp only [Idx.toRItem] at h
    split at h
    · cases h; simp [Idx.resolve, RItem.positions, *]
    · cases h
  | list l =>
    simp only [Idx.toRItem, Option.map_eq_some_iff] at h
    obtain ⟨p, hp, rfl⟩ := h
    simp [Idx.resolve, hp, RItem.positions]

theorem toRItem_kind {len : Int} {x : Idx} {it : RItem} (h : x.toRItem len = some it) :
    it.isAdv = x.isList ∧ it.basic = !x.isList ∧
    (x.isInt = true → ∃ p, it = .pick p) ∧ (x.isSlice = true → ∃ l, it = .keep l) ∧ (x.isList = true → ∃ l, it = .adv l) := by
  cases x with
  | int i =>
    simp only [Idx.toRItem, Option.map_eq_some_iff] at h
    obtain ⟨p, _, rfl⟩ := h
    simp [RItem.isAdv, RItem.basic, Idx.isList, Idx.isInt, Idx.isSlice]
  | slice s =>
    simp only [Idx.toRItem] at h
    split at h
    · cases h; simp [RItem.isAdv, RItem.basic, Idx.isList, Idx.isInt, Idx.isSlice]
    · cases h
  | list l =>
    simp only [Idx.toRItem, Option.map_eq_some_iff] at h
    obtain ⟨p, _, rfl⟩ := h
    simp [RItem.isAdv, RItem.basic, Idx.isList, Idx.isInt, Idx.isSlice]

theorem nslice_toList_nodup (q : NSlice) : q.toList.Nodup := by
  unfold NSlice.toList
  by_cases hc : 0 < q.step ∧ q.start < q.stop
  · refine List.Nodup.map_on ?_ List.nodup_range
    intro a _ b _ hab
    have : (a : Int) * q.step = (b : Int) * q.step := by omega
    have := Int.eq_of_mul_eq_mul_right (Int.ne_of_gt hc.1) this
    exact_mod_cast this
  · simp [NSlice.count, hc]

theorem rangeInt_nodup (b : Nat) : (rangeInt b).Nodup := by
  unfold rangeInt
  refine List.Nodup.map_on ?_ List.nodup_range
  intro a _ c _ h
  exact_mod_cast h

/-- the items of non-tensor components are basic, and their slices select distinct positions -/
theorem resolveAll_basic : ∀ (ds : List Int) (xs : List Idx) (items : List RItem),
    resolveAll ds xs = some items → (xs.all fun x => !x.isList) = true →
    allBasic items = true ∧ ∀ l, RItem.keep l ∈ items → l.Nodup
  | [], [], items, h, _ => by simp [resolveAll] at h; subst h; simp
  | [], _ :: _, _, h, _ => by simp [resolveAll] at h
  | _ :: _, [], _, h, _ => by simp [resolveAll] at h
  | d :: ds, x :: xs, items, h, hx => by
    unfold resolveAll at h
    split at h
    · rename_i a r ha hr
      cases h
      simp only [List.all_cons, Bool.and_eq_true] at hx
      have ih := resolveAll_basic ds xs r hr hx.2
      have hk := toRItem_kind ha
      refine ⟨by simp [allBasic_cons, hk.2.1, hx.1, ih.1], ?_⟩
      intro l hl
      rcases List.mem_cons.mp hl with rfl | hl
      · cases x with
        | int i => simp [Idx.toRItem] at ha
        | slice s =>
          simp only [Idx.toRItem] at ha
          split at ha
          · cases ha; exact nslice_toList_nodup _
          · cases ha
        | list l' => simp [Idx.isList] at hx
      · exact ih.2 l hl
    · cases h

end MTIndex

namespace MTIndex

/-! ### grids, column-major reading, covariance of a block -/

/-- the (point, task) pairs of a grid in row-major order -/
def pairsGrid (R C : List Int) : List (Int × Int) := R.flatMap fun i => C.map fun a => (i, a)

theorem getElem?_grid {α β γ : Type} (f : α → β → γ) (C : List β) : ∀ (R : List α) (i a : Nat), a < C.length →
    (R.flatMap fun r => C.map (f r))[i * C.length + a]? = (R[i]?).bind fun r => (C[a]?).map (f r)
  | [], i, a, _ => by simp
  | x :: R, 0, a, ha => by
    simp only [List.flatMap_cons, Nat.zero_mul, Nat.zero_add, List.getElem?_cons_zero, Option.bind_some]
    rw [List.getElem?_append_left (by simpa using ha)]
    simp
  | x :: R, i + 1, a, ha => by
    simp only [List.flatMap_cons, List.getElem?_cons_succ]
    have : (i + 1) * C.length + a = (C.map (f x)).length + (i * C.length + a) := by
      simp only [List.length_map]; rw [Nat.add_mul]; omega
    rw [this, List.getElem?_append_right (by omega), Nat.add_sub_cancel_left]
    exact getElem?_grid f C R i a ha

theorem range_filterMap_getElem? {α β : Type} (g : α → β) : ∀ l : List α,
    (List.range l.length).filterMap (fun i => (l[i]?).map g) = l.map g
  | [] => rfl
  | x :: r => by
    rw [List.length_cons, List.range_succ_eq_map, List.filterMap_cons_some (b := g x) (by simp), List.filterMap_map]
    simp only [List.map_cons, Function.comp_def, List.getElem?_cons_succ]
    rw [range_filterMap_getElem? g r]

/-- reading a row-major grid column by column enumerates it column-major -/
theorem colMajor_grid {α β γ : Type} (f : α → β → γ) (R : List α) (C : List β) :
    colMajor R.length C.length (R.flatMap fun r => C.map (f r)) = C.flatMap fun c => R.map fun r => f r c := by
  unfold colMajor
  rw [← range_flatMap_getElem (fun c => R.map fun r => f r c) C]
  apply flatMap_congr'
  intro a ha
  have ha' : a < C.length := List.mem_range.mp ha
  have : ∀ i, (R.flatMap fun r => C.map (f r))[i * C.length + a]? = (R[i]?).map fun r => f r C[a] := by
    intro i
    rw [getElem?_grid f C R i a ha']
    cases R[i]? <;> simp [List.getElem?_eq_getElem ha']
  simp only [this, List.getElem?_eq_getElem ha']
  exact range_filterMap_getElem? (fun r => f r C[a]) R

theorem colMajor_map {α β : Type} (g : α → β) (r c : Nat) (blk : List α) :
    colMajor r c (blk.map g) = (colMajor r c blk).map g := by
  unfold colMajor
  rw [List.map_flatMap]
  apply flatMap_congr'
  intro a _
  rw [List.map_filterMap]
  congr 1
  funext i
  simp

/-- covariance of variables of one batch element: the grid of their flat positions -/
theorem gram_same (inter : Bool) (n t : Int) (β : List Int) (xs : List (Int × Int)) :
    gram inter n t (xs.map fun ia => (β, ia.1, ia.2)) =
      (xs.map fun ia => flat inter n t ia.1 ia.2).map fun p =>
        (xs.map fun ia => flat inter n t ia.1 ia.2).map fun q => (some (β, p, q) : Entry) := by
  simp [gram, entryOf, List.map_map, Function.comp_def]

theorem length_pairsGrid (R C : List Int) : (pairsGrid R C).length = R.length * C.length := by
  unfold pairsGrid
  rw [length_flatMap_const _ C.length R (fun _ _ => by simp)]

end MTIndex

namespace MTIndex

/-! ### two index tensors: zipped with broadcasting -/

theorem advAt_singleton (x : Int) (j : Nat) : advAt [x] j = x := by simp [advAt]

theorem range_map_advAt {β : Type} (g : Int → β) (l : List Int) :
    (List.range l.length).map (fun j => g (advAt l j)) = l.map g := by
  apply List.ext_getElem (by simp)
  intro j h1 h2
  simp only [List.length_map, List.length_range] at h1
  simp [advAt_lt l j h1]

theorem zipWith_eq_range {β : Type} (f : Int → Int → β) (R C : List Int) (h : R.length = C.length) :
    List.zipWith f R C = (List.range R.length).map fun j => f (advAt R j) (advAt C j) := by
  apply List.ext_getElem (by simp [h])
  intro j h1 h2
  simp only [List.length_zipWith, h, Nat.min_self] at h1
  simp [advAt_lt R j (by omega), advAt_lt C j h1]

theorem bcast_eq_range (f : Int → Int → Int) (R C : List Int) :
    bcast f R C = (bcastLen R.length C.length).map fun L => (List.range L).map fun j => f (advAt R j) (advAt C j) := by
  unfold bcast bcastLen
  by_cases h : R.length = C.length
  · simp only [h, if_true, Option.map_some, Option.some.injEq]
    rw [zipWith_eq_range f R C h, h]
  · rw [if_neg h, if_neg h]
    split
    · rename_i x
      simp only [List.length_singleton, if_true, Option.map_some, Option.some.injEq, advAt_singleton]
      exact (range_map_advAt (fun c => f x c) C).symm
    · rename_i y hx
      have hR : R.length ≠ 1 := by
        intro h1
        match R, h1 with
        | [x], _ => exact hx x rfl
      simp only [hR, if_false, List.length_singleton, if_true, Option.map_some, Option.some.injEq, advAt_singleton]
      exact (range_map_advAt (fun r => f r y) R).symm
    · rename_i hx hy
      have hR : R.length ≠ 1 := by
        intro h1
        match R, h1 with
        | [x], _ => exact hx x rfl
      have hC : C.length ≠ 1 := by
        intro h1
        match C, h1 with
        | [y], _ => exact hy y rfl
      simp [hR, hC]

/-! ### a single diagonal entry per batch member -/

/-- distinct batch elements are independent: the covariance of one variable read across distinct batch elements
is the diagonal embedding -/
theorem gram_diag (inter : Bool) (n t i a : Int) (bs : List (List Int)) (hn : bs.Nodup) :
    gram inter n t (bs.map fun β => (β, i, a)) = diagEmbed (bs.map fun β => (β, flat inter n t i a)) := by
  unfold gram diagEmbed
  apply List.ext_getElem (by simp)
  intro x h1 h2
  simp only [List.length_map, List.length_range] at h1 h2
  simp only [List.getElem_map, List.getElem_range, List.length_map]
  apply List.ext_getElem (by simp)
  intro y h3 h4
  simp only [List.length_map, List.length_range] at h3 h4
  simp only [List.getElem_map, List.getElem_range, entryOf]
  by_cases hxy : x = y
  · subst hxy; simp [h1]
  · have : bs[x] ≠ bs[y] := fun e => hxy ((List.Nodup.getElem_inj_iff hn).mp e)
    simp [this, hxy]

end MTIndex

namespace MTIndex

/-! ### the covariance selections on basic batch components -/

theorem flatMap_single {α β : Type} (f : α → β) (l : List α) : (l.flatMap fun x => [f x]) = l.map f := by
  induction l with
  | nil => rfl
  | cons x r ih => simp [ih]

/-- the block of one batch element on the positions `P` -/
def gridBlock (β : List Int) (P : List Int) : List (List Entry) :=
  P.map fun p => P.map fun q => (some (β, p, q) : Entry)

theorem gather_basic {α : Type} (leaf : List Int → List α) (b : List RItem) (hb : allBasic b = true) :
    gather leaf b = some ⟨keepDims b, (bsel b []).flatMap leaf⟩ := by
  have := gatherFrom_append_basic' leaf b [] [] hb rfl [] leaf (fun p => rfl)
  simpa [gather] using this

theorem gather_basic_tail {α : Type} (leaf : List Int → List α) (b : List RItem) (x : RItem) (hb : allBasic b = true)
    (sh : List Nat) (D : List Int → List α) (hT : ∀ p, gatherFrom leaf [x] p = some ⟨sh, D p⟩) :
    gather leaf (b ++ [x]) = some ⟨keepDims b ++ sh, (bsel b []).flatMap D⟩ := by
  have hadj : adjacent [x] = true := by cases x <;> rfl
  exact gatherFrom_append_basic' leaf b [x] [] hb hadj sh D hT

theorem resolveBatch_full (bs : List Nat) (bidx : List Idx) (h : bidx.length = bs.length) :
    resolveBatch bs bidx = resolveAll (bs.map fun (b : Nat) => (b : Int)) bidx := by
  unfold resolveBatch
  rw [if_neg (by omega), h, List.take_length, List.drop_length]
  cases resolveAll (bs.map fun (b : Nat) => (b : Int)) bidx <;> simp

theorem prodNat_keepDims_chunks {α : Type} (b : List RItem) (hb : allBasic b = true) (m : Nat) (f : List Int → List α)
    (hf : ∀ p, (f p).length = m) :
    chunks (prodNat (keepDims b)) m ((bsel b []).flatMap f) = (bsel b []).map f := by
  rw [← length_bsel b [] hb]
  exact chunks_flatMap f m _ (fun p _ => hf p)

/-- `cov[batch]`, `cov[batch + (s, s)]`, `cov[batch + (ind,)][..., ind]` for int / slice batch components: per
selected batch element the block on the selected event positions -/
theorem eval_grid (bs : List Nat) (N : Int) (bidx : List Idx) (ev : EvSel) (b : List RItem) (pos : List Int)
    (hlen : bidx.length = bs.length)
    (hres : resolveAll (bs.map fun (b : Nat) => (b : Int)) bidx = some b) (hb : allBasic b = true)
    (hev : ev.positions N = some pos) (hnd : ev.isDiag = false) :
    (CovSel.mk bidx ev).eval bs N = some ⟨keepDims b, (bsel b []).map fun p => gridBlock p.reverse pos⟩ := by
  unfold CovSel.eval
  simp only [resolveBatch_full bs bidx hlen, hres]
  cases ev with
  | full =>
    simp only [EvSel.positions, Option.some.injEq] at hev
    subst hev
    simp [gather_basic _ b hb, batchOf, gridBlock, flatMap_single]
  | slice2 s =>
    simp only [EvSel.positions, Option.some.injEq] at hev
    subst hev
    simp [gather_basic _ b hb, batchOf, gridBlock, flatMap_single]
  | tensor ind =>
    simp only [EvSel.positions] at hev
    have hT : ∀ p : List Int, gatherFrom (fun pre => [(batchOf (pre.drop 1), pre.headD 0)]) [RItem.adv pos] p
        = some ⟨[pos.length], pos.map fun q => (p.reverse, q)⟩ := by
      intro p
      simp only [gatherFrom, advLen, adjacent, adjacentFrom, if_true, shapeIn, keepDims, gIn, gFix, List.drop_succ_cons,
        List.drop_zero, List.headD_cons, batchOf]
      congr 2
      rw [range_flatMap_advAt (fun q => [(p.reverse, q)]) pos]
      exact flatMap_single _ _
    simp only [hev, Option.bind_eq_bind, Option.bind_some, gather_basic_tail _ b _ hb _ _ hT, List.reverse_append,
      List.reverse_cons, List.reverse_nil, List.nil_append, List.singleton_append, List.reverse_reverse, Option.pure_def,
      Option.some.injEq, CovRes.mk.injEq, true_and]
    rw [prodNat_keepDims_chunks b hb pos.length _ (fun p => by simp)]
    simp [gridBlock, List.map_map, Function.comp_def]
  | diag e => simp [EvSel.isDiag] at hnd

/-- `DiagLinearOperator(cov.diagonal()[batch + (e,)])` for int / slice batch components -/
theorem eval_diag (bs : List Nat) (N : Int) (bidx : List Idx) (e p0 : Int) (b : List RItem)
    (hlen : bidx.length = bs.length)
    (hres : resolveAll (bs.map fun (b : Nat) => (b : Int)) bidx = some b) (hb : allBasic b = true)
    (hw : wrap N e = some p0) :
    (CovSel.mk bidx (.diag e)).eval bs N = some
      (match (keepDims b).reverse with
       | [] => ⟨[], [diagEmbed ((bsel b []).map fun p => (p.reverse, p0))]⟩
       | m :: br => ⟨br.reverse, (chunks (prodNat br.reverse) m ((bsel b []).map fun p => (p.reverse, p0))).map diagEmbed⟩) := by
  unfold CovSel.eval
  have hT : ∀ p : List Int, gatherFrom (fun pre => [(batchOf (pre.drop 1), pre.headD 0)]) [RItem.pick p0] p
      = some ⟨[], [(p.reverse, p0)]⟩ := by
    intro p
    simp [gatherFrom, advLen, keepDims, gIn, batchOf]
  simp only [resolveBatch_full bs bidx hlen, hres, hw, Option.bind_eq_bind, Option.bind_some,
    gather_basic_tail _ b _ hb _ _ hT, List.append_nil, flatMap_single]
  cases (keepDims b).reverse <;> rfl

end MTIndex

namespace MTIndex

/-! ### the specification on basic batch components -/

theorem specOfFull_split (inter : Bool) (bs : List Nat) (n t : Nat) (bidx : List Idx) (r c : Idx)
    (hlen : bidx.length = bs.length) :
    specOfFull inter bs n t (bidx ++ [r, c]) =
      (resolveAll (bs.map fun (b : Nat) => (b : Int)) bidx).bind fun b =>
      (r.toRItem n).bind fun ri => (c.toRItem t).bind fun ci =>
      (gather (fun pre => [tripleOf pre]) (b ++ [ri, ci])).bind fun g =>
      (specCovOfMean inter n t (specKind inter r c) g).map fun cov => (specKind inter r c, cov) := by
  unfold specOfFull meanDims
  rw [resolveAll_append _ _ _ _ (by simp [hlen]), resolveAll_two, pyGet?_neg_two, pyGet?_neg_one]
  cases resolveAll (bs.map fun (b : Nat) => (b : Int)) bidx <;> cases r.toRItem n <;> cases c.toRItem t <;> simp

theorem gather_triples_grid (b : List RItem) (ri ci : RItem) (hb : allBasic b = true)
    (h : ¬ (ri.isAdv = true ∧ ci.isAdv = true)) :
    gather (fun pre => [tripleOf pre]) (b ++ [ri, ci]) = some ⟨keepDims b ++ (ri.dims ++ ci.dims),
      (bsel b []).flatMap fun p => (pairsGrid ri.positions ci.positions).map fun ia => (p.reverse, ia.1, ia.2)⟩ := by
  have hg := fun p => (event_gather_grid (fun pre => [tripleOf pre]) ri ci p h).2
  have := gatherFrom_append_basic' (fun pre => [tripleOf pre]) b [ri, ci] [] hb
    (event_gather_grid (fun pre => [tripleOf pre]) ri ci [] h).1 _ _ hg
  rw [gather, this]
  congr 2
  apply flatMap_congr'
  intro p _
  simp [pairsGrid, tripleOf, flatMap_single, List.map_flatMap, List.map_map, Function.comp_def]

theorem gather_triples_pairs (b : List RItem) (R C : List Int) (hb : allBasic b = true) :
    gather (fun pre => [tripleOf pre]) (b ++ [.adv R, .adv C]) =
      (bcastLen R.length C.length).map fun L => ⟨keepDims b ++ [L],
        (bsel b []).flatMap fun p => (List.range L).map fun j => (p.reverse, advAt R j, advAt C j)⟩ := by
  cases hL : bcastLen R.length C.length with
  | none =>
    have h0 : advLen (b ++ [RItem.adv R, RItem.adv C]) = none := by
      rw [advLen_append_basic _ b hb]; simp [advLen, hL]
    simp [gather, gatherFrom, h0]
  | some L =>
    have hg : ∀ p, gatherFrom (fun pre => [tripleOf pre]) [RItem.adv R, RItem.adv C] p
        = some ⟨[L], (List.range L).map fun j => (p.reverse, advAt R j, advAt C j)⟩ := by
      intro p
      rw [(event_gather_pairs _ R C p).2, hL]
      simp [tripleOf, flatMap_single]
    have := gatherFrom_append_basic' (fun pre => [tripleOf pre]) b [.adv R, .adv C] [] hb rfl _ _ hg
    simpa [gather] using this

theorem specCov_blocks_mvn (inter : Bool) (n t : Int) (b : List RItem) (hb : allBasic b = true) (m : Nat)
    (f : List Int → List Triple) (hf : ∀ p, (f p).length = m) :
    specCovOfMean inter n t .mvn ⟨keepDims b ++ [m], (bsel b []).flatMap f⟩
      = some ⟨keepDims b, (bsel b []).map fun p => gram inter n t (f p)⟩ := by
  simp only [specCovOfMean, List.reverse_append, List.reverse_cons, List.reverse_nil, List.nil_append, List.singleton_append,
    List.reverse_reverse, prodNat_keepDims_chunks b hb m f hf, List.map_map, Function.comp_def]

theorem specCov_blocks_mt (inter inter' : Bool) (n t : Int) (b : List RItem) (hb : allBasic b = true) (n' t' : Nat)
    (f : List Int → List Triple) (hf : ∀ p, (f p).length = n' * t') :
    specCovOfMean inter n t (.mt inter') ⟨keepDims b ++ [n', t'], (bsel b []).flatMap f⟩
      = some ⟨keepDims b, (bsel b []).map fun p =>
          gram inter n t (if inter' then f p else colMajor n' t' (f p))⟩ := by
  simp only [specCovOfMean, List.reverse_append, List.reverse_cons, List.reverse_nil, List.nil_append,
    List.cons_append, List.reverse_reverse, prodNat_keepDims_chunks b hb (n' * t') f hf, List.map_map, Function.comp_def]

end MTIndex

namespace MTIndex

theorem gram_eq_gridBlock (inter : Bool) (n t : Int) (β : List Int) (xs : List (Int × Int)) :
    gram inter n t (xs.map fun ia => (β, ia.1, ia.2)) = gridBlock β (xs.map fun ia => flat inter n t ia.1 ia.2) := by
  rw [gram_same]; rfl

/-- positions of a grid one of whose sides is a single int: the order of enumeration is immaterial -/
theorem specPositions_one_pick (inter : Bool) (n t : Int) (R C : List Int) (h : R.length = 1 ∨ C.length = 1) :
    specPositions inter n t false R C = some ((pairsGrid R C).map fun ia => flat inter n t ia.1 ia.2) := by
  cases inter
  · simp only [specPositions, Bool.false_eq_true, if_false, Option.some.injEq, pairsGrid, List.map_flatMap, List.map_map,
      Function.comp_def]
    rcases h with h | h
    · match R, h with
      | [i], _ => simp [flatMap_single]
    · match C, h with
      | [a], _ => simp [flatMap_single]
  · simp [specPositions, pairsGrid, List.map_flatMap, List.map_map, Function.comp_def]

/-- positions of a 2-d grid in the layout of the result -/
theorem specPositions_grid (inter : Bool) (n t : Int) (R C : List Int) :
    specPositions inter n t false R C =
      some ((if inter then pairsGrid R C else colMajor R.length C.length (pairsGrid R C)).map
        fun ia => flat inter n t ia.1 ia.2) := by
  cases inter
  · simp only [specPositions, Bool.false_eq_true, if_false, Option.some.injEq, pairsGrid]
    rw [colMajor_grid (fun i a => (i, a)) R C]
    simp [List.map_flatMap, List.map_map, Function.comp_def]
  · simp [specPositions, pairsGrid, List.map_flatMap, List.map_map, Function.comp_def]

/-- event block: an int with a slice / index tensor (1-d result) -/
theorem spec_block_one_pick (inter : Bool) (n t : Int) (b : List RItem) (hb : allBasic b = true) (ri ci : RItem)
    (h1 : (ri.dims = [] ∧ ri.positions.length = 1) ∨ (ci.dims = [] ∧ ci.positions.length = 1))
    (h2 : (ri.dims ++ ci.dims).length = 1) (hadv : ¬ (ri.isAdv = true ∧ ci.isAdv = true))
    (g : Gathered Triple) (cov : CovRes)
    (hg : gather (fun pre => [tripleOf pre]) (b ++ [ri, ci]) = some g)
    (hcov : specCovOfMean inter n t .mvn g = some cov) :
    ∃ pos, specPositions inter n t false ri.positions ci.positions = some pos ∧
      cov = ⟨keepDims b, (bsel b []).map fun p => gridBlock p.reverse pos⟩ := by
  rw [gather_triples_grid b ri ci hb hadv] at hg
  cases hg
  have hone : ri.positions.length = 1 ∨ ci.positions.length = 1 := h1.elim (fun h => Or.inl h.2) (fun h => Or.inr h.2)
  refine ⟨_, specPositions_one_pick inter n t _ _ hone, ?_⟩
  have hm : ∃ m, ri.dims ++ ci.dims = [m] ∧ m = ri.positions.length * ci.positions.length := by
    cases ri <;> cases ci <;> simp_all [RItem.dims, RItem.positions]
  obtain ⟨m, hm, hmm⟩ := hm
  rw [hm, specCov_blocks_mvn inter n t b hb m _ (fun p => by simp [length_pairsGrid, hmm])] at hcov
  cases hcov
  congr 1
  apply List.map_congr_left
  intro p _
  exact gram_eq_gridBlock inter n t p.reverse _

/-- event block: slices / a slice and an index tensor (2-d result in the layout of the source) -/
theorem spec_block_grid (inter : Bool) (n t : Int) (b : List RItem) (hb : allBasic b = true) (ri ci : RItem)
    (h1 : ri.dims = [ri.positions.length]) (h2 : ci.dims = [ci.positions.length])
    (hadv : ¬ (ri.isAdv = true ∧ ci.isAdv = true))
    (g : Gathered Triple) (cov : CovRes)
    (hg : gather (fun pre => [tripleOf pre]) (b ++ [ri, ci]) = some g)
    (hcov : specCovOfMean inter n t (.mt inter) g = some cov) :
    ∃ pos, specPositions inter n t false ri.positions ci.positions = some pos ∧
      cov = ⟨keepDims b, (bsel b []).map fun p => gridBlock p.reverse pos⟩ := by
  rw [gather_triples_grid b ri ci hb hadv] at hg
  cases hg
  refine ⟨_, specPositions_grid inter n t _ _, ?_⟩
  rw [h1, h2] at hcov
  simp only [List.singleton_append] at hcov
  rw [specCov_blocks_mt inter inter n t b hb _ _ _ (fun p => by simp [length_pairsGrid])] at hcov
  cases hcov
  congr 1
  apply List.map_congr_left
  intro p _
  cases inter
  · simp only [Bool.false_eq_true, if_false]
    rw [colMajor_map, gram_eq_gridBlock]
  · simp only [if_true]
    exact gram_eq_gridBlock true n t p.reverse _

/-- event block: two index tensors, zipped -/
theorem spec_block_pairs (inter : Bool) (n t : Int) (b : List RItem) (hb : allBasic b = true) (R C : List Int)
    (g : Gathered Triple) (cov : CovRes)
    (hg : gather (fun pre => [tripleOf pre]) (b ++ [.adv R, .adv C]) = some g)
    (hcov : specCovOfMean inter n t .mvn g = some cov) :
    ∃ pos, specPositions inter n t true R C = some pos ∧
      cov = ⟨keepDims b, (bsel b []).map fun p => gridBlock p.reverse pos⟩ := by
  rw [gather_triples_pairs b R C hb] at hg
  cases hL : bcastLen R.length C.length with
  | none => simp [hL] at hg
  | some L =>
    simp only [hL, Option.map_some, Option.some.injEq] at hg
    subst hg
    refine ⟨(List.range L).map fun j => flat inter n t (advAt R j) (advAt C j), ?_, ?_⟩
    · simp only [specPositions, if_true]
      rw [bcast_eq_range, hL]; rfl
    · rw [specCov_blocks_mvn inter n t b hb L _ (fun p => by simp)] at hcov
      cases hcov
      congr 1
      apply List.map_congr_left
      intro p _
      have := gram_eq_gridBlock inter n t p.reverse ((List.range L).map fun j => (advAt R j, advAt C j))
      simpa [List.map_map, Function.comp_def] using this

end MTIndex

namespace MTIndex

/-- event block int × int: one variable per selected batch element; distinct batch elements are independent, so
the covariance across a kept batch dimension is the diagonal embedding -/
theorem spec_block_diag (inter : Bool) (n t : Int) (b : List RItem) (hb : allBasic b = true)
    (hnd : ∀ l, RItem.keep l ∈ b → l.Nodup) (pi pa : Int) (g : Gathered Triple) (cov : CovRes)
    (hg : gather (fun pre => [tripleOf pre]) (b ++ [.pick pi, .pick pa]) = some g)
    (hcov : specCovOfMean inter n t .mvn g = some cov) :
    cov = (match (keepDims b).reverse with
      | [] => ⟨[], [diagEmbed ((bsel b []).map fun p => (p.reverse, flat inter n t pi pa))]⟩
      | m :: br => ⟨br.reverse,
          (chunks (prodNat br.reverse) m ((bsel b []).map fun p => (p.reverse, flat inter n t pi pa))).map diagEmbed⟩) := by
  rw [gather_triples_grid b _ _ hb (by simp [RItem.isAdv])] at hg
  cases hg
  have hβ : ((bsel b []).map List.reverse).Nodup := (bsel_nodup b [] hb hnd).map List.reverse_injective
  have hX : ((bsel b []).flatMap fun p => (pairsGrid (RItem.pick pi).positions (RItem.pick pa).positions).map
      fun ia => (p.reverse, ia.1, ia.2)) = ((bsel b []).map List.reverse).map fun β => (β, pi, pa) := by
    simp [pairsGrid, RItem.positions, flatMap_single, List.map_map, Function.comp_def]
  have hE : ((bsel b []).map fun p => (p.reverse, flat inter n t pi pa))
      = ((bsel b []).map List.reverse).map fun β => (β, flat inter n t pi pa) := by
    simp [List.map_map, Function.comp_def]
  simp only [RItem.dims, List.append_nil, hX] at hcov
  rw [hE]
  generalize (bsel b []).map List.reverse = βs at hβ hcov ⊢
  unfold specCovOfMean at hcov
  cases hk : (keepDims b).reverse with
  | nil =>
    simp only [hk, Option.some.injEq] at hcov
    subst hcov
    simp only [gram_diag inter n t pi pa _ hβ]
  | cons m br =>
    simp only [hk, Option.some.injEq] at hcov
    subst hcov
    simp only [chunks_map, List.map_map]
    congr 1
    apply List.map_congr_left
    intro blk hblk
    have hs := chunks_sublist _ _ _ blk hblk
    simp only [Function.comp_def]
    exact gram_diag inter n t pi pa blk (hβ.sublist hs)

end MTIndex

namespace MTIndex

/-! ### implicit trailing dimensions = explicit full slices -/

theorem toRItem_full (b : Nat) : (Idx.slice PySlice.full).toRItem (b : Int) = some (.keep (rangeInt b)) := by
  simp only [Idx.toRItem, applyPySlice_full, rangeInt]
  rfl

theorem resolveAll_replicate_full : ∀ ds : List Nat,
    resolveAll (ds.map fun (b : Nat) => (b : Int)) (List.replicate ds.length (.slice PySlice.full))
      = some (ds.map fun b => RItem.keep (rangeInt b))
  | [] => rfl
  | d :: ds => by
    simp only [List.map_cons, List.length_cons, List.replicate_succ, resolveAll, toRItem_full,
      resolveAll_replicate_full ds]

/-- indexing only the leading batch dimensions is indexing with explicit full slices on the remaining ones -/
theorem resolveBatch_pad (bs : List Nat) (idx : List Idx) (h : idx.length ≤ bs.length) :
    resolveBatch bs idx = resolveBatch bs (idx ++ List.replicate (bs.length - idx.length) (.slice PySlice.full)) := by
  rw [resolveBatch_full bs (idx ++ _) (by simp; omega)]
  unfold resolveBatch
  rw [if_neg (by omega)]
  have hsplit : bs.map (fun (b : Nat) => (b : Int)) =
      (bs.take idx.length).map (fun (b : Nat) => (b : Int)) ++ (bs.drop idx.length).map (fun (b : Nat) => (b : Int)) := by
    rw [← List.map_append, List.take_append_drop]
  have hl : bs.length - idx.length = (bs.drop idx.length).length := by simp
  rw [hsplit, resolveAll_append _ _ _ _ (by simp; omega), hl, resolveAll_replicate_full]
  cases resolveAll ((bs.take idx.length).map fun (b : Nat) => (b : Int)) idx <;> simp

theorem eval_pad (bs : List Nat) (N : Int) (idx : List Idx) (ev : EvSel) (h : idx.length ≤ bs.length) :
    (CovSel.mk idx ev).eval bs N =
      (CovSel.mk (idx ++ List.replicate (bs.length - idx.length) (.slice PySlice.full)) ev).eval bs N := by
  unfold CovSel.eval
  simp only [← resolveBatch_pad bs idx h]

end MTIndex

namespace MTIndex

theorem specExpand_length (rank : Nat) (l : List BIdx) (full : List Idx) (h : specExpand rank l = some full) :
    full.length = rank := by
  rcases tuple_decomp l with ⟨cs, rfl⟩ | ⟨cs, rest, rfl⟩
  · rw [specExpand_embed] at h
    split at h
    · cases h
    · cases h; simp; omega
  · by_cases hm : BIdx.ellipsis ∈ rest
    · rw [specExpand_two _ _ _ hm] at h; cases h
    · rcases tuple_decomp rest with ⟨ps, rfl⟩ | ⟨ps, r', rfl⟩
      · rw [specExpand_split] at h
        split at h
        · cases h
        · cases h; simp; omega
      · exact absurd (by simp) hm

theorem split_last_two {α : Type} (k : Nat) (l : List α) (h : l.length = k + 2) :
    ∃ r c, l = l.take k ++ [r, c] := by
  have hd : (l.drop k).length = 2 := by simp [h]
  match hl : l.drop k, hd with
  | [r, c], _ => exact ⟨r, c, by rw [← hl, List.take_append_drop]⟩

end MTIndex

namespace MTIndex

theorem replicate_add_two {α : Type} (a : Nat) (x : α) : List.replicate (a + 2) x = List.replicate a x ++ [x, x] := by
  induction a with
  | zero => rfl
  | succ k ih => rw [show k + 1 + 2 = (k + 2) + 1 by omega, List.replicate_succ, ih]; rfl

end MTIndex

namespace MTIndex

/-! ### gather with arbitrary leading items (index tensors included) and a basic tail -/

theorem gFix_natural {α : Type} (j : Nat) (leaf : List Int → List α) : ∀ (A : List RItem) (pre : List Int),
    gFix j leaf A pre = (gFix j (fun p => [p]) A pre).flatMap leaf
  | [], pre => by simp [gFix]
  | .pick p :: r, pre => by simpa [gFix] using gFix_natural j leaf r (p :: pre)
  | .keep l :: r, pre => by
    simp only [gFix, List.flatMap_assoc]
    exact flatMap_congr' fun p _ => gFix_natural j leaf r (p :: pre)
  | .adv l :: r, pre => by simpa [gFix] using gFix_natural j leaf r (advAt l j :: pre)

theorem gIn_natural {α : Type} (L : Nat) (leaf : List Int → List α) : ∀ (A : List RItem) (pre : List Int),
    gIn L leaf A pre = (gIn L (fun p => [p]) A pre).flatMap leaf
  | [], pre => by simp [gIn]
  | .pick p :: r, pre => by simpa [gIn] using gIn_natural L leaf r (p :: pre)
  | .keep l :: r, pre => by
    simp only [gIn, List.flatMap_assoc]
    exact flatMap_congr' fun p _ => gIn_natural L leaf r (p :: pre)
  | .adv l :: r, pre => by
    simp only [gIn, List.flatMap_assoc]
    exact flatMap_congr' fun j _ => gFix_natural j leaf r (advAt l j :: pre)

/-- the selected (reversed) source multi-indices, with their arrangement -/
def outerOf (A : List RItem) : Option (Gathered (List Int)) := gatherFrom (fun p => [p]) A []

theorem gatherFrom_natural {α : Type} (leaf : List Int → List α) (A : List RItem) :
    gatherFrom leaf A [] = (outerOf A).map fun o => ⟨o.shape, o.data.flatMap leaf⟩ := by
  unfold outerOf gatherFrom
  cases advLen A with
  | none => rfl
  | some o =>
    cases o with
    | none => simp [gIn_natural 0 leaf A []]
    | some L =>
      cases h : adjacent A with
      | true => simp [gIn_natural L leaf A []]
      | false =>
        simp only [Bool.false_eq_true, if_false, Option.map_some, Option.some.injEq, Gathered.mk.injEq, true_and,
          List.flatMap_assoc]
        exact flatMap_congr' fun j _ => gFix_natural j leaf A []

theorem gFix_basic {α : Type} (j : Nat) (leaf : List Int → List α) : ∀ (T : List RItem) (pre : List Int),
    allBasic T = true → gFix j leaf T pre = gIn 0 leaf T pre
  | [], _, _ => rfl
  | .pick p :: r, pre, h => by
    simpa [gFix, gIn] using gFix_basic j leaf r (p :: pre) (by simpa [allBasic_cons, RItem.basic] using h)
  | .keep l :: r, pre, h => by
    simp only [gFix, gIn]
    exact flatMap_congr' fun p _ => gFix_basic j leaf r (p :: pre) (by simpa [allBasic_cons, RItem.basic] using h)
  | .adv l :: r, pre, h => by simp [allBasic_cons, RItem.basic] at h

theorem gIn_basic {α : Type} (L : Nat) (leaf : List Int → List α) : ∀ (T : List RItem) (pre : List Int),
    allBasic T = true → gIn L leaf T pre = gIn 0 leaf T pre
  | [], _, _ => rfl
  | .pick p :: r, pre, h => by
    simpa [gIn] using gIn_basic L leaf r (p :: pre) (by simpa [allBasic_cons, RItem.basic] using h)
  | .keep l :: r, pre, h => by
    simp only [gIn]
    exact flatMap_congr' fun p _ => gIn_basic L leaf r (p :: pre) (by simpa [allBasic_cons, RItem.basic] using h)
  | .adv l :: r, pre, h => by simp [allBasic_cons, RItem.basic] at h

theorem gFix_append_basic {α : Type} (j : Nat) (leaf : List Int → List α) (T : List RItem) (hT : allBasic T = true) :
    ∀ (A : List RItem) (pre : List Int), gFix j leaf (A ++ T) pre = gFix j (fun p => gIn 0 leaf T p) A pre
  | [], pre => by simpa [gFix] using gFix_basic j leaf T pre hT
  | .pick p :: r, pre => by simpa [gFix] using gFix_append_basic j leaf T hT r (p :: pre)
  | .keep l :: r, pre => by
    simp only [List.cons_append, gFix]
    exact flatMap_congr' fun p _ => gFix_append_basic j leaf T hT r (p :: pre)
  | .adv l :: r, pre => by simpa [gFix] using gFix_append_basic j leaf T hT r (advAt l j :: pre)

theorem gIn_append_basicTail {α : Type} (L : Nat) (leaf : List Int → List α) (T : List RItem) (hT : allBasic T = true) :
    ∀ (A : List RItem) (pre : List Int), gIn L leaf (A ++ T) pre = gIn L (fun p => gIn 0 leaf T p) A pre
  | [], pre => by simpa [gIn] using gIn_basic L leaf T pre hT
  | .pick p :: r, pre => by simpa [gIn] using gIn_append_basicTail L leaf T hT r (p :: pre)
  | .keep l :: r, pre => by
    simp only [List.cons_append, gIn]
    exact flatMap_congr' fun p _ => gIn_append_basicTail L leaf T hT r (p :: pre)
  | .adv l :: r, pre => by
    simp only [List.cons_append, gIn]
    exact flatMap_congr' fun j _ => gFix_append_basic j leaf T hT r (advAt l j :: pre)

theorem advLen_append_basicTail (T : List RItem) (hT : allBasic T = true) : ∀ A : List RItem, advLen (A ++ T) = advLen A
  | [] => by simpa using advLen_append_basic [] T hT
  | .pick p :: r => by simpa [advLen] using advLen_append_basicTail T hT r
  | .keep l :: r => by simpa [advLen] using advLen_append_basicTail T hT r
  | .adv l :: r => by simp only [List.cons_append, advLen, advLen_append_basicTail T hT r]

theorem adjacentFrom_basic (T : List RItem) (hT : allBasic T = true) : ∀ st : Nat, adjacentFrom st T = true := by
  induction T with
  | nil => intro st; rfl
  | cons x r ih =>
    have hr : allBasic r = true := by
      cases x <;> simp_all [allBasic_cons, RItem.basic]
    intro st
    cases x with
    | pick p => simpa [adjacentFrom] using ih hr st
    | keep l =>
      cases st with
      | zero => simpa [adjacentFrom] using ih hr 0
      | succ s => simpa [adjacentFrom] using ih hr 2
    | adv l => simp [allBasic_cons, RItem.basic] at hT

theorem adjacentFrom_append_basicTail (T : List RItem) (hT : allBasic T = true) :
    ∀ (A : List RItem) (st : Nat), adjacentFrom st (A ++ T) = adjacentFrom st A
  | [], st => by simp [adjacentFrom, adjacentFrom_basic T hT st]
  | .pick p :: r, st => by simpa [adjacentFrom] using adjacentFrom_append_basicTail T hT r st
  | .keep l :: r, 0 => by simpa [adjacentFrom] using adjacentFrom_append_basicTail T hT r 0
  | .keep l :: r, s + 1 => by simpa [adjacentFrom] using adjacentFrom_append_basicTail T hT r 2
  | .adv l :: r, 0 => by simpa [adjacentFrom] using adjacentFrom_append_basicTail T hT r 1
  | .adv l :: r, 1 => by simpa [adjacentFrom] using adjacentFrom_append_basicTail T hT r 1
  | .adv l :: r, s + 2 => by simp [adjacentFrom]

theorem shapeIn_basic (L : Nat) : ∀ T : List RItem, allBasic T = true → shapeIn L T = keepDims T
  | [], _ => rfl
  | .pick p :: r, h => by
    simpa [shapeIn, keepDims] using shapeIn_basic L r (by simpa [allBasic_cons, RItem.basic] using h)
  | .keep l :: r, h => by
    simpa [shapeIn, keepDims] using shapeIn_basic L r (by simpa [allBasic_cons, RItem.basic] using h)
  | .adv l :: r, h => by simp [allBasic_cons, RItem.basic] at h

theorem shapeIn_append_basicTail (L : Nat) (T : List RItem) (hT : allBasic T = true) :
    ∀ A : List RItem, shapeIn L (A ++ T) = shapeIn L A ++ keepDims T
  | [] => by simpa [shapeIn] using shapeIn_basic L T hT
  | .pick p :: r => by simpa [shapeIn] using shapeIn_append_basicTail L T hT r
  | .keep l :: r => by simpa [shapeIn] using shapeIn_append_basicTail L T hT r
  | .adv l :: r => by simp [shapeIn, keepDims_append]

/-- gathering with a basic tail after ARBITRARY leading items: the tail's selection under every selected leading
multi-index, the leading arrangement unchanged -/
theorem gatherFrom_basicTail {α : Type} (leaf : List Int → List α) (A T : List RItem) (hT : allBasic T = true) :
    gatherFrom leaf (A ++ T) [] =
      (outerOf A).map fun o => ⟨o.shape ++ keepDims T, o.data.flatMap fun p => gIn 0 leaf T p⟩ := by
  unfold outerOf gatherFrom
  rw [advLen_append_basicTail T hT A]
  cases advLen A with
  | none => rfl
  | some o =>
    cases o with
    | none =>
      simp only [keepDims_append, gIn_append_basicTail 0 leaf T hT A [], Option.map_some, Option.some.injEq, Gathered.mk.injEq,
        true_and]
      exact gIn_natural 0 _ A []
    | some L =>
      have hadj : adjacent (A ++ T) = adjacent A := adjacentFrom_append_basicTail T hT A 0
      cases h : adjacent A with
      | true =>
        simp only [hadj, h, if_true, shapeIn_append_basicTail L T hT A, gIn_append_basicTail L leaf T hT A [], Option.map_some,
          Option.some.injEq, Gathered.mk.injEq, true_and]
        exact gIn_natural L _ A []
      | false =>
        simp only [hadj, h, Bool.false_eq_true, if_false, keepDims_append, Option.map_some, Option.some.injEq,
          Gathered.mk.injEq, List.cons_append, true_and, List.flatMap_assoc]
        exact flatMap_congr' fun j _ => by
          rw [gFix_append_basic j leaf T hT A [], gFix_natural j _ A []]

end MTIndex

namespace MTIndex

theorem length_gFix_single (j : Nat) : ∀ (A : List RItem) (pre : List Int),
    (gFix j (fun p => [p]) A pre).length = prodNat (keepDims A)
  | [], _ => rfl
  | .pick p :: r, pre => by simpa [gFix, keepDims] using length_gFix_single j r (p :: pre)
  | .keep l :: r, pre => by
    have := length_flatMap_const (fun p => gFix j (fun p => [p]) r (p :: pre)) (prodNat (keepDims r)) l
      (fun p _ => length_gFix_single j r (p :: pre))
    simpa [gFix, keepDims, prodNat_cons] using this
  | .adv l :: r, pre => by simpa [gFix, keepDims] using length_gFix_single j r (advAt l j :: pre)

theorem length_gIn_single (L : Nat) : ∀ (A : List RItem) (pre : List Int),
    (gIn L (fun p => [p]) A pre).length = prodNat (shapeIn L A)
  | [], _ => rfl
  | .pick p :: r, pre => by simpa [gIn, shapeIn] using length_gIn_single L r (p :: pre)
  | .keep l :: r, pre => by
    have := length_flatMap_const (fun p => gIn L (fun p => [p]) r (p :: pre)) (prodNat (shapeIn L r)) l
      (fun p _ => length_gIn_single L r (p :: pre))
    simpa [gIn, shapeIn, prodNat_cons] using this
  | .adv l :: r, pre => by
    have := length_flatMap_const (fun j => gFix j (fun p => [p]) r (advAt l j :: pre)) (prodNat (keepDims r)) (List.range L)
      (fun j _ => length_gFix_single j r _)
    simpa [gIn, shapeIn, prodNat_cons] using this

theorem allBasic_of_advLen : ∀ A : List RItem, advLen A = some none → allBasic A = true
  | [], _ => rfl
  | .pick p :: r, h => by simpa [allBasic_cons, RItem.basic] using allBasic_of_advLen r (by simpa [advLen] using h)
  | .keep l :: r, h => by simpa [allBasic_cons, RItem.basic] using allBasic_of_advLen r (by simpa [advLen] using h)
  | .adv l :: r, h => by
    simp only [advLen] at h
    cases h' : advLen r with
    | none => simp [h'] at h
    | some o =>
      cases o with
      | none => simp [h'] at h
      | some L => cases hb : bcastLen l.length L <;> simp [h', hb] at h

/-- the number of selected leading multi-indices is the size of their arrangement -/
theorem outerOf_length (A : List RItem) (o : Gathered (List Int)) (h : outerOf A = some o) :
    o.data.length = prodNat o.shape := by
  unfold outerOf gatherFrom at h
  cases ha : advLen A with
  | none => simp [ha] at h
  | some x =>
    cases x with
    | none =>
      simp only [ha, Option.some.injEq] at h
      subst h
      rw [← shapeIn_basic 0 A (allBasic_of_advLen A ha)]
      exact length_gIn_single 0 A []
    | some L =>
      cases hadj : adjacent A with
      | true =>
        simp only [ha, hadj, if_true, Option.some.injEq] at h
        subst h
        exact length_gIn_single L A []
      | false =>
        simp only [ha, hadj, Bool.false_eq_true, if_false, Option.some.injEq] at h
        subst h
        have := length_flatMap_const (fun j => gFix j (fun p => [p]) A []) (prodNat (keepDims A)) (List.range L)
          (fun j _ => length_gFix_single j A [])
        simpa [prodNat_cons] using this

theorem chunks_outer {α : Type} (S : List Nat) (O : List (List Int)) (hO : O.length = prodNat S) (m : Nat)
    (f : List Int → List α) (hf : ∀ p, (f p).length = m) :
    chunks (prodNat S) m (O.flatMap f) = O.map f := by
  rw [← hO]
  exact chunks_flatMap f m _ (fun p _ => hf p)

theorem specCov_outer_mvn (inter : Bool) (n t : Int) (S : List Nat) (O : List (List Int)) (hO : O.length = prodNat S)
    (m : Nat) (f : List Int → List Triple) (hf : ∀ p, (f p).length = m) :
    specCovOfMean inter n t .mvn ⟨S ++ [m], O.flatMap f⟩ = some ⟨S, O.map fun p => gram inter n t (f p)⟩ := by
  simp only [specCovOfMean, List.reverse_append, List.reverse_cons, List.reverse_nil, List.nil_append, List.singleton_append,
    List.reverse_reverse, chunks_outer S O hO m f hf, List.map_map, Function.comp_def]

theorem specCov_outer_mt (inter inter' : Bool) (n t : Int) (S : List Nat) (O : List (List Int)) (hO : O.length = prodNat S)
    (n' t' : Nat) (f : List Int → List Triple) (hf : ∀ p, (f p).length = n' * t') :
    specCovOfMean inter n t (.mt inter') ⟨S ++ [n', t'], O.flatMap f⟩
      = some ⟨S, O.map fun p => gram inter n t (if inter' then f p else colMajor n' t' (f p))⟩ := by
  simp only [specCovOfMean, List.reverse_append, List.reverse_cons, List.reverse_nil, List.nil_append,
    List.cons_append, List.reverse_reverse, chunks_outer S O hO (n' * t') f hf, List.map_map, Function.comp_def]

/-- the event grid of two basic (int / slice) components under a leading multi-index -/
theorem gIn_event_basic (ri ci : RItem) (hr : ri.basic = true) (hc : ci.basic = true) (p : List Int) :
    gIn 0 (fun pre => [tripleOf pre]) [ri, ci] p
      = (pairsGrid ri.positions ci.positions).map fun ia => (p.reverse, ia.1, ia.2) := by
  cases ri <;> cases ci <;>
    simp_all [RItem.basic, gIn, pairsGrid, RItem.positions, tripleOf, flatMap_single, List.map_flatMap, List.map_map,
      Function.comp_def]

/-- ARBITRARY batch items (index tensors included), int × slice or slice × int on the event dimensions -/
theorem spec_outer_one_pick (inter : Bool) (n t : Int) (A : List RItem) (o : Gathered (List Int)) (ho : outerOf A = some o)
    (ri ci : RItem) (hr : ri.basic = true) (hc : ci.basic = true)
    (h1 : (ri.dims = [] ∧ ri.positions.length = 1) ∨ (ci.dims = [] ∧ ci.positions.length = 1))
    (h2 : (ri.dims ++ ci.dims).length = 1)
    (g : Gathered Triple) (cov : CovRes)
    (hg : gather (fun pre => [tripleOf pre]) (A ++ [ri, ci]) = some g)
    (hcov : specCovOfMean inter n t .mvn g = some cov) :
    ∃ pos, specPositions inter n t false ri.positions ci.positions = some pos ∧
      cov = ⟨o.shape, o.data.map fun p => gridBlock p.reverse pos⟩ := by
  have hT : allBasic [ri, ci] = true := by simp [allBasic, hr, hc]
  rw [gather, gatherFrom_basicTail _ A [ri, ci] hT, ho] at hg
  simp only [Option.map_some, Option.some.injEq] at hg
  subst hg
  have hone : ri.positions.length = 1 ∨ ci.positions.length = 1 := h1.elim (fun h => Or.inl h.2) (fun h => Or.inr h.2)
  refine ⟨_, specPositions_one_pick inter n t _ _ hone, ?_⟩
  have hm : ∃ m, keepDims [ri, ci] = [m] ∧ m = ri.positions.length * ci.positions.length := by
    cases ri <;> cases ci <;> simp_all [RItem.dims, RItem.positions, keepDims, RItem.basic]
  obtain ⟨m, hm, hmm⟩ := hm
  simp only [gIn_event_basic ri ci hr hc] at hcov
  rw [hm, specCov_outer_mvn inter n t o.shape o.data (outerOf_length A o ho) m _
    (fun p => by simp [length_pairsGrid, hmm])] at hcov
  cases hcov
  congr 1
  apply List.map_congr_left
  intro p _
  exact gram_eq_gridBlock inter n t p.reverse _

/-- ARBITRARY batch items (index tensors included), slice × slice on the event dimensions -/
theorem spec_outer_grid (inter : Bool) (n t : Int) (A : List RItem) (o : Gathered (List Int)) (ho : outerOf A = some o)
    (R C : List Int) (g : Gathered Triple) (cov : CovRes)
    (hg : gather (fun pre => [tripleOf pre]) (A ++ [.keep R, .keep C]) = some g)
    (hcov : specCovOfMean inter n t (.mt inter) g = some cov) :
    ∃ pos, specPositions inter n t false R C = some pos ∧
      cov = ⟨o.shape, o.data.map fun p => gridBlock p.reverse pos⟩ := by
  have hT : allBasic [RItem.keep R, RItem.keep C] = true := rfl
  rw [gather, gatherFrom_basicTail _ A _ hT, ho] at hg
  simp only [Option.map_some, Option.some.injEq] at hg
  subst hg
  refine ⟨_, specPositions_grid inter n t R C, ?_⟩
  simp only [gIn_event_basic (.keep R) (.keep C) rfl rfl, keepDims, RItem.positions] at hcov
  rw [specCov_outer_mt inter inter n t o.shape o.data (outerOf_length A o ho) _ _ _
    (fun p => by simp [length_pairsGrid])] at hcov
  cases hcov
  congr 1
  apply List.map_congr_left
  intro p _
  cases inter
  · simp only [Bool.false_eq_true, if_false]
    rw [colMajor_map, gram_eq_gridBlock]
  · simp only [if_true]
    exact gram_eq_gridBlock true n t p.reverse _

/-- `cov[batch]` / `cov[batch + (s, s)]` for ARBITRARY batch components (index tensors included) -/
theorem eval_outer (bs : List Nat) (N : Int) (bidx : List Idx) (ev : EvSel) (A : List RItem) (pos : List Int)
    (hlen : bidx.length = bs.length)
    (hres : resolveAll (bs.map fun (b : Nat) => (b : Int)) bidx = some A)
    (hev : ev = .full ∨ ∃ s, ev = .slice2 s) (hpos : ev.positions N = some pos) :
    (CovSel.mk bidx ev).eval bs N =
      (outerOf A).map fun o => ⟨o.shape, o.data.map fun p => gridBlock p.reverse pos⟩ := by
  unfold CovSel.eval
  simp only [resolveBatch_full bs bidx hlen, hres]
  rcases hev with rfl | ⟨s, rfl⟩ <;>
  · simp only [EvSel.positions, Option.some.injEq] at hpos
    subst hpos
    simp only [Option.bind_eq_bind, Option.bind_some, gather, gatherFrom_natural _ A]
    cases outerOf A <;> simp [batchOf, gridBlock, flatMap_single]

end MTIndex

/-
Helper lemmas for the C01 theorems about `Gen/ExactCall.lean` (broadcasting of a shape with itself, reading a valid
index through `bidxR`, interleaved index arithmetic).
-/
import GPVerif.Model.ExactCall
import Mathlib.Tactic.Ring
import Mathlib.Tactic.Linarith

namespace Bcast

theorem bdim_self (a : Nat) : bdim a a = some a := by simp [bdim]

/-- A shape broadcasts with itself to itself. -/
theorem bcastR_self : ∀ s : RShape, bcastR s s = some s
  | [] => rfl
  | a :: as => by simp [bcastR, bdim_self, bcastR_self as]

/-- Reading a VALID index of `s` through the broadcast index map of `s` is the identity (size-1 dimensions are read
at 0, which is the only valid coordinate). -/
theorem bidxR_of_inRange : ∀ {idx : RIdx} {s : RShape}, InRange idx s → bidxR s idx = idx
  | [], [], _ => rfl
  | i :: is, d :: ds, h => by
    obtain ⟨h1, h2⟩ := h
    simp only [bidxR, bidxR_of_inRange h2]
    split
    · congr 1; omega
    · rfl
  | [], _ :: _, h => absurd h (by simp [InRange])
  | _ :: _, [], h => absurd h (by simp [InRange])

end Bcast

namespace ExactCall

/-- `(τ + t·p + n·t) / t = n + p` and `… % t = τ` for `τ < t`: the flat index of (test point `p`, task `τ`) in the
interleaved joint on `[train; test]`. -/
theorem interleaved_div_mod (n p t τ : Nat) (hτ : τ < t) :
    (τ + t * p + n * t) / t = n + p ∧ (τ + t * p + n * t) % t = τ := by
  have ht : 0 < t := by omega
  have e : τ + t * p + n * t = τ + t * (p + n) := by ring
  rw [e]
  constructor
  · rw [Nat.add_mul_div_left _ _ ht, Nat.div_eq_of_lt hτ]; omega
  · rw [Nat.add_mul_mod_self_left, Nat.mod_eq_of_lt hτ]

theorem flat_lt_mul (s t p τ : Nat) (hp : p < s) (hτ : τ < t) : τ + t * p < s * t := by
  calc τ + t * p < t + t * p := by omega
    _ = t * (p + 1) := by ring
    _ ≤ t * s := Nat.mul_le_mul_left t (by omega)
    _ = s * t := by ring

end ExactCall

/-
Matrix-level lemmas behind C14 (whitening `u = m_z + L e`) — over an arbitrary field.
-/
import Mathlib.LinearAlgebra.Matrix.NonsingularInverse
import Mathlib.LinearAlgebra.Matrix.Trace
import Mathlib.Tactic.NoncommRing

open Matrix

namespace Whitening
variable {α : Type} [Field α] {m n : Type} [Fintype m] [DecidableEq m]

/-- `(L Lᵀ)⁻¹ = L⁻ᵀ L⁻¹`. -/
theorem inv_LLt (L : Matrix m m α) : (L * Lᵀ)⁻¹ = (L⁻¹)ᵀ * L⁻¹ := by
  rw [Matrix.mul_inv_rev, Matrix.transpose_nonsing_inv]

/-- mean: `Kxz K̃⁻¹ (L m_w) = (L⁻¹ Kzx)ᵀ m_w`. -/
theorem mean_core (L : Matrix m m α) (hL : IsUnit L.det) (Kzx : Matrix m n α) (mw : Matrix m (Fin 1) α) :
    Kzxᵀ * ((L * Lᵀ)⁻¹ * (L * mw)) = (L⁻¹ * Kzx)ᵀ * mw := by
  rw [inv_LLt, Matrix.transpose_mul, Matrix.mul_assoc (L⁻¹)ᵀ, Matrix.nonsing_inv_mul_cancel_left _ _ hL,
    Matrix.mul_assoc]

/-- covariance: `K̃⁻¹ (K̃ − L S_w Lᵀ) K̃⁻¹ X = L⁻ᵀ (1 − S_w) L⁻¹ X`. -/
theorem cov_core (L : Matrix m m α) (hL : IsUnit L.det) (Sw : Matrix m m α) (X : Matrix m n α) :
    (L * Lᵀ)⁻¹ * ((L * Lᵀ - L * (Sw * Lᵀ)) * ((L * Lᵀ)⁻¹ * X)) = (L⁻¹)ᵀ * ((1 - Sw) * (L⁻¹ * X)) := by
  have hLt : IsUnit Lᵀ.det := Matrix.isUnit_det_transpose _ hL
  have e1 : L * Lᵀ - L * (Sw * Lᵀ) = L * ((1 - Sw) * Lᵀ) := by noncomm_ring
  rw [e1, inv_LLt]
  have e2 : (L⁻¹)ᵀ * L⁻¹ * (L * ((1 - Sw) * Lᵀ) * ((L⁻¹)ᵀ * L⁻¹ * X))
      = (L⁻¹)ᵀ * ((L⁻¹ * L) * ((1 - Sw) * ((Lᵀ * (L⁻¹)ᵀ) * (L⁻¹ * X)))) := by
    simp only [Matrix.mul_assoc]
  rw [e2, Matrix.nonsing_inv_mul _ hL, Matrix.transpose_nonsing_inv, Matrix.mul_nonsing_inv _ hLt]
  simp

/-- trace term of the KL is invariant: `tr(K̃⁻¹ L S_w Lᵀ) = tr S_w`. -/
theorem trace_core (L : Matrix m m α) (hL : IsUnit L.det) (Sw : Matrix m m α) :
    ((L * Lᵀ)⁻¹ * (L * (Sw * Lᵀ))).trace = Sw.trace := by
  have hLt : IsUnit Lᵀ.det := Matrix.isUnit_det_transpose _ hL
  rw [inv_LLt]
  have e : (L⁻¹)ᵀ * L⁻¹ * (L * (Sw * Lᵀ)) = (L⁻¹)ᵀ * ((L⁻¹ * L) * (Sw * Lᵀ)) := by
    simp only [Matrix.mul_assoc]
  rw [e, Matrix.nonsing_inv_mul _ hL, Matrix.one_mul, Matrix.trace_mul_comm, Matrix.mul_assoc,
    Matrix.transpose_nonsing_inv, Matrix.mul_nonsing_inv _ hLt, Matrix.mul_one]

/-- quadratic term of the KL is invariant: `(L m_w)ᵀ K̃⁻¹ (L m_w) = m_wᵀ m_w`. -/
theorem quad_core (L : Matrix m m α) (hL : IsUnit L.det) (mw : Matrix m (Fin 1) α) :
    (L * mw)ᵀ * ((L * Lᵀ)⁻¹ * (L * mw)) = mwᵀ * mw := by
  have hLt : IsUnit Lᵀ.det := Matrix.isUnit_det_transpose _ hL
  rw [inv_LLt, Matrix.transpose_mul]
  have e : mwᵀ * Lᵀ * ((L⁻¹)ᵀ * L⁻¹ * (L * mw)) = mwᵀ * ((Lᵀ * (L⁻¹)ᵀ) * ((L⁻¹ * L) * mw)) := by
    simp only [Matrix.mul_assoc]
  rw [e, Matrix.nonsing_inv_mul _ hL, Matrix.transpose_nonsing_inv, Matrix.mul_nonsing_inv _ hLt]
  simp

/-- determinant ratio: `det(L S_w Lᵀ) = det(L Lᵀ) · det S_w`. -/
theorem det_core (L Sw : Matrix m m α) : (L * (Sw * Lᵀ)).det = (L * Lᵀ).det * Sw.det := by
  simp only [Matrix.det_mul, Matrix.det_transpose]; ring

/-- unwhitened code path: with `S = R Rᵀ` and `K̃` symmetric,
`(Rᵀ K̃⁻¹ Kzx)ᵀ (Rᵀ K̃⁻¹ Kzx) + (Kxx − Kxz K̃⁻¹ Kzx) = Kxx − Kxz K̃⁻¹ (K̃ − S) K̃⁻¹ Kzx`. -/
theorem unwhitened_cov_core {r : Type} [Fintype r] (Kt : Matrix m m α) (hK : IsUnit Kt.det) (hs : Ktᵀ = Kt)
    (Kzx : Matrix m n α) (Kxx : Matrix n n α) (R : Matrix m r α) :
    (Rᵀ * (Kt⁻¹ * Kzx))ᵀ * (Rᵀ * (Kt⁻¹ * Kzx)) + (Kxx + (-Kzxᵀ) * (Kt⁻¹ * Kzx))
      = Kxx - Kzxᵀ * (Kt⁻¹ * ((Kt - R * Rᵀ) * (Kt⁻¹ * Kzx))) := by
  have hinvT : (Kt⁻¹)ᵀ = Kt⁻¹ := by rw [Matrix.transpose_nonsing_inv, hs]
  have e1 : (Rᵀ * (Kt⁻¹ * Kzx))ᵀ = Kzxᵀ * (Kt⁻¹ * R) := by
    rw [Matrix.transpose_mul, Matrix.transpose_mul, Matrix.transpose_transpose, hinvT, Matrix.mul_assoc]
  have e2 : Kt⁻¹ * ((Kt - R * Rᵀ) * (Kt⁻¹ * Kzx)) = Kt⁻¹ * Kzx - Kt⁻¹ * (R * (Rᵀ * (Kt⁻¹ * Kzx))) := by
    rw [Matrix.sub_mul, Matrix.mul_sub, Matrix.mul_nonsing_inv_cancel_left _ _ hK]
    simp only [Matrix.mul_assoc]
  rw [e1, e2, Matrix.mul_sub]
  simp only [Matrix.mul_assoc, Matrix.neg_mul]
  abel

end Whitening

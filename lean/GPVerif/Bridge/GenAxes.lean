/-
Bridging lemmas for the axis-aware generated kernel terms (`Gen/KernelAxes.lean`): the index-style operations of
`Model/RangeOps.lean` at `ℝ` are Mathlib's `Finset.range` sums / products, and the recursive `Spec` functions of
`Model/Kernels.lean` are brought into the same form.
-/
import Mathlib.Algebra.BigOperators.Ring.Finset
import Mathlib.Algebra.BigOperators.Intervals
import GPVerif.Bridge.KernelLemmas
import GPVerif.Model.RangeOps
import GPVerif.Gen.KernelAxes

open Finset

namespace Scalar

theorem tab_succ (n : ℕ) (f : ℕ → ℝ) : tab (n + 1) f = tab n f ++ [f n] := by
  simp [tab, List.range_succ]

@[simp] theorem tab_length (n : ℕ) (f : ℕ → ℝ) : (tab n f).length = n := by simp [tab]

theorem sumR_eq (n : ℕ) (f : ℕ → ℝ) : sumR n f = ∑ k ∈ range n, f k := by
  induction n with
  | zero => simp [sumR, tab]
  | succ n ih =>
    have : sumR (n + 1) f = sumR n f + f n := by
      simp [sumR, tab_succ, sum_append_real]
    rw [this, ih, Finset.sum_range_succ]

theorem prod_append_real (l₁ l₂ : List ℝ) : Scalar.prod (l₁ ++ l₂) = Scalar.prod l₁ * Scalar.prod l₂ := by
  induction l₁ with
  | nil => simp
  | cons x xs ih => simp [ih, mul_assoc]

theorem prodR_eq (n : ℕ) (f : ℕ → ℝ) : prodR n f = ∏ k ∈ range n, f k := by
  induction n with
  | zero => simp [prodR, tab]
  | succ n ih =>
    have : prodR (n + 1) f = prodR n f * f n := by
      simp [prodR, tab_succ, prod_append_real]
    rw [this, ih, Finset.prod_range_succ]

@[simp] theorem nth_nil (k : ℕ) : nth ([] : List ℝ) k = 0 := by simp [nth]
@[simp] theorem nth_cons_zero (x : ℝ) (a : List ℝ) : nth (x :: a) 0 = x := by simp [nth]
@[simp] theorem nth_cons_succ (x : ℝ) (a : List ℝ) (k : ℕ) : nth (x :: a) (k + 1) = nth a k := by simp [nth]

theorem tab_succ' (n : ℕ) (f : ℕ → ℝ) : tab (n + 1) f = f 0 :: tab n (fun k => f (k + 1)) := by
  simp [tab, List.range_succ_eq_map, List.map_map, Function.comp_def]

/-- a row is the table of its elements -/
theorem tab_nth (a : List ℝ) : tab a.length (nth a) = a := by
  induction a with
  | nil => simp [tab]
  | cons x a ih =>
    rw [List.length_cons, tab_succ']
    simp only [nth_cons_zero, nth_cons_succ]
    rw [ih]

/-- elementwise binary operation of two rows of equal length, as a table -/
theorem zip_eq_tab (f : ℝ → ℝ → ℝ) (a b : List ℝ) (h : a.length = b.length) :
    Scalar.zip f a b = tab a.length fun k => f (nth a k) (nth b k) := by
  induction a generalizing b with
  | nil => simp [tab]
  | cons x a ih =>
    cases b with
    | nil => simp at h
    | cons y b =>
      simp only [List.length_cons, Nat.add_right_cancel_iff] at h
      rw [List.length_cons, tab_succ', zip_cons, ih b h]
      simp

theorem map_eq_tab (f : ℝ → ℝ) (a : List ℝ) : a.map f = tab a.length fun k => f (nth a k) := by
  induction a with
  | nil => simp [tab]
  | cons x a ih => rw [List.length_cons, tab_succ', List.map_cons, ih]; simp

theorem nth_tab (n : ℕ) (f : ℕ → ℝ) (k : ℕ) (hk : k < n) : nth (tab n f) k = f k := by
  simp [nth, tab, List.getD_eq_getElem?_getD, hk]

theorem tab_congr (n : ℕ) (f g : ℕ → ℝ) (h : ∀ k < n, f k = g k) : tab n f = tab n g := by
  simp only [tab]
  apply List.map_congr_left
  intro k hk
  exact h k (List.mem_range.mp hk)

end Scalar

namespace Kernels
open Scalar Gen.KernelAxes

theorem dot_eq_sum (a b : List ℝ) (h : a.length = b.length) :
    dot a b = ∑ k ∈ range a.length, nth a k * nth b k := by
  induction a generalizing b with
  | nil => simp [dot_nil_left]
  | cons x a ih =>
    cases b with
    | nil => simp at h
    | cons y b =>
      simp only [List.length_cons, Nat.add_right_cancel_iff] at h
      rw [dot_cons, List.length_cons, Finset.sum_range_succ', ih b h]
      simp [add_comm]

/-- a sum over `t < T`, `v < V` of a function of the flat index `t·V + v` is the sum over the flat index -/
theorem sum_split_index (T V : ℕ) (f : ℕ → ℝ) :
    ∑ t ∈ range T, ∑ v ∈ range V, f (t * V + v) = ∑ p ∈ range (T * V), f p := by
  induction T with
  | zero => simp
  | succ T ih =>
    rw [Finset.sum_range_succ, ih, Nat.succ_mul, Finset.sum_range_add]

theorem hamming_core (V : ℕ) (a b : List ℝ) (hlen : a.length = b.length) (hV : a.length / V * V = a.length) :
    (sumR (a.length / V) fun t => sumR V fun v => nth a (t * V + v) * nth b (t * V + v)) = dot a b := by
  simp only [sumR_eq]
  rw [sum_split_index (a.length / V) V (fun p => nth a p * nth b p), hV, dot_eq_sum a b hlen]


theorem symKL_eq_symKLe (m1 v1 m2 v2 : List ℝ) : symKL m1 v1 m2 v2 = symKLe (lit (1 / 10 ^ 8)) m1 v1 m2 v2 := by
  induction m1 generalizing v1 m2 v2 with
  | nil => simp [symKL, symKLe]
  | cons x m1 ih =>
    cases v1 <;> cases m2 <;> cases v2 <;> simp [symKL, symKLe, ih]

theorem symKLe_eq_sum (eps : ℝ) (m1 v1 m2 v2 : List ℝ) (h1 : v1.length = m1.length) (h2 : m2.length = m1.length)
    (h3 : v2.length = m1.length) :
    symKLe eps m1 v1 m2 v2 = ∑ k ∈ range m1.length,
      ((1 / 2 : ℝ) * ((eps + Real.exp (nth v1 k)) / (eps + Real.exp (nth v2 k))
          + (nth m1 k - nth m2 k) ^ 2 / (eps + Real.exp (nth v2 k)) - 1)
        + (1 / 2 : ℝ) * ((eps + Real.exp (nth v2 k)) / (eps + Real.exp (nth v1 k))
          + (nth m1 k - nth m2 k) ^ 2 / (eps + Real.exp (nth v1 k)) - 1)) := by
  induction m1 generalizing v1 m2 v2 with
  | nil => simp [symKLe]
  | cons x m1 ih =>
    cases v1 with
    | nil => simp at h1
    | cons lv1 v1 =>
    cases m2 with
    | nil => simp at h2
    | cons y m2 =>
    cases v2 with
    | nil => simp at h3
    | cons lv2 v2 =>
      simp only [List.length_cons, Nat.add_right_cancel_iff] at h1 h2 h3
      rw [List.length_cons, Finset.sum_range_succ', symKLe, ih v1 m2 v2 h1 h2 h3]
      simp only [nth_cons_zero, nth_cons_succ, exp_real, lit_real, sq_real]
      push_cast
      ring

theorem nth_take (a : List ℝ) (h k : ℕ) (hk : k < h) : nth (a.take h) k = nth a k := by
  simp [nth, List.getD_eq_getElem?_getD, List.getElem?_take, hk]

theorem nth_drop (a : List ℝ) (h k : ℕ) : nth (a.drop h) k = nth a (k + h) := by
  simp [nth, List.getD_eq_getElem?_getD, List.getElem?_drop, add_comm]


theorem map_tab (f : ℝ → ℝ) (n : ℕ) (g : ℕ → ℝ) : (tab n g).map f = tab n (fun k => f (g k)) := by
  simp [tab, List.map_map, Function.comp_def]

theorem zip_tab_right (f : ℝ → ℝ → ℝ) (a : List ℝ) (g : ℕ → ℝ) :
    Scalar.zip f a (tab a.length g) = tab a.length fun k => f (nth a k) (g k) := by
  rw [zip_eq_tab f a _ (by simp)]
  apply tab_congr
  intro k hk
  rw [nth_tab _ _ _ hk]

theorem arcEmbed_eq_tab (ls an ra x : List ℝ) (h1 : ls.length = x.length) (h2 : an.length = x.length)
    (h3 : ra.length = x.length) :
    arcEmbed ls an ra x =
      tab x.length (fun k => nth ra k * Real.sin (Real.pi * (nth an k * (nth x k / nth ls k)))) ++
      tab x.length (fun k => nth ra k * Real.cos (Real.pi * (nth an k * (nth x k / nth ls k)))) := by
  unfold arcEmbed
  simp only [rowMul, rowDiv]
  rw [zip_eq_tab _ x ls h1.symm, ← h2, zip_tab_right, map_tab, map_tab, ← h3.trans h2.symm, zip_tab_right, zip_tab_right]
  simp only [sin_real, cos_real, pi_real]


theorem zip_tab_left (f : ℝ → ℝ → ℝ) (b : List ℝ) (g : ℕ → ℝ) :
    Scalar.zip f (tab b.length g) b = tab b.length fun k => f (g k) (nth b k) := by
  rw [zip_eq_tab f _ b (by simp)]
  simp only [tab_length]
  apply tab_congr
  intro k hk
  rw [nth_tab _ _ _ hk]

theorem zip_append (f : ℝ → ℝ → ℝ) (a₁ a₂ b₁ b₂ : List ℝ) (h : a₁.length = b₁.length) :
    Scalar.zip f (a₁ ++ a₂) (b₁ ++ b₂) = Scalar.zip f a₁ b₁ ++ Scalar.zip f a₂ b₂ := by
  induction a₁ generalizing b₁ with
  | nil => cases b₁ <;> simp_all
  | cons x a ih =>
    cases b₁ with
    | nil => simp at h
    | cons y b => simp only [List.length_cons, Nat.add_right_cancel_iff] at h; simp [ih b h]


theorem smDim_eq_sum (τ : ℝ) (w m s : List ℝ) (h1 : m.length = w.length) (h2 : s.length = w.length) :
    smDim τ w m s = ∑ q ∈ range w.length,
      nth w q * (Real.exp (-(2 * Real.pi ^ 2 * τ ^ 2 * nth s q ^ 2)) * Real.cos (2 * Real.pi * τ * nth m q)) := by
  induction w generalizing m s with
  | nil => simp [smDim]
  | cons x w ih =>
    cases m with
    | nil => simp at h1
    | cons y m =>
    cases s with
    | nil => simp at h2
    | cons z s =>
      simp only [List.length_cons, Nat.add_right_cancel_iff] at h1 h2
      rw [List.length_cons, Finset.sum_range_succ', smDim, ih m s h1 h2]
      simp only [nth_cons_zero, nth_cons_succ, exp_real, cos_real, pi_real, lit_real, sq_real]
      push_cast
      ring

theorem smSpec_eq_prod (w a b : List ℝ) (fM fS : ℕ → List ℝ) (hb : b.length = a.length) :
    smSpec w ((List.range a.length).map fM) ((List.range a.length).map fS) a b
      = ∏ l ∈ range a.length, smDim (nth a l - nth b l) w (fM l) (fS l) := by
  induction a generalizing b fM fS with
  | nil => simp [smSpec]
  | cons x a ih =>
    cases b with
    | nil => simp at hb
    | cons y b =>
      simp only [List.length_cons, Nat.add_right_cancel_iff] at hb
      rw [List.length_cons, Finset.prod_range_succ', List.range_succ_eq_map]
      simp only [List.map_cons, List.map_map, smSpec]
      have := ih b (fun l => fM (l + 1)) (fun l => fS (l + 1)) hb
      simp only [Function.comp_def] at this ⊢
      rw [this]
      simp [mul_comm]


theorem loopFrom1_add (n : ℕ) (init : ℝ) (t : ℕ → ℝ) :
    loopFrom1 n init (fun p acc => acc + t p) = init + ∑ k ∈ range (n - 1), t (k + 1) := by
  unfold loopFrom1
  generalize n - 1 = m
  induction m with
  | zero => simp
  | succ m ih => rw [List.range_succ, List.foldl_append, ih, Finset.sum_range_succ]; simp [add_assoc]

theorem angular_eq_sum (g : ℝ) (w : List ℝ) (p0 : ℕ) :
    angular g w p0 = ∑ i ∈ range w.length, nth w i * g ^ (p0 + i) := by
  induction w generalizing p0 with
  | nil => simp [angular]
  | cons x w ih =>
    rw [angular, ih, List.length_cons, Finset.sum_range_succ']
    simp only [nth_cons_zero, nth_cons_succ, npow_real, add_zero]
    rw [add_comm]
    congr 1
    apply Finset.sum_congr rfl
    intro i _
    congr 2
    omega

theorem norm_eq (x : List ℝ) : Kernels.norm x = Real.sqrt (∑ k ∈ range x.length, nth x k ^ 2) := by
  unfold Kernels.norm
  rw [map_eq_tab]
  simp only [sqrt_real, sq_real]
  congr 1
  exact sumR_eq _ _

theorem dot_rowDivS_eq (a b : List ℝ) (r s : ℝ) (hb : b.length = a.length) :
    dot (rowDivS a r) (rowDivS b s) = ∑ k ∈ range a.length, nth a k / r * (nth b k / s) := by
  unfold rowDivS
  rw [dot_eq_sum _ _ (by simp [hb])]
  simp only [List.length_map]
  apply Finset.sum_congr rfl
  intro k hk
  have hk' := Finset.mem_range.mp hk
  rw [map_eq_tab, map_eq_tab, nth_tab _ _ _ hk', nth_tab _ _ _ (by omega)]


theorem shuffle_at_gradIdx (n m i k : ℕ) (hk : k < m) :
    ((i * m + k) % m) * n + (i * m + k) / m = k * n + i := by
  have h1 : (i * m + k) % m = k := by rw [Nat.mul_comm, Nat.mul_add_mod]; exact Nat.mod_eq_of_lt hk
  have h2 : (i * m + k) / m = i := by
    rw [Nat.mul_comm, Nat.mul_add_div (by omega)]; simp [Nat.div_eq_of_lt hk]
  rw [h1, h2]

theorem block_index (n i k : ℕ) (hi : i < n) :
    ¬ ((k + 1) * n + i < n) ∧ ((k + 1) * n + i - n) / n = k ∧ ((k + 1) * n + i - n) % n = i := by
  have e : (k + 1) * n + i - n = n * k + i := by
    have : (k + 1) * n = n * k + n := by ring
    omega
  refine ⟨?_, ?_, ?_⟩
  · have : (k + 1) * n = n * k + n := by ring
    omega
  · rw [e, Nat.mul_add_div (by omega)]; simp [Nat.div_eq_of_lt hi]
  · rw [e, Nat.mul_add_mod]; exact Nat.mod_eq_of_lt hi

theorem tab_div_eq_rowDiv (a ls : List ℝ) (d : ℕ) (ha : a.length = d) (hl : ls.length = d) :
    tab d (fun q => nth a q / nth ls q) = rowDiv a ls := by
  unfold rowDiv
  rw [zip_eq_tab _ a ls (ha.trans hl.symm), ha]

theorem rbf_block_value (a b ls : List ℝ) (d : ℕ) (ha : a.length = d) (hb : b.length = d) (hl : ls.length = d) :
    Real.exp (sqDist (tab d fun q => nth a q / nth ls q) (tab d fun q => nth b q / nth ls q) / ((-2 : ℚ) : ℝ))
      = rbfSpec ls a b := by
  rw [tab_div_eq_rowDiv a ls d ha hl, tab_div_eq_rowDiv b ls d hb hl, sqDist_rowDiv]
  simp only [rbfSpec, exp_real, lit_real]
  congr 1; push_cast; ring


theorem getD_one_eq_nth (ls : List ℝ) (k : ℕ) (hk : k < ls.length) : ls.getD k (Scalar.lit 1 : ℝ) = nth ls k := by
  simp [nth, List.getD_eq_getElem?_getD, hk]

theorem scaled_diff (x y s : ℝ) : (x / s - y / s) / s = (x - y) / s ^ 2 := by
  rw [← sub_div, div_div, pow_two]


theorem matern_block_dist (a b ls : List ℝ) (d : ℕ) (ha : a.length = d) (hb : b.length = d) (hl : ls.length = d) :
    Scalar.dist (tab d fun q => nth a q / nth ls q) (tab d fun q => nth b q / nth ls q)
      = Real.sqrt (sqDistArd ls a b) := by
  rw [tab_div_eq_rowDiv a ls d ha hl, tab_div_eq_rowDiv b ls d hb hl, Scalar.dist, sqDist_rowDiv]; rfl


end Kernels

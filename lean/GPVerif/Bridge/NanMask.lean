/-
Helper lemmas for C16: the observed-index enumeration `obsIdx`, sums over observed entries, and the
row-wise behaviour of the `fill` matrix.
-/
import GPVerif.Model.ExactGP
import Mathlib.Algebra.BigOperators.Group.Finset.Basic
import Mathlib.Data.List.NodupEquivFin
import Mathlib.LinearAlgebra.Matrix.Block

open Matrix

namespace ExactGP

variable {n s k p : Nat} {α : Type}

/-- `e` enumerates exactly the observed indices, without repetition. -/
structure Enumerates (obs : Fin n → Bool) (e : Fin k → Fin n) : Prop where
  inj : Function.Injective e
  range : ∀ i, obs i = true ↔ ∃ a, e a = i

theorem Enumerates.obs_apply {obs : Fin n → Bool} {e : Fin k → Fin n} (h : Enumerates obs e) (a : Fin k) :
    obs (e a) = true := (h.range _).2 ⟨a, rfl⟩

theorem obsList_nodup (obs : Fin n → Bool) : (obsList obs).Nodup :=
  (List.nodup_finRange n).filter _

/-- The model's own enumeration (the one the driver executes) enumerates the observed indices. -/
theorem obsIdx_enumerates (obs : Fin n → Bool) : Enumerates obs (obsIdx obs) where
  inj := by
    intro a b h
    exact (List.Nodup.get_inj_iff (obsList_nodup obs)).1 h
  range := by
    intro i
    constructor
    · intro hi
      have hm : i ∈ obsList obs := by simp [obsList, hi]
      obtain ⟨a, ha⟩ := List.mem_iff_get.1 hm
      exact ⟨a, ha⟩
    · rintro ⟨a, rfl⟩
      have hm : obsIdx obs a ∈ obsList obs := List.get_mem _ _
      simpa [obsList] using hm

/-- Summing over the observed indices = summing over the enumeration. -/
theorem sum_obs_eq {β : Type} [AddCommMonoid β] {obs : Fin n → Bool} {e : Fin k → Fin n} (h : Enumerates obs e)
    (g : Fin n → β) : ∑ j, (if obs j = true then g j else 0) = ∑ a, g (e a) := by
  rw [← Finset.sum_filter]
  have hs : Finset.univ.filter (fun j => obs j = true) = Finset.univ.image e := by
    ext i; simp [h.range]
  rw [hs, Finset.sum_image (fun x _ y _ hxy => h.inj hxy)]

section field
variable [Field α]

/-- The `fill` matrix as a Mathlib matrix. -/
def fillM (A : Matrix (Fin n) (Fin n) α) (obs : Fin n → Bool) : Matrix (Fin n) (Fin n) α :=
  Matrix.of fun i j => if i = j then A i j else if obs i && obs j then A i j else 0

@[simp] theorem toMatrix_fill (A : DMat n n α) (obs : Fin n → Bool) : (fill A obs).toMatrix = fillM A.toMatrix obs := by
  simp [fill, fillM]

omit [Field α] in
@[simp] theorem toMatrix_fillRows (B : DMat n p α) (obs : Fin n → Bool) (c : α) :
    (fillRows B obs c).toMatrix = Matrix.of fun i j => if obs i then B.toMatrix i j else c := by
  simp [fillRows]

@[simp] theorem toMatrix_zeroCols (B : DMat s n α) (obs : Fin n → Bool) :
    (zeroCols B obs).toMatrix = Matrix.of fun i j => if obs j then B.toMatrix i j else 0 := by
  simp [zeroCols]

/-- Observed rows of `fill A · Z` only see the observed block of `A` and the observed rows of `Z`. -/
theorem fillM_mul_observed (A : Matrix (Fin n) (Fin n) α) {obs : Fin n → Bool} {e : Fin k → Fin n}
    (h : Enumerates obs e) (Z : Matrix (Fin n) (Fin p) α) :
    (fillM A obs * Z).submatrix e id = A.submatrix e e * Z.submatrix e id := by
  ext a l
  simp only [submatrix_apply, mul_apply, id]
  rw [← sum_obs_eq h (fun j => A (e a) j * Z j l)]
  apply Finset.sum_congr rfl
  intro j _
  have hea : obs (e a) = true := h.obs_apply a
  by_cases hj : e a = j
  · subst hj; simp [fillM, hea]
  · by_cases hoj : obs j = true <;> simp [fillM, hj, hea, hoj]

omit [Field α] in
/-- Rows of a filled right-hand side at observed positions are the original rows. -/
theorem fillRows_observed (B : Matrix (Fin n) (Fin p) α) {obs : Fin n → Bool} {e : Fin k → Fin n}
    (h : Enumerates obs e) (c : α) :
    (Matrix.submatrix (Matrix.of fun i j => if obs i then B i j else c) e id) = B.submatrix e id := by
  ext a l
  simp [h.obs_apply a]

/-- Zeroed columns times anything whose observed rows are `Zo`: only the observed part contributes, whatever
sits in the missing rows. -/
theorem zeroCols_mul (Kts : Matrix (Fin s) (Fin n) α) {obs : Fin n → Bool} {e : Fin k → Fin n}
    (h : Enumerates obs e) (Z : Matrix (Fin n) (Fin p) α) :
    (Matrix.of fun i j => if obs j then Kts i j else 0 : Matrix (Fin s) (Fin n) α) * Z
      = Kts.submatrix id e * Z.submatrix e id := by
  ext i l
  simp only [mul_apply, submatrix_apply, id]
  rw [← sum_obs_eq h (fun j => Kts i j * Z j l)]
  apply Finset.sum_congr rfl
  intro j _
  by_cases hoj : obs j = true <;> simp [hoj]

/-! ### determinant of the `fill` matrix -/

/-- After sorting the indices into observed ⊕ missing the `fill` matrix is block diagonal
`[[A_oo, 0], [0, diag(A_mm)]]`. -/
theorem fillM_submatrix_sumCompl (A : Matrix (Fin n) (Fin n) α) (obs : Fin n → Bool) :
    (fillM A obs).submatrix (Equiv.sumCompl fun i => obs i = true) (Equiv.sumCompl fun i => obs i = true)
      = fromBlocks (A.submatrix Subtype.val Subtype.val) 0 0
          (Matrix.diagonal fun j : {i // ¬ obs i = true} => A j.1 j.1) := by
  ext i j
  rcases i with ⟨a, ha⟩ | ⟨a, ha⟩ <;> rcases j with ⟨b, hb⟩ | ⟨b, hb⟩
  · by_cases hab : a = b <;> simp [fillM, ha, hb, hab]
  · have hab : a ≠ b := by rintro rfl; exact hb ha
    simp [fillM, hab, hb]
  · have hab : a ≠ b := by rintro rfl; exact ha hb
    simp [fillM, hab, ha]
  · by_cases hab : a = b
    · subst hab; simp [fillM]
    · simp [fillM, hab, ha, Subtype.ext_iff]

theorem fillM_det (A : Matrix (Fin n) (Fin n) α) (obs : Fin n → Bool) :
    (fillM A obs).det = (A.submatrix (Subtype.val : {i // obs i = true} → Fin n) Subtype.val).det
      * ∏ j : {i // ¬ obs i = true}, A j.1 j.1 := by
  rw [← Matrix.det_submatrix_equiv_self (Equiv.sumCompl fun i => obs i = true) (fillM A obs),
    fillM_submatrix_sumCompl, Matrix.det_fromBlocks_zero₂₁, Matrix.det_diagonal]

/-- The observed block indexed by an enumeration has the determinant of the subtype-indexed block. -/
theorem det_submatrix_enumerates (A : Matrix (Fin n) (Fin n) α) {obs : Fin n → Bool} {e : Fin k → Fin n}
    (h : Enumerates obs e) :
    (A.submatrix e e).det = (A.submatrix (Subtype.val : {i // obs i = true} → Fin n) Subtype.val).det := by
  let ε : Fin k ≃ {i // obs i = true} := Equiv.ofBijective (fun a => ⟨e a, h.obs_apply a⟩)
    ⟨fun a b hab => h.inj (by simpa using congrArg Subtype.val hab),
     fun ⟨i, hi⟩ => by obtain ⟨a, ha⟩ := (h.range i).1 hi; exact ⟨a, Subtype.ext ha⟩⟩
  have : A.submatrix e e = (A.submatrix (Subtype.val : {i // obs i = true} → Fin n) Subtype.val).submatrix ε ε := by
    ext a b; rfl
  rw [this, Matrix.det_submatrix_equiv_self]

end field

end ExactGP

/-
Real-analysis lemmas about the generated transforms (`Gen.Constraints`) used by `Props/C17.lean`:
`inv_sigmoid ∘ sigmoid = id`, `sigmoid ∘ inv_sigmoid = id` on (0,1), the same for softplus / inv_softplus
on (0,∞), and the algebraic identity `y + log(−expm1(−y)) = log(eʸ − 1)`.
-/
import GPVerif.Bridge.ScalarFnReal
import GPVerif.Gen.Constraints

namespace ScalarFnReal
open ScalarFn Real Gen.Constraints

theorem invSigmoid_eq (y : ℝ) : invSigmoid y = Real.log y - Real.log (1 - y) := by
  simp [invSigmoid]

theorem invSoftplus_eq (y : ℝ) : invSoftplus y = y + Real.log (-(Real.exp (-y) - 1)) := by
  simp [invSoftplus]

theorem one_sub_sigmoid (x : ℝ) : 1 - sigmoid x = Real.exp (-x) / (1 + Real.exp (-x)) := by
  rw [sigmoid_eq]
  have : (1 + Real.exp (-x)) ≠ 0 := by positivity
  field_simp
  ring

theorem invSigmoid_sigmoid (x : ℝ) : invSigmoid (sigmoid x) = x := by
  rw [invSigmoid_eq, one_sub_sigmoid, sigmoid_eq]
  have h1 : (1 + Real.exp (-x)) ≠ 0 := by positivity
  rw [← Real.log_div (by positivity) (by positivity)]
  have : 1 / (1 + Real.exp (-x)) / (Real.exp (-x) / (1 + Real.exp (-x))) = Real.exp x := by
    rw [Real.exp_neg]
    have : Real.exp x ≠ 0 := (Real.exp_pos x).ne'
    field_simp
  rw [this, Real.log_exp]

theorem sigmoid_invSigmoid {y : ℝ} (h0 : 0 < y) (h1 : y < 1) : sigmoid (invSigmoid y) = y := by
  rw [invSigmoid_eq, sigmoid_eq, neg_sub, Real.exp_sub, Real.exp_log (by linarith), Real.exp_log h0]
  have : y ≠ 0 := h0.ne'
  field_simp
  ring

/-- the algebraic form used by the code equals the textbook inverse `log(eʸ − 1)` -/
theorem invSoftplus_eq_log_exp_sub_one {y : ℝ} (hy : 0 < y) :
    invSoftplus y = Real.log (Real.exp y - 1) := by
  rw [invSoftplus_eq]
  have h1 : 0 < 1 - Real.exp (-y) := by
    have : Real.exp (-y) < 1 := by rw [Real.exp_lt_one_iff]; linarith
    linarith
  have h2 : -(Real.exp (-y) - 1) = 1 - Real.exp (-y) := by ring
  rw [h2]
  have h3 : Real.exp y - 1 = Real.exp y * (1 - Real.exp (-y)) := by
    rw [mul_sub, mul_one, ← Real.exp_add]; simp
  rw [h3, Real.log_mul (Real.exp_pos y).ne' h1.ne', Real.log_exp]

theorem invSoftplus_softplus (x : ℝ) : invSoftplus (softplus x) = x := by
  rw [invSoftplus_eq_log_exp_sub_one (softplus_pos x), exp_softplus]
  simp

theorem softplus_invSoftplus {y : ℝ} (hy : 0 < y) : softplus (invSoftplus y) = y := by
  have h : 0 < Real.exp y - 1 := by
    have : 1 < Real.exp y := by rw [Real.one_lt_exp_iff]; exact hy
    linarith
  rw [invSoftplus_eq_log_exp_sub_one hy, softplus_eq, Real.exp_log h]
  simp

theorem one_sub_exp_neg_pos {y : ℝ} (hy : 0 < y) : 0 < -(Real.exp (-y) - 1) := by
  have : Real.exp (-y) < 1 := by rw [Real.exp_lt_one_iff]; linarith
  linarith

theorem one_sub_exp_neg_neg {y : ℝ} (hy : y < 0) : -(Real.exp (-y) - 1) < 0 := by
  have : 1 < Real.exp (-y) := by rw [Real.one_lt_exp_iff]; linarith
  linarith


end ScalarFnReal

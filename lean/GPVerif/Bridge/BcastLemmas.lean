/-
Helper lemmas about `Bcast` (broadcasting, `bidxR`, `view`/`unflat` on appended shapes) used by
`Props/C06.lean` and `Props/C08.lean`.  Core Lean only.
-/
import GPVerif.Model.Bcast

namespace Bcast

theorem bdim_comm (a b : Nat) : bdim a b = bdim b a := by
  unfold bdim
  by_cases h : a = b
  · subst h; rfl
  · have h' : ¬ b = a := fun e => h e.symm
    simp only [h, h', if_false]
    by_cases ha : a = 1 <;> by_cases hb : b = 1 <;> simp [ha, hb]

theorem bdim_self (a : Nat) : bdim a a = some a := by simp [bdim]

theorem bdim_one_right (a : Nat) : bdim a 1 = some a := by
  unfold bdim; by_cases h : a = 1 <;> simp [h]

theorem bdim_one_left (a : Nat) : bdim 1 a = some a := by
  rw [bdim_comm]; exact bdim_one_right a

theorem bcastR_nil_right (s : RShape) : bcastR s [] = some s := by
  cases s <;> rfl

theorem bcastR_comm : ∀ (s t : RShape), bcastR s t = bcastR t s
  | [], t => by rw [bcastR_nil_right]; rfl
  | a :: as, [] => rfl
  | a :: as, b :: bs => by
    simp only [bcastR, bdim_comm a b, bcastR_comm as bs]

theorem bcastR_self : ∀ (s : RShape), bcastR s s = some s
  | [] => rfl
  | a :: as => by simp [bcastR, bdim_self, bcastR_self as]

/-- shape of the result of `bcastR` on conses -/
theorem bcastR_cons {a b : Nat} {as bs : RShape} {r : RShape} (h : bcastR (a :: as) (b :: bs) = some r) :
    ∃ d r', bdim a b = some d ∧ bcastR as bs = some r' ∧ r = d :: r' := by
  simp only [bcastR] at h
  split at h
  · rename_i d r' hd hr
    exact ⟨d, r', hd, hr, by simpa using h.symm⟩
  · simp at h

theorem bcastR_cons_same (d : Nat) {as bs r : RShape} (h : bcastR as bs = some r) :
    bcastR (d :: as) (d :: bs) = some (d :: r) := by simp [bcastR, bdim_self, h]

theorem bcastR_cons_one_right (d : Nat) {as bs r : RShape} (h : bcastR as bs = some r) :
    bcastR (d :: as) (1 :: bs) = some (d :: r) := by simp [bcastR, bdim_one_right, h]

theorem bcastR_cons_one_left (d : Nat) {as bs r : RShape} (h : bcastR as bs = some r) :
    bcastR (1 :: as) (d :: bs) = some (d :: r) := by simp [bcastR, bdim_one_left, h]

theorem bdim_lt {a b d i : Nat} (h : bdim a b = some d) (hi : i < d) :
    (if a = 1 then 0 else i) < a ∧ (if b = 1 then 0 else i) < b := by
  unfold bdim at h
  by_cases hab : a = b
  · subst hab; simp at h; subst h
    by_cases h1 : a = 1 <;> simp [h1, hi]
  · simp only [hab, if_false] at h
    by_cases ha : a = 1
    · simp only [ha, if_true] at h
      have : b = d := by simpa using h
      subst this
      have hb : ¬ b = 1 := fun e => hab (ha.trans e.symm)
      simp [ha, hb, hi]
    · simp only [ha, if_false] at h
      by_cases hb : b = 1
      · simp only [hb, if_true] at h
        have : a = d := by simpa using h
        subst this
        simp [ha, hb, hi]
      · simp [hb] at h

/-- **`bidx` is well defined**: the source index of a valid broadcast index is in range, for both operands. -/
theorem bidxR_inRange : ∀ {s t r : RShape} {idx : RIdx}, bcastR s t = some r → InRange idx r →
    InRange (bidxR s idx) s ∧ InRange (bidxR t idx) t
  | [], [], r, idx, h, hi => by
    simp [bcastR] at h; subst h
    cases idx <;> simp [InRange, bidxR] at hi ⊢
  | [], b :: bs, r, idx, h, hi => by
    simp [bcastR] at h; subst h
    refine ⟨by simp [bidxR, InRange], ?_⟩
    induction bs generalizing b idx with
    | nil =>
      match idx, hi with
      | [i], hi => simp only [InRange, and_true] at hi; by_cases hb : b = 1 <;> simp [bidxR, InRange, hb, hi]
      | [], hi => simp [InRange] at hi
      | _ :: _ :: _, hi => simp [InRange] at hi
    | cons c cs ih =>
      match idx, hi with
      | i :: is, hi =>
        have := ih (b := c) (idx := is) hi.2
        refine ⟨?_, this⟩
        by_cases hb : b = 1
        · simp [hb]
        · simp [hb, hi.1]
      | [], hi => simp [InRange] at hi
  | a :: as, [], r, idx, h, hi => by
    simp [bcastR] at h; subst h
    refine ⟨?_, by simp [bidxR, InRange]⟩
    induction as generalizing a idx with
    | nil =>
      match idx, hi with
      | [i], hi => simp only [InRange, and_true] at hi; by_cases hb : a = 1 <;> simp [bidxR, InRange, hb, hi]
      | [], hi => simp [InRange] at hi
      | _ :: _ :: _, hi => simp [InRange] at hi
    | cons c cs ih =>
      match idx, hi with
      | i :: is, hi =>
        have := ih (a := c) (idx := is) hi.2
        refine ⟨?_, this⟩
        by_cases hb : a = 1
        · simp [hb]
        · simp [hb, hi.1]
      | [], hi => simp [InRange] at hi
  | a :: as, b :: bs, r, idx, h, hi => by
    obtain ⟨d, r', hd, hr, rfl⟩ := bcastR_cons h
    match idx, hi with
    | i :: is, hi =>
      have ih := bidxR_inRange hr hi.2
      have hl := bdim_lt hd hi.1
      exact ⟨⟨hl.1, ih.1⟩, ⟨hl.2, ih.2⟩⟩
    | [], hi => simp [InRange] at hi

/-- an operand that already has the broadcast shape is read at the index itself -/
theorem bidxR_self : ∀ {s : RShape} {idx : RIdx}, InRange idx s → bidxR s idx = idx
  | [], [], _ => rfl
  | d :: ds, i :: is, h => by
    simp only [bidxR, bidxR_self h.2]
    by_cases hd : d = 1
    · have := h.1; simp [hd]; omega
    · simp [hd]
  | [], _ :: _, h => by simp [InRange] at h
  | _ :: _, [], h => by simp [InRange] at h

theorem bcastR3_self (s : RShape) : bcastR3 s s s = some s := by
  simp [bcastR3, bcastR_self]

/-- three-way broadcast: all three source indices are in range -/
theorem bidxR_inRange3 {a b c r : RShape} {idx : RIdx} (h : bcastR3 a b c = some r) (hi : InRange idx r) :
    InRange (bidxR c idx) c := by
  unfold bcastR3 at h
  cases hab : bcastR a b with
  | none => simp [hab] at h
  | some ab =>
    simp [hab] at h
    exact (bidxR_inRange h hi).2

/-! ### flat / unflat on structured shapes -/

theorem unflat_append : ∀ (s1 : RShape) {s2 : RShape} {idx : RIdx} (j : Nat), j < numel s1 → InRange idx s2 →
    unflat (s1 ++ s2) (j + numel s1 * flat s2 idx) = unflat s1 j ++ idx
  | [], s2, idx, j, hj, hi => by
    simp [numel] at hj; subst hj
    simp [numel, unflat, unflat_flat hi]
  | d :: ds, s2, idx, j, hj, hi => by
    simp only [numel] at hj
    have hd : 0 < d := by
      rcases Nat.eq_zero_or_pos d with h0 | h0
      · subst h0; simp at hj
      · exact h0
    have hq : j / d < numel ds := (Nat.div_lt_iff_lt_mul hd).mpr (by rw [Nat.mul_comm]; exact hj)
    simp only [List.cons_append, unflat, numel]
    have e1 : (j + d * numel ds * flat s2 idx) % d = j % d := by
      rw [Nat.mul_assoc, Nat.add_mul_mod_self_left]
    have e2 : (j + d * numel ds * flat s2 idx) / d = j / d + numel ds * flat s2 idx := by
      rw [Nat.mul_assoc, Nat.add_mul_div_left _ _ hd]
    rw [e1, e2, unflat_append ds (j / d) hq hi]

theorem flat_one_cons (s : RShape) (idx : RIdx) : flat (1 :: s) (0 :: idx) = flat s idx := by
  simp [flat]

theorem unflat_one_cons (s : RShape) (k : Nat) : unflat (1 :: s) k = 0 :: unflat s k := by
  simp [unflat, Nat.mod_one]

theorem insertAt_zero (x : Nat) (l : List Nat) : T.insertAt 0 x l = x :: l := by simp [T.insertAt]

theorem insertAt_one (x a : Nat) (l : List Nat) : T.insertAt 1 x (a :: l) = a :: x :: l := by simp [T.insertAt]

end Bcast

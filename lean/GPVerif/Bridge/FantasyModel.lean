/-
Bridge between the executable `DMat` model of `Model/Fantasy.lean` and the abstract block-matrix lemmas of
`Bridge/Fantasy.lean`: `toMatrix` of every model function, unpacking of the `Option`-valued steps, and the
induction over chains of fantasy steps.
-/
import GPVerif.Model.Fantasy
import GPVerif.Bridge.Fantasy

open Matrix Fantasy FantasyBridge

set_option linter.unusedSectionVars false
set_option linter.unusedSimpArgs false

namespace Fantasy

variable {α : Type} [Field α] [DecidableEq α] {n f t p q m : Nat}

local notation "e" => (finSumFinEquiv.symm : Fin (_ + _) ≃ Fin _ ⊕ Fin _)

/-! ### `toMatrix` of the model functions -/

@[simp] theorem toMatrix_fantSolve (Kinv : DMat n n α) (U : DMat f n α) :
    (fantSolve Kinv U).toMatrix = Kinv.toMatrix * U.toMatrixᵀ := by simp [fantSolve]

@[simp] theorem toMatrix_schur (S : DMat f f α) (U : DMat f n α) (Q : DMat n f α) :
    (schur S U Q).toMatrix = S.toMatrix - U.toMatrix * Q.toMatrix := by simp [schur]

@[simp] theorem toMatrix_cacheLower (Sinv : DMat f f α) (rf : DMat f 1 α) (U : DMat f n α) (al : DMat n 1 α) :
    (cacheLower Sinv rf U al).toMatrix = Sinv.toMatrix * (rf.toMatrix - U.toMatrix * al.toMatrix) := by
  simp [cacheLower]

@[simp] theorem toMatrix_cacheUpper (al : DMat n 1 α) (Q : DMat n f α) (b : DMat f 1 α) :
    (cacheUpper al Q b).toMatrix = al.toMatrix - Q.toMatrix * b.toMatrix := by simp [cacheUpper]

@[simp] theorem toMatrix_border (A : DMat n n α) (U : DMat f n α) (S : DMat f f α) :
    (border A U S).toMatrix =
      (fromBlocks A.toMatrix U.toMatrixᵀ U.toMatrix S.toMatrix).submatrix
        finSumFinEquiv.symm finSumFinEquiv.symm := by simp [border]

@[simp] theorem toMatrix_invUpdate (Kinv : DMat n n α) (Q : DMat n f α) (Sinv : DMat f f α) :
    (invUpdate Kinv Q Sinv).toMatrix =
      (invBlock Kinv.toMatrix Q.toMatrix Sinv.toMatrix).submatrix finSumFinEquiv.symm finSumFinEquiv.symm := by
  simp [invUpdate, invBlock]

@[simp] theorem toMatrix_rootUpdate (L R : DMat n p α) (U : DMat f n α) (G : DMat f q α) :
    (rootUpdate L R U G).toMatrix =
      (rootBlock L.toMatrix R.toMatrix U.toMatrix G.toMatrix).submatrix
        finSumFinEquiv.symm finSumFinEquiv.symm := by
  simp [rootUpdate, rootBlock]

@[simp] theorem toMatrix_invRootUpdate (R : DMat n p α) (U : DMat f n α) (Ginv : DMat q f α) :
    (invRootUpdate R U Ginv).toMatrix =
      (invRootBlock R.toMatrix U.toMatrix Ginv.toMatrix).submatrix
        finSumFinEquiv.symm finSumFinEquiv.symm := by
  simp [invRootUpdate, invRootBlock]

theorem FState.ext_toMatrix {a b : FState n α} (h1 : a.Kinv.toMatrix = b.Kinv.toMatrix)
    (h2 : a.mean.toMatrix = b.mean.toMatrix) : a = b := by
  cases a; cases b
  simp only [FState.mk.injEq]
  exact ⟨DMat.toMatrix_injective h1, DMat.toMatrix_injective h2⟩

/-! ### Unpacking the `Option`s -/

theorem step?_some {st : FState n α} {U : DMat f n α} {S : DMat f f α} {rf : DMat f 1 α}
    {st' : FState (n + f) α} (h : step? st U S rf = some st') :
    ∃ Sinv : DMat f f α,
      (S.toMatrix - U.toMatrix * (st.Kinv.toMatrix * U.toMatrixᵀ)) * Sinv.toMatrix = 1 ∧
      st' = { Kinv := invUpdate st.Kinv (fantSolve st.Kinv U) Sinv,
              mean := vcat (cacheUpper st.mean (fantSolve st.Kinv U) (cacheLower Sinv rf U st.mean))
                        (cacheLower Sinv rf U st.mean) } := by
  unfold step? at h
  simp only at h
  split at h
  · exact absurd h (by simp)
  · rename_i Sinv hS
    refine ⟨Sinv, ?_, ?_⟩
    · have := DMat.inv?_mul hS
      simpa using this
    · exact (Option.some.inj h).symm

theorem init?_some {A : DMat n n α} {r : DMat n 1 α} {st : FState n α} (h : init? A r = some st) :
    ∃ Ai : DMat n n α, A.inv? = some Ai ∧ st = { Kinv := Ai, mean := Ai.mul r } := by
  unfold init? at h
  split at h
  · exact absurd h (by simp)
  · rename_i Ai hA
    exact ⟨Ai, hA, (Option.some.inj h).symm⟩

theorem init?_isUnit {A : DMat n n α} {r : DMat n 1 α} {st : FState n α} (h : init? A r = some st) :
    IsUnit A.toMatrix.det := by
  obtain ⟨Ai, hA, _⟩ := init?_some h
  exact DMat.inv?_isUnit hA

theorem init?_spec {A : DMat n n α} {r : DMat n 1 α} {st : FState n α} (h : init? A r = some st) :
    st.Kinv.toMatrix = A.toMatrix⁻¹ ∧ st.mean.toMatrix = A.toMatrix⁻¹ * r.toMatrix := by
  obtain ⟨Ai, hA, rfl⟩ := init?_some h
  have := DMat.inv?_correct hA
  exact ⟨this, by simp [this]⟩

/-! ### One step -/

theorem step?_spec
    (A : DMat n n α) (r : DMat n 1 α) (st : FState n α) (U : DMat f n α) (S : DMat f f α) (rf : DMat f 1 α)
    {st' : FState (n + f) α}
    (hA : A.toMatrixᵀ = A.toMatrix)
    (hK : A.toMatrix * st.Kinv.toMatrix = 1) (hal : A.toMatrix * st.mean.toMatrix = r.toMatrix)
    (h : step? st U S rf = some st') :
    IsUnit (border A U S).toMatrix.det ∧
    st'.mean.toMatrix = (border A U S).toMatrix⁻¹ * (vcat r rf).toMatrix ∧
    st'.Kinv.toMatrix = (border A U S).toMatrix⁻¹ := by
  obtain ⟨Sinv, hS, rfl⟩ := step?_some h
  have hKi : st.Kinv.toMatrix = A.toMatrix⁻¹ := (Matrix.inv_eq_right_inv hK).symm
  have hKs : st.Kinv.toMatrixᵀ = st.Kinv.toMatrix := by
    rw [hKi, Matrix.transpose_nonsing_inv, hA]
  refine ⟨?_, ?_, ?_⟩
  · rw [toMatrix_border, Matrix.det_submatrix_equiv_self]
    exact bordered_isUnit_det _ _ _ _ _ hK hKs hS
  · simp only [toMatrix_border, toMatrix_vcat, toMatrix_cacheUpper, toMatrix_cacheLower, toMatrix_fantSolve,
      inv_submatrix_equiv, submatrix_mul_equiv]
    rw [bordered_solve_eq_inv_mul _ _ _ _ _ _ _ _ hK hKs hS hal]
  · simp only [toMatrix_border, toMatrix_invUpdate, toMatrix_fantSolve, inv_submatrix_equiv]
    rw [bordered_inv _ _ _ _ _ hK hKs hS]

/-! ### Chains -/

/-- All diagonal blocks of the chain are symmetric (they are covariance + noise matrices). -/
def Steps.Symm : {n : Nat} → Steps α n → Prop
  | _, .base A _ => A.toMatrixᵀ = A.toMatrix
  | _, .step c _ S _ => c.Symm ∧ S.toMatrixᵀ = S.toMatrix

theorem border_symm (A : DMat n n α) (U : DMat f n α) (S : DMat f f α)
    (hA : A.toMatrixᵀ = A.toMatrix) (hS : S.toMatrixᵀ = S.toMatrix) :
    (border A U S).toMatrixᵀ = (border A U S).toMatrix := by
  rw [toMatrix_border, transpose_submatrix, fromBlocks_transpose, hA, hS, transpose_transpose]

theorem Steps.assemble_symm : {n : Nat} → (c : Steps α n) → c.Symm →
    c.assemble.1.toMatrixᵀ = c.assemble.1.toMatrix
  | _, .base A _, h => h
  | _, .step c U S _, h => border_symm _ U S (Steps.assemble_symm c h.1) h.2

theorem fold?_spec : {n : Nat} → (c : Steps α n) → c.Symm → {st : FState n α} → c.fold? = some st →
    IsUnit c.assemble.1.toMatrix.det ∧
    st.Kinv.toMatrix = c.assemble.1.toMatrix⁻¹ ∧
    st.mean.toMatrix = c.assemble.1.toMatrix⁻¹ * c.assemble.2.toMatrix
  | _, .base A r, _, st, h => by
    have h' : init? A r = some st := h
    exact ⟨init?_isUnit h', (init?_spec h').1, (init?_spec h').2⟩
  | _, .step c U S rf, hsym, st, h => by
    simp only [Steps.fold?] at h
    split at h
    · exact absurd h (by simp)
    · rename_i st0 h0
      obtain ⟨hu, hK, hal⟩ := fold?_spec c hsym.1 h0
      have hAK : c.assemble.1.toMatrix * st0.Kinv.toMatrix = 1 := by
        rw [hK]; exact Matrix.mul_nonsing_inv _ hu
      have hAal : c.assemble.1.toMatrix * st0.mean.toMatrix = c.assemble.2.toMatrix := by
        rw [hal, ← Matrix.mul_assoc, Matrix.mul_nonsing_inv _ hu, Matrix.one_mul]
      obtain ⟨g0, g1, g2⟩ :=
        step?_spec c.assemble.1 c.assemble.2 st0 U S rf (Steps.assemble_symm c hsym.1) hAK hAal h
      exact ⟨g0, g2, g1⟩

/-! ### Roots -/

theorem invRootUpdate_spec
    (A : DMat n n α) (R : DMat n p α) (U : DMat f n α) (S : DMat f f α) (G Ginv : DMat f f α)
    (hA : IsUnit A.toMatrix.det) (hR : R.toMatrix * R.toMatrixᵀ = A.toMatrix⁻¹)
    (hG : G.toMatrix * G.toMatrixᵀ = S.toMatrix - (U.toMatrix * R.toMatrix) * (U.toMatrix * R.toMatrix)ᵀ)
    (hGi : G.toMatrix * Ginv.toMatrix = 1) :
    (invRootUpdate R U Ginv).toMatrix * (invRootUpdate R U Ginv).toMatrixᵀ = (border A U S).toMatrix⁻¹ := by
  have hAK : A.toMatrix * A.toMatrix⁻¹ = 1 := Matrix.mul_nonsing_inv _ hA
  have hGi' : Ginv.toMatrix * G.toMatrix = 1 := mul_eq_one_comm.mp hGi
  -- the Schur complement in the `Kinv` form and its inverse `Ginvᵀ Ginv`
  have hFF : (U.toMatrix * R.toMatrix) * (U.toMatrix * R.toMatrix)ᵀ =
      U.toMatrix * (A.toMatrix⁻¹ * U.toMatrixᵀ) := by
    rw [transpose_mul, ← hR]; simp only [Matrix.mul_assoc]
  have hS : (S.toMatrix - U.toMatrix * (A.toMatrix⁻¹ * U.toMatrixᵀ)) * (Ginv.toMatrixᵀ * Ginv.toMatrix) = 1 := by
    rw [← hFF, ← hG, Matrix.mul_assoc, ← Matrix.mul_assoc G.toMatrixᵀ, ← transpose_mul, hGi', transpose_one,
      Matrix.one_mul, hGi]
  rw [toMatrix_invRootUpdate, toMatrix_border, transpose_submatrix, submatrix_mul_equiv, inv_submatrix_equiv,
    invRootBlock_is_inv_root A.toMatrix A.toMatrix⁻¹ R.toMatrix U.toMatrix S.toMatrix
      (Ginv.toMatrixᵀ * Ginv.toMatrix) Ginv.toMatrix hAK hR hS rfl]

theorem invRootUpdate_eq_inv_transpose
    (L R : DMat n n α) (U : DMat f n α) (G Ginv : DMat f f α)
    (hLR : L.toMatrix * R.toMatrixᵀ = 1) (hGi : G.toMatrix * Ginv.toMatrix = 1) :
    (invRootUpdate R U Ginv).toMatrix = ((rootUpdate L R U G).toMatrix⁻¹)ᵀ := by
  have hRL : R.toMatrixᵀ * L.toMatrix = 1 := mul_eq_one_comm.mp hLR
  have hGi' : Ginv.toMatrix * G.toMatrix = 1 := mul_eq_one_comm.mp hGi
  have h := invRootBlock_transpose_mul_rootBlock L.toMatrix R.toMatrix U.toMatrix G.toMatrix Ginv.toMatrix
    hRL hGi'
  have h2 : (invRootUpdate R U Ginv).toMatrixᵀ * (rootUpdate L R U G).toMatrix = 1 := by
    rw [toMatrix_invRootUpdate, toMatrix_rootUpdate, transpose_submatrix, submatrix_mul_equiv, h,
      submatrix_one_equiv]
  rw [Matrix.inv_eq_left_inv h2, transpose_transpose]

/-! ### WISKI -/

theorem wiski_update_spec
    (W : DMat m n α) (Wf : DMat m f α) (Dinv : DMat n n α) (Dfinv : DMat f f α) (r : DMat n 1 α) (rf : DMat f 1 α) :
    (wiskiInnerUpdate (interpInnerProd W Dinv) Wf Dfinv).toMatrix =
        (interpInnerProd (hcat W Wf) (blocks Dinv DMat.zero DMat.zero Dfinv)).toMatrix ∧
    (wiskiResponseUpdate (interpResponse W Dinv r) Wf Dfinv rf).toMatrix =
        (interpResponse (hcat W Wf) (blocks Dinv DMat.zero DMat.zero Dfinv) (vcat r rf)).toMatrix := by
  constructor
  · simp only [wiskiInnerUpdate, interpInnerProd, DMat.toMatrix_add, DMat.toMatrix_mul, DMat.toMatrix_transpose,
      toMatrix_hcat, toMatrix_blocks, DMat.toMatrix_zero, transpose_submatrix, submatrix_mul_equiv,
      transpose_fromCols, fromCols_mul_fromBlocks, fromCols_mul_fromRows, Matrix.mul_zero, add_zero, zero_add,
      submatrix_id_id]
  · simp only [wiskiResponseUpdate, interpResponse, DMat.toMatrix_add, DMat.toMatrix_mul,
      toMatrix_hcat, toMatrix_blocks, toMatrix_vcat, DMat.toMatrix_zero, submatrix_mul_equiv,
      fromBlocks_mul_fromRows, fromCols_mul_fromRows, Matrix.zero_mul, add_zero, zero_add, submatrix_id_id]

theorem wiski_mean_spec
    (K P : DMat m m α) (L : DMat m p α) (Bi : DMat p p α) (c : DMat m 1 α)
    (hL : L.toMatrix * L.toMatrixᵀ = P.toMatrix)
    (hB : (1 + L.toMatrixᵀ * K.toMatrix * L.toMatrix) * Bi.toMatrix = 1) :
    (1 + K.toMatrix * P.toMatrix) * (wiskiMeanCache K L Bi c).toMatrix = K.toMatrix * c.toMatrix := by
  simp only [wiskiMeanCache, DMat.toMatrix_sub, DMat.toMatrix_mul, DMat.toMatrix_transpose]
  set Km := K.toMatrix
  set Lm := L.toMatrix
  set Bm := Bi.toMatrix
  set v := Km * c.toMatrix
  -- (1 + K L Lᵀ)(v − K L Bi Lᵀ v) = v + K L (1 − (1 + LᵀKL) Bi) Lᵀ v
  have key : (1 + Km * (Lm * Lmᵀ)) * (v - Km * Lm * (Bm * (Lmᵀ * v))) =
      v + Km * Lm * ((1 - (1 + Lmᵀ * Km * Lm) * Bm) * (Lmᵀ * v)) := by
    simp only [Matrix.add_mul, Matrix.mul_add, Matrix.mul_sub, Matrix.sub_mul, Matrix.one_mul, Matrix.mul_one,
      Matrix.mul_assoc]
    abel
  rw [← hL, key, hB, sub_self, Matrix.zero_mul, Matrix.mul_zero, add_zero]

theorem wiski_mean_conditional
    (K : DMat m m α) (W : DMat m n α) (D Dinv : DMat n n α) (r : DMat n 1 α) (L : DMat m p α) (Bi : DMat p p α)
    (hD : D.toMatrix * Dinv.toMatrix = 1)
    (hA : IsUnit (W.toMatrixᵀ * K.toMatrix * W.toMatrix + D.toMatrix).det)
    (hL : L.toMatrix * L.toMatrixᵀ = (interpInnerProd W Dinv).toMatrix)
    (hB : (1 + L.toMatrixᵀ * K.toMatrix * L.toMatrix) * Bi.toMatrix = 1) :
    (wiskiMeanCache K L Bi (interpResponse W Dinv r)).toMatrix =
      K.toMatrix * W.toMatrix * ((W.toMatrixᵀ * K.toMatrix * W.toMatrix + D.toMatrix)⁻¹ * r.toMatrix) := by
  have h := wiski_mean_spec K (interpInnerProd W Dinv) L Bi (interpResponse W Dinv r) hL hB
  apply wiski_mean_eq_conditional K.toMatrix W.toMatrix D.toMatrix Dinv.toMatrix r.toMatrix _ hD hA
  simpa [interpInnerProd, interpResponse] using h

end Fantasy

/-
`ℝ` instance of the L3 scalar record and the unfolding lemmas that turn the polymorphic model definitions
(`Scalar.sum`, `Scalar.npow`, `Scalar.sqDist`, …) into Mathlib expressions.  Helper lemmas for
`Props/C05.lean` and `Props/C19.lean`.
-/
import Mathlib.Analysis.SpecialFunctions.Pow.Real
import Mathlib.Analysis.SpecialFunctions.Trigonometric.Basic
import Mathlib.Analysis.SpecialFunctions.Sqrt
import Mathlib.Tactic.Ring
import Mathlib.Tactic.FieldSimp
import Mathlib.Tactic.Linarith
import Mathlib.Tactic.Positivity
import GPVerif.Model.Scalar

noncomputable instance instScalarReal : Scalar ℝ where
  ofRat q := (q : ℝ)
  exp := Real.exp
  sqrt := Real.sqrt
  sin := Real.sin
  cos := Real.cos
  rpow x y := x ^ y
  max := max
  pi := Real.pi

namespace Scalar

@[simp] theorem ofRat_real (q : Rat) : (Scalar.ofRat q : ℝ) = (q : ℝ) := rfl
@[simp] theorem lit_real (q : Rat) : (Scalar.lit q : ℝ) = (q : ℝ) := rfl
@[simp] theorem exp_real (x : ℝ) : Scalar.exp x = Real.exp x := rfl
@[simp] theorem sqrt_real (x : ℝ) : Scalar.sqrt x = Real.sqrt x := rfl
@[simp] theorem sin_real (x : ℝ) : Scalar.sin x = Real.sin x := rfl
@[simp] theorem cos_real (x : ℝ) : Scalar.cos x = Real.cos x := rfl
@[simp] theorem rpow_real (x y : ℝ) : Scalar.rpow x y = x ^ y := rfl
@[simp] theorem max_real (x y : ℝ) : Scalar.max x y = Max.max x y := rfl
@[simp] theorem pi_real : (Scalar.pi : ℝ) = Real.pi := rfl

@[simp] theorem npow_real (x : ℝ) (n : ℕ) : Scalar.npow x n = x ^ n := by
  induction n with
  | zero => simp [Scalar.npow]
  | succ n ih => simp [Scalar.npow, ih, pow_succ, mul_comm]

@[simp] theorem sq_real (x : ℝ) : Scalar.sq x = x ^ 2 := by simp [Scalar.sq, pow_two]

@[simp] theorem sum_nil_real : Scalar.sum ([] : List ℝ) = 0 := by simp [Scalar.sum]
@[simp] theorem sum_cons_real (x : ℝ) (xs : List ℝ) : Scalar.sum (x :: xs) = x + Scalar.sum xs := rfl
@[simp] theorem prod_nil_real : Scalar.prod ([] : List ℝ) = 1 := by simp [Scalar.prod]
@[simp] theorem prod_cons_real (x : ℝ) (xs : List ℝ) : Scalar.prod (x :: xs) = x * Scalar.prod xs := rfl

theorem sum_eq_list_sum (l : List ℝ) : Scalar.sum l = l.sum := by
  induction l with
  | nil => simp
  | cons x xs ih => simp [ih]

theorem sum_append_real (l₁ l₂ : List ℝ) : Scalar.sum (l₁ ++ l₂) = Scalar.sum l₁ + Scalar.sum l₂ := by
  induction l₁ with
  | nil => simp
  | cons x xs ih => simp [ih, add_assoc]

theorem sum_nonneg_real {l : List ℝ} (h : ∀ x ∈ l, 0 ≤ x) : 0 ≤ Scalar.sum l := by
  induction l with
  | nil => simp
  | cons x xs ih =>
    simp only [sum_cons_real]
    have := h x (by simp)
    have := ih (fun y hy => h y (by simp [hy]))
    linarith

@[simp] theorem zip_nil_left (f : ℝ → ℝ → ℝ) (b : List ℝ) : Scalar.zip f [] b = [] := by
  cases b <;> rfl
@[simp] theorem zip_nil_right (f : ℝ → ℝ → ℝ) (a : List ℝ) : Scalar.zip f a [] = [] := by
  cases a <;> rfl
@[simp] theorem zip_cons (f : ℝ → ℝ → ℝ) (x y : ℝ) (a b : List ℝ) :
    Scalar.zip f (x :: a) (y :: b) = f x y :: Scalar.zip f a b := rfl

theorem sqDist_nil_left (b : List ℝ) : Scalar.sqDist ([] : List ℝ) b = 0 := by
  simp [Scalar.sqDist, Scalar.rowSub]
theorem sqDist_nil_right (a : List ℝ) : Scalar.sqDist a ([] : List ℝ) = 0 := by
  simp [Scalar.sqDist, Scalar.rowSub]
theorem sqDist_cons (x y : ℝ) (a b : List ℝ) :
    Scalar.sqDist (x :: a) (y :: b) = (x - y) ^ 2 + Scalar.sqDist a b := by
  simp [Scalar.sqDist, Scalar.rowSub]

theorem sqDist_nonneg (a b : List ℝ) : 0 ≤ Scalar.sqDist a b := by
  induction a generalizing b with
  | nil => simp [sqDist_nil_left]
  | cons x a ih =>
    cases b with
    | nil => simp [sqDist_nil_right]
    | cons y b => rw [sqDist_cons]; have := ih b; positivity

/-- squared distance is homogeneous of degree 2 (also for `l = 0`, where both sides are `0`) -/
theorem sqDist_rowDivS (a b : List ℝ) (l : ℝ) :
    Scalar.sqDist (Scalar.rowDivS a l) (Scalar.rowDivS b l) = Scalar.sqDist a b / l ^ 2 := by
  induction a generalizing b with
  | nil => simp [Scalar.rowDivS, sqDist_nil_left]
  | cons x a ih =>
    cases b with
    | nil => simp [Scalar.rowDivS, sqDist_nil_right]
    | cons y b =>
      have := ih b
      simp only [Scalar.rowDivS, List.map_cons] at this ⊢
      rw [sqDist_cons, sqDist_cons, this]
      by_cases hl : l = 0
      · subst hl; simp
      · field_simp

/-- Euclidean distance is homogeneous of degree 1 in `1/|l|` -/
theorem dist_rowDivS (a b : List ℝ) (l : ℝ) :
    Scalar.dist (Scalar.rowDivS a l) (Scalar.rowDivS b l) = Scalar.dist a b / |l| := by
  simp only [Scalar.dist, sqrt_real, sqDist_rowDivS]
  rw [Real.sqrt_div (sqDist_nonneg a b), Real.sqrt_sq_eq_abs]

theorem dist_nonneg (a b : List ℝ) : 0 ≤ Scalar.dist a b := by
  simp [Scalar.dist, Real.sqrt_nonneg]

end Scalar

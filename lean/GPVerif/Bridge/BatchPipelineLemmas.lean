/-
Helper lemmas for `Props/C08Compose.lean` (core Lean): "broadcasts into", composition of broadcast index maps,
canonical event tensors, and the passage from an entry-level description of a batched operation (`Spec1` / `Spec2`,
the form of the `…_elementwise` theorems of `Props/C08.lean`) to `BOp.PerElement`.
-/
import GPVerif.Model.BatchPipeline
import GPVerif.Bridge.BcastLemmas

namespace Pipeline
open Bcast Choreo

variable {α : Type}

/-! ### `s` broadcasts into `r` -/

/-- every dimension of `s` is the matching dimension of `r` or `1`, and `s` has no more dimensions than `r` -/
def Into : RShape → RShape → Prop
  | [], _ => True
  | _ :: _, [] => False
  | a :: as, b :: bs => (a = b ∨ a = 1) ∧ Into as bs

theorem into_refl : ∀ s : RShape, Into s s
  | [] => trivial
  | _ :: as => ⟨Or.inl rfl, into_refl as⟩

theorem into_nil_right : ∀ {s : RShape}, Into s [] → s = []
  | [], _ => rfl
  | _ :: _, h => by simp [Into] at h

theorem into_trans : ∀ {s m r : RShape}, Into s m → Into m r → Into s r
  | [], _, _, _, _ => trivial
  | a :: as, [], _, h, _ => by simp [Into] at h
  | a :: as, b :: bs, [], _, h => by simp [Into] at h
  | a :: as, b :: bs, c :: cs, h1, h2 => by
    refine ⟨?_, into_trans h1.2 h2.2⟩
    rcases h1.1 with h | h
    · rcases h2.1 with h' | h'
      · exact Or.inl (h.trans h')
      · exact Or.inr (h.trans h')
    · exact Or.inr h

theorem bdim_into {a b d : Nat} (h : bdim a b = some d) : (a = d ∨ a = 1) ∧ (b = d ∨ b = 1) := by
  unfold bdim at h
  split at h
  · simp at h; omega
  · split at h
    · simp at h; omega
    · split at h
      · simp at h; omega
      · simp at h

theorem into_of_bcast : ∀ {s t m : RShape}, bcastR s t = some m → Into s m ∧ Into t m
  | [], t, m, h => by
    simp [bcastR] at h; subst h; exact ⟨trivial, into_refl _⟩
  | a :: as, [], m, h => by
    simp [bcastR] at h; subst h; exact ⟨into_refl _, trivial⟩
  | a :: as, b :: bs, m, h => by
    simp only [bcastR] at h
    cases hd : bdim a b with
    | none => simp [hd] at h
    | some d =>
      cases hr : bcastR as bs with
      | none => simp [hd, hr] at h
      | some r =>
        simp [hd, hr] at h
        subst h
        have := into_of_bcast hr
        have hb := bdim_into hd
        exact ⟨⟨hb.1, this.1⟩, ⟨hb.2, this.2⟩⟩

theorem bidxR_into_inRange : ∀ {s r : RShape} {idx : RIdx}, Into s r → InRange idx r → InRange (bidxR s idx) s
  | [], _, _, _, _ => by simp [bidxR, InRange]
  | a :: as, [], _, h, _ => by simp [Into] at h
  | a :: as, b :: bs, [], _, hi => by simp [InRange] at hi
  | a :: as, b :: bs, i :: is, h, hi => by
    simp only [bidxR, InRange]
    refine ⟨?_, bidxR_into_inRange h.2 hi.2⟩
    have := hi.1
    rcases h.1 with h' | h'
    · by_cases ha : a = 1
      · simp [ha]
      · simp [ha]; omega
    · simp [h']

/-- reading a source through an intermediate broadcast is reading it directly -/
theorem bidxR_bidxR : ∀ {s m r : RShape} {idx : RIdx}, Into s m → Into m r → InRange idx r →
    bidxR s (bidxR m idx) = bidxR s idx
  | [], _, _, _, _, _, _ => by simp [bidxR]
  | a :: as, [], _, _, h, _, _ => by simp [Into] at h
  | a :: as, b :: bs, [], _, _, h, _ => by simp [Into] at h
  | a :: as, b :: bs, c :: cs, [], _, _, hi => by simp [InRange] at hi
  | a :: as, b :: bs, c :: cs, i :: is, h1, h2, hi => by
    simp only [bidxR]
    rw [bidxR_bidxR h1.2 h2.2 hi.2]
    congr 1
    by_cases ha : a = 1
    · simp [ha]
    · have hab : a = b := by rcases h1.1 with h | h; exact h; exact absurd h ha
      have hb : ¬ b = 1 := by rw [← hab]; exact ha
      simp [ha, hb]

/-! ### canonical event tensors -/

variable [Inhabited α]

theorem canon_ext {s : RShape} {f g : RIdx → α} (h : ∀ e, InRange e s → f e = g e) : canon s f = canon s g := by
  unfold canon
  congr 1
  funext e
  by_cases he : InRange e s
  · simp [he, h e he]
  · simp [he]

theorem canon_shape (s : RShape) (f : RIdx → α) : (canon s f).shape = s := rfl

theorem canon_get {s : RShape} {f : RIdx → α} {e : RIdx} (he : InRange e s) : (canon s f).get e = f e := by
  simp [canon, he]

theorem elem_shape (k : Nat) (t : T α) (b : RIdx) : (elem k t b).shape = t.shape.take k := rfl

theorem elem_shape_of {k : Nat} {t : T α} {ev bs : RShape} (b : RIdx) (hk : ev.length = k) (hs : t.shape = ev ++ bs) :
    (elem k t b).shape = ev := by
  rw [elem_shape, hs, ← hk, List.take_left]

theorem elem_get_of {k : Nat} {t : T α} {ev bs : RShape} {b e : RIdx} (hk : ev.length = k) (hs : t.shape = ev ++ bs)
    (he : InRange e ev) : (elem k t b).get e = t.get (e ++ b) := by
  have : t.shape.take k = ev := by rw [hs, ← hk, List.take_left]
  simp [elem, canon, this, he]

theorem elem_eq_canon {k : Nat} {t : T α} {ev bs : RShape} (b : RIdx) (hk : ev.length = k) (hs : t.shape = ev ++ bs) :
    elem k t b = canon ev fun e => t.get (e ++ b) := by
  have : t.shape.take k = ev := by rw [hs, ← hk, List.take_left]
  simp [elem, this]

theorem canonOpt_some (t : T α) : canonOpt (some t) = canon t.shape t.get := rfl

/-! ### from entry-level descriptions to `PerElement` -/

/-- entry-level description of a binary batched operation: entry `e ++ idx` of the result is the function `G` of the
entries of the operands' batch elements `bidxR ba idx` / `bidxR bb idx` (the form of the `…_elementwise` theorems) -/
structure Spec2 (α : Type) where
  ka : Nat
  kb : Nat
  evOut : RShape → RShape → RShape
  pre : RShape → RShape → Prop
  run : T α → T α → Option (T α)
  G : RShape → RShape → RIdx → (RIdx → α) → (RIdx → α) → α

def Spec2.toOp (S : Spec2 α) : BOp2 α := choreo2 S.ka S.kb S.evOut S.pre S.run

structure Spec2.Holds (S : Spec2 α) : Prop where
  entries : ∀ (a b : T α) (ea eb ba bb bs : RShape), ea.length = S.ka → eb.length = S.kb →
    a.shape = ea ++ ba → b.shape = eb ++ bb → S.pre ea eb → bcastR ba bb = some bs →
    ∃ t, S.run a b = some t ∧ t.shape = S.evOut ea eb ++ bs ∧
      ∀ e idx, InRange e (S.evOut ea eb) → InRange idx bs →
        t.get (e ++ idx) = S.G ea eb e (fun e' => a.get (e' ++ bidxR ba idx)) (fun e' => b.get (e' ++ bidxR bb idx))
  congr : ∀ (ea eb : RShape) (e : RIdx) (u u' v v' : RIdx → α), ea.length = S.ka → eb.length = S.kb → S.pre ea eb →
    InRange e (S.evOut ea eb) → (∀ e', InRange e' ea → u e' = u' e') → (∀ e', InRange e' eb → v e' = v' e') →
    S.G ea eb e u v = S.G ea eb e u' v'

theorem Spec2.perElement (S : Spec2 α) (h : S.Holds) : S.toOp.PerElement := by
  intro a b ea eb ba bb bs hka hkb hsa hsb hpre hbc
  obtain ⟨t, hrun, hshape, hget⟩ := h.entries a b ea eb ba bb bs hka hkb hsa hsb hpre hbc
  refine ⟨t, hrun, hshape, fun idx hidx => ?_⟩
  have hA : (elem S.ka a (bidxR ba idx)).shape = ea ++ [] := by rw [List.append_nil]; exact elem_shape_of _ hka hsa
  have hB : (elem S.kb b (bidxR bb idx)).shape = eb ++ [] := by rw [List.append_nil]; exact elem_shape_of _ hkb hsb
  obtain ⟨t', hrun', hshape', hget'⟩ :=
    h.entries (elem S.ka a (bidxR ba idx)) (elem S.kb b (bidxR bb idx)) ea eb [] [] [] hka hkb hA hB hpre rfl
  show elem (S.evOut ea eb).length t idx = canonOpt (S.run (elem S.ka a (bidxR ba idx)) (elem S.kb b (bidxR bb idx)))
  rw [hrun', canonOpt_some, elem_eq_canon idx rfl hshape]
  have hs' : t'.shape = S.evOut ea eb := by simpa using hshape'
  rw [hs']
  apply canon_ext
  intro e he
  rw [hget e idx he hidx]
  have h2 := hget' e [] he trivial
  simp only [List.append_nil, bidxR] at h2
  rw [h2]
  apply h.congr ea eb e _ _ _ _ hka hkb hpre he
  · intro e' he'; exact (elem_get_of hka hsa he').symm
  · intro e' he'; exact (elem_get_of hkb hsb he').symm

structure Spec1 (α : Type) where
  k : Nat
  evOut : RShape → RShape
  pre : RShape → Prop
  run : T α → Option (T α)
  G : RShape → RIdx → (RIdx → α) → α

def Spec1.toOp (S : Spec1 α) : BOp1 α := choreo1 S.k S.evOut S.pre S.run

structure Spec1.Holds (S : Spec1 α) : Prop where
  entries : ∀ (a : T α) (ea ba : RShape), ea.length = S.k → a.shape = ea ++ ba → S.pre ea →
    ∃ t, S.run a = some t ∧ t.shape = S.evOut ea ++ ba ∧
      ∀ e idx, InRange e (S.evOut ea) → InRange idx ba → t.get (e ++ idx) = S.G ea e (fun e' => a.get (e' ++ idx))
  congr : ∀ (ea : RShape) (e : RIdx) (u u' : RIdx → α), ea.length = S.k → S.pre ea → InRange e (S.evOut ea) →
    (∀ e', InRange e' ea → u e' = u' e') → S.G ea e u = S.G ea e u'

theorem Spec1.perElement (S : Spec1 α) (h : S.Holds) : S.toOp.PerElement := by
  intro a ea ba hk hsa hpre
  obtain ⟨t, hrun, hshape, hget⟩ := h.entries a ea ba hk hsa hpre
  refine ⟨t, hrun, hshape, fun idx hidx => ?_⟩
  have hA : (elem S.k a idx).shape = ea ++ [] := by rw [List.append_nil]; exact elem_shape_of _ hk hsa
  obtain ⟨t', hrun', hshape', hget'⟩ := h.entries (elem S.k a idx) ea [] hk hA hpre
  show elem (S.evOut ea).length t idx = canonOpt (S.run (elem S.k a idx))
  rw [hrun', canonOpt_some, elem_eq_canon idx rfl hshape]
  have hs' : t'.shape = S.evOut ea := by simpa using hshape'
  rw [hs']
  apply canon_ext
  intro e he
  rw [hget e idx he hidx]
  have h2 := hget' e [] he trivial
  simp only [List.append_nil] at h2
  rw [h2]
  apply h.congr ea e _ _ hk hpre he
  intro e' he'; exact (elem_get_of hk hsa he').symm

/-- the replica evaluation depends on the batch index only through the slices of the leaves -/
theorem BExpr.evalAt_bidxR {e : BExpr α} {ev bs : RShape} (ht : e.HasType ev bs) :
    ∀ {r : RShape} {idx : RIdx}, Into bs r → InRange idx r → e.evalAt (bidxR bs idx) = e.evalAt idx := by
  induction ht with
  | @leaf t k ev bs hk hs =>
    intro r idx hin hidx
    have hd : t.shape.drop k = bs := by rw [hs, ← hk, List.drop_left]
    simp only [BExpr.evalAt, hd]
    rw [bidxR_bidxR (into_refl bs) hin hidx]
  | un hx hk hpre ih =>
    intro r idx hin hidx
    simp only [BExpr.evalAt, ih hin hidx]
  | @bin op x y ea eb ba bb bs hx hy hka hkb hpre hbc ihx ihy =>
    intro r idx hin hidx
    have hI := into_of_bcast hbc
    have hr : InRange (bidxR bs idx) bs := bidxR_into_inRange hin hidx
    simp only [BExpr.evalAt]
    have ex : x.evalAt (bidxR bs idx) = x.evalAt idx := by
      rw [← ihx hI.1 hr, bidxR_bidxR hI.1 hin hidx, ihx (into_trans hI.1 hin) hidx]
    have ey : y.evalAt (bidxR bs idx) = y.evalAt idx := by
      rw [← ihy hI.2 hr, bidxR_bidxR hI.2 hin hidx, ihy (into_trans hI.2 hin) hidx]
    rw [ex, ey]


/-! ### small index facts -/

theorem inRange_nil {e : RIdx} (h : InRange e []) : e = [] := by
  cases e with
  | nil => rfl
  | cons _ _ => simp [InRange] at h

theorem inRange_one {e : RIdx} {n : Nat} (h : InRange e [n]) : ∃ i, e = [i] ∧ i < n := by
  match e, h with
  | [i], h => exact ⟨i, rfl, h.1⟩
  | _ :: _ :: _, h => simp [InRange] at h

theorem inRange_two {e : RIdx} {m n : Nat} (h : InRange e [m, n]) : ∃ j i, e = [j, i] ∧ j < m ∧ i < n := by
  match e, h with
  | [j, i], h => exact ⟨j, i, rfl, h.1, h.2.1⟩
  | [_], h => simp [InRange] at h
  | _ :: _ :: _ :: _, h => simp [InRange] at h

theorem mem_allIdx_inRange {s : RShape} {x : RIdx} (h : x ∈ allIdx s) : InRange x s := by
  simp only [allIdx, List.mem_map, List.mem_range] at h
  obtain ⟨k, hk, rfl⟩ := h
  exact unflat_inRange s k hk

theorem length_two {l : RShape} (h : l.length = 2) : ∃ a b, l = [a, b] := by
  match l, h with
  | [a, b], _ => exact ⟨a, b, rfl⟩

theorem length_one {l : RShape} (h : l.length = 1) : ∃ a, l = [a] := by
  match l, h with
  | [a], _ => exact ⟨a, rfl⟩

theorem bcastR_length_eq : ∀ {s t r : RShape}, s.length = t.length → bcastR s t = some r → r.length = s.length
  | [], [], r, _, h => by simp [bcastR] at h; subst h; rfl
  | a :: as, b :: bs, r, hl, h => by
    obtain ⟨d, r', _, hr, rfl⟩ := bcastR_cons h
    simp [bcastR_length_eq (by simpa using hl) hr]

theorem bcastR_append : ∀ {ea eb eo ba bb bs : RShape}, ea.length = eb.length → bcastR ea eb = some eo →
    bcastR ba bb = some bs → bcastR (ea ++ ba) (eb ++ bb) = some (eo ++ bs)
  | [], [], eo, ba, bb, bs, _, h, hb => by simp [bcastR] at h; subst h; simpa using hb
  | a :: as, b :: bs', eo, ba, bb, bs, hl, h, hb => by
    obtain ⟨d, r', hd, hr, rfl⟩ := bcastR_cons h
    have := bcastR_append (by simpa using hl) hr hb
    simp [bcastR, hd, this]

theorem bidxR_append : ∀ {ea : RShape} {e : RIdx} (ba : RShape) (idx : RIdx), e.length = ea.length →
    bidxR (ea ++ ba) (e ++ idx) = bidxR ea e ++ bidxR ba idx
  | [], [], ba, idx, _ => by simp [bidxR]
  | a :: as, i :: is, ba, idx, h => by
    simp only [List.cons_append, bidxR]
    rw [bidxR_append ba idx (by simpa using h)]

theorem bcastR_of_into : ∀ {s r : RShape}, Into s r → bcastR s r = some r
  | [], r, _ => by simp [bcastR]
  | a :: as, [], h => by simp [Into] at h
  | a :: as, b :: bs, h => by
    have hd : bdim a b = some b := by
      rcases h.1 with h' | h'
      · subst h'; exact bdim_self a
      · subst h'; exact bdim_one_left b
    simp [bcastR, hd, bcastR_of_into h.2]

/-- shapes of the inputs of a batched exact GP: data with batch shape `db`, parameters with batch shape `pb`, targets with
the broadcast batch shape `bs` (innermost-first: `x : (*db, n, d)` is `[d, n] ++ db`) -/
structure GPShapes (I : GPInputs α) (d n m : Nat) (eℓ pb db bs : RShape) : Prop where
  x : I.x.shape = [d, n] ++ db
  xs : I.xs.shape = [d, m] ++ db
  y : I.y.shape = [n] ++ bs
  ℓ : I.ℓ.shape = eℓ ++ pb
  hℓ : eℓ = [d, 1] ∨ eℓ = [1, 1]
  os : I.os.shape = pb
  c : I.c.shape = pb
  σ : I.σ.shape = [1] ++ pb
  bc : bcastR pb db = some bs

/-! ### entry-level descriptions of the generated choreographies (their `Holds` proofs are theorems of `Props/C08Compose`) -/

section Specs
open Gen.BatchChoreo
variable [Add α] [OfNat α 0]

def lsDivSpec (f : α → α → α) : Spec2 α :=
  ⟨2, 2, fun ea _ => ea, fun ea eb => ∃ d n, ea = [d, n] ∧ (eb = [d, 1] ∨ eb = [1, 1]),
   fun x ℓ => runBinary lengthscaleDivOps f x ℓ [] [], fun _ eb e u v => f (u e) (v (bidxR eb e))⟩

def scaleSpec (f : α → α → α) : Spec2 α :=
  ⟨2, 0, fun ea _ => ea, fun _ _ => True, fun K os => runBinary scaleFullOps f K os [] [], fun _ _ e u v => f (u e) (v [])⟩

def scaleDiagSpec (f : α → α → α) : Spec2 α :=
  ⟨1, 0, fun ea _ => ea, fun _ _ => True, fun K os => runBinary scaleDiagOps f K os [] [], fun _ _ e u v => f (u e) (v [])⟩

def rqSpec (f : α → α → α) (distRank kbRank : Nat) : Spec2 α :=
  ⟨2, 1, fun ea _ => ea, fun _ eb => eb = [1],
   fun dist alpha => runBinary (rqAlphaOps false false distRank kbRank) f dist alpha [] [], fun _ _ e u v => f (u e) (v [0])⟩

def rqDiagSpec (f : α → α → α) (distRank kbRank : Nat) : Spec2 α :=
  ⟨1, 1, fun ea _ => ea, fun _ eb => eb = [1],
   fun dist alpha => runBinary (rqAlphaOps true false distRank kbRank) f dist alpha [] [], fun _ _ e u v => f (u e) (v [0])⟩

def noiseSpec (zero : α) : Spec2 α :=
  ⟨1, 1, fun _ eb => [eb.headD 0, eb.headD 0], fun ea _ => ea = [1],
   fun noise μ => runConstDiag homoNoiseOps zero noise [μ.shape.drop 1] (μ.shape.headD 0),
   fun _ _ e u _ => if e.getD 0 0 = e.getD 1 0 then u [0] else zero⟩

def constMeanSpec : Spec2 α :=
  ⟨0, 2, fun _ eb => [eb.getD 1 0], fun _ _ => True, fun c x => runParam constantMeanOps c [x.shape.drop 1] [],
   fun _ _ _ u _ => u []⟩

def priorReduceSpec (k : Nat) : Spec1 α :=
  ⟨k, fun _ => [], fun _ => True, fun t => runParam exactPriorOps t [] [t.shape.length - k],
   fun ea _ u => ((allIdx ea).map u).foldr (· + ·) 0⟩

def approxPriorReduceSpec (k : Nat) : Spec1 α :=
  ⟨k, fun _ => [], fun _ => True, fun t => runParam approxPriorOps t [] [t.shape.length - k],
   fun ea _ u => ((allIdx ea).map u).foldr (· + ·) 0⟩

def map2Spec (k : Nat) (f : α → α → α) : Spec2 α :=
  ⟨k, k, fun ea eb => (bcastR ea eb).getD [], fun ea eb => (bcastR ea eb).isSome, fun a b => T.map2 f a b,
   fun ea eb e u v => f (u (bidxR ea e)) (v (bidxR eb e))⟩

def ewSpec (k : Nat) (f : α → α → α) : Spec2 α :=
  ⟨k, k, fun ea _ => ea, fun ea eb => ea = eb, fun a b => T.map2 f a b, fun _ _ e u v => f (u e) (v e)⟩

end Specs

end Pipeline

/-
Helper lemmas for `Props/C09.lean` (structured kernels): index arithmetic of the Kronecker orders and the
matrix identities behind the SGPR / WISKI caches.
-/
import GPVerif.Model.Structured
import Mathlib.Tactic.Ring
import Mathlib.Tactic.Abel
import Mathlib.Tactic.Linarith
import Mathlib.Tactic.FinCases
import Mathlib.Tactic.NormNum
import Mathlib.LinearAlgebra.Matrix.Notation

open Matrix Structured

namespace Structured.Bridge

variable {α : Type}

theorem kron_entry_nat [Mul α] {n m t s : ℕ} (A : DMat n m α) (B : DMat t s α)
    (i : Fin n) (a : Fin t) (j : Fin m) (b : Fin s) (hp : i.1 * t + a.1 < n * t) (hq : j.1 * s + b.1 < m * s) :
    (kron A B).toMatrix ⟨i.1 * t + a.1, hp⟩ ⟨j.1 * s + b.1, hq⟩ = A.toMatrix i j * B.toMatrix a b := by
  have ht : 0 < t := Nat.pos_of_ne_zero (fun h => by have := a.2; omega)
  have hs : 0 < s := Nat.pos_of_ne_zero (fun h => by have := b.2; omega)
  simp only [kron, DMat.toMatrix_ofMatrix, kronM]
  congr 2 <;> apply Fin.ext <;> simp [Fin.divNat, Fin.modNat, Nat.add_comm, Nat.mul_comm, Nat.add_mul_div_left, Nat.add_mul_mod_self_left, Nat.div_eq_of_lt, Nat.mod_eq_of_lt, ht, hs]

theorem flat_lt {N n p i : ℕ} (hp : p < N) (hi : i < n) : p * n + i < N * n := by
  calc p * n + i < p * n + n := by omega
    _ = (p + 1) * n := by ring
    _ ≤ N * n := Nat.mul_le_mul_right _ hp

theorem gridFlat_lt [Mul α] [Zero α] [One α] : ∀ (Ks : List (Sq α)) (is : List ℕ),
    List.Forall₂ (fun i (K : Sq α) => i < K.1) is Ks → gridFlat (Ks.map (·.1)) is < (gridKron Ks).1
  | [], _, h => by cases h; simp [gridFlat, gridKron]
  | K :: Ks, _, h => by
      cases h with
      | cons hi hrest =>
        simp only [List.map_cons, gridFlat, gridKron]
        exact flat_lt (gridFlat_lt Ks _ hrest) hi

theorem gridKronRowMajor_size [Mul α] [Zero α] [One α] : ∀ (Ks : List (Sq α)), (gridKronRowMajor Ks).1 = (Ks.map (·.1)).prod
  | [] => by simp [gridKronRowMajor]
  | K :: Ks => by simp [gridKronRowMajor, gridKronRowMajor_size Ks]

theorem rowMajorFlat_lt [Mul α] [Zero α] [One α] : ∀ (Ks : List (Sq α)) (is : List ℕ),
    List.Forall₂ (fun i (K : Sq α) => i < K.1) is Ks → rowMajorFlat (Ks.map (·.1)) is < (gridKronRowMajor Ks).1
  | [], _, h => by cases h; simp [rowMajorFlat, gridKronRowMajor]
  | K :: Ks, _, h => by
      cases h with
      | cons hi hrest =>
        simp only [List.map_cons, rowMajorFlat, gridKronRowMajor, ← gridKronRowMajor_size Ks]
        exact flat_lt hi (rowMajorFlat_lt Ks _ hrest)

section field
variable [Field α]

theorem sgprInverse_eq_exact {n m : ℕ} (Rx : DMat n m α) (dinv : Fin n → α) (C Minv : DMat m m α)
    (hC : C.toMatrix * C.toMatrixᵀ = Minv.toMatrix) :
    (sgprInverse Rx dinv C).toMatrix = (sgprInverseExact Rx dinv Minv).toMatrix := by
  simp only [sgprInverse, sgprInverseExact, DMat.toMatrix_add, DMat.toMatrix_sub, DMat.toMatrix_mul, DMat.toMatrix_neg,
    DMat.toMatrix_transpose, DMat.toMatrix_diagonal, Matrix.transpose_mul, ← hC, Matrix.neg_mul, sub_eq_add_neg, Matrix.mul_assoc]

theorem wiski_core {g n k : ℕ} (K : Matrix (Fin g) (Fin g) α) (V : Matrix (Fin g) (Fin n) α) (L : Matrix (Fin g) (Fin k) α)
    (Dinv D : Matrix (Fin n) (Fin n) α) (Qinv : Matrix (Fin k) (Fin k) α)
    (hD : Dinv * D = 1) (hL : L * Lᵀ = V * Dinv * Vᵀ) (hQ : Qinv * (Lᵀ * K * L + 1) = 1) :
    (K - K * L * Qinv * Lᵀ * K) * V * Dinv * (Vᵀ * K * V + D) = K * V := by
  set T := Lᵀ * K * V with hT
  have h1 : V * Dinv * (Vᵀ * K * V + D) = L * T + V := by
    rw [Matrix.mul_add, Matrix.mul_assoc V Dinv D, hD, Matrix.mul_one, hT]
    congr 1
    calc V * Dinv * (Vᵀ * K * V) = (V * Dinv * Vᵀ) * (K * V) := by simp only [Matrix.mul_assoc]
      _ = L * Lᵀ * (K * V) := by rw [hL]
      _ = L * (Lᵀ * K * V) := by simp only [Matrix.mul_assoc]
  have h2 : Qinv * (Lᵀ * K * L * T) + Qinv * T = T := by
    rw [← Matrix.mul_add, show Lᵀ * K * L * T + T = (Lᵀ * K * L + 1) * T by rw [Matrix.add_mul, Matrix.one_mul],
      ← Matrix.mul_assoc, hQ, Matrix.one_mul]
  calc (K - K * L * Qinv * Lᵀ * K) * V * Dinv * (Vᵀ * K * V + D)
      = (K - K * L * Qinv * Lᵀ * K) * (V * Dinv * (Vᵀ * K * V + D)) := by simp only [Matrix.mul_assoc]
    _ = (K - K * L * Qinv * Lᵀ * K) * (L * T + V) := by rw [h1]
    _ = K * V + K * L * (T - (Qinv * (Lᵀ * K * L * T) + Qinv * T)) := by
        simp only [hT, Matrix.mul_add, Matrix.sub_mul, Matrix.mul_sub, Matrix.mul_assoc]
        abel
    _ = K * V := by rw [h2, sub_self, Matrix.mul_zero, add_zero]

theorem wiski_inner_core {g n k : ℕ} (K : Matrix (Fin g) (Fin g) α) (V : Matrix (Fin g) (Fin n) α) (L : Matrix (Fin g) (Fin k) α)
    (Dinv D : Matrix (Fin n) (Fin n) α) (Qinv : Matrix (Fin k) (Fin k) α)
    (hD : Dinv * D = 1) (hL : L * Lᵀ = V * Dinv * Vᵀ) (hQ : Qinv * (Lᵀ * K * L + 1) = 1)
    (hA : IsUnit (Vᵀ * K * V + D).det) :
    K * L * Qinv * Lᵀ * K = K * V * (Vᵀ * K * V + D)⁻¹ * Vᵀ * K := by
  have core := wiski_core K V L Dinv D Qinv hD hL hQ
  have hX : (K - K * L * Qinv * Lᵀ * K) * V * Dinv = K * V * (Vᵀ * K * V + D)⁻¹ := by
    rw [← core, Matrix.mul_assoc _ (Vᵀ * K * V + D), Matrix.mul_nonsing_inv _ hA, Matrix.mul_one]
  have hQ' : Qinv * (Lᵀ * K * L) = 1 - Qinv := by
    rw [Matrix.mul_add, Matrix.mul_one] at hQ
    exact eq_sub_of_add_eq hQ
  calc K * L * Qinv * Lᵀ * K
      = K * L * (1 - Qinv * (Lᵀ * K * L)) * Lᵀ * K := by rw [hQ']; simp
    _ = (K - K * L * Qinv * Lᵀ * K) * (L * Lᵀ) * K := by
        simp only [Matrix.mul_sub, Matrix.sub_mul, Matrix.mul_one, Matrix.mul_assoc]
    _ = (K - K * L * Qinv * Lᵀ * K) * V * Dinv * Vᵀ * K := by rw [hL]; simp only [Matrix.mul_assoc]
    _ = K * V * (Vᵀ * K * V + D)⁻¹ * Vᵀ * K := by rw [hX]

theorem diagonal_inv {n : ℕ} (d : Fin n → α) (hd : ∀ i, d i ≠ 0) :
    IsUnit (Matrix.diagonal d) ∧ (Matrix.diagonal d)⁻¹ = Matrix.diagonal fun i => (d i)⁻¹ := by
  constructor
  · rw [Matrix.isUnit_iff_isUnit_det, Matrix.det_diagonal]
    exact IsUnit.mk0 _ (Finset.prod_ne_zero_iff.mpr fun i _ => hd i)
  · apply Matrix.inv_eq_right_inv
    rw [Matrix.diagonal_mul_diagonal, ← Matrix.diagonal_one]
    congr 1; funext i; exact mul_inv_cancel₀ (hd i)

end field

/-! ### 1×1 instances used by the non-vacuity examples of `Props/C09.lean` -/

/-- 1×1 rational matrix as a `DMat` -/
def m11 (q : ℚ) : DMat 1 1 ℚ := DMat.ofMatrix !![q]

theorem m11_inv (a b : ℚ) (h : a * b = 1) : (m11 a).toMatrix⁻¹ = (m11 b).toMatrix := by
  apply Matrix.inv_eq_right_inv
  ext i j; fin_cases i; fin_cases j
  simp [m11, Matrix.mul_apply, h]

theorem m11_mul (a b : ℚ) : (m11 a).toMatrix * (m11 b).toMatrix = (m11 (a * b)).toMatrix := by
  ext i j; fin_cases i; fin_cases j
  simp [m11, Matrix.mul_apply]

theorem m11_T (a : ℚ) : (m11 a).toMatrixᵀ = (m11 a).toMatrix := by
  ext i j; fin_cases i; fin_cases j; simp [m11]

theorem m11_det (a : ℚ) : (m11 a).toMatrix.det = a := by simp [m11]

theorem m11_ext {A B : Matrix (Fin 1) (Fin 1) ℚ} (h : A 0 0 = B 0 0) : A = B := by
  ext i j; fin_cases i; fin_cases j; exact h

theorem cap_ex : (sgprCapacitance (m11 1) (fun _ : Fin 1 => ((1/3 : ℚ))⁻¹)).toMatrix = (m11 4).toMatrix := by
  apply m11_ext; simp [sgprCapacitance, m11, Matrix.mul_apply]; norm_num

end Structured.Bridge

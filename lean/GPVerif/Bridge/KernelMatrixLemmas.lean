/-
Well-formedness predicates and row lemmas that connect the matrix-level evaluation `KernelMatrix.evalDenseMat` (what
the regenerated code computes on whole batched inputs) with the pairwise `KernelIndex.evalDense` of the C06 model.
-/
import GPVerif.Bridge.KernelPairwiseFam
import GPVerif.Bridge.BcastLemmas

namespace KernelPairwise
open Bcast PyIndex KernelIndex KernelMatrix

/-- every point of `x` has `d` features -/
def WFIn (d : ℕ) (x : Inputs (List ℝ)) : Prop := ∀ b i, (x.pt b i).length = d

/-- per-dimension parameters have one entry per feature (for the families that read them) -/
def WFPar (f : Fam) (d : ℕ) (p : Params (Theta ℝ)) : Prop :=
  ∀ b, (f.needsLs = true → (p.th b).ls.length = d) ∧ (f.needsPs = true → (p.th b).ps.length = d)

/-- soundness of the flag `torch.equal(x1_, x2_)`: when it is set, the two inputs have the same rows in every batch
element (nothing is assumed when it is not set) -/
def SameOK (m : Bool) (x1 x2 : Inputs (List ℝ)) : Prop :=
  m = true → ∀ b, rows x1 (bidxR x1.bshape b) = rows x2 (bidxR x2.bshape b)

theorem rows_length {X : Type} (x : Inputs X) (b : RIdx) : (rows x b).length = x.n := by simp [rows]

theorem rows_getD (x : Inputs (List ℝ)) (b : RIdx) {i : ℕ} (hi : i < x.n) : (rows x b).getD i [] = x.pt b i := by
  simp [rows, List.getD_eq_getElem?_getD, hi]

theorem rows_wf {d : ℕ} {x : Inputs (List ℝ)} (h : WFIn d x) (b : RIdx) : ∀ r ∈ rows x b, r.length = d := by
  intro r hr
  simp only [rows, List.mem_map, List.mem_range] at hr
  obtain ⟨i, _, rfl⟩ := hr
  exact h b i

theorem WFIn.getitem {d : ℕ} {x : Inputs (List ℝ)} (h : WFIn d x) (batch : List NItem) (rws : List ℕ) :
    WFIn d (x.getitem batch rws) := fun _ _ => h _ _

theorem WFIn.repeatRows {d : ℕ} {x : Inputs (List ℝ)} (h : WFIn d x) (r : ℕ) : WFIn d (x.repeatRows r) :=
  fun _ _ => h _ _

theorem WFIn.cat {d : ℕ} {xa xb : Inputs (List ℝ)} (ha : WFIn d xa) (hb : WFIn d xb) : WFIn d (xa.cat xb) := by
  intro b i
  simp only [Inputs.cat]
  split
  · exact ha _ _
  · exact hb _ _

theorem WFPar.getitem {f : Fam} {d : ℕ} {p : Params (Theta ℝ)} (h : WFPar f d p) (batch : List NItem) :
    WFPar f d (p.getitem batch) := fun _ => h _

theorem SameOK.symm {m : Bool} {x1 x2 : Inputs (List ℝ)} (h : SameOK m x1 x2) : SameOK m x2 x1 :=
  fun hm b => (h hm b).symm

theorem getD_lt_of_mem {l : List ℕ} {n : ℕ} (h : ∀ r ∈ l, r < n) {i : ℕ} (hi : i < l.length) : l.getD i 0 < n := by
  have : l.getD i 0 = l[i] := by simp [List.getD_eq_getElem?_getD, hi]
  rw [this]; exact h _ (List.getElem_mem hi)

/-- one lengthscale broadcast over the dimensions: `x.div(ℓ·1)` is `x.div(ℓ)` -/
theorem rowDiv_replicate (s : ℝ) : ∀ x : List ℝ, Scalar.rowDiv x (List.replicate x.length s) = Scalar.rowDivS x s
  | [] => by simp [Scalar.rowDiv, Scalar.rowDivS]
  | a :: x => by
    have ih := rowDiv_replicate s x
    simp only [Scalar.rowDiv, Scalar.rowDivS, List.length_cons, List.replicate_succ, Scalar.zip_cons, List.map_cons] at ih ⊢
    rw [ih]

end KernelPairwise

/-
Helper lemmas for `Props/C07.lean`: unfolding lemmas of the C07 model (`Model/PSD.lean`) into Mathlib matrix
expressions, the quadratic-form argument behind the `L·D·Lᵀ` certificate, Hadamard powers, and real softplus.
-/
import GPVerif.Gen.C07Constants
import Mathlib.LinearAlgebra.Matrix.PosDef
import Mathlib.LinearAlgebra.Matrix.SchurComplement
import Mathlib.Analysis.Matrix.Order
import Mathlib.Analysis.SpecialFunctions.Log.Basic
import Mathlib.Algebra.Star.Rat
import Mathlib.Data.Rat.Star
import Mathlib.Tactic.Linarith
import Mathlib.Tactic.Positivity

open Matrix

set_option linter.unusedSectionVars false

namespace C07

/-! ### model → Mathlib expressions (any field) -/

section unfold
variable {α : Type} [Field α] [DecidableEq α] {n m k : Nat}

theorem posteriorCov?_toMatrix {A : DMat n n α} {B : DMat n m α} {D : DMat m m α} {P : DMat m m α}
    (h : posteriorCov? A B D = some P) :
    P.toMatrix = D.toMatrix - B.toMatrixᵀ * A.toMatrix⁻¹ * B.toMatrix := by
  unfold posteriorCov? at h
  cases hi : DMat.inv? A with
  | none => simp [hi] at h
  | some Ai =>
    simp only [hi, Option.map_some, Option.some.injEq] at h
    subst h
    simp [DMat.inv?_correct hi]

theorem reduction?_toMatrix {A : DMat n n α} {B : DMat n m α} {P : DMat m m α}
    (h : reduction? A B = some P) :
    P.toMatrix = B.toMatrixᵀ * A.toMatrix⁻¹ * B.toMatrix := by
  unfold reduction? at h
  cases hi : DMat.inv? A with
  | none => simp [hi] at h
  | some Ai =>
    simp only [hi, Option.map_some, Option.some.injEq] at h
    subst h
    simp [DMat.inv?_correct hi]

@[simp] theorem marginalCov_toMatrix (C R : DMat m m α) :
    (marginalCov C R).toMatrix = C.toMatrix + R.toMatrix := by simp [marginalCov]

@[simp] theorem variationalCov_toMatrix (Kss : DMat m m α) (B : DMat k m α) (S : DMat k k α) :
    (variationalCov Kss B S).toMatrix = Kss.toMatrix - B.toMatrixᵀ * (1 - S.toMatrix) * B.toMatrix := by
  simp [variationalCov]

@[simp] theorem shift_toMatrix (M : DMat n n α) (δ : α) :
    (shift M δ).toMatrix = M.toMatrix + δ • (1 : Matrix (Fin n) (Fin n) α) := by
  simp only [shift, DMat.toMatrix_add, DMat.toMatrix_diagonal]
  congr 1
  ext i j
  by_cases h : i = j <;> simp [Matrix.diagonal, h]

end unfold

/-! ### the quadratic form of `L·D·Lᵀ` -/

section quad
variable {K : Type} [Field K] [LinearOrder K] [IsStrictOrderedRing K] {n : Nat}

theorem ldl_quad_eq (L : Matrix (Fin n) (Fin n) K) (d : Fin n → K) (v : Fin n → K) :
    v ⬝ᵥ ((L * diagonal d * Lᵀ) *ᵥ v) = ∑ i, d i * ((Lᵀ *ᵥ v) i * (Lᵀ *ᵥ v) i) := by
  rw [← mulVec_mulVec, ← mulVec_mulVec, dotProduct_mulVec, ← mulVec_transpose]
  simp only [dotProduct, mulVec_diagonal]
  exact Finset.sum_congr rfl fun i _ => by ring

theorem ldl_quad_nonneg (L : Matrix (Fin n) (Fin n) K) (d : Fin n → K) (hd : ∀ i, 0 ≤ d i)
    (v : Fin n → K) : 0 ≤ v ⬝ᵥ ((L * diagonal d * Lᵀ) *ᵥ v) := by
  rw [ldl_quad_eq]
  exact Finset.sum_nonneg fun i _ => mul_nonneg (hd i) (mul_self_nonneg _)

theorem ldl_symm (L : Matrix (Fin n) (Fin n) K) (d : Fin n → K) :
    (L * diagonal d * Lᵀ)ᵀ = L * diagonal d * Lᵀ := by
  simp [transpose_mul, Matrix.mul_assoc]

theorem psdCert?_spec {M L : DMat n n K} {d : Fin n → K} (h : psdCert? M = some (L, d)) :
    DMat.ldl? M = some (L, d) ∧ ∀ i, 0 ≤ d i := by
  unfold psdCert? at h
  split at h
  · rename_i L' d' hl
    split at h
    · rename_i hd
      obtain ⟨rfl, rfl⟩ := Prod.mk.inj (Option.some.inj h)
      exact ⟨hl, hd⟩
    · exact absurd h (by simp)
  · exact absurd h (by simp)

theorem psdCert?_eq {M L : DMat n n K} {d : Fin n → K} (h : psdCert? M = some (L, d)) :
    M.toMatrix = L.toMatrix * diagonal d * L.toMatrixᵀ :=
  ((DMat.ldl?_spec (psdCert?_spec h).1).2).symm

theorem negWitness?_spec {M : DMat n n K} {v : Fin n → K} (h : negWitness? M = some v) :
    quadForm M v < 0 := by
  unfold negWitness? at h
  split at h
  · exact absurd h (by simp)
  · rename_i raw _
    simp only at h
    split at h
    · rename_i hq
      have := Option.some.inj h
      rw [← this]
      exact hq
    · exact absurd h (by simp)

end quad

/-! ### Hadamard powers (polynomial kernel) -/

section hadamard
variable {ι : Type*} [Fintype ι]

/-- entrywise `p`-th power -/
def hpow (M : Matrix ι ι ℝ) (p : ℕ) : Matrix ι ι ℝ := of fun i j => M i j ^ p

/-- the constant matrix -/
def constMat (ι : Type*) (c : ℝ) : Matrix ι ι ℝ := of fun _ _ => c

theorem constMat_psd {c : ℝ} (hc : 0 ≤ c) : (constMat ι c).PosSemidef := by
  have h1 : (vecMulVec (fun _ : ι => (1 : ℝ)) (star fun _ : ι => (1 : ℝ))).PosSemidef :=
    posSemidef_vecMulVec_self_star _
  have : constMat ι c = c • vecMulVec (fun _ : ι => (1 : ℝ)) (star fun _ : ι => (1 : ℝ)) := by
    ext i j; simp [constMat, vecMulVec_apply]
  rw [this]
  exact h1.smul hc

theorem hpow_psd {M : Matrix ι ι ℝ} (hM : M.PosSemidef) : ∀ p : ℕ, (hpow M p).PosSemidef
  | 0 => by
    have : hpow M 0 = constMat ι 1 := by ext i j; simp [hpow, constMat]
    rw [this]; exact constMat_psd zero_le_one
  | p + 1 => by
    have : hpow M (p + 1) = hpow M p ⊙ M := by ext i j; simp [hpow, pow_succ]
    rw [this]; exact (hpow_psd hM p).hadamard hM

end hadamard

/-! ### the guard of the regenerated clamps -/

theorem anyLt_eq_false_iff {α : Type} [LinearOrder α] {n : Nat} (u v : Fin n → α) :
    anyLt u v = false ↔ ∀ i, v i ≤ u i := by
  simp [anyLt, List.any_eq_false]

/-! ### real softplus -/

theorem log_one_add_exp_pos (x : ℝ) : 0 < Real.log (1 + Real.exp x) :=
  Real.log_pos (by linarith [Real.exp_pos x])

end C07

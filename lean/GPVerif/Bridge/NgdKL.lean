/-
C19 (wave 3) — calculus for `_NgdInterpTerms.backward` (all three terms, the KL term included) at the level of
Mathlib matrices.  Jacobi's formula comes from `Bridge/NgdMatrix.lean` (`hasDerivAt_logdet_quad`: the derivative of
`log det` along the quadratic curve `S + t D + t² Q`, which is exactly the curve the covariance
`E − m mᵀ` describes when the expectation parameters `(m, E)` move along a line).

Pairings are `⟨A, B⟩ = tr(Aᵀ B)`; vectors are `n × 1` matrices.
-/
import GPVerif.Bridge.NgdMatrix

open Matrix

set_option linter.unusedSectionVars false

namespace NgdKL
variable {n d : Type} [Fintype n] [DecidableEq n] [Fintype d] [DecidableEq d]

theorem hasDerivAt_quadratic (a b c : ℝ) : HasDerivAt (fun t : ℝ => a + b * t + c * t ^ 2) b 0 := by
  have hid : HasDerivAt (fun t : ℝ => t) 1 (0 : ℝ) := hasDerivAt_id 0
  have h := ((hid.const_mul b).const_add a).add ((hid.pow 2).const_mul c)
  exact h.congr_deriv (by simp)

/-- `KL(N(m, S) ‖ N(0, 1))` as a function of the expectation parameters `(m, E)`, `S = E − m mᵀ`:
`½(−log det(E − m mᵀ) + tr E − n)` — the comment in `_NgdInterpTerms.forward`. -/
noncomputable def kl (m : Matrix n (Fin 1) ℝ) (E : Matrix n n ℝ) : ℝ :=
  (1 / 2) * (-(Real.log (E - m * mᵀ).det) + E.trace - Fintype.card n)

/-- the two data terms `Σ_j gm_j (Kᵀm)_j + tr(W·KᵀSK)` (`W = diag(gv)`), as a function of `(K, m, E)` -/
def dataObj (gm : Matrix (Fin 1) d ℝ) (W : Matrix d d ℝ) (K : Matrix n d ℝ) (m : Matrix n (Fin 1) ℝ)
    (E : Matrix n n ℝ) : ℝ :=
  (gm * (Kᵀ * m)).trace + (W * (Kᵀ * ((E - m * mᵀ) * K))).trace

/-- along a line in `(m, E)` the covariance `E − m mᵀ` moves on a quadratic curve -/
theorem curve_eq (m dm : Matrix n (Fin 1) ℝ) (E dE : Matrix n n ℝ) (t : ℝ) :
    (E + t • dE) - (m + t • dm) * (m + t • dm)ᵀ
      = (E - m * mᵀ) + t • (dE - m * dmᵀ - dm * mᵀ) + t ^ 2 • (-(dm * dmᵀ)) := by
  ext i j
  simp only [Matrix.sub_apply, Matrix.add_apply, Matrix.smul_apply, Matrix.neg_apply, Matrix.mul_apply,
    Matrix.transpose_apply, smul_eq_mul, Fin.sum_univ_one]
  ring

/-- 1×1 traces: `tr(P·(m·dmᵀ)) = tr((P m)ᵀ·dm)` -/
theorem trace_mul_outer (P : Matrix n n ℝ) (m dm : Matrix n (Fin 1) ℝ) :
    (P * (m * dmᵀ)).trace = ((P * m)ᵀ * dm).trace := by
  rw [← Matrix.mul_assoc, Matrix.trace_mul_comm, ← Matrix.trace_transpose, Matrix.transpose_mul,
    Matrix.transpose_transpose]

theorem trace_mul_outer' (P : Matrix n n ℝ) (hP : Pᵀ = P) (m dm : Matrix n (Fin 1) ℝ) :
    (P * (dm * mᵀ)).trace = ((P * m)ᵀ * dm).trace := by
  rw [← Matrix.mul_assoc, Matrix.trace_mul_comm, Matrix.transpose_mul, hP, Matrix.mul_assoc]

/-- **KL term.**  `S = E − m mᵀ` symmetric with positive determinant, `P·S = 1` (`P` = the saved `prec`):
along every line `(m + t·δm, E + t·δE)` the KL divergence has derivative `⟨P m, δm⟩ + ⟨½(1 − P), δE⟩` —
`P m = natural_vec`, and these are the two `kl component`s of `_NgdInterpTerms.backward`. -/
theorem hasDerivAt_kl (m dm : Matrix n (Fin 1) ℝ) (E dE P : Matrix n n ℝ)
    (hsym : (E - m * mᵀ)ᵀ = E - m * mᵀ) (hpos : 0 < (E - m * mᵀ).det) (hP : P * (E - m * mᵀ) = 1) :
    HasDerivAt (fun t : ℝ => kl (m + t • dm) (E + t • dE))
      (((P * m)ᵀ * dm).trace + (((1 / 2 : ℝ) • (1 - P))ᵀ * dE).trace) 0 := by
  set S : Matrix n n ℝ := E - m * mᵀ with hS
  have hU : IsUnit S.det := isUnit_iff_ne_zero.mpr hpos.ne'
  have hPi : S⁻¹ = P := Matrix.inv_eq_left_inv hP
  have hPt : Pᵀ = P := by rw [← hPi, Matrix.transpose_nonsing_inv, hsym]
  have hlog := NgdMatrix.hasDerivAt_logdet_quad S (dE - m * dmᵀ - dm * mᵀ) (-(dm * dmᵀ)) hU hpos
  have hid : HasDerivAt (fun t : ℝ => t) 1 (0 : ℝ) := hasDerivAt_id 0
  have hfun : (fun t : ℝ => kl (m + t • dm) (E + t • dE))
      = fun t : ℝ => (1 / 2) * (-(Real.log (S + t • (dE - m * dmᵀ - dm * mᵀ) + t ^ 2 • (-(dm * dmᵀ))).det)
          + (E.trace + dE.trace * t) - Fintype.card n) := by
    funext t
    unfold kl
    rw [curve_eq, Matrix.trace_add, Matrix.trace_smul, smul_eq_mul, mul_comm t]
  rw [hfun]
  have h1 : HasDerivAt (fun t : ℝ => E.trace + dE.trace * t) (dE.trace * 1) 0 := (hid.const_mul _).const_add _
  have h := (((hlog.neg).add h1).sub_const (Fintype.card n : ℝ)).const_mul (1 / 2 : ℝ)
  refine h.congr_deriv ?_
  rw [hPi, Matrix.mul_sub, Matrix.mul_sub, Matrix.trace_sub, Matrix.trace_sub, trace_mul_outer,
    trace_mul_outer' P hPt, Matrix.transpose_smul, Matrix.smul_mul, Matrix.trace_smul, Matrix.transpose_sub,
    Matrix.transpose_one, hPt, Matrix.sub_mul, Matrix.one_mul, Matrix.trace_sub]
  simp only [smul_eq_mul]
  ring

/-- exact expansion of the data terms along a line in `(m, E)` -/
theorem dataObj_expec_expand (gm : Matrix (Fin 1) d ℝ) (W : Matrix d d ℝ) (K : Matrix n d ℝ)
    (m dm : Matrix n (Fin 1) ℝ) (E dE : Matrix n n ℝ) (t : ℝ) :
    dataObj gm W K (m + t • dm) (E + t • dE)
      = dataObj gm W K m E
        + ((gm * (Kᵀ * dm)).trace + (W * (Kᵀ * ((dE - m * dmᵀ - dm * mᵀ) * K))).trace) * t
        + (W * (Kᵀ * ((-(dm * dmᵀ)) * K))).trace * t ^ 2 := by
  unfold dataObj
  rw [curve_eq]
  simp only [Matrix.mul_add, Matrix.add_mul, Matrix.mul_smul, Matrix.smul_mul, Matrix.trace_add, Matrix.trace_smul,
    smul_eq_mul]
  ring

/-- **Expectation-parameter gradients, all terms.**  Objective `Σ gm_j·interp_mean_j + tr(W·KᵀSK) + gk·KL`
(`W = diag(gv)`): along every line `(m + t·δm, E + t·δE)` its derivative is the pairing of `(δm, δE)` with
`(K(−2·W·Kᵀm + gmᵀ) + gk·P m,  K W Kᵀ + gk·½(1 − P))` — what `backward` returns as
`(expec_vec_grad, expec_mat_grad)`. -/
theorem hasDerivAt_expec (gm : Matrix (Fin 1) d ℝ) (W : Matrix d d ℝ) (gk : ℝ) (K : Matrix n d ℝ)
    (m dm : Matrix n (Fin 1) ℝ) (E dE P : Matrix n n ℝ) (hW : Wᵀ = W)
    (hsym : (E - m * mᵀ)ᵀ = E - m * mᵀ) (hpos : 0 < (E - m * mᵀ).det) (hP : P * (E - m * mᵀ) = 1) :
    HasDerivAt (fun t : ℝ => dataObj gm W K (m + t • dm) (E + t • dE) + gk * kl (m + t • dm) (E + t • dE))
      (((K * ((-2 : ℝ) • (W * (Kᵀ * m)) + gmᵀ) + gk • (P * m))ᵀ * dm).trace
        + ((K * W * Kᵀ + gk • ((1 / 2 : ℝ) • (1 - P)))ᵀ * dE).trace) 0 := by
  have hk := (hasDerivAt_kl m dm E dE P hsym hpos hP).const_mul gk
  have hd : HasDerivAt (fun t : ℝ => dataObj gm W K (m + t • dm) (E + t • dE))
      ((gm * (Kᵀ * dm)).trace + (W * (Kᵀ * ((dE - m * dmᵀ - dm * mᵀ) * K))).trace) 0 := by
    rw [funext (dataObj_expec_expand gm W K m dm E dE)]
    exact hasDerivAt_quadratic _ _ _
  refine (hd.add hk).congr_deriv ?_
  -- trace bookkeeping
  have e1 : (W * (Kᵀ * (dE * K))).trace = ((K * W * Kᵀ)ᵀ * dE).trace := by
    simp only [Matrix.transpose_mul, Matrix.transpose_transpose, hW, Matrix.mul_assoc]
    rw [Matrix.trace_mul_comm K]
    simp only [Matrix.mul_assoc]
  have e2 : (W * (Kᵀ * (m * dmᵀ * K))).trace = ((K * (W * (Kᵀ * m)))ᵀ * dm).trace := by
    rw [← Matrix.trace_transpose (W * _)]
    simp only [Matrix.transpose_mul, Matrix.transpose_transpose, hW, Matrix.mul_assoc]
    rw [Matrix.trace_mul_comm Kᵀ]
    simp only [Matrix.mul_assoc]
    rw [Matrix.trace_mul_comm dm]
    simp only [Matrix.mul_assoc]
  have e3 : (W * (Kᵀ * (dm * mᵀ * K))).trace = ((K * (W * (Kᵀ * m)))ᵀ * dm).trace := by
    simp only [Matrix.transpose_mul, Matrix.transpose_transpose, hW, Matrix.mul_assoc]
    rw [Matrix.trace_mul_comm W]
    simp only [Matrix.mul_assoc]
    rw [Matrix.trace_mul_comm Kᵀ]
    simp only [Matrix.mul_assoc]
    rw [Matrix.trace_mul_comm dm]
    simp only [Matrix.mul_assoc]
  have e4 : (gm * (Kᵀ * dm)).trace = ((K * gmᵀ)ᵀ * dm).trace := by
    rw [Matrix.transpose_mul, Matrix.transpose_transpose, Matrix.mul_assoc]
  simp only [Matrix.sub_mul, Matrix.mul_sub, Matrix.trace_sub, e1, e2, e3, e4, Matrix.transpose_add,
    Matrix.add_mul, Matrix.trace_add, Matrix.mul_add, Matrix.transpose_smul, Matrix.smul_mul, Matrix.mul_smul,
    Matrix.trace_smul, smul_eq_mul]
  ring

/-- **`interp_term` gradient.**  For symmetric `S = E − m mᵀ` and every direction `δK`: the derivative of the
objective along `K + t·δK` is `⟨2·S K W + m·gm, δK⟩` (the KL term does not depend on `K`). -/
theorem hasDerivAt_interp (gm : Matrix (Fin 1) d ℝ) (W : Matrix d d ℝ) (gk : ℝ) (K dK : Matrix n d ℝ)
    (m : Matrix n (Fin 1) ℝ) (E : Matrix n n ℝ) (hW : Wᵀ = W) (hsym : (E - m * mᵀ)ᵀ = E - m * mᵀ) :
    HasDerivAt (fun t : ℝ => dataObj gm W (K + t • dK) m E + gk * kl m E)
      ((((2 : ℝ) • ((E - m * mᵀ) * K * W) + m * gm)ᵀ * dK).trace) 0 := by
  set S : Matrix n n ℝ := E - m * mᵀ with hS
  have hexp : ∀ t : ℝ, dataObj gm W (K + t • dK) m E + gk * kl m E
      = (dataObj gm W K m E + gk * kl m E)
        + ((gm * (dKᵀ * m)).trace + (W * (dKᵀ * (S * K))).trace + (W * (Kᵀ * (S * dK))).trace) * t
        + (W * (dKᵀ * (S * dK))).trace * t ^ 2 := by
    intro t
    unfold dataObj
    rw [← hS]
    simp only [Matrix.transpose_add, Matrix.transpose_smul, Matrix.mul_add, Matrix.add_mul, Matrix.mul_smul,
      Matrix.smul_mul, Matrix.trace_add, Matrix.trace_smul, smul_eq_mul]
    ring
  rw [funext hexp]
  refine (hasDerivAt_quadratic _ _ _).congr_deriv ?_
  have e1 : (gm * (dKᵀ * m)).trace = ((m * gm)ᵀ * dK).trace := by
    rw [← Matrix.trace_transpose (gm * _)]
    simp only [Matrix.transpose_mul, Matrix.transpose_transpose, Matrix.mul_assoc]
    rw [Matrix.trace_mul_comm gmᵀ]
    simp only [Matrix.mul_assoc]
  have e2 : (W * (dKᵀ * (S * K))).trace = ((S * K * W)ᵀ * dK).trace := by
    rw [← Matrix.trace_transpose]
    simp only [Matrix.transpose_mul, Matrix.transpose_transpose, hW, hsym]
    rw [Matrix.trace_mul_comm]
    simp only [Matrix.mul_assoc]
  have e3 : (W * (Kᵀ * (S * dK))).trace = ((S * K * W)ᵀ * dK).trace := by
    simp only [Matrix.transpose_mul, hW, hsym, Matrix.mul_assoc]
  rw [e1, e2, e3, Matrix.transpose_add, Matrix.add_mul, Matrix.trace_add, Matrix.transpose_smul, Matrix.smul_mul,
    Matrix.trace_smul, smul_eq_mul]
  ring

end NgdKL

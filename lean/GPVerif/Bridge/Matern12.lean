/-
Matérn-½ (exponential / Ornstein–Uhlenbeck) kernel in dimension one:
`exp(−|a−b|) = e^{−a} e^{−b} e^{2 min(a,b)}` and `e^{min(u,w)} = ∫ 1[t ≤ u] 1[t ≤ w] e^t dt`, so the quadratic form of the
Gram matrix is the integral of `e^t (∑ᵢ vᵢ 1[t ≤ uᵢ])² ≥ 0`.
-/
import GPVerif.Bridge.RBF
import Mathlib.Analysis.SpecialFunctions.ImproperIntegrals

open Matrix MeasureTheory Set

namespace C07

variable {ι : Type*} [Fintype ι]

/-- `exp(min(u_i, u_j))` is PSD (the "Brownian-motion type" kernel `h(min)` with `h = exp`). -/
theorem exp_min_gram_psd (u : ι → ℝ) :
    (of fun i j => Real.exp (min (u i) (u j)) : Matrix ι ι ℝ).PosSemidef := by
  classical
  refine PosSemidef.of_dotProduct_mulVec_nonneg ?_ fun v => ?_
  · ext i j; simp [conjTranspose_apply, min_comm]
  · let F : ι → ι → ℝ → ℝ := fun i j t => v i * (Iic (min (u i) (u j))).indicator Real.exp t * v j
    have hint : ∀ i j, Integrable (F i j) volume := fun i j =>
      (((integrable_indicator_iff measurableSet_Iic).mpr (integrableOn_exp_Iic _)).const_mul (v i)).mul_const (v j)
    have hrow : ∀ i, Integrable (fun t => ∑ j, F i j t) volume :=
      fun i => integrable_finsetSum Finset.univ fun j _ => hint i j
    have h1 : ∫ t, ∑ i, ∑ j, F i j t = ∑ i, ∫ t, ∑ j, F i j t :=
      integral_finsetSum Finset.univ (f := fun i t => ∑ j, F i j t) fun i _ => hrow i
    have h2 : ∀ i, ∫ t, ∑ j, F i j t = ∑ j, ∫ t, F i j t := fun i =>
      integral_finsetSum Finset.univ (f := fun j t => F i j t) fun j _ => hint i j
    have hF : ∀ i j, ∫ t, F i j t = v i * Real.exp (min (u i) (u j)) * v j := by
      intro i j
      show ∫ t, v i * (Iic (min (u i) (u j))).indicator Real.exp t * v j = _
      rw [integral_mul_const, integral_const_mul, integral_indicator measurableSet_Iic, integral_exp_Iic]
    have key : star v ⬝ᵥ ((of fun i j => Real.exp (min (u i) (u j)) : Matrix ι ι ℝ) *ᵥ v) =
        ∫ t, ∑ i, ∑ j, F i j t := by
      rw [h1]
      simp_rw [h2, hF]
      simp only [dotProduct, mulVec, of_apply, star_trivial, Finset.mul_sum]
      exact Finset.sum_congr rfl fun i _ => Finset.sum_congr rfl fun j _ => by ring
    rw [key]
    refine integral_nonneg fun t => ?_
    have e : ∑ i, ∑ j, F i j t =
        Real.exp t * ((∑ i, v i * (if t ≤ u i then 1 else 0)) * (∑ j, v j * (if t ≤ u j then 1 else 0))) := by
      rw [Finset.sum_mul_sum, Finset.mul_sum]
      refine Finset.sum_congr rfl fun i _ => ?_
      rw [Finset.mul_sum]
      refine Finset.sum_congr rfl fun j _ => ?_
      show v i * (Iic (min (u i) (u j))).indicator Real.exp t * v j = _
      simp only [indicator_apply, mem_Iic, le_min_iff]
      by_cases hi : t ≤ u i <;> by_cases hj : t ≤ u j <;> simp [hi, hj] <;> ring
    rw [e]
    exact mul_nonneg (Real.exp_pos t).le (mul_self_nonneg _)

/-- **Matérn-½ kernel in dimension one**: `exp(−|x_i − x_j| / ℓ)`, `ℓ > 0`, every finite set of points
(unsorted, duplicates allowed). -/
theorem matern12_1d_gram_psd (x : ι → ℝ) {ℓ : ℝ} (hℓ : 0 < ℓ) :
    (of fun i j => Real.exp (-|x i - x j| / ℓ) : Matrix ι ι ℝ).PosSemidef := by
  classical
  have hM := exp_min_gram_psd (fun i => 2 * (x i / ℓ))
  let a : ι → ℝ := fun i => Real.exp (-(x i / ℓ))
  have hK := hM.mul_mul_conjTranspose_same (diagonal a)
  have : (of fun i j => Real.exp (-|x i - x j| / ℓ) : Matrix ι ι ℝ) =
      diagonal a * (of fun i j => Real.exp (min (2 * (x i / ℓ)) (2 * (x j / ℓ))) : Matrix ι ι ℝ) * (diagonal a)ᴴ := by
    ext i j
    rw [diagonal_conjTranspose, mul_diagonal, diagonal_mul]
    simp only [of_apply, a, Pi.star_apply, star_trivial]
    rw [← Real.exp_add, ← Real.exp_add]
    congr 1
    rcases le_total (x i) (x j) with h | h
    · have h' : 2 * (x i / ℓ) ≤ 2 * (x j / ℓ) := by
        have := div_le_div_of_nonneg_right h hℓ.le; linarith
      rw [min_eq_left h', abs_of_nonpos (by linarith)]
      field_simp
      ring
    · have h' : 2 * (x j / ℓ) ≤ 2 * (x i / ℓ) := by
        have := div_le_div_of_nonneg_right h hℓ.le; linarith
      rw [min_eq_right h', abs_of_nonneg (by linarith)]
      field_simp
      ring
  rw [this]; exact hK

end C07

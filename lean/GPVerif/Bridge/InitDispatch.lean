/-
Helper lemmas for C17's `gen_initialize_eq_fold`: the program regenerated from `Module.initialize`
(`Gen/InitDispatch.lean`), run by `ParamStore.Init.exec`, is the fold of single assignments `ParamStore.initFold`.
Core Lean only (no Mathlib): the statements hold for every scalar type the store model can be instantiated at.
-/
import GPVerif.Model.ParamStore
import GPVerif.Gen.InitDispatch

namespace InitDispatchBridge
open ParamStore ParamStore.Init InitIR Gen.Constraints

set_option linter.unusedSectionVars false
set_option linter.unusedSimpArgs false
variable {α : Type} [Add α] [Sub α] [Mul α] [Div α] [Neg α] [NatCast α] [OfScientific α] [TransFn α]
  [LE α] [DecidableLE α]

theorem initFold_single (n : Node) (s : Store α) (kv : Path × α) :
    initFold n s [kv] = assign1 n s kv := by
  simp only [initFold]
  split
  · rfl
  · rename_i h
    have : (assign1 n s kv).2 = false := by simpa using h
    rw [← this]

/-- one iteration of the generated loop body = one specified assignment -/
theorem iter_gen (leaf : Nat → Option Target) (child : Nat → Node) (call : Call α) (fuel : Nat)
    (hcall : ∀ n s kv, kv.1.length < fuel → call n s [kv] = assign1 n s kv)
    (s : Store α) (pend : List (Path × List (Path × α))) (kv : Path × α) (hlen : kv.1.length ≤ fuel) :
    iter (.mod leaf child) call Gen.InitDispatch.initializeProg.body ⟨s, pend, false⟩ kv =
      ⟨(assign1 (.mod leaf child) s kv).1, pend, (assign1 (.mod leaf child) s kv).2⟩ := by
  obtain ⟨name, v⟩ := kv
  match name with
  | [] =>
    simp [iter, Gen.InitDispatch.initializeProg, runStmts, step, guardHolds, evalCond, assign1, resolve,
      Node.leafOf, Store.assignTarget]
  | [x] =>
    simp [iter, Gen.InitDispatch.initializeProg, runStmts, step, guardHolds, evalCond, assign1, resolve,
      Node.leafOf]
  | x :: y :: tl =>
    simp only [List.length_cons] at hlen
    cases hc : child x with
    | none =>
      simp [iter, Gen.InitDispatch.initializeProg, runStmts, step, guardHolds, evalCond, assign1, resolve,
        Node.child, Node.isNone, hc, raise, Store.assignTarget]
    | list elem =>
      match tl with
      | [] =>
        simp [iter, Gen.InitDispatch.initializeProg, runStmts, step, guardHolds, evalCond, assign1, resolve,
          Node.child, Node.isNone, Node.isList, hc, raise, Store.assignTarget, List.lookup]
      | z :: tl' =>
        have h := hcall (elem y) s (z :: tl', v) (by simp only [List.length_cons] at hlen ⊢; omega)
        simp [iter, Gen.InitDispatch.initializeProg, runStmts, step, guardHolds, evalCond, resolve,
          Node.child, Node.isNone, Node.isList, hc, raise, h, List.lookup]
        simp [assign1, resolve, hc]
    | mod l c =>
      have h := hcall (.mod l c) s (y :: tl, v) (by simp only [List.length_cons] at hlen ⊢; omega)
      simp [iter, Gen.InitDispatch.initializeProg, runStmts, step, guardHolds, evalCond, resolve,
        Node.child, Node.isNone, Node.isList, hc, raise, h, List.lookup]
      simp [assign1, resolve, hc]


theorem loop_gen (leaf : Nat → Option Target) (child : Nat → Node) (call : Call α) (fuel : Nat)
    (hcall : ∀ n s kv, kv.1.length < fuel → call n s [kv] = assign1 n s kv)
    (pend : List (Path × List (Path × α))) :
    ∀ (kvs : List (Path × α)) (s : Store α), maxLen kvs ≤ fuel →
      loop (.mod leaf child) call Gen.InitDispatch.initializeProg.body ⟨s, pend, false⟩ kvs =
        ⟨(initFold (.mod leaf child) s kvs).1, pend, (initFold (.mod leaf child) s kvs).2⟩ := by
  intro kvs
  induction kvs with
  | nil => intro s _; simp [loop, initFold]
  | cons kv rest ih =>
    intro s hlen
    simp only [maxLen] at hlen
    have h1 : kv.1.length ≤ fuel := by omega
    have h2 : maxLen rest ≤ fuel := by omega
    simp only [loop, Bool.false_eq_true, ↓reduceIte, iter_gen leaf child call fuel hcall s pend kv h1, initFold]
    by_cases hr : (assign1 (Node.mod leaf child) s kv).2 = true
    · simp only [hr, ↓reduceIte]
      cases rest <;> simp [loop]
    · have hr' : (assign1 (Node.mod leaf child) s kv).2 = false := by simpa using hr
      simp only [hr', Bool.false_eq_true, ↓reduceIte]
      exact ih _ h2

/-- a root that is a gpytorch module, or a non-empty kwargs list (a call on a missing module raises either way) -/
def Applicable (n : Node) (kvs : List (Path × α)) : Prop :=
  (∃ l c, n = .mod l c) ∨ kvs ≠ []

theorem initFold_not_mod (n : Node) (hn : ¬ ∃ l c, n = .mod l c) (s : Store α) (kv : Path × α)
    (rest : List (Path × α)) : initFold n s (kv :: rest) = (s, true) := by
  have : resolve n kv.1 = none := by
    obtain ⟨name, v⟩ := kv
    cases n with
    | mod l c => exact absurd ⟨l, c, rfl⟩ hn
    | none => match name with
      | [] => rfl
      | [x] => rfl
      | x :: y :: tl => rfl
    | list e => match name with
      | [] => rfl
      | [x] => rfl
      | x :: y :: tl => rfl
  simp [initFold, assign1, this, Store.assignTarget]

theorem execFuel_gen : ∀ (fuel : Nat) (n : Node) (s : Store α) (kvs : List (Path × α)),
    maxLen kvs < fuel → Applicable n kvs →
      execFuel Gen.InitDispatch.initializeProg fuel n s kvs = initFold n s kvs := by
  intro fuel
  induction fuel with
  | zero => intro n s kvs h; omega
  | succ fuel ih =>
    intro n s kvs hlen happ
    cases n with
    | mod l c =>
      have hcall : ∀ n s (kv : Path × α), kv.1.length < fuel →
          execFuel Gen.InitDispatch.initializeProg fuel n s [kv] = assign1 n s kv := by
        intro n s kv h
        rw [ih n s [kv] (by simp only [maxLen]; omega) (Or.inr (by simp)), initFold_single]
      have := loop_gen l c (execFuel Gen.InitDispatch.initializeProg fuel) fuel hcall [] kvs s (by omega)
      simp only [execFuel, this]
      simp [Gen.InitDispatch.initializeProg, runEpilogue]
    | none =>
      rcases happ with ⟨l, c, h⟩ | h
      · cases h
      · obtain ⟨kv, rest, rfl⟩ := List.exists_cons_of_ne_nil h
        rw [initFold_not_mod _ (by rintro ⟨l, c, h⟩; cases h)]
        simp [execFuel]
    | list e =>
      rcases happ with ⟨l, c, h⟩ | h
      · cases h
      · obtain ⟨kv, rest, rfl⟩ := List.exists_cons_of_ne_nil h
        rw [initFold_not_mod _ (by rintro ⟨l, c, h⟩; cases h)]
        simp [execFuel]

/-- `initialize(**(A then B))` = `initialize(**A)` followed (when it did not raise) by `initialize(**B)` -/
theorem initFold_append (n : Node) (k₂ : List (Path × α)) :
    ∀ (k₁ : List (Path × α)) (s : Store α),
      initFold n s (k₁ ++ k₂) =
        if (initFold n s k₁).2 then initFold n s k₁ else initFold n (initFold n s k₁).1 k₂ := by
  intro k₁
  induction k₁ with
  | nil => intro s; simp [initFold]
  | cons kv rest ih =>
    intro s
    simp only [List.cons_append, initFold]
    by_cases h : (assign1 n s kv).2 = true
    · simp [h]
    · simp only [h, Bool.false_eq_true, ↓reduceIte]
      exact ih _

/-- every `assignTarget` is one `Store.apply` or nothing -/
theorem assignTarget_eq_run (s : Store α) (t : Option Target) (v : α) :
    ∃ ops : List (Op α), (s.assignTarget t v).1 = s.run ops := by
  cases t with
  | none => exact ⟨[], rfl⟩
  | some t =>
    cases t with
    | pub p => exact ⟨[.set p v], rfl⟩
    | raw p => exact ⟨[.initRaw p v], rfl⟩

theorem run_append (ops₁ ops₂ : List (Op α)) : ∀ s : Store α, s.run (ops₁ ++ ops₂) = (s.run ops₁).run ops₂ := by
  induction ops₁ with
  | nil => intro s; rfl
  | cons o r ih => intro s; simp only [List.cons_append, Store.run]; exact ih _

/-- the store after `initialize(**kwargs)` is reached by a history of `set` / `initRaw` operations -/
theorem initFold_eq_run (n : Node) : ∀ (kvs : List (Path × α)) (s : Store α),
    ∃ ops : List (Op α), (initFold n s kvs).1 = s.run ops := by
  intro kvs
  induction kvs with
  | nil => intro s; exact ⟨[], rfl⟩
  | cons kv rest ih =>
    intro s
    obtain ⟨ops₁, h₁⟩ := assignTarget_eq_run s (resolve n kv.1) kv.2
    simp only [initFold]
    by_cases h : (assign1 n s kv).2 = true
    · simp only [h, ↓reduceIte]; exact ⟨ops₁, h₁⟩
    · simp only [h, Bool.false_eq_true, ↓reduceIte]
      obtain ⟨ops₂, h₂⟩ := ih (assign1 n s kv).1
      refine ⟨ops₁ ++ ops₂, ?_⟩
      rw [h₂, run_append]
      congr 1

theorem leafSteps_check_store (raises : Bool → Bool) (s : Store α) (p : Nat) (r : α) :
    runLeafSteps raises [.check, .store] s p r =
      if raises (decide ((s.kind p).CheckRaw r)) then (s, true) else (s.setRaw p r, false) := by
  simp [runLeafSteps]

theorem apply_set_kind (s : Store α) (p : Nat) (v : α) (q : Nat) :
    (s.apply (.set p v)).1.kind q = s.kind q := by
  simp only [Store.apply, Store.initRaw]
  split
  · split <;> rfl
  · rfl

theorem apply_initRaw_kind (s : Store α) (p : Nat) (v : α) (q : Nat) :
    (s.apply (.initRaw p v)).1.kind q = s.kind q := by
  simp only [Store.apply, Store.initRaw]
  split <;> rfl

end InitDispatchBridge

/-
Helper lemmas for `Props/C06Kernels.lean`: over `ℝ`, the regenerated `covar_dist` entry depends on its two rows only
through their squared distance (the centre that `sq_dist` subtracts cancels; the `x1_eq_x2` diagonal fill writes the
true value), `colMean` of well-formed rows is a row of the same length, `zipIdx` vs `Scalar.zip`.
-/
import GPVerif.Bridge.GenKernels
import GPVerif.Gen.KernelCall

namespace KernelPairwise
open Scalar Kernels KernelMatrix Gen.KernelCall Gen.KernelFormulas

/-! ### lengths -/

theorem length_zip' (f : ℝ → ℝ → ℝ) (a b : List ℝ) : (Scalar.zip f a b).length = min a.length b.length :=
  Kernels.length_zip f a b

theorem length_colSum {d : ℕ} : ∀ {X : List (List ℝ)}, X ≠ [] → (∀ r ∈ X, r.length = d) → (colSum X).length = d
  | [], h, _ => absurd rfl h
  | [r], _, hr => by simpa [colSum] using hr r (by simp)
  | r :: r' :: rs, _, hr => by
    have ih := length_colSum (X := r' :: rs) (by simp) (fun x hx => hr x (by simp [hx]))
    have h0 := hr r (by simp)
    simp only [colSum, length_zip', ih, h0, min_self]

theorem length_colMean {d : ℕ} {X : List (List ℝ)} (hne : X ≠ []) (h : ∀ r ∈ X, r.length = d) :
    (colMean X).length = d := by
  simp [colMean, rowDivS, length_colSum hne h]

theorem length_rowDiv' (a ls : List ℝ) : (rowDiv a ls).length = min a.length ls.length := Kernels.length_rowDiv a ls
theorem length_rowSub' (a c : List ℝ) : (rowSub a c).length = min a.length c.length := Kernels.length_rowSub a c
theorem length_rowDivS (a : List ℝ) (s : ℝ) : (rowDivS a s).length = a.length := by simp [rowDivS]

theorem getD_mem_length {d : ℕ} {X : List (List ℝ)} (h : ∀ r ∈ X, r.length = d) {i : ℕ} (hi : i < X.length) :
    (X.getD i []).length = d := by
  have : X.getD i [] = X[i] := by simp [List.getD_eq_getElem?_getD, hi]
  rw [this]; exact h _ (List.getElem_mem hi)

/-! ### squared distance -/

theorem sqDist_self (a : List ℝ) : sqDist a a = 0 := by
  induction a with
  | nil => simp [sqDist_nil_left]
  | cons x a ih => rw [sqDist_cons, ih]; ring

theorem sqDist_comm (a b : List ℝ) : sqDist a b = sqDist b a := by
  induction a generalizing b with
  | nil => simp [sqDist_nil_left, sqDist_nil_right]
  | cons x a ih =>
    cases b with
    | nil => simp [sqDist_nil_left, sqDist_nil_right]
    | cons y b => rw [sqDist_cons, sqDist_cons, ih b]; ring

theorem sqDist_eq_sum (a b : List ℝ) : Scalar.sum ((rowSub a b).map Scalar.sq) = sqDist a b := rfl

/-- the generated `sq_dist` entry (both off-diagonal configurations) is the squared distance, whatever the centre -/
theorem sqDistGen_eq (u v c : List ℝ) (hu : u.length = c.length) (hv : v.length = c.length) :
    sqDistGen u v c = sqDist u v ∧ sqDistGenSameOff u v c = sqDist u v :=
  ⟨(sqDistGen_eq_impl u v c).1.trans (sqDistImpl_eq c u v hu hv),
   (sqDistGen_eq_impl u v c).2.trans (sqDistImpl_eq c u v hu hv)⟩

/-! ### `zipIdx` -/

theorem mem_zip_self {u v : ℝ} : ∀ {A : List ℝ}, (u, v) ∈ A.zip A → u = v
  | [], h => by simp at h
  | x :: A, h => by
    simp only [List.zip_cons_cons, List.mem_cons, Prod.mk.injEq] at h
    rcases h with ⟨rfl, rfl⟩ | h
    · rfl
    · exact mem_zip_self h

theorem zipIdx_eq_zip (f : ℕ → ℝ → ℝ → ℝ) (g : ℝ → ℝ → ℝ) :
    ∀ (n : ℕ) (A B : List ℝ), (∀ k u v, (u, v) ∈ A.zip B → f k u v = g u v) → zipIdx f n A B = Scalar.zip g A B
  | _, [], B, _ => by cases B <;> simp [zipIdx]
  | _, _ :: _, [], _ => by simp [zipIdx]
  | n, x :: A, y :: B, h => by
    simp only [zipIdx, zip_cons]
    rw [h n x y (by simp), zipIdx_eq_zip f g (n + 1) A B (fun k u v huv => h k u v (by simp [huv]))]

/-! ### the regenerated `covar_dist` depends on the two rows only through their squared distance -/

/-- **Key lemma.**  Two evaluations of the regenerated `covar_dist` entry with the same flags agree as soon as the
squared distances of their row pairs agree — whatever centres `sq_dist` subtracts, and whether or not the entry is
treated as a diagonal entry (`x1_eq_x2` zero fill), provided a "diagonal" entry really has distance zero. -/
theorem covarDist_congr (diag sq m od od' : Bool) (u v c u' v' c' : List ℝ)
    (hu : u.length = c.length) (hv : v.length = c.length) (hu' : u'.length = c'.length) (hv' : v'.length = c'.length)
    (h : sqDist u v = sqDist u' v')
    (hod : od = true → m = true → sqDist u v = 0) (hod' : od' = true → m = true → sqDist u' v' = 0) :
    covarDistEntry Prims.euclid diag sq m od u v c = covarDistEntry Prims.euclid diag sq m od' u' v' c' := by
  have k1 := (sqDistGen_eq u v c hu hv).1
  have k2 := (sqDistGen_eq u' v' c' hu' hv').1
  unfold sqDistGen at k1 k2
  have e1 : Scalar.dist u v = Real.sqrt (sqDist u v) := rfl
  have e2 : Scalar.dist u' v' = Real.sqrt (sqDist u' v') := rfl
  have z : ∀ q : ℚ, q = 0 → Max.max ((q : ℚ) : ℝ) ((q : ℚ) : ℝ) = 0 := by intro q hq; subst hq; simp
  cases diag <;> cases sq <;> cases m <;> cases od <;> cases od' <;>
    simp only [covarDistEntry, sqDistAt, distAt, sqDistGen, sqDistGenSameOff, sqDistGenSameDiag, distGen, distGenSameOff,
      distGenSameDiag, Prims.euclid, k1, k2, e1, e2, sqDist_eq_sum, h, Bool.false_eq_true, if_false, if_true] <;>
    first
      | rfl
      | (have h0 := hod' rfl rfl; rw [h0]; simp)
      | (have h0 := hod rfl rfl; rw [h] at h0; rw [h0]; simp)

/-- centre-free form of the regenerated distance helper: the first row as the centre, the entry treated as
off-diagonal — a function of the two rows only -/
noncomputable def cdFree (diag sq m : Bool) (u v : List ℝ) : ℝ := covarDistEntry Prims.euclid diag sq m false u v u

theorem cdFree_congr (diag sq m : Bool) (u v u' v' : List ℝ) (huv : u.length = v.length) (huv' : u'.length = v'.length)
    (h : sqDist u v = sqDist u' v') : cdFree diag sq m u v = cdFree diag sq m u' v' :=
  covarDist_congr diag sq m false false u v u u' v' u' rfl huv.symm rfl huv'.symm h (by simp) (by simp)

theorem cdFree_comm (diag sq m : Bool) (u v : List ℝ) (huv : u.length = v.length) :
    cdFree diag sq m u v = cdFree diag sq m v u :=
  cdFree_congr diag sq m u v v u huv huv.symm (sqDist_comm u v)

/-- **The centring cancels**: the helper called as the code calls it — on the transformed rows `t (x1 i)`, `t (x2 j)`,
with the centre `colMean` of ALL transformed rows of `x1`, the `x1_eq_x2` flag and the diagonal fill — equals the
centre-free form, a function of the two rows. -/
theorem cb_eq (diag sq m : Bool) (d : ℕ) (X1 X2 : List (List ℝ)) (t : List ℝ → List ℝ)
    (ht1 : ∀ r ∈ X1, (t r).length = d) (ht2 : ∀ r ∈ X2, (t r).length = d) (hm : m = true → X1 = X2)
    (i j : ℕ) (hi : i < X1.length) (hj : j < X2.length) (od : Bool) (hod : od = true → i = j) :
    covarDistEntry Prims.euclid diag sq m od (t (X1.getD i [])) (t (X2.getD j [])) (colMean (X1.map t))
      = cdFree diag sq m (t (X1.getD i [])) (t (X2.getD j [])) := by
  have ea : X1.getD i [] = X1[i] := by simp [List.getD_eq_getElem?_getD, hi]
  have eb : X2.getD j [] = X2[j] := by simp [List.getD_eq_getElem?_getD, hj]
  have la : (t (X1.getD i [])).length = d := by rw [ea]; exact ht1 _ (List.getElem_mem hi)
  have lb : (t (X2.getD j [])).length = d := by rw [eb]; exact ht2 _ (List.getElem_mem hj)
  have lc : (colMean (X1.map t)).length = d := by
    apply length_colMean
    · intro hnil
      have : X1 = [] := by simpa using hnil
      subst this; simp at hi
    · intro r hr
      obtain ⟨r0, hr0, rfl⟩ := List.mem_map.mp hr
      exact ht1 r0 hr0
  unfold cdFree
  apply covarDist_congr diag sq m od false _ _ _ _ _ _ (la.trans lc.symm) (lb.trans lc.symm) rfl (lb.trans la.symm) rfl
  · intro hij hm'
    have hX := hm hm'
    subst hX
    have : i = j := hod hij
    subst this
    exact sqDist_self _
  · intro h; simp at h

end KernelPairwise

/-
Per-family lemmas for `Props/C06Kernels.lean`: the pair function `genKappa` of every regenerated kernel (the regenerated
per-pair term itself with centre-free distance helpers; Matérn's own centre instantiated with the first row), the
matrix-level forward equals it entry by entry, and it is symmetric.
-/
import GPVerif.Bridge.KernelPairwise

namespace KernelPairwise
open Scalar Kernels KernelMatrix Gen.KernelCall

/-- an unused distance callback -/
noncomputable def cbNone : List ℝ → List ℝ → ℝ := fun _ _ => Scalar.lit (0 : Rat)

/-- **The pair function of every regenerated kernel**: a function of the flag `m = torch.equal(x1_, x2_)`, the
parameters and the two rows only.  It is the regenerated per-pair term with the centre-free helpers `cdFree`;
where `forward` itself subtracts `x1.mean(-2)` (Matérn) the centre is instantiated with the first row. -/
noncomputable def genKappa : Fam → Bool → Theta ℝ → List ℝ → List ℝ → ℝ
  | .rbfGeneric, m, θ, a, b => Gen.KernelFormulas.rbfGeneric (cdFree false true m) cbNone a b θ.ls
  | .rbfFast, m, θ, a, b => Gen.Formulas.rbfFwdNoGradOut (cdFree false true m) a b θ.s
  | .matern12Generic, m, θ, a, b => Gen.KernelFormulas.matern12Generic cbNone (cdFree false false m) a b a θ.ls
  | .matern32Generic, m, θ, a, b => Gen.KernelFormulas.matern32Generic cbNone (cdFree false false m) a b a θ.ls
  | .matern52Generic, m, θ, a, b => Gen.KernelFormulas.matern52Generic cbNone (cdFree false false m) a b a θ.ls
  | .matern12Fast, m, θ, a, b => Gen.Formulas.matern12FwdNoGradOut (cdFree false false m) a b a θ.s
  | .matern32Fast, m, θ, a, b => Gen.Formulas.matern32FwdNoGradOut (cdFree false false m) a b a θ.s
  | .matern52Fast, m, θ, a, b => Gen.Formulas.matern52FwdNoGradOut (cdFree false false m) a b a θ.s
  | .rq, m, θ, a, b => Gen.KernelFormulas.rq (cdFree false true m) cbNone a b θ.ls θ.s
  | .periodic, m, θ, a, b => Gen.KernelFormulas.periodic cbNone (cdFree false false m) a b θ.ls θ.ps
  | .cosine, m, θ, a, b => Gen.KernelFormulas.cosine cbNone (cdFree false false m) a b θ.s
  | .linear, _, θ, a, b => Gen.KernelFormulas.linear a b θ.ls
  | .linearSame, _, θ, a, b => Gen.KernelFormulas.linearSame a b θ.ls
  | .polynomial, _, θ, a, b => Gen.KernelFormulas.polynomial a b θ.s θ.k
  | .polynomialBatched, _, θ, a, b => Gen.KernelFormulas.polynomialBatched a b θ.s θ.k
  | .pp0, m, θ, a, b => Gen.KernelFormulas.piecewisePolynomial0 cbNone (cdFree false false m) a b θ.ls
  | .pp1, m, θ, a, b => Gen.KernelFormulas.piecewisePolynomial1 cbNone (cdFree false false m) a b θ.ls
  | .pp2, m, θ, a, b => Gen.KernelFormulas.piecewisePolynomial2 cbNone (cdFree false false m) a b θ.ls
  | .pp3, m, θ, a, b => Gen.KernelFormulas.piecewisePolynomial3 cbNone (cdFree false false m) a b θ.ls
  | .constant, _, θ, a, b => Gen.KernelFormulas.constantK a b θ.s

/-- the pair function of the `diag=True` configurations -/
noncomputable def genKappaDiag : DiagFam → Bool → Theta ℝ → List ℝ → List ℝ → ℝ
  | .rbf, m, θ, a, b => Gen.KernelFormulas.rbfGenericDiag (cdFree true true m) cbNone a b θ.ls
  | .rq, m, θ, a, b => Gen.KernelFormulas.rqDiag (cdFree true true m) cbNone a b θ.ls θ.s
  | .periodic, m, θ, a, b => Gen.KernelFormulas.periodicDiag cbNone (cdFree true false m) a b θ.ls θ.ps
  | .polynomial, _, θ, a, b => Gen.KernelFormulas.polynomialDiag a b θ.s θ.k
  | .constant, _, θ, a, b => Gen.KernelFormulas.constantKDiag a b θ.s

section families

variable (m : Bool) (d : ℕ) (X1 X2 : List (List ℝ)) (θ : Theta ℝ)
    (h1 : ∀ r ∈ X1, r.length = d) (h2 : ∀ r ∈ X2, r.length = d)
    (hm : m = true → X1 = X2) (i j : ℕ) (hi : i < X1.length) (hj : j < X2.length)

theorem X1_ne {X : List (List ℝ)} {i : ℕ} (hi : i < X.length) : X ≠ [] := by intro h; subst h; simp at hi

/-- callbacks on `x.div(lengthscale)` (per-dimension lengthscales) -/
theorem cb_rowDiv (diag sq : Bool) (ls : List ℝ) (hls : ls.length = d)
    (h1 : ∀ r ∈ X1, r.length = d) (h2 : ∀ r ∈ X2, r.length = d) (hm : m = true → X1 = X2)
    (hi : i < X1.length) (hj : j < X2.length) (od : Bool) (hod : od = true → i = j) :
    covarDistEntry Prims.euclid diag sq m od (rowDiv (X1.getD i []) ls) (rowDiv (X2.getD j []) ls)
        (colMean (X1.map fun x => rowDiv x ls))
      = cdFree diag sq m (rowDiv (X1.getD i []) ls) (rowDiv (X2.getD j []) ls) :=
  cb_eq diag sq m d X1 X2 (fun x => rowDiv x ls)
    (fun r hr => by simp only [length_rowDiv', h1 r hr, hls, min_self])
    (fun r hr => by simp only [length_rowDiv', h2 r hr, hls, min_self]) hm i j hi hj od hod

/-- callbacks on `x.div(s)` (one scalar) -/
theorem cb_rowDivS (diag sq : Bool) (s : ℝ)
    (h1 : ∀ r ∈ X1, r.length = d) (h2 : ∀ r ∈ X2, r.length = d) (hm : m = true → X1 = X2)
    (hi : i < X1.length) (hj : j < X2.length) (od : Bool) (hod : od = true → i = j) :
    covarDistEntry Prims.euclid diag sq m od (rowDivS (X1.getD i []) s) (rowDivS (X2.getD j []) s)
        (colMean (X1.map fun x => rowDivS x s))
      = cdFree diag sq m (rowDivS (X1.getD i []) s) (rowDivS (X2.getD j []) s) :=
  cb_eq diag sq m d X1 X2 (fun x => rowDivS x s)
    (fun r hr => by simp only [length_rowDivS, h1 r hr])
    (fun r hr => by simp only [length_rowDivS, h2 r hr]) hm i j hi hj od hod

/-- Matérn (generic): the callback on `(x − mean).div(lengthscale)`, both centres cancel -/
theorem cb_matern (ls : List ℝ) (hls : ls.length = d)
    (h1 : ∀ r ∈ X1, r.length = d) (h2 : ∀ r ∈ X2, r.length = d) (hm : m = true → X1 = X2)
    (hi : i < X1.length) (hj : j < X2.length) (od : Bool) (hod : od = true → i = j) :
    covarDistEntry Prims.euclid false false m od
        (rowDiv (rowSub (X1.getD i []) (colMean X1)) ls) (rowDiv (rowSub (X2.getD j []) (colMean X1)) ls)
        (colMean (X1.map fun x => rowDiv (rowSub x (colMean X1)) ls))
      = cdFree false false m (rowDiv (rowSub (X1.getD i []) (X1.getD i [])) ls)
          (rowDiv (rowSub (X2.getD j []) (X1.getD i [])) ls) := by
  have la := getD_mem_length h1 hi
  have lb := getD_mem_length h2 hj
  have lmean : (colMean X1).length = d := length_colMean (X1_ne hi) h1
  have hc := cb_eq false false m d X1 X2 (fun x => rowDiv (rowSub x (colMean X1)) ls)
    (fun r hr => by simp only [length_rowDiv', length_rowSub', h1 r hr, hls, lmean, min_self])
    (fun r hr => by simp only [length_rowDiv', length_rowSub', h2 r hr, hls, lmean, min_self]) hm i j hi hj od hod
  rw [hc]
  apply cdFree_congr
  · simp only [length_rowDiv', length_rowSub', la, lb, lmean, hls, min_self]
  · simp only [length_rowDiv', length_rowSub', la, lb, hls, min_self]
  · rw [sqDist_rowDiv, sqDist_rowDiv, sqDistArd_rowSub _ _ _ _ (la.trans lmean.symm) (lb.trans lmean.symm),
      sqDistArd_rowSub _ _ _ _ rfl (lb.trans la.symm)]

/-- Matérn (fast path): the callback on `(x − mean).div(ℓ)` with one lengthscale -/
theorem cb_maternFast (s : ℝ)
    (h1 : ∀ r ∈ X1, r.length = d) (h2 : ∀ r ∈ X2, r.length = d) (hm : m = true → X1 = X2)
    (hi : i < X1.length) (hj : j < X2.length) (od : Bool) (hod : od = true → i = j) :
    covarDistEntry Prims.euclid false false m od
        (rowDivS (rowSub (X1.getD i []) (colMean X1)) s) (rowDivS (rowSub (X2.getD j []) (colMean X1)) s)
        (colMean (X1.map fun x => rowDivS (rowSub x (colMean X1)) s))
      = cdFree false false m (rowDivS (rowSub (X1.getD i []) (X1.getD i [])) s)
          (rowDivS (rowSub (X2.getD j []) (X1.getD i [])) s) := by
  have la := getD_mem_length h1 hi
  have lb := getD_mem_length h2 hj
  have lmean : (colMean X1).length = d := length_colMean (X1_ne hi) h1
  have hc := cb_eq false false m d X1 X2 (fun x => rowDivS (rowSub x (colMean X1)) s)
    (fun r hr => by simp only [length_rowDivS, length_rowSub', h1 r hr, lmean, min_self])
    (fun r hr => by simp only [length_rowDivS, length_rowSub', h2 r hr, lmean, min_self]) hm i j hi hj od hod
  rw [hc]
  apply cdFree_congr
  · simp only [length_rowDivS, length_rowSub', la, lb, lmean, min_self]
  · simp only [length_rowDivS, length_rowSub', la, lb, min_self]
  · rw [sqDist_rowDivS, sqDist_rowDivS, sqDist_rowSub _ _ _ (la.trans lmean.symm) (lb.trans lmean.symm),
      sqDist_rowSub _ _ _ rfl (lb.trans la.symm)]

/-- Periodic: the per-dimension helper (`last_dim_is_batch=True`), every dimension with its own centre -/
theorem cb_periodic (diag : Bool) (od : Bool) (hod : od = true → i = j) (C A B : List ℝ)
    (hAB : m = true → i = j → A = B) :
    zipIdx (fun k u v => covarDistEntry Prims.euclid diag false m od [u] [v] [C.getD k (Scalar.lit (0 : Rat))]) 0 A B
      = Scalar.zip (fun u v => cdFree diag false m [u] [v]) A B := by
  apply zipIdx_eq_zip
  intro k u v huv
  unfold cdFree
  apply covarDist_congr diag false m od false [u] [v] [C.getD k (Scalar.lit (0 : Rat))] [u] [v] [u] rfl rfl rfl rfl rfl
  · intro ho hm'
    have hA := hAB hm' (hod ho)
    subst hA
    rw [mem_zip_self huv]
    exact sqDist_self _
  · intro h; simp at h

end families

/-- **Every regenerated matrix-level forward is pairwise** (per-family case analysis): for well-formed inputs (all
points of dimension `d`, per-dimension parameters of length `d`) and a sound `torch.equal` flag, entry `(i, j)` of
what the code computes on the whole inputs is `genKappa` of row `i` of `x1` and row `j` of `x2`. -/
theorem genMat_pairwise (f : Fam) (m : Bool) (d : ℕ) (X1 X2 : List (List ℝ)) (θ : Theta ℝ)
    (h1 : ∀ r ∈ X1, r.length = d) (h2 : ∀ r ∈ X2, r.length = d)
    (hls : f.needsLs = true → θ.ls.length = d) (hps : f.needsPs = true → θ.ps.length = d)
    (hm : m = true → X1 = X2) (i j : ℕ) (hi : i < X1.length) (hj : j < X2.length) :
    genMat Prims.euclid f m θ X1 X2 i j = genKappa f m θ (X1.getD i []) (X2.getD j []) := by
  cases f
  case rbfGeneric =>
    simp only [genMat, genKappa, rbfGenericMat, Gen.KernelFormulas.rbfGeneric]
    rw [cb_rowDiv m d X1 X2 i j false true θ.ls (hls rfl) h1 h2 hm hi hj (i == j) (by simp)]
  case rbfFast =>
    simp only [genMat, genKappa, rbfFwdNoGradOutMat, Gen.Formulas.rbfFwdNoGradOut]
    rw [cb_rowDivS m d X1 X2 i j false true θ.s h1 h2 hm hi hj (i == j) (by simp)]
  case matern12Generic =>
    simp only [genMat, genKappa, matern12GenericMat, Gen.KernelFormulas.matern12Generic]
    rw [cb_matern m d X1 X2 i j θ.ls (hls rfl) h1 h2 hm hi hj (i == j) (by simp)]
  case matern32Generic =>
    simp only [genMat, genKappa, matern32GenericMat, Gen.KernelFormulas.matern32Generic]
    rw [cb_matern m d X1 X2 i j θ.ls (hls rfl) h1 h2 hm hi hj (i == j) (by simp)]
  case matern52Generic =>
    simp only [genMat, genKappa, matern52GenericMat, Gen.KernelFormulas.matern52Generic]
    rw [cb_matern m d X1 X2 i j θ.ls (hls rfl) h1 h2 hm hi hj (i == j) (by simp)]
  case matern12Fast =>
    simp only [genMat, genKappa, matern12FwdNoGradOutMat, Gen.Formulas.matern12FwdNoGradOut]
    rw [cb_maternFast m d X1 X2 i j θ.s h1 h2 hm hi hj (i == j) (by simp)]
  case matern32Fast =>
    simp only [genMat, genKappa, matern32FwdNoGradOutMat, Gen.Formulas.matern32FwdNoGradOut]
    rw [cb_maternFast m d X1 X2 i j θ.s h1 h2 hm hi hj (i == j) (by simp)]
  case matern52Fast =>
    simp only [genMat, genKappa, matern52FwdNoGradOutMat, Gen.Formulas.matern52FwdNoGradOut]
    rw [cb_maternFast m d X1 X2 i j θ.s h1 h2 hm hi hj (i == j) (by simp)]
  case rq =>
    simp only [genMat, genKappa, rqMat, Gen.KernelFormulas.rq]
    rw [cb_rowDiv m d X1 X2 i j false true θ.ls (hls rfl) h1 h2 hm hi hj (i == j) (by simp)]
  case periodic =>
    simp only [genMat, genKappa, periodicMat, Gen.KernelFormulas.periodic]
    rw [cb_periodic m i j false (i == j) (by simp) _ _ _ (by
      intro hm' hij; have := hm hm'; subst this; subst hij; rfl)]
  case cosine =>
    simp only [genMat, genKappa, cosineMat, Gen.KernelFormulas.cosine]
    rw [cb_rowDivS m d X1 X2 i j false false θ.s h1 h2 hm hi hj (i == j) (by simp)]
  case linear => rfl
  case linearSame => rfl
  case polynomial => rfl
  case polynomialBatched => rfl
  case pp0 =>
    simp only [genMat, genKappa, piecewisePolynomial0Mat, Gen.KernelFormulas.piecewisePolynomial0]
    rw [cb_rowDiv m d X1 X2 i j false false θ.ls (hls rfl) h1 h2 hm hi hj (i == j) (by simp)]
  case pp1 =>
    simp only [genMat, genKappa, piecewisePolynomial1Mat, Gen.KernelFormulas.piecewisePolynomial1]
    rw [cb_rowDiv m d X1 X2 i j false false θ.ls (hls rfl) h1 h2 hm hi hj (i == j) (by simp)]
  case pp2 =>
    simp only [genMat, genKappa, piecewisePolynomial2Mat, Gen.KernelFormulas.piecewisePolynomial2]
    rw [cb_rowDiv m d X1 X2 i j false false θ.ls (hls rfl) h1 h2 hm hi hj (i == j) (by simp)]
  case pp3 =>
    simp only [genMat, genKappa, piecewisePolynomial3Mat, Gen.KernelFormulas.piecewisePolynomial3]
    rw [cb_rowDiv m d X1 X2 i j false false θ.ls (hls rfl) h1 h2 hm hi hj (i == j) (by simp)]
  case constant => rfl

/-! ### symmetry of the pair functions -/

theorem dot_comm (a b : List ℝ) : dot a b = dot b a := by
  induction a generalizing b with
  | nil => simp [dot_nil_left, dot_nil_right]
  | cons x a ih =>
    cases b with
    | nil => simp [dot_nil_left, dot_nil_right]
    | cons y b => rw [dot_cons, dot_cons, ih b]; ring

theorem sqDistArd_comm (ls a b : List ℝ) : sqDistArd ls a b = sqDistArd ls b a := by
  induction ls generalizing a b with
  | nil => simp [sqDistArd]
  | cons l ls ih =>
    cases a with
    | nil => cases b <;> simp [sqDistArd]
    | cons x a =>
      cases b with
      | nil => simp [sqDistArd]
      | cons y b => rw [sqDistArd_cons, sqDistArd_cons, ih a b]; ring

theorem zip_comm (f : ℝ → ℝ → ℝ) (hf : ∀ u v, f u v = f v u) (A B : List ℝ) : Scalar.zip f A B = Scalar.zip f B A := by
  induction A generalizing B with
  | nil => simp
  | cons x A ih =>
    cases B with
    | nil => simp
    | cons y B => simp only [zip_cons, ih B, hf x y]

/-- **Every pair function is symmetric** (rows of equal length) -/
theorem genKappa_symm (f : Fam) (m : Bool) (θ : Theta ℝ) (a b : List ℝ) (hab : a.length = b.length) :
    genKappa f m θ a b = genKappa f m θ b a := by
  have hdiv : ∀ ls : List ℝ, (rowDiv a ls).length = (rowDiv b ls).length := by
    intro ls; simp only [length_rowDiv', hab]
  have hdivS : ∀ s : ℝ, (rowDivS a s).length = (rowDivS b s).length := by
    intro s; simp only [length_rowDivS, hab]
  have hmat : ∀ ls : List ℝ, cdFree false false m (rowDiv (rowSub a a) ls) (rowDiv (rowSub b a) ls)
      = cdFree false false m (rowDiv (rowSub b b) ls) (rowDiv (rowSub a b) ls) := by
    intro ls
    apply cdFree_congr
    · simp only [length_rowDiv', length_rowSub', hab, min_self]
    · simp only [length_rowDiv', length_rowSub', hab, min_self]
    · rw [sqDist_rowDiv, sqDist_rowDiv, sqDistArd_rowSub _ _ _ _ rfl hab.symm, sqDistArd_rowSub _ _ _ _ rfl hab,
        sqDistArd_comm]
  have hmatS : ∀ s : ℝ, cdFree false false m (rowDivS (rowSub a a) s) (rowDivS (rowSub b a) s)
      = cdFree false false m (rowDivS (rowSub b b) s) (rowDivS (rowSub a b) s) := by
    intro s
    apply cdFree_congr
    · simp only [length_rowDivS, length_rowSub', hab, min_self]
    · simp only [length_rowDivS, length_rowSub', hab, min_self]
    · rw [sqDist_rowDivS, sqDist_rowDivS, sqDist_rowSub _ _ _ rfl hab.symm, sqDist_rowSub _ _ _ rfl hab, sqDist_comm]
  cases f
  case rbfGeneric =>
    simp only [genKappa, Gen.KernelFormulas.rbfGeneric]; rw [cdFree_comm _ _ _ _ _ (hdiv _)]
  case rbfFast =>
    simp only [genKappa, Gen.Formulas.rbfFwdNoGradOut]; rw [cdFree_comm _ _ _ _ _ (hdivS _)]
  case matern12Generic => simp only [genKappa, Gen.KernelFormulas.matern12Generic]; rw [hmat]
  case matern32Generic => simp only [genKappa, Gen.KernelFormulas.matern32Generic]; rw [hmat]
  case matern52Generic => simp only [genKappa, Gen.KernelFormulas.matern52Generic]; rw [hmat]
  case matern12Fast => simp only [genKappa, Gen.Formulas.matern12FwdNoGradOut]; rw [hmatS]
  case matern32Fast => simp only [genKappa, Gen.Formulas.matern32FwdNoGradOut]; rw [hmatS]
  case matern52Fast => simp only [genKappa, Gen.Formulas.matern52FwdNoGradOut]; rw [hmatS]
  case rq =>
    simp only [genKappa, Gen.KernelFormulas.rq]; rw [cdFree_comm _ _ _ _ _ (hdiv _)]
  case periodic =>
    simp only [genKappa, Gen.KernelFormulas.periodic]
    rw [zip_comm _ (fun u v => cdFree_comm false false m [u] [v] rfl)]
  case cosine =>
    simp only [genKappa, Gen.KernelFormulas.cosine]; rw [cdFree_comm _ _ _ _ _ (hdivS _)]
  case linear => simp only [genKappa, Gen.KernelFormulas.linear]; rw [dot_comm]
  case linearSame => simp only [genKappa, Gen.KernelFormulas.linearSame]; rw [dot_comm]
  case polynomial => simp only [genKappa, Gen.KernelFormulas.polynomial]; rw [dot_comm]
  case polynomialBatched => simp only [genKappa, Gen.KernelFormulas.polynomialBatched]; rw [dot_comm]
  case pp0 =>
    simp only [genKappa, Gen.KernelFormulas.piecewisePolynomial0]; rw [cdFree_comm _ _ _ _ _ (hdiv _), hab]
  case pp1 =>
    simp only [genKappa, Gen.KernelFormulas.piecewisePolynomial1]; rw [cdFree_comm _ _ _ _ _ (hdiv _), hab]
  case pp2 =>
    simp only [genKappa, Gen.KernelFormulas.piecewisePolynomial2]; rw [cdFree_comm _ _ _ _ _ (hdiv _), hab]
  case pp3 =>
    simp only [genKappa, Gen.KernelFormulas.piecewisePolynomial3]; rw [cdFree_comm _ _ _ _ _ (hdiv _), hab]
  case constant => rfl

/-! ### the `torch.equal` flag does not matter for the kernels built on `sq_dist` -/

theorem cdFree_sq_mode (u v : List ℝ) (huv : u.length = v.length) : cdFree false true true u v = cdFree false true false u v := by
  have k := sqDistGen_eq u v u rfl huv.symm
  simp only [cdFree, covarDistEntry, sqDistAt, Bool.false_eq_true, if_false, if_true, k.1, k.2]

theorem genKappa_mode_free (f : Fam) (hf : f.usesDist = false) (m m' : Bool) (θ : Theta ℝ) (a b : List ℝ)
    (hab : a.length = b.length) : genKappa f m θ a b = genKappa f m' θ a b := by
  have hdiv : ∀ ls : List ℝ, (rowDiv a ls).length = (rowDiv b ls).length := by
    intro ls; simp only [length_rowDiv', hab]
  have hdivS : ∀ s : ℝ, (rowDivS a s).length = (rowDivS b s).length := by
    intro s; simp only [length_rowDivS, hab]
  have key : ∀ u v : List ℝ, u.length = v.length → cdFree false true m u v = cdFree false true m' u v := by
    intro u v huv
    cases m <;> cases m' <;> first | rfl | exact cdFree_sq_mode u v huv | exact (cdFree_sq_mode u v huv).symm
  cases f <;> simp [Fam.usesDist] at hf
  case rbfGeneric => simp only [genKappa, Gen.KernelFormulas.rbfGeneric]; rw [key _ _ (hdiv _)]
  case rbfFast => simp only [genKappa, Gen.Formulas.rbfFwdNoGradOut]; rw [key _ _ (hdivS _)]
  case rq => simp only [genKappa, Gen.KernelFormulas.rq]; rw [key _ _ (hdiv _)]
  all_goals rfl

/-- off the `dist` clamp the centre-free squared-distance helper IS the squared distance -/
theorem cdFree_sq_eq (m : Bool) (u v : List ℝ) (huv : u.length = v.length) : cdFree false true m u v = sqDist u v := by
  have k := sqDistGen_eq u v u rfl huv.symm
  cases m <;> simp only [cdFree, covarDistEntry, sqDistAt, Bool.false_eq_true, if_false, if_true, k.1, k.2]

/-! ### `diag=True` -/

/-- the `diag=True` branch of the squared-distance helper (`zeros` when `x1_eq_x2`, `‖x1 − x2‖²` computed from the two
rows otherwise) is the value of the full branch -/
theorem cdFree_diag_sq (m : Bool) (u v : List ℝ) (huv : u.length = v.length) (h0 : m = true → sqDist u v = 0) :
    cdFree true true m u v = cdFree false true m u v := by
  have k := sqDistGen_eq u v u rfl huv.symm
  cases m
  · simp only [cdFree, covarDistEntry, sqDistAt, Prims.euclid, Bool.false_eq_true, if_false, if_true, k.1, sqDist_eq_sum,
      sqrt_real, npow_real]
    exact Real.sq_sqrt (sqDist_nonneg u v)
  · simp only [cdFree, covarDistEntry, sqDistAt, Bool.false_eq_true, if_false, if_true, k.2, h0 rfl]
    simp

/-- `diag=True` pair function = pair function of the full matrix, for the configurations built on `sq_dist` or on no
distance at all (NOT for Periodic: its `diag=True` branch has no `1e-15` clamp, the full branch has) -/
theorem genKappaDiag_eq (g : DiagFam) (hg : g ≠ .periodic) (m : Bool) (θ : Theta ℝ) (a b : List ℝ)
    (hab : a.length = b.length) (h0 : m = true → a = b) :
    genKappaDiag g m θ a b = genKappa g.toFam m θ a b := by
  have hdiv : ∀ ls : List ℝ, (rowDiv a ls).length = (rowDiv b ls).length := by
    intro ls; simp only [length_rowDiv', hab]
  have hz : ∀ ls : List ℝ, m = true → sqDist (rowDiv a ls) (rowDiv b ls) = 0 := by
    intro ls hm; rw [h0 hm]; exact sqDist_self _
  cases g
  case rbf =>
    simp only [genKappaDiag, genKappa, DiagFam.toFam, Gen.KernelFormulas.rbfGenericDiag, Gen.KernelFormulas.rbfGeneric]
    rw [cdFree_diag_sq m _ _ (hdiv _) (hz _)]
  case rq =>
    simp only [genKappaDiag, genKappa, DiagFam.toFam, Gen.KernelFormulas.rqDiag, Gen.KernelFormulas.rq]
    rw [cdFree_diag_sq m _ _ (hdiv _) (hz _)]
  case periodic => exact absurd rfl hg
  case polynomial =>
    simp only [genKappaDiag, genKappa, DiagFam.toFam, Gen.KernelFormulas.polynomialDiag, Gen.KernelFormulas.polynomial,
      Scalar.dot]
    rw [add_comm]
  case constant => rfl

/-- the regenerated `diag=True` forward is pairwise -/
theorem genDiag_pairwise (g : DiagFam) (m : Bool) (d : ℕ) (X1 X2 : List (List ℝ)) (θ : Theta ℝ)
    (h1 : ∀ r ∈ X1, r.length = d) (h2 : ∀ r ∈ X2, r.length = d)
    (hls : g.toFam.needsLs = true → θ.ls.length = d)
    (hm : m = true → X1 = X2) (i : ℕ) (hi : i < X1.length) (hj : i < X2.length) :
    genDiag Prims.euclid g m θ X1 X2 i = genKappaDiag g m θ (X1.getD i []) (X2.getD i []) := by
  cases g
  case rbf =>
    simp only [genDiag, genKappaDiag, rbfGenericDiagVec, Gen.KernelFormulas.rbfGenericDiag]
    rw [cb_rowDiv m d X1 X2 i i true true θ.ls (hls rfl) h1 h2 hm hi hj true (fun _ => rfl)]
  case rq =>
    simp only [genDiag, genKappaDiag, rqDiagVec, Gen.KernelFormulas.rqDiag]
    rw [cb_rowDiv m d X1 X2 i i true true θ.ls (hls rfl) h1 h2 hm hi hj true (fun _ => rfl)]
  case periodic =>
    simp only [genDiag, genKappaDiag, periodicDiagVec, Gen.KernelFormulas.periodicDiag]
    rw [cb_periodic m i i true true (fun _ => rfl) _ _ _ (by
      intro hm' _; have := hm hm'; subst this; rfl)]
  case polynomial => rfl
  case constant => rfl

end KernelPairwise

/-
RBFKernelGradGrad: the product over dimensions of signed Hermite factors, differentiated in one coordinate,
is the same product with the order of that dimension raised by one.  (Helpers of `Props/C05.lean`.)
-/
import GPVerif.Bridge.GradKernels

namespace Kernels
open Scalar

/-- raise the order applied to dimension `k` by one -/
def bump (o : ℕ → ℕ) (k : ℕ) : ℕ → ℕ := fun m => o m + (if m = k then 1 else 0)

/-- `ggProd` with the factor of dimension `k` (relative to the offset) left out -/
noncomputable def ggSkip (oa ob : ℕ → ℕ) : ℕ → List ℝ → List ℝ → List ℝ → ℕ → ℝ
  | 0, _ :: ls, _ :: a, _ :: b, m => ggProd oa ob ls a b (m + 1)
  | k + 1, l :: ls, x :: a, y :: b, m =>
      sgn (ob m) (gaussHermite (oa m + ob m) (x - y) l) * ggSkip oa ob k ls a b (m + 1)
  | _, _, _, _, _ => 1

theorem ggProd_cons (oa ob : ℕ → ℕ) (l x y : ℝ) (ls a b : List ℝ) (m : ℕ) :
    ggProd oa ob (l :: ls) (x :: a) (y :: b) m
      = sgn (ob m) (gaussHermite (oa m + ob m) (x - y) l) * ggProd oa ob ls a b (m + 1) := by
  simp [ggProd]

theorem ggProd_congr (oa oa' ob ob' : ℕ → ℕ) (ls a b : List ℝ) (m0 : ℕ)
    (ha : ∀ m, m0 ≤ m → oa m = oa' m) (hb : ∀ m, m0 ≤ m → ob m = ob' m) :
    ggProd oa ob ls a b m0 = ggProd oa' ob' ls a b m0 := by
  induction ls generalizing a b m0 with
  | nil => simp [ggProd]
  | cons l ls ih =>
    cases a with
    | nil => simp [ggProd]
    | cons x a =>
      cases b with
      | nil => simp [ggProd]
      | cons y b =>
        rw [ggProd_cons, ggProd_cons, ha m0 le_rfl, hb m0 le_rfl,
          ih a b (m0 + 1) (fun m hm => ha m (by omega)) (fun m hm => hb m (by omega))]

/-- coordinate `k` of the first row enters `ggProd` through exactly one factor -/
theorem ggProd_set_left (oa ob : ℕ → ℕ) (ls a b : List ℝ) (k m0 : ℕ) (x : ℝ)
    (ha : k < a.length) (hb : k < b.length) (hl : k < ls.length) :
    ggProd oa ob ls (a.set k x) b m0
      = ggSkip oa ob k ls a b m0
        * sgn (ob (m0 + k)) (gaussHermite (oa (m0 + k) + ob (m0 + k)) (x - b.getD k 0) (ls.getD k 1)) := by
  induction ls generalizing a b k m0 with
  | nil => simp at hl
  | cons l ls ih =>
    cases a with
    | nil => simp at ha
    | cons a0 a =>
      cases b with
      | nil => simp at hb
      | cons b0 b =>
        cases k with
        | zero => simp [ggProd_cons, ggSkip]; ring
        | succ k =>
          have := ih a b k (m0 + 1) (by simpa using ha) (by simpa using hb) (by simpa using hl)
          simp only [List.set_cons_succ, ggProd_cons, ggSkip, List.getD_cons_succ, this]
          have e : m0 + 1 + k = m0 + (k + 1) := by omega
          rw [e]; ring

theorem ggProd_set_right (oa ob : ℕ → ℕ) (ls a b : List ℝ) (k m0 : ℕ) (y : ℝ)
    (ha : k < a.length) (hb : k < b.length) (hl : k < ls.length) :
    ggProd oa ob ls a (b.set k y) m0
      = ggSkip oa ob k ls a b m0
        * sgn (ob (m0 + k)) (gaussHermite (oa (m0 + k) + ob (m0 + k)) (a.getD k 0 - y) (ls.getD k 1)) := by
  induction ls generalizing a b k m0 with
  | nil => simp at hl
  | cons l ls ih =>
    cases a with
    | nil => simp at ha
    | cons a0 a =>
      cases b with
      | nil => simp at hb
      | cons b0 b =>
        cases k with
        | zero => simp [ggProd_cons, ggSkip]; ring
        | succ k =>
          have := ih a b k (m0 + 1) (by simpa using ha) (by simpa using hb) (by simpa using hl)
          simp only [List.set_cons_succ, ggProd_cons, ggSkip, List.getD_cons_succ, this]
          have e : m0 + 1 + k = m0 + (k + 1) := by omega
          rw [e]; ring

/-- the omitted product does not see the orders at the omitted dimension -/
theorem ggSkip_congr (oa oa' ob ob' : ℕ → ℕ) (ls a b : List ℝ) (k m0 : ℕ)
    (ha : ∀ m, m ≠ m0 + k → oa m = oa' m) (hb : ∀ m, m ≠ m0 + k → ob m = ob' m) :
    ggSkip oa ob k ls a b m0 = ggSkip oa' ob' k ls a b m0 := by
  induction k generalizing ls a b m0 with
  | zero =>
    cases ls with
    | nil => simp [ggSkip]
    | cons l ls =>
      cases a with
      | nil => simp [ggSkip]
      | cons x a =>
        cases b with
        | nil => simp [ggSkip]
        | cons y b =>
          simp only [ggSkip]
          exact ggProd_congr _ _ _ _ _ _ _ _ (fun m hm => ha m (by omega)) (fun m hm => hb m (by omega))
  | succ k ih =>
    cases ls with
    | nil => simp [ggSkip]
    | cons l ls =>
      cases a with
      | nil => simp [ggSkip]
      | cons x a =>
        cases b with
        | nil => simp [ggSkip]
        | cons y b =>
          simp only [ggSkip]
          rw [ha m0 (by omega), hb m0 (by omega),
            ih ls a b (m0 + 1) (fun m hm => ha m (by omega)) (fun m hm => hb m (by omega))]

/-- 1-d core (n ≤ 3): `d/dt [hₙ(t)·exp(−t²/2ℓ²)] = hₙ₊₁(t)·exp(−t²/2ℓ²)` -/
theorem hasDerivAt_hermite_core (l t : ℝ) (hl : l ≠ 0) (n : ℕ) (hn : n ≤ 3) :
    HasDerivAt (fun t : ℝ => gaussHermite n t l * Real.exp (-(t ^ 2 / (2 * l ^ 2))))
      (gaussHermite (n + 1) t l * Real.exp (-(t ^ 2 / (2 * l ^ 2)))) t := by
  have hg : HasDerivAt (fun t : ℝ => Real.exp (-(t ^ 2 / (2 * l ^ 2))))
      (-(t / l ^ 2) * Real.exp (-(t ^ 2 / (2 * l ^ 2)))) t := by
    have := (((hasDerivAt_id t).pow 2).div_const (2 * l ^ 2)).neg.exp
    refine this.congr_deriv ?_
    simp; field_simp
  have hid := hasDerivAt_id t
  have hcases : n = 0 ∨ n = 1 ∨ n = 2 ∨ n = 3 := by omega
  rcases hcases with rfl | rfl | rfl | rfl
  · simp only [gaussHermite, lit_real, sq_real, npow_real]
    refine ((hasDerivAt_const t (((1 : ℚ) : ℝ))).mul hg).congr_deriv ?_
    push_cast; field_simp; ring
  · simp only [gaussHermite, lit_real, sq_real, npow_real]
    refine (((hid.mul_const (((1 : ℚ) : ℝ) / l ^ 2)).neg).mul hg).congr_deriv ?_
    simp only [Pi.neg_apply, id]; push_cast; field_simp; ring
  · simp only [gaussHermite, lit_real, sq_real, npow_real]
    refine ((((hid.pow 2).mul_const ((((1 : ℚ) : ℝ) / l ^ 2) ^ 2)).sub_const (((1 : ℚ) : ℝ) / l ^ 2)).mul hg).congr_deriv ?_
    simp only [Pi.pow_apply, id]; push_cast; field_simp; ring
  · simp only [gaussHermite, lit_real, sq_real, npow_real]
    refine ((((hid.const_mul (((3 : ℚ) : ℝ))).mul_const ((((1 : ℚ) : ℝ) / l ^ 2) ^ 2)).sub
      ((hid.pow 3).mul_const ((((1 : ℚ) : ℝ) / l ^ 2) ^ 3))).mul hg).congr_deriv ?_
    simp only [Pi.pow_apply, Pi.sub_apply, id]; push_cast; field_simp; ring

theorem sgn_real (n : ℕ) (x : ℝ) : sgn n x = (-1) ^ n * x := by
  unfold sgn
  rcases Nat.even_or_odd n with h | h
  · have : n % 2 ≠ 1 := by rw [Nat.even_iff.mp h]; decide
    rw [if_neg this, Even.neg_one_pow h, one_mul]
  · rw [if_pos (Nat.odd_iff.mp h), Odd.neg_one_pow h]; ring

/-- **∂/∂a_k**: the entry with row orders `oa` differentiates to the entry with row orders `bump oa k` -/
theorem hasDerivAt_ggEntry_left (oa ob : ℕ → ℕ) (ls a b : List ℝ) (k : ℕ) (x : ℝ)
    (ha : k < a.length) (hb : k < b.length) (hl : k < ls.length) (hl0 : ls.getD k 1 ≠ 0) (hn : oa k + ob k ≤ 3) :
    HasDerivAt (fun x => ggProd oa ob ls (a.set k x) b 0 * rbfSpec ls (a.set k x) b)
      (ggProd (bump oa k) ob ls (a.set k x) b 0 * rbfSpec ls (a.set k x) b) x := by
  have hR : ∀ x, rbfSpec ls (a.set k x) b = Real.exp (-(sqDistArd ls (a.set k (b.getD k 0)) b / 2))
      * Real.exp (-((x - b.getD k 0) ^ 2 / (2 * (ls.getD k 1) ^ 2))) := by
    intro x
    simp only [rbfSpec, exp_real, lit_real, sqDistArd_set_left ls a b k x ha hb hl]
    rw [← Real.exp_add]; congr 1; push_cast; field_simp; ring
  have hP : ∀ (o : ℕ → ℕ) x, ggProd o ob ls (a.set k x) b 0
      = ggSkip o ob k ls a b 0 * ((-1) ^ ob k * gaussHermite (o k + ob k) (x - b.getD k 0) (ls.getD k 1)) := by
    intro o x; rw [ggProd_set_left o ob ls a b k 0 x ha hb hl, sgn_real, zero_add]
  have hS : ggSkip (bump oa k) ob k ls a b 0 = ggSkip oa ob k ls a b 0 := by
    apply ggSkip_congr
    · intro m hm; have : m ≠ k := by simpa using hm
      simp [bump, this]
    · intro _ _; rfl
  have hb1 : bump oa k k + ob k = oa k + ob k + 1 := by simp [bump]; ring
  have hcore := (hasDerivAt_hermite_core (ls.getD k 1) (x - b.getD k 0) hl0 (oa k + ob k) hn).comp_sub_const x (b.getD k 0)
  have e : (fun x => ggProd oa ob ls (a.set k x) b 0 * rbfSpec ls (a.set k x) b) = fun x =>
      (ggSkip oa ob k ls a b 0 * (-1) ^ ob k * Real.exp (-(sqDistArd ls (a.set k (b.getD k 0)) b / 2)))
        * (gaussHermite (oa k + ob k) (x - b.getD k 0) (ls.getD k 1)
            * Real.exp (-((x - b.getD k 0) ^ 2 / (2 * (ls.getD k 1) ^ 2)))) := by
    funext x; rw [hP oa x, hR x]; ring
  rw [e, hP (bump oa k) x, hR x, hS, hb1]
  exact (hcore.const_mul _).congr_deriv (by ring)

/-- **∂/∂b_k**: the entry with column orders `ob` differentiates to the entry with column orders `bump ob k` -/
theorem hasDerivAt_ggEntry_right (oa ob : ℕ → ℕ) (ls a b : List ℝ) (k : ℕ) (y : ℝ)
    (ha : k < a.length) (hb : k < b.length) (hl : k < ls.length) (hl0 : ls.getD k 1 ≠ 0) (hn : oa k + ob k ≤ 3) :
    HasDerivAt (fun y => ggProd oa ob ls a (b.set k y) 0 * rbfSpec ls a (b.set k y))
      (ggProd oa (bump ob k) ls a (b.set k y) 0 * rbfSpec ls a (b.set k y)) y := by
  have hR : ∀ y, rbfSpec ls a (b.set k y) = Real.exp (-(sqDistArd ls a (b.set k (a.getD k 0)) / 2))
      * Real.exp (-((a.getD k 0 - y) ^ 2 / (2 * (ls.getD k 1) ^ 2))) := by
    intro y
    simp only [rbfSpec, exp_real, lit_real, sqDistArd_set_right ls a b k y ha hb hl]
    rw [← Real.exp_add]; congr 1; push_cast; field_simp; ring
  have hP : ∀ (o : ℕ → ℕ) y, ggProd oa o ls a (b.set k y) 0
      = ggSkip oa o k ls a b 0 * ((-1) ^ o k * gaussHermite (oa k + o k) (a.getD k 0 - y) (ls.getD k 1)) := by
    intro o y; rw [ggProd_set_right oa o ls a b k 0 y ha hb hl, sgn_real, zero_add]
  have hS : ggSkip oa (bump ob k) k ls a b 0 = ggSkip oa ob k ls a b 0 := by
    apply ggSkip_congr
    · intro _ _; rfl
    · intro m hm; have : m ≠ k := by simpa using hm
      simp [bump, this]
  have hb1 : oa k + bump ob k k = oa k + ob k + 1 := by simp [bump]; ring
  have hb2 : bump ob k k = ob k + 1 := by simp [bump]
  have hcore := (hasDerivAt_hermite_core (ls.getD k 1) (a.getD k 0 - y) hl0 (oa k + ob k) hn).comp_const_sub (a.getD k 0) y
  have e : (fun y => ggProd oa ob ls a (b.set k y) 0 * rbfSpec ls a (b.set k y)) = fun y =>
      (ggSkip oa ob k ls a b 0 * (-1) ^ ob k * Real.exp (-(sqDistArd ls a (b.set k (a.getD k 0)) / 2)))
        * (gaussHermite (oa k + ob k) (a.getD k 0 - y) (ls.getD k 1)
            * Real.exp (-((a.getD k 0 - y) ^ 2 / (2 * (ls.getD k 1) ^ 2)))) := by
    funext y; rw [hP ob y, hR y]; ring
  rw [e, hP (bump ob k) y, hR y, hS, hb1, hb2]
  exact (hcore.const_mul _).congr_deriv (by ring)

theorem ggOrder_le_two (d c m : ℕ) : ggOrder d c m ≤ 2 := by
  unfold ggOrder; split_ifs <;> omega

theorem bump_ggOrder_zero (d k : ℕ) (hk : k < d) : bump (ggOrder d 0) k = ggOrder d (k + 1) := by
  funext m
  simp only [bump, ggOrder]
  have h1 : k + 1 ≤ d := hk
  by_cases hm : m = k
  · subst hm; simp [h1]
  · have : ¬ (k = m) := fun h => hm h.symm
    simp [h1, hm, this]

theorem bump_ggOrder_first (d k : ℕ) (hk : k < d) : bump (ggOrder d (k + 1)) k = ggOrder d (d + k + 1) := by
  funext m
  simp only [bump, ggOrder]
  have h1 : k + 1 ≤ d := hk
  have h2 : ¬ (d + k + 1 ≤ d) := by omega
  have h3 : d + k + 1 - d - 1 = k := by omega
  by_cases hm : m = k
  · subst hm; simp [h1, h2, h3]
  · have : ¬ (k = m) := fun h => hm h.symm
    simp [h1, h2, h3, hm, this]

end Kernels

import Mathlib.Probability.Distributions.Gaussian.Real
import Mathlib.Probability.Moments.Variance
import Mathlib.Tactic.Ring
import Mathlib.Tactic.FieldSimp
import Mathlib.Tactic.Linarith
import Mathlib.Tactic.Positivity
import Mathlib.Tactic.NormNum

/-!
# Gaussian expectations used by the Gaussian likelihood

* `gaussian_sq_dev`        : `E_{x ~ N(m,v)} (y - x)^2 = (y - m)^2 + v`
* `expected_log_gaussian`  : `E_{f ~ N(μ,v)} log N(y; f, s)` in closed form
  (gpytorch's Gaussian `expected_log_prob`, per point)
* `log_expected_gaussian`  : `log E_{f ~ N(μ,v)} N(y; f, s) = log N(y; μ, v + s)`
  (gpytorch's Gaussian `log_marginal`, per point)
-/

open MeasureTheory ProbabilityTheory
open scoped NNReal

namespace GaussExpect

theorem integrable_sq_dev (y m : ℝ) (v : ℝ≥0) :
    Integrable (fun x : ℝ => (y - x) ^ 2) (gaussianReal m v) := by
  have hL2 : MemLp (fun x : ℝ => x) 2 (gaussianReal m v) :=
    memLp_id_gaussianReal (μ := m) (v := v) 2
  have : MemLp (fun x : ℝ => y - x) 2 (gaussianReal m v) := (memLp_const y).sub hL2
  simpa using this.integrable_sq

/-- `E_{x ~ N(m,v)} (y - x)^2 = (y - m)^2 + v`. -/
theorem gaussian_sq_dev (y m : ℝ) (v : ℝ≥0) :
    ∫ x, (y - x) ^ 2 ∂(gaussianReal m v) = (y - m) ^ 2 + v := by
  have hmean : ∫ x, x ∂(gaussianReal m v) = m := integral_id_gaussianReal
  have hvar : Var[fun x => x; gaussianReal m v] = v := variance_fun_id_gaussianReal
  have hL2 : MemLp (fun x : ℝ => x) 2 (gaussianReal m v) :=
    memLp_id_gaussianReal (μ := m) (v := v) 2
  have hint1 : Integrable (fun x : ℝ => x) (gaussianReal m v) := hL2.integrable (by norm_num)
  have hintsq : Integrable (fun x : ℝ => (x - m) ^ 2) (gaussianReal m v) := by
    have : MemLp (fun x : ℝ => x - m) 2 (gaussianReal m v) := hL2.sub (memLp_const m)
    simpa using this.integrable_sq
  have hv2 : ∫ x, (x - m) ^ 2 ∂(gaussianReal m v) = v := by
    rw [variance_eq_integral (by fun_prop)] at hvar
    simpa [hmean] using hvar
  have e : ∀ x : ℝ, (y - x) ^ 2 = (y - m) ^ 2 - 2 * (y - m) * (x - m) + (x - m) ^ 2 := by
    intro x; ring
  rw [show (fun x : ℝ => (y - x) ^ 2)
      = fun x => (y - m) ^ 2 - 2 * (y - m) * (x - m) + (x - m) ^ 2 from funext e]
  have hlin : Integrable (fun x : ℝ => 2 * (y - m) * (x - m)) (gaussianReal m v) :=
    (hint1.sub (integrable_const m)).const_mul _
  have hA : Integrable (fun x : ℝ => (y - m) ^ 2 - 2 * (y - m) * (x - m)) (gaussianReal m v) :=
    (integrable_const _).sub hlin
  have h1 := integral_add (μ := gaussianReal m v) hA hintsq
  have h2 := integral_sub (μ := gaussianReal m v) (integrable_const ((y - m) ^ 2)) hlin
  have h3 := integral_const_mul (μ := gaussianReal m v) (2 * (y - m)) (fun x : ℝ => x - m)
  have h4 := integral_sub (μ := gaussianReal m v) hint1 (integrable_const m)
  simp only [integral_const, smul_eq_mul] at h2 h4
  have hone : (gaussianReal m v).real Set.univ = 1 := by simp
  rw [h1, h2, h3, h4, hmean, hv2, hone]
  ring

/-- Pointwise form of the log-density of `N(f, s)` at `y`. -/
theorem log_gaussianPDFReal (f y : ℝ) (s : ℝ≥0) (hs : s ≠ 0) :
    Real.log (gaussianPDFReal f s y)
      = -(1/2) * Real.log (2 * Real.pi * s) - (y - f) ^ 2 / (2 * s) := by
  have hspos : (0 : ℝ) < s := by
    have : (0 : ℝ≥0) < s := pos_iff_ne_zero.mpr hs
    exact_mod_cast this
  have h2 : (0 : ℝ) < 2 * Real.pi * s := by positivity
  have hsq : (0 : ℝ) < √(2 * Real.pi * s) := Real.sqrt_pos.mpr h2
  unfold gaussianPDFReal
  rw [Real.log_mul (inv_ne_zero hsq.ne') (Real.exp_pos _).ne', Real.log_inv, Real.log_sqrt h2.le,
    Real.log_exp]
  ring

/-- `E_{f ~ N(μ,v)} log N(y; f, s)` in closed form: this is gpytorch's Gaussian
`expected_log_prob` per point. -/
theorem expected_log_gaussian (y μ : ℝ) (v s : ℝ≥0) (hs : s ≠ 0) :
    ∫ f, Real.log (gaussianPDFReal f s y) ∂(gaussianReal μ v)
      = -(1/2) * (((y - μ) * (y - μ) + v) / s + Real.log s + Real.log (2 * Real.pi)) := by
  have hspos : (0 : ℝ) < s := by
    have : (0 : ℝ≥0) < s := pos_iff_ne_zero.mpr hs
    exact_mod_cast this
  have h2pi : (0 : ℝ) < 2 * Real.pi := by positivity
  rw [show (fun f : ℝ => Real.log (gaussianPDFReal f s y))
      = fun f => -(1/2) * Real.log (2 * Real.pi * s) - (1 / (2 * s)) * (y - f) ^ 2 from
    funext fun f => by rw [log_gaussianPDFReal f y s hs]; ring]
  have hsq := integrable_sq_dev y μ v
  rw [integral_sub (integrable_const _) (hsq.const_mul _),
    integral_const_mul (1 / (2 * (s : ℝ))) (fun f : ℝ => (y - f) ^ 2),
    gaussian_sq_dev, integral_const]
  have hone : (gaussianReal μ v).real Set.univ = 1 := by simp
  rw [hone, Real.log_mul h2pi.ne' hspos.ne']
  simp only [smul_eq_mul]
  field_simp
  ring


/-- Completing the square: the product of the prior density `N(f; μ, v)` and the likelihood
`N(y; f, s)` is the marginal `N(y; μ, v + s)` times the posterior density in `f`. -/
theorem gaussianPDFReal_mul_gaussianPDFReal (y μ f : ℝ) (v s : ℝ≥0) (hv : v ≠ 0) (hs : s ≠ 0) :
    gaussianPDFReal μ v f * gaussianPDFReal f s y
      = gaussianPDFReal μ (v + s) y
        * gaussianPDFReal ((μ * s + y * v) / (v + s)) (v * s / (v + s)) f := by
  have hV : (0 : ℝ) < v := by exact_mod_cast pos_iff_ne_zero.mpr hv
  have hS : (0 : ℝ) < s := by exact_mod_cast pos_iff_ne_zero.mpr hs
  have hpi : (0 : ℝ) < Real.pi := Real.pi_pos
  simp only [gaussianPDFReal, NNReal.coe_add, NNReal.coe_div, NNReal.coe_mul]
  have e1 : (√(2 * Real.pi * (v : ℝ)))⁻¹ * (√(2 * Real.pi * (s : ℝ)))⁻¹
      = (√(2 * Real.pi * ((v : ℝ) + s)))⁻¹ * (√(2 * Real.pi * ((v : ℝ) * s / (v + s))))⁻¹ := by
    rw [← mul_inv, ← mul_inv, ← Real.sqrt_mul (by positivity), ← Real.sqrt_mul (by positivity)]
    congr 2
    field_simp
  have e2 : Real.exp (-(f - μ) ^ 2 / (2 * (v : ℝ))) * Real.exp (-(y - f) ^ 2 / (2 * (s : ℝ)))
      = Real.exp (-(y - μ) ^ 2 / (2 * ((v : ℝ) + s)))
        * Real.exp (-(f - (μ * s + y * v) / (v + s)) ^ 2 / (2 * ((v : ℝ) * s / (v + s)))) := by
    rw [← Real.exp_add, ← Real.exp_add]
    congr 1
    field_simp
    ring
  calc _ = ((√(2 * Real.pi * (v : ℝ)))⁻¹ * (√(2 * Real.pi * (s : ℝ)))⁻¹)
        * (Real.exp (-(f - μ) ^ 2 / (2 * (v : ℝ))) * Real.exp (-(y - f) ^ 2 / (2 * (s : ℝ)))) := by
        ring
    _ = _ := by rw [e1, e2]; ring

/-- `E_{f ~ N(μ,v)} N(y; f, s) = N(y; μ, v + s)` (Gaussian convolution, at the density level). -/
theorem expected_gaussianPDFReal (y μ : ℝ) (v s : ℝ≥0) (hs : s ≠ 0) :
    ∫ f, gaussianPDFReal f s y ∂(gaussianReal μ v) = gaussianPDFReal μ (v + s) y := by
  by_cases hv : v = 0
  · subst hv
    rw [gaussianReal_zero_var, integral_dirac, zero_add]
  · have hw : v * s / (v + s) ≠ 0 := by
      have : v + s ≠ 0 := by
        intro h; exact hv (add_eq_zero.mp h).1
      exact div_ne_zero (mul_ne_zero hv hs) this
    rw [integral_gaussianReal_eq_integral_smul hv]
    simp only [smul_eq_mul]
    rw [show (fun f : ℝ => gaussianPDFReal μ v f * gaussianPDFReal f s y)
        = fun f => gaussianPDFReal μ (v + s) y
            * gaussianPDFReal ((μ * s + y * v) / (v + s)) (v * s / (v + s)) f from
      funext fun f => gaussianPDFReal_mul_gaussianPDFReal y μ f v s hv hs]
    rw [integral_const_mul, integral_gaussianPDFReal_eq_one _ hw, mul_one]

/-- log of the Gaussian-convolved density: `log E_{f ~ N(μ,v)} N(y; f, s) = log N(y; μ, v+s)`:
gpytorch's Gaussian `log_marginal` per point. -/
theorem log_expected_gaussian (y μ : ℝ) (v s : ℝ≥0) (hs : s ≠ 0) :
    Real.log (∫ f, gaussianPDFReal f s y ∂(gaussianReal μ v))
      = -(1/2) * ((y - μ) * (y - μ) / (v + s) + Real.log (v + s) + Real.log (2 * Real.pi)) := by
  have hS : (0 : ℝ) < s := by exact_mod_cast pos_iff_ne_zero.mpr hs
  have hV : (0 : ℝ) ≤ v := v.coe_nonneg
  have hvs : (0 : ℝ) < (v : ℝ) + s := by linarith
  have h2pi : (0 : ℝ) < 2 * Real.pi := by positivity
  have h2 : (0 : ℝ) < 2 * Real.pi * ((v : ℝ) + s) := by positivity
  have hsq : (0 : ℝ) < √(2 * Real.pi * ((v : ℝ) + s)) := Real.sqrt_pos.mpr h2
  rw [expected_gaussianPDFReal y μ v s hs]
  simp only [gaussianPDFReal, NNReal.coe_add]
  rw [Real.log_mul (inv_ne_zero hsq.ne') (Real.exp_pos _).ne', Real.log_inv, Real.log_sqrt h2.le,
    Real.log_exp, Real.log_mul h2pi.ne' hvs.ne']
  field_simp
  ring

end GaussExpect

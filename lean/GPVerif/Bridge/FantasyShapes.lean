/-
Helper lemmas for `Props/C04Batch.lean` (core Lean only):

* `Expands` (torch `expand`-ability) is reflexive, transitive, and what `bcastR` produces;
* `bidxR_comp`: reading through two successive expansions is reading through the composite one;
* `run_slice`: **every** program of the IR of `Model/FantasyShapes.lean` is natural with respect to slicing — if the
  batched run succeeds and the run on the batch-rank-0 slices at index `e` succeeds, then every register whose batch
  shape expands to the reference shape `R` holds, at `bidxR · e`, exactly what the sliced run computes.
-/
import GPVerif.Model.FantasyShapes
import GPVerif.Bridge.BcastLemmas

namespace FShapes
open Bcast Choreo

variable {X : Type}

/-! ### `Expands` -/

theorem bdim_eq_right {a b : Nat} : bdim a b = some b ↔ (a = b ∨ a = 1) := by
  unfold bdim
  by_cases h : a = b
  · simp [h]
  · by_cases h1 : a = 1
    · simp [h, h1]
    · by_cases h2 : b = 1
      · simp [h, h1, h2]
      · simp [h, h1, h2]

theorem expands_nil_left (t : RShape) : Expands [] t := by simp [Expands, bcastR]

theorem expands_refl (s : RShape) : Expands s s := bcastR_self s

theorem not_expands_cons_nil (a : Nat) (as : RShape) : ¬ Expands (a :: as) [] := by
  simp [Expands, bcastR]

theorem expands_cons {a b : Nat} {as bs : RShape} :
    Expands (a :: as) (b :: bs) ↔ (a = b ∨ a = 1) ∧ Expands as bs := by
  unfold Expands
  constructor
  · intro h
    obtain ⟨d, r', hd, hr, he⟩ := bcastR_cons h
    have h1 : b = d := (List.cons.inj he).1
    have h2 : bs = r' := (List.cons.inj he).2
    subst h1; subst h2
    exact ⟨bdim_eq_right.mp hd, hr⟩
  · intro ⟨h1, h2⟩
    simp [bcastR, bdim_eq_right.mpr h1, h2]

theorem expands_length : ∀ {s t : RShape}, Expands s t → s.length ≤ t.length
  | [], _, _ => by simp
  | a :: as, [], h => absurd h (not_expands_cons_nil a as)
  | a :: as, b :: bs, h => by
    have := expands_length (expands_cons.mp h).2
    simp; omega

theorem expands_trans : ∀ {a b c : RShape}, Expands a b → Expands b c → Expands a c
  | [], _, c, _, _ => expands_nil_left c
  | x :: xs, [], _, h, _ => absurd h (not_expands_cons_nil x xs)
  | x :: xs, y :: ys, [], _, h => absurd h (not_expands_cons_nil y ys)
  | x :: xs, y :: ys, z :: zs, h1, h2 => by
    obtain ⟨d1, e1⟩ := expands_cons.mp h1
    obtain ⟨d2, e2⟩ := expands_cons.mp h2
    refine expands_cons.mpr ⟨?_, expands_trans e1 e2⟩
    rcases d1 with d1 | d1
    · rcases d2 with d2 | d2
      · exact Or.inl (d1.trans d2)
      · exact Or.inr (d1.trans d2)
    · exact Or.inr d1

theorem expands_append : ∀ (s t : RShape), Expands s (s ++ t)
  | [], t => expands_nil_left t
  | a :: as, t => expands_cons.mpr ⟨Or.inl rfl, expands_append as t⟩

theorem bdim_result {a b d : Nat} (h : bdim a b = some d) : (a = d ∨ a = 1) ∧ (b = d ∨ b = 1) := by
  unfold bdim at h
  by_cases h0 : a = b
  · simp [h0] at h; subst h0; subst h; exact ⟨Or.inl rfl, Or.inl rfl⟩
  · by_cases h1 : a = 1
    · simp [h0, h1] at h
      have h0' : ¬ (1 = b) := fun e => h0 (h1.trans e)
      simp [h0'] at h
      exact ⟨Or.inr h1, Or.inl h⟩
    · by_cases h2 : b = 1
      · simp [h0, h1, h2] at h; exact ⟨Or.inl h, Or.inr h2⟩
      · simp [h0, h1, h2] at h

/-- both operands of a broadcast expand to the result -/
theorem bcastR_expands : ∀ {a b r : RShape}, bcastR a b = some r → Expands a r ∧ Expands b r
  | [], b, r, h => by
    simp [bcastR] at h; subst h
    exact ⟨expands_nil_left _, expands_refl _⟩
  | a :: as, [], r, h => by
    simp [bcastR] at h; subst h
    exact ⟨expands_refl _, expands_nil_left _⟩
  | a :: as, b :: bs, r, h => by
    obtain ⟨d, r', hd, hr, rfl⟩ := bcastR_cons h
    obtain ⟨i1, i2⟩ := bcastR_expands hr
    obtain ⟨j1, j2⟩ := bdim_result hd
    exact ⟨expands_cons.mpr ⟨j1, i1⟩, expands_cons.mpr ⟨j2, i2⟩⟩

/-- broadcasting with a shape one expands to gives that shape -/
theorem bcastR_of_expands {a b : RShape} (h : Expands a b) : bcastR a b = some b := h

theorem bcastR_of_expands' {a b : RShape} (h : Expands a b) : bcastR b a = some b := by
  rw [bcastR_comm]; exact h

/-- **reading through two expansions = reading through the composite** (no range condition needed) -/
theorem bidxR_comp : ∀ {a b : RShape}, Expands a b → ∀ (e : RIdx), bidxR a (bidxR b e) = bidxR a e
  | [], _, _, _ => by simp [bidxR]
  | x :: xs, [], h, _ => absurd h (not_expands_cons_nil x xs)
  | x :: xs, y :: ys, _, [] => by simp [bidxR]
  | x :: xs, y :: ys, h, i :: is => by
    obtain ⟨d, hr⟩ := expands_cons.mp h
    simp only [bidxR, bidxR_comp hr is]
    rcases d with d | d
    · subst d
      by_cases hx : x = 1 <;> simp [hx]
    · simp [d]

theorem bidxR_nil (e : RIdx) : bidxR [] e = [] := by cases e <;> rfl

/-! ### shapes of the three combination rules -/

theorem bcastAll_expands : ∀ {l : List RShape} {s : RShape}, bcastAll l = some s → ∀ a ∈ l, Expands a s
  | [], _, _, a, ha => by simp at ha
  | x :: xs, s, h, a, ha => by
    simp only [bcastAll] at h
    cases hr : bcastAll xs with
    | none => simp [hr] at h
    | some r =>
      simp [hr] at h
      obtain ⟨e1, e2⟩ := bcastR_expands h
      rcases List.mem_cons.mp ha with rfl | ha'
      · exact e1
      · exact expands_trans (bcastAll_expands hr a ha') e2

theorem catRows_shape_some : ∀ {l : List RShape} {s : RShape}, Rule.catRows.shape l = some s →
    ∃ a b d, l = [a, b, d] ∧ s = b ∧ d = b ∧ Expands a b
  | [a, b, d], s, h => by
    simp only [Rule.shape] at h
    by_cases hc : (if a.length < b.length then bcastR a b = some b else a = b) ∧ d = b
    · rw [if_pos hc] at h
      have hs : b = s := by simpa using h
      refine ⟨a, b, d, rfl, hs.symm, hc.2, ?_⟩
      by_cases hl : a.length < b.length
      · have := hc.1; rw [if_pos hl] at this; exact this
      · have := hc.1; rw [if_neg hl] at this; rw [this]; exact expands_refl _
    · rw [if_neg hc] at h; simp at h
  | [], _, h => by simp [Rule.shape] at h
  | [_], _, h => by simp [Rule.shape] at h
  | [_, _], _, h => by simp [Rule.shape] at h
  | _ :: _ :: _ :: _ :: _, _, h => by simp [Rule.shape] at h

theorem equal_shape_some {x : RShape} {xs : List RShape} {s : RShape} (h : Rule.equal.shape (x :: xs) = some s) :
    x = s ∧ ∀ a ∈ xs, a = x := by
  simp only [Rule.shape] at h
  by_cases hall : xs.all (· == x) = true
  · rw [if_pos hall] at h
    refine ⟨by simpa using h, fun a ha => ?_⟩
    have := List.all_eq_true.mp hall a ha
    simpa using this
  · rw [if_neg hall] at h; simp at h

theorem Rule.shape_expands {rule : Rule} {l : List RShape} {s : RShape} (h : rule.shape l = some s) :
    ∀ a ∈ l, Expands a s := by
  cases rule with
  | bcast => exact bcastAll_expands h
  | equal =>
    cases l with
    | nil => intro a ha; simp at ha
    | cons x xs =>
      obtain ⟨hs, hall⟩ := equal_shape_some h
      subst hs
      intro a ha
      rcases List.mem_cons.mp ha with rfl | ha'
      · exact expands_refl _
      · rw [hall a ha']; exact expands_refl _
  | catRows =>
    obtain ⟨a, b, d, rfl, rfl, hd, ha⟩ := catRows_shape_some h
    intro y hy
    simp only [List.mem_cons, List.not_mem_nil, or_false] at hy
    rcases hy with rfl | rfl | rfl
    · exact ha
    · exact expands_refl _
    · rw [hd]; exact expands_refl _

theorem bcastAll_nil : ∀ {l : List RShape} {s : RShape}, (∀ x ∈ l, x = []) → bcastAll l = some s → s = []
  | [], _, _, h => by simp [bcastAll] at h; exact h
  | x :: xs, s, hl, h => by
    simp only [bcastAll] at h
    cases hr : bcastAll xs with
    | none => simp [hr] at h
    | some r =>
      have hr0 : r = [] := bcastAll_nil (fun y hy => hl y (List.mem_cons_of_mem _ hy)) hr
      have hx : x = [] := hl x (List.mem_cons_self ..)
      subst hr0; subst hx
      simp [hr, bcastR] at h
      exact h

theorem Rule.shape_nil {rule : Rule} {l : List RShape} {s : RShape} (hl : ∀ x ∈ l, x = [])
    (h : rule.shape l = some s) : s = [] := by
  cases rule with
  | bcast => exact bcastAll_nil hl h
  | equal =>
    cases l with
    | nil => simpa [Rule.shape] using h.symm
    | cons x xs =>
      obtain ⟨hs, _⟩ := equal_shape_some h
      rw [← hs]; exact hl x (List.mem_cons_self ..)
  | catRows =>
    obtain ⟨a, b, d, rfl, rfl, _, _⟩ := catRows_shape_some h
    exact hl _ (by simp)

/-! ### shape expressions on the sliced (batch-rank-0) environment -/

theorem SE_eval_nil {s : SE} (hok : SEok s = true) {args : List RShape} (hargs : ∀ x ∈ args, x = [])
    {v : RShape} (h : s.eval [] [] args = some v) : v = [] := by
  induction s generalizing v with
  | self => simpa [SE.eval] using h.symm
  | selfDrop k => simpa [SE.eval] using h.symm
  | orig => simpa [SE.eval] using h.symm
  | origDrop k => simpa [SE.eval] using h.symm
  | arg i =>
    simp only [SE.eval] at h
    exact hargs v (List.mem_of_getElem? h)
  | lit l =>
    simp only [SEok, List.isEmpty_iff] at hok
    subst hok
    simpa [SE.eval] using h.symm
  | cat a b iha ihb =>
    simp only [SEok, Bool.and_eq_true] at hok
    simp only [SE.eval] at h
    cases ha : a.eval [] [] args with
    | none => simp [ha] at h
    | some x =>
      cases hb : b.eval [] [] args with
      | none => simp [ha, hb] at h
      | some y =>
        simp [ha, hb] at h
        rw [← h, iha hok.1 ha, ihb hok.2 hb]; rfl
  | bcast a b iha ihb =>
    simp only [SEok, Bool.and_eq_true] at hok
    simp only [SE.eval] at h
    cases ha : a.eval [] [] args with
    | none => simp [ha] at h
    | some x =>
      cases hb : b.eval [] [] args with
      | none => simp [ha, hb] at h
      | some y =>
        simp [ha, hb] at h
        rw [iha hok.1 ha, ihb hok.2 hb] at h
        simpa [bcastR] using h.symm

/-! ### the slicing invariant -/

/-- what register contents `t` (batched run) and `u` (run on the slices at `e`) have to do with each other -/
def Rel (R : RShape) (e : RIdx) (t u : T X) : Prop :=
  Expands t.shape R → u.get [] = t.get (bidxR t.shape e)

structure Inv (R : RShape) (e : RIdx) (E S : Env X) : Prop where
  shp : ∀ s ∈ S.shp, s = []
  nat : ∀ k, S.nat k = 0
  sshape : ∀ m u, S.ten m = some u → u.shape = []
  rel : ∀ m t, E.ten m = some t → ∃ u, S.ten m = some u ∧ Rel R e t u

theorem upd_same {β : Type} (f : Nat → β) (k : Nat) (v : β) : upd f k v k = v := by simp [upd]
theorem upd_other {β : Type} (f : Nat → β) {k j : Nat} (v : β) (h : j ≠ k) : upd f k v j = f j := by simp [upd, h]

variable {R : RShape} {e : RIdx} {E S : Env X}

theorem Inv.setBoth (h : Inv R e E S) (d : Nat) {t u : T X} (hu : u.shape = []) (hr : Rel R e t u) :
    Inv R e (E.setT d t) (S.setT d u) := by
  refine ⟨h.shp, h.nat, ?_, ?_⟩
  · intro m u' hm
    by_cases hmd : m = d
    · subst hmd; simp [Env.setT, upd_same] at hm; subst hm; exact hu
    · simp [Env.setT, upd_other _ _ hmd] at hm; exact h.sshape m u' hm
  · intro m t' hm
    by_cases hmd : m = d
    · subst hmd; simp [Env.setT, upd_same] at hm; subst hm
      exact ⟨u, by simp [Env.setT, upd_same], hr⟩
    · simp [Env.setT, upd_other _ _ hmd] at hm
      obtain ⟨u', h1, h2⟩ := h.rel m t' hm
      exact ⟨u', by simp [Env.setT, upd_other _ _ hmd, h1], h2⟩

/-- only the batched run re-binds register `d` (in place) -/
theorem Inv.setLeft (h : Inv R e E S) (d : Nat) {t : T X} (hr : ∀ u, S.ten d = some u → Rel R e t u)
    (hdef : ∃ u, S.ten d = some u) : Inv R e (E.setT d t) S := by
  refine ⟨h.shp, h.nat, h.sshape, ?_⟩
  intro m t' hm
  by_cases hmd : m = d
  · subst hmd; simp [Env.setT, upd_same] at hm; subst hm
    obtain ⟨u, hu⟩ := hdef
    exact ⟨u, hu, hr u hu⟩
  · simp [Env.setT, upd_other _ _ hmd] at hm
    exact h.rel m t' hm

/-- only the sliced run re-binds register `d` (in place) -/
theorem Inv.setRight (h : Inv R e E S) (d : Nat) {u : T X} (hu : u.shape = [])
    (hr : ∀ t, E.ten d = some t → Rel R e t u) : Inv R e E (S.setT d u) := by
  refine ⟨h.shp, h.nat, ?_, ?_⟩
  · intro m u' hm
    by_cases hmd : m = d
    · subst hmd; simp [Env.setT, upd_same] at hm; subst hm; exact hu
    · simp [Env.setT, upd_other _ _ hmd] at hm; exact h.sshape m u' hm
  · intro m t' hm
    by_cases hmd : m = d
    · subst hmd
      exact ⟨u, by simp [Env.setT, upd_same], hr t' hm⟩
    · obtain ⟨u', h1, h2⟩ := h.rel m t' hm
      exact ⟨u', by simp [Env.setT, upd_other _ _ hmd, h1], h2⟩

theorem Inv.setShpRight (h : Inv R e E S) (d : Nat) : Inv R e E (S.setS d []) := by
  refine ⟨?_, h.nat, h.sshape, h.rel⟩
  intro s hs
  simp only [Env.setS] at hs
  rcases List.mem_or_eq_of_mem_set hs with h1 | h1
  · exact h.shp s h1
  · exact h1

theorem Inv.leftShp (h : Inv R e E S) (d : Nat) (v : RShape) : Inv R e (E.setS d v) S :=
  ⟨h.shp, h.nat, h.sshape, h.rel⟩

theorem Inv.leftNat (h : Inv R e E S) (f : Nat → Nat) : Inv R e { E with nat := f } S :=
  ⟨h.shp, h.nat, h.sshape, h.rel⟩

theorem Inv.leftBl (h : Inv R e E S) (f : Nat → Bool) : Inv R e { E with bl := f } S :=
  ⟨h.shp, h.nat, h.sshape, h.rel⟩

theorem Inv.rightBl (h : Inv R e E S) (f : Nat → Bool) : Inv R e E { S with bl := f } :=
  ⟨h.shp, h.nat, h.sshape, h.rel⟩

theorem Inv.rightNatZero (h : Inv R e E S) (d : Nat) : Inv R e E { S with nat := upd S.nat d 0 } := by
  refine ⟨h.shp, ?_, h.sshape, h.rel⟩
  intro k
  by_cases hk : k = d
  · subst hk; simp [upd_same]
  · simp [upd_other _ _ hk, h.nat k]

/-- `expand` on the batched side keeps the relation -/
theorem Rel.expand {t u : T X} {v : RShape} (hr : Rel R e t u) (hv : Expands t.shape v) : Rel R e (t.expand v) u := by
  intro hR
  have h1 : Expands t.shape R := expands_trans hv hR
  show u.get [] = t.get (bidxR t.shape (bidxR v e))
  rw [bidxR_comp hv, hr h1]

theorem Rel.expandNil {t u : T X} (hr : Rel R e t u) (hu : u.shape = []) : Rel R e t (u.expand []) := by
  intro hR
  show u.get (bidxR u.shape []) = _
  rw [hu]; exact hr hR

theorem NE_eval_zero {ne : NE} (hok : NEok ne = true) (h : Inv R e E S) {v : Nat} (hv : ne.eval S = some v) : v = 0 := by
  induction ne generalizing v with
  | rankS i =>
    simp only [NE.eval] at hv
    cases hs : S.shp[i]? with
    | none => simp [hs] at hv
    | some s =>
      simp [hs] at hv
      rw [h.shp s (List.mem_of_getElem? hs)] at hv
      simpa using hv.symm
  | dimT r k =>
    simp only [NEok, beq_iff_eq] at hok
    subst hok
    simp only [NE.eval] at hv
    cases hs : S.ten r with
    | none => simp [hs] at hv
    | some u =>
      simp [hs] at hv
      rw [h.sshape r u hs] at hv
      simpa using hv.symm
  | nat i => simp [NE.eval, h.nat i] at hv; exact hv.symm
  | lit n =>
    simp only [NEok, beq_iff_eq] at hok
    simp [NE.eval] at hv; omega
  | add a b iha ihb =>
    simp only [NEok, Bool.and_eq_true] at hok
    simp only [NE.eval] at hv
    cases ha : a.eval S with
    | none => simp [ha] at hv
    | some x =>
      cases hb : b.eval S with
      | none => simp [ha, hb] at hv
      | some y =>
        simp [ha, hb] at hv
        have := iha hok.1 ha; have := ihb hok.2 hb
        omega

/-! ### the arguments of a primitive -/

inductive All2 {A B : Type} (P : A → B → Prop) : List A → List B → Prop
  | nil : All2 P [] []
  | cons {a : A} {b : B} {as : List A} {bs : List B} : P a b → All2 P as bs → All2 P (a :: as) (b :: bs)

theorem getArgs_rel (h : Inv R e E S) : ∀ {args : List Nat} {ts : List (T X)}, getArgs E args = some ts →
    ∃ us, getArgs S args = some us ∧ All2 (fun t u => u.shape = [] ∧ Rel R e t u) ts us
  | [], ts, hg => by
    simp [getArgs] at hg; subst hg
    exact ⟨[], rfl, All2.nil⟩
  | r :: rs, ts, hg => by
    simp only [getArgs] at hg
    cases ht : E.ten r with
    | none => simp [ht] at hg
    | some t =>
      cases hrest : getArgs E rs with
      | none => simp [ht, hrest] at hg
      | some ts' =>
        simp [ht, hrest] at hg; subst hg
        obtain ⟨u, hu, hrel⟩ := h.rel r t ht
        obtain ⟨us, hus, hall⟩ := getArgs_rel h hrest
        exact ⟨u :: us, by simp [getArgs, hu, hus], All2.cons ⟨h.sshape r u hu, hrel⟩ hall⟩

theorem getArgs_shapes_nil (h : Inv R e E S) : ∀ {args : List Nat} {us : List (T X)}, getArgs S args = some us →
    ∀ x ∈ us.map (·.shape), x = []
  | [], us, hg => by simp [getArgs] at hg; subst hg; simp
  | r :: rs, us, hg => by
    simp only [getArgs] at hg
    cases ht : S.ten r with
    | none => simp [ht] at hg
    | some u =>
      cases hrest : getArgs S rs with
      | none => simp [ht, hrest] at hg
      | some us' =>
        simp [ht, hrest] at hg; subst hg
        intro x hx
        simp only [List.map_cons, List.mem_cons] at hx
        rcases hx with rfl | hx
        · exact h.sshape r u ht
        · exact getArgs_shapes_nil h hrest x hx

theorem map_get_eq {s : RShape} (hs : Expands s R) :
    ∀ {ts us : List (T X)}, All2 (fun t u => u.shape = [] ∧ Rel R e t u) ts us →
    (∀ a ∈ ts.map (·.shape), Expands a s) →
    ts.map (fun a => a.get (bidxR a.shape (bidxR s e))) = us.map (fun a => a.get (bidxR a.shape []))
  | _, _, All2.nil, _ => rfl
  | _, _, All2.cons (a := t) (b := u) hh ht, hexp => by
    have ht' := map_get_eq hs ht (fun a ha => hexp a (by simp at ha ⊢; exact Or.inr ha))
    have h1 : Expands t.shape s := hexp t.shape (by simp)
    simp only [List.map_cons, ht']
    congr 1
    rw [bidxR_comp h1, hh.1, bidxR_nil]
    exact (hh.2 (expands_trans h1 hs)).symm

theorem nary_rel (I : Nat → List X → X) (f : Nat) (rule : Rule) (h : Inv R e E S) {ts us : List (T X)}
    (hall : All2 (fun t u => u.shape = [] ∧ Rel R e t u) ts us)
    (hnil : ∀ x ∈ us.map (·.shape), x = [])
    {t u : T X} (ht : nary? I f rule ts = some t) (hu : nary? I f rule us = some u) :
    u.shape = [] ∧ Rel R e t u := by
  simp only [nary?] at ht hu
  cases hs : rule.shape (ts.map (·.shape)) with
  | none => simp [hs] at ht
  | some s =>
    cases hs' : rule.shape (us.map (·.shape)) with
    | none => simp [hs'] at hu
    | some s' =>
      simp [hs] at ht; simp [hs'] at hu
      subst ht; subst hu
      have hs0 : s' = [] := Rule.shape_nil hnil hs'
      refine ⟨hs0, ?_⟩
      intro hR
      show I f _ = I f _
      have := map_get_eq (e := e) hR hall (Rule.shape_expands hs)
      simp only at this ⊢
      rw [this]

/-! ### one statement -/

/-- a statement that may stand under a rank test, executed by the batched run only -/
theorem Op.inPlace_left (I : Nat → List X → X) (op : Op) (hip : op.inPlace = true) {E' : Env X}
    (h : Inv R e E S) (hE : op.run I E = some E') : Inv R e E' S := by
  cases op with
  | shapeSet dst s =>
    simp only [Op.run] at hE
    cases hv : s.eval [] [] E.shp with
    | none => simp [hv] at hE
    | some v => simp [hv] at hE; subst hE; exact h.leftShp _ _
  | shapeFront dst t k =>
    simp only [Op.run] at hE
    cases hx : E.ten t with
    | none => simp [hx] at hE
    | some x =>
      simp only [hx, Option.bind_some] at hE
      split at hE
      · simp at hE; subst hE; exact h.leftShp _ _
      · simp at hE
  | natSet dst ne =>
    simp only [Op.run] at hE
    cases hv : ne.eval E with
    | none => simp [hv] at hE
    | some v => simp [hv] at hE; subst hE; exact h.leftNat _
  | expand dst src s =>
    simp only [Op.inPlace, Bool.and_eq_true, beq_iff_eq] at hip
    obtain ⟨hds, _⟩ := hip
    subst hds
    simp only [Op.run] at hE
    cases hx : E.ten dst with
    | none => simp [hx] at hE
    | some x =>
      simp only [hx, Option.bind_some] at hE
      cases hv : s.eval x.shape x.shape E.shp with
      | none => simp [hv] at hE
      | some v =>
        simp only [hv, Option.bind_some, expandTo?] at hE
        split at hE
        · rename_i hexp
          simp at hE; subst hE
          obtain ⟨u, hu, hrel⟩ := h.rel dst x hx
          refine h.setLeft dst ?_ ⟨u, hu⟩
          intro u' hu'
          rw [hu] at hu'; cases hu'
          exact hrel.expand hexp
        · simp at hE
  | repeatB dst src front ones =>
    simp only [Op.inPlace, Bool.and_eq_true, beq_iff_eq] at hip
    obtain ⟨hds, _⟩ := hip
    subst hds
    simp only [Op.run] at hE
    cases hx : E.ten dst with
    | none => simp [hx] at hE
    | some x =>
      simp only [hx, Option.bind_some] at hE
      cases hv : front.eval x.shape x.shape E.shp with
      | none => simp [hv] at hE
      | some fr =>
        simp only [hv, Option.bind_some] at hE
        split at hE
        · simp at hE; subst hE
          obtain ⟨u, hu, hrel⟩ := h.rel dst x hx
          refine h.setLeft dst ?_ ⟨u, hu⟩
          intro u' hu'
          rw [hu] at hu'; cases hu'
          refine hrel.expand ?_
          exact expands_append _ _
        · simp at hE
  | shapeOf _ _ => simp [Op.inPlace] at hip
  | test _ _ => simp [Op.inPlace] at hip
  | guard _ => simp [Op.inPlace] at hip
  | guardBcast _ _ => simp [Op.inPlace] at hip
  | copy _ _ => simp [Op.inPlace] at hip
  | nary _ _ _ _ => simp [Op.inPlace] at hip
  | viewB _ _ _ => simp [Op.inPlace] at hip
  | when _ _ _ => simp [Op.inPlace] at hip

/-- … executed by the sliced run only: on batch rank 0 it is the identity -/
theorem Op.inPlace_right (I : Nat → List X → X) (op : Op) (hip : op.inPlace = true) {S' : Env X}
    (h : Inv R e E S) (hS : op.run I S = some S') : Inv R e E S' := by
  cases op with
  | shapeSet dst s =>
    simp only [Op.inPlace] at hip
    simp only [Op.run] at hS
    cases hv : s.eval [] [] S.shp with
    | none => simp [hv] at hS
    | some v =>
      simp [hv] at hS; subst hS
      rw [SE_eval_nil hip h.shp hv]; exact h.setShpRight _
  | shapeFront dst t k =>
    simp only [Op.run] at hS
    cases hx : S.ten t with
    | none => simp [hx] at hS
    | some x =>
      simp only [hx, Option.bind_some] at hS
      split at hS
      · simp at hS; subst hS
        rw [h.sshape t x hx]
        have hd : List.drop (([] : RShape).length - k) ([] : RShape) = [] := by simp
        rw [hd]; exact h.setShpRight _
      · simp at hS
  | natSet dst ne =>
    simp only [Op.inPlace] at hip
    simp only [Op.run] at hS
    cases hv : ne.eval S with
    | none => simp [hv] at hS
    | some v =>
      simp [hv] at hS; subst hS
      rw [NE_eval_zero hip h hv]; exact h.rightNatZero _
  | expand dst src s =>
    simp only [Op.inPlace, Bool.and_eq_true, beq_iff_eq] at hip
    obtain ⟨hds, hok⟩ := hip
    subst hds
    simp only [Op.run] at hS
    cases hx : S.ten dst with
    | none => simp [hx] at hS
    | some x =>
      have hx0 := h.sshape dst x hx
      simp only [hx, Option.bind_some, hx0] at hS
      cases hv : s.eval [] [] S.shp with
      | none => simp [hv] at hS
      | some v =>
        have hv0 := SE_eval_nil hok h.shp hv
        subst hv0
        simp only [hv, Option.bind_some, expandTo?, hx0] at hS
        split at hS
        · simp at hS; subst hS
          refine h.setRight dst rfl ?_
          intro t ht
          obtain ⟨u, hu, hrel⟩ := h.rel dst t ht
          rw [hx] at hu; cases hu
          exact hrel.expandNil hx0
        · simp at hS
  | repeatB dst src front ones =>
    simp only [Op.inPlace, Bool.and_eq_true, beq_iff_eq] at hip
    obtain ⟨hds, hok⟩ := hip
    subst hds
    simp only [Op.run] at hS
    cases hx : S.ten dst with
    | none => simp [hx] at hS
    | some x =>
      have hx0 := h.sshape dst x hx
      simp only [hx, Option.bind_some, hx0] at hS
      cases hv : front.eval [] [] S.shp with
      | none => simp [hv] at hS
      | some fr =>
        have hv0 := SE_eval_nil hok h.shp hv
        subst hv0
        simp only [hv, Option.bind_some, h.nat ones] at hS
        simp at hS; subst hS
        refine h.setRight dst rfl ?_
        intro t ht
        obtain ⟨u, hu, hrel⟩ := h.rel dst t ht
        rw [hx] at hu; cases hu
        exact hrel.expandNil hx0
  | shapeOf _ _ => simp [Op.inPlace] at hip
  | test _ _ => simp [Op.inPlace] at hip
  | guard _ => simp [Op.inPlace] at hip
  | guardBcast _ _ => simp [Op.inPlace] at hip
  | copy _ _ => simp [Op.inPlace] at hip
  | nary _ _ _ _ => simp [Op.inPlace] at hip
  | viewB _ _ _ => simp [Op.inPlace] at hip
  | when _ _ _ => simp [Op.inPlace] at hip

/-- one statement, executed by both runs -/
theorem Op.run_slice (I : Nat → List X → X) (op : Op) (hwf : op.wf = true) {E' S' : Env X}
    (h : Inv R e E S) (hE : op.run I E = some E') (hS : op.run I S = some S') : Inv R e E' S' := by
  cases op with
  | shapeOf dst t =>
    simp only [Op.run] at hE hS
    cases hx : E.ten t with
    | none => simp [hx] at hE
    | some x =>
      cases hy : S.ten t with
      | none => simp [hy] at hS
      | some y =>
        simp [hx] at hE; simp [hy] at hS; subst hE; subst hS
        rw [h.sshape t y hy]
        exact (h.leftShp _ _).setShpRight _
  | shapeSet dst s =>
    exact Op.inPlace_right I (.shapeSet dst s) (by simpa [Op.inPlace, Op.wf] using hwf)
      (Op.inPlace_left I (.shapeSet dst s) (by simpa [Op.inPlace, Op.wf] using hwf) h hE) hS
  | shapeFront dst t k =>
    exact Op.inPlace_right I (.shapeFront dst t k) rfl (Op.inPlace_left I (.shapeFront dst t k) rfl h hE) hS
  | natSet dst ne =>
    exact Op.inPlace_right I (.natSet dst ne) (by simpa [Op.inPlace, Op.wf] using hwf)
      (Op.inPlace_left I (.natSet dst ne) (by simpa [Op.inPlace, Op.wf] using hwf) h hE) hS
  | test dst c =>
    simp only [Op.run] at hE hS
    cases hx : c.eval E with
    | none => simp [hx] at hE
    | some x =>
      cases hy : c.eval S with
      | none => simp [hy] at hS
      | some y =>
        simp [hx] at hE; simp [hy] at hS; subst hE; subst hS
        exact (h.leftBl _).rightBl _
  | guard c =>
    simp only [Op.run] at hE hS
    cases hx : c.eval E with
    | none => simp [hx] at hE
    | some x =>
      cases hy : c.eval S with
      | none => simp [hy] at hS
      | some y =>
        simp only [hx, Option.bind_some] at hE; simp only [hy, Option.bind_some] at hS
        split at hE
        · split at hS
          · simp at hE hS; subst hE; subst hS; exact h
          · simp at hS
        · simp at hE
  | guardBcast a b =>
    simp only [Op.run] at hE hS
    split at hE
    · split at hE
      · split at hS
        · split at hS
          · simp at hE hS; subst hE; subst hS; exact h
          · simp at hS
        · simp at hS
      · simp at hE
    · simp at hE
  | copy dst src =>
    simp only [Op.run] at hE hS
    cases hx : E.ten src with
    | none => simp [hx] at hE
    | some x =>
      cases hy : S.ten src with
      | none => simp [hy] at hS
      | some y =>
        simp [hx] at hE; simp [hy] at hS; subst hE; subst hS
        obtain ⟨u, hu, hrel⟩ := h.rel src x hx
        rw [hy] at hu; cases hu
        exact h.setBoth dst (h.sshape src y hy) hrel
  | expand dst src s =>
    simp only [Op.wf] at hwf
    simp only [Op.run] at hE hS
    cases hx : E.ten src with
    | none => simp [hx] at hE
    | some x =>
      cases hy : S.ten src with
      | none => simp [hy] at hS
      | some y =>
        have hy0 := h.sshape src y hy
        simp only [hx, Option.bind_some] at hE
        simp only [hy, Option.bind_some, hy0] at hS
        cases hv : s.eval x.shape x.shape E.shp with
        | none => simp [hv] at hE
        | some v =>
          cases hw : s.eval [] [] S.shp with
          | none => simp [hw] at hS
          | some w =>
            have hw0 := SE_eval_nil hwf h.shp hw
            subst hw0
            simp only [hv, Option.bind_some, expandTo?] at hE
            simp only [hw, Option.bind_some, expandTo?, hy0] at hS
            split at hE
            · rename_i hexp
              split at hS
              · simp at hE hS; subst hE; subst hS
                obtain ⟨u, hu, hrel⟩ := h.rel src x hx
                rw [hy] at hu; cases hu
                exact h.setBoth dst rfl ((hrel.expand hexp).expandNil hy0)
              · simp at hS
            · simp at hE
  | nary dst args rule f =>
    simp only [Op.run] at hE hS
    cases hx : getArgs E args with
    | none => simp [hx] at hE
    | some ts =>
      cases hy : getArgs S args with
      | none => simp [hy] at hS
      | some us =>
        simp only [hx, Option.bind_some] at hE
        simp only [hy, Option.bind_some] at hS
        cases ht : nary? I f rule ts with
        | none => simp [ht] at hE
        | some t =>
          cases hu : nary? I f rule us with
          | none => simp [hu] at hS
          | some u =>
            simp [ht] at hE; simp [hu] at hS; subst hE; subst hS
            obtain ⟨us', hus', hall⟩ := getArgs_rel h hx
            rw [hy] at hus'; cases hus'
            obtain ⟨h1, h2⟩ := nary_rel I f rule h hall (getArgs_shapes_nil h hy) ht hu
            exact h.setBoth dst h1 h2
  | viewB dst src s =>
    simp only [Op.run] at hE hS
    cases hx : E.ten src with
    | none => simp [hx] at hE
    | some x =>
      cases hy : S.ten src with
      | none => simp [hy] at hS
      | some y =>
        simp only [hx, Option.bind_some] at hE
        simp only [hy, Option.bind_some] at hS
        cases hv : s.eval x.shape x.shape E.shp with
        | none => simp [hv] at hE
        | some v =>
          cases hw : s.eval y.shape y.shape S.shp with
          | none => simp [hw] at hS
          | some w =>
            simp only [hv, Option.bind_some] at hE
            simp only [hw, Option.bind_some] at hS
            split at hE
            · split at hS
              · simp at hE hS; subst hE; subst hS
                obtain ⟨u, hu, hrel⟩ := h.rel src x hx
                rw [hy] at hu; cases hu
                exact h.setBoth dst (h.sshape src y hy) hrel
              · simp at hS
            · simp at hE
  | repeatB dst src front ones =>
    simp only [Op.wf] at hwf
    simp only [Op.run] at hE hS
    cases hx : E.ten src with
    | none => simp [hx] at hE
    | some x =>
      cases hy : S.ten src with
      | none => simp [hy] at hS
      | some y =>
        have hy0 := h.sshape src y hy
        simp only [hx, Option.bind_some] at hE
        simp only [hy, Option.bind_some, hy0] at hS
        cases hv : front.eval x.shape x.shape E.shp with
        | none => simp [hv] at hE
        | some fr =>
          cases hw : front.eval [] [] S.shp with
          | none => simp [hw] at hS
          | some w =>
            have hw0 := SE_eval_nil hwf h.shp hw
            subst hw0
            simp only [hv, Option.bind_some] at hE
            simp only [hw, Option.bind_some, h.nat ones] at hS
            split at hE
            · simp at hE hS; subst hE; subst hS
              obtain ⟨u, hu, hrel⟩ := h.rel src x hx
              rw [hy] at hu; cases hu
              refine h.setBoth dst rfl ((hrel.expand ?_).expandNil hy0)
              exact expands_append _ _
            · simp at hE
  | when b v op =>
    simp only [Op.wf] at hwf
    simp only [Op.run] at hE hS
    by_cases h1 : E.bl b = v
    · by_cases h2 : S.bl b = v
      · simp only [h1, h2, if_true] at hE hS
        exact Op.inPlace_right I op hwf (Op.inPlace_left I op hwf h hE) hS
      · simp only [h1, if_true] at hE
        simp only [h2, if_false] at hS
        cases hS
        exact Op.inPlace_left I op hwf h hE
    · by_cases h2 : S.bl b = v
      · simp only [h1, if_false] at hE
        simp only [h2, if_true] at hS
        cases hE
        exact Op.inPlace_right I op hwf h hS
      · simp only [h1, if_false] at hE
        simp only [h2, if_false] at hS
        cases hE; cases hS; exact h

/-- **Naturality of every program with respect to slicing.** -/
theorem run_slice (I : Nat → List X → X) : ∀ (p : List Op), wfProg p = true → ∀ {E E' S S' : Env X},
    Inv R e E S → run I p E = some E' → run I p S = some S' → Inv R e E' S'
  | [], _, _, _, _, _, h, hE, hS => by
    simp [run] at hE hS; subst hE; subst hS; exact h
  | op :: ops, hwf, E, E', S, S', h, hE, hS => by
    simp only [wfProg, List.all_cons, Bool.and_eq_true] at hwf
    simp only [run] at hE hS
    cases h1 : op.run I E with
    | none => simp [h1] at hE
    | some E1 =>
      cases h2 : op.run I S with
      | none => simp [h2] at hS
      | some S1 =>
        simp only [h1, Option.bind_some] at hE
        simp only [h2, Option.bind_some] at hS
        exact run_slice I ops hwf.2 (Op.run_slice I op hwf.1 h h1 h2) hE hS

/-! ### the sliced initial environment -/

/-- every tensor register replaced by the batch-rank-0 tensor holding its element at `bidxR shape e` -/
def sliceEnv (E : Env X) (e : RIdx) : Env X :=
  { ten := fun m => (E.ten m).map fun t => ⟨[], fun _ => t.get (bidxR t.shape e)⟩
    shp := E.shp.map fun _ => []
    nat := fun _ => 0
    bl := E.bl }

theorem inv_sliceEnv (E : Env X) (R : RShape) (e : RIdx) : Inv R e E (sliceEnv E e) := by
  refine ⟨?_, fun _ => rfl, ?_, ?_⟩
  · intro s hs
    simp only [sliceEnv, List.mem_map] at hs
    obtain ⟨_, _, h⟩ := hs; exact h.symm
  · intro m u hu
    simp only [sliceEnv] at hu
    cases ht : E.ten m with
    | none => simp [ht] at hu
    | some t => simp [ht] at hu; subst hu; rfl
  · intro m t ht
    exact ⟨⟨[], fun _ => t.get (bidxR t.shape e)⟩, by simp [sliceEnv, ht], fun _ => rfl⟩

/-- element `e` of an output of the batched run is what the run on the slices at `e` computes -/
theorem slice_output (I : Nat → List X → X) (p : List Op) (hwf : wfProg p = true) {E E' S' : Env X} {e : RIdx}
    (hE : run I p E = some E') (hS : run I p (sliceEnv E e) = some S') {o : Nat} {t : T X} (ht : E'.ten o = some t)
    (he : InRange e t.shape) : ∃ u, S'.ten o = some u ∧ t.get e = u.get [] := by
  have inv := run_slice (R := t.shape) (e := e) I p hwf (inv_sliceEnv E t.shape e) hE hS
  obtain ⟨u, hu, hrel⟩ := inv.rel o t ht
  have h1 := hrel (expands_refl _)
  rw [bidxR_self he] at h1
  exact ⟨u, hu, h1.symm⟩

theorem sliceEnv_noiseEnv (n : Nat) (old new : T X) (e : RIdx) :
    sliceEnv (noiseEnv n old new) e = noiseEnv n (sliceT old e) (sliceT new e) := by
  simp only [sliceEnv, noiseEnv, List.map_replicate]
  congr 1
  funext r
  simp only [upd, sliceT, scalarT]
  repeat' split
  all_goals first | rfl | (exfalso; omega)

/-! ### the shape part of a run decides success and every shape (`runS` is `run` with the contents forgotten) -/

theorem abs_setT (E : Env X) (d : Nat) (t : T X) : (E.setT d t).abs = E.abs.setT d t.shape := by
  simp only [Env.abs, Env.setT, SEnv.setT]
  congr 1
  funext m
  by_cases h : m = d
  · subst h; simp [upd]
  · simp [upd, h]

theorem abs_setS (E : Env X) (d : Nat) (v : RShape) : (E.setS d v).abs = E.abs.setS d v := rfl

theorem NE_eval_abs (E : Env X) : ∀ (ne : NE), ne.eval E = ne.evalS E.abs
  | .rankS i => rfl
  | .dimT r k => by
    simp only [NE.eval, NE.evalS, Env.abs]
    cases E.ten r <;> rfl
  | .nat i => rfl
  | .lit n => rfl
  | .add a b => by simp only [NE.eval, NE.evalS, NE_eval_abs E a, NE_eval_abs E b]

theorem Cond_eval_abs (E : Env X) : ∀ (c : Cond), c.eval E = c.evalS E.abs
  | .eq a b => by simp only [Cond.eval, Cond.evalS, NE_eval_abs]
  | .lt a b => by simp only [Cond.eval, Cond.evalS, NE_eval_abs]
  | .le a b => by simp only [Cond.eval, Cond.evalS, NE_eval_abs]
  | .or c d => by simp only [Cond.eval, Cond.evalS, Cond_eval_abs E c, Cond_eval_abs E d]
  | .and c d => by simp only [Cond.eval, Cond.evalS, Cond_eval_abs E c, Cond_eval_abs E d]
  | .not c => by simp only [Cond.eval, Cond.evalS, Cond_eval_abs E c]

theorem getArgs_abs (E : Env X) : ∀ (args : List Nat),
    (getArgs E args).map (List.map (·.shape)) = getArgsS E.abs args
  | [] => rfl
  | r :: rs => by
    have ih := getArgs_abs E rs
    simp only [getArgs, getArgsS]
    have ht : E.abs.ten r = (E.ten r).map (·.shape) := rfl
    rw [ht, ← ih]
    cases E.ten r <;> cases getArgs E rs <;> rfl

theorem Op.run_abs (I : Nat → List X → X) : ∀ (op : Op) (E : Env X), (op.run I E).map Env.abs = op.runS E.abs
  | .shapeOf dst t, E => by
    simp only [Op.run, Op.runS]
    have ht : E.abs.ten t = (E.ten t).map (·.shape) := rfl
    rw [ht]; cases E.ten t <;> rfl
  | .shapeSet dst s, E => by
    simp only [Op.run, Op.runS]
    have : E.abs.shp = E.shp := rfl
    rw [this]; cases s.eval [] [] E.shp <;> rfl
  | .shapeFront dst t k, E => by
    simp only [Op.run, Op.runS]
    have ht : E.abs.ten t = (E.ten t).map (·.shape) := rfl
    rw [ht]
    cases E.ten t with
    | none => rfl
    | some x =>
      simp only [Option.bind_some, Option.map_some]
      split <;> rfl
  | .natSet dst ne, E => by
    simp only [Op.run, Op.runS, NE_eval_abs]
    cases ne.evalS E.abs <;> rfl
  | .test dst c, E => by
    simp only [Op.run, Op.runS, Cond_eval_abs]
    cases c.evalS E.abs <;> rfl
  | .guard c, E => by
    simp only [Op.run, Op.runS, Cond_eval_abs]
    cases c.evalS E.abs with
    | none => rfl
    | some v => cases v <;> rfl
  | .guardBcast a b, E => by
    simp only [Op.run, Op.runS]
    have : E.abs.shp = E.shp := rfl
    rw [this]
    cases E.shp[a]? with
    | none => rfl
    | some x =>
      cases E.shp[b]? with
      | none => rfl
      | some y =>
        simp only
        split <;> rfl
  | .copy dst src, E => by
    simp only [Op.run, Op.runS]
    have ht : E.abs.ten src = (E.ten src).map (·.shape) := rfl
    rw [ht]
    cases E.ten src with
    | none => rfl
    | some x => simp [abs_setT]
  | .expand dst src s, E => by
    simp only [Op.run, Op.runS]
    have ht : E.abs.ten src = (E.ten src).map (·.shape) := rfl
    have hs : E.abs.shp = E.shp := rfl
    rw [ht, hs]
    cases E.ten src with
    | none => rfl
    | some x =>
      simp only [Option.bind_some, Option.map_some]
      cases s.eval x.shape x.shape E.shp with
      | none => rfl
      | some v =>
        simp only [Option.bind_some, expandTo?]
        split
        · simp [abs_setT, T.expand]
        · rfl
  | .nary dst args rule f, E => by
    simp only [Op.run, Op.runS, ← getArgs_abs]
    cases getArgs E args with
    | none => rfl
    | some ts =>
      simp only [Option.bind_some, Option.map_some, nary?]
      cases rule.shape (ts.map (·.shape)) with
      | none => rfl
      | some v => simp [abs_setT]
  | .viewB dst src s, E => by
    simp only [Op.run, Op.runS]
    have ht : E.abs.ten src = (E.ten src).map (·.shape) := rfl
    have hs : E.abs.shp = E.shp := rfl
    rw [ht, hs]
    cases E.ten src with
    | none => rfl
    | some x =>
      simp only [Option.bind_some, Option.map_some]
      cases s.eval x.shape x.shape E.shp with
      | none => rfl
      | some v =>
        simp only [Option.bind_some]
        split
        · simp [abs_setT]
        · rfl
  | .repeatB dst src front ones, E => by
    simp only [Op.run, Op.runS]
    have ht : E.abs.ten src = (E.ten src).map (·.shape) := rfl
    have hs : E.abs.shp = E.shp := rfl
    have hn : E.abs.nat = E.nat := rfl
    rw [ht, hs, hn]
    cases E.ten src with
    | none => rfl
    | some x =>
      simp only [Option.bind_some, Option.map_some]
      cases front.eval x.shape x.shape E.shp with
      | none => rfl
      | some v =>
        simp only [Option.bind_some]
        split
        · simp [abs_setT, T.expand]
        · rfl
  | .when b v op, E => by
    simp only [Op.run, Op.runS]
    have hb : E.abs.bl = E.bl := rfl
    rw [hb]
    split
    · exact Op.run_abs I op E
    · rfl

/-- success of a run and every shape in its final environment are functions of the shapes alone -/
theorem run_abs (I : Nat → List X → X) : ∀ (p : List Op) (E : Env X), (run I p E).map Env.abs = runS p E.abs
  | [], _ => rfl
  | op :: ops, E => by
    simp only [run, runS, ← Op.run_abs I op E]
    cases op.run I E with
    | none => rfl
    | some E1 => simp only [Option.bind_some, Option.map_some]; exact run_abs I ops E1

theorem run_isSome_iff (I : Nat → List X → X) (p : List Op) (E : Env X) :
    (run I p E).isSome = (runS p E.abs).isSome := by
  rw [← run_abs I p E]; cases run I p E <;> rfl

theorem run_shape_of (I : Nat → List X → X) (p : List Op) {E E' : Env X} {A : SEnv} (h : run I p E = some E')
    (hA : runS p E.abs = some A) (m : Nat) : (E'.ten m).map (·.shape) = A.ten m := by
  have := run_abs I p E
  rw [h, hA] at this
  simp only [Option.map_some, Option.some.injEq] at this
  rw [← this]; rfl

theorem runS_append : ∀ (p q : List Op) (A : SEnv), runS (p ++ q) A = (runS p A).bind (runS q)
  | [], _, _ => rfl
  | op :: ops, q, A => by
    simp only [List.cons_append, runS]
    cases op.runS A with
    | none => rfl
    | some A1 => simp only [Option.bind_some]; exact runS_append ops q A1

/-! ### least upper bounds: broadcasting shapes that all expand to `s` stays below `s` -/

theorem expands_antisymm : ∀ {a b : RShape}, Expands a b → Expands b a → a = b
  | [], [], _, _ => rfl
  | [], y :: ys, _, h => absurd h (not_expands_cons_nil y ys)
  | x :: xs, [], h, _ => absurd h (not_expands_cons_nil x xs)
  | x :: xs, y :: ys, h1, h2 => by
    obtain ⟨d1, e1⟩ := expands_cons.mp h1
    obtain ⟨d2, e2⟩ := expands_cons.mp h2
    have := expands_antisymm e1 e2
    subst this
    have : x = y := by
      rcases d1 with d1 | d1
      · exact d1
      · rcases d2 with d2 | d2
        · exact d2.symm
        · rw [d1, d2]
    rw [this]

theorem bcastR_lub : ∀ {a b c : RShape}, Expands a c → Expands b c → ∃ r, bcastR a b = some r ∧ Expands r c
  | [], b, c, _, hb => ⟨b, by simp [bcastR], hb⟩
  | x :: xs, [], c, ha, _ => ⟨x :: xs, by simp [bcastR], ha⟩
  | x :: xs, y :: ys, [], ha, _ => absurd ha (not_expands_cons_nil x xs)
  | x :: xs, y :: ys, z :: zs, ha, hb => by
    obtain ⟨d1, e1⟩ := expands_cons.mp ha
    obtain ⟨d2, e2⟩ := expands_cons.mp hb
    obtain ⟨r, hr, hrz⟩ := bcastR_lub e1 e2
    have hd : ∃ d, bdim x y = some d ∧ (d = z ∨ d = 1) := by
      rcases d1 with d1 | d1 <;> rcases d2 with d2 | d2
      · exact ⟨z, by rw [d1, d2, bdim_self], Or.inl rfl⟩
      · exact ⟨z, by rw [d1, d2, bdim_one_right], Or.inl rfl⟩
      · exact ⟨z, by rw [d1, d2, bdim_one_left], Or.inl rfl⟩
      · exact ⟨1, by rw [d1, d2, bdim_self], Or.inr rfl⟩
    obtain ⟨d, hd1, hd2⟩ := hd
    exact ⟨d :: r, by simp [bcastR, hd1, hr], expands_cons.mpr ⟨hd2, hrz⟩⟩

theorem bcastAll_lub : ∀ {l : List RShape} {s : RShape}, (∀ a ∈ l, Expands a s) → ∃ r, bcastAll l = some r ∧ Expands r s
  | [], s, _ => ⟨[], rfl, expands_nil_left s⟩
  | x :: xs, s, h => by
    obtain ⟨r, hr, hrs⟩ := bcastAll_lub (l := xs) (fun a ha => h a (List.mem_cons_of_mem _ ha))
    obtain ⟨r', hr', hrs'⟩ := bcastR_lub (h x (List.mem_cons_self ..)) hrs
    exact ⟨r', by simp [bcastAll, hr, hr'], hrs'⟩

/-- broadcasting a family that contains its own upper bound gives that bound -/
theorem bcastAll_eq_of_mem {l : List RShape} {s : RShape} (h : ∀ a ∈ l, Expands a s) (hs : s ∈ l) :
    bcastAll l = some s := by
  obtain ⟨r, hr, hrs⟩ := bcastAll_lub h
  rw [hr, expands_antisymm hrs (bcastAll_expands hr s hs)]

theorem bcastAll_single (a : RShape) : bcastAll [a] = some a := by simp [bcastAll, bcastR_nil_right]

theorem bcastAll_pair (a b : RShape) : bcastAll [a, b] = bcastR a b := by simp [bcastAll, bcastR_nil_right]

theorem bcastR_append_self (s t : RShape) : bcastR s (s ++ t) = some (s ++ t) := expands_append s t

/-! ### initial environments -/

theorem map_upd_shape (f : Nat → Option (T X)) (k : Nat) (t : T X) :
    (fun m => (upd f k (some t) m).map (·.shape)) = upd (fun m => (f m).map (·.shape)) k (some t.shape) := by
  funext m
  by_cases h : m = k
  · subst h; simp [upd]
  · simp [upd, h]

/-- … in the case the theorems are about: everything that belongs to the model has the model's batch shape -/
theorem abs_fantasyEnv' (n : Nat) {trainX trainY xf yf theta ltt mc kw : T X} {mb : RShape}
    (h1 : trainX.shape = mb) (h2 : trainY.shape = mb) (h3 : theta.shape = mb) (h4 : ltt.shape = mb) (h5 : mc.shape = mb) :
    (fantasyEnv n trainX trainY xf yf theta ltt mc kw).abs = fantasySEnv n mb xf.shape yf.shape kw.shape := by
  simp only [Env.abs, fantasyEnv, fantasySEnv, map_upd_shape, h1, h2, h3, h4, h5]
  rfl

theorem abs_noiseEnv (n : Nat) (old new : T X) : (noiseEnv n old new).abs = noiseSEnv n old.shape new.shape := by
  simp only [Env.abs, noiseEnv, noiseSEnv, map_upd_shape]
  rfl

/-! ### symbolic execution of `runS`, one statement at a time -/

/-- weakest precondition of a run -/
def wp : List Op → SEnv → (SEnv → Prop) → Prop
  | [], A, post => post A
  | op :: ops, A, post => ∃ A1, op.runS A = some A1 ∧ wp ops A1 post

theorem wp_run {p : List Op} {A : SEnv} {post : SEnv → Prop} (h : wp p A post) : ∃ B, runS p A = some B ∧ post B := by
  induction p generalizing A with
  | nil => exact ⟨A, rfl, h⟩
  | cons op ops ih =>
    obtain ⟨A1, h1, h2⟩ := h
    obtain ⟨B, hB, hp⟩ := ih h2
    exact ⟨B, by simp [runS, h1, hB], hp⟩

theorem wp_step {op : Op} {ops : List Op} {A : SEnv} {post : SEnv → Prop} {A1 : SEnv} (h : op.runS A = some A1)
    (r : wp ops A1 post) : wp (op :: ops) A post := ⟨A1, h, r⟩

theorem runS_cons_inv {op : Op} {ops : List Op} {A B : SEnv} (h : runS (op :: ops) A = some B) :
    ∃ A1, op.runS A = some A1 ∧ runS ops A1 = some B := by
  simp only [runS] at h
  cases h1 : op.runS A with
  | none => simp [h1] at h
  | some A1 => exact ⟨A1, rfl, by simpa [h1] using h⟩

theorem runS_nil_inv {A B : SEnv} (h : runS [] A = some B) : A = B := by simpa [runS] using h

/-- normalises one `Op.runS` application on a state whose registers are explicit (hypotheses are used as rewrite rules) -/
macro "fsimp" : tactic =>
  `(tactic| simp only [Op.runS, SEnv.setS, SEnv.setT, upd, NE.evalS, Cond.evalS, SE.eval, getArgsS, Rule.shape, bcastAll_single,
      bcastAll_pair, Option.map_some, Option.bind_some, List.getElem?_cons_zero, List.getElem?_cons_succ, List.set_cons_zero,
      List.set_cons_succ, List.length_cons, List.length_nil, bcastR_nil_right, bcastR_self, bcastR_append_self, Expands,
      List.all_cons, List.all_nil, beq_self_eq_true, Bool.and_self, Bool.and_true, if_true, if_false, reduceIte, reduceCtorEq,
      Nat.reduceEqDiff, Nat.succ_ne_self, Bool.or_eq_true, Bool.and_eq_true, decide_eq_true_eq, Bool.not_eq_true',
      decide_eq_false_iff_not, Bool.true_eq_false, Bool.false_eq_true, decide_true, decide_false, Nat.add_zero, Nat.le_refl,
      Nat.sub_self, List.replicate_zero, List.append_nil, List.nil_append, and_true, true_and, Nat.lt_irrefl, false_or, or_false,
      true_or, or_true, Option.ite_none_right_eq_some, Option.some.injEq, Option.isSome_some, Option.isSome_none, *])

/-- one statement forward: the statement succeeds, the next state is computed -/
macro "fstep" : tactic =>
  `(tactic| (apply wp_step
             focus (fsimp; first | done | rfl | (refine And.intro ?_ ?_; (first | assumption | omega | simp [*]); rfl))))

theorem map_ite_some_none {α β : Type} (f : α → β) (c : Prop) [Decidable c] (x : α) (y : β) :
    (Option.map f (if c then some x else none) = some y) ↔ c ∧ f x = y := by
  by_cases h : c <;> simp [h]

theorem or_of_ite_true {c q : Prop} [Decidable c] (h : if c then True else q) : c ∨ q := by
  by_cases hc : c
  · exact Or.inl hc
  · exact Or.inr (by simpa [hc] using h)

theorem map_bcastR_eq_some {β : Type} (f : RShape → β) (a b : RShape) (y : β) :
    (Option.map f (bcastR a b) = some y) ↔ ∃ r, bcastR a b = some r ∧ f r = y := Option.map_eq_some_iff

theorem map_bcastAll_eq_some {β : Type} (f : RShape → β) (l : List RShape) (y : β) :
    (Option.map f (bcastAll l) = some y) ↔ ∃ r, bcastAll l = some r ∧ f r = y := Option.map_eq_some_iff

set_option hygiene false in
/-- one statement backward: from `h : runS (op :: ops) A = some B` to the condition under which `op` succeeds (kept as a
hypothesis), the next state substituted, and `h : runS ops A' = some B` -/
macro "bstep" : tactic =>
  `(tactic| (have h' := runS_cons_inv h
             clear h
             obtain ⟨A1, h1, h⟩ := h'
             simp only [Op.runS, SEnv.setS, SEnv.setT, upd, NE.evalS, Cond.evalS, SE.eval, getArgsS, Rule.shape, bcastAll_single,
               bcastAll_pair, Option.map_some, Option.bind_some, List.getElem?_cons_zero, List.getElem?_cons_succ,
               List.set_cons_zero, List.set_cons_succ, List.length_cons, List.length_nil, bcastR_nil_right, bcastR_self,
               bcastR_append_self, Expands, List.all_cons, List.all_nil, beq_self_eq_true, Bool.and_self, Bool.and_true, if_true,
               if_false, reduceIte, reduceCtorEq, Nat.reduceEqDiff, Nat.succ_ne_self, Bool.or_eq_true, Bool.and_eq_true,
               decide_eq_true_eq, Bool.not_eq_true', decide_eq_false_iff_not, Bool.true_eq_false, Bool.false_eq_true,
               decide_true, decide_false, Nat.add_zero, Nat.le_refl, Nat.sub_self, List.replicate_zero, List.append_nil,
               List.nil_append, and_true, true_and, Nat.lt_irrefl, false_or, or_false, true_or, or_true,
               Option.ite_none_right_eq_some, Option.some.injEq, Option.isSome_some, Option.isSome_none,
               map_bcastR_eq_some, map_bcastAll_eq_some, map_ite_some_none, beq_iff_eq, *] at h1
             first
               | subst h1
               | (obtain ⟨hc, h1⟩ := h1; subst h1)
               | (obtain ⟨a, ha, h1⟩ := h1; subst h1)
             try (obtain ⟨hcl, hcr⟩ := hc)
             try subst_vars))

end FShapes

/-
C08: a small IR for the shape choreographies of gpytorch's batched modules, and its L1 semantics (core Lean).

`harness/translate/g3_batch_choreography.py` reads the *sequences of tensor-shape operations themselves* off the
Python AST (`unsqueeze(k)`, `view(*shape, 1, 1)`, `expand(*batch_shape, 1, 1)`, `view(*shape[:k], -1)`, `sum(-1)`,
`sum(dim=tuple(range(k, ndim)))`, broadcasting `mul` / `div`, `sum(...)` / `.div_(len)` / `torch.stack(...).mean()`)
and writes them to `Gen/BatchChoreo.lean` as values of the types below.  The interpreter here gives them the
meaning of `Bcast` (shapes innermost-first); `drivers/C08.lean` runs the generated lists on `arange` tensors
against torch, and `Props/C08.lean` proves the `…_elementwise` statements about the generated lists.
-/
import GPVerif.Model.BatchOps

namespace Choreo
open Bcast

/-- symbolic shapes (written in torch order, evaluated innermost-first) -/
inductive SE where
  | self                    -- `x.shape` of the tensor being transformed
  | selfDrop (k : Nat)      -- `x.shape[:-k]`
  | orig                    -- shape of the parameter before the first operation
  | origDrop (k : Nat)      -- `param.shape[:-k]`
  | arg (i : Nat)           -- i-th shape argument of the choreography (e.g. the batch shape of the inputs)
  | lit (l : List Nat)      -- literal dimensions, torch order
  | cat (a b : SE)          -- `(*a, *b)`
  | bcast (a b : SE)        -- `torch.broadcast_shapes(a, b)`
  deriving Repr, DecidableEq, Inhabited

def SE.eval (cur orig : RShape) (args : List RShape) : SE → Option RShape
  | .self => some cur
  | .selfDrop k => some (cur.drop k)
  | .orig => some orig
  | .origDrop k => some (orig.drop k)
  | .arg i => args[i]?
  | .lit l => some l.reverse
  | .cat a b =>
    match a.eval cur orig args, b.eval cur orig args with
    | some x, some y => some (y ++ x)
    | _, _ => none
  | .bcast a b =>
    match a.eval cur orig args, b.eval cur orig args with
    | some x, some y => bcastR x y
    | _, _ => none

/-- unary shape operations on the tensor being transformed -/
inductive UOp where
  | unsqueeze (k : Nat)     -- `unsqueeze(-(k+1))`
  | unsqueezeAt (c : Nat)   -- `unsqueeze(c)` with a non-negative position counted from the front
  | view (s : SE)           -- `view(*s)`
  | expand (s : SE)         -- `expand(*s)`
  | viewKeep (v : Nat)      -- `view(*x.shape[:n], -1)` with `n` the v-th integer argument (e.g. `res_ndim`)
  | sumLast                 -- `sum(dim=-1)`
  | sumFrom (v : Nat)       -- `sum(dim=tuple(range(n, x.ndim)))`; torch sums over *everything* for the empty tuple
  deriving Repr, DecidableEq, Inhabited

variable {α β γ : Type}

/-- `t.sum(dim=-1)` -/
def sumLastT [Add α] [OfNat α 0] (t : T α) : T α :=
  ⟨t.shape.drop 1, fun idx => ((List.range (t.shape.headD 1)).map fun j => t.get (j :: idx)).foldr (· + ·) 0⟩

def UOp.run [Add α] [OfNat α 0] (orig : RShape) (args : List RShape) (nats : List Nat) (t : T α) : UOp → Option (T α)
  | .unsqueeze k => some (t.unsqueeze k)
  | .unsqueezeAt c => some (t.unsqueeze (t.shape.length - c))
  | .view s => (s.eval t.shape orig args).map t.view
  | .expand s => (s.eval t.shape orig args).map t.expand
  | .viewKeep v => (nats[v]?).map fun n =>
      let k := t.shape.length - n
      t.view (numel (t.shape.take k) :: t.shape.drop k)
  | .sumLast => some (sumLastT t)
  | .sumFrom v => (nats[v]?).map fun n =>
      let k := t.shape.length - n
      if k = 0 then t.sumInner t.shape.length else t.sumInner k

def runOps [Add α] [OfNat α 0] (orig : RShape) (args : List RShape) (nats : List Nat) : List UOp → T α → Option (T α)
  | [], t => some t
  | op :: ops, t => (op.run orig args nats t).bind (runOps orig args nats ops)

/-- parameter transformed by `ops`, then a broadcasting elementwise operation with the data (`data.op(param)`) -/
def runBinary [Add β] [OfNat β 0] (ops : List UOp) (f : α → β → γ) (data : T α) (param : T β)
    (args : List RShape) (nats : List Nat) : Option (T γ) :=
  (runOps param.shape args nats ops param).bind fun p => T.map2 f data p

/-- parameter transformed by `ops`, then `ConstantDiagLinearOperator(·, diag_shape=n)` -/
def runConstDiag [Add α] [OfNat α 0] (ops : List UOp) (zero : α) (param : T α) (args : List RShape) (n : Nat) : Option (T α) :=
  (runOps param.shape args [] ops param).map fun p => BatchOps.constantDiag zero p n

/-- the transformed parameter is the result -/
def runParam [Add α] [OfNat α 0] (ops : List UOp) (param : T α) (args : List RShape) (nats : List Nat) : Option (T α) :=
  runOps param.shape args nats ops param

/-! ### reductions over a list of member tensors (`SumMarginalLogLikelihood`) -/

inductive ROp where
  | pySum       -- Python `sum(iterable)`: left fold with `+` from `0`, elementwise
  | divLen      -- `.div_(len(self.mlls))`
  | stack       -- `torch.stack([...])` (new outermost dimension)
  | meanAll     -- `.mean()` over every dimension
  deriving Repr, DecidableEq, Inhabited

inductive RState (α : Type) where
  | members (l : List (T α))
  | single (t : T α) (count : Nat)

def ROp.run [Add α] [OfNat α 0] [Div α] [NatCast α] : ROp → RState α → Option (RState α)
  | .pySum, .members l =>
    some (.single ⟨(l.head?.map (·.shape)).getD [], fun idx => BatchOps.pySum (l.map (·.get idx))⟩ l.length)
  | .divLen, .single t k => some (.single ⟨t.shape, fun idx => t.get idx / (k : α)⟩ k)
  | .stack, .members l =>
    some (.single ⟨(l.head?.map (·.shape)).getD [] ++ [l.length],
                   fun idx => match l[idx.getLastD 0]? with
                     | some t => t.get idx.dropLast
                     | none => 0⟩ l.length)
  | .meanAll, .single t k =>
    some (.single ⟨[], fun _ => BatchOps.pySum t.toFlat / ((numel t.shape : Nat) : α)⟩ k)
  | _, _ => none

def runR [Add α] [OfNat α 0] [Div α] [NatCast α] : List ROp → RState α → Option (RState α)
  | [], s => some s
  | op :: ops, s => (op.run s).bind (runR ops)

def runSumMll [Add α] [OfNat α 0] [Div α] [NatCast α] (ops : List ROp) (members : List (T α)) : Option (T α) :=
  match runR ops (.members members) with
  | some (.single t _) => some t
  | _ => none

/-- how `IndependentModelList.forward` / `__call__` build their result -/
inductive ListForm where
  | zipCall     -- `[model(*args_) for model, args_ in zip(self.models, args)]`
  deriving Repr, DecidableEq, Inhabited

def ListForm.run {A B : Type} : ListForm → List (A → B) → List A → List B
  | .zipCall, models, args => BatchOps.modelListCall models args

end Choreo

/-
Line-protocol helpers shared by all drivers (core Lean only).
Numbers travel as exact rationals `num/den` (or plain integers); matrices as `rows cols v11 v12 …`.
-/

namespace Proto

def parseInt? (s : String) : Option Int := s.toInt?

def parseRat? (s : String) : Option Rat :=
  match s.splitOn "/" with
  | [a] => (a.toInt?).map fun (i : Int) => (i : Rat)
  | [a, b] => do
      let n ← a.toInt?
      let d ← b.toNat?
      if d = 0 then none else some (mkRat n d)
  | _ => none

def showRat (q : Rat) : String :=
  if q.den = 1 then toString q.num else s!"{q.num}/{q.den}"

def tokens (line : String) : List String :=
  (line.splitOn " ").filter (· ≠ "")

def parseRats? (ts : List String) : Option (List Rat) := ts.mapM parseRat?
def parseInts? (ts : List String) : Option (List Int) := ts.mapM parseInt?
def parseNats? (ts : List String) : Option (List Nat) := ts.mapM String.toNat?

/-- Take a matrix `r c v…` off the front of a token list: returns rows and the remaining tokens. -/
def takeMat? (ts : List String) : Option (Nat × Nat × Array (Array Rat) × List String) :=
  match ts with
  | r :: c :: rest => do
      let r ← r.toNat?
      let c ← c.toNat?
      if rest.length < r * c then none else
      let vals ← parseRats? (rest.take (r * c))
      let arr := vals.toArray
      let rows : Array (Array Rat) := Array.ofFn fun (i : Fin r) => Array.ofFn fun (j : Fin c) => arr[i.1 * c + j.1]!
      some (r, c, rows, rest.drop (r * c))
  | _ => none

def showRows (rows : List (List Rat)) : String :=
  let r := rows.length
  let c := (rows.head?.map List.length).getD 0
  s!"{r} {c} " ++ " ".intercalate (rows.flatten.map showRat)

/-- Generic stdin loop: one reply line per request line. -/
partial def loop (h : IO.FS.Stream) (out : IO.FS.Stream) (step : String → String) : IO Unit := do
  let line ← h.getLine
  if line.isEmpty then return ()
  let l := String.ofList (line.toList.filter (fun c => c ≠ '\n' && c ≠ '\r'))
  out.putStrLn (step l)
  loop h out step

def main (step : String → String) : IO Unit := do
  let i ← IO.getStdin
  let o ← IO.getStdout
  loop i o step
  o.flush

end Proto

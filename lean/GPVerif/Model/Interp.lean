/-
C09 — interpolation (`gpytorch/utils/interpolation.py`), hand-written part.

* L1 semantics of the torch shape operations that `Interpolation.interpolate` uses to combine the
  per-dimension indices / weights (`unsqueeze(-1)`, `repeat(1, a, b)`, `view(n, -1)`),
* boundary snapping helpers (`torch.min(|nodes − x|, 1)[1]` = first arg-min, one-hot rows),
* the d-dimensional assembly, parameterised by a `DimSpec` whose fields are REGENERATED from the Python
  source by `harness/translate/g4_interp_constants.py` (`GPVerif/Gen/Interp.lean`).

Everything is polymorphic in the scalar: executed at `ℚ` by `drivers/C09.lean`, proved about in
`Props/C09.lean` for every ordered field with a floor.
-/
import Mathlib.Algebra.Order.Floor.Ring
import Mathlib.Algebra.Order.Field.Basic

namespace Interp

variable {β : Type}

/-! ### torch shape operations on one row (positions are `Nat`; out-of-range positions never read) -/

/-- `t.unsqueeze(-1)`: a length-`nc` row becomes an `nc × 1` matrix. -/
def unsqueezeLast (t : Nat → β) : Nat → Nat → β := fun p _ => t p

/-- `m.repeat(1, a, b)` of an `nc × 1` matrix: the `(nc·a) × b` tiling `out[p][q] = m[p % nc][q % 1]`. -/
def repeatTile (nc : Nat) (m : Nat → Nat → β) : Nat → Nat → β := fun p q => m (p % nc) (q % 1)

/-- `m.view(n, -1)` of a matrix with `cols` columns: row-major flattening. -/
def viewFlat (cols : Nat) (m : Nat → Nat → β) : Nat → β := fun j => m (j / cols) (j % cols)

/-- `t.unsqueeze(-1).repeat(1, inner, outer).view(n, -1)` (the `inner` count only fixes the length
`nc·inner·outer`). -/
def repeatView (nc outer : Nat) (t : Nat → β) : Nat → β :=
  viewFlat outer (repeatTile nc (unsqueezeLast t))

theorem repeatView_apply (nc outer : Nat) (t : Nat → β) (j : Nat) :
    repeatView nc outer t j = t ((j / outer) % nc) := rfl

/-! ### boundary snapping helpers -/

section
variable {α : Type} [Field α] [LinearOrder α]

/-- `torch.min(|nodes − x|, 1)[1]` over `nodes 0 … nodes (nc-1)`: index of the FIRST minimal distance. -/
def argminAbs (nodes : Nat → α) (nc : Nat) (x : α) : Nat :=
  ((List.range nc).foldl (fun (best : Nat × Option α) k =>
      let dk := |nodes k - x|
      match best.2 with
      | none => (k, some dk)
      | some b => if dk < b then (k, some dk) else best) (0, none)).1

/-- row that is `1` at `k` and `0` elsewhere -/
def oneHot (k : Nat) : Nat → α := fun j => if j = k then 1 else 0

end

/-! ### d-dimensional assembly -/

/-- The pieces of `Interpolation.interpolate` that are regenerated from the source. -/
structure DimSpec (α : Type) where
  /-- number of interpolation coefficients per dimension (`len(interp_points)`) -/
  nc : Nat
  /-- one dimension, one target coordinate: `(grid, G, x) ↦ (lowest node index, weights k ↦ w_k)` -/
  dimInterp : (Nat → α) → Nat → α → Int × (Nat → α)
  /-- `offset = interp_points - interp_points.min()` -/
  offset : Nat → Int
  /-- which of the `nc` per-dimension entries lands at position `j` of the `nc^d` row, for dimension `i`
  of `d` (the `unsqueeze/repeat/view` pattern) -/
  srcOf : Nat → Nat → Nat → Nat
  /-- `index_coeff` (stride of dimension `i` in the flat grid index) -/
  indexCoeff : List Nat → Nat → Nat

variable {α : Type} [Field α]

/-- result of the per-dimension computation for dimension `i` (`(0, 0)` when `i` is out of range) -/
def perDim (S : DimSpec α) (grids : List (Nat × (Nat → α))) (x : List α) (i : Nat) : Int × (Nat → α) :=
  match grids[i]?, x[i]? with
  | some g, some xi => S.dimInterp g.2 g.1 xi
  | _, _ => (0, fun _ => 0)

/-- position `j` of one row of `(interp_indices, interp_values)`.  Follows the loop of the source: start
from `zeros` / `ones`, and for each dimension `add(idx.mul(index_coeff))` / `mul(values)`. -/
def entry (S : DimSpec α) (sizes : List Nat) (d : Nat) (per : Nat → Int × (Nat → α)) (j : Nat) : Int × α :=
  (List.range d).foldl (fun (acc : Int × α) i =>
      let k := S.srcOf d i j
      (acc.1 + ((per i).1 + S.offset k) * (S.indexCoeff sizes i : Int), acc.2 * (per i).2 k)) (0, 1)

/-- one row of `(interp_indices, interp_values)` for one target point `x` (a list of `d` coordinates);
`grids = [(G_i, grid_i)]`. -/
def interpolate (S : DimSpec α) (grids : List (Nat × (Nat → α))) (x : List α) : List (Int × α) :=
  let d := grids.length
  (List.range (S.nc ^ d)).map (entry S (grids.map (·.1)) d (perDim S grids x))

end Interp

/-
L1: Python / torch index expressions (core Lean only).

* `sliceIndices` is CPython's `slice.indices(n)`; `slicePositions` the positions `range(*slice.indices(n))`.
* `normInt` normalises a (possibly negative) integer index.
* `normalize` turns a user index expression (ints, slices, 1-D index tensors, one ellipsis; torch order,
  outermost first) into one normalised item per dimension of the indexed shape.
* `plan` is torch's result: the result shape and, for every result element in row-major order, the
  multi-index of the source element (ints are basic indices and are applied first; several index tensors
  are zipped; their common dimension stays in place when they are adjacent and moves to the front
  otherwise).
-/
import GPVerif.Model.Bcast

namespace PyIndex
open Bcast

inductive Item where
  | int (k : Int)
  | slice (s e st : Option Int)
  | tensor (l : List Int)
  | ellipsis
  deriving Repr, DecidableEq, Inhabited

/-- one item per dimension after normalisation: `pick` removes the dimension, `sel` keeps it with the listed
positions, `adv` is an index tensor (zipped with the other `adv`s) -/
inductive NItem where
  | pick (k : Nat)
  | sel (l : List Nat)
  | adv (l : List Nat)
  deriving Repr, DecidableEq, Inhabited

/-- the clamping of `slice.indices` -/
def clamp (n lower upper v : Int) : Int := if v < 0 then max (v + n) lower else min v upper

/-- CPython `slice.indices(n)`; `none` for step 0 (`ValueError`). -/
def sliceIndices (n : Nat) (s e st : Option Int) : Option (Int × Int × Int) :=
  let step := st.getD 1
  if step = 0 then none else
  let lower : Int := if step < 0 then -1 else 0
  let upper : Int := if step < 0 then (n : Int) - 1 else n
  let start := match s with
    | none => if step < 0 then upper else lower
    | some v => clamp n lower upper v
  let stop := match e with
    | none => if step < 0 then lower else upper
    | some v => clamp n lower upper v
  some (start, stop, step)

/-- `len(range(start, stop, step))` -/
def rangeLen (start stop step : Int) : Nat :=
  if 0 < step then (if start < stop then ((stop - start - 1) / step + 1).toNat else 0)
  else if step < 0 then (if stop < start then ((start - stop - 1) / (-step) + 1).toNat else 0)
  else 0

def rangePositions (start stop step : Int) : List Nat :=
  (List.range (rangeLen start stop step)).map fun (i : Nat) => (start + (i : Int) * step).toNat

def slicePositions (n : Nat) (s e st : Option Int) : Option (List Nat) :=
  (sliceIndices n s e st).map fun (a, b, c) => rangePositions a b c

/-- integer index `k` on an axis of length `n` (`IndexError` ↦ `none`) -/
def normInt (n : Nat) (k : Int) : Option Nat :=
  if 0 ≤ k ∧ k < n then some k.toNat
  else if -(n : Int) ≤ k ∧ k < 0 then some (k + n).toNat
  else none

def fullSlice : Item := .slice none none none

/-- expand the ellipsis and pad with full slices: exactly `rank` items, or `none` (too many indices /
two ellipses) -/
def expandItems (rank : Nat) (items : List Item) : Option (List Item) :=
  let nE := (items.filter (· == .ellipsis)).length
  let m := items.length - nE
  if nE > 1 ∨ m > rank then none else
  if nE = 1 then
    let pre := items.takeWhile (· != .ellipsis)
    let post := (items.dropWhile (· != .ellipsis)).drop 1
    some (pre ++ List.replicate (rank - m) fullSlice ++ post)
  else some (items ++ List.replicate (rank - m) fullSlice)

def normItem (n : Nat) : Item → Option NItem
  | .int k => (normInt n k).map .pick
  | .slice s e st => (slicePositions n s e st).map .sel
  | .tensor l => (l.mapM (normInt n)).map .adv
  | .ellipsis => none

def normZip : List Nat → List Item → Option (List NItem)
  | [], [] => some []
  | n :: ns, it :: its => do
      let a ← normItem n it
      let r ← normZip ns its
      some (a :: r)
  | _, _ => none

/-- user index expression on `shape` (torch order) ↦ one normalised item per dimension -/
def normalize (shape : List Nat) (items : List Item) : Option (List NItem) :=
  (expandItems shape.length items).bind (normZip shape)

/-! ### result of indexing -/

def isAdv : NItem → Bool | .adv _ => true | _ => false
def isPick : NItem → Bool | .pick _ => true | _ => false

/-- common length of the index tensors (`none`: they differ — torch would broadcast length 1, which the
harness does not generate) -/
def advLen (items : List NItem) : Option (Option Nat) :=
  items.foldl (fun acc it => match acc, it with
    | none, _ => none
    | some none, .adv l => some (some l.length)
    | some (some L), .adv l => if l.length = L then some (some L) else none
    | some a, _ => some a) (some none)

/-- the index tensors are adjacent once the integer indices have been applied -/
def advContiguous (items : List NItem) : Bool :=
  let ks := (items.filter (fun it => !isPick it)).map isAdv
  let trimmed := (ks.dropWhile (· == false)).reverse.dropWhile (· == false)
  trimmed.all (· == true)

/-- result axes: `some p` = the `sel` item at position `p`, `none` = the zipped index-tensor axis -/
def axes (items : List NItem) : List (Option Nat) :=
  let inPlace : List (Option Nat) :=
    (items.zipIdx.foldl (fun (acc : List (Option Nat) × Bool) (it, p) => match it with
      | .pick _ => acc
      | .sel _ => (acc.1 ++ [some p], acc.2)
      | .adv _ => if acc.2 then acc else (acc.1 ++ [none], true)) ([], false)).1
  if advContiguous items then inPlace else none :: inPlace.filter (·.isSome)

def axisLen (items : List NItem) (L : Nat) : Option Nat → Nat
  | none => L
  | some p => match items[p]? with
    | some (.sel l) => l.length
    | _ => 0

/-- source multi-index (torch order) of the result element `r` (torch order, aligned with `axes`) -/
def srcIndex (items : List NItem) (ax : List (Option Nat)) (r : List Nat) : List Nat :=
  let coord (a : Option Nat) : Nat := r.getD (ax.idxOf a) 0
  items.zipIdx.map fun (it, p) => match it with
    | .pick k => k
    | .sel l => l.getD (coord (some p)) 0
    | .adv l => l.getD (coord none) 0

structure Plan where
  shape : List Nat             -- result shape, torch order
  src : List (List Nat)        -- per result element (row-major): source multi-index, torch order
  deriving Repr

def planOf (items : List NItem) : Option Plan :=
  (advLen items).map fun oL =>
    let L := oL.getD 0
    let ax := axes items
    let shape := ax.map (axisLen items L)
    let rs := ofTorch shape
    ⟨shape, (allIdx rs).map fun r => srcIndex items ax (toTorch r)⟩

/-- `arange(numel shape).reshape(shape)[items]`: result shape and flat source offsets -/
def indexFlat (shape : List Nat) (items : List Item) : Option (List Nat × List Nat) :=
  (normalize shape items).bind fun nit => (planOf nit).map fun p =>
    (p.shape, p.src.map fun i => flat (ofTorch shape) (ofTorch i))

end PyIndex

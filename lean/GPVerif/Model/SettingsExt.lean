/-
L4 (C20, wave 3) — extensions of the settings model in `Model/Settings.lean` (which stays untouched):

* `XProg`: `Prog` plus the multi-manager statement `with a(..), b(..), …: body`, `contextlib.ExitStack`
  (`with ExitStack() as es: … es.enter_context(a(..)) …`) and its operational semantics with an explicit list of
  entered managers that is unwound in LIFO order (`unwind`).  The multi-manager form is defined OPERATIONALLY
  (enter left to right, remember what was entered, on a failing `__init__`/`__enter__` of a later manager unwind the
  earlier ones, otherwise run the body and unwind all) — that it equals the nested single-manager form is a theorem
  (`C20.withMany_eq_nested`), not the definition.
* `TEv` / `runThreads`: several threads acting on the ONE process-global store (the settings are class attributes):
  every thread has its own stack of entered managers, the store is shared.  Used to state what is NOT claimed
  (cross-thread isolation) and what the code documents instead (a block entered by one thread is visible in every
  other thread).

Core Lean only (executed by `drivers/C20.lean`).
-/
import GPVerif.Model.Settings

namespace Settings

/-- An entered manager: its class and the environment `__enter__` left behind (the instance's fields). -/
abbrev Entered := ClassDesc × Env

/-- Construct `d(args)` and call `__enter__` on the store `σ`.  `none`: the constructor or `__enter__` raised
(nothing is entered, Python does not call `__exit__`); the store returned is the one reached. -/
def enter1 (strict : Bool) (d : ClassDesc) (args : Frame) (σ : Store) : Store × Option Env :=
  let r0 := execAll ⟨σ, fun _ => none, args, strict⟩ d.m.init
  if r0.2 then (r0.1.store, none) else
  let r1 := execAll r0.1 d.m.enter
  if r1.2 then (r1.1.store, none) else (r1.1.store, some r1.1)

/-- Run the `__exit__`s of the entered managers, most recently entered first (= head of the list), each on the store
the previous one left.  All of them run even if one raises (Python: the new exception replaces the old one and
unwinding continues).  Returns the store and whether any `__exit__` raised. -/
def unwind : List Entered → Store → Store × Bool
  | [], σ => (σ, false)
  | (d, ρ) :: rest, σ =>
      let r2 := execAll { ρ with store := σ } d.m.exit
      let u := unwind rest r2.1.store
      (u.1, r2.2 || u.2)

/-- Enter the managers of one `with a, b, c:` statement left to right (each constructor runs AFTER the previous
manager has been entered — Python evaluates the items in order).  `acc`: managers already entered, most recent
first.  Stops at the first manager whose constructor or `__enter__` raises; the Boolean says whether all entered. -/
def enterMany (strict : Bool) : List (ClassDesc × Frame) → Store → List Entered → Store × List Entered × Bool
  | [], σ, acc => (σ, acc, true)
  | (d, a) :: rest, σ, acc =>
      match enter1 strict d a σ with
      | (σ', none) => (σ', acc, false)
      | (σ', some ρ) => enterMany strict rest σ' ((d, ρ) :: acc)

inductive XProg where
  | skip
  | probe
  | raise
  | seq (p q : XProg)
  | withC (d : ClassDesc) (args : Frame) (body : XProg)
  /-- `with d₁(a₁), d₂(a₂), …: body` -/
  | withMany (items : List (ClassDesc × Frame)) (body : XProg)
  /-- `with contextlib.ExitStack() as es: body` -/
  | stack (body : XProg)
  /-- `es.enter_context(d(args))` on the innermost enclosing `ExitStack` -/
  | enterCtx (d : ClassDesc) (args : Frame)
  /-- `try: p` / `except Exception: pass` — the program continues after an exception (re-entry after a failed block) -/
  | attempt (p : XProg)

structure XRes where
  store : Store
  raised : Bool
  trace : List Store
  /-- managers registered on the current `ExitStack` (most recent first) -/
  pend : List Entered

def XProg.run (strict : Bool) : XProg → Store → List Entered → List Store → XRes
  | .skip, σ, pd, tr => ⟨σ, false, tr, pd⟩
  | .probe, σ, pd, tr => ⟨σ, false, σ :: tr, pd⟩
  | .raise, σ, pd, tr => ⟨σ, true, tr, pd⟩
  | .seq p q, σ, pd, tr =>
      let r := p.run strict σ pd tr
      if r.raised then r else q.run strict r.store r.pend r.trace
  | .withC d args body, σ, pd, tr =>
      match enter1 strict d args σ with
      | (σ', none) => ⟨σ', true, tr, pd⟩
      | (σ', some ρ) =>
          let r := body.run strict σ' pd tr
          let u := unwind [(d, ρ)] r.store
          ⟨u.1, u.2 || r.raised, r.trace, r.pend⟩
  | .withMany items body, σ, pd, tr =>
      match enterMany strict items σ [] with
      | (σ', ent, true) =>
          let r := body.run strict σ' pd tr
          let u := unwind ent r.store
          ⟨u.1, u.2 || r.raised, r.trace, r.pend⟩
      | (σ', ent, false) =>
          -- a later manager failed to enter: the body does not run, the earlier managers are exited
          ⟨(unwind ent σ').1, true, tr, pd⟩
  | .stack body, σ, pd, tr =>
      let r := body.run strict σ [] tr
      let u := unwind r.pend r.store
      ⟨u.1, u.2 || r.raised, r.trace, pd⟩
  | .enterCtx d args, σ, pd, tr =>
      match enter1 strict d args σ with
      | (σ', none) => ⟨σ', true, tr, pd⟩
      | (σ', some ρ) => ⟨σ', false, tr, (d, ρ) :: pd⟩
  | .attempt p, σ, pd, tr =>
      let r := p.run strict σ pd tr
      ⟨r.store, false, r.trace, r.pend⟩

def XProg.classes : XProg → List ClassDesc
  | .skip | .probe | .raise => []
  | .seq p q => p.classes ++ q.classes
  | .withC d _ body => d :: body.classes
  | .withMany items body => items.map (·.1) ++ body.classes
  | .stack body => body.classes
  | .enterCtx d _ => [d]
  | .attempt p => p.classes

/-- Well-formed use of `ExitStack`: `es.enter_context(…)` occurs only at the statement level of the `with ExitStack()`
body (`b = true`), not inside a `with` block nested in it — otherwise the registered manager would outlive that inner
block, which is not well nested (and indeed not scoped: `C20.exitstack_escape_not_scoped`). -/
def XProg.wf : Bool → XProg → Bool
  | _, .skip | _, .probe | _, .raise => true
  | b, .seq p q => p.wf b && q.wf b
  | _, .withC _ _ body => body.wf false
  | _, .withMany _ body => body.wf false
  | _, .stack body => body.wf true
  | b, .enterCtx _ _ => b
  | b, .attempt p => p.wf b

/-- The single-manager programs of `Model/Settings.lean` inside `XProg`. -/
def XProg.ofProg : Prog → XProg
  | .skip => .skip
  | .probe => .probe
  | .raise => .raise
  | .seq p q => .seq (ofProg p) (ofProg q)
  | .withC d a body => .withC d a (ofProg body)

/-- `with d₁(a₁): with d₂(a₂): …: body` -/
def XProg.nest (items : List (ClassDesc × Frame)) (body : XProg) : XProg :=
  items.foldr (fun da acc => .withC da.1 da.2 acc) body

/-! ### Tabulated stores (driver speed only)

`initialStore classes c f` searches the class table on every lookup; the driver tabulates it once.  `ofTable (tabOf n σ) σ`
is the same function as `σ` (`C20.ofTable_tabOf`). -/

def tabOf (n : Nat) (σ : Store) : Array (Array Val) :=
  (Array.range n).map fun c => (Array.range n).map fun f => σ c f

def ofTable (tab : Array (Array Val)) (σ : Store) : Store := fun c f =>
  match tab[c]? with
  | some row => (match row[f]? with | some v => v | none => σ c f)
  | none => σ c f

/-! ### Threads over the one process-global store -/

inductive TEv where
  /-- thread `t` executes `cm = d(args); cm.__enter__()` (the head of a `with` statement) -/
  | enter (t : Nat) (d : ClassDesc) (args : Frame)
  /-- thread `t` leaves its innermost open block -/
  | exit (t : Nat)
  /-- thread `t` reads the settings -/
  | probe (t : Nat)

structure TState where
  store : Store
  /-- per thread: its open blocks, innermost first -/
  stacks : Nat → List Entered
  trace : List Store

def TEv.step (strict : Bool) (s : TState) : TEv → TState
  | .enter t d args =>
      match enter1 strict d args s.store with
      | (σ', none) => { s with store := σ' }
      | (σ', some ρ) => { s with store := σ', stacks := fun t' => if t' = t then (d, ρ) :: s.stacks t else s.stacks t' }
  | .exit t =>
      match s.stacks t with
      | [] => s
      | (d, ρ) :: rest =>
          { s with store := (execAll { ρ with store := s.store } d.m.exit).1.store,
                   stacks := fun t' => if t' = t then rest else s.stacks t' }
  | .probe _ => { s with trace := s.store :: s.trace }

/-- One global interleaving of the threads' events (the GIL serialises them). -/
def runThreads (strict : Bool) (evs : List TEv) (σ : Store) : TState :=
  evs.foldl (TEv.step strict) ⟨σ, fun _ => [], []⟩

end Settings

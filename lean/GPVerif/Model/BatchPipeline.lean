/-
C08 (wave 3): the batched evaluation of a model as an EXPRESSION TREE over the index-function tensors of `Bcast`
(core Lean, executable).

A batched tensor with `k` event dimensions has shape `ev ++ batch` (innermost-first, `ev.length = k`); its batch
element `b` is the event tensor `elem k t b`.  A node of the tree (`BOp1` / `BOp2`) carries

* `batched` — what the batched code does with the whole tensors (a GENERATED choreography of `Gen/BatchChoreo.lean`
  run by the `Choreo` interpreter, or a torch primitive such as batched matmul / Cholesky / solve), and
* `single`  — what a NON-batched replica does with one batch element (for the choreographies: literally the same
  generated op list run on the slices).

`BExpr.eval` evaluates the tree the batched way; `BExpr.evalAt b` evaluates it the replica way,
`fun b => pipeline (kernel b) (mean b) (noise b) (data b)`: every leaf is read at its own slice `bidxR leafBatch b` and
only `single` operations are applied.  `Props/C08Compose.lean` proves `elem (eval e) b = evalAt b e` for every tree
whose nodes act per batch element (`BOp2.PerElement`) — a theorem for the generated choreographies, the named
hypothesis for the torch primitives.
-/
import GPVerif.Model.ChoreoIR
import GPVerif.Gen.BatchChoreo

namespace Pipeline
open Bcast Choreo

variable {α : Type}

/-- canonical event tensor: entries outside the shape are `default`, so that two event tensors with the same shape and
the same in-range entries are EQUAL -/
def canon [Inhabited α] (s : RShape) (f : RIdx → α) : T α := ⟨s, fun e => if InRange e s then f e else default⟩

/-- batch element `b` of a tensor with `k` (innermost) event dimensions -/
def elem [Inhabited α] (k : Nat) (t : T α) (b : RIdx) : T α := canon (t.shape.take k) fun e => t.get (e ++ b)

def canonOpt [Inhabited α] : Option (T α) → T α
  | some t => canon t.shape t.get
  | none => ⟨[], fun _ => default⟩

/-- a unary batched operation on tensors with `k` event dimensions -/
structure BOp1 (α : Type) where
  k : Nat
  evOut : RShape → RShape                 -- event shape of the result
  pre : RShape → Prop                     -- admissible event shapes
  batched : T α → Option (T α)
  single : T α → T α

/-- a binary batched operation: operands with `ka` / `kb` event dimensions whose batch shapes broadcast -/
structure BOp2 (α : Type) where
  ka : Nat
  kb : Nat
  evOut : RShape → RShape → RShape
  pre : RShape → RShape → Prop
  batched : T α → T α → Option (T α)
  single : T α → T α → T α

/-- **acts per batch element**: the result has the broadcast batch shape and its element `idx` is the non-batched
operation applied to the operand's element `idx` -/
def BOp1.PerElement [Inhabited α] (op : BOp1 α) : Prop :=
  ∀ (a : T α) (ea ba : RShape), ea.length = op.k → a.shape = ea ++ ba → op.pre ea →
    ∃ t, op.batched a = some t ∧ t.shape = op.evOut ea ++ ba ∧
      ∀ idx, InRange idx ba → elem (op.evOut ea).length t idx = op.single (elem op.k a idx)

/-- **acts per batch element, with broadcasting of the batch dimensions**: element `idx` of the result is the
non-batched operation applied to element `bidxR ba idx` of the first and `bidxR bb idx` of the second operand -/
def BOp2.PerElement [Inhabited α] (op : BOp2 α) : Prop :=
  ∀ (a b : T α) (ea eb ba bb bs : RShape), ea.length = op.ka → eb.length = op.kb →
    a.shape = ea ++ ba → b.shape = eb ++ bb → op.pre ea eb → bcastR ba bb = some bs →
    ∃ t, op.batched a b = some t ∧ t.shape = op.evOut ea eb ++ bs ∧
      ∀ idx, InRange idx bs →
        elem (op.evOut ea eb).length t idx = op.single (elem op.ka a (bidxR ba idx)) (elem op.kb b (bidxR bb idx))

/-- expression trees over batched tensors -/
inductive BExpr (α : Type) where
  | leaf (t : T α) (k : Nat)                       -- an input (data or parameter) with `k` event dimensions
  | un (op : BOp1 α) (x : BExpr α)
  | bin (op : BOp2 α) (x y : BExpr α)

/-- the batched evaluation -/
def BExpr.eval : BExpr α → Option (T α)
  | .leaf t _ => some t
  | .un op x => x.eval.bind op.batched
  | .bin op x y =>
    match x.eval, y.eval with
    | some a, some b => op.batched a b
    | _, _ => none

/-- the replica evaluation at batch index `b` (an index of the final broadcast batch shape): every leaf is read at its
own slice, only non-batched operations are applied -/
def BExpr.evalAt [Inhabited α] (b : RIdx) : BExpr α → T α
  | .leaf t k => elem k t (bidxR (t.shape.drop k) b)
  | .un op x => op.single (x.evalAt b)
  | .bin op x y => op.single (x.evalAt b) (y.evalAt b)

/-- shape typing: `e.HasType ev bs` — `e` evaluates to a tensor with event shape `ev` and batch shape `bs` -/
inductive BExpr.HasType : BExpr α → RShape → RShape → Prop where
  | leaf {t : T α} {k : Nat} {ev bs : RShape} : ev.length = k → t.shape = ev ++ bs → HasType (.leaf t k) ev bs
  | un {op : BOp1 α} {x : BExpr α} {ea ba : RShape} : HasType x ea ba → ea.length = op.k → op.pre ea →
      HasType (.un op x) (op.evOut ea) ba
  | bin {op : BOp2 α} {x y : BExpr α} {ea eb ba bb bs : RShape} : HasType x ea ba → HasType y eb bb →
      ea.length = op.ka → eb.length = op.kb → op.pre ea eb → bcastR ba bb = some bs →
      HasType (.bin op x y) (op.evOut ea eb) bs

/-- every node of the tree acts per batch element -/
def BExpr.OpsPerElement [Inhabited α] : BExpr α → Prop
  | .leaf _ _ => True
  | .un op x => op.PerElement ∧ x.OpsPerElement
  | .bin op x y => op.PerElement ∧ x.OpsPerElement ∧ y.OpsPerElement

/-! ### nodes: the GENERATED choreographies

`single` is the SAME generated op list run on one batch element (what the non-batched replica executes). -/

section GenOps
open Gen.BatchChoreo
variable [Inhabited α] [Add α] [OfNat α 0]

/-- a generated binary choreography (`data.op(transformed parameter)`) -/
def choreo2 (ka kb : Nat) (evOut : RShape → RShape → RShape) (pre : RShape → RShape → Prop)
    (run : T α → T α → Option (T α)) : BOp2 α :=
  ⟨ka, kb, evOut, pre, run, fun a b => canonOpt (run a b)⟩

def choreo1 (k : Nat) (evOut : RShape → RShape) (pre : RShape → Prop) (run : T α → Option (T α)) : BOp1 α :=
  ⟨k, evOut, pre, run, fun a => canonOpt (run a)⟩

/-- `x.div(self.lengthscale)`: `x : (*xb, n, d)`, `lengthscale : (*kb, 1, d)` or `(*kb, 1, 1)` -/
def lsDivOp (f : α → α → α) : BOp2 α :=
  choreo2 2 2 (fun ea _ => ea) (fun ea eb => ∃ d n, ea = [d, n] ∧ (eb = [d, 1] ∨ eb = [1, 1]))
    fun x ℓ => runBinary lengthscaleDivOps f x ℓ [] []

/-- `ScaleKernel.forward`, full matrix: `K : (*kb, n, m)`, `outputscale : (*ob)` -/
def scaleOp (f : α → α → α) : BOp2 α :=
  choreo2 2 0 (fun ea _ => ea) (fun _ _ => True) fun K os => runBinary scaleFullOps f K os [] []

/-- `ScaleKernel.forward(diag=True)`: `Kd : (*kb, n)` -/
def scaleDiagOp (f : α → α → α) : BOp2 α :=
  choreo2 1 0 (fun ea _ => ea) (fun _ _ => True) fun K os => runBinary scaleDiagOps f K os [] []

/-- `RQKernel.forward`, full matrix: `dist : (*db, n, m)`, `alpha : (*kb, 1)` -/
def rqOp (f : α → α → α) (distRank kbRank : Nat) : BOp2 α :=
  choreo2 2 1 (fun ea _ => ea) (fun _ eb => eb = [1])
    fun dist alpha => runBinary (rqAlphaOps false false distRank kbRank) f dist alpha [] []

def rqDiagOp (f : α → α → α) (distRank kbRank : Nat) : BOp2 α :=
  choreo2 1 1 (fun ea _ => ea) (fun _ eb => eb = [1])
    fun dist alpha => runBinary (rqAlphaOps true false distRank kbRank) f dist alpha [] []

/-- `_HomoskedasticNoiseBase.forward` (`num_tasks = 1`): `noise : (*nb, 1)`; the second operand is the tensor whose shape
`(*xb, n)` the likelihood is called with (the mean) — only its shape is read -/
def noiseOp (zero : α) : BOp2 α :=
  choreo2 1 1 (fun _ eb => [eb.headD 0, eb.headD 0]) (fun ea _ => ea = [1])
    fun noise μ => runConstDiag homoNoiseOps zero noise [μ.shape.drop 1] (μ.shape.headD 0)

/-- `ConstantMean.forward`: `constant : (*mb)`; the second operand is the input `x : (*xb, n, d)` — only its shape is read -/
def constMeanOp : BOp2 α :=
  choreo2 0 2 (fun _ eb => [eb.getD 1 0]) (fun _ _ => True)
    fun c x => runParam constantMeanOps c [x.shape.drop 1] []

/-- the per-batch prior reduction of `ExactMarginalLogLikelihood._add_other_terms` on a prior term with `k` trailing
(non-batch) dimensions -/
def priorReduceOp (k : Nat) : BOp1 α :=
  choreo1 k (fun _ => []) (fun _ => True) fun t => runParam exactPriorOps t [] [t.shape.length - k]

/-- … and of `_ApproximateMarginalLogLikelihood.forward` -/
def approxPriorReduceOp (k : Nat) : BOp1 α :=
  choreo1 k (fun _ => []) (fun _ => True) fun t => runParam approxPriorOps t [] [t.shape.length - k]

/-- any broadcasting elementwise torch operation on operands with `k` event dimensions each (`K + noise`, `y - mean`) -/
def map2Op (k : Nat) (f : α → α → α) : BOp2 α :=
  choreo2 k k (fun ea eb => (bcastR ea eb).getD []) (fun ea eb => (bcastR ea eb).isSome) fun a b => T.map2 f a b

/-- a torch elementwise operation on operands with the SAME event shape (`K + noise`, `y - mean`, `mean* + K* α`) -/
def ewOp (k : Nat) (f : α → α → α) : BOp2 α :=
  choreo2 k k (fun ea _ => ea) (fun ea eb => ea = eb) fun a b => T.map2 f a b

end GenOps

/-! ### the exact-GP pipeline (ScaleKernel(stationary kernel) + ConstantMean + homoskedastic Gaussian noise)

torch's batched linear algebra enters through four primitives; for each, `…B` is the batched operation on whole tensors
and `…S` the operation on one batch element.  Shapes innermost-first: inputs `x : (*b, n, d)` are `[d, n] ++ b`, a
covariance `K(x1, x2) : (*b, n1, n2)` is `[n2, n1] ++ b`. -/

structure TorchPrims (α : Type) where
  kernB : T α → T α → Option (T α)      -- `(x1/ℓ, x2/ℓ) ↦ k(x1, x2)`: batched `cdist` / matmul + pointwise function
  kernS : T α → T α → T α
  solveB : T α → T α → Option (T α)     -- `(K_y, r) ↦ K_y⁻¹ r`: batched Cholesky + triangular solves
  solveS : T α → T α → T α
  matvecB : T α → T α → Option (T α)    -- `(K_*, a) ↦ K_* a`: batched matmul
  matvecS : T α → T α → T α
  logProbB : T α → T α → Option (T α)   -- `(K_y, r) ↦ log N(r; 0, K_y)`: batched Cholesky, log-determinant, solve
  logProbS : T α → T α → T α

namespace TorchPrims
variable (P : TorchPrims α)

def kern : BOp2 α := ⟨2, 2, fun ea eb => [eb.getD 1 0, ea.getD 1 0], fun ea eb => ea.headD 0 = eb.headD 0, P.kernB, P.kernS⟩
def solve : BOp2 α := ⟨2, 1, fun _ eb => eb, fun ea eb => ea = [eb.headD 0, eb.headD 0], P.solveB, P.solveS⟩
def matvec : BOp2 α := ⟨2, 1, fun ea _ => [ea.getD 1 0], fun ea eb => ea.headD 0 = eb.headD 0, P.matvecB, P.matvecS⟩
def logProb : BOp2 α := ⟨2, 1, fun _ _ => [], fun ea eb => ea = [eb.headD 0, eb.headD 0], P.logProbB, P.logProbS⟩

/-- **the assumption about torch**: its batched matmul / Cholesky / solve act per batch element, broadcasting the batch
dimensions of their operands -/
def ActPerBatchElement [Inhabited α] : Prop :=
  P.kern.PerElement ∧ P.solve.PerElement ∧ P.matvec.PerElement ∧ P.logProb.PerElement

end TorchPrims

/-- the batched operation that, BY DEFINITION, applies `single` to every batch element (with broadcasting of the batch
dimensions) — what the assumption says torch's primitives are -/
def liftB [Inhabited α] (ka kb : Nat) (evOut : RShape → RShape → RShape) (single : T α → T α → T α) (a b : T α) : Option (T α) :=
  (bcastR (a.shape.drop ka) (b.shape.drop kb)).map fun bs =>
    let eo := evOut (a.shape.take ka) (b.shape.take kb)
    ⟨eo ++ bs, fun full =>
      (single (elem ka a (bidxR (a.shape.drop ka) (full.drop eo.length)))
              (elem kb b (bidxR (b.shape.drop kb) (full.drop eo.length)))).get (full.take eo.length)⟩

/-- the scalar operations of the pipeline -/
structure ScalarOps (α : Type) where
  div : α → α → α
  mul : α → α → α
  add : α → α → α
  sub : α → α → α
  zero : α

/-- the inputs of a (batched or non-batched) exact GP: training inputs / targets, test inputs, lengthscale, outputscale,
mean constant, noise -/
structure GPInputs (α : Type) where
  x : T α
  y : T α
  xs : T α
  ℓ : T α
  os : T α
  c : T α
  σ : T α

section ExactGP
variable [Inhabited α] [Add α] [OfNat α 0] (P : TorchPrims α) (S : ScalarOps α) (I : GPInputs α)

def priorMeanE (x : T α) : BExpr α := .bin constMeanOp (.leaf I.c 0) (.leaf x 2)

def kernelE (x1 x2 : T α) : BExpr α :=
  .bin (scaleOp S.mul)
    (.bin P.kern (.bin (lsDivOp S.div) (.leaf x1 2) (.leaf I.ℓ 2)) (.bin (lsDivOp S.div) (.leaf x2 2) (.leaf I.ℓ 2)))
    (.leaf I.os 0)

/-- `K(x, x) + σ² I` -/
def noisyCovE : BExpr α :=
  .bin (ewOp 2 S.add) (kernelE P S I I.x I.x) (.bin (noiseOp S.zero) (.leaf I.σ 1) (priorMeanE I I.x))

/-- `y - m(x)` -/
def residE : BExpr α := .bin (ewOp 1 S.sub) (.leaf I.y 1) (priorMeanE I I.x)

/-- posterior mean at the test inputs: `m(x*) + K(x*, x) (K(x, x) + σ² I)⁻¹ (y - m(x))` -/
def posteriorMeanE : BExpr α :=
  .bin (ewOp 1 S.add) (priorMeanE I I.xs)
    (.bin P.matvec (kernelE P S I I.xs I.x) (.bin P.solve (noisyCovE P S I) (residE S I)))

/-- `log N(y; m(x), K(x, x) + σ² I)` (before the objective's normaliser) -/
def logMarginalE : BExpr α := .bin P.logProb (noisyCovE P S I) (residE S I)

/-! the same pipeline as a NON-batched replica computes it (plain functions of event tensors; the choreography steps are the
generated op lists run on the slices) -/

def priorMeanR (c x : T α) : T α := constMeanOp.single c x
def kernelR (x1 x2 ℓ os : T α) : T α :=
  (scaleOp S.mul).single (P.kernS ((lsDivOp S.div).single x1 ℓ) ((lsDivOp S.div).single x2 ℓ)) os
def noisyCovR (J : GPInputs α) : T α :=
  (ewOp 2 S.add).single (kernelR P S J.x J.x J.ℓ J.os) ((noiseOp S.zero).single J.σ (priorMeanR J.c J.x))
def residR (J : GPInputs α) : T α := (ewOp 1 S.sub).single J.y (priorMeanR J.c J.x)
def posteriorMeanR (J : GPInputs α) : T α :=
  (ewOp 1 S.add).single (priorMeanR J.c J.xs)
    (P.matvecS (kernelR P S J.xs J.x J.ℓ J.os) (P.solveS (noisyCovR P S J) (residR S J)))
def logMarginalR (J : GPInputs α) : T α := P.logProbS (noisyCovR P S J) (residR S J)

/-- the inputs of replica `b`: every tensor's own slice `bidxR (its batch shape) b` -/
def GPInputs.slice (b : RIdx) : GPInputs α :=
  let at_ (k : Nat) (t : T α) := elem k t (bidxR (t.shape.drop k) b)
  ⟨at_ 2 I.x, at_ 1 I.y, at_ 2 I.xs, at_ 2 I.ℓ, at_ 0 I.os, at_ 0 I.c, at_ 1 I.σ⟩

end ExactGP

end Pipeline

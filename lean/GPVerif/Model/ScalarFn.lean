/-
L3 scalar formula layer: the record of transcendental functions over which the generated constraint /
quadrature formulas (`Gen/Constraints.lean`, `Gen/Quadrature.lean`) are written **once**.

* executed at `α = Float` by `drivers/C17.lean`, `drivers/C13.lean` (IEEE double, C libm; `expm1`/`log1p`
  by Kahan's compensated formulas because core Lean has neither);
* reasoned about at `α = ℝ` (`GPVerif/Bridge/ScalarReal.lean`: `Real.exp`, `Real.log`, `expm1 x = exp x − 1`,
  `log1p x = log (1 + x)`, `Real.sqrt`, `|·|`, `Real.pi`).

Core Lean only.  Arithmetic comes from the ordinary `Add/Sub/Mul/Div/Neg` classes (so that at `ℝ` the
terms are syntactically the Mathlib ones), numerals from `NatCast` / `OfScientific`.
-/

/-- Transcendental vocabulary of the translated sources (`torch.exp/log/expm1/log1p/sqrt/abs`, `math.pi`). -/
class TransFn (α : Type) where
  exp : α → α
  log : α → α
  expm1 : α → α
  log1p : α → α
  sqrt : α → α
  abs : α → α
  pi : α

namespace ScalarFn

/-- `log1p` in doubles (Kahan): exact to a few ulp for every `x > −1`. -/
def floatLog1p (x : Float) : Float :=
  let u := 1.0 + x
  if u == 1.0 then x
  else if u == x then Float.log x      -- |x| ≥ 2⁵³ (also +∞): avoids ∞/∞
  else Float.log u * x / (u - 1.0)

/-- `expm1` in doubles (Kahan). -/
def floatExpm1 (x : Float) : Float :=
  let u := Float.exp x
  if u == 1.0 then x
  else
    let um1 := u - 1.0
    if um1 == -1.0 then -1.0
    else if u == um1 then u            -- overflow / huge: exp x − 1 = exp x
    else um1 * x / Float.log u

instance : NatCast Float := ⟨Float.ofNat⟩

instance : TransFn Float where
  exp := Float.exp
  log := Float.log
  expm1 := floatExpm1
  log1p := floatLog1p
  sqrt := Float.sqrt
  abs := Float.abs
  pi := 3.141592653589793

variable {α : Type} [Add α] [Sub α] [Mul α] [Div α] [Neg α] [NatCast α] [TransFn α]

/-- `torch.sigmoid`. -/
def sigmoid (x : α) : α := ((1 : Nat) : α) / (((1 : Nat) : α) + TransFn.exp (-x))

/-- `torch.nn.Softplus()` with the default `beta = 1` (`log(1 + eˣ)`).  torch switches to the identity
for `x > threshold = 20`; that is a floating-point shortcut (`|log(1+eˣ) − x| < e⁻ˣ ≤ 2.1e-9`), absent from
the real-valued model and allowed for explicitly by the correspondence tolerance. -/
def softplus (x : α) : α := TransFn.log1p (TransFn.exp x)

end ScalarFn

/-
C06 model (core Lean): the input preparation of `Kernel.__call__` (kernels/kernel.py) as a small guarded-statement
IR with an interpreter.  `harness/translate/g5_kernel_call.py` regenerates the statement list (`Gen.KernelCall.callPrep`)
from the source; `Props/C06Kernels.lean` proves that running it yields exactly the rows the C06 model evaluates on
(`selectDims active_dims` of every point; a 1-d input becomes a column of 1-d points; `x2 = None` means `x1_`).

Registers: the arguments `x1`, `x2` and the working copies `x1_`, `x2_`.  A value is `none` (Python `None`), a 1-d
tensor, or a `(*batch, n, d)` tensor given as `Inputs (List α)` together with its last size `d`.
-/
import GPVerif.Model.KernelIndex

namespace KernelCall
open Bcast KernelIndex

inductive Reg
  | x1 | x2 | x1w | x2w            -- `x1`, `x2`, `x1_`, `x2_`
  deriving DecidableEq, Repr

inductive Guard
  | activeSome                     -- `self.active_dims is not None`
  | isSome (r : Reg)               -- `r is not None`
  | isNone (r : Reg)               -- `r is None`
  | is1d (r : Reg)                 -- `r.ndimension() == 1`
  | lastSizesDiffer (a b : Reg)    -- `not a.size(-1) == b.size(-1)`
  | debugOn                        -- `settings.debug.on()`
  | ardMismatch (r : Reg)          -- `self.ard_num_dims is not None and self.ard_num_dims != r.size(-1)`
  deriving DecidableEq, Repr

inductive Act
  | copy (dst src : Reg)           -- `dst = src`
  | selectLast (r : Reg)           -- `r = r.index_select(-1, self.active_dims)`
  | unsqueeze (r : Reg) (dim : Nat)   -- `r = r.unsqueeze(dim)`
  | raise                          -- `raise RuntimeError(..)`
  deriving DecidableEq, Repr

/-- one primitive statement together with the conditions of all enclosing `if`s (outermost first) -/
structure GStmt where
  guards : List Guard
  act : Act
  deriving DecidableEq, Repr

/-- tensor values -/
inductive PT (α : Type)
  | vec (l : List α)                            -- 1-d tensor
  | mat (d : Nat) (x : Inputs (List α))         -- `(*batch, n, d)` tensor

structure Env where
  activeDims : Option (List Nat)
  debug : Bool
  ardNumDims : Option Nat

structure St (α : Type) where
  x1 : Option (PT α)
  x2 : Option (PT α)
  x1w : Option (PT α)
  x2w : Option (PT α)

variable {α : Type} [Inhabited α]

def St.get (s : St α) : Reg → Option (PT α)
  | .x1 => s.x1 | .x2 => s.x2 | .x1w => s.x1w | .x2w => s.x2w

def St.set (s : St α) (r : Reg) (v : Option (PT α)) : St α :=
  match r with
  | .x1 => { s with x1 := v } | .x2 => { s with x2 := v } | .x1w => { s with x1w := v } | .x2w => { s with x2w := v }

def PT.lastSize : PT α → Nat
  | .vec l => l.length
  | .mat d _ => d

/-- `index_select(-1, idx)` -/
def PT.selectLast (idx : List Nat) : PT α → PT α
  | .vec l => .vec (idx.map fun c => l.getD c default)
  | .mat _ x => .mat idx.length ⟨x.bshape, x.n, fun b i => selectDims (some idx) (x.pt b i)⟩

/-- `unsqueeze(dim)` of a 1-d tensor (`dim = 1`: a column of 1-d points; `dim = 0`: one point); anything else is
outside the model (an error) -/
def PT.unsqueeze (dim : Nat) : PT α → Option (PT α)
  | .vec l => if dim = 1 then some (.mat 1 ⟨[], l.length, fun _ i => [l.getD i default]⟩)
              else if dim = 0 then some (.mat l.length ⟨[], 1, fun _ _ => l⟩) else none
  | .mat _ _ => none

/-- outcome of a run: the state, the Python exception the code raises itself (`raise RuntimeError`), or an
unintended crash (attribute of `None`, `index_select` without `active_dims`, …) -/
inductive Outcome (σ : Type)
  | ok (s : σ) | raised | crashed

def evalGuard (env : Env) (s : St α) : Guard → Option Bool
  | .activeSome => some env.activeDims.isSome
  | .isSome r => some (s.get r).isSome
  | .isNone r => some (s.get r).isNone
  | .is1d r => (s.get r).map fun | .vec _ => true | .mat _ _ => false
  | .lastSizesDiffer a b => do
      let va ← s.get a; let vb ← s.get b
      some (va.lastSize != vb.lastSize)
  | .debugOn => some env.debug
  | .ardMismatch r => (s.get r).map fun v =>
      match env.ardNumDims with
      | none => false
      | some k => k != v.lastSize

/-- `some true`: every guard holds; `some false`: an enclosing `if` is not taken (later guards are not evaluated);
`none`: a guard crashes -/
def evalGuards (env : Env) (s : St α) : List Guard → Option Bool
  | [] => some true
  | g :: gs => match evalGuard env s g with
    | none => none
    | some false => some false
    | some true => evalGuards env s gs

def doAct (env : Env) (s : St α) : Act → Outcome (St α)
  | .copy dst src => .ok (s.set dst (s.get src))
  | .selectLast r =>
      match env.activeDims, s.get r with
      | some idx, some v => .ok (s.set r (some (v.selectLast idx)))
      | _, _ => .crashed
  | .unsqueeze r dim =>
      match s.get r with
      | some v => match v.unsqueeze dim with
        | some v' => .ok (s.set r (some v'))
        | none => .crashed
      | none => .crashed
  | .raise => .raised

def run (env : Env) : List GStmt → St α → Outcome (St α)
  | [], s => .ok s
  | st :: rest, s =>
    match evalGuards env s st.guards with
    | none => .crashed
    | some false => run env rest s
    | some true =>
      match doAct env s st.act with
      | .ok s' => run env rest s'
      | .raised => .raised
      | .crashed => .crashed

/-- the initial state of a call `kernel(x1, x2)` -/
def St.init (x1 : PT α) (x2 : Option (PT α)) : St α := ⟨some x1, x2, none, none⟩

/-- the rows the C06 model evaluates on: `active_dims` selected from every point -/
def selectedInputs (ad : Option (List Nat)) (d : Nat) (x : Inputs (List α)) : PT α :=
  match ad with
  | none => .mat d x
  | some idx => .mat idx.length ⟨x.bshape, x.n, fun b i => selectDims (some idx) (x.pt b i)⟩

/-- the same as `Inputs` (what `forward` / the lazy tensor receives): `selectDims active_dims` of every point -/
def preparedInputs (ad : Option (List Nat)) (x : Inputs (List α)) : Inputs (List α) :=
  ⟨x.bshape, x.n, fun b i => selectDims ad (x.pt b i)⟩

end KernelCall

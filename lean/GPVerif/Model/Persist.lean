/-
L4 — module-tree persistence (C18).  Core Lean only (executable by `drivers/C18.lean`, no Mathlib).

A `torch.nn.Module` instance is modelled as the *sequence of its entries*:

* `field k n v`   a named value: parameter, buffer (persistent or not) or plain attribute (constructor-determined
                  or mutable);
* `cache tag n v` an eval-mode memo (`_cached_kernel_mat`, `_memoize_cache`, `prediction_strategy`): `none` = absent;
                  the tag says which mechanism clears / drops it (from the generated class table);
* `child n sub`   a registered sub-module;

so a module tree is the plain (non-nested) inductive `Tree`, and every theorem is an ordinary structural induction.

`stateDict` is torch's `Module.state_dict()`: for every module its parameters, then its persistent buffers, then
its children in registration order, keys = path of names (rendered `a.b.c` by the driver).
`load` is `load_state_dict`: every gpytorch module first clears its caches (`Module._load_from_state_dict` calls
`_clear_cache()` — the generated fact `loadCallsClear`), then every persisted field whose key `prefix + name` occurs in
the dictionary is overwritten (assignment *by key lookup*, as torch does).
`copy` is `pickle.loads(pickle.dumps(·))` / `copy.deepcopy`: structure preserving, except for the caches that the
code's overrides leave out (`DefaultPredictionStrategy.__deepcopy__ ↦ None`, `__getstate__` overrides that pop a
cache, `InducingPointKernel.__deepcopy__`).
-/

namespace Persist

/-- One row of the generated class table (`Gen.Persistence.classes`); all names are ids into the generated name
tables. -/
structure ClassRow where
  id : Nat
  bases : List Nat
  /-- the Module classes of the MRO (the class itself first) -/
  mro : List Nat
  /-- derives from `gpytorch.Module` (so that `_load_from_state_dict` first calls `_clear_cache()`) -/
  gp : Bool
  /-- registrations `(kind, name, made in __init__)`; kinds: see `Gen.Persistence.regKindNames` -/
  regs : List (Nat × Nat × Bool)
  /-- plain attributes assigned on `self` in `__init__` -/
  initAttrs : List Nat
  /-- plain attributes written on `self` in a method other than `__init__` (own methods only) -/
  mutAttrs : List Nat
  /-- the same, united over the MRO -/
  effMut : List Nat
  /-- registered names (parameters / buffers / children) re-assigned outside `__init__` -/
  persistedWrites : List Nat
  memo : List Nat
  hooks : List Nat
  effHooks : List Nat
  /-- what the effective `__getstate__` pops from the copied state -/
  copyDrops : List Nat
  /-- priors registered (in this class's own methods) with a lambda / local function as closure -/
  lambdaPriors : List Nat
  /-- what the effective `_clear_cache()` clears -/
  clears : List Nat
  deriving DecidableEq, Repr

inductive Kind where
  | param
  | buffer (persistent : Bool)
  /-- plain attribute: constructor-determined (`true`) or mutable (`false`) -/
  | attr (ctor : Bool)
  deriving DecidableEq, Repr

def Kind.persisted : Kind → Bool
  | .param => true
  | .buffer p => p
  | .attr _ => false

def Kind.isParam : Kind → Bool
  | .param => true
  | _ => false

def Kind.isPBuf : Kind → Bool
  | .buffer p => p
  | _ => false

def Kind.isCtor : Kind → Bool
  | .attr c => c
  | _ => false

structure CacheTag where
  /-- cleared by the owner's `_clear_cache()` and the owner is a gpytorch module -/
  clearOnLoad : Bool
  dropOnDeepcopy : Bool
  dropOnPickle : Bool
  deriving DecidableEq, Repr

inductive Mech where
  | pickle
  | deepcopy
  deriving DecidableEq, Repr

def CacheTag.dropOn (t : CacheTag) : Mech → Bool
  | .pickle => t.dropOnPickle
  | .deepcopy => t.dropOnDeepcopy

inductive Tree (N V : Type) where
  | leaf : Tree N V
  | field (k : Kind) (n : N) (v : V) (rest : Tree N V) : Tree N V
  | cache (tag : CacheTag) (n : N) (v : Option V) (rest : Tree N V) : Tree N V
  | child (n : N) (sub rest : Tree N V) : Tree N V
  deriving DecidableEq, Repr

variable {N V : Type}

abbrev Key (N : Type) := List N
abbrev Dict (N V : Type) := List (Key N × V)

/-- The architecture: everything except the values (what "a freshly constructed model of the same architecture"
shares with the original). -/
def Tree.arch : Tree N V → Tree N Unit
  | .leaf => .leaf
  | .field k n _ r => .field k n () r.arch
  | .cache t n _ r => .cache t n none r.arch
  | .child n s r => .child n s.arch r.arch

/-- own fields selected by kind, as single-name keys, in registration order -/
def Tree.own (p : Kind → Bool) : Tree N V → Dict N V
  | .leaf => []
  | .field k n v r => if p k then ([n], v) :: r.own p else r.own p
  | .cache _ _ _ r => r.own p
  | .child _ _ r => r.own p

def pre (n : N) (e : Key N × V) : Key N × V := (n :: e.1, e.2)

/-- entries contributed by the children (each child flattened as `stateDict` and prefixed by its name) -/
def Tree.subs : Tree N V → Dict N V
  | .leaf => []
  | .field _ _ _ r => r.subs
  | .cache _ _ _ r => r.subs
  | .child n s r => (s.own Kind.isParam ++ s.own Kind.isPBuf ++ s.subs).map (pre n) ++ r.subs

/-- `Module.state_dict()`: parameters, persistent buffers, children — torch's order. -/
def Tree.stateDict (t : Tree N V) : Dict N V :=
  t.own Kind.isParam ++ t.own Kind.isPBuf ++ t.subs

def lookup [DecidableEq N] (k : Key N) : Dict N V → Option V
  | [] => none
  | (k', v) :: r => if k' = k then some v else lookup k r

/-- `load_state_dict` (non-strict assignment by key; `callsClear` = the generated fact that
`Module._load_from_state_dict` calls `_clear_cache()`). `pfx` is torch's `prefix`. -/
def Tree.load [DecidableEq N] (callsClear : Bool) (d : Dict N V) (pfx : Key N) : Tree N V → Tree N V
  | .leaf => .leaf
  | .field k n v r =>
      .field k n (if k.persisted then (lookup (pfx ++ [n]) d).getD v else v) (r.load callsClear d pfx)
  | .cache t n v r =>
      .cache t n (if callsClear && t.clearOnLoad then none else v) (r.load callsClear d pfx)
  | .child n s r => .child n (s.load callsClear d (pfx ++ [n])) (r.load callsClear d pfx)

/-- pickle / deepcopy round trip -/
def Tree.copy (m : Mech) : Tree N V → Tree N V
  | .leaf => .leaf
  | .field k n v r => .field k n v (r.copy m)
  | .cache t n v r => .cache t n (if t.dropOn m then none else v) (r.copy m)
  | .child n s r => .child n (s.copy m) (r.copy m)

/-- all caches emptied (a freshly constructed object, or the effect of `train()`) -/
def Tree.clearCaches : Tree N V → Tree N V
  | .leaf => .leaf
  | .field k n v r => .field k n v r.clearCaches
  | .cache t n _ r => .cache t n none r.clearCaches
  | .child n s r => .child n s.clearCaches r.clearCaches

/-- the populated caches with their paths -/
def Tree.liveCaches : Tree N V → Dict N V
  | .leaf => []
  | .field _ _ _ r => r.liveCaches
  | .cache _ n (some v) r => ([n], v) :: r.liveCaches
  | .cache _ _ none r => r.liveCaches
  | .child n s r => s.liveCaches.map (pre n) ++ r.liveCaches

/-- plain attributes (with paths) selected by `p` -/
def Tree.attrs (p : Kind → Bool) : Tree N V → Dict N V
  | .leaf => []
  | .field k n v r => if !k.persisted && p k then ([n], v) :: r.attrs p else r.attrs p
  | .cache _ _ _ r => r.attrs p
  | .child n s r => (s.attrs p).map (pre n) ++ r.attrs p

/-- constructor-determined attributes -/
def Tree.ctorAttrs (t : Tree N V) : Dict N V := t.attrs Kind.isCtor
/-- every non-persisted field (what pickle / deepcopy carry in addition to the state dict) -/
def Tree.plainAttrs (t : Tree N V) : Dict N V := t.attrs (fun _ => true)

/-- all tags of the tree satisfy `p` -/
def Tree.allTags (p : CacheTag → Bool) : Tree N V → Bool
  | .leaf => true
  | .field _ _ _ r => r.allTags p
  | .cache t _ _ r => p t && r.allTags p
  | .child _ s r => s.allTags p && r.allTags p

/-- names used at the top level of a module (torch refuses to register a name that already exists) -/
def Tree.names : Tree N V → List N
  | .leaf => []
  | .field _ n _ r => n :: r.names
  | .cache _ n _ r => n :: r.names
  | .child n _ r => n :: r.names

/-- well-formed: within every module all entry names are distinct -/
def Tree.wf [DecidableEq N] : Tree N V → Bool
  | .leaf => true
  | .field _ n _ r => !r.names.contains n && r.wf
  | .cache _ n _ r => !r.names.contains n && r.wf
  | .child n s r => !r.names.contains n && s.wf && r.wf

/-- `k` is a proper prefix of `k'` -/
def properPrefix [DecidableEq N] (k k' : Key N) : Bool := k.isPrefixOf k' && k.length < k'.length

/-! ### Line protocol helpers (used by the driver; kept here so that the driver file is only glue) -/

/-- What the prediction of a model may depend on according to the property: architecture, persisted fields,
constructor-determined attributes. -/
def Tree.view (t : Tree N V) : Tree N Unit × Dict N V × Dict N V := (t.arch, t.stateDict, t.ctorAttrs)

end Persist

/-
Batch-aware model of the tensor / LinearOperator primitives used by the constructors of
MultitaskMultivariateNormal (`from_batch_mvn`, `from_independent_mvns`, `from_repeated_mvn`) — core Lean only,
hand-written: `range`, `permute`, `stack`, `unsqueeze` + `cat`, `expand` by a new leading dimension, and the block
operators of linear_operator with an explicit block dimension.  Which dimensions / permutations the code passes to
them is regenerated into `Gen/MTIndex.lean` (`fromBatchMvnPlan`, `fromIndependentPlan`, `fromRepeatedShape`, …).
-/
import GPVerif.Model.MTIndex

namespace MTIndex

/-- Python `range(a, b)` -/
def pyRange (a b : Int) : List Int := (List.range (b - a).toNat).map fun (k : Nat) => a + (k : Int)

/-- `l` with `x` inserted before position `k` -/
def insertAt {α : Type} (k : Nat) (x : α) (l : List α) : List α := l.take k ++ x :: l.drop k

/-- `x.permute(perm)`: the element at source multi-index `src` sits at result multi-index `permutedIdx perm src`
(result coordinate `k` is source coordinate `perm[k]`) -/
def permutedIdx (perm : List Int) (src : List Int) : List Int := perm.map fun d => src.getD d.toNat 0

/-- a possibly negative dimension argument on a tensor of rank `rank` -/
def normDim (rank : Nat) (d : Int) : Nat := if d < 0 then (d + rank).toNat else d.toNat

/-- `torch.stack(xs, dim)` of rank `rank`: entry `idx` is entry `idx` without coordinate `dim` of `xs[idx[dim]]` -/
def stackSrc (rank : Nat) (dim : Int) (idx : List Int) : Int × List Int :=
  (idx.getD (normDim rank dim) 0, idx.eraseIdx (normDim rank dim))

/-- `cat([x.unsqueeze(u) for x in xs], dim = c)` of rank `rank`: a stack along `c` when `u` and `c` name the same
dimension (otherwise the operands are concatenated along another dimension: not a per-task stacking, `none`) -/
def catUnsqueezeSrc (rank : Nat) (u c : Int) (idx : List Int) : Option (Int × List Int) :=
  if normDim rank u = normDim rank c then some (stackSrc rank c idx) else none

/-- `x.expand(shape)` for `shape = new leading dimensions ++ x.shape`: the leading coordinates are dropped -/
def expandSrc (xrank : Nat) (shape : List Int) (idx : List Int) : List Int := idx.drop (shape.length - xrank)

/-- Entry `(β, p, q)` of `BlockInterleavedLinearOperator(K, block_dim = bd)` / `BlockDiagLinearOperator(K, block_dim = bd)`:
batch dimension `bd` of `K` (size `t`) enumerates the `n × n` blocks, the remaining batch dimensions `β` stay. -/
def blockEntryB {α : Type} [OfNat α 0] (op : BlockOp) (bd : Nat) (n t : Int) (K : List Int → Int → Int → α)
    (β : List Int) (p q : Int) : α :=
  match op with
  | .interleavedBlocks => if p % t = q % t then K (insertAt bd (p % t) β) (p / t) (q / t) else 0
  | .diagBlocks => if p / n = q / n then K (insertAt bd (p / n) β) (p % n) (q % n) else 0

end MTIndex

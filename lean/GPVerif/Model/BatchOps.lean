/-
C08 model (core Lean): the concrete shape choreographies by which gpytorch's batched modules combine
batched parameters with batched data, written with the L1 operations of `Bcast` exactly as the source
writes them with torch (`unsqueeze`, `view`, `expand`, broadcasting arithmetic).  Shapes are
innermost-first (`Bcast.RShape`): torch's `(*batch, n, d)` is `d :: n :: batch`.

Executed by `drivers/C08.lean` on position-valued tensors (`arange`), compared exactly with torch running
the same primitive sequence; the theorems of `Props/C08.lean` state, for all batch ranks and all
broadcastable shape pairs, that element `b` of the result is the non-batched function of
`param[bidx b]` and `data[bidx b]`.
-/
import GPVerif.Model.Bcast

namespace BatchOps
open Bcast

variable {α β γ : Type}

/-- `x1.div(self.lengthscale)` — `Kernel` subclasses with a lengthscale: `x : (*xb, n, d)`,
`lengthscale : (*kb, 1, d)` (or `(*kb, 1, 1)` without ARD) -/
def lengthscaleDiv (f : α → β → γ) (x : T α) (ℓ : T β) : Option (T γ) := T.map2 f x ℓ

/-- `ScaleKernel.forward`, full matrix: `outputscales.view(*outputscales.shape, 1, 1)`;
`orig_output.mul(outputscales)` -/
def scaleMul (f : α → β → γ) (K : T α) (os : T β) : Option (T γ) :=
  T.map2 f K (os.view (1 :: 1 :: os.shape))

/-- `ScaleKernel.forward`, `diag=True`: `outputscales.unsqueeze(-1)`; `orig_output * outputscales` -/
def scaleMulDiag (f : α → β → γ) (Kd : T α) (os : T β) : Option (T γ) :=
  T.map2 f Kd (os.unsqueeze 0)

/-- `ConstantDiagLinearOperator(c, diag_shape=n).to_dense()` for `c : (*bs, 1)` -/
def constantDiag (zero : α) (c : T α) (n : Nat) : T α :=
  ⟨n :: n :: c.shape.drop 1, fun idx => if idx.getD 0 0 = idx.getD 1 0 then c.get (0 :: idx.drop 2) else zero⟩

/-- `_HomoskedasticNoiseBase.forward` with `num_tasks = 1`: `noise : (*nb, 1)`, `shape = (*xb, n)`:
`batch_shape = broadcast_shapes(nb, xb)`; `noise.unsqueeze(-2)`; `.expand(*batch_shape, 1, 1)`;
`.view(*batch_shape, 1)`; `ConstantDiagLinearOperator(noise_diag, diag_shape=n)` -/
def homoNoise (zero : α) (noise : T α) (xb : RShape) (n : Nat) : Option (T α) :=
  (bcastR (noise.shape.drop 1) xb).map fun bs =>
    constantDiag zero (((noise.unsqueeze 1).expand (1 :: 1 :: bs)).view (1 :: bs)) n

/-- `ConstantMean.forward`: `constant.unsqueeze(-1)`; `.expand(broadcast_shapes(constant.shape, input.shape[:-1]))`
with `constant : (*mb)`, `input.shape[:-1] = (*xb, n)` -/
def constantMean (c : T α) (xn : RShape) : Option (T α) :=
  (bcastR (c.unsqueeze 0).shape xn).map fun s => (c.unsqueeze 0).expand s

/-- `_VariationalStrategy._expand_inputs` / `ExactGP.__call__`: `x.expand(*batch_shape, *x.shape[-2:])` -/
def expandInputs (x : T α) (bs : RShape) : T α := x.expand (x.shape.take 2 ++ bs)

/-- `_add_other_terms`: `prior_term.view(*prior_term.shape[:res_ndim], -1).sum(dim=-1)` where `k` is the number
of trailing (non-batch) dimensions of the prior term -/
def priorReduce [Add α] [OfNat α 0] (priorTerm : T α) (k : Nat) : T α := priorTerm.viewSumLast k

/-- `IndependentModelList.__call__`: `[model(*args_) for model, args_ in zip(models, args)]` -/
def modelListCall {A B : Type} (models : List (A → B)) (args : List A) : List B :=
  List.zipWith (fun m a => m a) models args

/-- Python's `sum(iterable)`: left fold starting from `0` -/
def pySum [Add α] [OfNat α 0] (l : List α) : α := l.foldl (· + ·) 0

/-- `SumMarginalLogLikelihood.forward`: `sum(mll(output, target) …).div_(len(self.mlls))` -/
def sumMll {O Y : Type} [Add α] [OfNat α 0] [Div α] [NatCast α]
    (mlls : List (O → Y → α)) (outs : List O) (tgts : List Y) : α :=
  pySum (List.zipWith (fun (m : O → Y → α) (oy : O × Y) => m oy.1 oy.2) mlls (List.zip outs tgts)) / (mlls.length : α)

/-! ### position-valued executable instances (driver) -/

/-- result batch shape and, per result batch element, the flat index of the parameter slice and of the data
slice it must be computed from -/
def replicaTable (pb db : RShape) : Option (RShape × List (Nat × Nat)) :=
  (bcastR pb db).map fun bs => (bs, (allIdx bs).map fun b => (flat pb (bidxR pb b), flat db (bidxR db b)))

def pairs (a b : RShape) (r : Option (T (Nat × Nat))) : Option (RShape × List (Nat × Nat)) :=
  let _ := a; let _ := b
  r.map fun t => (t.shape, t.toFlat)

end BatchOps

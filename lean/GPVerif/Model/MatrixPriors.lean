/-
C17 — exact models of the matrix-valued priors, executed at `ℚ` by `drivers/C17mat.lean`
(the logarithms are taken outside, by the harness, of exact rationals).

* `MultivariateNormalPrior` (torch_priors.py) evaluates `torch.distributions.MultivariateNormal.log_prob` through its
  buffer `_unbroadcasted_scale_tril = L`:
      M = ‖L⁻¹ (v − μ)‖²,   half_log_det = Σ log L_ii,   log_prob = −½ (k·log 2π + M) − half_log_det.
  `mvnTrilParts?` returns `(M, diag L)`; `Props/C17.lean` proves `M = (v−μ)ᵀ (L Lᵀ)⁻¹ (v−μ)` and, for lower-triangular
  `L`, `(Π L_ii)² = det (L Lᵀ)`, i.e. the assembly equals C10's closed form `MVN.logProbAssemble` of the density
  `N(μ, L Lᵀ)` (the pieces of which are `MVN.logProbParts?`).
* `LKJCholeskyFactorPrior(n, η)` (lkj_prior.py → torch `LKJCholesky.log_prob`): the unnormalised density is a function of
  the diagonal of the Cholesky factor only, `Π_{i=2}^{n} L_ii ^ (n − i + 2(η − 1))` (documented formula);
  `lkjCholExponents` is the exponent table, `lkjCholUnnormZ` the density itself when `2(η − 1)` is an integer.
-/
import GPVerif.Model.MVN

namespace MatrixPriors
open MVN

variable {n : Nat} {α : Type}

section field
variable [Field α] [DecidableEq α]

/-- `(‖L⁻¹(v − μ)‖², diag L)`: the two quantities `MultivariateNormal.log_prob` computes from `scale_tril` -/
def mvnTrilParts? (L : DMat n n α) (mu v : DMat n 1 α) : Option (α × (Fin n → α)) :=
  (DMat.inv? L).map fun Li =>
    let z := Li.mul (v.sub mu)
    ((z.transpose.mul z).toMatrix 0 0, L.diag)

/-- `-0.5 * (k * log(2π) + M) - half_log_det` (torch/distributions/multivariate_normal.py) -/
def mvnPriorAssemble (M halfLogDet klog2pi : α) : α := -(1 / 2) * (klog2pi + M) - halfLogDet

/-- exponent of `L_ii` (1-based `i`) in the LKJ-Cholesky density with `n` dimensions and concentration `η` -/
def lkjCholExponent (n : Nat) (η : α) (i : Nat) : α := ((n - i : Nat) : α) + 2 * (η - 1)

/-- the exponent table for `i = 2 … n` (torch: `order = 2(η−1) + n − arange(2, n+1)`) -/
def lkjCholExponents (n : Nat) (η : α) : List α :=
  (List.range (n - 1)).map fun k => lkjCholExponent n η (k + 2)

/-- unnormalised log density from the logarithms of the diagonal: `Σ_{i=2}^{n} e_i · log L_ii`;
`logDiag k` is `log L_{k+1,k+1}` (0-based `k`) -/
def lkjCholLogUnnorm (n : Nat) (η : α) (logDiag : Nat → α) : α :=
  ((List.range (n - 1)).map fun k => lkjCholExponent n η (k + 2) * logDiag (k + 1)).sum

/-- the unnormalised density itself when `2(η − 1) = t` is an integer: `Π_{i=2}^{n} L_ii ^ (n − i + t)` -/
def lkjCholUnnormZ (n : Nat) (t : Int) (diag : Nat → α) : α :=
  ((List.range (n - 1)).map fun k => diag (k + 1) ^ (((n - (k + 2) : Nat) : Int) + t)).prod

end field

end MatrixPriors

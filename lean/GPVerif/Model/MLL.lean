/-
C02 model — exact marginal log likelihood, leave-one-out pseudo-likelihood, sum of MLLs.

Executed by `drivers/C02.lean` at `α = ℚ` (every float64 is an exact dyadic rational): the quadratic form
`rᵀA⁻¹r` through the *certified* inverse, `det A` through the *certified* `L·D·Lᵀ` factorisation, the
assembly `(log N + Σ prior terms + Σ added loss terms)/n`, the code-form LOO quantities
`σ²ᵢ = 1/[A⁻¹]ᵢᵢ`, `μᵢ = yᵢ − [A⁻¹(y−m)]ᵢ σ²ᵢ` and, independently, the true predictive of `yᵢ` obtained by
deleting point `i`.  `log` of the exact determinant is taken on the Python side (mpmath) — `mll_split` in
`Props/C02.lean` is the statement that the value splits into the rational part computed here plus that
logarithmic part.

Code modelled (gpytorch/mlls, gpytorch/distributions):
* `MultivariateNormal.log_prob`                                   → `logNormal`
* its gradient w.r.t. any hyperparameter (what autograd must return) → `gradParts?`, `gradAssemble`
* `ExactMarginalLogLikelihood.forward` / `_add_other_terms`       → `mll`, `priorReduce`
* `LeaveOneOutPseudoLikelihood.forward`                           → `looCode`, `looObjective`
* `SumMarginalLogLikelihood.forward`                              → `sumMll`
-/
import GPVerif.Model.DMat
import GPVerif.Model.LDL

open Matrix

namespace MLL
variable {α : Type}

/-! ### the Gaussian log density from certified pieces -/

section exact
variable [Field α] [DecidableEq α] {n : Nat}

/-- `rᵀ X r`. -/
def quadForm (X : DMat n n α) (r : Fin n → α) : α := r ⬝ᵥ (X.toMatrix *ᵥ r)

/-- `rᵀ A⁻¹ r` through the certified inverse (`none` when `A` is singular). -/
def quad? (A : DMat n n α) (r : Fin n → α) : Option α := (A.inv?).map fun X => quadForm X r

/-- `det A` through the certified `L·D·Lᵀ` factorisation. -/
def det? (A : DMat n n α) : Option α := (A.ldl?).map fun Ld => ∏ i, Ld.2 i

/-- The three exact pieces of the gradient of `log N(y | μ, A)` w.r.t. a hyperparameter along which the covariance
moves with derivative `D` and the mean with derivative `dμ` (`r = y − μ`), through the certified inverse `X = A⁻¹`:
`(rᵀ X D X r,  tr(X D),  dμᵀ X r)`. -/
def gradParts? (A D : DMat n n α) (r dμ : Fin n → α) : Option (α × α × α) :=
  (A.inv?).map fun X =>
    let w : Fin n → α := X.toMatrix *ᵥ r
    let wl : Fin n → α := r ᵥ* X.toMatrix
    (wl ⬝ᵥ (D.toMatrix *ᵥ w), (X.toMatrix * D.toMatrix).trace, dμ ⬝ᵥ w)

/-- Exact gradient of the rational part of the leave-one-out objective `Σᵢ (½ log aᵢ − ½ bᵢ²/aᵢ)`
(`a = diag A⁻¹`, `b = A⁻¹ r`; equal to `Σᵢ (−½ log σ²ᵢ − ½ (yᵢ−μᵢ)²/σ²ᵢ)`) along a direction in which the covariance moves
with derivative `D` and the mean with derivative `dμ`:
`Σᵢ ½ a'ᵢ/aᵢ − bᵢ b'ᵢ/aᵢ + ½ bᵢ² a'ᵢ/aᵢ²` with `a' = −diag(A⁻¹DA⁻¹)`, `b' = −A⁻¹DA⁻¹r − A⁻¹dμ`. -/
def looGrad? (half : α) (A D : DMat n n α) (r dμ : Fin n → α) : Option α :=
  (A.inv?).map fun X =>
    let W := ((X.mul D).mul X).toMatrix
    let b : Fin n → α := X.toMatrix *ᵥ r
    let wr : Fin n → α := W *ᵥ r
    let xd : Fin n → α := X.toMatrix *ᵥ dμ
    ∑ i, (half * (-(W i i)) / X.toMatrix i i - b i * (-(wr i) - xd i) / X.toMatrix i i
      + half * b i ^ 2 * (-(W i i)) / X.toMatrix i i ^ 2)

end exact

/-- gradient of the Gaussian log density from its three pieces: `½ rᵀXDXr − ½ tr(XD) + dμᵀXr`. -/
def gradAssemble [Add α] [Sub α] [Mul α] (half : α) (p : α × α × α) : α :=
  half * p.1 - half * p.2.1 + p.2.2

/-- `log N(y | m, A) = −½ (rᵀA⁻¹r + log det A + n log 2π)`, from `quad = rᵀA⁻¹r` and `logdet`. -/
def logNormal [Add α] [Mul α] [Neg α] [NatCast α] (half log2pi : α) (n : Nat) (quad logdet : α) : α :=
  -(half * (quad + logdet + (n : α) * log2pi))

/-- `ExactMarginalLogLikelihood.forward`: `(log N + Σ prior terms + Σ added loss terms) / num_data`. -/
def mll [Add α] [Zero α] [Div α] [NatCast α] (logN : α) (priorTerms addedLoss : List α) (numData : Nat) : α :=
  (logN + priorTerms.sum + addedLoss.sum) / (numData : α)

/-! ### `_add_other_terms`: the per-batch reduction of one prior term

`prior_term.view(*prior_term.shape[:k], -1).sum(-1)` with `k = res.ndim`, then broadcast-added onto `res`. -/

/-- row-major flat offset of a multi-index in a shape. -/
def flatIdx : List Nat → List Nat → Nat
  | i :: is, _ :: ss => i * ss.prod + flatIdx is ss
  | _, _ => 0

/-- index into a tensor of shape `src` for output index `out` of the broadcast shape (right-aligned;
size-1 dimensions are pinned to 0). -/
def bcastIdx (src out : List Nat) : List Nat :=
  let o := out.drop (out.length - src.length)
  List.zipWith (fun s i => if s = 1 then 0 else i) src o

/-- The value `_add_other_terms` adds to batch element `b` (a multi-index of `resShape`) for one prior
term of shape `termShape` with row-major values `vals`. -/
def priorReduce [Add α] [Zero α] [Inhabited α] (resShape termShape : List Nat) (vals : Array α)
    (b : List Nat) : α :=
  let kept := termShape.take resShape.length
  let rest := (termShape.drop resShape.length).prod
  let row := flatIdx (bcastIdx kept b) kept
  ((List.range rest).map fun j => vals[row * rest + j]!).sum

/-! ### leave-one-out -/

section loo
variable [Field α] [DecidableEq α] {k : Nat}

/-- The code's bordered-system formulas at index `i`: `(μᵢ, σ²ᵢ)` with `σ²ᵢ = 1/[A⁻¹]ᵢᵢ`,
`μᵢ = yᵢ − [A⁻¹(y − m)]ᵢ · σ²ᵢ`. -/
def looCode (A : DMat (k + 1) (k + 1) α) (y m : Fin (k + 1) → α) (i : Fin (k + 1)) : Option (α × α) :=
  (A.inv?).map fun X =>
    let s2 := 1 / X.toMatrix i i
    (y i - (X.toMatrix *ᵥ (y - m)) i * s2, s2)

/-- The true predictive of `yᵢ` given all other observations, computed by actually deleting point `i`:
with `A₋ᵢ` the matrix without row/column `i`, `c` the row `A[i, −i]` and `b` the column `A[−i, i]`,
mean `mᵢ + c A₋ᵢ⁻¹ (y₋ᵢ − m₋ᵢ)`, variance `Aᵢᵢ − c A₋ᵢ⁻¹ b`. -/
def looTrue (A : DMat (k + 1) (k + 1) α) (y m : Fin (k + 1) → α) (i : Fin (k + 1)) : Option (α × α) :=
  let A11 : DMat k k α := A.submatrix i.succAbove i.succAbove
  (A11.inv?).map fun Z =>
    let c : Fin k → α := fun j => A.toMatrix i (i.succAbove j)
    let b : Fin k → α := fun j => A.toMatrix (i.succAbove j) i
    let r1 : Fin k → α := fun j => y (i.succAbove j) - m (i.succAbove j)
    (m i + c ⬝ᵥ (Z.toMatrix *ᵥ r1), A.toMatrix i i - c ⬝ᵥ (Z.toMatrix *ᵥ b))

end loo

/-- rational part of one LOO summand: `(yᵢ − μᵢ)² / σ²ᵢ`. -/
def looQuad [Sub α] [Mul α] [Div α] (y μ s2 : α) : α := ((y - μ) * (y - μ)) / s2

/-- `LeaveOneOutPseudoLikelihood.forward`:
`(Σᵢ (−½ log σ²ᵢ − ½ (yᵢ−μᵢ)²/σ²ᵢ) + Σ prior + Σ added)/n − ½ log 2π`; `terms` are the summands. -/
def looObjective [Add α] [Zero α] [Sub α] [Mul α] [Div α] [NatCast α] (half log2pi : α) (terms : List α)
    (priorTerms addedLoss : List α) (n : Nat) : α :=
  (terms.sum + priorTerms.sum + addedLoss.sum) / (n : α) - half * log2pi

/-- one LOO summand `−½ log σ² − ½ (y−μ)²/σ²` from `log σ²` and the rational part. -/
def looTerm [Add α] [Mul α] [Neg α] (half logS2 quad : α) : α := -(half * logS2) + -(half * quad)

/-! ### sum of marginal log likelihoods -/

/-- `SumMarginalLogLikelihood.forward`: `sum(mlls) / len(mlls)`. -/
def sumMll [Add α] [Zero α] [Div α] [NatCast α] (ms : List α) : α := ms.sum / (ms.length : α)

end MLL

/-
Syntax of the small imperative language into which `harness/translate/g5_initialize.py` translates the body of
`gpytorch.Module.initialize` (module.py): one loop over `kwargs.items()`, structured `if/else` compiled to
*predicated* straight-line code (every `if` evaluates its condition once into a fresh Boolean register, the
statements of its branches carry the register literals as guard), and an epilogue after the loop.

The semantics (`ParamStore.Init.exec`) lives in `Model/ParamStore.lean`; the generated program is
`Gen/InitDispatch.lean`.  Core Lean only, no imports.

Vocabulary (Python statement -> `Act`):
  if isinstance(val, int): val = float(val)                     intToFloat
  if "." in name: … else: …                                     test r dotted          (+ guards r / ¬r)
  module, name = self._get_module_and_name(name)                splitModule
  if isinstance(module, nn.ModuleList): … else: …               test r moduleIsList
  idx, name = name.split(".", 1)                                splitIndex
  module = module[int(idx)]                                     selectIndexed
  module.initialize(**{name: val})                              callChild false
  module[int(idx)].initialize(**{name: val})                    callChild true
  D[module] = {name: val}                                       deferStore false   (overwrites the child's pending kwargs)
  D.setdefault(module, {})[name] = val                          deferStore true    (merges into the child's pending kwargs)
  continue                                                      continue_
  the `elif not hasattr … else raise` chain on a plain name     leaf
  prior_name = …; if prior_name in self._priors: validate       validatePrior
epilogue:
  for module, kw in D.items(): module.initialize(**kw)          flushDeferred
-/

namespace InitIR

/-- conditions of the `if` statements inside the loop -/
inductive Cond where
  | dotted          -- `"." in name`
  | moduleIsList    -- `isinstance(module, nn.ModuleList)`
  deriving Repr, DecidableEq

inductive Act where
  | intToFloat
  | test (reg : Nat) (c : Cond)
  | splitModule
  | splitIndex
  | selectIndexed
  | callChild (indexed : Bool)
  | deferStore (merge : Bool)
  | continue_
  | leaf
  | validatePrior
  | flushDeferred
  deriving Repr, DecidableEq

/-- a predicated statement: executed iff every register literal of `guard` holds -/
structure Stmt where
  guard : List (Nat × Bool)
  act : Act
  deriving Repr, DecidableEq

/-- `for name, val in kwargs.items(): body` followed by `epilogue` (then `return self`) -/
structure Program where
  body : List Stmt
  epilogue : List Stmt
  deriving Repr, DecidableEq

/-- the statements of the Tensor / float branch of the leaf chain that matter for the store, in source order -/
inductive LeafStep where
  | check    -- `if constraint is not None and … and not constraint.check_raw(val): raise RuntimeError`
  | store    -- `param.data.copy_(val…)` / `param.data.fill_(val)`
  deriving Repr, DecidableEq

end InitIR

/-
L2 — exact linear algebra, executable.

`DMat n m α` is an array-backed matrix.  Every algebraic operation is *defined* as the materialisation of
the corresponding Mathlib `Matrix` expression, so the bridge from the executed object to the object the
theorems talk about is the single simp lemma `toMatrix_ofMatrix`.

Executed at `α = ℚ` (= core `Rat`; every float64 is an exact dyadic rational).  Theorems hold over any
field, hence also over the executed instance.
-/
import Mathlib.LinearAlgebra.Matrix.NonsingularInverse
import Mathlib.Data.Matrix.Block
import Mathlib.LinearAlgebra.Matrix.Kronecker
import Mathlib.LinearAlgebra.Matrix.Hadamard
import Mathlib.LinearAlgebra.Matrix.Trace

open Matrix

structure DMat (n m : Nat) (α : Type) where
  arr : Array (Array α)
  hn : arr.size = n
  hm : ∀ i (h : i < arr.size), (arr[i]).size = m

namespace DMat
variable {n m k l : Nat} {α : Type}

def ofMatrix (M : Matrix (Fin n) (Fin m) α) : DMat n m α where
  arr := Array.ofFn fun i => Array.ofFn fun j => M i j
  hn := by simp
  hm := by intro i h; simp

def toMatrix (A : DMat n m α) : Matrix (Fin n) (Fin m) α :=
  fun i j => (A.arr[i.1]'(by rw [A.hn]; exact i.2))[j.1]'(by rw [A.hm]; exact j.2)

@[simp] theorem toMatrix_ofMatrix (M : Matrix (Fin n) (Fin m) α) : (ofMatrix M).toMatrix = M := by
  funext i j; simp [toMatrix, ofMatrix]

theorem ext_arr {A B : DMat n m α} (h : A.arr = B.arr) : A = B := by
  cases A; cases B; simp_all

theorem toMatrix_injective : Function.Injective (toMatrix : DMat n m α → _) := by
  intro A B h
  apply ext_arr
  apply Array.ext
  · rw [A.hn, B.hn]
  · intro i h1 h2
    have hi : i < n := by rw [← A.hn]; exact h1
    apply Array.ext
    · rw [A.hm, B.hm]
    · intro j g1 g2
      have hj : j < m := by rw [← A.hm i h1]; exact g1
      have := congrFun (congrFun h ⟨i, hi⟩) ⟨j, hj⟩
      simpa [toMatrix] using this

/-- Read an entry with bounds defaulting (used only by raw-array algorithms whose results are certified). -/
def get [Inhabited α] (A : DMat n m α) (i j : Nat) : α := (A.arr[i]!)[j]!

/-- Build from a raw row-major array-of-arrays, defaulting out-of-range reads. -/
def ofRaw [Inhabited α] (raw : Array (Array α)) : DMat n m α :=
  ofMatrix fun i j => (raw[i.1]!)[j.1]!

def toRows (A : DMat n m α) : List (List α) := A.arr.toList.map Array.toList

/-! ### Algebra, defined through Mathlib -/

def zero [Zero α] : DMat n m α := ofMatrix 0
def one [Zero α] [One α] : DMat n n α := ofMatrix 1
def add [Add α] (A B : DMat n m α) : DMat n m α := ofMatrix (A.toMatrix + B.toMatrix)
def sub [Sub α] (A B : DMat n m α) : DMat n m α := ofMatrix (A.toMatrix - B.toMatrix)
def neg [Neg α] (A : DMat n m α) : DMat n m α := ofMatrix (-A.toMatrix)
def smul [Mul α] (c : α) (A : DMat n m α) : DMat n m α := ofMatrix (c • A.toMatrix)
def mul [Mul α] [AddCommMonoid α] (A : DMat n m α) (B : DMat m k α) : DMat n k α :=
  ofMatrix (A.toMatrix * B.toMatrix)
def transpose (A : DMat n m α) : DMat m n α := ofMatrix A.toMatrixᵀ
def diagonal [Zero α] (d : Fin n → α) : DMat n n α := ofMatrix (Matrix.diagonal d)
def diag (A : DMat n n α) : Fin n → α := Matrix.diag A.toMatrix
def trace [AddCommMonoid α] (A : DMat n n α) : α := Matrix.trace A.toMatrix
def hadamard [Mul α] (A B : DMat n m α) : DMat n m α := ofMatrix (A.toMatrix ⊙ B.toMatrix)
def submatrix (A : DMat n m α) (r : Fin k → Fin n) (c : Fin l → Fin m) : DMat k l α :=
  ofMatrix (A.toMatrix.submatrix r c)

@[simp] theorem toMatrix_zero [Zero α] : (zero : DMat n m α).toMatrix = 0 := by simp [zero]
@[simp] theorem toMatrix_one [Zero α] [One α] : (one : DMat n n α).toMatrix = 1 := by simp [one]
@[simp] theorem toMatrix_add [Add α] (A B : DMat n m α) : (A.add B).toMatrix = A.toMatrix + B.toMatrix := by
  simp [add]
@[simp] theorem toMatrix_sub [Sub α] (A B : DMat n m α) : (A.sub B).toMatrix = A.toMatrix - B.toMatrix := by
  simp [sub]
@[simp] theorem toMatrix_neg [Neg α] (A : DMat n m α) : (A.neg).toMatrix = -A.toMatrix := by simp [neg]
@[simp] theorem toMatrix_smul [Mul α] (c : α) (A : DMat n m α) : (A.smul c).toMatrix = c • A.toMatrix := by
  simp [smul]
@[simp] theorem toMatrix_mul [Mul α] [AddCommMonoid α] (A : DMat n m α) (B : DMat m k α) :
    (A.mul B).toMatrix = A.toMatrix * B.toMatrix := by simp [mul]
@[simp] theorem toMatrix_transpose (A : DMat n m α) : A.transpose.toMatrix = A.toMatrixᵀ := by
  simp [transpose]
@[simp] theorem toMatrix_diagonal [Zero α] (d : Fin n → α) : (diagonal d).toMatrix = Matrix.diagonal d := by
  simp [diagonal]
@[simp] theorem toMatrix_hadamard [Mul α] (A B : DMat n m α) :
    (A.hadamard B).toMatrix = A.toMatrix ⊙ B.toMatrix := by simp [hadamard]
@[simp] theorem toMatrix_submatrix (A : DMat n m α) (r : Fin k → Fin n) (c : Fin l → Fin m) :
    (A.submatrix r c).toMatrix = A.toMatrix.submatrix r c := by simp [submatrix]

/-! ### Certified inverse (raw Gauss–Jordan, then an exact `A·X = 1` check) -/

section inverse
variable [Field α] [DecidableEq α]

/-- Raw Gauss–Jordan on arrays; no claim is made about this function — its output is only ever used after
the certificate check in `inv?`. -/
def rawInv (n : Nat) (A : Array (Array α)) : Option (Array (Array α)) := Id.run do
  let idn : Array (Array α) := Array.ofFn fun (i : Fin n) => Array.ofFn fun (j : Fin n) => if i = j then 1 else 0
  let mut M : Array (Array α) := Array.ofFn fun (i : Fin n) => (A[i.1]?.getD #[]) ++ (idn[i.1]?.getD #[])
  for c in [0:n] do
    let mut p := n
    for r in [c:n] do
      if p == n && ((M[r]?.getD #[])[c]?.getD 0) ≠ 0 then p := r
    if p == n then return none
    let rowc := M[c]?.getD #[]
    let rowp := M[p]?.getD #[]
    M := (M.setIfInBounds c rowp).setIfInBounds p rowc
    let piv := (M[c]?.getD #[])[c]?.getD 1
    M := M.setIfInBounds c ((M[c]?.getD #[]).map (· / piv))
    let pr := M[c]?.getD #[]
    for r in [0:n] do
      if r != c then
        let f := (M[r]?.getD #[])[c]?.getD 0
        if f ≠ 0 then
          M := M.setIfInBounds r ((M[r]?.getD #[]).zipWith (fun a b => a - f * b) pr)
  return some (M.map fun row => row.extract n (2*n))

instance : Inhabited α := ⟨0⟩

/-- Certified inverse: `some X` only if `A·X = 1` has been verified exactly. -/
def inv? (A : DMat n n α) : Option (DMat n n α) :=
  match rawInv n A.arr with
  | none => none
  | some raw =>
    if (A.mul (ofRaw raw : DMat n n α)).arr = (one : DMat n n α).arr then some (ofRaw raw) else none

theorem inv?_mul {A X : DMat n n α} (h : inv? A = some X) : A.toMatrix * X.toMatrix = 1 := by
  unfold inv? at h
  split at h
  · exact absurd h (by simp)
  · rename_i raw _
    split at h
    · rename_i hc
      have hX : X = ofRaw raw := by simpa using h.symm
      have := congrArg toMatrix (ext_arr hc)
      simpa [hX] using this
    · exact absurd h (by simp)

theorem inv?_correct {A X : DMat n n α} (h : inv? A = some X) : X.toMatrix = A.toMatrix⁻¹ :=
  (Matrix.inv_eq_right_inv (inv?_mul h)).symm

theorem inv?_isUnit {A X : DMat n n α} (h : inv? A = some X) : IsUnit A.toMatrix.det :=
  Matrix.isUnit_det_of_right_inverse (inv?_mul h)

end inverse

end DMat

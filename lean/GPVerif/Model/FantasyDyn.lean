/-
C04 (batch part): the element-level primitives of `Model/FantasyShapes.lean` interpreted on matrices of any size
(`DynMat`), so that the element-level dataflow `FShapes.elemFantasy` read off the generated shape program can be compared
with the typed model `Fantasy.step?` of `Model/Fantasy.lean` (`Props/C04BatchAlgebra.lean`).

Vectors are `n×1` columns (`unsqueeze(-1)` / `squeeze(-1)` are the identity on them), `psd_safe_cholesky` followed by
`cholesky_solve` is the certified inverse (`none` when the Schur complement is singular, as in `step?`); a value is
`none` as soon as a dimension does not fit.  Primitives that are *leaves* of the algebra (prior, likelihood, slices,
`root_inv_decomposition`, `cat_rows`) are given by an oracle `L`.
-/
import GPVerif.Model.Fantasy
import GPVerif.Model.FantasyShapes

set_option linter.unusedSectionVars false

namespace FantasyDyn
open Fantasy FShapes

variable {α : Type}

structure DynMat (α : Type) where
  r : Nat
  c : Nat
  m : DMat r c α

/-- element values: a matrix of some size, or `none` (dimension mismatch / singular system) -/
abbrev V (α : Type) := Option (DynMat α)

def dyn {n m : Nat} (A : DMat n m α) : V α := some ⟨n, m, A⟩

/-- the matrix, when it has the expected size -/
def DynMat.cast? (A : DynMat α) (r c : Nat) : Option (DMat r c α) :=
  if h : A.r = r ∧ A.c = c then some (h.1 ▸ h.2 ▸ A.m) else none

theorem cast?_self {n m : Nat} (A : DMat n m α) : (⟨n, m, A⟩ : DynMat α).cast? n m = some A := by
  simp [DynMat.cast?]

section ops
variable [Field α] [DecidableEq α]

def dmul (x y : V α) : V α :=
  match x, y with
  | some a, some b => (b.cast? a.c b.c).map fun B => ⟨a.r, b.c, a.m.mul B⟩
  | _, _ => none

def dsub (x y : V α) : V α :=
  match x, y with
  | some a, some b => (b.cast? a.r a.c).map fun B => ⟨a.r, a.c, a.m.sub B⟩
  | _, _ => none

def dT (x : V α) : V α := x.map fun a => ⟨a.c, a.r, a.m.transpose⟩

/-- `cholesky_solve(rhs, cholesky(S))` -/
def dsolve (rhs s : V α) : V α :=
  match rhs, s with
  | some b, some a =>
    match a.cast? a.r a.r, b.cast? a.r b.c with
    | some S, some B => (S.inv?).map fun Si => ⟨a.r, b.c, Si.mul B⟩
    | _, _ => none
  | _, _ => none

/-- `torch.cat((a, b), dim=-1)` of two vectors (columns stacked) -/
def dvcat (x y : V α) : V α :=
  match x, y with
  | some a, some b => (b.cast? b.r a.c).map fun B => ⟨a.r + b.r, a.c, vcat a.m B⟩
  | _, _ => none

/-- the interpretation of the primitives; `L` = the leaves -/
def dynI (L : Nat → List (V α) → V α) : Nat → List (V α) → V α
  | 10, [x] => dT x                 -- transpose(-2, -1)
  | 11, [x, y] => dmul x y          -- matmul
  | 12, [x, y] => dsub x y          -- -
  | 13, [x, y] => dmul x y          -- einsum mat-vec
  | 14, [x] => x                    -- unsqueeze(-1) of a vector
  | 15, [x] => x                    -- psd_safe_cholesky (carries the matrix it factors)
  | 16, [x, y] => dsolve x y        -- cholesky_solve
  | 17, [x] => x                    -- squeeze(-1)
  | 101, [x, y] => dvcat x y        -- cat(dim=-1)
  | f, args => L f args

@[simp] theorem dmul_dyn {n m k : Nat} (A : DMat n m α) (B : DMat m k α) : dmul (dyn A) (dyn B) = dyn (A.mul B) := by
  simp [dmul, dyn, cast?_self]

@[simp] theorem dsub_dyn {n m : Nat} (A B : DMat n m α) : dsub (dyn A) (dyn B) = dyn (A.sub B) := by
  simp [dsub, dyn, cast?_self]

@[simp] theorem dT_dyn {n m : Nat} (A : DMat n m α) : dT (dyn A) = dyn A.transpose := by
  simp [dT, dyn]

@[simp] theorem dsolve_dyn {n k : Nat} (B : DMat n k α) (S : DMat n n α) :
    dsolve (dyn B) (dyn S) = (S.inv?).bind fun Si => dyn (Si.mul B) := by
  simp only [dsolve, dyn, cast?_self]
  cases S.inv? <;> rfl

@[simp] theorem dvcat_dyn {n f k : Nat} (a : DMat n k α) (b : DMat f k α) : dvcat (dyn a) (dyn b) = dyn (vcat a b) := by
  simp [dvcat, dyn, cast?_self]

@[simp] theorem dmul_none_right (x : V α) : dmul x none = none := by cases x <;> rfl
@[simp] theorem dsub_none_right (x : V α) : dsub x none = none := by cases x <;> rfl
@[simp] theorem dvcat_none_right (x : V α) : dvcat x none = none := by cases x <;> rfl
@[simp] theorem dvcat_none_left (x : V α) : dvcat none x = none := rfl

end ops

end FantasyDyn

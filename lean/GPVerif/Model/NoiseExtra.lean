/-
C12 model, second part — the noise construction of the three Gaussian-family classes that `Model/Noise.lean` left out:

* `noise_models.HeteroskedasticNoise.forward`                          → `heteroNoise`, `heteroTaskDiag`, `heteroProtocol`
* `DirichletClassificationLikelihood._prepare_targets` / `__init__` / `__call__(targets=…)`
                                                                        → `dirAlpha`, `dirSigma2`, `dirTarget`, `dirichletStored`,
                                                                          `dirichletNoise`
* `GaussianLikelihoodWithMissingObs` (`_get_masked_obs`, `expected_log_prob`, `log_marginal`, `marginal`)
                                                                        → `missingObsTerm`

Executed by `drivers/C12.lean` through the regenerated definitions of `Gen/NoiseModels.lean` (at `Float` where a `log` /
constraint transform is involved, at `ℚ` for the matrices); the theorems of `Props/C12.lean` are about these definitions
at an arbitrary field / at `ℝ`.
-/
import GPVerif.Model.Noise

namespace Noise
variable {α : Type}

/-! ### HeteroskedasticNoise -/

/-- `HeteroskedasticNoise.forward` for a single-output noise model: a call-time `noise=ν` is used directly; otherwise
`R = diag(transform(μ))` with `μ` the mean of the noise model's prediction at the inputs (in eval mode) and `transform`
the noise constraint's transform. -/
def heteroNoise [Zero α] (transform : α → α) (n : Nat) (μ : Fin n → α) (call : Option (Fin n → α)) : DMat n n α :=
  match call with
  | some ν => DMat.diagonal ν
  | none => DMat.diagonal fun i => transform (μ i)

/-- … for a multi-output noise model (mean of one point: `μ : Fin t → α`) with `noise_indices = idx`: the diagonal of
the `k × k` block of that point is `transform(μ[idx a])`. -/
def heteroTaskDiag {t k : Nat} (transform : α → α) (μ : Fin t → α) (idx : Fin k → Fin t) : Fin k → α :=
  fun a => transform (μ (idx a))

/-- The mode protocol of `HeteroskedasticNoise.forward` around the call of the noise model: remember the mode, switch to
eval, call, and restore the remembered mode on every exit path (`finally`). -/
def heteroProtocol : List String := ["save-mode", "eval", "call", "finally:restore-mode"]

/-! ### DirichletClassificationLikelihood (Milios et al. 2018) -/

/-- `α_{i,c} = α_ε + [label_i = c]`. -/
def dirAlpha [Add α] [One α] (eps : α) (label c : Nat) : α := if label = c then eps + 1 else eps

/-- `σ̃² = log(1/α + 1)` (documented in the code's comment). -/
def dirSigma2 [Add α] [Div α] [One α] (log : α → α) (a : α) : α := log (1 / a + 1)

/-- `ỹ = log α − σ̃²/2`. -/
def dirTarget [Add α] [Sub α] [Mul α] [Div α] [One α] (log : α → α) (half : α) (a : α) : α :=
  log a - half * dirSigma2 log a

/-- entry `[c, i]` of the fixed noise the likelihood stores: batch element (class) `c`, point `i`. -/
def dirNoiseEntry [Add α] [Div α] [One α] (log : α → α) (eps : α) (labels : Nat → Nat) (c i : Nat) : α :=
  dirSigma2 log (dirAlpha eps (labels i) c)

/-- entry `[c, i]` of `transformed_targets` (the regression targets of class `c`). -/
def dirTargetEntry [Add α] [Sub α] [Mul α] [Div α] [One α] (log : α → α) (half eps : α) (labels : Nat → Nat)
    (c i : Nat) : α :=
  dirTarget log half (dirAlpha eps (labels i) c)

/-- the fixed noise of class `c` as the stored array of `FixedGaussianNoise` (`N` training points with labels `labels`). -/
def dirichletStored [Add α] [Div α] [One α] (log : α → α) (eps : α) (labels : Nat → Nat) (N c : Nat) : Array α :=
  Array.ofFn (n := N) fun i => dirNoiseEntry log eps labels c i.1

/-- The noise operator of class `c`: the FixedNoise operator of the transformed labels (+ the learned `σ_c² I` of that
class); call-time `targets=` are transformed like the training labels — with the likelihood's own `α_ε` — and used in
place of the stored noise. -/
def dirichletNoise [Zero α] [Add α] [Div α] [One α] (log : α → α) (eps : α) (labels : Nat → Nat) (N c : Nat)
    (learned : Option α) (n : Nat) (callLabels : Option (Nat → Nat)) : DMat n n α :=
  fixedNoise (dirichletStored log eps labels N c) learned n
    (callLabels.map fun ls => fun i : Fin n => dirNoiseEntry log eps ls c i.1)

/-! ### GaussianLikelihoodWithMissingObs -/

/-- An elementwise log-density term under missing observations: a missing observation (`none`) contributes `0`, an
observed one the term of `GaussianLikelihood` — whatever value the implementation fills in for the missing entry. -/
def missingObsTerm [Zero α] (y : Option α) (term : α → α) : α :=
  match y with
  | none => 0
  | some y => term y

end Noise

/-
C19 — executable model of the hand-written backward passes that are plain linear algebra
(`gpytorch/variational/natural_variational_distribution.py`, `ciq_variational_strategy.py`).
Column vectors are `n × 1` matrices.  Executed over `Rat` by `drivers/C19.lean`; theorems over any
commutative ring / `ℝ` in `Props/C19.lean`.
-/
import GPVerif.Model.DMat

namespace NaturalGrad
variable {n : Nat} {α : Type}

/-- `_NaturalToMuVarSqrt._backward` after `_cholesky_backward` produced `dout_dSigma`:
`(dout_deta1, dout_deta2) = (dout_dmu − 2·dout_dSigma·mu, dout_dSigma)` -/
def naturalBackward [Ring α] (gMu : DMat n 1 α) (gSigma : DMat n n α) (mu : DMat n 1 α) :
    DMat n 1 α × DMat n n α :=
  (gMu.sub ((gSigma.mul mu).smul 2), gSigma)

/-- `_phi_for_cholesky_`: lower triangle with the diagonal halved -/
def phi [Field α] (A : DMat n n α) : DMat n n α :=
  DMat.ofMatrix fun i j => if j.1 < i.1 then A.toMatrix i j else if i = j then A.toMatrix i j / 2 else 0

/-- `_cholesky_backward(dout_dL, L, L_inverse)`: `sym(L⁻ᵀ Φ(Lᵀ dout_dL) L⁻¹)` -/
def choleskyBackward [Field α] (dout L Linv : DMat n n α) : DMat n n α :=
  let X := (Linv.transpose.mul (phi (L.transpose.mul dout))).mul Linv
  (X.add X.transpose).smul (1 / 2)

/-- the two data terms of `_NgdInterpTerms.forward` as functions of the expectation parameters
`m = expec_vec`, `E = expec_mat = S + mmᵀ` (`k = interp_term`, one data point): `kᵀm` and `kᵀ(E − mmᵀ)k` -/
def interpMean [Ring α] (k m : DMat n 1 α) : α := (k.transpose.mul m).trace
def interpVar [Ring α] (k m : DMat n 1 α) (E : DMat n n α) : α :=
  (k.transpose.mul (E.mul k)).trace - interpMean k m * interpMean k m

/-- `_NgdInterpTerms.backward`: gradients w.r.t. the expectation parameters of the two data terms with
upstream factors `gm`, `gv`: `expec_vec_grad = −2 gv (kᵀm) k + gm k`, `expec_mat_grad = gv k kᵀ`
(the KL part `kl_grad·natural_vec`, `kl_grad·½(I − prec)` is added separately by the code). -/
def ngdExpecGrads [Ring α] (k m : DMat n 1 α) (gm gv : α) : DMat n 1 α × DMat n n α :=
  ((k.smul (-2 * gv * interpMean k m)).add (k.smul gm), (k.mul k.transpose).smul gv)

/-- `_NgdInterpTerms.backward`: `interp_term_grad = 2 gv (S k) + gm m` for one data point, where `S k` is the
CG solve `s_times_interp_term` and `m = expec_vec` (both delivered by `linear_cg`; their contract `S·prec = 1`
is linear_operator's). -/
def ngdInterpTermGrad [Ring α] (S : DMat n n α) (k m : DMat n 1 α) (gm gv : α) : DMat n 1 α :=
  ((S.mul k).smul (2 * gv)).add (m.smul gm)

/-- the data terms as functions of `interp_term = k` for fixed variational covariance `S` and mean `m` -/
def interpVarS [Ring α] (S : DMat n n α) (k : DMat n 1 α) : α := (k.transpose.mul (S.mul k)).trace

/-! ### wave 3: primitives of the regenerated code (`Gen/NaturalGrad.lean`, translator `g5_natgrad`) -/

variable {d r c : Nat}

/-- all-ones tensor: broadcasting a size-1 dimension is multiplication by `ones`, `.sum(dim)` is too -/
def ones [One α] : DMat r c α := DMat.ofMatrix (Matrix.of fun _ _ => 1)

/-- `A.tril_()`: keep the lower triangle (diagonal included) -/
def tril [Zero α] (A : DMat n n α) : DMat n n α :=
  DMat.ofMatrix (Matrix.of fun i j => if j.1 ≤ i.1 then A.toMatrix i j else 0)

/-- `A.diagonal(offset=0, dim1=-2, dim2=-1).mul_(c)`: the diagonal *view* is scaled in place -/
def scaleDiag [Mul α] (cf : α) (A : DMat n n α) : DMat n n α :=
  DMat.ofMatrix (Matrix.of fun i j => if i = j then A.toMatrix i j * cf else A.toMatrix i j)

/-- `torch.cat([v, M], dim=-1)` -/
def hcat {a b : Nat} (A : DMat n a α) (B : DMat n b α) : DMat n (a + b) α :=
  DMat.ofMatrix (Matrix.of fun i j => Fin.addCases (fun j => A.toMatrix i j) (fun j => B.toMatrix i j) j)

/-- `T[..., c0 : c0 + c']` (column slice; total: out-of-range reads give 0) -/
def cols [Zero α] {c' : Nat} (A : DMat r c α) (c0 : Nat) : DMat r c' α :=
  DMat.ofMatrix (Matrix.of fun i j => if h : c0 + j.1 < c then A.toMatrix i ⟨c0 + j.1, h⟩ else 0)

/-- `diag(v)` of a row tensor `v` (shape `1 × d`) -/
def rowDiag [Zero α] (v : DMat 1 d α) : DMat d d α := DMat.diagonal fun j => v.toMatrix 0 j

/-! ### wave 3: hand-written models (specifications) the regenerated code is proved equal to -/

/-- second output of `_TrilNaturalToMuVarSqrt.backward`: `Φ(−2·LᵀGL)·C` with `G = dout_dnat2` (the gradient
w.r.t. the second expectation parameter = direction in which the natural matrix moves), `C = natural_tril_mat`,
`L = C⁻¹`.  It is the tangent of `θ ↦ C(θ)`, `C(θ)ᵀC(θ) = −2θ`, in the direction `G`. -/
def trilTangent [Field α] (G L C : DMat n n α) : DMat n n α :=
  (phi (((L.transpose.mul G).mul L).smul (-2))).mul C

/-- `_NgdInterpTerms.forward` for `d` data points (`K = interp_term`, `n × d`), as a function of the mean `m` and
covariance `S` of the variational distribution: `interp_mean = Kᵀm` (`d × 1`) -/
def interpMeanM [Ring α] (K : DMat n d α) (m : DMat n 1 α) : DMat d 1 α := K.transpose.mul m

/-- `interp_var = diag(KᵀSK)` as a `d × 1` column -/
def interpVarM [Ring α] (K : DMat n d α) (S : DMat n n α) : DMat d 1 α :=
  DMat.ofMatrix (Matrix.of fun j _ => ((K.transpose.mul (S.mul K)).toMatrix j j))

/-- `_NgdInterpTerms.backward`, first output, `d` data points: `2·(SK)·diag(gv) + m·gm` -/
def ngdInterpTermGradM [Field α] (S : DMat n n α) (K : DMat n d α) (m : DMat n 1 α) (gm gv : DMat 1 d α) :
    DMat n d α :=
  ((((S.mul K).mul (rowDiag gv))).smul 2).add (m.mul gm)

/-- second output: `K·(−2·diag(gv)·Kᵀm + gmᵀ) + gk·natural_vec` (the last summand is the KL part `S⁻¹m`) -/
def ngdExpecVecGradM [Field α] (K : DMat n d α) (m nv : DMat n 1 α) (gm gv : DMat 1 d α) (gk : α) : DMat n 1 α :=
  (K.mul ((((rowDiag gv).mul (K.transpose.mul m)).smul (-2)).add gm.transpose)).add (nv.smul gk)

/-- third output: `K·diag(gv)·Kᵀ + gk·½(I − prec)` (the last summand is the KL part `½(I − S⁻¹)`) -/
def ngdExpecMatGradM [Field α] (K : DMat n d α) (prec : DMat n n α) (gv : DMat 1 d α) (gk : α) : DMat n n α :=
  ((K.mul (rowDiag gv)).mul K.transpose).add ((((DMat.one : DMat n n α).sub prec).smul (1 / 2)).smul gk)

end NaturalGrad

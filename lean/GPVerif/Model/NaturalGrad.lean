/-
C19 — executable model of the hand-written backward passes that are plain linear algebra
(`gpytorch/variational/natural_variational_distribution.py`, `ciq_variational_strategy.py`).
Column vectors are `n × 1` matrices.  Executed over `Rat` by `drivers/C19.lean`; theorems over any
commutative ring / `ℝ` in `Props/C19.lean`.
-/
import GPVerif.Model.DMat

namespace NaturalGrad
variable {n : Nat} {α : Type}

/-- `_NaturalToMuVarSqrt._backward` after `_cholesky_backward` produced `dout_dSigma`:
`(dout_deta1, dout_deta2) = (dout_dmu − 2·dout_dSigma·mu, dout_dSigma)` -/
def naturalBackward [Ring α] (gMu : DMat n 1 α) (gSigma : DMat n n α) (mu : DMat n 1 α) :
    DMat n 1 α × DMat n n α :=
  (gMu.sub ((gSigma.mul mu).smul 2), gSigma)

/-- `_phi_for_cholesky_`: lower triangle with the diagonal halved -/
def phi [Field α] (A : DMat n n α) : DMat n n α :=
  DMat.ofMatrix fun i j => if j.1 < i.1 then A.toMatrix i j else if i = j then A.toMatrix i j / 2 else 0

/-- `_cholesky_backward(dout_dL, L, L_inverse)`: `sym(L⁻ᵀ Φ(Lᵀ dout_dL) L⁻¹)` -/
def choleskyBackward [Field α] (dout L Linv : DMat n n α) : DMat n n α :=
  let X := (Linv.transpose.mul (phi (L.transpose.mul dout))).mul Linv
  (X.add X.transpose).smul (1 / 2)

/-- the two data terms of `_NgdInterpTerms.forward` as functions of the expectation parameters
`m = expec_vec`, `E = expec_mat = S + mmᵀ` (`k = interp_term`, one data point): `kᵀm` and `kᵀ(E − mmᵀ)k` -/
def interpMean [Ring α] (k m : DMat n 1 α) : α := (k.transpose.mul m).trace
def interpVar [Ring α] (k m : DMat n 1 α) (E : DMat n n α) : α :=
  (k.transpose.mul (E.mul k)).trace - interpMean k m * interpMean k m

/-- `_NgdInterpTerms.backward`: gradients w.r.t. the expectation parameters of the two data terms with
upstream factors `gm`, `gv`: `expec_vec_grad = −2 gv (kᵀm) k + gm k`, `expec_mat_grad = gv k kᵀ`
(the KL part `kl_grad·natural_vec`, `kl_grad·½(I − prec)` is added separately by the code). -/
def ngdExpecGrads [Ring α] (k m : DMat n 1 α) (gm gv : α) : DMat n 1 α × DMat n n α :=
  ((k.smul (-2 * gv * interpMean k m)).add (k.smul gm), (k.mul k.transpose).smul gv)

/-- `_NgdInterpTerms.backward`: `interp_term_grad = 2 gv (S k) + gm m` for one data point, where `S k` is the
CG solve `s_times_interp_term` and `m = expec_vec` (both delivered by `linear_cg`; their contract `S·prec = 1`
is linear_operator's). -/
def ngdInterpTermGrad [Ring α] (S : DMat n n α) (k m : DMat n 1 α) (gm gv : α) : DMat n 1 α :=
  ((S.mul k).smul (2 * gv)).add (m.smul gm)

/-- the data terms as functions of `interp_term = k` for fixed variational covariance `S` and mean `m` -/
def interpVarS [Ring α] (S : DMat n n α) (k : DMat n 1 α) : α := (k.transpose.mul (S.mul k)).trace

end NaturalGrad

/-
C07 model — "every covariance handed out is a valid covariance".

Executed by `drivers/C07.lean` at `α = ℚ` (core `Rat`; every float64 is an exact dyadic rational) and, for
the scalar noise transform, at `α = Float`.  The theorems in `Props/C07.lean` are about these same
definitions (through `DMat.toMatrix`) at `ℚ`, at an arbitrary linearly ordered field, and at `ℝ`.

Code modelled (gpytorch):
* `distributions/multivariate_normal.py  MultivariateNormal.variance`      → `Clamp.run Gen.C07.varianceClamp`, `variance`
* `likelihoods/noise_models.py           FixedGaussianNoise.__init__`       → `Clamp.run Gen.C07.fixedNoiseClamp`
* `constraints/constraints.py            GreaterThan.transform`             → `NExpr.eval Gen.C07.greaterThanTransform`, `noise`
* `models/exact_prediction_strategies.py exact_predictive_covar`            → `posteriorCov?` (Schur complement)
* `likelihoods/gaussian_likelihood.py    marginal`                          → `marginalCov`
* `variational/variational_strategy.py   forward` (predictive covariance)    → `variationalCov`
and the driver's exact decision procedure for "is this symmetric rational matrix PSD": `psdCert?`
(an `L·D·Lᵀ` certificate, `D ≥ 0`) / `negWitness?` (a vector of negative curvature).
-/
import GPVerif.Model.LDL

open Matrix

namespace C07
variable {α : Type}

/-! ### clamp IR (regenerated: `Gen.C07.varianceClamp`, `Gen.C07.fixedNoiseClamp`) -/

/-- Elementwise tensor expressions over the clamped tensor (`input`) and the settings value (`bound`). -/
inductive VExpr where
  | input
  | bound
  | clampMin (a b : VExpr)   -- `a.clamp_min(b)`, `a.clamp(min=b)`
  | clampMax (a b : VExpr)   -- `a.clamp_max(b)`
  deriving Repr, DecidableEq

def VExpr.eval [Max α] [Min α] {n : Nat} (x : Fin n → α) (b : α) : VExpr → Fin n → α
  | .input => x
  | .bound => fun _ => b
  | .clampMin a c => fun i => max (a.eval x b i) (c.eval x b i)
  | .clampMax a c => fun i => min (a.eval x b i) (c.eval x b i)

/-- `if a.lt(b).any(): x = thenE` (`guard = none`: unconditional); otherwise the tensor is `elseE`. -/
structure Clamp where
  guard : Option (VExpr × VExpr)
  thenE : VExpr
  elseE : VExpr
  deriving Repr

/-- `u.lt(v).any()` -/
def anyLt [LT α] [DecidableLT α] {n : Nat} (u v : Fin n → α) : Bool :=
  (List.finRange n).any fun i => decide (u i < v i)

def Clamp.run [Max α] [Min α] [LT α] [DecidableLT α] (c : Clamp) {n : Nat} (x : Fin n → α) (b : α) :
    Fin n → α :=
  match c.guard with
  | none => c.thenE.eval x b
  | some (u, v) => if anyLt (u.eval x b) (v.eval x b) then c.thenE.eval x b else c.elseE.eval x b

/-- The documented meaning: `variance := max (diag Σ) min_variance`, elementwise. -/
def variance [Max α] {n : Nat} (diag : Fin n → α) (minVariance : α) : Fin n → α :=
  fun i => max (diag i) minVariance

/-! ### constraint transform IR (regenerated: `Gen.C07.greaterThanTransform`) -/

inductive NExpr where
  | raw
  | lower
  | tr (e : NExpr)            -- `self._transform(e)`
  | add (a b : NExpr)
  | sub (a b : NExpr)
  | mul (a b : NExpr)
  | neg (a : NExpr)
  deriving Repr, DecidableEq

def NExpr.eval [Add α] [Sub α] [Mul α] [Neg α] (tr : α → α) (raw lower : α) : NExpr → α
  | .raw => raw
  | .lower => lower
  | .tr e => tr (e.eval tr raw lower)
  | .add a b => a.eval tr raw lower + b.eval tr raw lower
  | .sub a b => a.eval tr raw lower - b.eval tr raw lower
  | .mul a b => a.eval tr raw lower * b.eval tr raw lower
  | .neg a => -(a.eval tr raw lower)

/-- The documented meaning: `noise := softplus raw + lower`. -/
def noise [Add α] (softplus : α → α) (raw lower : α) : α := softplus raw + lower

/-- `torch.nn.Softplus()` (beta = 1, threshold = 20): `x` above the threshold, `log (1 + exp x)` below;
`exp`, `log` and the threshold are parameters so that the same term runs at `Float` and is reasoned about at `ℝ`. -/
def softplusT [Add α] [One α] [LT α] [DecidableLT α] (exp log : α → α) (thr x : α) : α :=
  if thr < x then x else log (1 + exp x)

/-! ### covariances -/

section cov
variable [Field α] [DecidableEq α] {n m : Nat}

/-- Schur complement `D − Bᵀ A⁻¹ B` (`none` when `A` is not certified invertible).
Exact-GP posterior covariance: `A = K_xx + σ²I`, `B = K_x*`, `D = K_**`. -/
def posteriorCov? (A : DMat n n α) (B : DMat n m α) (D : DMat m m α) : Option (DMat m m α) :=
  (DMat.inv? A).map fun Ai => D.sub ((B.transpose.mul Ai).mul B)

/-- What conditioning removes: `Bᵀ A⁻¹ B` (prior − posterior). -/
def reduction? (A : DMat n n α) (B : DMat n m α) : Option (DMat m m α) :=
  (DMat.inv? A).map fun Ai => (B.transpose.mul Ai).mul B

/-- `likelihood(f)`: covariance plus noise covariance. -/
def marginalCov (C R : DMat m m α) : DMat m m α := C.add R

/-- Whitened variational predictive covariance `K_** − Bᵀ (I − S) B`, `B = L⁻¹ K_z*`, `S` the variational
covariance of the whitened inducing values. -/
def variationalCov {k : Nat} (Kss : DMat m m α) (B : DMat k m α) (S : DMat k k α) : DMat m m α :=
  Kss.sub ((B.transpose.mul ((DMat.one : DMat k k α).sub S)).mul B)

end cov

/-! ### exact PSD decision for the driver -/

section cert
variable [Field α] [DecidableEq α] [LE α] [DecidableLE α] [LT α] [DecidableLT α] {n : Nat}

/-- `vᵀ M v`. -/
def quadForm (M : DMat n n α) (v : Fin n → α) : α := v ⬝ᵥ (M.toMatrix *ᵥ v)

/-- `M + δ I`. -/
def shift (M : DMat n n α) (δ : α) : DMat n n α := M.add (DMat.diagonal fun _ => δ)

/-- PSD certificate: the certified `L·D·Lᵀ` factorisation of `M` (unit lower triangular `L`) with `D ≥ 0`.
(`DMat.rawLDL` divides by a zero pivot as `x / 0 = 0`; for a PSD matrix a zero pivot has a zero column below
it, so the exact product check of `ldl?` still passes: singular PSD matrices are certified without any shift.) -/
def psdCert? (M : DMat n n α) : Option (DMat n n α × (Fin n → α)) :=
  match DMat.ldl? M with
  | some (L, d) => if ∀ i, 0 ≤ d i then some (L, d) else none
  | none => none

/-- Raw search for a direction of negative curvature by `M`-orthogonalisation of the unit vectors.
No claim is made about this function; its result is used only behind the exact check in `negWitness?`. -/
def rawWitness (n : Nat) (M : Array (Array α)) : Option (Array α) := Id.run do
  let g (i j : Nat) : α := (M[i]?.getD #[])[j]?.getD 0
  let bil (u v : Array α) : α := Id.run do
    let mut s : α := 0
    for i in [0:n] do
      let ui := u[i]?.getD 0
      if ui ≠ 0 then
        for j in [0:n] do
          s := s + ui * g i j * (v[j]?.getD 0)
    return s
  let mut U : Array (Array α) := Array.ofFn fun (i : Fin n) => Array.ofFn fun (j : Fin n) => if i = j then 1 else 0
  for j in [0:n] do
    let uj := U[j]?.getD #[]
    let p := bil uj uj
    if p < 0 then return some uj
    if p = 0 then
      for i in [j+1:n] do
        let ui := U[i]?.getD #[]
        let c := bil ui uj
        if c ≠ 0 then
          let t := (bil ui ui + 1) / (2 * c)
          return some (ui.zipWith (fun a b => a - t * b) uj)
    else
      for i in [j+1:n] do
        let ui := U[i]?.getD #[]
        let c := bil ui uj
        if c ≠ 0 then
          U := U.setIfInBounds i (ui.zipWith (fun a b => a - (c / p) * b) uj)
  return none

/-- A vector `v` with `vᵀ M v < 0`, checked exactly. -/
def negWitness? (M : DMat n n α) : Option (Fin n → α) :=
  match rawWitness n M.arr with
  | none => none
  | some raw =>
    let v : Fin n → α := fun i => raw[i.1]?.getD 0
    if quadForm M v < 0 then some v else none

/-- Is the square array symmetric (exactly)? -/
def isSymmB (M : DMat n n α) : Bool := decide (M.transpose.arr = M.arr)

end cert

end C07

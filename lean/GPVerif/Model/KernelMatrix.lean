/-
C06 model (core Lean): kernels at the MATRIX level — what a `forward` computes on whole inputs `(x1, x2)`.

`KernelIndex.evalDense` takes a *pairwise* function `κ θ a b`.  The code is not written that way: `sq_dist` subtracts
`x1.mean(-2)` (the mean of ALL rows of its first argument) from every row before the quadratic expansion, Matérn's
`forward` centres on the mean itself, `covar_dist` switches on `torch.equal(x1, x2)` (a property of the whole
tensors) and fills the diagonal `i = j`.  So entry `(i, j)` is syntactically a function of all rows of `x1`, of the
flag and of the positions.  A matrix-level forward (`MatFwd`) is therefore

    F same θ X1 X2 i j        (same = `torch.equal(x1_, x2_)`, X1 X2 = all rows of one batch element)

and `evalDenseMat` is `evalDense` with such an `F`.  `Gen/KernelCall.lean` (regenerated) instantiates it with the
regenerated per-pair terms of `Gen/KernelFormulas.lean` / `Gen/Formulas.lean`, centres bound to `colMean` of the
rows the source passes to the distance helper.  `Props/C06Kernels.lean` proves that over `ℝ` every such `F` *is*
pairwise (the centring cancels), hence that the generic C06 laws apply to the regenerated kernels.

Everything is polymorphic in the scalar: executed at `Float` by `drivers/C06.lean`, proved about at `ℝ`.
-/
import GPVerif.Model.Scalar
import GPVerif.Model.KernelIndex

namespace KernelMatrix
open Bcast PyIndex KernelIndex

variable {α : Type} [Add α] [Sub α] [Mul α] [Div α] [Neg α] [Scalar α]

/-! ### primitives of torch that the generated code calls (parameters with a contract) -/

/-- `torch.cdist(x1, x2)` for one pair of rows and `torch.linalg.norm(r, dim=-1)` for one row -/
structure Prims (α : Type) where
  cdist : List α → List α → α
  norm2 : List α → α

/-- their meaning: Euclidean distance / Euclidean norm -/
def Prims.euclid : Prims α := ⟨Scalar.dist, fun r => Scalar.sqrt (Scalar.sum (r.map Scalar.sq))⟩

/-! ### `x.mean(-2)`: the mean row -/

/-- column sums of a list of rows (`x.sum(-2)`); rows of a non-empty list are added left to right -/
def colSum : List (List α) → List α
  | [] => []
  | [r] => r
  | r :: rs => Scalar.zip (· + ·) r (colSum rs)

/-- `x.mean(-2)`: one row, the mean of all rows -/
def colMean (X : List (List α)) : List α := Scalar.rowDivS (colSum X) (Scalar.lit (X.length : Rat))

/-- zip that also passes the position: `last_dim_is_batch=True` makes every input dimension `k` its own batch
element (1-d points `[x[k]]`), so a per-dimension helper may depend on `k` (its centre is `mean[k]`) -/
def zipIdx (f : Nat → α → α → α) : Nat → List α → List α → List α
  | k, a :: as, b :: bs => f k a b :: zipIdx f (k + 1) as bs
  | _, _, _ => []

/-! ### parameters and families of the regenerated kernels -/

/-- one bundle for the parameters of every regenerated kernel: a per-dimension list (`lengthscale` / `variance`),
a second per-dimension list (`period_length` of PeriodicKernel), one scalar (`alpha`, `offset`, `constant`,
CosineKernel's `period_length`, the single lengthscale of the fast paths) and one natural number (`power`) -/
structure Theta (α : Type) where
  ls : List α
  ps : List α
  s : α
  k : Nat

/-- the regenerated `forward` configurations (definitions of `Gen/KernelFormulas.lean`, `Gen/Formulas.lean`) -/
inductive Fam
  | rbfGeneric | rbfFast
  | matern12Generic | matern32Generic | matern52Generic
  | matern12Fast | matern32Fast | matern52Fast
  | rq | periodic | cosine
  | linear | linearSame
  | polynomial | polynomialBatched
  | pp0 | pp1 | pp2 | pp3
  | constant
  deriving DecidableEq, Repr

def Fam.all : List Fam :=
  [.rbfGeneric, .rbfFast, .matern12Generic, .matern32Generic, .matern52Generic, .matern12Fast, .matern32Fast,
   .matern52Fast, .rq, .periodic, .cosine, .linear, .linearSame, .polynomial, .polynomialBatched, .pp0, .pp1, .pp2,
   .pp3, .constant]

/-- the `diag=True` configurations that are regenerated -/
inductive DiagFam
  | rbf | rq | periodic | polynomial | constant
  deriving DecidableEq, Repr

/-- the family whose full matrix a `diag=True` configuration is the diagonal of -/
def DiagFam.toFam : DiagFam → Fam
  | .rbf => .rbfGeneric | .rq => .rq | .periodic => .periodic | .polynomial => .polynomial | .constant => .constant

/-- families whose distance goes through `dist` (clamped at `1e-15`, resp. `√clamp(·, 1e-30)` when
`torch.equal(x1, x2)`): their pair function depends on the `same` flag through the clamp constant only -/
def Fam.usesDist : Fam → Bool
  | .matern12Generic | .matern32Generic | .matern52Generic | .matern12Fast | .matern32Fast | .matern52Fast
  | .periodic | .cosine | .pp0 | .pp1 | .pp2 | .pp3 => true
  | _ => false

/-- families that read per-dimension parameters: `ls` (and `ps`) must have one entry per input dimension -/
def Fam.needsLs : Fam → Bool
  | .rbfGeneric | .matern12Generic | .matern32Generic | .matern52Generic | .rq | .periodic | .pp0 | .pp1 | .pp2 | .pp3 => true
  | _ => false

def Fam.needsPs : Fam → Bool
  | .periodic => true
  | _ => false

/-! ### matrix-level evaluation -/

/-- a matrix-level forward: the flag `torch.equal(x1_, x2_)`, the parameters, all rows of both inputs, and the
position of the entry -/
abbrev MatFwd (Θ α : Type) := Bool → Θ → List (List α) → List (List α) → Nat → Nat → α

/-- a matrix-level `diag=True` forward: entry `i` -/
abbrev DiagFwd (Θ α : Type) := Bool → Θ → List (List α) → List (List α) → Nat → α

variable {X Θ V : Type}

/-- all rows of batch element `b` -/
def rows (x : Inputs X) (b : RIdx) : List X := (List.range x.n).map (x.pt b)

/-- `evalDense` for code that sees the whole inputs: entry `(b, i, j)` is computed from the parameter slice, ALL
rows of `x1[b]` and `x2[b]`, the flag and the position -/
def evalDenseMat (F : MatFwd Θ V) (same : Bool) (bs : RShape) (p : Params Θ) (x1 x2 : Inputs (List V)) : T V :=
  ⟨x2.n :: x1.n :: bs, fun idx =>
    let b := idx.drop 2
    F same (p.th (bidxR p.bshape b)) (rows x1 (bidxR x1.bshape b)) (rows x2 (bidxR x2.bshape b))
      (idx.getD 1 0) (idx.getD 0 0)⟩

/-- `kernel(x1, x2, diag=True)` at the matrix level -/
def evalDiagMat (F : DiagFwd Θ V) (same : Bool) (bs : RShape) (p : Params Θ) (x1 x2 : Inputs (List V)) : T V :=
  ⟨x1.n :: bs, fun idx =>
    let b := idx.drop 1
    F same (p.th (bidxR p.bshape b)) (rows x1 (bidxR x1.bshape b)) (rows x2 (bidxR x2.bshape b))
      (idx.getD 0 0)⟩

/-- `torch.equal(x1, x2)` on batched inputs: same batch shape, same number of points, same entries -/
def inputsEqual [BEq X] (x1 x2 : Inputs X) : Bool :=
  x1.bshape == x2.bshape && x1.n == x2.n &&
    (allIdx x1.bshape).all fun b => (List.range x1.n).all fun i => x1.pt b i == x2.pt b i

/-- inputs read from row-major storage `(*bshape, n, d)`; reads outside the storage give the zero row of length `d`
(so every point has length `d`, which is what the theorems' well-formedness hypothesis asks) -/
def ofStorage (bshape : RShape) (n d : Nat) (data : Array α) : Inputs (List α) :=
  ⟨bshape, n, fun b i =>
    let base := (flat (n :: bshape) (i :: b)) * d
    (List.range d).map fun c => data.getD (base + c) (Scalar.lit 0)⟩

end KernelMatrix

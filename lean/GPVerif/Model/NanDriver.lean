/-
Line protocol of the C16 drivers (NaN-policy definitions of GPVerif/Model/ExactGP.lean at ℚ), parameterised by the
GENERATED `exact_prediction` so that two drivers share it:

* `drivers/C16.lean`      passes `Gen.ExactAlgebra.exact_prediction` (translator G7);
* `drivers/C16spec.lean`  passes nothing (hand-written, theorem-backed model only) — the fall-back the harness uses
  when the regenerated file no longer type-checks, so that every case is still judged against the specification.

Requests:
  nan n s  J[(n+s)×(n+s)] mj[(n+s)×1] S[n×n] y[n×1] obs[n×1 of 0/1] c[1×1] c'[1×1] cfg₁ cfg₂ …
    (entries of y at missing positions are arbitrary placeholders; they are never read under mask and are
     overwritten by the fill value c under fill)
  -> ok cnt | meanMask | covarMask | meanFill | covarFill | covarIgnoringPolicy | quad | det
        | gMeanMask₁ | gCovarMask₁ | gMeanFill₁ | gCovarFill₁ | gMeanMask₂ | …
     the g*ᵢ from the GENERATED `exact_prediction` under policy mask / fill and the branch configuration cfgᵢ
     (bit mask: 1 fast, 2 skip, 4 detach, 8 eager, 16 ttDim2, 32 ttIsTensor), fill value c; `nogen` when the
     generated function returns none (or the driver has none); no cfg given = the single configuration 24;
     quad = r_oᵀ (A_oo)⁻¹ r_o and det = det(sym A_oo) (certified LDLᵀ; `nodet` when the certificate fails)
     (or `singular`)
  union B n  O[B×n of 0/1]
  -> ok u₁ … u_n      `ExactGP.obsUnion`: what `_get_observed` (policy `mask`) makes of a batch of patterns
-/
import GPVerif.Model.ExactGP
import GPVerif.Model.LDL
import GPVerif.Model.Proto
open Proto ExactGP

namespace NanDriver

def takeD (n m : Nat) (ts : List String) : Option (DMat n m Rat × List String) := do
  let (r, c, rows, rest) ← takeMat? ts
  if r = n ∧ c = m then some (DMat.ofRaw rows, rest) else none

def showD {n m : Nat} (A : DMat n m Rat) : String := showRows A.toRows

def detStr {k : Nat} (A : DMat k k Rat) : String :=
  let Asym : DMat k k Rat := (A.add A.transpose).smul (1 / 2)
  match DMat.ldl? Asym with
  | some (_, d) => showRat ((List.finRange k).foldl (fun acc i => acc * d i) 1)
  | none => "nodet"

/-- The generated `exact_prediction` as the protocol sees it: configuration code, policy, `J mj A mx y obs cfill`. -/
abbrev GenFn := (n s : Nat) → Nat → Policy → DMat (n + s) (n + s) Rat → DMat (n + s) 1 Rat → DMat n n Rat →
  DMat n 1 Rat → DMat n 1 Rat → (Fin n → Bool) → Rat → Option (DMat s 1 Rat × DMat s s Rat)

/-- No generated code (fall-back driver). -/
def noGen : GenFn := fun _ _ _ _ _ _ _ _ _ _ _ => none

def stepNan (gen : GenFn) (n s : Nat) (ts : List String) : Option String := do
  let (J, ts) ← takeD (n + s) (n + s) ts
  let (mj, ts) ← takeD (n + s) 1 ts
  let (S, ts) ← takeD n n ts
  let (y, ts) ← takeD n 1 ts
  let (o, ts) ← takeD n 1 ts
  let (c, ts) ← takeD 1 1 ts
  let (c', ts) ← takeD 1 1 ts
  let codes := match ts.filterMap String.toNat? with
    | [] => [24]
    | l => l
  let obs : Fin n → Bool := fun i => o.toMatrix i 0 != 0
  let A := marginal (trainBlock J) S
  let g (code : Nat) (pol : Policy) : List String :=
    match gen n s code pol J mj A (splitMean mj).1 y obs (c.toMatrix 0 0) with
    | some (m, C) => [showD m, showD C]
    | none => ["nogen", "nogen"]
  match nanPosterior J mj S y obs (c.toMatrix 0 0) (c'.toMatrix 0 0) with
  | some P =>
    some ("ok " ++ " | ".intercalate ([toString P.cnt, showD P.meanMask, showD P.covarMask, showD P.meanFill,
      showD P.covarFill, showD P.covarIgnoring, showRat P.quad,
      detStr (maskSub A obs)] ++ (codes.map fun code => g code Policy.mask ++ g code Policy.fill).flatten))
  | none => some "singular"

def stepUnion (B n : Nat) (ts : List String) : Option String := do
  let (O, _) ← takeD B n ts
  let u := obsUnion (fun (b : Fin B) (i : Fin n) => O.toMatrix b i != 0)
  some ("ok " ++ " ".intercalate ((List.finRange n).map fun i => if u i then "1" else "0"))

def step (gen : GenFn) (line : String) : String :=
  let r : Option String :=
    match tokens line with
    | "nan" :: n :: s :: ts => do stepNan gen (← n.toNat?) (← s.toNat?) ts
    | "union" :: b :: n :: ts => do stepUnion (← b.toNat?) (← n.toNat?) ts
    | _ => none
  r.getD "bad-request"

end NanDriver

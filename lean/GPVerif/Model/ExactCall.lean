/-
Hand-written specification of what `ExactGP.__call__` and `DefaultPredictionStrategy` do AROUND the prediction algebra
of `Model/ExactGP.lean` (C01, wave 3).  Core Lean + `Model/Bcast` (tensors as index functions); the regenerated
counterpart is `Gen/ExactCall.lean` (translator `harness/translate/g7_exact_call.py`), the theorems
`gen_call_modes_eq_model`, `gen_concat_eq_model`, `gen_multitask_reshape_eq_model`, `gen_detach_follows_setting` of
`Props/C01.lean` say that the regenerated definitions are these, and `drivers/C01.lean` executes the regenerated ones.

* `callSpec`      which of the three branches of `ExactGP.__call__` is taken (training / prior / posterior), the
                  `settings.debug` checks (inputs must be the training inputs in training mode, warning in eval mode,
                  `forward` must return a MultivariateNormal);
* `concatSpec`    the joint inputs `[train; test]` with batch broadcasting: for every element `b` of the broadcast batch
                  shape the rows are the train rows of the train batch element `b` broadcasts to, then the test rows;
* `interleaved`   the layout of a multitask event: flat index `point·t + task`; `reshapeSpec` reads the flat test part of
                  the joint back as a `(point, task)` table;
* `detachSpec`    `settings.detach_test_caches`: a cache is detached iff the setting is on.
-/
import GPVerif.Model.Bcast

namespace ExactCall
open Bcast

/-! ### Which branch of `ExactGP.__call__` runs -/

/-- Everything the branch selection of `ExactGP.__call__` looks at. -/
structure CallCfg where
  training : Bool      -- self.training
  hasInputs : Bool     -- self.train_inputs is not None
  hasTargets : Bool    -- self.train_targets is not None
  debug : Bool         -- settings.debug.on()
  priorMode : Bool     -- settings.prior_mode.on()
  inputsEqual : Bool   -- all(torch.equal(train_input, input) for …)
  outputIsMVN : Bool   -- isinstance(full_output, MultivariateNormal)
  deriving DecidableEq, Repr

/-- What a call does. -/
inductive Outcome
  | raiseNoTrainInputs             -- "train_inputs cannot be None in training mode"
  | raiseMustTrainOnTrainInputs    -- "You must train on the training inputs!"
  | raiseNotMVN                    -- "ExactGP.forward must return a MultivariateNormal"
  | priorAtInputs                  -- `forward` at the call inputs (1-d inputs unsqueezed), returned as it is
  | priorAtArgs                    -- `forward` at the call arguments exactly as given, returned as it is
  | posterior (warn : Bool)        -- the posterior branch (C01's closed form); `warn`: GPInputWarning emitted
  deriving DecidableEq, Repr

/-- The documented behaviour: training mode returns the prior at the training inputs (under `settings.debug` other
inputs are an error); evaluation mode without data or under `prior_mode` returns the prior; evaluation mode with data
returns the posterior (under `settings.debug` with a warning when the inputs are the training inputs). -/
def callSpec (c : CallCfg) : Outcome :=
  if c.training then
    if !c.hasInputs then .raiseNoTrainInputs
    else if c.debug && !c.inputsEqual then .raiseMustTrainOnTrainInputs
    else .priorAtInputs
  else if c.priorMode || !c.hasInputs || !c.hasTargets then
    if c.debug && !c.outputIsMVN then .raiseNotMVN else .priorAtArgs
  else
    if c.debug && !c.outputIsMVN then .raiseNotMVN else .posterior (c.debug && c.inputsEqual)

def Outcome.code : Outcome → Nat
  | .raiseNoTrainInputs => 0 | .raiseMustTrainOnTrainInputs => 1 | .raiseNotMVN => 2
  | .priorAtInputs => 3 | .priorAtArgs => 4 | .posterior false => 5 | .posterior true => 6

def cfgOfCode (k : Nat) : CallCfg :=
  { training := k % 2 == 1, hasInputs := (k / 2) % 2 == 1, hasTargets := (k / 4) % 2 == 1, debug := (k / 8) % 2 == 1,
    priorMode := (k / 16) % 2 == 1, inputsEqual := (k / 32) % 2 == 1, outputIsMVN := (k / 64) % 2 == 1 }

/-! ### Joint inputs `[train; test]` with batch broadcasting

Tensors of ROWS (`Bcast.T`, shapes innermost-first): a train input is `n :: batch`, a test input `s :: batch'`; the
feature axis is part of the row object. -/

section concat
variable {α : Type}

/-- `torch.cat([a, b], dim=-2)` (both already carry the same batch shape). -/
def catRows (a b : T α) : T α :=
  ⟨(a.shape.headD 0 + b.shape.headD 0) :: a.shape.tail, fun idx =>
    match idx with
    | i :: bs => if i < a.shape.headD 0 then a.get (i :: bs) else b.get ((i - a.shape.headD 0) :: bs)
    | [] => a.get []⟩

/-- The joint input the property speaks of: defined iff the two batch shapes broadcast; batch element `b` of the result
holds the train rows of the train batch element that `b` broadcasts to, followed by the test rows. -/
def concatSpec (tr te : T α) : Option (T α) :=
  (bcastR tr.shape.tail te.shape.tail).map fun B =>
    ⟨(tr.shape.headD 0 + te.shape.headD 0) :: B, fun idx =>
      match idx with
      | i :: b => if i < tr.shape.headD 0 then tr.get (i :: bidxR tr.shape.tail b)
                  else te.get ((i - tr.shape.headD 0) :: bidxR te.shape.tail b)
      | [] => tr.get []⟩

/-- Two tensors agree: same shape and the same entry at every valid index. -/
def TEq (a b : T α) : Prop := a.shape = b.shape ∧ ∀ idx, InRange idx b.shape → a.get idx = b.get idx

/-- `t[..., k:]` on the innermost axis. -/
def dropFirst (t : T α) (k : Nat) : T α :=
  ⟨(t.shape.headD 0 - k) :: t.shape.tail, fun idx =>
    match idx with
    | i :: bs => t.get ((i + k) :: bs)
    | [] => t.get []⟩

end concat

/-! ### Multitask layout -/

section multitask
variable {α : Type}

/-- The interleaved event of a multitask distribution over `m` points and `t` tasks: a flat vector whose entry
`point·t + task` is `f point task` (`MultitaskMultivariateNormal`, `interleaved=True`). -/
def interleaved (f : Nat → Nat → α) (m t : Nat) : T α := ⟨[m * t], fun idx => f (idx.headD 0 / t) (idx.headD 0 % t)⟩

/-- A `(point, task)` table as a tensor of torch shape `(m, t)` (innermost-first `[t, m]`). -/
def table (f : Nat → Nat → α) (m t : Nat) : T α := ⟨[t, m], fun idx => f (idx.getD 1 0) (idx.headD 0)⟩

end multitask

/-! ### `detach_test_caches` -/

/-- A test-time cache is detached from the autograd graph iff `settings.detach_test_caches` is on. -/
def detachSpec (settingOn : Bool) : Bool := settingOn

end ExactCall

/-
L3 model of the Gauss–Hermite rule application and of the piecewise log-normal-cdf, assembled from the
generated expressions (`Gen.Quadrature`); exact Gaussian moments / polynomial expectations as the
specification side (run in `ℚ`).

* `ghApply rule f m v = Σᵢ ghTerm (f (ghShift v tᵢ m)) wᵢ` — `GaussHermiteQuadrature1D.forward`
  (`ghShift v t m = √(2v)·t + m`, `ghTerm fx w = (1/√π)·(fx·w)` are regenerated from the source);
* `gaussMoment m v k = E_{N(m,v)} xᵏ` by the recursion `M₀ = 1, M₁ = m, M_{k+2} = m·M_{k+1} + (k+1)·v·M_k`;
* `lncdf Phi z` / `lncdfGrad Phi z` — the three-branch forward and two-branch backward of `LogNormalCDF`.
Core Lean only; executed at `Float` and `Rat` by `drivers/C13.lean`, reasoned about at `ℝ` in `Props/C13.lean`.
-/
import GPVerif.Gen.Quadrature

namespace Quadrature
open Gen.Quadrature

section rule
variable {α : Type} [Add α] [Sub α] [Mul α] [Div α] [Neg α] [NatCast α] [OfScientific α] [TransFn α]

/-- `GaussHermiteQuadrature1D.forward(f, N(m, v))` for the rule `[(tᵢ, wᵢ)]`. -/
def ghApply (rule : List (α × α)) (f : α → α) (m v : α) : α :=
  (rule.map fun tw => ghTerm (f (ghShift v tw.1 m)) tw.2).foldr (· + ·) ((0 : Nat) : α)

/-- `BernoulliLikelihood.marginal(N(m, v)).probs` -/
def bernoulliMarginal (Phi : α → α) (m v : α) : α := Phi (bernoulliLink m v)

variable [LT α] [DecidableLT α]

instance (z : α) : Decidable (lncdfNearZeroMask z) := by unfold lncdfNearZeroMask; infer_instance
instance (z : α) : Decidable (lncdfSmallMask z) := by unfold lncdfSmallMask; infer_instance
instance (z : α) : Decidable (lncdfBackwardSmallMask z) := by unfold lncdfBackwardSmallMask; infer_instance

/-- `LogNormalCDF.forward`: entries are written in the order near-zero, small, ordinary; the masks are
pairwise disjoint (`Props/C13.lean :: lncdf_branches_partition`), so the order is immaterial. -/
def lncdf (Phi : α → α) (z : α) : α :=
  if lncdfNearZeroMask z then lncdfNearZero z
  else if lncdfSmallMask z then lncdfSmall z
  else lncdfOrdinary Phi z

/-- `LogNormalCDF.backward` per unit `grad_output`. -/
def lncdfGrad (Phi : α → α) (z : α) : α :=
  if lncdfBackwardSmallMask z then lncdfBackwardSmall (lncdfSmallNum z) (lncdfSmallDen z)
  else lncdfBackwardNotSmall z (lncdf Phi z)

/-- `likelihood.expected_log_prob(y, N(m,v))` / `log_marginal` of a `_OneDimensionalLikelihood` whose rule is `rule` and
whose conditional log density is `logp` (generated wiring: which function goes into the rule, where the `log` is). -/
def expectedLogProb (rule : List (α × α)) (logp : α → α) (m v : α) : α :=
  oneDimExpectedLogProb (fun g => ghApply rule g m v) logp

def logMarginal (rule : List (α × α)) (logp : α → α) (m v : α) : α :=
  oneDimLogMarginal (fun g => ghApply rule g m v) logp

end rule

/-! ### construction histories: which node count a likelihood instance carries -/

/-- a step of a construction history: change the active `settings.num_gauss_hermite_locs` value (entering / leaving
a `with` block) or construct one `_OneDimensionalLikelihood` -/
inductive BuildOp where
  | setting (n : Nat)
  | build

/-- the setting active after a history that started under `s` -/
def activeSetting (s : Nat) : List BuildOp → Nat
  | [] => s
  | .setting n :: ops => activeSetting n ops
  | .build :: ops => activeSetting s ops

/-- node counts of the likelihoods constructed by a history, in order: each constructor call runs the generated
`_OneDimensionalLikelihood.__init__` → `GaussHermiteQuadrature1D.__init__` chain on the setting active at that time. -/
def builtCounts (s : Nat) : List BuildOp → List Nat
  | [] => []
  | .setting n :: ops => builtCounts n ops
  | .build :: ops => ghqInitNumLocs likelihoodQuadratureArg s :: builtCounts s ops

section exact
variable {α : Type} [Add α] [Mul α] [NatCast α]

/-- exact moments of `N(m, v)`:  `M₀ = 1`, `M₁ = m`, `M_{k+2} = m·M_{k+1} + (k+1)·v·M_k`. -/
def gaussMoment (m v : α) : Nat → α
  | 0 => ((1 : Nat) : α)
  | 1 => m
  | (k + 2) => m * gaussMoment m v (k + 1) + ((k + 1 : Nat) : α) * v * gaussMoment m v k

/-- `(M_k, M_{k+1})` by iteration — what the driver runs (the two-term recursion above is exponential when
executed naively); equal to `(gaussMoment m v k, gaussMoment m v (k+1))` by `gaussMomentPair_eq`. -/
def gaussMomentPair (m v : α) : Nat → α × α
  | 0 => (((1 : Nat) : α), m)
  | (k + 1) =>
    let p := gaussMomentPair m v k
    (p.2, m * p.2 + ((k + 1 : Nat) : α) * v * p.1)

theorem gaussMomentPair_eq (m v : α) (k : Nat) :
    gaussMomentPair m v k = (gaussMoment m v k, gaussMoment m v (k + 1)) := by
  induction k with
  | zero => rfl
  | succ k ih => simp only [gaussMomentPair, ih, gaussMoment]

def gaussMomentFast (m v : α) (k : Nat) : α := (gaussMomentPair m v k).1

theorem gaussMomentFast_eq (m v : α) (k : Nat) : gaussMomentFast m v k = gaussMoment m v k := by
  simp only [gaussMomentFast, gaussMomentPair_eq]

/-- `Σ_k c_k x^k` (Horner, coefficients in increasing degree). -/
def polyEval (cs : List α) (x : α) : α := cs.foldr (fun c acc => c + x * acc) ((0 : Nat) : α)

/-- exact `E_{N(m,v)} Σ_k c_k x^k = Σ_k c_k M_k`. -/
def polyExpect (cs : List α) (m v : α) : α :=
  ((cs.zipIdx).map fun ck => ck.1 * gaussMomentFast m v ck.2).foldr (· + ·) ((0 : Nat) : α)

end exact

end Quadrature

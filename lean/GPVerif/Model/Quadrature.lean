/-
L3 model of the Gauss–Hermite rule application and of the piecewise log-normal-cdf, assembled from the
generated expressions (`Gen.Quadrature`); exact Gaussian moments / polynomial expectations as the
specification side (run in `ℚ`).

* `ghApply rule f m v = Σᵢ ghTerm (f (ghShift v tᵢ m)) wᵢ` — `GaussHermiteQuadrature1D.forward`
  (`ghShift v t m = √(2v)·t + m`, `ghTerm fx w = (1/√π)·(fx·w)` are regenerated from the source);
* `gaussMoment m v k = E_{N(m,v)} xᵏ` by the recursion `M₀ = 1, M₁ = m, M_{k+2} = m·M_{k+1} + (k+1)·v·M_k`;
* `lncdf Phi z` / `lncdfGrad Phi z` — the three-branch forward and two-branch backward of `LogNormalCDF`.
Core Lean only; executed at `Float` and `Rat` by `drivers/C13.lean`, reasoned about at `ℝ` in `Props/C13.lean`.
-/
import GPVerif.Gen.Quadrature

namespace Quadrature
open Gen.Quadrature

section rule
variable {α : Type} [Add α] [Sub α] [Mul α] [Div α] [Neg α] [NatCast α] [OfScientific α] [TransFn α]

/-- `GaussHermiteQuadrature1D.forward(f, N(m, v))` for the rule `[(tᵢ, wᵢ)]`. -/
def ghApply (rule : List (α × α)) (f : α → α) (m v : α) : α :=
  (rule.map fun tw => ghTerm (f (ghShift v tw.1 m)) tw.2).foldr (· + ·) ((0 : Nat) : α)

/-- `BernoulliLikelihood.marginal(N(m, v)).probs` -/
def bernoulliMarginal (Phi : α → α) (m v : α) : α := Phi (bernoulliLink m v)

variable [LT α] [DecidableLT α]

instance (z : α) : Decidable (lncdfNearZeroMask z) := by unfold lncdfNearZeroMask; infer_instance
instance (z : α) : Decidable (lncdfSmallMask z) := by unfold lncdfSmallMask; infer_instance
instance (z : α) : Decidable (lncdfBackwardSmallMask z) := by unfold lncdfBackwardSmallMask; infer_instance

/-- `LogNormalCDF.forward`: entries are written in the order near-zero, small, ordinary; the masks are
pairwise disjoint (`Props/C13.lean :: lncdf_branches_partition`), so the order is immaterial. -/
def lncdf (Phi : α → α) (z : α) : α :=
  if lncdfNearZeroMask z then lncdfNearZero z
  else if lncdfSmallMask z then lncdfSmall z
  else lncdfOrdinary Phi z

/-- `LogNormalCDF.backward` per unit `grad_output`. -/
def lncdfGrad (Phi : α → α) (z : α) : α :=
  if lncdfBackwardSmallMask z then lncdfBackwardSmall (lncdfSmallNum z) (lncdfSmallDen z)
  else lncdfBackwardNotSmall z (lncdf Phi z)

/-- the gradient (per unit `grad_output`) returned by the `k`-th backward pass (`k = 0`: the first) through ONE graph
(`retain_graph=True`): every pass reads the saved tensors / `ctx` attributes as the previous pass left them
(`lncdfBackwardStateAfter`, regenerated from the source with in-place operations followed through their aliases). -/
def lncdfBackwardNth : Nat → α → α → α → α → α
  | 0, z, logPhi, num, den =>
    if lncdfBackwardSmallMask z then lncdfBackwardSmall num den else lncdfBackwardNotSmall z logPhi
  | k + 1, z, logPhi, num, den =>
    let s := lncdfBackwardStateAfter z logPhi num den ((1 : Nat) : α)
    lncdfBackwardNth k s.1 s.2.1 s.2.2.1 s.2.2.2.1

/-- `BernoulliLikelihood.expected_log_prob`: the sign handed to the integrand for a label `y`, given whether the
observations of THIS call contain a `-1` (`anyNeg`; then they are read as the deprecated `{-1, 1}` encoding and used as
they are).  That the branch is selected by the current observations only is the generated fact
`bernoulliLabelGuardIsCurrentInput`. -/
def bernoulliLabelMap (anyNeg : Bool) (y : α) : α := if anyNeg then y else bernoulliSign y

/-- `likelihood.expected_log_prob(y, N(m,v))` / `log_marginal` of a `_OneDimensionalLikelihood` whose rule is `rule` and
whose conditional log density is `logp` (generated wiring: which function goes into the rule, where the `log` is). -/
def expectedLogProb (rule : List (α × α)) (logp : α → α) (m v : α) : α :=
  oneDimExpectedLogProb (fun g => ghApply rule g m v) logp

def logMarginal (rule : List (α × α)) (logp : α → α) (m v : α) : α :=
  oneDimLogMarginal (fun g => ghApply rule g m v) logp

end rule

/-! ### construction histories: which node count a likelihood instance carries -/

/-- a step of a construction history: change the active `settings.num_gauss_hermite_locs` value (entering / leaving
a `with` block) or construct one `_OneDimensionalLikelihood` -/
inductive BuildOp where
  | setting (n : Nat)
  | build

/-- the setting active after a history that started under `s` -/
def activeSetting (s : Nat) : List BuildOp → Nat
  | [] => s
  | .setting n :: ops => activeSetting n ops
  | .build :: ops => activeSetting s ops

/-- node counts of the likelihoods constructed by a history, in order: each constructor call runs the generated
`_OneDimensionalLikelihood.__init__` → `GaussHermiteQuadrature1D.__init__` chain on the setting active at that time. -/
def builtCounts (s : Nat) : List BuildOp → List Nat
  | [] => []
  | .setting n :: ops => builtCounts n ops
  | .build :: ops => ghqInitNumLocs likelihoodQuadratureArg s :: builtCounts s ops

section exact
variable {α : Type} [Add α] [Mul α] [NatCast α]

/-- exact moments of `N(m, v)`:  `M₀ = 1`, `M₁ = m`, `M_{k+2} = m·M_{k+1} + (k+1)·v·M_k`. -/
def gaussMoment (m v : α) : Nat → α
  | 0 => ((1 : Nat) : α)
  | 1 => m
  | (k + 2) => m * gaussMoment m v (k + 1) + ((k + 1 : Nat) : α) * v * gaussMoment m v k

/-- `(M_k, M_{k+1})` by iteration — what the driver runs (the two-term recursion above is exponential when
executed naively); equal to `(gaussMoment m v k, gaussMoment m v (k+1))` by `gaussMomentPair_eq`. -/
def gaussMomentPair (m v : α) : Nat → α × α
  | 0 => (((1 : Nat) : α), m)
  | (k + 1) =>
    let p := gaussMomentPair m v k
    (p.2, m * p.2 + ((k + 1 : Nat) : α) * v * p.1)

theorem gaussMomentPair_eq (m v : α) (k : Nat) :
    gaussMomentPair m v k = (gaussMoment m v k, gaussMoment m v (k + 1)) := by
  induction k with
  | zero => rfl
  | succ k ih => simp only [gaussMomentPair, ih, gaussMoment]

def gaussMomentFast (m v : α) (k : Nat) : α := (gaussMomentPair m v k).1

theorem gaussMomentFast_eq (m v : α) (k : Nat) : gaussMomentFast m v k = gaussMoment m v k := by
  simp only [gaussMomentFast, gaussMomentPair_eq]

/-- `Σ_k c_k x^k` (Horner, coefficients in increasing degree). -/
def polyEval (cs : List α) (x : α) : α := cs.foldr (fun c acc => c + x * acc) ((0 : Nat) : α)

/-- exact `E_{N(m,v)} Σ_k c_k x^k = Σ_k c_k M_k`. -/
def polyExpect (cs : List α) (m v : α) : α :=
  ((cs.zipIdx).map fun ck => ck.1 * gaussMomentFast m v ck.2).foldr (· + ·) ((0 : Nat) : α)

end exact

/-! ### the moment equations of a node table, certified in `ℚ`

`hermgauss(N)` is *characterised* by the `2N` equations `(1/√π)·Σᵢ wᵢ tᵢᵏ = M_k(0, ½)`, `k < 2N`
(`C13.exact_of_moment_equations`).  A float64 table satisfies them up to a residual; `momentResidualBound` computes, in
exact rational arithmetic, an upper bound of that residual that is valid for every value of `1/√π` in the certified
enclosure `[invSqrtPiLo, invSqrtPiHi]` (`C13.moment_residual_certified`). -/

section moments
variable {α : Type} [Add α] [Mul α] [NatCast α]

def powNat (x : α) : Nat → α
  | 0 => ((1 : Nat) : α)
  | k + 1 => x * powNat x k

/-- `Σᵢ wᵢ·tᵢᵏ` -/
def momentSum (rule : List (α × α)) (k : Nat) : α :=
  (rule.map fun tw => tw.2 * powNat tw.1 k).foldr (· + ·) ((0 : Nat) : α)

end moments

/-- `invSqrtPiLo ≤ 1/√π ≤ invSqrtPiHi` (proved from Mathlib's 20-digit bounds of `π`: `Bridge/Quadrature.lean`) -/
def invSqrtPiLo : Rat := 56418958354775628694 / 100000000000000000000
def invSqrtPiHi : Rat := 56418958354775628695 / 100000000000000000000

def ratAbs (x : Rat) : Rat := if x < 0 then -x else x
def ratMax (x y : Rat) : Rat := if x < y then y else x

/-- upper bound of `|c·Σᵢ wᵢ tᵢᵏ − M_k(0,½)|` for every `c ∈ [invSqrtPiLo, invSqrtPiHi]` (the expression is affine in `c`) -/
def momentResidualBound (rule : List (Rat × Rat)) (k : Nat) : Rat :=
  let S := momentSum rule k
  let M := gaussMomentFast (0 : Rat) (1 / 2) k
  ratMax (ratAbs (invSqrtPiLo * S - M)) (ratAbs (invSqrtPiHi * S - M))

/-- the scale `invSqrtPiHi·Σᵢ |wᵢ|·|tᵢ|ᵏ` the residual is reported against -/
def momentAbsScale (rule : List (Rat × Rat)) (k : Nat) : Rat :=
  invSqrtPiHi * momentSum (rule.map fun tw => (ratAbs tw.1, ratAbs tw.2)) k

end Quadrature

/-
L2 model of the exact-GP prediction paths of gpytorch (C01) and of the NaN-policy paths (C16).

Mirrors, as functions on `DMat` over an arbitrary field (executed at `ℚ`):

* `ExactGP.__call__` posterior branch: joint prior on `[train; test]`, split at `num_train`
  (`splitEager`: rows then columns, below `max_eager_kernel_size`; `splitLazy`: block slicing above it);
* `DefaultPredictionStrategy._mean_cache`  (`meanCache A r = A⁻¹ r`, certified `inv?`), in the three
  NaN-policy shapes `ignore` / `mask` (submatrix on the observed indices) / `fill` (zero the rows and
  columns of the missing targets, keep their diagonal, fill the right-hand side, drop afterwards);
* `exact_predictive_mean` (`predMean`), `exact_predictive_covar` non-fast (`predCovarSolve`, in the
  `addmm` shape and the `+ (−1)·` shape) and fast (`predCovarRoot` with the cached root `R`, `R Rᵀ = A⁻¹`),
  `skip_posterior_variances` (`predCovarSkip`);
* `_GaussianLikelihoodBase.marginal` (`marginal C N = C + N`);
* `ExactMarginalLogLikelihood` under `mask`: the exact rational pieces (`quad`, `det`, count) and the scaling.

Everything is polymorphic in the scalar; the drivers run exactly these definitions at `α = ℚ`, the theorems
(`Props/C01.lean`, `Props/C16.lean`) are about exactly these definitions through `DMat.toMatrix`.
-/
import GPVerif.Model.DMat

open Matrix

namespace ExactGP

variable {n s k p : Nat} {α : Type}

/-! ### Joint prior on `[train; test]` and its split at `num_train = n` -/

section split

/-- `joint_mean[..., :n]`, `joint_mean[..., n:]`. -/
def splitMean (mj : DMat (n + s) 1 α) : DMat n 1 α × DMat s 1 α :=
  (mj.submatrix (Fin.castAdd s) id, mj.submatrix (Fin.natAdd n) id)

/-- train–train block `joint_covar[:n, :n]` (what the prediction strategy is built from). -/
def trainBlock (J : DMat (n + s) (n + s) α) : DMat n n α :=
  J.submatrix (Fin.castAdd s) (Fin.castAdd s)

/-- Eager split (`joint_covar.size(-1) ≤ max_eager_kernel_size`): `test_covar = joint[n:, :]` densely, then
`test_test = test_covar[:, n:]`, `test_train = test_covar[:, :n]`.  Returns `(test_train, test_test)`. -/
def splitEager (J : DMat (n + s) (n + s) α) : DMat s n α × DMat s s α :=
  let rows : DMat s (n + s) α := J.submatrix (Fin.natAdd n) id
  (rows.submatrix id (Fin.castAdd s), rows.submatrix id (Fin.natAdd n))

/-- Lazy split: `joint[n:, :n]`, `joint[n:, n:]` sliced as blocks.  Returns `(test_train, test_test)`. -/
def splitLazy (J : DMat (n + s) (n + s) α) : DMat s n α × DMat s s α :=
  (J.submatrix (Fin.natAdd n) (Fin.castAdd s), J.submatrix (Fin.natAdd n) (Fin.natAdd n))

end split

/-! ### Likelihood marginal, residual -/

/-- `_GaussianLikelihoodBase.marginal`: `covar + noise_covar`. -/
def marginal [Add α] (C N : DMat n n α) : DMat n n α := C.add N

/-- `train_labels − train_mean`. -/
def residual [Sub α] (y m : DMat n 1 α) : DMat n 1 α := y.sub m

/-! ### Prediction given the inverse / a solve / a root -/

section algebra
variable [Field α]

/-- `mean_cache` given `X = A⁻¹`. -/
def meanCacheOf (X : DMat n n α) (r : DMat n 1 α) : DMat n 1 α := X.mul r

/-- `exact_predictive_mean`: `test_train_covar @ mean_cache + test_mean`. -/
def predMean (mt : DMat s 1 α) (Kts : DMat s n α) (a : DMat n 1 α) : DMat s 1 α := mt.add (Kts.mul a)

/-- Non-fast covariance in the `addmm(test_test, test_train, rhs, alpha=-1)` shape, `rhs` = the solve
`A⁻¹ Kxt` returned by the primitive. -/
def predCovarOfSolve (Ktt : DMat s s α) (Kts : DMat s n α) (X : DMat n s α) : DMat s s α :=
  Ktt.sub (Kts.mul X)

/-- Non-fast covariance in the batched / lazy shape `test_test + test_train @ rhs.mul(-1)`. -/
def predCovarOfSolveNeg (Ktt : DMat s s α) (Kts : DMat s n α) (X : DMat n s α) : DMat s s α :=
  Ktt.add (Kts.mul (X.smul (-1)))

/-- Non-fast covariance given `X = A⁻¹`. -/
def predCovarOfInv (Ktt : DMat s s α) (Kts : DMat s n α) (X : DMat n n α) : DMat s s α :=
  predCovarOfSolve Ktt Kts (X.mul Kts.transpose)

/-- `fast_pred_var`: `test_test − (test_train R)(test_train R)ᵀ` with the cached `R = covar_cache`. -/
def predCovarRoot (Ktt : DMat s s α) (Kts : DMat s n α) (R : DMat n k α) : DMat s s α :=
  let Q := Kts.mul R
  Ktt.sub (Q.mul Q.transpose)

/-- `skip_posterior_variances`: a zero operator of the test–test shape. -/
def predCovarSkip : DMat s s α := DMat.zero

/-- `R Rᵀ` (compared with the certified `A⁻¹` to monitor the root primitive's contract). -/
def rootGram (R : DMat n k α) : DMat n n α := R.mul R.transpose

/-- `rᵀ X r` as a scalar (`inv_quad` of the MLL with `X = A⁻¹`). -/
def quadForm (X : DMat n n α) (r : DMat n 1 α) : α := ((r.transpose.mul (X.mul r)).toMatrix 0 0)

end algebra

/-! ### The same, through the certified inverse (what the drivers run) -/

section certified
variable [Field α] [DecidableEq α]

/-- `A.solve(B)` under its contract, computed through the certified inverse. -/
def solve? (A : DMat n n α) (B : DMat n p α) : Option (DMat n p α) := (DMat.inv? A).map fun X => X.mul B

/-- `_mean_cache('ignore')`. -/
def meanCache (A : DMat n n α) (r : DMat n 1 α) : Option (DMat n 1 α) := (DMat.inv? A).map fun X => meanCacheOf X r

/-- `exact_predictive_covar`, `fast_pred_var` off. -/
def predCovarSolve (Ktt : DMat s s α) (Kts : DMat s n α) (A : DMat n n α) : Option (DMat s s α) :=
  (solve? A Kts.transpose).map fun X => predCovarOfSolve Ktt Kts X

/-- Two triangular solves with a Cholesky factor `L`: `Lᵀ⁻¹ (L⁻¹ r)`. -/
def cholSolve (L : DMat n n α) (r : DMat n p α) : Option (DMat n p α) :=
  match DMat.inv? L, DMat.inv? L.transpose with
  | some Li, some Lti => some (Lti.mul (Li.mul r))
  | _, _ => none

/-- Everything the posterior branch returns, from the dense prior pieces. -/
structure Posterior (n s : Nat) (α : Type) where
  A : DMat n n α
  Ainv : DMat n n α
  Kts : DMat s n α
  Ktt : DMat s s α
  alpha : DMat n 1 α
  mean : DMat s 1 α
  covar : DMat s s α
  covarNoisy : DMat s s α

/-- The posterior branch of `ExactGP.__call__` + `likelihood(·)`: joint covariance `J` and mean `mj` on
`[train; test]`, train noise `S`, targets `y`, test noise `St`. -/
def posterior (J : DMat (n + s) (n + s) α) (mj : DMat (n + s) 1 α) (S : DMat n n α) (y : DMat n 1 α)
    (St : DMat s s α) : Option (Posterior n s α) :=
  let A := marginal (trainBlock J) S
  match DMat.inv? A with
  | none => none
  | some X =>
    let m := splitMean mj
    let K := splitLazy J
    let a := meanCacheOf X (residual y m.1)
    let C := predCovarOfInv K.2 K.1 X
    some { A := A, Ainv := X, Kts := K.1, Ktt := K.2, alpha := a, mean := predMean m.2 K.1 a, covar := C,
           covarNoisy := marginal C St }

end certified

/-! ### C16: missing observations -/

section nan

/-- Observed indices in increasing order (`observed` boolean mask → index list). -/
def obsList (obs : Fin n → Bool) : List (Fin n) := (List.finRange n).filter fun i => obs i

/-- Number of observed entries. -/
def nObs (obs : Fin n → Bool) : Nat := (obsList obs).length

/-- The `a`-th observed index. -/
def obsIdx (obs : Fin n → Bool) : Fin (nObs obs) → Fin n := fun a => (obsList obs).get a

/-- `MaskedLinearOperator(A, observed, observed)` / `A[..., observed, :][..., :, observed]`. -/
def maskSub (A : DMat n n α) (obs : Fin n → Bool) : DMat (nObs obs) (nObs obs) α :=
  A.submatrix (obsIdx obs) (obsIdx obs)

/-- `B[..., observed, :]`. -/
def maskRows (B : DMat n p α) (obs : Fin n → Bool) : DMat (nObs obs) p α := B.submatrix (obsIdx obs) id

/-- `B[..., :, observed]`  (`MaskedLinearOperator(test_train, full_mask, observed)`). -/
def maskCols (B : DMat s n α) (obs : Fin n → Bool) : DMat s (nObs obs) α := B.submatrix id (obsIdx obs)

variable [Field α]

/-- `kernel * kernel_mask` of the `fill` policy: `kernel_mask = m mᵀ` with the diagonal reset to 1,
`m = 1` on observed entries. -/
def fill (A : DMat n n α) (obs : Fin n → Bool) : DMat n n α :=
  DMat.ofMatrix (Matrix.of fun i j => if i = j then A.toMatrix i j else if obs i && obs j then A.toMatrix i j else 0)

/-- `_fill_tensor` on a column block: rows of missing entries replaced by the fill value `c`. -/
def fillRows (B : DMat n p α) (obs : Fin n → Bool) (c : α) : DMat n p α :=
  DMat.ofMatrix (Matrix.of fun i j => if obs i then B.toMatrix i j else c)

/-- `test_train_covar * mask`: columns of missing entries set to 0. -/
def zeroCols (B : DMat s n α) (obs : Fin n → Bool) : DMat s n α :=
  DMat.ofMatrix (Matrix.of fun i j => if obs j then B.toMatrix i j else 0)

/-- Predictive mean under `mask`, given the masked mean cache. -/
def predMeanMask (mt : DMat s 1 α) (Kts : DMat s n α) (obs : Fin n → Bool) (a : DMat (nObs obs) 1 α) : DMat s 1 α :=
  predMean mt (maskCols Kts obs) a

/-- Predictive mean under `fill`, given the filled solve `a` (whose missing entries the code overwrites with
NaN and then with the fill value `c'`). -/
def predMeanFill (mt : DMat s 1 α) (Kts : DMat s n α) (obs : Fin n → Bool) (a : DMat n 1 α) (c' : α) : DMat s 1 α :=
  predMean mt (zeroCols Kts obs) (fillRows a obs c')

/-- The MLL scaling: `−½ (quad + L det + cnt·c2π) / N` with an abstract `log` (`L`) and `log 2π` (`c2π`). -/
def mllOf (L : α → α) (c2pi quad det : α) (cnt N : Nat) : α :=
  (-(1 / 2) * (quad + L det + (cnt : α) * c2pi)) / (N : α)

/-- One term of `expected_log_prob`: `−½ (((y−μ)² + v)/σ² + log σ² + log 2π)`. -/
def elpTerm (L : α → α) (c2pi y mu v s2 : α) : α :=
  -(1 / 2) * (((y - mu) * (y - mu) + v) / s2 + L s2 + c2pi)

variable [DecidableEq α]

/-- `_mean_cache('mask')` on the observed entries. -/
def meanCacheMask (A : DMat n n α) (r : DMat n 1 α) (obs : Fin n → Bool) : Option (DMat (nObs obs) 1 α) :=
  meanCache (maskSub A obs) (maskRows r obs)

/-- `_mean_cache('fill')`: the full-size solve (its missing entries are junk and are dropped later). -/
def meanCacheFill (A : DMat n n α) (r : DMat n 1 α) (obs : Fin n → Bool) (c : α) : Option (DMat n 1 α) :=
  meanCache (fill A obs) (fillRows r obs c)

/-- Predictive covariance under `mask` (the behaviour the property demands of `exact_predictive_covar`). -/
def predCovarMask (Ktt : DMat s s α) (Kts : DMat s n α) (A : DMat n n α) (obs : Fin n → Bool) : Option (DMat s s α) :=
  predCovarSolve Ktt (maskCols Kts obs) (maskSub A obs)

/-- Predictive covariance under `fill` (idem): filled train–train matrix, zeroed test–train columns. -/
def predCovarFill (Ktt : DMat s s α) (Kts : DMat s n α) (A : DMat n n α) (obs : Fin n → Bool) : Option (DMat s s α) :=
  predCovarSolve Ktt (zeroCols Kts obs) (fill A obs)

/-- What `exact_predictive_covar` computes when it ignores the policy (the defect of DESIGN §6):
conditions on the rows of the missing targets as well. -/
def predCovarIgnoringPolicy (Ktt : DMat s s α) (Kts : DMat s n α) (A : DMat n n α) : Option (DMat s s α) :=
  predCovarSolve Ktt Kts A

/-- All NaN-policy outputs for one request (driver). -/
structure NanPosterior (s : Nat) (α : Type) where
  cnt : Nat
  meanMask : DMat s 1 α
  covarMask : DMat s s α
  meanFill : DMat s 1 α
  covarFill : DMat s s α
  covarIgnoring : DMat s s α
  quad : α

def nanPosterior (J : DMat (n + s) (n + s) α) (mj : DMat (n + s) 1 α) (S : DMat n n α) (y : DMat n 1 α)
    (obs : Fin n → Bool) (c c' : α) : Option (NanPosterior s α) :=
  let A := marginal (trainBlock J) S
  let m := splitMean mj
  let K := splitLazy J
  let r := residual y m.1
  match meanCacheMask A r obs, meanCacheFill A r obs c, predCovarMask K.2 K.1 A obs, predCovarFill K.2 K.1 A obs,
        predCovarIgnoringPolicy K.2 K.1 A, DMat.inv? (maskSub A obs) with
  | some am, some af, some cm, some cf, some ci, some Xo =>
    some { cnt := nObs obs, meanMask := predMeanMask m.2 K.1 obs am, covarMask := cm,
           meanFill := predMeanFill m.2 K.1 obs af c', covarFill := cf, covarIgnoring := ci,
           quad := quadForm Xo (maskRows r obs) }
  | _, _, _, _, _, _ => none

end nan

/-! ### C16: data-level description (what "deleting the observations" means) and the policy-keyed memo -/

section data
variable {ι : Type}

/-- Gram matrix of a covariance *function* on inputs `X` (`K_ij = k(x_i, x_j)`). -/
def gram (kf : ι → ι → α) (X : Fin n → ι) : DMat n n α := DMat.ofMatrix (Matrix.of fun i j => kf (X i) (X j))

/-- Cross covariance `K_ij = k(x*_i, x_j)`. -/
def cross (kf : ι → ι → α) (Xt : Fin s → ι) (X : Fin n → ι) : DMat s n α := DMat.ofMatrix (Matrix.of fun i j => kf (Xt i) (X j))

/-- A function of the inputs (prior mean) / a per-observation vector as a column. -/
def colVec (f : Fin n → α) : DMat n 1 α := DMat.ofMatrix (Matrix.of fun i _ => f i)

end data

section elp
variable [Field α]

/-- `expected_log_prob` under `fill`: targets of missing entries replaced by the fill value `c`, the result
multiplied by `~missing`. -/
def elpFill (L : α → α) (c2pi : α) (y mu v s2 : Fin n → α) (obs : Fin n → Bool) (c : α) : Fin n → α :=
  fun i => elpTerm L c2pi (if obs i then y i else c) (mu i) (v i) (s2 i) * (if obs i then 1 else 0)

/-- `expected_log_prob` under `mask`: all per-point inputs restricted to the observed entries first. -/
def elpMask (L : α → α) (c2pi : α) (y mu v s2 : Fin n → α) (obs : Fin n → Bool) : Fin (nObs obs) → α :=
  fun a => elpTerm L c2pi (y (obsIdx obs a)) (mu (obsIdx obs a)) (v (obsIdx obs a)) (s2 (obsIdx obs a))

end elp

/-- The three NaN policies. -/
inductive Policy | ignore | mask | fill
  deriving DecidableEq, Repr

/-- `@cached(name="mean_cache")` on `_mean_cache(nan_policy)`: a memo table keyed by the policy argument. -/
def Memo (β : Type) := Policy → Option β

/-- Reading the cache under policy `p`: hit → stored value; miss → compute and store under key `p`. -/
def Memo.read {β : Type} (compute : Policy → β) (m : Memo β) (p : Policy) : β × Memo β :=
  match m p with
  | some v => (v, m)
  | none => (compute p, fun q => if q = p then some (compute p) else m q)

/-- A history of predictions under varying policies on one model object; returns the values handed out. -/
def Memo.run {β : Type} (compute : Policy → β) : Memo β → List Policy → List β
  | _, [] => []
  | m, p :: ps => (Memo.read compute m p).1 :: Memo.run compute (Memo.read compute m p).2 ps

/-! ### C16 on a batch of targets: `mask` reduces the NaN pattern over the batch, `fill` is per element

`settings.observation_nan_policy._get_observed(labels, event_shape)` = `~any(isnan(labels.reshape(-1, *event)), dim=0)`
(an entry counts as observed iff it is observed in EVERY batch element) is what the `mask` branches use;
the `fill` branches use `torch.isnan(self.train_labels)`, which keeps the batch dimension: element `b` is
conditioned on its own pattern `obs b`. -/

section nanBatch
variable {B : Nat}

/-- `_get_observed` on a batch: observed iff observed in every batch element. -/
def obsUnion (obs : Fin B → Fin n → Bool) : Fin n → Bool := fun i => (List.finRange B).all fun b => obs b i

variable [Field α] [DecidableEq α]

/-- Element `b` of the batched predictive mean under `fill`: its OWN pattern `obs b`. -/
def predMeanFillBatch (A : Fin B → DMat n n α) (r : Fin B → DMat n 1 α) (mt : Fin B → DMat s 1 α)
    (Kts : Fin B → DMat s n α) (obs : Fin B → Fin n → Bool) (c c' : α) (b : Fin B) : Option (DMat s 1 α) :=
  (meanCacheFill (A b) (r b) (obs b) c).map fun a => predMeanFill (mt b) (Kts b) (obs b) a c'

/-- Element `b` of the batched predictive covariance under `fill`: its own pattern. -/
def predCovarFillBatch (Ktt : Fin B → DMat s s α) (Kts : Fin B → DMat s n α) (A : Fin B → DMat n n α)
    (obs : Fin B → Fin n → Bool) (b : Fin B) : Option (DMat s s α) :=
  predCovarFill (Ktt b) (Kts b) (A b) (obs b)

/-- Element `b` of the batched predictive mean under `mask`: the pattern reduced over the batch. -/
def predMeanMaskBatch (A : Fin B → DMat n n α) (r : Fin B → DMat n 1 α) (mt : Fin B → DMat s 1 α)
    (Kts : Fin B → DMat s n α) (obs : Fin B → Fin n → Bool) (b : Fin B) : Option (DMat s 1 α) :=
  (meanCacheMask (A b) (r b) (obsUnion obs)).map fun a => predMeanMask (mt b) (Kts b) (obsUnion obs) a

/-- Element `b` of the batched predictive covariance under `mask`: the pattern reduced over the batch. -/
def predCovarMaskBatch (Ktt : Fin B → DMat s s α) (Kts : Fin B → DMat s n α) (A : Fin B → DMat n n α)
    (obs : Fin B → Fin n → Bool) (b : Fin B) : Option (DMat s s α) :=
  predCovarMask (Ktt b) (Kts b) (A b) (obsUnion obs)

end nanBatch

end ExactGP

/-
C12 model — the observation-noise operator `R` that a Gaussian-family likelihood adds to the covariance of
the function distribution, the scalar closed forms of `expected_log_prob` / `log_marginal`, and the argument
routing of `LikelihoodList`.

Executed by `drivers/C12.lean` at `α = ℚ` (matrices, polynomial parts) and `α = Float` (closed forms with
`log`); the theorems in `Props/C12.lean` are about these same definitions at an arbitrary field / at `ℝ`.

Code modelled (gpytorch/likelihoods):
* `noise_models._HomoskedasticNoiseBase.forward`      → `homoNoise`
* `noise_models.FixedGaussianNoise.forward`           → `fixedBase`
* `gaussian_likelihood.FixedNoiseGaussianLikelihood._shaped_noise_covar` → `fixedNoise`
* `multitask_gaussian_likelihood._MultitaskGaussianLikelihoodBase._shaped_noise_covar` → `multitaskNoise`
* `gaussian_likelihood._GaussianLikelihoodBase.marginal / expected_log_prob / log_marginal`
                                                      → `marginal`, `expectedLogProb`, `logMarginal`
* `likelihood_list.LikelihoodList.__call__ / forward` → `route`
-/
import GPVerif.Model.DMat

open Matrix

namespace Noise
variable {α : Type}

/-! ### single-output likelihoods -/

/-- `σ² I_n` (`ConstantDiagLinearOperator(noise, diag_shape=n)`). -/
def homo [Zero α] (n : Nat) (s : α) : DMat n n α := DMat.diagonal fun _ => s

/-- `GaussianLikelihood`: the learned `σ² I`; a call-time `noise=` tensor "is used directly"
(docstring of `_HomoskedasticNoiseBase.forward`). -/
def homoNoise [Zero α] (s : α) (n : Nat) (call : Option (Fin n → α)) : DMat n n α :=
  match call with
  | some ν => DMat.diagonal ν
  | none => homo n s

/-- `FixedGaussianNoise.forward`: call-time noise replaces the stored noise; the stored noise is used only
when its length is the event size; otherwise the documented no-op (`ZeroLinearOperator`). -/
def fixedBase [Zero α] (stored : Array α) (n : Nat) (call : Option (Fin n → α)) : DMat n n α :=
  match call with
  | some ν => DMat.diagonal ν
  | none =>
    if h : stored.size = n then DMat.diagonal fun i => stored[i.1]'(by rw [h]; exact i.2)
    else DMat.zero

/-- `FixedNoiseGaussianLikelihood._shaped_noise_covar`: fixed part, plus the learned `σ² I` when
`learn_additional_noise` (`learned = some σ²`).  The learned part does not see the call-time noise. -/
def fixedNoise [Zero α] [Add α] (stored : Array α) (learned : Option α) (n : Nat)
    (call : Option (Fin n → α)) : DMat n n α :=
  match learned with
  | none => fixedBase stored n call
  | some s => (fixedBase stored n call).add (homo n s)

/-! Return values of the noise models, used by the *generated* branch structure (`Gen/NoiseModels.lean`). -/

/-- `DiagLinearOperator(noise)` for the call-time `noise` tensor. -/
def retDiagCall [Zero α] {n : Nat} (call : Option (Fin n → α)) : DMat n n α :=
  match call with
  | some ν => DMat.diagonal ν
  | none => DMat.zero

/-- `DiagLinearOperator(self.noise)` as an `n × n` operator (meaningful when the stored noise has length `n`). -/
def retDiagStored [Zero α] (stored : Array α) (n : Nat) : DMat n n α :=
  if h : stored.size = n then DMat.diagonal fun i => stored[i.1]'(by rw [h]; exact i.2) else DMat.zero

/-- `torch.distributions.Normal(loc, sqrt(var)).log_prob(y)` (outside /repo: modelled from its documented
density), in the same parameterisation as the closed forms below. -/
def normalLogProb [Add α] [Sub α] [Mul α] [Div α] [Neg α] (log : α → α) (log2pi half : α) (y loc var : α) : α :=
  -(half * (((y - loc) * (y - loc)) / var + log var + log2pi))

/-- `_GaussianLikelihoodBase.marginal`: `covar + noise_covar`. -/
def marginal [Add α] {n : Nat} (C R : DMat n n α) : DMat n n α := C.add R

/-! ### multitask likelihoods -/

theorem div_lt_of_lt_mul' {p a b : Nat} (h : p < a * b) : p / b < a :=
  Nat.div_lt_of_lt_mul (by rw [Nat.mul_comm]; exact h)

theorem mod_lt_of_lt_mul' {p a b : Nat} (h : p < a * b) : p % b < b :=
  Nat.mod_lt _ (Nat.pos_of_ne_zero (by rintro rfl; simp at h))

/-- Kronecker product in the row-major flat index used by `KroneckerProductLinearOperator`:
`(A ⊗ B)[p, q] = A[p / b, q / b] · B[p % b, q % b]` for `B` of size `b`.  The result dimension is any `N`
with `N = a·b` (so that `I_n ⊗ M` and `M ⊗ I_n` can both be typed at `n·t`). -/
def kronFlat [Mul α] {a b : Nat} (A : DMat a a α) (B : DMat b b α) (N : Nat) (h : N = a * b) : DMat N N α :=
  DMat.ofMatrix <| Matrix.of fun p q =>
    A.toMatrix ⟨p.1 / b, div_lt_of_lt_mul' (lt_of_lt_of_eq p.2 h)⟩ ⟨q.1 / b, div_lt_of_lt_mul' (lt_of_lt_of_eq q.2 h)⟩ *
    B.toMatrix ⟨p.1 % b, mod_lt_of_lt_mul' (lt_of_lt_of_eq p.2 h)⟩ ⟨q.1 % b, mod_lt_of_lt_mul' (lt_of_lt_of_eq q.2 h)⟩

/-- The task-noise parameterisation: `rank = 0` → `diag(task_noises)`; `rank = r > 0` →
`RootLinearOperator(task_noise_covar_factor)` = `F Fᵀ` with `F : t × r`. -/
inductive TaskNoise (t : Nat) (α : Type) where
  | diag (d : Fin t → α)
  | root (r : Nat) (F : DMat t r α)

def TaskNoise.covar [Mul α] [AddCommMonoid α] {t : Nat} : TaskNoise t α → DMat t t α
  | .diag d => DMat.diagonal d
  | .root _ F => F.mul F.transpose

/-- `has_task_noise` / `has_global_noise` switches with their parameters. -/
structure MTConfig (t : Nat) (α : Type) where
  task : Option (TaskNoise t α)
  global : Option α

/-- The `t × t` block `D_t (+ σ² I_t)`; without task noise the block is `σ² I_t`. -/
def MTConfig.block [Mul α] [AddCommMonoid α] {t : Nat} (cfg : MTConfig t α) : DMat t t α :=
  match cfg.task, cfg.global with
  | some T, some s => T.covar.add (homo t s)
  | some T, none => T.covar
  | none, some s => homo t s
  | none, none => DMat.zero

/-- `_MultitaskGaussianLikelihoodBase._shaped_noise_covar`:
* no task noise: `ConstantDiagLinearOperator(noise, n·t)`;
* otherwise `I_n ⊗ (D_t + σ²I)` for an interleaved input distribution, `(D_t + σ²I) ⊗ I_n` otherwise. -/
def multitaskNoise [One α] [Mul α] [AddCommMonoid α] {t : Nat} (cfg : MTConfig t α) (n : Nat)
    (interleaved : Bool) : DMat (n * t) (n * t) α :=
  match cfg.task with
  | none => homo (n * t) (cfg.global.getD 0)
  | some _ =>
    if interleaved then kronFlat (DMat.one : DMat n n α) cfg.block (n * t) rfl
    else kronFlat cfg.block (DMat.one : DMat n n α) (n * t) (Nat.mul_comm n t)

/-! ### scalar closed forms (elementwise; `r` = the noise variance on that element) -/

/-- polynomial part of `expected_log_prob`: `((y − m)² + v) / r` (exact in ℚ). -/
def elpQuad [Add α] [Sub α] [Mul α] [Div α] (y m v r : α) : α := ((y - m) * (y - m) + v) / r

/-- `_GaussianLikelihoodBase.expected_log_prob`:
`−½ · [((y − m)² + v)/r + log r + log 2π]`; `log`, `log 2π` and `½` are parameters so that the same term is
run at `Float` and reasoned about at `ℝ`. -/
def expectedLogProb [Add α] [Sub α] [Mul α] [Div α] [Neg α] (log : α → α) (log2pi half : α)
    (y m v r : α) : α :=
  -(half * (elpQuad y m v r + log r + log2pi))

/-- polynomial part of `log_marginal`: `(y − m)² / (v + r)`. -/
def lmQuad [Add α] [Sub α] [Mul α] [Div α] (y m v r : α) : α := ((y - m) * (y - m)) / (v + r)

/-- `_GaussianLikelihoodBase.log_marginal` (elementwise `Normal(m, sqrt(v + r)).log_prob(y)`):
`−½ · [(y − m)²/(v + r) + log (v + r) + log 2π]`. -/
def logMarginal [Add α] [Sub α] [Mul α] [Div α] [Neg α] (log : α → α) (log2pi half : α)
    (y m v r : α) : α :=
  -(half * (lmQuad y m v r + log (v + r) + log2pi))

/-! ### LikelihoodList routing -/

/-- `LikelihoodList.__call__` / `forward`: `length_safe_zip` of members, per-member argument tuples and
(when the `noise` kwarg is present) per-member noises; `none` models the `ValueError` on unequal lengths. -/
def route {L A N : Type} (liks : List L) (args : List A) (noise : Option (List N)) :
    Option (List (L × A × Option N)) :=
  match noise with
  | none =>
    if liks.length = args.length then some (List.zipWith (fun l a => (l, a, none)) liks args) else none
  | some ns =>
    if liks.length = args.length ∧ args.length = ns.length then
      some (List.zipWith (fun l an => (l, an.1, some an.2)) liks (List.zip args ns))
    else none

/-- The list likelihood applies each member to its own routed arguments. -/
def listCall {L A N O : Type} (apply : L → A → Option N → O) (liks : List L) (args : List A)
    (noise : Option (List N)) : Option (List O) :=
  (route liks args noise).map fun l => l.map fun x => apply x.1 x.2.1 x.2.2

/-! ### histories on one likelihood object: reading a property is an observation, not an operation -/

/-- One step of a history on a likelihood object with state `σ`: read the public property number `g`, change the state
through the documented API (`set`), or use the likelihood on the query `q`. -/
inductive HOp (σ Q : Type) where
  | read (g : Nat)
  | set (f : σ → σ)
  | use (q : Q)

def HOp.isRead {σ Q : Type} : HOp σ Q → Bool
  | .read _ => true
  | _ => false

/-- Effect on the state of reading a property whose getter body performs the writes `ws` (the state fields written in
the getter's source, as listed by the translator): nothing when the getter writes nothing, otherwise some effect `eff`
about which nothing is known. -/
def readEffect {σ : Type} (ws : List String) (eff : σ → σ) : σ → σ := if ws.isEmpty then id else eff

/-- Outputs of the uses of a history; `getters` is the table (property name, writes of its getter). -/
def runHist {σ Q O : Type} (getters : List (String × List String)) (eff : Nat → σ → σ) (out : σ → Q → O) :
    σ → List (HOp σ Q) → List O
  | _, [] => []
  | s, .read g :: h => runHist getters eff out (readEffect ((getters[g]?.map (·.2)).getD []) (eff g) s) h
  | s, .set f :: h => runHist getters eff out (f s) h
  | s, .use q :: h => out s q :: runHist getters eff out s h

/-- `noise=[ν₀, None, ν₂]`: an entry of the per-member list is itself optional; the member is called with `noise=entry`,
and `noise=None` is "no call-time noise". -/
def memberCall {N : Type} (entry : Option (Option N)) : Option N := entry.join

/-- `FixedGaussianNoise._apply(fn)` (`.to()`, `.double()`, `.float()`, `.cpu()`, …): the stored noise becomes `fn(noise)` —
nothing else; in particular it is not rounded up to `settings.min_fixed_noise` again. -/
def fixedApply (fn : α → α) (stored : Array α) : Array α := stored.map fn

end Noise

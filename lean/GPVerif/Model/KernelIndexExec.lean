/-
Executable, position-valued instances of the `KernelIndex` model for `drivers/C06.lean`: the definitions the
C06 theorems are about (`evalDiag`, `evalDense` on swapped / repeated / stacked inputs, `KernelState.getitem`,
`KernelState.expandBatch`) are run on inputs whose "points" are their own storage positions and with a
pair function that returns the triple (parameter slice, point, point).  What is printed is, per result entry,
the offset of a dense entry of `K(x1, x2)` that is computed from the same triple — by pairwiseness that entry
has the same value, and the harness checks the real code against exactly these offsets.
-/
import GPVerif.Model.KernelIndex

namespace KernelIndex
open Bcast PyIndex

abbrev Triple := Nat × Nat × Nat

/-- a symmetric pair function on point ids (satisfies the hypothesis of `C06.transpose_swap`) -/
def symTriple (θ a b : Nat) : Triple := (θ, min a b, max a b)
def rawTriple (θ a b : Nat) : Triple := (θ, a, b)

/-- inputs whose point `(b, i)` is `base +` its row position in `x.reshape(-1, d)` -/
def posInputs (b : RShape) (n base : Nat) : Inputs Nat := ⟨b, n, fun bi i => base + flat (n :: b) (i :: bi)⟩
def posParams (bk : RShape) : Params Nat := ⟨bk, fun b => flat bk b⟩

def findOffset (D : List Triple) (v : Triple) : Option Nat := D.findIdx? (· == v)

def lookupAll (D : T Triple) (t : T Triple) : Option (List Nat) :=
  let d := D.toFlat
  t.toFlat.mapM (findOffset d)

structure AuxResult where
  bshape : List Nat
  diag : Option (List Nat)   -- entries of `kernel(x1, x2, diag=True)` (n1 = n2), as offsets into dense K(x1,x2)
  swap : Option (List Nat)   -- entries of `K(x2, x1)` (shape (*bs, n2, n1))
  rep : Option (List Nat)    -- entries of `K(x1.repeat(r), x2.repeat(c))` (shape (*bs, n1 r, n2 c))

def auxPositions (b1 b2 bk : RShape) (n1 n2 r c : Nat) : Option AuxResult := do
  let bs ← bcastR3 b1 b2 bk
  let x1 := posInputs b1 n1 0
  let x2 := posInputs b2 n2 100000
  let p := posParams bk
  let D := evalDense symTriple bs p x1 x2
  some {
    bshape := toTorch bs
    diag := if n1 = n2 then lookupAll D (evalDiag symTriple bs p x1 x2) else none
    swap := lookupAll D (evalDense symTriple bs p x2 x1)
    rep := lookupAll D (evalDense symTriple bs p (x1.repeatRows r) (x2.repeatRows c)) }

/-- `K` on stacked inputs `cat(xa, xb)` (both with batch `bx`): per entry, the block (0 = aa, 1 = ab, 2 = ba,
3 = bb) and the offset inside that separately evaluated block -/
def blockPositions (bx bk : RShape) (na nb : Nat) : Option (List (Nat × Nat)) := do
  let bs ← bcastR bx bk
  let xa := posInputs bx na 0
  let xb := posInputs bx nb 100000
  let p := posParams bk
  let big := evalDense rawTriple bs p (xa.cat xb) (xa.cat xb)
  let blocks := [evalDense rawTriple bs p xa xa, evalDense rawTriple bs p xa xb,
                 evalDense rawTriple bs p xb xa, evalDense rawTriple bs p xb xb].map T.toFlat
  big.toFlat.mapM fun v =>
    (blocks.zipIdx.findSome? fun (blk, k) => (findOffset blk v).map fun o => (k, o))

structure KGetResult where
  shape : List Nat
  activeDims : Option (List Nat)
  th : List Nat

/-- `kernel[items]` on a kernel with batch shape `kb` and the given `active_dims`; the flag comes from the
generated `Gen.LazyIndex` -/
def kgetPositions (flag : Bool) (kb : RShape) (ad : Option (List Nat)) (items : List Item) : Option KGetResult := do
  let nit ← normalize (toTorch kb) items
  if countAdv nit > 1 then none else
  let k : KernelState Nat := ⟨posParams kb, ad⟩
  let k' := k.getitem flag nit.reverse
  some { shape := toTorch k'.params.bshape, activeDims := k'.activeDims, th := (allIdx k'.params.bshape).map k'.params.th }

/-- `kernel.expand_batch(new)` -/
def kexpandPositions (flag : Bool) (kb new : RShape) (ad : Option (List Nat)) : Option KGetResult :=
  if bcastR kb new = some new then
    let k : KernelState Nat := ⟨posParams kb, ad⟩
    let k' := k.expandBatch flag new
    some { shape := toTorch k'.params.bshape, activeDims := k'.activeDims, th := (allIdx new).map k'.params.th }
  else none

end KernelIndex

/-
C04 — executable model of `ExactGP.get_fantasy_model` / `DefaultPredictionStrategy.get_fantasy_strategy`
(gpytorch/models/exact_prediction_strategies.py:119-244), `LinearOperator.cat_rows` (root / inverse-root update),
`InterpolatedPredictionStrategy.get_fantasy_strategy` (WISKI caches) and of the detach/deepcopy/restore protocol
that `get_fantasy_model` runs on the source object (L4).

Everything is polymorphic in the scalar field; the driver runs it at `α = ℚ`, the theorems of
`Props/C04.lean` are about these very definitions (through `DMat.toMatrix`).

Code ↔ model dictionary (one batch element):
  `self.lik_train_train_covar`            A        (n×n, train-train + noise)
  `K_inverse = root_inv_decomposition()`  Kinv     (= R Rᵀ, what the strategy uses for A⁻¹)
  `self.mean_cache`                       α        (n×1)
  `fant_train_covar`                      U        (f×n)
  `fant_fant_covar` (after likelihood)    S        (f×f, *with the fantasy noise*)
  `targets - fant_mean`                   r_f      (f×1)
  `fant_solve`                            Q  = Kinv Uᵀ
  `schur_complement`                      Σ  = S − U Q
  `fant_cache_lower`                      b  = Σ⁻¹ (r_f − U α)
  `fant_cache_upper`                      a  = α − Q b
  `fant_mean_cache`                       [a; b]
  `new_root`  (cat_rows)                  Z  = [[L, 0],[U R, G]],  G Gᵀ = S − (U R)(U R)ᵀ
  `new_covar_cache` (cat_rows)            R' = Z⁻ᵀ = [[R, −R (U R)ᵀ G⁻ᵀ],[0, G⁻ᵀ]]
-/
import GPVerif.Model.DMat
import Mathlib.Data.Matrix.ColumnRowPartitioned
import Mathlib.Logic.Equiv.Fin.Basic

open Matrix

namespace Fantasy

variable {α : Type}

/-! ### Block assembly on `DMat` (sizes `n + f`) -/

section blocks
variable {n m f g k : Nat}

/-- `[[A, B],[C, D]]` -/
def blocks (A : DMat n m α) (B : DMat n g α) (C : DMat f m α) (D : DMat f g α) : DMat (n + f) (m + g) α :=
  DMat.ofMatrix
    ((Matrix.fromBlocks A.toMatrix B.toMatrix C.toMatrix D.toMatrix).submatrix
      finSumFinEquiv.symm finSumFinEquiv.symm)

/-- `[a; b]` (rows of `b` below rows of `a`) -/
def vcat (a : DMat n k α) (b : DMat f k α) : DMat (n + f) k α :=
  DMat.ofMatrix ((Matrix.fromRows a.toMatrix b.toMatrix).submatrix finSumFinEquiv.symm id)

/-- `[a, b]` (columns of `b` to the right of the columns of `a`) -/
def hcat (a : DMat k n α) (b : DMat k f α) : DMat k (n + f) α :=
  DMat.ofMatrix ((Matrix.fromCols a.toMatrix b.toMatrix).submatrix id finSumFinEquiv.symm)

@[simp] theorem toMatrix_blocks (A : DMat n m α) (B : DMat n g α) (C : DMat f m α) (D : DMat f g α) :
    (blocks A B C D).toMatrix =
      (Matrix.fromBlocks A.toMatrix B.toMatrix C.toMatrix D.toMatrix).submatrix
        finSumFinEquiv.symm finSumFinEquiv.symm := by simp [blocks]

@[simp] theorem toMatrix_vcat (a : DMat n k α) (b : DMat f k α) :
    (vcat a b).toMatrix = (Matrix.fromRows a.toMatrix b.toMatrix).submatrix finSumFinEquiv.symm id := by
  simp [vcat]

@[simp] theorem toMatrix_hcat (a : DMat k n α) (b : DMat k f α) :
    (hcat a b).toMatrix = (Matrix.fromCols a.toMatrix b.toMatrix).submatrix id finSumFinEquiv.symm := by
  simp [hcat]

end blocks

/-! ### The bordered-system update of the mean cache and of the carried inverse -/

section update
variable {n f t : Nat} [Field α] [DecidableEq α]

/-- `fant_solve = K_inverse.matmul(fant_train_covar.transpose(-2, -1))` -/
def fantSolve (Kinv : DMat n n α) (U : DMat f n α) : DMat n f α := Kinv.mul U.transpose

/-- `schur_complement = fant_fant_covar - fant_train_covar.matmul(fant_solve)` -/
def schur (S : DMat f f α) (U : DMat f n α) (Q : DMat n f α) : DMat f f α := S.sub (U.mul Q)

/-- `small_system_rhs = targets - fant_mean - ftcm`; `fant_cache_lower = cholesky_solve(rhs, chol(schur))`
(the Cholesky solve is modelled by the inverse of the Schur complement). -/
def cacheLower (Sinv : DMat f f α) (rf : DMat f 1 α) (U : DMat f n α) (al : DMat n 1 α) : DMat f 1 α :=
  Sinv.mul (rf.sub (U.mul al))

/-- `fant_cache_upper = mean_cache - fant_solve.matmul(fant_cache_lower)` -/
def cacheUpper (al : DMat n 1 α) (Q : DMat n f α) (b : DMat f 1 α) : DMat n 1 α := al.sub (Q.mul b)

/-- The inverse carried by the updated inverse root, `R' R'ᵀ`, in block form. -/
def invUpdate (Kinv : DMat n n α) (Q : DMat n f α) (Sinv : DMat f f α) : DMat (n + f) (n + f) α :=
  blocks (Kinv.add ((Q.mul Sinv).mul Q.transpose)) ((Q.mul Sinv).neg) ((Sinv.mul Q.transpose).neg) Sinv

/-- The solve-related state a prediction strategy carries for `n` training points. -/
structure FState (n : Nat) (α : Type) where
  /-- what the strategy uses as `(K + noise)⁻¹`: `R Rᵀ` of the cached `root_inv_decomposition` -/
  Kinv : DMat n n α
  /-- `mean_cache` -/
  mean : DMat n 1 α

/-- One `get_fantasy_strategy` step.  `none` iff the (certified) inverse of the Schur complement is not found. -/
def step? (st : FState n α) (U : DMat f n α) (S : DMat f f α) (rf : DMat f 1 α) : Option (FState (n + f) α) :=
  let Q := fantSolve st.Kinv U
  match (schur S U Q).inv? with
  | none => none
  | some Sinv =>
    let b := cacheLower Sinv rf U st.mean
    some { Kinv := invUpdate st.Kinv Q Sinv, mean := vcat (cacheUpper st.mean Q b) b }

/-- The strategy of a freshly conditioned model: `mean_cache = A⁻¹ r`, `Kinv = A⁻¹`. -/
def init? (A : DMat n n α) (r : DMat n 1 α) : Option (FState n α) :=
  match A.inv? with
  | none => none
  | some Ai => some { Kinv := Ai, mean := Ai.mul r }

/-- The bordered system `[[A, Uᵀ],[U, S]]` and right-hand side `[r; r_f]` of the concatenated data. -/
def border (A : DMat n n α) (U : DMat f n α) (S : DMat f f α) : DMat (n + f) (n + f) α :=
  blocks A U.transpose U S

/-! Predictions (`exact_predictive_mean`, `exact_predictive_covar`) -/

/-- `test_mean + test_train_covar @ mean_cache` -/
def predMean (mt : DMat t 1 α) (Kt : DMat t n α) (mc : DMat n 1 α) : DMat t 1 α := mt.add (Kt.mul mc)

/-- fast_pred_var path: `Ktt − (Kt R)(Kt R)ᵀ` with `R = covar_cache` -/
def predCovarRoot {p : Nat} (Ktt : DMat t t α) (Kt : DMat t n α) (R : DMat n p α) : DMat t t α :=
  Ktt.sub ((Kt.mul R).mul (Kt.mul R).transpose)

/-- the same through the carried inverse (`= predCovarRoot` for every root of `Kinv`), also the non-fast path
`Ktt − Kt · solve(A, Ktᵀ)` -/
def predCovarInv (Ktt : DMat t t α) (Kt : DMat t n α) (Kinv : DMat n n α) : DMat t t α :=
  Ktt.sub (Kt.mul (Kinv.mul Kt.transpose))

end update

/-! ### Fantasies of fantasies: a chain of steps with growing size -/

section chain
variable [Field α] [DecidableEq α]

/-- Base data `(A, r)` followed by fantasy steps `(U, S, r_f)`; the index is the number of training points. -/
inductive Steps (α : Type) : Nat → Type
  | base {n : Nat} (A : DMat n n α) (r : DMat n 1 α) : Steps α n
  | step {n f : Nat} (c : Steps α n) (U : DMat f n α) (S : DMat f f α) (rf : DMat f 1 α) : Steps α (n + f)

/-- The fully assembled system of all the data in the chain. -/
def Steps.assemble : {n : Nat} → Steps α n → DMat n n α × DMat n 1 α
  | _, .base A r => (A, r)
  | _, .step c U S rf =>
    let p := c.assemble
    (border p.1 U S, vcat p.2 rf)

/-- Incremental: condition on the base data, then apply `step?` once per fantasy step. -/
def Steps.fold? : {n : Nat} → Steps α n → Option (FState n α)
  | _, .base A r => init? A r
  | _, .step c U S rf =>
    match c.fold? with
    | none => none
    | some st => step? st U S rf

/-- From scratch: one solve of the assembled system. -/
def Steps.scratch? {n : Nat} (c : Steps α n) : Option (FState n α) := init? c.assemble.1 c.assemble.2

def Steps.depth : {n : Nat} → Steps α n → Nat
  | _, .base _ _ => 0
  | _, .step c _ _ _ => c.depth + 1

end chain

/-! ### Root / inverse-root update (`cat_rows`) -/

section roots
variable {n f p q : Nat} [Field α] [DecidableEq α]

/-- `new_root = [[E, 0],[B R, G]]` with `E = L` the old root, `R` the old inverse root, `G` a root of the
Schur complement `D − (B R)(B R)ᵀ` (an output of the Cholesky primitive; an input of the model). -/
def rootUpdate (L R : DMat n p α) (U : DMat f n α) (G : DMat f q α) : DMat (n + f) (p + q) α :=
  blocks L DMat.zero (U.mul R) G

/-- `new_inv_root = new_root⁻ᵀ`, written out blockwise; `Ginv = G⁻¹`. -/
def invRootUpdate (R : DMat n p α) (U : DMat f n α) (Ginv : DMat q f α) : DMat (n + f) (p + q) α :=
  blocks R (((R.mul (U.mul R).transpose).mul Ginv.transpose).neg) DMat.zero Ginv.transpose

end roots

/-! ### WISKI caches (`InterpolatedPredictionStrategy.get_fantasy_strategy`) -/

section wiski
variable {n f m : Nat} [Field α] [DecidableEq α]

/-- `interp_inner_prod = W D⁻¹ Wᵀ` where `W` is the code's `wmat` (`m×n`, the transposed interpolation matrix) -/
def interpInnerProd (W : DMat m n α) (Dinv : DMat n n α) : DMat m m α := (W.mul Dinv).mul W.transpose

/-- `interp_response_cache = W D⁻¹ (y − μ)` -/
def interpResponse (W : DMat m n α) (Dinv : DMat n n α) (r : DMat n 1 α) : DMat m 1 α := W.mul (Dinv.mul r)

/-- `new_wmat = interp_inner_prod.add_low_rank(W_f D_f^{-1/2})` -/
def wiskiInnerUpdate (P : DMat m m α) (Wf : DMat m f α) (Dfinv : DMat f f α) : DMat m m α :=
  P.add ((Wf.mul Dfinv).mul Wf.transpose)

/-- `new_interp_response_cache = interp_response_cache + W_f D_f⁻¹ (y_f − μ_f)` -/
def wiskiResponseUpdate (c : DMat m 1 α) (Wf : DMat m f α) (Dfinv : DMat f f α) (rf : DMat f 1 α) : DMat m 1 α :=
  c.add (Wf.mul (Dfinv.mul rf))

/-- `fantasy_mean_cache = K c − K L (I + Lᵀ K L)⁻¹ Lᵀ K c`, `L Lᵀ = P`; `Bi = (I + Lᵀ K L)⁻¹`. -/
def wiskiMeanCache {p : Nat} (K : DMat m m α) (L : DMat m p α) (Bi : DMat p p α) (c : DMat m 1 α) : DMat m 1 α :=
  (K.mul c).sub ((K.mul L).mul (Bi.mul (L.transpose.mul (K.mul c))))

end wiski

/-- non-fast-pred-var `fantasy_covar_cache` inner term: `(K L) (I + Lᵀ K L)⁻¹ (K L)ᵀ` -/
def wiskiCovarInner {n : Nat} {p : Nat} [Field α] (K : DMat n n α) (L : DMat n p α) (Bi : DMat p p α) : DMat n n α :=
  (K.mul L).mul (Bi.mul (K.mul L).transpose)

/-! ### Concatenation order of data and fixed noise; keyword routing of `IndependentModelList` -/

section concat
variable {n f : Nat}

/-- `FixedNoiseGaussianLikelihood.get_fantasy_likelihood`: noise of `[train; fantasy]` = `[old; new]` -/
def fixedNoiseConcat (old : DMat n 1 α) (new : DMat f 1 α) : DMat (n + f) 1 α := vcat old new

/-- `ExactGP.get_fantasy_model`: `full_targets = cat([train_targets, targets])` (same for the inputs) -/
def fullTargets (tr : DMat n 1 α) (ft : DMat f 1 α) : DMat (n + f) 1 α := vcat tr ft

end concat

namespace Route

/-- keyword arguments: keyword id ↦ value id (`none` = Python `None`) -/
abbrev Kw := List (Nat × Option Nat)

def noiseKey : Nat := 0

/-- `{**kw, k: v}` -/
def setKw (kw : Kw) (k : Nat) (v : Option Nat) : Kw := kw.filter (fun e => e.1 ≠ k) ++ [(k, v)]

/-- Specification of `IndependentModelList.get_fantasy_model`: member `i` receives the common keyword arguments
plus **its own** entry `noise[i]` when that is not `None`; without a `noise` list every member gets the common
arguments. -/
def memberKwargs (common : Kw) (noise : Option (List (Option Nat))) (nMembers : Nat) : List Kw :=
  match noise with
  | some ns => ns.map fun nz => match nz with
      | some v => setKw common noiseKey (some v)
      | none => common
  | none => List.replicate nMembers common

/-- member `i` is called with `(inputs[i], targets[i], kwargs[i])` -/
def memberCalls (inputs targets : List Nat) (kws : List Kw) : List (Nat × Nat × Kw) :=
  List.zip inputs (List.zip targets kws)

end Route

/-! ### L4: the detach / deepcopy / restore protocol on the source object

`get_fantasy_model` temporarily sets four attributes of the *source* model to `None`, deep-copies it and puts the
attributes back; `FixedNoiseGaussianLikelihood.get_fantasy_likelihood` does the same with `noise_covar`.
Objects are stores `attribute id ↦ value id` (`none` = Python `None`).  The op lists are regenerated from the
Python source (`Gen/FantasyFrame.lean`). -/

namespace Frame

abbrev Val := Option Nat

inductive Op where
  /-- `old_x = self.x` -/
  | save (slot attr : Nat)
  /-- `self.x = None` -/
  | clear (attr : Nat)
  /-- `new = deepcopy(self)` -/
  | copy
  /-- `self.x = old_x` -/
  | restore (attr slot : Nat)
  /-- `try:` / `finally:` / end of the `try` statement (no handlers) -/
  | tryBegin
  | finallyBegin
  | tryEnd
  deriving DecidableEq, Repr

structure Cfg where
  self : Nat → Val
  locals : Nat → Val
  /-- the attribute table seen by `deepcopy` (`none` before the copy is taken) -/
  copied : Option (Nat → Val)

def upd (s : Nat → Val) (k : Nat) (v : Val) : Nat → Val := fun j => if j = k then v else s j

def Op.run : Op → Cfg → Cfg
  | .save slot attr, c => { c with locals := upd c.locals slot (c.self attr) }
  | .clear attr, c => { c with self := upd c.self attr none }
  | .copy, c => { c with copied := some c.self }
  | .restore attr slot, c => { c with self := upd c.self attr (c.locals slot) }
  | .tryBegin, c => c
  | .finallyBegin, c => c
  | .tryEnd, c => c

/-- Normal path: every statement runs (the `finally` block after the `try` body). -/
def run (ops : List Op) (c : Cfg) : Cfg := ops.foldl (fun c o => o.run c) c

/-- Control state of the exceptional path. -/
inductive Mode where
  | normal (inTry : Bool)
  /-- an exception is propagating inside a `try` body: skip to its `finally` -/
  | skipping
  /-- running the `finally` block while the exception is pending -/
  | unwinding
  /-- the exception left the method -/
  | raised
  deriving DecidableEq, Repr

/-- Exceptional path: `deepcopy(self)` raises (as it does for objects holding non-leaf tensors). -/
def stepExc : Mode × Cfg → Op → Mode × Cfg
  | (.normal t, c), .copy => if t then (.skipping, c) else (.raised, c)
  | (.normal _, c), .tryBegin => (.normal true, c)
  | (.normal _, c), .finallyBegin => (.normal false, c)
  | (.normal _, c), .tryEnd => (.normal false, c)
  | (.normal t, c), o => (.normal t, o.run c)
  | (.skipping, c), .finallyBegin => (.unwinding, c)
  | (.skipping, c), _ => (.skipping, c)
  | (.unwinding, c), .tryEnd => (.raised, c)
  | (.unwinding, c), o => (.unwinding, o.run c)
  | (.raised, c), _ => (.raised, c)

def runExc (ops : List Op) (c : Cfg) : Mode × Cfg := ops.foldl stepExc (.normal false, c)

def start (s : Nat → Val) : Cfg := { self := s, locals := fun _ => none, copied := none }

end Frame

end Fantasy

/-
C06 model (core Lean): pairwise kernels on batched inputs, the lazy `_getitem` path of
`LazyEvaluatedKernelTensor`, `diag`, `_transpose_nonbatch`, `repeat`, stacked inputs, multi-output row
layout, `active_dims`, and `Kernel.__getitem__` / `Kernel.expand_batch`.

A kernel is *pairwise*: entry `(b, i, j)` of the dense tensor is `κ θ[b] x1[b,i] x2[b,j]` — a function of
the parameter slice and of the two points only; `b` ranges over the broadcast of the three batch shapes
(`Bcast.bidxR` reads each operand at its own, un-broadcast, index).  Everything is polymorphic in the
types of points `X`, parameters `Θ` and values `V`; the driver instantiates `X = Θ = Nat` with *positions*
(so that what it prints is "which stored row / parameter slice does this entry read"), the theorems hold
for every instance.  Batch shapes / indices are innermost-first (see `Bcast`).
-/
import GPVerif.Model.PyIndex

namespace KernelIndex
open Bcast PyIndex

variable {X Θ V : Type}

/-- batched inputs `(*bshape, n, d)`: the point (row) `i` of batch element `b` -/
structure Inputs (X : Type) where
  bshape : RShape
  n : Nat
  pt : RIdx → Nat → X

/-- batched parameters (every parameter of the kernel that carries the batch shape) -/
structure Params (Θ : Type) where
  bshape : RShape
  th : RIdx → Θ

/-- dense evaluation on the broadcast batch shape `bs`: a tensor of shape `(*bs, n1, n2)` -/
def evalDense (κ : Θ → X → X → V) (bs : RShape) (p : Params Θ) (x1 x2 : Inputs X) : T V :=
  ⟨x2.n :: x1.n :: bs, fun idx =>
    let b := idx.drop 2
    κ (p.th (bidxR p.bshape b)) (x1.pt (bidxR x1.bshape b) (idx.getD 1 0)) (x2.pt (bidxR x2.bshape b) (idx.getD 0 0))⟩

/-! ### indexing -/

/-- batch part of a normalised index (innermost-first, `pick`/`sel` only): result batch index ↦ source
batch index -/
def selIdx : List NItem → RIdx → RIdx
  | [], _ => []
  | .pick k :: r, b => k :: selIdx r b
  | .sel l :: r, i :: b => l.getD i 0 :: selIdx r b
  | .sel _ :: r, [] => 0 :: selIdx r []
  | .adv l :: r, i :: b => l.getD i 0 :: selIdx r b
  | .adv _ :: r, [] => 0 :: selIdx r []

def selShape : List NItem → RShape
  | [] => []
  | .pick _ :: r => selShape r
  | .sel l :: r => l.length :: selShape r
  | .adv l :: r => l.length :: selShape r

/-- `D[batch…, rows, cols]` on a dense tensor of shape `(*bs, n1, n2)` (row / column position lists) -/
def indexDense (batch : List NItem) (rows cols : List Nat) (D : T V) : T V :=
  ⟨cols.length :: rows.length :: selShape batch, fun idx =>
    D.get (cols.getD (idx.getD 0 0) 0 :: rows.getD (idx.getD 1 0) 0 :: selIdx batch (idx.drop 2))⟩

/-- `Tensor.expand(*bs, n, d)` followed by `[(*batch, rows, :)]` -/
def Inputs.getitem (x : Inputs X) (batch : List NItem) (rows : List Nat) : Inputs X :=
  ⟨selShape batch, rows.length, fun b i => x.pt (bidxR x.bshape (selIdx batch b)) (rows.getD i 0)⟩

/-- `Kernel.expand_batch(bs).__getitem__(batch)`: every batched parameter is indexed -/
def Params.getitem (p : Params Θ) (batch : List NItem) : Params Θ :=
  ⟨selShape batch, fun b => p.th (bidxR p.bshape (selIdx batch b))⟩

/-- The lazy path of `LazyEvaluatedKernelTensor._getitem`: select rows of `x1`, columns of `x2`, the batch
index of both inputs and of the parameters, and build a new lazy tensor — which is evaluated later. -/
def lazyGetitem (κ : Θ → X → X → V) (batch : List NItem) (rows cols : List Nat)
    (p : Params Θ) (x1 x2 : Inputs X) : T V :=
  evalDense κ (selShape batch) (p.getitem batch) (x1.getitem batch rows) (x2.getitem batch cols)

/-! ### diag, transpose, repeat, stacking -/

/-- `kernel(x1, x2, diag=True)` as `_diagonal` requests it: entry `(b, i)` -/
def evalDiag (κ : Θ → X → X → V) (bs : RShape) (p : Params Θ) (x1 x2 : Inputs X) : T V :=
  ⟨x1.n :: bs, fun idx =>
    let b := idx.drop 1
    κ (p.th (bidxR p.bshape b)) (x1.pt (bidxR x1.bshape b) (idx.getD 0 0)) (x2.pt (bidxR x2.bshape b) (idx.getD 0 0))⟩

/-- `Tensor.diagonal(dim1=-1, dim2=-2)` of a `(*bs, n, n)` tensor -/
def diagonal (D : T V) : T V :=
  ⟨D.shape.drop 1, fun idx => D.get (idx.getD 0 0 :: idx)⟩

/-- `x.repeat(*1s, r, 1)` on the point axis -/
def Inputs.repeatRows (x : Inputs X) (r : Nat) : Inputs X := ⟨x.bshape, x.n * r, fun b i => x.pt b (i % x.n)⟩

/-- `torch.cat([xa, xb], dim=-2)` (same batch shape) -/
def Inputs.cat (xa xb : Inputs X) : Inputs X :=
  ⟨xa.bshape, xa.n + xb.n, fun b i => if i < xa.n then xa.pt b i else xb.pt b (i - xa.n)⟩

/-! ### multi-output kernels (`num_outputs_per_input = t`): interleaved rows `r = i·t + a` -/

/-- rows of the `(n·t)` axis that belong to the listed points, all tasks, in order -/
def multiRows (t : Nat) (pts : List Nat) : List Nat :=
  pts.flatMap fun i => (List.range t).map fun a => i * t + a

/-- entry `(b, r, c)` of a multi-output pairwise kernel: point `r / t`, task `r % t` -/
def evalDenseMulti (κ : Θ → X → X → Nat → Nat → V) (t : Nat) (bs : RShape) (p : Params Θ) (x1 x2 : Inputs X) : T V :=
  ⟨x2.n * t :: x1.n * t :: bs, fun idx =>
    let b := idx.drop 2
    let r := idx.getD 1 0
    let c := idx.getD 0 0
    κ (p.th (bidxR p.bshape b)) (x1.pt (bidxR x1.bshape b) (r / t)) (x2.pt (bidxR x2.bshape b) (c / t)) (r % t) (c % t)⟩

/-! ### active_dims and `Kernel.__getitem__` / `expand_batch` -/

/-- `x.index_select(-1, active_dims)` on one point (a feature vector) -/
def selectDims {α : Type} [Inhabited α] (ad : Option (List Nat)) (x : List α) : List α :=
  match ad with
  | none => x
  | some l => l.map fun c => x.getD c default

/-- The module state that `__getitem__` / `expand_batch` touch: the batched parameters and the
(non-batched) `active_dims` buffer. -/
structure KernelState (Θ : Type) where
  params : Params Θ
  activeDims : Option (List Nat)

/-- What indexing the *buffer tensor* `active_dims` (1-D, length `len`) with the batch index does in torch:
a `pick k` on its only axis leaves the scalar `active_dims[k]`; used only by the unrepaired code path. -/
def indexBuffer (ad : Option (List Nat)) (batchOuterFirst : List NItem) : Option (List Nat) :=
  match ad, batchOuterFirst with
  | some l, .pick k :: _ => some [l.getD k 0]
  | some l, .sel s :: _ => some (s.map fun k => l.getD k 0)
  | some l, .adv s :: _ => some (s.map fun k => l.getD k 0)
  | a, _ => a

/-- `Kernel.__getitem__(index)`; `touchesActiveDims` is read off the source by the translator
(`Gen.LazyIndex.getitemIndexesActiveDims`): does the buffer loop also index `active_dims`? -/
def KernelState.getitem (touchesActiveDims : Bool) (k : KernelState Θ) (batch : List NItem) : KernelState Θ :=
  ⟨k.params.getitem batch,
   if touchesActiveDims then indexBuffer k.activeDims batch.reverse else k.activeDims⟩

/-- `Kernel.expand_batch(bs)`; the flag as above (`expandBatchExpandsActiveDims`).  Expanding the 1-D buffer
to `(*bs, len)` makes `index_select` fail or (for `bs = (len,)`-like shapes) read other columns; modelled as
"the selection is no longer the original one" by `none ↦ none`, `some l ↦ some []`. -/
def KernelState.expandBatch (touchesActiveDims : Bool) (k : KernelState Θ) (bs : RShape) : KernelState Θ :=
  ⟨⟨bs, fun b => k.params.th (bidxR k.params.bshape b)⟩,
   if touchesActiveDims then k.activeDims.map (fun _ => []) else k.activeDims⟩

/-- evaluation of a kernel with `active_dims` on feature-vector inputs -/
def evalActive {α : Type} [Inhabited α] (κ : Θ → List α → List α → V) (bs : RShape) (k : KernelState Θ)
    (x1 x2 : Inputs (List α)) : T V :=
  evalDense (fun θ a b => κ θ (selectDims k.activeDims a) (selectDims k.activeDims b)) bs k.params x1 x2

/-! ### executable instance used by the driver: positions -/

structure LazyResult where
  shape : List Nat       -- torch order, after squeezing integer row / column indices
  x1pos : List Nat       -- per (b', i'): flat row of x1.reshape(-1, d)
  x2pos : List Nat
  thpos : List Nat       -- per b': flat batch element of the parameters
  densepos : List Nat    -- per result element: flat offset into the dense (*bs, n1, n2) tensor, lazy path
  directpos : List Nat   -- the same through `indexDense`

def asSel : NItem → List Nat × Bool
  | .pick k => ([k], true)
  | .sel l => (l, false)
  | .adv l => (l, false)

def countAdv (l : List NItem) : Nat := (l.filter isAdv).length

/-- Runs `lazyGetitem` and `indexDense ∘ evalDense` on position-valued inputs.  `none`: the index is invalid,
the batch shapes do not broadcast, or it has more than one index tensor (not handled by `_getitem`). -/
def lazyPositions (b1 b2 bk : RShape) (n1 n2 : Nat) (items : List Item) : Option LazyResult := do
  let bs ← bcastR3 b1 b2 bk
  let full := toTorch bs ++ [n1, n2]
  let nit ← normalize full items
  if countAdv nit > 1 then none else
  let rank := bs.length
  let batch := (nit.take rank).reverse
  let (rows, sqR) := asSel (nit.getD rank (.sel []))
  let (cols, sqC) := asSel (nit.getD (rank + 1) (.sel []))
  let x1 : Inputs Nat := ⟨b1, n1, fun b i => flat (n1 :: b1) (i :: b)⟩
  let x2 : Inputs Nat := ⟨b2, n2, fun b j => flat (n2 :: b2) (j :: b)⟩
  let p : Params Nat := ⟨bk, fun b => flat bk b⟩
  let κ : Nat → Nat → Nat → Nat × Nat × Nat := fun θ a b => (θ, a, b)
  let x1' := x1.getitem batch rows
  let x2' := x2.getitem batch cols
  let p' := p.getitem batch
  let sb := selShape batch
  let L := lazyGetitem κ batch rows cols p x1 x2
  -- the dense tensor carries its own flat offset in every entry
  let D : T Nat := ⟨n2 :: n1 :: bs, flat (n2 :: n1 :: bs)⟩
  let viaDense := indexDense batch rows cols D
  -- lazy path: entry ↦ (θ, x1 row, x2 row) ↦ the dense offset that holds exactly this triple
  let tripleToDense (tr : Nat × Nat × Nat) (idx : RIdx) : Nat :=
    let bsrc := selIdx batch (idx.drop 2)
    -- consistency of the triple with the source batch element is checked by the harness through x1/x2/th
    flat (n2 :: n1 :: bs) ((tr.2.2 % n2) :: (tr.2.1 % n1) :: bsrc)
  let shape := toTorch sb ++ (if sqR then [] else [rows.length]) ++ (if sqC then [] else [cols.length])
  some {
    shape := shape
    x1pos := (allIdx (rows.length :: sb)).map fun idx => x1'.pt (idx.drop 1) (idx.getD 0 0)
    x2pos := (allIdx (cols.length :: sb)).map fun idx => x2'.pt (idx.drop 1) (idx.getD 0 0)
    thpos := (allIdx sb).map p'.th
    densepos := (allIdx L.shape).map fun idx => tripleToDense (L.get idx) idx
    directpos := (allIdx viaDense.shape).map viaDense.get }

end KernelIndex

/-
Model for C11 (MultitaskMultivariateNormal indexing) — core Lean only.

* Python `slice` objects and `slice.indices(len)` (CPython `PySlice_AdjustIndices`, positive steps; torch
  rejects steps ≤ 0 when the mean is indexed, so those are `none` in `Idx.resolve`);
* int / index-tensor normalisation with wrap-around (`wrap`, `indexInt`, `indexTensor`);
* 0-d / 1-d integer tensors (`TVal`) with torch broadcasting for elementwise arithmetic, `meshgrid(ij)`
  followed by an elementwise expression and `reshape(-1)` (`meshFlat`);
* the two flattening conventions `flat inter n t i a` and the SPEC `specGetitem` : which flat covariance
  positions `d[pointIdx, taskIdx]` must select, in the order of the flattened `mean[idx]`;
* index-map models of linear_operator's `BlockInterleavedLinearOperator` / `BlockDiagLinearOperator`
  (used by the three constructors).

Everything here is hand-written and trusted as a description of Python/torch semantics; it is exercised
against the real code by `harness/props/c11.py` (spec positions are compared with `mean[idx]` of a tagged
distribution).  The code of `__getitem__` itself is NOT here: it is regenerated into `Gen/MTIndex.lean`.
-/

namespace MTIndex

/-! ## Python slices -/

/-- A Python `slice(start, stop, step)`; `none` = `None`. -/
structure PySlice where
  start : Option Int
  stop : Option Int
  step : Option Int
deriving DecidableEq, Repr

/-- `slice(None, None, None)` -/
def PySlice.full : PySlice := ⟨none, none, none⟩

/-- A slice all of whose fields are integers (what `_normalize_slice` returns, and what
`slice.indices` returns as a triple). -/
structure NSlice where
  start : Int
  stop : Int
  step : Int
deriving DecidableEq, Repr

/-- The step torch accepts when indexing a tensor: `None` or ≥ 1. -/
def PySlice.stepOk (s : PySlice) : Bool := decide (1 ≤ s.step.getD 1)

/-- CPython's bound adjustment for a positive step: negative values count from the end, then clamp
into `[0, len]`. -/
def clampBound (len v : Int) : Int :=
  if v < 0 then (if v + len < 0 then 0 else v + len) else (if len < v then len else v)

/-- `s.indices(len)` for a slice with positive (or `None`) step. -/
def PySlice.indices (s : PySlice) (len : Int) : NSlice :=
  { start := match s.start with
      | none => 0
      | some v => clampBound len v
    stop := match s.stop with
      | none => len
      | some v => clampBound len v
    step := s.step.getD 1 }

/-- `len(range(start, stop, step))` for `step > 0` (CPython: `(stop - start - 1) / step + 1`). -/
def NSlice.count (s : NSlice) : Nat :=
  if 0 < s.step ∧ s.start < s.stop then ((s.stop - s.start - 1) / s.step + 1).toNat else 0

/-- `list(range(start, stop, step))`, positive step. -/
def NSlice.toList (s : NSlice) : List Int :=
  (List.range s.count).map fun (k : Nat) => s.start + (k : Int) * s.step

/-- `NSlice` seen as a Python slice object again (all fields `some`). -/
def NSlice.toPy (s : NSlice) : PySlice := ⟨some s.start, some s.stop, some s.step⟩

/-- Positions selected when a sequence / tensor dimension / LinearOperator dimension of length `len` is
indexed with the Python slice `s` (positive step). -/
def applyPySlice (len : Int) (s : PySlice) : List Int := (s.indices len).toList

/-- Same for a slice object built from three integers (`slice(a, b, c)` in the code). -/
def applySlice (len : Int) (s : NSlice) : List Int := applyPySlice len s.toPy

/-- `torch.arange(len)[s]` — the values equal the positions. -/
def arangeSlice (len : Int) (s : PySlice) : List Int := applyPySlice len s

/-! ## integer and tensor indices -/

/-- An integer index `p` into a dimension of length `len`: valid for `-len ≤ p < len`, negative values
wrap (`IndexError` otherwise = `none`). -/
def wrap (len p : Int) : Option Int :=
  if 0 ≤ p ∧ p < len then some p else if -len ≤ p ∧ p < 0 then some (p + len) else none

def indexInt (len p : Int) : Option (List Int) := (wrap len p).map fun q => [q]

/-- Indexing a dimension of length `len` with an integer index tensor (entries wrap individually). -/
def indexTensor (len : Int) : List Int → Option (List Int)
  | [] => some []
  | p :: ps =>
    match wrap len p, indexTensor len ps with
    | some q, some qs => some (q :: qs)
    | _, _ => none

/-- An integer tensor of dimension 0 (`scalar`, also a Python int taking part in tensor arithmetic) or 1. -/
inductive TVal where
  | scalar (i : Int)
  | vec (l : List Int)
deriving DecidableEq, Repr

def TVal.toList : TVal → List Int
  | .scalar i => [i]
  | .vec l => l

def TVal.map (f : Int → Int) : TVal → TVal
  | .scalar i => .scalar (f i)
  | .vec l => .vec (l.map f)

/-- torch broadcasting of two 1-d operands: equal lengths pair up, a length-1 operand is repeated. -/
def bcast (f : Int → Int → Int) (xs ys : List Int) : Option (List Int) :=
  if xs.length = ys.length then some (List.zipWith f xs ys)
  else match xs, ys with
    | [x], _ => some (ys.map (f x))
    | _, [y] => some (xs.map (fun x => f x y))
    | _, _ => none

/-- Elementwise binary expression on two tensors of dimension ≤ 1 with broadcasting. -/
def TVal.zip (f : Int → Int → Int) : TVal → TVal → Option TVal
  | .scalar a, .scalar b => some (.scalar (f a b))
  | .scalar a, .vec l => some (.vec (l.map (f a)))
  | .vec l, .scalar b => some (.vec (l.map (fun x => f x b)))
  | .vec l, .vec m => (bcast f l m).map .vec

/-- `torch.meshgrid(a, b, indexing="ij")`, an elementwise expression `f` of the two grids, `.reshape(-1)`:
row-major enumeration of the grid. -/
def meshFlat (f : Int → Int → Int) (a b : TVal) : List Int :=
  a.toList.flatMap fun r => b.toList.map fun c => f r c

/-! ## index forms -/

/-- One component of an index expression: a Python int, a slice, or an integer index tensor / list. -/
inductive Idx where
  | int (i : Int)
  | slice (s : PySlice)
  | list (l : List Int)
deriving DecidableEq, Repr

def Idx.isInt : Idx → Bool
  | .int _ => true
  | _ => false

def Idx.isSlice : Idx → Bool
  | .slice _ => true
  | _ => false

def Idx.isList : Idx → Bool
  | .list _ => true
  | _ => false

/-- `x == slice(None, None, None)` -/
def Idx.isFull (x : Idx) : Bool := decide (x = .slice PySlice.full)

/-- `torch.as_tensor(x)` / using `x` as an operand of tensor arithmetic: ints become 0-d, index tensors stay;
a slice object is a `TypeError`. -/
def Idx.toTVal? : Idx → Option TVal
  | .int i => some (.scalar i)
  | .list l => some (.vec l)
  | .slice _ => none

/-- Positions along a dimension of length `len` selected by `mean[..., x, ...]` (torch semantics):
`none` when torch raises. -/
def Idx.resolve (len : Int) : Idx → Option (List Int)
  | .int i => indexInt len i
  | .slice s => if s.stepOk then some (applyPySlice len s) else none
  | .list l => indexTensor len l

/-! ## flattening conventions and the specification -/

/-- Flat position of (point `i`, task `a`) among the `n·t` outputs. -/
def flat (inter : Bool) (n t i a : Int) : Int := if inter then i * t + a else a * n + i

/-- point / task of a flat position -/
def unflat (inter : Bool) (n t p : Int) : Int × Int :=
  if inter then (p / t, p % t) else (p % n, p / n)

/-- interleaved position ↦ non-interleaved position of the same (point, task) pair, and back -/
def toNonInterleaved (n t p : Int) : Int := flat false n t (p / t) (p % t)
def toInterleaved (n t p : Int) : Int := flat true n t (p % n) (p / n)

/-- Row-major enumeration `[r·nc + c | r ∈ R, c ∈ C]`. -/
def rowMajor (nc : Int) (R C : List Int) : List Int :=
  R.flatMap fun r => C.map fun c => r * nc + c

/-- Kind of object `__getitem__` returns. -/
inductive OutKind where
  | mvn
  | mt (inter : Bool)
deriving DecidableEq, Repr

/-- The flat positions of the pairs selected by `mean[rows, cols]` in the order in which the result
distribution flattens `mean[idx]`:
* two index tensors pair up elementwise (advanced indexing), giving a 1-d mean;
* otherwise the result is the grid rows × cols; a 2-d result keeps the layout of the source, i.e. it is
  enumerated point-major when interleaved and task-major when not (for a 1-d result one of the two lists
  is a singleton and both orders coincide). -/
def specPositions (inter : Bool) (n t : Int) (paired : Bool) (rows cols : List Int) : Option (List Int) :=
  if paired then bcast (fun i a => flat inter n t i a) rows cols
  else if inter then some (rows.flatMap fun i => cols.map fun a => flat inter n t i a)
  else some (cols.flatMap fun a => rows.map fun i => flat inter n t i a)

/-- `mean[idx]` is 2-d (so the result must be a multitask distribution) iff at least one component is a
slice and none is an int. -/
def specKind (inter : Bool) (r c : Idx) : OutKind :=
  if (r.isSlice || c.isSlice) && !(r.isInt || c.isInt) then .mt inter else .mvn

/-- SPEC of `d[pointIdx, taskIdx]` for a distribution over `n` points and `t` tasks: result kind and the
flat positions of the source covariance that make up the result covariance (rows and columns alike).
`none` = the index is invalid for a mean of shape `n × t`. -/
def specGetitem (inter : Bool) (n t : Int) (r c : Idx) : Option (OutKind × List Int) := do
  let rows ← r.resolve n
  let cols ← c.resolve t
  let pos ← specPositions inter n t (r.isList && c.isList) rows cols
  pure (specKind inter r c, pos)

/-! ## block structure of the constructors (index maps of the linear_operator classes) -/

/-- Which block operator a constructor wraps the batch of per-task covariances in. -/
inductive BlockOp where
  | interleavedBlocks   -- BlockInterleavedLinearOperator: entry (p,q) = K_{p%t}[p/t, q/t] if p%t = q%t
  | diagBlocks          -- BlockDiagLinearOperator:        entry (p,q) = K_{p/n}[p%n, q%n] if p/n = q/n
deriving DecidableEq, Repr

/-- Entry `(p, q)` of the `n·t × n·t` matrix assembled from `t` blocks `K a : n × n`. -/
def blockEntry {α : Type} [OfNat α 0] (op : BlockOp) (n t : Int) (K : Int → Int → Int → α) (p q : Int) : α :=
  match op with
  | .interleavedBlocks => if p % t = q % t then K (p % t) (p / t) (q / t) else 0
  | .diagBlocks => if p / n = q / n then K (p / n) (p % n) (q % n) else 0

/-- `arange(start, stop, step)` for a positive step. -/
def arange (start stop step : Int) : List Int := (NSlice.mk start stop step).toList

end MTIndex

namespace MTIndex

/-! ## tensor primitives used by the view / transpose pairs of `mean`, `variance`, `rsample`, `log_prob`, `__init__`
(the chains themselves are generated into `Gen/MTIndex.lean`)

`v.view(r, c)[x, y] = v[x·c + y]`, `M.transpose(-1, -2)[x, y] = M[y, x]`,
`M.reshape(-1)[p] = M[p / c, p % c]` for an `r × c` matrix. -/

def view2 {α : Type} (cols : Int) (v : Int → α) (x y : Int) : α := v (x * cols + y)
def transpose2 {α : Type} (M : Int → Int → α) (x y : Int) : α := M y x
def reshapeFlat {α : Type} (cols : Int) (M : Int → Int → α) (p : Int) : α := M (p / cols) (p % cols)

end MTIndex

/-
L4 — prediction-cache state machine (C03).  Core Lean only (executable by `drivers/C03.lean`).

One `State` describes one GP model object: its mode, a version counter of its parameters and of its
training data, and the store of live cache entries (slot ↦ the versions the entry was computed from):

  * slot 0  `prediction_strategy`  (attribute of `ExactGP`; absent = `None`)
  * slots 1…11  `_memoize_cache` names of the strategy object (`@cached(name=…)`)
  * slots 12, 13  eval-mode attribute caches of kernels (`_cached_kernel_mat`, `_cached_kernel_inv_root`)
  * slots 14, 15  the *other representation* of `covar_cache` / `fantasy_covar_cache` of the interpolated strategy:
    the memo value is a pair `(inside_root, None)` (built under `fast_pred_samples`) or `(None, root)`; one memo
    name, two representations, at most one live — slot 2 / 6 = `(None, root)`, slot 14 / 15 = `(inside_root, None)`

What each public operation *clears* and what a prediction *reads / creates / pops* (per strategy class and
settings cell: `Table.access`, a list of `MemoOp`s) is not written here: the transition function consults a
`Table`, and the table that the driver runs and the theorems are about is `Gen.CacheTable.table`, regenerated
from the Python source by `harness/translate/g2_cache_table.py` on every run.  The hand-written counterpart
`accessModel` is the specification the generated access function is proved equal to (`Props/C03.lean`).
What a *variational* call reads (`varReads`) is written here by hand and validated by the correspondence check.
-/

namespace CacheSM

/-! ### Vocabulary shared with the translator (ids are fixed; the generated file repeats the name lists
and `Props/C03.lean` checks that they agree) -/

def slotNames : List String :=
  ["prediction_strategy", "mean_cache", "covar_cache", "interp_inner_prod", "interp_response_cache",
   "fantasy_mean_cache", "fantasy_covar_cache", "cholesky_factor", "prior_distribution_memo",
   "variational_distribution_memo", "pseudo_points_memo", "amortized_exact_gp",
   "_cached_kernel_mat", "_cached_kernel_inv_root",
   "covar_cache[fast_pred_samples]", "fantasy_covar_cache[fast_pred_samples]",
   "mean_cache[mask]", "mean_cache[fill]"]

def sStrat : Nat := 0
def sMean : Nat := 1
def sCovar : Nat := 2
def sInterpInner : Nat := 3
def sInterpResp : Nat := 4
def sFantMean : Nat := 5
def sFantCovar : Nat := 6
def sChol : Nat := 7
def sPrior : Nat := 8
def sVarDist : Nat := 9
def sPseudo : Nat := 10
def sAmortized : Nat := 11
def sKMat : Nat := 12
def sKInvRoot : Nat := 13
/-- `covar_cache` holding `(inside_root, None)`, the representation built under `fast_pred_samples` -/
def sCovarS : Nat := 14
/-- `fantasy_covar_cache` holding `(inside_root, None)` -/
def sFantCovarS : Nat := 15

/-- `mean_cache` entries of the default strategy computed under `observation_nan_policy` "mask" / "fill" (the memo key
`(name, args, kwargs)` contains the policy: one entry per policy, all live side by side) -/
def sMeanMask : Nat := 16
def sMeanFill : Nat := 17

/-- names living in a strategy object's `_memoize_cache` -/
def isMemo (s : Nat) : Bool := (1 ≤ s && s ≤ 11) || (14 ≤ s && s ≤ 17)

/-- the memo *name* a slot belongs to (the two representations of one name share the `@cached` declaration) -/
def baseSlot (s : Nat) : Nat :=
  if s == sCovarS then sCovar else if s == sFantCovarS then sFantCovar else if s == sMeanMask || s == sMeanFill then sMean else s

/-- slot holding the representation of `covar_cache` / `fantasy_covar_cache` that a call under
`fast_pred_samples = fps` asks for -/
def covarSlot (fps : Bool) : Nat := if fps then sCovarS else sCovar
def fantCovarSlot (fps : Bool) : Nat := if fps then sFantCovarS else sFantCovar

/-- prediction-relevant settings; ids = bit positions of a settings cell (`Cell.ofMask`) -/
def settingNames : List String :=
  ["fast_pred_var", "fast_pred_samples", "lazily_evaluate_kernels", "max_cholesky_size", "detach_test_caches",
   "skip_posterior_variances", "max_eager_kernel_size", "trace_mode", "observation_nan_policy"]

def gFastPredVar : Nat := 0
def gFastPredSamples : Nat := 1
def gDetach : Nat := 4
def gNanPolicy : Nat := 8

def classNames : List String :=
  ["Module", "ExactGP", "DefaultPredictionStrategy", "InterpolatedPredictionStrategy", "RFFPredictionStrategy",
   "SGPRPredictionStrategy", "_VariationalStrategy", "VariationalStrategy", "UnwhitenedVariationalStrategy",
   "InducingPointKernel", "GridKernel", "GridInterpolationKernel"]

def cModule : Nat := 0
def cExactGP : Nat := 1
def cDefault : Nat := 2
def cInterp : Nat := 3
def cRFF : Nat := 4
def cSGPR : Nat := 5
def cVarBase : Nat := 6
def cVar : Nat := 7
def cUnwhitened : Nat := 8
def cIPK : Nat := 9
def cGrid : Nat := 10
def cGridInterp : Nat := 11

/-! ### Settings cells -/

/-- The settings in force at a prediction: one Boolean per prediction-relevant setting (`settingNames`, in this
order), plus `degraded`, which marks the two *accuracy-degrading* variants whose own output is not part of the
property but which fill caches like their exact counterparts (`degradedRoot`, `degradedCG` below). -/
structure Cell where
  /-- `fast_pred_var()` -/
  fpv : Bool := false
  /-- `fast_pred_samples()` -/
  fps : Bool := false
  /-- `lazily_evaluate_kernels(False)` -/
  eager : Bool := false
  /-- `max_cholesky_size(0)`: Cholesky factors are not formed (CG / Lanczos at tight tolerance) -/
  noCholesky : Bool := false
  /-- `detach_test_caches(False)` -/
  keepGraph : Bool := false
  /-- `skip_posterior_variances()` -/
  skip : Bool := false
  /-- `max_eager_kernel_size(0)`: the joint covariance is sliced lazily -/
  lazySlice : Bool := false
  /-- `trace_mode(True)` -/
  trace : Bool := false
  /-- with `noCholesky`: rank-2 Lanczos root behind `fast_pred_var`, resp. CG stopped after two iterations -/
  degraded : Bool := false
  /-- `observation_nan_policy("mask")` -/
  nanMask : Bool := false
  /-- `observation_nan_policy("fill")` (wins over `nanMask`; neither = the default "ignore") -/
  nanFill : Bool := false
  deriving DecidableEq, Repr

namespace Cell

def default : Cell := {}
def fastPredVar : Cell := { fpv := true }
def fastPredSamples : Cell := { fps := true }
def fastPredBoth : Cell := { fpv := true, fps := true }
def eagerKernels : Cell := { eager := true }
def cg : Cell := { noCholesky := true }
def noDetach : Cell := { keepGraph := true }
def skipVar : Cell := { skip := true }
def lazyJoint : Cell := { lazySlice := true }
def traceMode : Cell := { trace := true }
/-- `fast_pred_var(num_probe_vectors=1)` + `max_cholesky_size(0)` + `max_root_decomposition_size(2)`
(a truncated Lanczos root in `covar_cache`) -/
def degradedRoot : Cell := { fpv := true, noCholesky := true, degraded := true }
/-- `max_cholesky_size(0)` + CG stopped after two iterations -/
def degradedCG : Cell := { noCholesky := true, degraded := true }
def nanPolicyMask : Cell := { nanMask := true }
def nanPolicyFill : Cell := { nanFill := true }

/-- `settings.observation_nan_policy.value() != "ignore"` -/
def nan (c : Cell) : Bool := c.nanMask || c.nanFill

/-- bit `i` of the mask = setting `i` of `settingNames` (i < 8); bit 8 = `degraded`; bits 9, 10 = nan policy mask / fill -/
def ofMask (m : Nat) : Cell :=
  { fpv := m.testBit 0, fps := m.testBit 1, eager := m.testBit 2, noCholesky := m.testBit 3, keepGraph := m.testBit 4,
    skip := m.testBit 5, lazySlice := m.testBit 6, trace := m.testBit 7, degraded := m.testBit 8,
    nanMask := m.testBit 9, nanFill := m.testBit 10 }

def bools : List Bool := [false, true]

/-- every settings cell (2048) -/
def all : List Cell :=
  bools.flatMap fun a => bools.flatMap fun b => bools.flatMap fun c => bools.flatMap fun d => bools.flatMap fun e =>
  bools.flatMap fun f => bools.flatMap fun g => bools.flatMap fun h => bools.flatMap fun i => bools.flatMap fun j =>
  bools.flatMap fun k => [⟨a, b, c, d, e, f, g, h, i, j, k⟩]

/-- slot of the `mean_cache` entry a call of the default / RFF / SGPR strategy reads: keyed on the nan policy -/
def meanSlot (c : Cell) : Nat := if c.nanFill then 17 else if c.nanMask then 16 else 1

end Cell

/-! ### What a prediction does to the memo table -/

/-- one access of a prediction strategy to its `_memoize_cache` -/
inductive MemoOp where
  /-- `self.<name>` of a `@cached` property / method: return the entry, computing and storing it when absent -/
  | read (slot : Nat)
  /-- the same for a memo name with two representations: `slot` holds the one the current settings ask for, `alt`
      the other one.  `revalidated`: the reader tests which representation it was handed and, on the wrong one,
      `pop_from_cache`s the entry and reads again (so it is recomputed under the current settings);
      otherwise it uses whatever is there. -/
  | readKeyed (slot alt : Nat) (revalidated : Bool)
  /-- `pop_from_cache(self, name)` -/
  | pop (slot : Nat)
  deriving DecidableEq, Repr

/-- a read of a two-representation entry that uses whatever representation it is handed -/
def MemoOp.unrevalidated : MemoOp → Bool
  | .readKeyed _ _ false => true
  | _ => false

/-- the same access without the re-validation (used to show that the re-validation is needed) -/
def MemoOp.dropRevalidation : MemoOp → MemoOp
  | .readKeyed s alt _ => .readKeyed s alt false
  | op => op

/-! ### The invalidation table (schema; the instance is generated) -/

/-- a clearing statement -/
inductive Effect where
  | dropStrategy            -- `self.prediction_strategy = None`
  | clearMemo               -- `clear_cache_hook(self)`  ≡  `self._memoize_cache = {}`
  | delAttr (slot : Nat)    -- `if hasattr(self, a): del self.a`
  deriving DecidableEq, Repr

/-- Is `slot` gone after the statement?  (The memo table of an exact GP lives inside its strategy object.) -/
def Effect.cleared : Effect → Nat → Bool
  | .dropStrategy, s => s == sStrat || isMemo s
  | .clearMemo, s => isMemo s
  | .delAttr a, s => s == a

/-- one `@cached(name=…)` visible on instances of a class (resolved through the MRO) -/
structure CachedDecl where
  slot : Nat
  /-- `ignore_args=True`: the memo key is the bare name -/
  ignoreArgs : Bool
  /-- the computing method registers `clear_cache_hook(self)` on the result's `grad_fn`
      (after `if settings.detach_test_caches.on(): x = x.detach()`) -/
  hooked : Bool
  /-- the computed value exists in two representations selected by a setting (id in `settingNames`): the body
      returns `(v, None)` when the setting is on and `(None, w)` when it is off -/
  variantOn : Option Nat
  /-- other memo names the computing body reads (and thereby creates) -/
  deps : List Nat
  /-- every setting the computing body (with the un-cached helpers it calls) tests -/
  bodySettings : List Nat
  deriving DecidableEq, Repr

/-- an attribute cache `self._cached_x` of a kernel -/
structure AttrCache where
  slot : Nat
  /-- assigned only under `if not self.training` -/
  storeEvalOnly : Bool
  /-- read only under `not self.training and hasattr(self, …)` -/
  readEvalOnly : Bool
  deriving DecidableEq, Repr

/-- an attribute `self.x` assigned by a method other than `__init__` -/
structure InstAttr where
  cls : Nat
  /-- 1 = `_last_test_train_covar` (the test-train operator handed to the `covar_cache` body: only its train-side
      interpolation is used), 0 = any other name -/
  known : Nat
  /-- the assignment sits under a test of the attribute itself (`getattr(self, x, None) is None`, `hasattr`,
      `self.x is None`): compute-if-absent, i.e. an ad-hoc cache -/
  selfGuarded : Bool
  /-- some method reads it on a path on which it was not assigned before in the same call -/
  readBeforeWrite : Bool
  deriving DecidableEq, Repr

structure ClassInfo where
  id : Nat
  /-- base classes inside the vocabulary, nearest first -/
  bases : List Nat
  /-- subclass of `gpytorch.Module`: reached by `train()` / `load_state_dict` -/
  isModule : Bool
  cached : List CachedDecl
  attrCaches : List AttrCache
  /-- body of the `_clear_cache` the class resolves to -/
  clearCache : List Effect
  deriving DecidableEq, Repr

structure Table where
  classes : List ClassInfo
  /-- `Module.train(mode)`: does `_clear_cache()` run?  arguments: `self.training`, `mode` -/
  trainClears : Bool → Bool → Bool
  /-- `Module._load_from_state_dict` calls `_clear_cache()` unconditionally -/
  loadClears : Bool
  /-- clearing statements `ExactGP.set_train_data` reaches, as a function of which arguments are given
      (`inputs is not None`, `targets is not None`) -/
  setTrainData : Bool → Bool → List Effect
  /-- `_VariationalStrategy.__call__`: does `_clear_cache()` run?  arguments: `self.training`, `prior` -/
  varCallClears : Bool → Bool → Bool
  /-- the legacy block of `VariationalStrategy.__call__` (re-whitening of parameters loaded from an old-format
      state dict, i.e. one without `updated_strategy`) ends with `clear_cache_hook(self)` -/
  legacyConversionClears : Bool
  /-- `ExactGP.__call__` builds the strategy only `if self.prediction_strategy is None` -/
  strategyGuardedByIsNone : Bool
  /-- … `or self._strategy_lazily_evaluated != settings.lazily_evaluate_kernels.on()`: a strategy built under the
      other kernel-evaluation setting (which decides the strategy class) is rebuilt, not reused -/
  strategyKeyedOnLazy : Bool
  /-- `DefaultPredictionStrategy.exact_predictive_covar` reads `covar_cache`?  arguments: fast_pred_var,
      skip_posterior_variances, `observation_nan_policy != "ignore"` -/
  defaultReadsCovarCache : Bool → Bool → Bool → Bool
  /-- classes whose `__init__` registers `inducing_points` from a copy (`.clone()`) of the tensor it is given: two
      models constructed from the same tensor do not share parameter storage -/
  ctorClones : List Nat
  /-- what `exact_prediction` of a strategy class (class id) does to the memo table, in order, derived from the
      call graph `exact_prediction → exact_predictive_mean / exact_predictive_covar → @cached names,
      pop_from_cache, super()` and the settings guards on the way.  arguments: class, `self.uses_wiski`, settings cell -/
  access : Nat → Bool → Cell → List MemoOp
  /-- attributes of `self` assigned outside `__init__` by the prediction / variational strategies (i.e. state that
      lives outside `_memoize_cache` and that no invalidation point drops) -/
  instAttrs : List InstAttr
  /-- what `get_fantasy_strategy` of a strategy class reads from the memo table of the source strategy -/
  fantasyAccess : Nat → Cell → List MemoOp
  /-- memo names `get_fantasy_strategy` puts into the new strategy object (`add_to_cache(fant_strat, name, …)`) -/
  fantasyBorn : Nat → List Nat
  /-- `get_fantasy_model` raises when `prediction_strategy is None` before touching anything -/
  fantasyNeedsStrategy : Bool
  /-- attributes (0 strategy, 1 train_inputs, 2 train_targets, 3 likelihood) set to `None` around the `deepcopy` … -/
  fantasyNulled : List Nat
  /-- … and put back afterwards -/
  fantasyRestored : List Nat
  /-- the restore sits in a `finally:` (runs when the copy raises) -/
  fantasyRestoreInFinally : Bool
  /-- `clear_cache_hook` replaces the whole `_memoize_cache` -/
  hookClearsWholeMemo : Bool
  /-- `_cached` keys entries by `(name, args, kwargs)` -/
  memoKeyHonoursArgs : Bool

def emptyClass (c : Nat) : ClassInfo :=
  { id := c, bases := [], isModule := false, cached := [], attrCaches := [], clearCache := [] }

def Table.info (T : Table) (c : Nat) : ClassInfo :=
  (T.classes.find? (·.id == c)).getD (emptyClass c)

def Table.hookedSlot (T : Table) (c slot : Nat) : Bool :=
  (T.info c).cached.any fun d => d.slot == slot && d.hooked

/-! ### States -/

inductive Kind where
  | exact | kiss | sgpr | svgp | usvgp
  deriving DecidableEq, Repr

def Kind.isExact : Kind → Bool
  | .exact | .kiss | .sgpr => true
  | _ => false

structure Entry where
  pv : Nat
  dv : Nat
  /-- a `clear_cache_hook` is pending on the autograd graph of this entry -/
  hooked : Bool
  deriving DecidableEq, Repr

abbrev Store := Nat → Option Entry

structure State where
  kind : Kind
  training : Bool
  /-- `train_inputs` / `train_targets` are set (always, unless a failed fantasy left them `None`) -/
  hasData : Bool
  pv : Nat
  dv : Nat
  /-- class of the live strategy object is `DefaultPredictionStrategy` (meaningful while slot 0 is live) -/
  stratDefault : Bool
  /-- `lazily_evaluate_kernels` was on when the live strategy object was built -/
  stratLazy : Bool
  /-- `updated_strategy` is False: the parameters came from an old-format state dict and the next non-prior call
      of the (whitened) variational strategy re-whitens them first -/
  pendingConversion : Bool
  store : Store

/-- a freshly constructed model (training mode, no caches) holding parameters `pv` and data `dv` -/
def fresh (k : Kind) (pv dv : Nat) : State :=
  { kind := k, training := true, hasData := true, pv := pv, dv := dv, stratDefault := k == .exact, stratLazy := true,
    pendingConversion := false, store := fun _ => none }

def init (k : Kind) : State := fresh k 0 0

/-- module objects of a model that can hold caches (class ids) -/
def moduleClasses : Kind → List Nat
  | .exact => [cExactGP]
  | .kiss => [cExactGP, cGridInterp]
  | .sgpr => [cExactGP, cIPK]
  | .svgp => [cVar]
  | .usvgp => [cUnwhitened]

/-- kernel class with attribute caches -/
def kernelClass : Kind → Option Nat
  | .kiss => some cGridInterp
  | .sgpr => some cIPK
  | _ => none

/-- class the kernel asks for when the train covariance is lazily evaluated -/
def kernelStrategy : Kind → Nat
  | .kiss => cInterp
  | .sgpr => cSGPR
  | _ => cDefault

def varClass : Kind → Nat
  | .usvgp => cUnwhitened
  | _ => cVar

/-- every slot a model of this kind can ever hold -/
def slotsOf : Kind → List Nat
  | .exact => [sStrat, sMean, sCovar, sMeanMask, sMeanFill]
  | .kiss => [sStrat, sMean, sCovar, sCovarS, sInterpInner, sInterpResp, sKMat, sMeanMask, sMeanFill]
  | .sgpr => [sStrat, sMean, sCovar, sKMat, sKInvRoot, sMeanMask, sMeanFill]
  | .svgp => [sChol, sPrior, sVarDist, sPseudo, sAmortized]
  | .usvgp => [sChol, sPrior, sVarDist, sPseudo, sAmortized]

/-- kernel matrices over the inducing points / the grid do not depend on the training data -/
def dataSensitive (s : Nat) : Bool := !(s == sKMat || s == sKInvRoot)

def Entry.freshAt (e : Entry) (slot pv dv : Nat) : Bool :=
  e.pv == pv && (!dataSensitive slot || e.dv == dv)

/-! ### Store operations -/

def clearBy (effs : List Effect) (st : Store) : Store :=
  fun s => if effs.any (·.cleared s) then none else st s

/-- create the entry unless it is already there -/
def touch (st : Store) (slot : Nat) (e : Entry) : Store :=
  fun s => if s = slot then (match st s with | some x => some x | none => some e) else st s

def touchAll (st : Store) (e : Nat → Entry) : List Nat → Store
  | [] => st
  | s :: ss => touchAll (touch st s (e s)) e ss

/-- the `_clear_cache` bodies of all module objects of the model -/
def allClearEffects (T : Table) (k : Kind) : List Effect :=
  (moduleClasses k).flatMap fun c => if (T.info c).isModule then (T.info c).clearCache else []

/-! ### What a call reads -/

structure Used where
  slot : Nat
  pv : Nat
  dv : Nat
  deriving DecidableEq, Repr

/-- what the answer of a call was computed from -/
structure Answer where
  /-- conditioned on the training data (false: the prior, because the data attributes are `None`) -/
  posterior : Bool
  /-- class id of the strategy object used (`cModule` = none) -/
  cls : Nat
  /-- parameters / data read directly by the call -/
  pv : Nat
  dv : Nat
  /-- cache entries read, with the versions they were computed from -/
  used : List Used
  deriving DecidableEq, Repr

def stratClassOf (k : Kind) (isDefault : Bool) : Nat :=
  if isDefault then cDefault else kernelStrategy k

/-- slots popped before the reads of a call (`pop_from_cache`; the re-validation of a two-representation entry
pops the *other* representation) -/
def popped (ops : List MemoOp) : List Nat :=
  ops.filterMap fun
    | .read _ => none
    | .readKeyed _ alt rv => if rv then some alt else none
    | .pop s => some s

/-- slots a call reads (and creates when absent), given the store after the pops.  A reader that does not
re-validate a two-representation entry uses the other representation when that is the one that is live. -/
def effReads (ops : List MemoOp) (st : Store) : List Nat :=
  ops.filterMap fun
    | .read s => some s
    | .readKeyed s alt rv => some (if !rv && (st alt).isSome && (st s).isNone then alt else s)
    | .pop _ => none

/-- **Specification** of `Table.access` (hand-written; `Props/C03.lean` proves the generated function equal to it
on every class, flag and settings cell).
  * default strategy: the `mean_cache` entry of the current `observation_nan_policy` always; `covar_cache` iff
    `fast_pred_var` and neither `skip_posterior_variances` nor a non-default `observation_nan_policy`;
  * interpolated strategy (KISS-GP): `mean_cache` (`fantasy_mean_cache` on a WISKI fantasy strategy) always;
    `covar_cache` (`fantasy_covar_cache`) iff (`fast_pred_var` or `fast_pred_samples`) and not
    `skip_posterior_variances` — in the representation `fast_pred_samples` asks for, the other one being popped;
  * RFF strategy: `mean_cache`; `covar_cache` unless `skip_posterior_variances`;
  * SGPR strategy: `mean_cache` and `covar_cache` always. -/
def accessModel (cls : Nat) (wiski : Bool) (c : Cell) : List MemoOp :=
  if cls == cSGPR then [.read c.meanSlot, .read sCovar]
  else if cls == cRFF then .read c.meanSlot :: (if c.skip then [] else [.read sCovar])
  else if cls == cInterp then
    .read (if wiski then sFantMean else sMean) ::
      (if (c.fpv || c.fps) && !c.skip then
        [if wiski then .readKeyed (fantCovarSlot c.fps) (fantCovarSlot (!c.fps)) true
         else .readKeyed (covarSlot c.fps) (covarSlot (!c.fps)) true]
       else [])
  else if cls == cDefault then .read c.meanSlot :: (if c.fpv && !c.skip && !c.nan then [.read sCovar] else [])
  else []

/-- specification of `Table.fantasyAccess`: the default strategy updates `mean_cache` (the root decompositions are
memoised on the train-train operator, not on the strategy); the interpolated strategy updates the two WISKI caches -/
def fantasyAccessModel (cls : Nat) (c : Cell) : List MemoOp :=
  if cls == cInterp then [.read sInterpInner, .read sInterpResp]
  else if cls == cDefault then [.read c.meanSlot]
  else []

/-- specification of `Table.fantasyBorn`: memo names the fantasy strategy is born with -/
def fantasyBornModel (cls : Nat) : List Nat :=
  if cls == cInterp then [sInterpInner, sInterpResp]
  else if cls == cDefault then [sMean, sCovar]
  else []

/-- strategy classes of the vocabulary -/
def strategyClasses : List Nat := [cDefault, cInterp, cRFF, cSGPR]

/-- memo slots read by `exact_prediction` of a strategy class under a settings cell, in a store where nothing is live -/
def memoReads (T : Table) (cls : Nat) (c : Cell) : List Nat :=
  effReads (T.access cls false c) (fun _ => none)

/-- memo names read by a (non-prior) call of a variational strategy -/
def varReads (k : Kind) (training : Bool) (c : Cell) : List Nat :=
  match k with
  | .usvgp => (if c.noCholesky then [sVarDist] else [sVarDist, sChol]) ++ (if training then [sPrior] else [])
  | _ => [sVarDist, sChol, sPrior]

def kernelAttrs (T : Table) (k : Kind) : List Nat :=
  match kernelClass k with
  | some c => (T.info c).attrCaches.map (·.slot)
  | none => []

/-- attribute caches are stored / read by a kernel evaluation in the current mode? -/
def attrsActive (T : Table) (k : Kind) (training : Bool) : List Nat :=
  match kernelClass k with
  | some c => ((T.info c).attrCaches.filter fun a => !training || !(a.storeEvalOnly && a.readEvalOnly)).map (·.slot)
  | none => []

def usedOf (s : State) (st : Store) (slots : List Nat) : List Used :=
  slots.filterMap fun sl => (st sl).map fun e => ⟨sl, e.pv, if dataSensitive sl then e.dv else s.dv⟩

def newEntry (s : State) (hooked : Bool) : Entry := ⟨s.pv, s.dv, hooked⟩

/-- a kernel evaluation outside the posterior path (training branch / prior mode of `ExactGP.__call__`) -/
def callKernelOnly (T : Table) (s : State) (training : Bool) : State × Answer :=
  let attrs := attrsActive T s.kind training
  let st := touchAll s.store (fun _ => newEntry s false) attrs
  ({ s with store := st }, ⟨false, cModule, s.pv, s.dv, usedOf s st attrs⟩)

/-- `if self.prediction_strategy is None [or built under the other lazily_evaluate_kernels setting]:` -/
def needsNewStrategy (T : Table) (s : State) (c : Cell) : Bool :=
  (s.store sStrat).isNone || !T.strategyGuardedByIsNone ||
    (T.strategyKeyedOnLazy && s.stratLazy != !c.eager)

/-- the state once a strategy object exists.  An eagerly evaluated train covariance is no
`LazyEvaluatedKernelTensor`, so then the kernel is not asked for its strategy class. -/
def withStrategy (T : Table) (s : State) (c : Cell) : State :=
  if needsNewStrategy T s c then
    { s with stratDefault := s.kind == .exact || c.eager, stratLazy := !c.eager,
             store := fun sl => if sl == sStrat then some (newEntry s false) else if isMemo sl then none else s.store sl }
  else s

/-- posterior branch of `ExactGP.__call__` -/
def callPosterior (T : Table) (s : State) (c : Cell) : State × Answer :=
  let s0 := withStrategy T s c
  let cls := stratClassOf s0.kind s0.stratDefault
  let ops := T.access cls false c
  let st0 := clearBy ((popped ops).map .delAttr) s0.store
  let reads := effReads ops st0
  let attrs := attrsActive T s0.kind false
  let st := touchAll (touchAll st0 (fun sl => newEntry s (c.keepGraph && T.hookedSlot cls (baseSlot sl))) reads)
              (fun _ => newEntry s false) attrs
  ({ s0 with store := st }, ⟨true, cls, s.pv, s.dv, usedOf s st (sStrat :: reads ++ attrs)⟩)

/-- non-prior call of a variational strategy -/
def callVar (T : Table) (s : State) (c : Cell) : State × Answer :=
  let st0 := if T.varCallClears s.training false then clearBy (T.info (varClass s.kind)).clearCache s.store else s.store
  let reads := varReads s.kind s.training c
  let st1 := touchAll st0 (fun _ => newEntry s false) reads
  ({ s with store := st1 }, ⟨true, varClass s.kind, s.pv, s.dv, usedOf s st1 reads⟩)

/-- does the next non-prior call start with the legacy re-whitening block? -/
def State.converts (s : State) : Bool := s.pendingConversion && s.kind == .svgp

/-- The legacy block of `VariationalStrategy.__call__`: reads `variational_distribution` and `_cholesky_factor`
(memoised, from the parameters as loaded), rewrites the variational parameters in whitened form — a parameter
change inside the call — and, if the source says so, empties the memo table. -/
def convert (T : Table) (s : State) : State :=
  if s.converts then
    let st := touchAll s.store (fun _ => newEntry s false) [sChol, sVarDist]
    { s with pv := s.pv + 1, pendingConversion := false,
             store := if T.legacyConversionClears then clearBy [.clearMemo] st else st }
  else s

/-- the parameter version a call answers from -/
def callPv (s : State) (prior : Bool) : Nat := if !s.kind.isExact && !prior && s.converts then s.pv + 1 else s.pv

/-- A call `model(x)` under settings cell `c` (`prior = true`: prior-mode call).  Returns the state after the
call and the description of what the answer was computed from. -/
def call (T : Table) (s : State) (c : Cell) (prior : Bool) : State × Answer :=
  if s.kind.isExact then
    if s.training then callKernelOnly T s true          -- the prior at the training inputs; kernels do not cache
    else if prior || !s.hasData then callKernelOnly T s false
    else callPosterior T s c
  else
    if prior then (s, ⟨false, cModule, s.pv, s.dv, []⟩)
    else callVar T (convert T s) c

/-! ### Operations -/

/-- how the real `get_fantasy_model` call ended (reported by the harness to the driver) -/
inductive FantasyOutcome where
  | ok
  | rejectedEarly     -- raised before touching the source (no strategy yet, shape checks)
  | raisedInCopy      -- raised inside `deepcopy(self)`, i.e. while the source attributes are `None`
  | rejectedLate      -- raised after the source was restored (`NotImplementedError` of the strategy)
  deriving DecidableEq, Repr

/-- which arguments `set_train_data` is given -/
inductive DataArgs where
  | both | targetsOnly | inputsOnly
  deriving DecidableEq, Repr

def DataArgs.inputs : DataArgs → Bool
  | .targetsOnly => false
  | _ => true

def DataArgs.targets : DataArgs → Bool
  | .inputsOnly => false
  | _ => true

def DataArgs.all : List DataArgs := [.both, .targetsOnly, .inputsOnly]

inductive Op where
  | predict (c : Cell)
  | priorPredict
  | train
  | eval
  | step
  | setTrainData (a : DataArgs)
  | loadStateDict (oldFormat : Bool)
  | fantasy (o : FantasyOutcome)
  | backward
  deriving DecidableEq, Repr

structure Out where
  next : State
  answer : Option Answer := none
  /-- the model returned by `get_fantasy_model` -/
  fantasy : Option State := none

def setMode (T : Table) (s : State) (mode : Bool) : State :=
  { s with training := mode,
           store := if T.trainClears s.training mode then clearBy (allClearEffects T s.kind) s.store else s.store }

/-- slots the source reads while building a fantasy model (exact GPs: `get_fantasy_strategy` of the live strategy
class, from the table) -/
def fantasyReads (T : Table) (s : State) : List Nat :=
  if s.kind.isExact then effReads (T.fantasyAccess (stratClassOf s.kind s.stratDefault) .default) s.store
  else [sVarDist, sPseudo, sAmortized]

/-- does the real code accept `get_fantasy_model` in this state? -/
def fantasyAccepts (T : Table) (s : State) : Bool :=
  if s.kind.isExact then
    s.hasData && ((s.store sStrat).isSome || !T.fantasyNeedsStrategy) && stratClassOf s.kind s.stratDefault != cSGPR
  else true

/-- The model returned by `get_fantasy_model`: an exact GP conditioned on (source data + fantasy points) —
a new data version — whose strategy already holds the updated caches. -/
def fantasyModel (s : State) : State :=
  let e : Entry := ⟨s.pv, s.dv + 1, false⟩
  let born := fantasyBornModel (if s.kind.isExact then stratClassOf s.kind s.stratDefault else cDefault)
  { kind := if s.kind.isExact then s.kind else .exact,
    training := if s.kind.isExact then s.training else false,
    hasData := true, pv := s.pv, dv := s.dv + 1,
    stratDefault := if s.kind.isExact then s.stratDefault else true,
    stratLazy := if s.kind.isExact then s.stratLazy else true,
    pendingConversion := false,
    store := fun sl =>
      if sl == sStrat then some e else if born.contains sl then some e else none }

def step (T : Table) (s : State) : Op → Out
  | .predict c => let r := call T s c false; { next := r.1, answer := some r.2 }
  | .priorPredict => let r := call T s .default true; { next := r.1, answer := some r.2 }
  | .train => { next := setMode T s true }
  | .eval => { next := setMode T s false }
  | .step =>
      -- one optimiser step; only in training mode (a parameter edit in eval mode is outside the property)
      if s.training && s.hasData then
        let s1 := (call T s .default false).1           -- forward pass of the objective
        { next := { s1 with pv := s1.pv + 1 } }
      else { next := s }
  | .setTrainData a =>
      if s.kind.isExact then
        { next := { s with dv := s.dv + 1, hasData := true,
                           store := clearBy (T.setTrainData a.inputs a.targets) s.store } }
      else { next := s }
  | .loadStateDict old =>
      -- `old`: a state dict written before `updated_strategy` existed (the pre-hook then sets the flag to False)
      { next := { s with pv := s.pv + 1, pendingConversion := old && s.kind == .svgp,
                         store := if T.loadClears then clearBy (allClearEffects T s.kind) s.store else s.store } }
  | .fantasy .ok =>
      if fantasyAccepts T s then
        let st := touchAll s.store (fun _ => newEntry s false) (fantasyReads T s ++ (if s.kind.isExact then attrsActive T s.kind s.training else []))
        { next := { s with store := st }, fantasy := some (fantasyModel s) }
      else { next := s }
  | .fantasy .rejectedEarly => { next := s }
  | .fantasy .rejectedLate => { next := s }
  | .fantasy .raisedInCopy =>
      if T.fantasyRestoreInFinally && T.fantasyNulled.all (T.fantasyRestored.contains ·) then { next := s }
      else
        -- the source keeps the `None`s written before the copy
        { next := { s with hasData := if T.fantasyNulled.contains 1 || T.fantasyNulled.contains 2 then false else s.hasData,
                           store := if T.fantasyNulled.contains 0 then clearBy [.dropStrategy] s.store else s.store } }
  | .backward =>
      -- eval mode only: `with detach_test_caches(False): model(x).mean.sum().backward()`
      if s.training then { next := s }
      else
        let r := call T s .noDetach false
        let s1 := r.1
        let fired := T.hookClearsWholeMemo &&
          (r.2.used.any fun u => match s1.store u.slot with | some e => e.hooked | none => false)
        { next := if fired then { s1 with store := clearBy [.clearMemo] s1.store } else s1, answer := none }

/-- run a history; answers are collected in order -/
def run (T : Table) : State → List Op → State × List Answer
  | s, [] => (s, [])
  | s, op :: ops =>
      let o := step T s op
      let r := run T o.next ops
      (r.1, (match o.answer with | some a => [a] | none => []) ++ r.2)

/-! ### Two objects -/

/-- A history over two model objects constructed from the same argument tensors: every op is applied to the first
(`false`) or to the second (`true`) object.  In the model the two objects share no state — for the real objects that
is the statement that constructors copy the tensors they turn into parameters (`Table.ctorClones`) and that no
operation writes into its argument tensors; both are checked by the two-object correspondence. -/
def run2 (T : Table) : State × State → List (Bool × Op) → (State × State) × List (Bool × Answer)
  | p, [] => (p, [])
  | p, (w, op) :: ops =>
      let o := step T (if w then p.2 else p.1) op
      let r := run2 T (if w then (p.1, o.next) else (o.next, p.2)) ops
      (r.1, (match o.answer with | some a => [(w, a)] | none => []) ++ r.2)

/-- the ops of a two-object history that were applied to the object `w` -/
def opsOf (w : Bool) (ops : List (Bool × Op)) : List Op := (ops.filter (·.1 == w)).map (·.2)

/-! ### The specification side: what a freshly constructed model would answer -/

/-- the model a user would build from scratch with the same parameters, data and mode -/
def State.rebuilt (s : State) : State :=
  { fresh s.kind s.pv s.dv with training := s.training, pendingConversion := s.pendingConversion }

/-- every entry the answer used was computed from the parameters and data current at the call -/
def Answer.current (a : Answer) : Bool :=
  a.used.all fun u => u.pv == a.pv && u.dv == a.dv

/-! ### Executable versions of the invariant (used by the driver's exhaustive enumeration) -/

def Inv.supportB (s : State) : Bool :=
  (List.range 18).all fun sl => (s.store sl).isNone || (slotsOf s.kind).contains sl

def Inv.freshB (s : State) : Bool :=
  s.training || (List.range 18).all fun sl => match s.store sl with
    | some e => e.freshAt sl s.pv s.dv
    | none => true

def invB (s : State) : Bool :=
  s.hasData && Inv.supportB s && Inv.freshB s &&
    (!((s.store sStrat).isSome && !s.training) || s.stratDefault == (s.kind == .exact || !s.stratLazy))

end CacheSM

/-
L4 — prediction-cache state machine (C03).  Core Lean only (executable by `drivers/C03.lean`).

One `State` describes one GP model object: its mode, a version counter of its parameters and of its
training data, and the store of live cache entries (slot ↦ the versions the entry was computed from):

  * slot 0  `prediction_strategy`  (attribute of `ExactGP`; absent = `None`)
  * slots 1…11  `_memoize_cache` names of the strategy object (`@cached(name=…)`)
  * slots 12, 13  eval-mode attribute caches of kernels (`_cached_kernel_mat`, `_cached_kernel_inv_root`)

What each public operation *clears* is not written here: the transition function consults a `Table`, and
the table that the driver runs and the theorems are about is `Gen.CacheTable.table`, regenerated from the
Python source by `harness/translate/g2_cache_table.py` on every run.  What a prediction *reads/creates*
(per strategy class and settings cell) is written here by hand and validated by the correspondence check.
-/

namespace CacheSM

/-! ### Vocabulary shared with the translator (ids are fixed; the generated file repeats the name lists
and `Props/C03.lean` checks that they agree) -/

def slotNames : List String :=
  ["prediction_strategy", "mean_cache", "covar_cache", "interp_inner_prod", "interp_response_cache",
   "fantasy_mean_cache", "fantasy_covar_cache", "cholesky_factor", "prior_distribution_memo",
   "variational_distribution_memo", "pseudo_points_memo", "amortized_exact_gp",
   "_cached_kernel_mat", "_cached_kernel_inv_root"]

def sStrat : Nat := 0
def sMean : Nat := 1
def sCovar : Nat := 2
def sInterpInner : Nat := 3
def sInterpResp : Nat := 4
def sFantMean : Nat := 5
def sFantCovar : Nat := 6
def sChol : Nat := 7
def sPrior : Nat := 8
def sVarDist : Nat := 9
def sPseudo : Nat := 10
def sAmortized : Nat := 11
def sKMat : Nat := 12
def sKInvRoot : Nat := 13

/-- names living in a strategy object's `_memoize_cache` -/
def isMemo (s : Nat) : Bool := 1 ≤ s && s ≤ 11

def classNames : List String :=
  ["Module", "ExactGP", "DefaultPredictionStrategy", "InterpolatedPredictionStrategy", "RFFPredictionStrategy",
   "SGPRPredictionStrategy", "_VariationalStrategy", "VariationalStrategy", "UnwhitenedVariationalStrategy",
   "InducingPointKernel", "GridKernel", "GridInterpolationKernel"]

def cModule : Nat := 0
def cExactGP : Nat := 1
def cDefault : Nat := 2
def cInterp : Nat := 3
def cRFF : Nat := 4
def cSGPR : Nat := 5
def cVarBase : Nat := 6
def cVar : Nat := 7
def cUnwhitened : Nat := 8
def cIPK : Nat := 9
def cGrid : Nat := 10
def cGridInterp : Nat := 11

/-! ### The invalidation table (schema; the instance is generated) -/

/-- a clearing statement -/
inductive Effect where
  | dropStrategy            -- `self.prediction_strategy = None`
  | clearMemo               -- `clear_cache_hook(self)`  ≡  `self._memoize_cache = {}`
  | delAttr (slot : Nat)    -- `if hasattr(self, a): del self.a`
  deriving DecidableEq, Repr

/-- Is `slot` gone after the statement?  (The memo table of an exact GP lives inside its strategy object.) -/
def Effect.cleared : Effect → Nat → Bool
  | .dropStrategy, s => s == sStrat || isMemo s
  | .clearMemo, s => isMemo s
  | .delAttr a, s => s == a

/-- one `@cached(name=…)` visible on instances of a class (resolved through the MRO) -/
structure CachedDecl where
  slot : Nat
  /-- `ignore_args=True`: the memo key is the bare name -/
  ignoreArgs : Bool
  /-- the computing method registers `clear_cache_hook(self)` on the result's `grad_fn`
      (after `if settings.detach_test_caches.on(): x = x.detach()`) -/
  hooked : Bool
  deriving DecidableEq, Repr

/-- an attribute cache `self._cached_x` of a kernel -/
structure AttrCache where
  slot : Nat
  /-- assigned only under `if not self.training` -/
  storeEvalOnly : Bool
  /-- read only under `not self.training and hasattr(self, …)` -/
  readEvalOnly : Bool
  deriving DecidableEq, Repr

structure ClassInfo where
  id : Nat
  /-- base classes inside the vocabulary, nearest first -/
  bases : List Nat
  /-- subclass of `gpytorch.Module`: reached by `train()` / `load_state_dict` -/
  isModule : Bool
  cached : List CachedDecl
  attrCaches : List AttrCache
  /-- body of the `_clear_cache` the class resolves to -/
  clearCache : List Effect
  deriving DecidableEq, Repr

structure Table where
  classes : List ClassInfo
  /-- `Module.train(mode)`: does `_clear_cache()` run?  arguments: `self.training`, `mode` -/
  trainClears : Bool → Bool → Bool
  /-- `Module._load_from_state_dict` calls `_clear_cache()` unconditionally -/
  loadClears : Bool
  /-- clearing statements `ExactGP.set_train_data` reaches, as a function of which arguments are given
      (`inputs is not None`, `targets is not None`) -/
  setTrainData : Bool → Bool → List Effect
  /-- `_VariationalStrategy.__call__`: does `_clear_cache()` run?  arguments: `self.training`, `prior` -/
  varCallClears : Bool → Bool → Bool
  /-- the legacy block of `VariationalStrategy.__call__` (re-whitening of parameters loaded from an old-format
      state dict, i.e. one without `updated_strategy`) ends with `clear_cache_hook(self)` -/
  legacyConversionClears : Bool
  /-- `ExactGP.__call__` builds the strategy only `if self.prediction_strategy is None` -/
  strategyGuardedByIsNone : Bool
  /-- … `or self._strategy_lazily_evaluated != settings.lazily_evaluate_kernels.on()`: a strategy built under the
      other kernel-evaluation setting (which decides the strategy class) is rebuilt, not reused -/
  strategyKeyedOnLazy : Bool
  /-- `DefaultPredictionStrategy.exact_predictive_covar` reads `covar_cache`?  arguments: fast_pred_var,
      skip_posterior_variances, `observation_nan_policy != "ignore"` -/
  defaultReadsCovarCache : Bool → Bool → Bool → Bool
  /-- `get_fantasy_model` raises when `prediction_strategy is None` before touching anything -/
  fantasyNeedsStrategy : Bool
  /-- attributes (0 strategy, 1 train_inputs, 2 train_targets, 3 likelihood) set to `None` around the `deepcopy` … -/
  fantasyNulled : List Nat
  /-- … and put back afterwards -/
  fantasyRestored : List Nat
  /-- the restore sits in a `finally:` (runs when the copy raises) -/
  fantasyRestoreInFinally : Bool
  /-- `clear_cache_hook` replaces the whole `_memoize_cache` -/
  hookClearsWholeMemo : Bool
  /-- `_cached` keys entries by `(name, args, kwargs)` -/
  memoKeyHonoursArgs : Bool

def emptyClass (c : Nat) : ClassInfo :=
  { id := c, bases := [], isModule := false, cached := [], attrCaches := [], clearCache := [] }

def Table.info (T : Table) (c : Nat) : ClassInfo :=
  (T.classes.find? (·.id == c)).getD (emptyClass c)

def Table.hookedSlot (T : Table) (c slot : Nat) : Bool :=
  (T.info c).cached.any fun d => d.slot == slot && d.hooked

/-! ### States -/

inductive Kind where
  | exact | kiss | sgpr | svgp | usvgp
  deriving DecidableEq, Repr

def Kind.isExact : Kind → Bool
  | .exact | .kiss | .sgpr => true
  | _ => false

/-- settings cells of a prediction: eight exact-path cells, and two *accuracy-degrading* cells whose own output is
not part of the property but which fill caches like their exact counterparts:
`degradedRoot` = `fast_pred_var(num_probe_vectors=1)` + `max_cholesky_size(0)` + `max_root_decomposition_size(2)`
(a truncated Lanczos root in `covar_cache`), `degradedCG` = `max_cholesky_size(0)` + CG stopped after two iterations. -/
inductive Cell where
  | default | fastPredVar | eagerKernels | cg | noDetach | skipVar | degradedRoot | degradedCG
  | lazyJoint     -- `max_eager_kernel_size(0)`: the joint covariance is sliced lazily (exact path, reads as default)
  | traceMode     -- `trace_mode(True)`: generic kernel path, dense assembly in the variational strategy (exact path)
  deriving DecidableEq, Repr

/-- `settings.fast_pred_var.on()` -/
def Cell.fpv : Cell → Bool
  | .fastPredVar | .degradedRoot => true
  | _ => false

/-- `max_cholesky_size(0)`: Cholesky factors are not formed -/
def Cell.noCholesky : Cell → Bool
  | .cg | .degradedRoot | .degradedCG => true
  | _ => false

structure Entry where
  pv : Nat
  dv : Nat
  /-- a `clear_cache_hook` is pending on the autograd graph of this entry -/
  hooked : Bool
  deriving DecidableEq, Repr

abbrev Store := Nat → Option Entry

structure State where
  kind : Kind
  training : Bool
  /-- `train_inputs` / `train_targets` are set (always, unless a failed fantasy left them `None`) -/
  hasData : Bool
  pv : Nat
  dv : Nat
  /-- class of the live strategy object is `DefaultPredictionStrategy` (meaningful while slot 0 is live) -/
  stratDefault : Bool
  /-- `lazily_evaluate_kernels` was on when the live strategy object was built -/
  stratLazy : Bool
  /-- `updated_strategy` is False: the parameters came from an old-format state dict and the next non-prior call
      of the (whitened) variational strategy re-whitens them first -/
  pendingConversion : Bool
  store : Store

/-- a freshly constructed model (training mode, no caches) holding parameters `pv` and data `dv` -/
def fresh (k : Kind) (pv dv : Nat) : State :=
  { kind := k, training := true, hasData := true, pv := pv, dv := dv, stratDefault := k == .exact, stratLazy := true,
    pendingConversion := false, store := fun _ => none }

def init (k : Kind) : State := fresh k 0 0

/-- module objects of a model that can hold caches (class ids) -/
def moduleClasses : Kind → List Nat
  | .exact => [cExactGP]
  | .kiss => [cExactGP, cGridInterp]
  | .sgpr => [cExactGP, cIPK]
  | .svgp => [cVar]
  | .usvgp => [cUnwhitened]

/-- kernel class with attribute caches -/
def kernelClass : Kind → Option Nat
  | .kiss => some cGridInterp
  | .sgpr => some cIPK
  | _ => none

/-- class the kernel asks for when the train covariance is lazily evaluated -/
def kernelStrategy : Kind → Nat
  | .kiss => cInterp
  | .sgpr => cSGPR
  | _ => cDefault

def varClass : Kind → Nat
  | .usvgp => cUnwhitened
  | _ => cVar

/-- every slot a model of this kind can ever hold -/
def slotsOf : Kind → List Nat
  | .exact => [sStrat, sMean, sCovar]
  | .kiss => [sStrat, sMean, sCovar, sInterpInner, sInterpResp, sKMat]
  | .sgpr => [sStrat, sMean, sCovar, sKMat, sKInvRoot]
  | .svgp => [sChol, sPrior, sVarDist, sPseudo, sAmortized]
  | .usvgp => [sChol, sPrior, sVarDist, sPseudo, sAmortized]

/-- kernel matrices over the inducing points / the grid do not depend on the training data -/
def dataSensitive (s : Nat) : Bool := !(s == sKMat || s == sKInvRoot)

def Entry.freshAt (e : Entry) (slot pv dv : Nat) : Bool :=
  e.pv == pv && (!dataSensitive slot || e.dv == dv)

/-! ### Store operations -/

def clearBy (effs : List Effect) (st : Store) : Store :=
  fun s => if effs.any (·.cleared s) then none else st s

/-- create the entry unless it is already there -/
def touch (st : Store) (slot : Nat) (e : Entry) : Store :=
  fun s => if s = slot then (match st s with | some x => some x | none => some e) else st s

def touchAll (st : Store) (e : Nat → Entry) : List Nat → Store
  | [] => st
  | s :: ss => touchAll (touch st s (e s)) e ss

/-- the `_clear_cache` bodies of all module objects of the model -/
def allClearEffects (T : Table) (k : Kind) : List Effect :=
  (moduleClasses k).flatMap fun c => if (T.info c).isModule then (T.info c).clearCache else []

/-! ### What a call reads -/

structure Used where
  slot : Nat
  pv : Nat
  dv : Nat
  deriving DecidableEq, Repr

/-- what the answer of a call was computed from -/
structure Answer where
  /-- conditioned on the training data (false: the prior, because the data attributes are `None`) -/
  posterior : Bool
  /-- class id of the strategy object used (`cModule` = none) -/
  cls : Nat
  /-- parameters / data read directly by the call -/
  pv : Nat
  dv : Nat
  /-- cache entries read, with the versions they were computed from -/
  used : List Used
  deriving DecidableEq, Repr

def stratClassOf (k : Kind) (isDefault : Bool) : Nat :=
  if isDefault then cDefault else kernelStrategy k

/-- memo names read by `exact_prediction` of a strategy class under a settings cell
(`observation_nan_policy` stays at its default `"ignore"` in the settings alphabet) -/
def memoReads (T : Table) (cls : Nat) (c : Cell) : List Nat :=
  if cls == cSGPR then [sMean, sCovar]
  else if T.defaultReadsCovarCache c.fpv (c == .skipVar) false then [sMean, sCovar] else [sMean]

/-- memo names read by a (non-prior) call of a variational strategy -/
def varReads (k : Kind) (training : Bool) (c : Cell) : List Nat :=
  match k with
  | .usvgp => (if c.noCholesky then [sVarDist] else [sVarDist, sChol]) ++ (if training then [sPrior] else [])
  | _ => [sVarDist, sChol, sPrior]

def kernelAttrs (T : Table) (k : Kind) : List Nat :=
  match kernelClass k with
  | some c => (T.info c).attrCaches.map (·.slot)
  | none => []

/-- attribute caches are stored / read by a kernel evaluation in the current mode? -/
def attrsActive (T : Table) (k : Kind) (training : Bool) : List Nat :=
  match kernelClass k with
  | some c => ((T.info c).attrCaches.filter fun a => !training || !(a.storeEvalOnly && a.readEvalOnly)).map (·.slot)
  | none => []

def usedOf (s : State) (st : Store) (slots : List Nat) : List Used :=
  slots.filterMap fun sl => (st sl).map fun e => ⟨sl, e.pv, if dataSensitive sl then e.dv else s.dv⟩

def newEntry (s : State) (hooked : Bool) : Entry := ⟨s.pv, s.dv, hooked⟩

/-- a kernel evaluation outside the posterior path (training branch / prior mode of `ExactGP.__call__`) -/
def callKernelOnly (T : Table) (s : State) (training : Bool) : State × Answer :=
  let attrs := attrsActive T s.kind training
  let st := touchAll s.store (fun _ => newEntry s false) attrs
  ({ s with store := st }, ⟨false, cModule, s.pv, s.dv, usedOf s st attrs⟩)

/-- `if self.prediction_strategy is None [or built under the other lazily_evaluate_kernels setting]:` -/
def needsNewStrategy (T : Table) (s : State) (c : Cell) : Bool :=
  (s.store sStrat).isNone || !T.strategyGuardedByIsNone ||
    (T.strategyKeyedOnLazy && s.stratLazy != (c != .eagerKernels))

/-- the state once a strategy object exists.  An eagerly evaluated train covariance is no
`LazyEvaluatedKernelTensor`, so then the kernel is not asked for its strategy class. -/
def withStrategy (T : Table) (s : State) (c : Cell) : State :=
  if needsNewStrategy T s c then
    { s with stratDefault := s.kind == .exact || !(c != .eagerKernels), stratLazy := c != .eagerKernels,
             store := fun sl => if sl == sStrat then some (newEntry s false) else if isMemo sl then none else s.store sl }
  else s

/-- posterior branch of `ExactGP.__call__` -/
def callPosterior (T : Table) (s : State) (c : Cell) : State × Answer :=
  let s0 := withStrategy T s c
  let cls := stratClassOf s0.kind s0.stratDefault
  let reads := memoReads T cls c
  let attrs := attrsActive T s0.kind false
  let st := touchAll (touchAll s0.store (fun sl => newEntry s (c == .noDetach && T.hookedSlot cls sl)) reads)
              (fun _ => newEntry s false) attrs
  ({ s0 with store := st }, ⟨true, cls, s.pv, s.dv, usedOf s st (sStrat :: reads ++ attrs)⟩)

/-- non-prior call of a variational strategy -/
def callVar (T : Table) (s : State) (c : Cell) : State × Answer :=
  let st0 := if T.varCallClears s.training false then clearBy (T.info (varClass s.kind)).clearCache s.store else s.store
  let reads := varReads s.kind s.training c
  let st1 := touchAll st0 (fun _ => newEntry s false) reads
  ({ s with store := st1 }, ⟨true, varClass s.kind, s.pv, s.dv, usedOf s st1 reads⟩)

/-- does the next non-prior call start with the legacy re-whitening block? -/
def State.converts (s : State) : Bool := s.pendingConversion && s.kind == .svgp

/-- The legacy block of `VariationalStrategy.__call__`: reads `variational_distribution` and `_cholesky_factor`
(memoised, from the parameters as loaded), rewrites the variational parameters in whitened form — a parameter
change inside the call — and, if the source says so, empties the memo table. -/
def convert (T : Table) (s : State) : State :=
  if s.converts then
    let st := touchAll s.store (fun _ => newEntry s false) [sChol, sVarDist]
    { s with pv := s.pv + 1, pendingConversion := false,
             store := if T.legacyConversionClears then clearBy [.clearMemo] st else st }
  else s

/-- the parameter version a call answers from -/
def callPv (s : State) (prior : Bool) : Nat := if !s.kind.isExact && !prior && s.converts then s.pv + 1 else s.pv

/-- A call `model(x)` under settings cell `c` (`prior = true`: prior-mode call).  Returns the state after the
call and the description of what the answer was computed from. -/
def call (T : Table) (s : State) (c : Cell) (prior : Bool) : State × Answer :=
  if s.kind.isExact then
    if s.training then callKernelOnly T s true          -- the prior at the training inputs; kernels do not cache
    else if prior || !s.hasData then callKernelOnly T s false
    else callPosterior T s c
  else
    if prior then (s, ⟨false, cModule, s.pv, s.dv, []⟩)
    else callVar T (convert T s) c

/-! ### Operations -/

/-- how the real `get_fantasy_model` call ended (reported by the harness to the driver) -/
inductive FantasyOutcome where
  | ok
  | rejectedEarly     -- raised before touching the source (no strategy yet, shape checks)
  | raisedInCopy      -- raised inside `deepcopy(self)`, i.e. while the source attributes are `None`
  | rejectedLate      -- raised after the source was restored (`NotImplementedError` of the strategy)
  deriving DecidableEq, Repr

/-- which arguments `set_train_data` is given -/
inductive DataArgs where
  | both | targetsOnly | inputsOnly
  deriving DecidableEq, Repr

def DataArgs.inputs : DataArgs → Bool
  | .targetsOnly => false
  | _ => true

def DataArgs.targets : DataArgs → Bool
  | .inputsOnly => false
  | _ => true

def DataArgs.all : List DataArgs := [.both, .targetsOnly, .inputsOnly]

inductive Op where
  | predict (c : Cell)
  | priorPredict
  | train
  | eval
  | step
  | setTrainData (a : DataArgs)
  | loadStateDict (oldFormat : Bool)
  | fantasy (o : FantasyOutcome)
  | backward
  deriving DecidableEq, Repr

structure Out where
  next : State
  answer : Option Answer := none
  /-- the model returned by `get_fantasy_model` -/
  fantasy : Option State := none

def setMode (T : Table) (s : State) (mode : Bool) : State :=
  { s with training := mode,
           store := if T.trainClears s.training mode then clearBy (allClearEffects T s.kind) s.store else s.store }

/-- slots the source reads while building a fantasy model -/
def fantasyReads (s : State) : List Nat :=
  if s.kind.isExact then
    (if stratClassOf s.kind s.stratDefault == cInterp then [sInterpInner, sInterpResp] else [sMean])
  else [sVarDist, sPseudo, sAmortized]

/-- does the real code accept `get_fantasy_model` in this state? -/
def fantasyAccepts (T : Table) (s : State) : Bool :=
  if s.kind.isExact then
    s.hasData && ((s.store sStrat).isSome || !T.fantasyNeedsStrategy) && stratClassOf s.kind s.stratDefault != cSGPR
  else true

/-- The model returned by `get_fantasy_model`: an exact GP conditioned on (source data + fantasy points) —
a new data version — whose strategy already holds the updated caches. -/
def fantasyModel (s : State) : State :=
  let e : Entry := ⟨s.pv, s.dv + 1, false⟩
  let wiski := s.kind.isExact && stratClassOf s.kind s.stratDefault == cInterp
  { kind := if s.kind.isExact then s.kind else .exact,
    training := if s.kind.isExact then s.training else false,
    hasData := true, pv := s.pv, dv := s.dv + 1,
    stratDefault := if s.kind.isExact then s.stratDefault else true,
    stratLazy := if s.kind.isExact then s.stratLazy else true,
    pendingConversion := false,
    store := fun sl =>
      if sl == sStrat then some e
      else if wiski then (if sl == sInterpInner || sl == sInterpResp then some e else none)
      else (if sl == sMean || sl == sCovar then some e else none) }

def step (T : Table) (s : State) : Op → Out
  | .predict c => let r := call T s c false; { next := r.1, answer := some r.2 }
  | .priorPredict => let r := call T s .default true; { next := r.1, answer := some r.2 }
  | .train => { next := setMode T s true }
  | .eval => { next := setMode T s false }
  | .step =>
      -- one optimiser step; only in training mode (a parameter edit in eval mode is outside the property)
      if s.training && s.hasData then
        let s1 := (call T s .default false).1           -- forward pass of the objective
        { next := { s1 with pv := s1.pv + 1 } }
      else { next := s }
  | .setTrainData a =>
      if s.kind.isExact then
        { next := { s with dv := s.dv + 1, hasData := true,
                           store := clearBy (T.setTrainData a.inputs a.targets) s.store } }
      else { next := s }
  | .loadStateDict old =>
      -- `old`: a state dict written before `updated_strategy` existed (the pre-hook then sets the flag to False)
      { next := { s with pv := s.pv + 1, pendingConversion := old && s.kind == .svgp,
                         store := if T.loadClears then clearBy (allClearEffects T s.kind) s.store else s.store } }
  | .fantasy .ok =>
      if fantasyAccepts T s then
        let st := touchAll s.store (fun _ => newEntry s false) (fantasyReads s ++ (if s.kind.isExact then attrsActive T s.kind s.training else []))
        { next := { s with store := st }, fantasy := some (fantasyModel s) }
      else { next := s }
  | .fantasy .rejectedEarly => { next := s }
  | .fantasy .rejectedLate => { next := s }
  | .fantasy .raisedInCopy =>
      if T.fantasyRestoreInFinally && T.fantasyNulled.all (T.fantasyRestored.contains ·) then { next := s }
      else
        -- the source keeps the `None`s written before the copy
        { next := { s with hasData := if T.fantasyNulled.contains 1 || T.fantasyNulled.contains 2 then false else s.hasData,
                           store := if T.fantasyNulled.contains 0 then clearBy [.dropStrategy] s.store else s.store } }
  | .backward =>
      -- eval mode only: `with detach_test_caches(False): model(x).mean.sum().backward()`
      if s.training then { next := s }
      else
        let r := call T s .noDetach false
        let s1 := r.1
        let fired := T.hookClearsWholeMemo &&
          (r.2.used.any fun u => match s1.store u.slot with | some e => e.hooked | none => false)
        { next := if fired then { s1 with store := clearBy [.clearMemo] s1.store } else s1, answer := none }

/-- run a history; answers are collected in order -/
def run (T : Table) : State → List Op → State × List Answer
  | s, [] => (s, [])
  | s, op :: ops =>
      let o := step T s op
      let r := run T o.next ops
      (r.1, (match o.answer with | some a => [a] | none => []) ++ r.2)

/-! ### The specification side: what a freshly constructed model would answer -/

/-- the model a user would build from scratch with the same parameters, data and mode -/
def State.rebuilt (s : State) : State :=
  { fresh s.kind s.pv s.dv with training := s.training, pendingConversion := s.pendingConversion }

/-- every entry the answer used was computed from the parameters and data current at the call -/
def Answer.current (a : Answer) : Bool :=
  a.used.all fun u => u.pv == a.pv && u.dv == a.dv

/-! ### Executable versions of the invariant (used by the driver's exhaustive enumeration) -/

def Inv.supportB (s : State) : Bool :=
  (List.range 16).all fun sl => (s.store sl).isNone || (slotsOf s.kind).contains sl

def Inv.freshB (s : State) : Bool :=
  s.training || (List.range 16).all fun sl => match s.store sl with
    | some e => e.freshAt sl s.pv s.dv
    | none => true

def invB (s : State) : Bool :=
  s.hasData && Inv.supportB s && Inv.freshB s &&
    (!((s.store sStrat).isSome && !s.training) || s.stratDefault == (s.kind == .exact || !s.stratLazy))

end CacheSM

/-
L4 store model of constrained parameters (`gpytorch.Module` with `register_constraint`):
a store keeps, per parameter id, the constraint kind and the *raw* (unconstrained) value; the public value
is always read through `constraint.transform(raw)` (the `@property` of every module).

Operations (the ones the property C17 quantifies over):
* `set p v`       — public setter `module.p = v` = `initialize(raw_p = constraint.inverse_transform(v))`;
* `initRaw p r`   — `module.initialize(raw_p = r)` with the bound check of `Module.initialize`;
* `step p δ`      — an optimiser step / any in-place update of the raw tensor (`raw += δ`, δ arbitrary);
* `assignRaw p r` — `module.raw_p.data = r` (no check at all);
* `register p k`  — `register_constraint("raw_p", k)` replacing the constraint (constructor may reject).

The formulas are the generated ones (`Gen.Constraints`), polymorphic in the scalar: executed at `Float` by
`drivers/C17.lean`, reasoned about at `ℝ` in `Props/C17.lean`.  Core Lean only.
-/
import GPVerif.Gen.Constraints
import GPVerif.Model.InitIR

namespace ParamStore
open Gen.Constraints

inductive Kind (α : Type) where
  | interval (l u : α)
  | greaterThan (l : α)
  | positive
  | lessThan (u : α)

variable {α : Type} [Add α] [Sub α] [Mul α] [Div α] [Neg α] [NatCast α] [OfScientific α] [TransFn α]

def Kind.transform : Kind α → α → α
  | .interval l u, x => intervalTransform l u x
  | .greaterThan l, x => greaterThanTransform l x
  | .positive, x => positiveTransform x
  | .lessThan u, x => lessThanTransform u x

def Kind.inverse : Kind α → α → α
  | .interval l u, x => intervalInverse l u x
  | .greaterThan l, x => greaterThanInverse l x
  | .positive, x => positiveInverse x
  | .lessThan u, x => lessThanInverse u x

def Kind.inverseLogArgs : Kind α → α → List α
  | .interval l u, x => intervalInverseLogArgs l u x
  | .greaterThan l, x => greaterThanInverseLogArgs l x
  | .positive, x => positiveInverseLogArgs x
  | .lessThan u, x => lessThanInverseLogArgs u x

variable [LE α]

/-- `constraint.check(v)` on a constrained value. -/
def Kind.Check : Kind α → α → Prop
  | .interval l u, x => intervalCheck l u x
  | .greaterThan l, x => greaterThanCheck l x
  | .positive, x => positiveCheck x
  | .lessThan u, x => lessThanCheck u x

/-- `constraint.check_raw(r)` on a raw value. -/
def Kind.CheckRaw : Kind α → α → Prop
  | .interval l u, x => intervalCheckRaw l u x
  | .greaterThan l, x => greaterThanCheckRaw l x
  | .positive, x => positiveCheckRaw x
  | .lessThan u, x => lessThanCheckRaw u x

/-- the constructor of the constraint raises (`ValueError`: empty interval). -/
def Kind.InitRejects : Kind α → Prop
  | .interval l u => intervalInitRejects l u
  | _ => False

variable [DecidableLE α]

instance (k : Kind α) (x : α) : Decidable (k.Check x) := by
  cases k <;> simp only [Kind.Check, intervalCheck, greaterThanCheck, positiveCheck, lessThanCheck, GE.ge] <;>
    infer_instance

instance (k : Kind α) (x : α) : Decidable (k.CheckRaw x) := by
  cases k <;> simp only [Kind.CheckRaw, intervalCheckRaw, greaterThanCheckRaw, positiveCheckRaw,
    lessThanCheckRaw, GE.ge] <;> infer_instance

instance (k : Kind α) : Decidable k.InitRejects := by
  cases k <;> simp only [Kind.InitRejects, intervalInitRejects, GE.ge] <;> infer_instance

structure Store (α : Type) where
  kind : Nat → Kind α
  raw : Nat → α

inductive Op (α : Type) where
  | set (p : Nat) (v : α)
  | initRaw (p : Nat) (r : α)
  | step (p : Nat) (δ : α)
  | assignRaw (p : Nat) (r : α)
  | register (p : Nat) (k : Kind α)

def Store.read (s : Store α) (p : Nat) : α := (s.kind p).transform (s.raw p)

def Store.setRaw (s : Store α) (p : Nat) (r : α) : Store α :=
  { s with raw := fun q => if q = p then r else s.raw q }

/-- `Module.initialize(raw_p = r)` for a tensor `r`: the generated guard decides whether it raises;
returns the new store and `true` when a `RuntimeError` was raised (store unchanged). -/
def Store.initRaw (s : Store α) (p : Nat) (r : α) : Store α × Bool :=
  if initTensorRaises true true (decide ((s.kind p).CheckRaw r)) then (s, true) else (s.setRaw p r, false)

/-- IEEE semantics of the inverse transform: a `log` of a negative argument is NaN, NaN fails every
comparison of `check_raw`, so the setter raises.  (`0 ≤ a` is false for a NaN argument as well.) -/
def Kind.InverseDefined (k : Kind α) (v : α) : Prop := ∀ a ∈ k.inverseLogArgs v, ((0 : Nat) : α) ≤ a

instance (k : Kind α) (v : α) : Decidable (k.InverseDefined v) := by
  unfold Kind.InverseDefined; infer_instance

def Store.apply (s : Store α) : Op α → Store α × Bool
  | .set p v =>
      if (s.kind p).InverseDefined v then s.initRaw p ((s.kind p).inverse v) else (s, true)
  | .initRaw p r => s.initRaw p r
  | .step p δ => (s.setRaw p (s.raw p + δ), false)
  | .assignRaw p r => (s.setRaw p r, false)
  | .register p k =>
      if k.InitRejects then (s, true) else ({ s with kind := fun q => if q = p then k else s.kind q }, false)

def Store.run (s : Store α) : List (Op α) → Store α
  | [] => s
  | op :: ops => (s.apply op).1.run ops

/-! ## Dotted names: module trees and `Module.initialize(**kwargs)`

A module tree gives meaning to the (possibly dotted) names handed to `initialize`: a plain name of a module is
either a public property with a setter (`lengthscale` → `.set p`) or a registered raw parameter
(`raw_lengthscale` → `.initRaw p`); a dotted name `a.b.x` descends through `_modules` (`nn.ModuleList` children are
addressed by their index segment).  Name segments are `Nat` ids (the harness interns the strings).

* `resolve` / `assign1` — the **specification** of one assignment `initialize(**{name: v})`;
* `initFold` — the specification of `initialize(**kwargs)`: the left fold of the single assignments in
  `kwargs` order, stopping at the first one that raises (what it stored before stays stored);
* `Init.exec prog` — the semantics of the program **regenerated** from `Module.initialize`'s body
  (`Gen/InitDispatch.lean`, syntax `Model/InitIR.lean`).  `Props/C17.lean :: gen_initialize_eq_fold` proves
  `Init.exec Gen.InitDispatch.initializeProg = initFold`.
-/

abbrev Path := List Nat

/-- what a plain name of one module denotes -/
inductive Target where
  | pub (p : Nat)   -- property with setter: `setattr(self, name, v)` = `_set_<p>(v)` = `Op.set p v`
  | raw (p : Nat)   -- registered parameter: bound check + copy = `Op.initRaw p v`
  deriving Repr, DecidableEq

/-- a tree of modules as `initialize` sees it -/
inductive Node where
  | none                                                       -- no such sub-module (or not a gpytorch `Module`)
  | list (elem : Nat → Node)                                   -- `nn.ModuleList` (children by index segment)
  | mod (leaf : Nat → Option Target) (child : Nat → Node)      -- gpytorch `Module`: plain names, `_modules`

def Node.child : Node → Nat → Node
  | .none, _ => .none
  | .list e, i => e i
  | .mod _ c, x => c x

def Node.isList : Node → Bool
  | .list _ => true
  | _ => false

def Node.isNone : Node → Bool
  | .none => true
  | _ => false

/-- plain-name lookup (`hasattr(self, name)` and what kind of attribute it is) -/
def Node.leafOf : Node → Path → Option Target
  | .mod leaf _, [x] => leaf x
  | _, _ => Option.none

/-- follow an access path of sub-module names -/
def Node.descend : Node → Path → Node
  | n, [] => n
  | n, x :: rest => (n.child x).descend rest

/-- **specification**: the parameter a (dotted) name denotes, seen from module `n`; `none` = the call raises
(`AttributeError` unknown name / module, `ValueError`/`IndexError` for a malformed `ModuleList` address) -/
def resolve : Node → Path → Option Target
  | _, [] => Option.none
  | n, [x] => n.leafOf [x]
  | n, x :: y :: rest =>
    match n with
    | .mod _ child =>
      match child x with
      | .none => Option.none
      | .list elem =>
        (match rest with
         | [] => Option.none
         | _ :: _ => resolve (elem y) rest)
      | .mod l c => resolve (.mod l c) (y :: rest)
    | _ => Option.none

/-- leaf action of `initialize` on a resolved name -/
def Store.assignTarget (s : Store α) (t : Option Target) (v : α) : Store α × Bool :=
  match t with
  | some (.pub p) => s.apply (.set p v)
  | some (.raw p) => s.apply (.initRaw p v)
  | Option.none => (s, true)

/-- **specification** of `initialize(**{name: v})` -/
def assign1 (n : Node) (s : Store α) (kv : Path × α) : Store α × Bool :=
  s.assignTarget (resolve n kv.1) kv.2

/-- **specification** of `initialize(**kwargs)`: fold of the single assignments, in order, up to the first raise -/
def initFold (n : Node) : Store α → List (Path × α) → Store α × Bool
  | s, [] => (s, false)
  | s, kv :: rest =>
    let r := assign1 n s kv
    if r.2 then r else initFold n r.1 rest

/-- **specification** of what parameter `q` reads after `initialize(**kwargs)` when nothing raises: the value of the
LAST pair of `kwargs` that denotes `q` (a public name stores the value itself, a raw name stores the raw value, which
reads through the transform); `none` = no pair denotes `q` -/
def lastRead (n : Node) (kind : Nat → Kind α) : List (Path × α) → Nat → Option α
  | [], _ => Option.none
  | kv :: rest, q =>
    match lastRead n kind rest q with
    | some v => some v
    | Option.none =>
      match resolve n kv.1 with
      | some (.pub p) => if p = q then some kv.2 else Option.none
      | some (.raw p) => if p = q then some ((kind q).transform kv.2) else Option.none
      | Option.none => Option.none

namespace Init
open InitIR

/-- local variables of one loop iteration -/
structure Loc (α : Type) where
  name : Path
  val : α
  mod : Node                   -- `module`
  ref : Path                   -- access path of `module` from `self` (its identity as key of the pending table)
  idx : Option Nat             -- `idx`
  regs : List (Nat × Bool)     -- the Boolean registers of the `if` conditions
  skip : Bool                  -- `continue` was executed

/-- state that survives the iterations -/
structure St (α : Type) where
  store : Store α
  pending : List (Path × List (Path × α))    -- the dict of deferred child kwargs, in insertion order
  raised : Bool

def guardHolds (regs : List (Nat × Bool)) (g : List (Nat × Bool)) : Bool :=
  g.all fun rb => regs.lookup rb.1 == some rb.2

def evalCond (l : Loc α) : Cond → Bool
  | .dotted => decide (2 ≤ l.name.length)
  | .moduleIsList => l.mod.isList

/-- `D[key] = [kv]` (overwrite) / `D.setdefault(key, {})[name] = v` (merge), keeping dict insertion order -/
def upsert (merge : Bool) (key : Path) (kv : Path × α) :
    List (Path × List (Path × α)) → List (Path × List (Path × α))
  | [] => [(key, [kv])]
  | (k, kws) :: rest =>
    if k = key then (k, if merge then kws ++ [kv] else [kv]) :: rest
    else (k, kws) :: upsert merge key kv rest

abbrev Call (α : Type) := Node → Store α → List (Path × α) → Store α × Bool

def raise (l : Loc α) (st : St α) : Loc α × St α := (l, { st with raised := true })

/-- run the pending child calls in insertion order, stopping at the first raise -/
def flush (self : Node) (call : Call α) : Store α → List (Path × List (Path × α)) → Store α × Bool
  | s, [] => (s, false)
  | s, (ref, kws) :: rest =>
    let r := call (self.descend ref) s kws
    if r.2 then r else flush self call r.1 rest

def step (self : Node) (call : Call α) (a : Act) (l : Loc α) (st : St α) : Loc α × St α :=
  match a with
  | .intToFloat => (l, st)
  | .validatePrior => (l, st)
  | .test r c => ({ l with regs := (r, evalCond l c) :: l.regs }, st)
  | .splitModule =>
    match l.name with
    | x :: y :: tl =>
      if (self.child x).isNone then raise l st
      else ({ l with mod := self.child x, ref := [x], name := y :: tl }, st)
    | _ => raise l st
  | .splitIndex =>
    match l.name with
    | i :: y :: tl => ({ l with idx := some i, name := y :: tl }, st)
    | _ => raise l st
  | .selectIndexed =>
    match l.idx with
    | some i =>
      if l.mod.isList && !(l.mod.child i).isNone then ({ l with mod := l.mod.child i, ref := l.ref ++ [i] }, st)
      else raise l st
    | Option.none => raise l st
  | .callChild indexed =>
    let target : Node :=
      if indexed then
        (match l.idx with
         | some i => if l.mod.isList then l.mod.child i else .none
         | Option.none => .none)
      else l.mod
    let r := call target st.store [(l.name, l.val)]
    (l, { st with store := r.1, raised := r.2 })
  | .deferStore merge => (l, { st with pending := upsert merge l.ref (l.name, l.val) st.pending })
  | .continue_ => ({ l with skip := true }, st)
  | .leaf =>
    let r := st.store.assignTarget (self.leafOf l.name) l.val
    (l, { st with store := r.1, raised := r.2 })
  | .flushDeferred =>
    let r := flush self call st.store st.pending
    (l, { st with store := r.1, pending := [], raised := r.2 })

def runStmts (self : Node) (call : Call α) : List Stmt → Loc α → St α → Loc α × St α
  | [], l, st => (l, st)
  | s :: rest, l, st =>
    if st.raised || l.skip then (l, st)
    else if guardHolds l.regs s.guard then
      let r := step self call s.act l st
      runStmts self call rest r.1 r.2
    else runStmts self call rest l st

/-- one iteration of `for name, val in kwargs.items()` -/
def iter (self : Node) (call : Call α) (body : List Stmt) (st : St α) (kv : Path × α) : St α :=
  (runStmts self call body ⟨kv.1, kv.2, .none, [], Option.none, [], false⟩ st).2

def loop (self : Node) (call : Call α) (body : List Stmt) : St α → List (Path × α) → St α
  | st, [] => st
  | st, kv :: rest => if st.raised then st else loop self call body (iter self call body st kv) rest

/-- statements after the loop: only unguarded `flushDeferred` is in the vocabulary -/
def runEpilogue (self : Node) (call : Call α) : List Stmt → St α → St α
  | [], st => st
  | s :: rest, st =>
    if st.raised then st
    else match s.guard, s.act with
      | [], .flushDeferred =>
        let r := flush self call st.store st.pending
        runEpilogue self call rest { st with store := r.1, pending := [], raised := r.2 }
      | _, _ => { st with raised := true }

/-- `self.initialize(**kwargs)` with `fuel` bounding the nesting of child calls -/
def execFuel (prog : Program) : Nat → Node → Store α → List (Path × α) → Store α × Bool
  | 0, _, s, _ => (s, true)
  | fuel + 1, self, s, kvs =>
    match self with
    | .mod _ _ =>
      let st := loop self (execFuel prog fuel) prog.body ⟨s, [], false⟩ kvs
      let st := runEpilogue self (execFuel prog fuel) prog.epilogue st
      (st.store, st.raised)
    | _ => (s, true)

/-- longest name of a kwargs list (every child call receives strictly shorter names) -/
def maxLen : List (Path × α) → Nat
  | [] => 0
  | kv :: rest => max kv.1.length (maxLen rest)

/-- semantics of the translated `Module.initialize` -/
def exec (prog : Program) (self : Node) (s : Store α) (kvs : List (Path × α)) : Store α × Bool :=
  execFuel prog (maxLen kvs + 1) self s kvs

/-- the Tensor / float branch of the leaf chain: statements in source order; the bound check (`raises` = the
generated guard as a function of `check_raw(val)`) tests the value handed in, `store` writes it -/
def runLeafSteps (raises : Bool → Bool) : List LeafStep → Store α → Nat → α → Store α × Bool
  | [], s, _, _ => (s, false)
  | .check :: rest, s, p, r =>
    if raises (decide ((s.kind p).CheckRaw r)) then (s, true) else runLeafSteps raises rest s p r
  | .store :: rest, s, p, r => runLeafSteps raises rest (s.setRaw p r) p r

end Init

end ParamStore

/-
L4 store model of constrained parameters (`gpytorch.Module` with `register_constraint`):
a store keeps, per parameter id, the constraint kind and the *raw* (unconstrained) value; the public value
is always read through `constraint.transform(raw)` (the `@property` of every module).

Operations (the ones the property C17 quantifies over):
* `set p v`       — public setter `module.p = v` = `initialize(raw_p = constraint.inverse_transform(v))`;
* `initRaw p r`   — `module.initialize(raw_p = r)` with the bound check of `Module.initialize`;
* `step p δ`      — an optimiser step / any in-place update of the raw tensor (`raw += δ`, δ arbitrary);
* `assignRaw p r` — `module.raw_p.data = r` (no check at all);
* `register p k`  — `register_constraint("raw_p", k)` replacing the constraint (constructor may reject).

The formulas are the generated ones (`Gen.Constraints`), polymorphic in the scalar: executed at `Float` by
`drivers/C17.lean`, reasoned about at `ℝ` in `Props/C17.lean`.  Core Lean only.
-/
import GPVerif.Gen.Constraints

namespace ParamStore
open Gen.Constraints

inductive Kind (α : Type) where
  | interval (l u : α)
  | greaterThan (l : α)
  | positive
  | lessThan (u : α)

variable {α : Type} [Add α] [Sub α] [Mul α] [Div α] [Neg α] [NatCast α] [OfScientific α] [TransFn α]

def Kind.transform : Kind α → α → α
  | .interval l u, x => intervalTransform l u x
  | .greaterThan l, x => greaterThanTransform l x
  | .positive, x => positiveTransform x
  | .lessThan u, x => lessThanTransform u x

def Kind.inverse : Kind α → α → α
  | .interval l u, x => intervalInverse l u x
  | .greaterThan l, x => greaterThanInverse l x
  | .positive, x => positiveInverse x
  | .lessThan u, x => lessThanInverse u x

def Kind.inverseLogArgs : Kind α → α → List α
  | .interval l u, x => intervalInverseLogArgs l u x
  | .greaterThan l, x => greaterThanInverseLogArgs l x
  | .positive, x => positiveInverseLogArgs x
  | .lessThan u, x => lessThanInverseLogArgs u x

variable [LE α]

/-- `constraint.check(v)` on a constrained value. -/
def Kind.Check : Kind α → α → Prop
  | .interval l u, x => intervalCheck l u x
  | .greaterThan l, x => greaterThanCheck l x
  | .positive, x => positiveCheck x
  | .lessThan u, x => lessThanCheck u x

/-- `constraint.check_raw(r)` on a raw value. -/
def Kind.CheckRaw : Kind α → α → Prop
  | .interval l u, x => intervalCheckRaw l u x
  | .greaterThan l, x => greaterThanCheckRaw l x
  | .positive, x => positiveCheckRaw x
  | .lessThan u, x => lessThanCheckRaw u x

/-- the constructor of the constraint raises (`ValueError`: empty interval). -/
def Kind.InitRejects : Kind α → Prop
  | .interval l u => intervalInitRejects l u
  | _ => False

variable [DecidableLE α]

instance (k : Kind α) (x : α) : Decidable (k.Check x) := by
  cases k <;> simp only [Kind.Check, intervalCheck, greaterThanCheck, positiveCheck, lessThanCheck, GE.ge] <;>
    infer_instance

instance (k : Kind α) (x : α) : Decidable (k.CheckRaw x) := by
  cases k <;> simp only [Kind.CheckRaw, intervalCheckRaw, greaterThanCheckRaw, positiveCheckRaw,
    lessThanCheckRaw, GE.ge] <;> infer_instance

instance (k : Kind α) : Decidable k.InitRejects := by
  cases k <;> simp only [Kind.InitRejects, intervalInitRejects, GE.ge] <;> infer_instance

structure Store (α : Type) where
  kind : Nat → Kind α
  raw : Nat → α

inductive Op (α : Type) where
  | set (p : Nat) (v : α)
  | initRaw (p : Nat) (r : α)
  | step (p : Nat) (δ : α)
  | assignRaw (p : Nat) (r : α)
  | register (p : Nat) (k : Kind α)

def Store.read (s : Store α) (p : Nat) : α := (s.kind p).transform (s.raw p)

def Store.setRaw (s : Store α) (p : Nat) (r : α) : Store α :=
  { s with raw := fun q => if q = p then r else s.raw q }

/-- `Module.initialize(raw_p = r)` for a tensor `r`: the generated guard decides whether it raises;
returns the new store and `true` when a `RuntimeError` was raised (store unchanged). -/
def Store.initRaw (s : Store α) (p : Nat) (r : α) : Store α × Bool :=
  if initTensorRaises true true (decide ((s.kind p).CheckRaw r)) then (s, true) else (s.setRaw p r, false)

/-- IEEE semantics of the inverse transform: a `log` of a negative argument is NaN, NaN fails every
comparison of `check_raw`, so the setter raises.  (`0 ≤ a` is false for a NaN argument as well.) -/
def Kind.InverseDefined (k : Kind α) (v : α) : Prop := ∀ a ∈ k.inverseLogArgs v, ((0 : Nat) : α) ≤ a

instance (k : Kind α) (v : α) : Decidable (k.InverseDefined v) := by
  unfold Kind.InverseDefined; infer_instance

def Store.apply (s : Store α) : Op α → Store α × Bool
  | .set p v =>
      if (s.kind p).InverseDefined v then s.initRaw p ((s.kind p).inverse v) else (s, true)
  | .initRaw p r => s.initRaw p r
  | .step p δ => (s.setRaw p (s.raw p + δ), false)
  | .assignRaw p r => (s.setRaw p r, false)
  | .register p k =>
      if k.InitRejects then (s, true) else ({ s with kind := fun q => if q = p then k else s.kind q }, false)

def Store.run (s : Store α) : List (Op α) → Store α
  | [] => s
  | op :: ops => (s.apply op).1.run ops

end ParamStore

/-
L1 tensor index algebra (core Lean only): shapes, broadcasting, multi-index ↔ flat offset, and the
view / expand / unsqueeze / transpose / select / repeat operations as *index maps*.

Representation.  Shapes and multi-indices are stored **innermost-first** (`RShape`, `RIdx`: the list
`[m, n, b₁, b₀]` stands for torch's `(b₀, b₁, n, m)`), so that torch's right-aligned broadcasting is a
structural zip and trailing matrix dimensions are the head of the list.  The drivers reverse at the
protocol boundary (`ofTorch` / `toTorch`); the normal-order API (`broadcastShapes`) is defined through it.

A tensor is its shape together with the function from multi-indices to entries (`T α`); `ofFlat` /
`toFlat` connect it with row-major storage, which is what the drivers ship and what is compared with
torch on `arange` tensors.
-/

namespace Bcast

abbrev RShape := List Nat
abbrev RIdx := List Nat

def ofTorch (s : List Nat) : RShape := s.reverse
def toTorch (s : RShape) : List Nat := s.reverse

def numel : RShape → Nat
  | [] => 1
  | d :: ds => d * numel ds

/-- `idx` is a valid multi-index of `shape` (same rank, every coordinate in range). -/
def InRange : RIdx → RShape → Prop
  | [], [] => True
  | i :: is, d :: ds => i < d ∧ InRange is ds
  | _, _ => False

instance : (idx : RIdx) → (s : RShape) → Decidable (InRange idx s)
  | [], [] => isTrue trivial
  | i :: is, d :: ds =>
    match Nat.decLt i d, instDecidableInRange is ds with
    | isTrue h, isTrue h' => isTrue ⟨h, h'⟩
    | isFalse h, _ => isFalse fun hh => h hh.1
    | _, isFalse h' => isFalse fun hh => h' hh.2
  | [], _ :: _ => isFalse (by simp [InRange])
  | _ :: _, [] => isFalse (by simp [InRange])

/-- Row-major flat offset (innermost coordinate is the head and moves fastest). -/
def flat : RShape → RIdx → Nat
  | d :: ds, i :: is => i + d * flat ds is
  | _, _ => 0

def unflat : RShape → Nat → RIdx
  | [], _ => []
  | d :: ds, k => (k % d) :: unflat ds (k / d)

/-- All valid multi-indices of a shape in row-major order. -/
def allIdx (s : RShape) : List RIdx := (List.range (numel s)).map (unflat s)

/-! ### broadcasting -/

def bdim (a b : Nat) : Option Nat :=
  if a = b then some a else if a = 1 then some b else if b = 1 then some a else none

/-- Right-aligned (here: head-aligned) broadcast of two shapes. -/
def bcastR : RShape → RShape → Option RShape
  | [], bs => some bs
  | a :: as, [] => some (a :: as)
  | a :: as, b :: bs =>
    match bdim a b, bcastR as bs with
    | some d, some r => some (d :: r)
    | _, _ => none

/-- torch.broadcast_shapes on normal-order shapes. -/
def broadcastShapes (s t : List Nat) : Option (List Nat) :=
  (bcastR (ofTorch s) (ofTorch t)).map toTorch

def bcastR3 (a b c : RShape) : Option RShape := (bcastR a b).bind (bcastR · c)

/-- Broadcast multi-index (valid in the broadcast shape) ↦ multi-index of the source of shape `src`:
extra leading dimensions are dropped, size-1 dimensions are read at 0. -/
def bidxR : RShape → RIdx → RIdx
  | [], _ => []
  | _ :: _, [] => []
  | d :: ds, i :: is => (if d = 1 then 0 else i) :: bidxR ds is

/-! ### tensors as index functions -/

structure T (α : Type) where
  shape : RShape
  get : RIdx → α

namespace T
variable {α β γ : Type}

def ofFlat [Inhabited α] (shape : RShape) (data : Array α) : T α :=
  ⟨shape, fun idx => data[flat shape idx]!⟩

def toFlat (t : T α) : List α := (allIdx t.shape).map t.get

def arange (shape : RShape) : T Nat := ⟨shape, flat shape⟩

/-- `t.expand(newShape)` -/
def expand (t : T α) (s : RShape) : T α := ⟨s, fun idx => t.get (bidxR t.shape idx)⟩

/-- `t.view(newShape)` / `reshape` of a contiguous tensor -/
def view (t : T α) (s : RShape) : T α := ⟨s, fun idx => t.get (unflat t.shape (flat s idx))⟩

def insertAt (k : Nat) (x : Nat) (l : List Nat) : List Nat := l.take k ++ x :: l.drop k

/-- `t.unsqueeze(-(k+1))`: a new size-1 dimension at position `k` counted from the innermost end. -/
def unsqueeze (t : T α) (k : Nat) : T α := ⟨insertAt k 1 t.shape, fun idx => t.get (idx.eraseIdx k)⟩

def swap01 : List Nat → List Nat
  | a :: b :: r => b :: a :: r
  | l => l

/-- `t.transpose(-1, -2)` / `.mT` -/
def mT (t : T α) : T α := ⟨swap01 t.shape, fun idx => t.get (swap01 idx)⟩

/-- `t.select(dim, i)` with `dim` counted from the innermost end. -/
def select (t : T α) (k i : Nat) : T α := ⟨t.shape.eraseIdx k, fun idx => t.get (insertAt k i idx)⟩

/-- `t.repeat(reps)` (`reps` innermost-first, same rank as `t`): coordinate `i` reads `i % d`. -/
def modIdx : RShape → RIdx → RIdx
  | d :: ds, i :: is => (i % d) :: modIdx ds is
  | _, _ => []
def mulShape : RShape → List Nat → RShape
  | d :: ds, r :: rs => (d * r) :: mulShape ds rs
  | _, _ => []
def «repeat» (t : T α) (reps : List Nat) : T α := ⟨mulShape t.shape reps, fun idx => t.get (modIdx t.shape idx)⟩

/-- Elementwise binary operation with broadcasting (`a.op(b)`); `none` when the shapes do not broadcast. -/
def map2 (f : α → β → γ) (a : T α) (b : T β) : Option (T γ) :=
  (bcastR a.shape b.shape).map fun s => ⟨s, fun idx => f (a.get (bidxR a.shape idx)) (b.get (bidxR b.shape idx))⟩

/-- Sum over the `k` innermost dimensions (`t.view(*shape[:r-k], -1).sum(-1)`), written as view + sum. -/
def sumInner [Add α] [OfNat α 0] (t : T α) (k : Nat) : T α :=
  ⟨t.shape.drop k, fun idx => ((allIdx (t.shape.take k)).map fun inner => t.get (inner ++ idx)).foldr (· + ·) 0⟩

/-- The literal code shape of the reduction: `view(*outer, -1)` then `sum(-1)`. -/
def viewSumLast [Add α] [OfNat α 0] (t : T α) (k : Nat) : T α :=
  let inner := numel (t.shape.take k)
  let v := t.view (inner :: t.shape.drop k)
  ⟨t.shape.drop k, fun idx => ((List.range inner).map fun j => v.get (j :: idx)).foldr (· + ·) 0⟩

end T

/-! ### basic facts -/

theorem numel_pos_of_inRange : ∀ {idx : RIdx} {s : RShape}, InRange idx s → 0 < numel s
  | [], [], _ => by simp [numel]
  | i :: is, d :: ds, h => by
    have := numel_pos_of_inRange h.2
    have : 0 < d := by have := h.1; omega
    simp only [numel]; exact Nat.mul_pos ‹_› ‹_›
  | [], _ :: _, h => by simp [InRange] at h
  | _ :: _, [], h => by simp [InRange] at h

theorem inRange_length : ∀ {idx : RIdx} {s : RShape}, InRange idx s → idx.length = s.length
  | [], [], _ => rfl
  | i :: is, d :: ds, h => by simp [inRange_length h.2]
  | [], _ :: _, h => by simp [InRange] at h
  | _ :: _, [], h => by simp [InRange] at h

theorem flat_lt : ∀ {idx : RIdx} {s : RShape}, InRange idx s → flat s idx < numel s
  | [], [], _ => by simp [flat, numel]
  | i :: is, d :: ds, h => by
    have ih := flat_lt h.2
    have h1 := h.1
    simp only [flat, numel]
    calc i + d * flat ds is < d + d * flat ds is := by omega
      _ = d * (flat ds is + 1) := by rw [Nat.mul_add]; omega
      _ ≤ d * numel ds := Nat.mul_le_mul_left d ih
  | [], _ :: _, h => by simp [InRange] at h
  | _ :: _, [], h => by simp [InRange] at h

theorem unflat_inRange : ∀ (s : RShape) (k : Nat), k < numel s → InRange (unflat s k) s
  | [], _, _ => trivial
  | d :: ds, k, h => by
    simp only [numel] at h
    have hd : 0 < d := by
      rcases Nat.eq_zero_or_pos d with h0 | h0
      · subst h0; simp at h
      · exact h0
    refine ⟨Nat.mod_lt _ hd, unflat_inRange ds (k / d) ?_⟩
    exact (Nat.div_lt_iff_lt_mul hd).mpr (by rw [Nat.mul_comm]; exact h)

theorem flat_unflat : ∀ (s : RShape) (k : Nat), k < numel s → flat s (unflat s k) = k
  | [], k, h => by simp [numel] at h; simp [flat, h]
  | d :: ds, k, h => by
    simp only [numel] at h
    have hd : 0 < d := by
      rcases Nat.eq_zero_or_pos d with h0 | h0
      · subst h0; simp at h
      · exact h0
    have hk : k / d < numel ds := (Nat.div_lt_iff_lt_mul hd).mpr (by rw [Nat.mul_comm]; exact h)
    simp only [unflat, flat, flat_unflat ds (k / d) hk]
    exact Nat.mod_add_div k d

theorem unflat_flat : ∀ {idx : RIdx} {s : RShape}, InRange idx s → unflat s (flat s idx) = idx
  | [], [], _ => rfl
  | i :: is, d :: ds, h => by
    have h1 := h.1
    simp only [flat, unflat]
    have hm : (i + d * flat ds is) % d = i := by
      rw [Nat.add_mul_mod_self_left]; exact Nat.mod_eq_of_lt h1
    have hq : (i + d * flat ds is) / d = flat ds is := by
      rw [Nat.add_mul_div_left _ _ (by omega : 0 < d), Nat.div_eq_of_lt h1, Nat.zero_add]
    rw [hm, hq, unflat_flat h.2]
  | [], _ :: _, h => by simp [InRange] at h
  | _ :: _, [], h => by simp [InRange] at h

end Bcast

/-
C09 — structure-exploiting kernels and their prediction strategies: executable model (L1 + L2).

All matrix definitions are compositions of the `DMat` operations (which are materialisations of Mathlib
`Matrix` expressions), so the object `drivers/C09.lean` runs over `ℚ` is the object `Props/C09.lean`
talks about, for every field.

Source map (gpytorch):
* `kron`, `lcm`            — kernels/multitask_kernel.py (`KroneckerProductLinearOperator(covar_x, covar_i)`),
                              kernels/lcm_kernel.py
* `indexCovar`, `hadamardTask` — kernels/index_kernel.py (`covar_factor covar_factorᵀ + diag(var)`, gathered at the
                              task indices, `.mul` with the data kernel)
* `toeplitz`, `gridKron`   — kernels/grid_kernel.py + utils/grid.py (`create_data_from_grid`: first dimension fastest)
* `nystrom*`, `sgpr*`      — kernels/inducing_point_kernel.py, models/exact_prediction_strategies.py (SGPR),
                              mlls/inducing_point_kernel_added_loss_term.py
* `rff*`                   — kernels/rff_kernel.py, RFFPredictionStrategy
* `interp*`, `wiski*`      — kernels/grid_interpolation_kernel.py, InterpolatedPredictionStrategy
-/
import GPVerif.Model.DMat

open Matrix

namespace Structured

variable {α : Type}

/-! ### Kronecker product in interleaved (data-major, task-minor) order -/

section kron
variable {n m t s : Nat}

/-- entry `((i,a),(j,b))` at flat position `(i·t + a, j·s + b)` is `A i j * B a b` -/
def kronM [Mul α] (A : Matrix (Fin n) (Fin m) α) (B : Matrix (Fin t) (Fin s) α) :
    Matrix (Fin (n * t)) (Fin (m * s)) α :=
  fun p q => A p.divNat q.divNat * B p.modNat q.modNat

/-- `KroneckerProductLinearOperator(A, B).to_dense()` -/
def kron [Mul α] (A : DMat n m α) (B : DMat t s α) : DMat (n * t) (m * s) α :=
  DMat.ofMatrix (kronM A.toMatrix B.toMatrix)

/-- `LCMKernel.forward`: `res = first; res += others` -/
def lcmKernel [Mul α] [Add α] (hd : DMat n m α × DMat t s α) (tl : List (DMat n m α × DMat t s α)) :
    DMat (n * t) (m * s) α :=
  tl.foldl (fun acc p => acc.add (kron p.1 p.2)) (kron hd.1 hd.2)

end kron

/-! ### index kernel -/

section index
variable {n m t r : Nat}

/-- `IndexKernel._eval_covar_matrix`: `covar_factor @ covar_factorᵀ + diag_embed(var)` -/
def indexCovar [Mul α] [AddCommMonoid α] (F : DMat t r α) (v : Fin t → α) : DMat t t α :=
  (F.mul F.transpose).add (DMat.diagonal v)

/-- `IndexKernel.forward(i1, i2)`: the task covariance gathered at the index vectors -/
def indexGather (B : DMat t t α) (i1 : Fin n → Fin t) (i2 : Fin m → Fin t) : DMat n m α :=
  B.submatrix i1 i2

/-- Hadamard multitask kernel `covar_x.mul(covar_i)` -/
def hadamardTask [Mul α] (K : DMat n m α) (B : DMat t t α) (i1 : Fin n → Fin t) (i2 : Fin m → Fin t) :
    DMat n m α :=
  K.hadamard (indexGather B i1 i2)

end index

/-! ### grid kernel: Toeplitz per dimension, Kronecker across dimensions -/

section grid

/-- `ToeplitzLinearOperator(c)` for a symmetric Toeplitz matrix: entry `(i,j)` is `c[|i−j|]` -/
def toeplitz {n : Nat} (c : Fin n → α) : DMat n n α :=
  DMat.ofMatrix (Matrix.of fun i j =>
    c ⟨if i.1 ≤ j.1 then j.1 - i.1 else i.1 - j.1, by have := i.2; have := j.2; split <;> omega⟩)

/-- a square matrix of any size -/
abbrev Sq (α : Type) := Σ n : Nat, DMat n n α

/-- `KroneckerProductLinearOperator(*covars[::-1])` for `covars = [K₀, K₁, …]`: `… ⊗ K₁ ⊗ K₀`, i.e. the
first grid dimension varies fastest — the order of `create_data_from_grid`. -/
def gridKron [Mul α] [Zero α] [One α] : List (Sq α) → Sq α
  | [] => ⟨1, DMat.one⟩
  | K :: rest => ⟨(gridKron rest).1 * K.1, kron (gridKron rest).2 K.2⟩

/-- the same factors with the first grid dimension varying SLOWEST (`K₀ ⊗ K₁ ⊗ …`): the order in which
`Interpolation.interpolate` numbers the grid points (`index_coeff = ∏ sizes[i+1:]`). -/
def gridKronRowMajor [Mul α] [Zero α] [One α] : List (Sq α) → Sq α
  | [] => ⟨1, DMat.one⟩
  | K :: rest => ⟨K.1 * (gridKronRowMajor rest).1, kron K.2 (gridKronRowMajor rest).2⟩

/-- flat position of the grid point with per-dimension indices `idx` in `create_data_from_grid` order -/
def gridFlat : List Nat → List Nat → Nat
  | n :: ns, i :: is => gridFlat ns is * n + i
  | _, _ => 0

/-- per-dimension indices of flat position `p` in `create_data_from_grid` order -/
def gridDigits : List Nat → Nat → List Nat
  | [], _ => []
  | n :: ns, p => (p % n) :: gridDigits ns (p / n)

/-- flat position in row-major order (first dimension slowest): `Σ idxᵢ · ∏ sizes[i+1:]` -/
def rowMajorFlat : List Nat → List Nat → Nat
  | _ :: ns, i :: is => i * ns.prod + rowMajorFlat ns is
  | _, _ => 0

/-- entry of a `Sq` at natural-number positions (0 outside) -/
def Sq.get [Zero α] (M : Sq α) (p q : Nat) : α :=
  if h : p < M.1 ∧ q < M.1 then M.2.toMatrix ⟨p, h.1⟩ ⟨q, h.2⟩ else 0

/-- `∏ₖ Kₖ[iₖ, jₖ]`: the dense meaning of a product kernel on a grid -/
def gridProd [Zero α] [One α] [Mul α] : List (Sq α) → List Nat → List Nat → α
  | K :: Ks, i :: is, j :: js => gridProd Ks is js * K.get i j
  | _, _, _ => 1

end grid

/-! ### dense Gaussian conditional (the "default dense" meaning every strategy is compared with) -/

section cond
variable {n ns : Nat}

/-- `K*x A⁻¹ r` -/
def condMean [Mul α] [AddCommMonoid α] (Ksx : DMat ns n α) (Ainv : DMat n n α) (r : DMat n 1 α) : DMat ns 1 α :=
  Ksx.mul (Ainv.mul r)

/-- `K** − K*x A⁻¹ Kx*` -/
def condCovar [Mul α] [AddCommMonoid α] [Sub α] (Kss : DMat ns ns α) (Ksx : DMat ns n α) (Ainv : DMat n n α) :
    DMat ns ns α :=
  Kss.sub (Ksx.mul (Ainv.mul Ksx.transpose))

/-- dense conditional of the joint `[[K+N, Kxs],[Ksx, Kss]]` given the residual `r = y − m(X)`; the inverse is
the certified one. -/
def conditional? [Field α] [DecidableEq α] (K N : DMat n n α) (Ksx : DMat ns n α) (Kss : DMat ns ns α)
    (r : DMat n 1 α) : Option (DMat ns 1 α × DMat ns ns α) :=
  match DMat.inv? (K.add N) with
  | none => none
  | some Ainv => some (condMean Ksx Ainv r, condCovar Kss Ksx Ainv)

end cond

/-! ### Nyström / SGPR -/

section sgpr
variable {n m ns : Nat}

/-- `k_ux1.matmul(self._inducing_inv_root)` -/
def nystromRoot [Mul α] [AddCommMonoid α] (Kxz : DMat n m α) (R : DMat m m α) : DMat n m α := Kxz.mul R

/-- `LowRankRootLinearOperator(L)` = `L Lᵀ` -/
def lowRank [Mul α] [AddCommMonoid α] {k : Nat} (L : DMat n k α) : DMat n n α := L.mul L.transpose

/-- `x1 ≠ x2` branch of `_get_covariance` -/
def nystromCross [Mul α] [AddCommMonoid α] (K1z : DMat n m α) (K2z : DMat ns m α) (R : DMat m m α) : DMat n ns α :=
  (K1z.mul R).mul (K2z.mul R).transpose

/-- `(base_kernel(x, x, diag=True) − covar.diagonal()).clamp(0, inf)` -/
def diagCorrection [Sub α] [Zero α] [Max α] (kdiag : Fin n → α) (Q : DMat n n α) : Fin n → α :=
  fun i => max 0 (kdiag i - Q.diag i)

/-- `x1 = x2` branch of `_get_covariance` in eval mode, parameterised by `sgpr_diagonal_correction` -/
def nystromEval [Field α] [Max α] (corr : Bool) (kdiag : Fin n → α) (Kxz : DMat n m α) (R : DMat m m α) :
    DMat n n α :=
  let Q := lowRank (nystromRoot Kxz R)
  if corr then Q.add (DMat.diagonal (diagCorrection kdiag Q)) else Q

/-- argument of `chol_factor`: `I + Rxᵀ D⁻¹ Rx` -/
def sgprCapacitance [Field α] (Rx : DMat n m α) (dinv : Fin n → α) : DMat m m α :=
  DMat.one.add (Rx.transpose.mul ((DMat.diagonal dinv).mul Rx))

/-- the code's `inverse`: `D⁻¹ + (−W) Wᵀ` with `W = D⁻¹ Rx C` (`woodbury_term`), `C = chol⁻ᵀ` -/
def sgprInverse [Field α] (Rx : DMat n m α) (dinv : Fin n → α) (C : DMat m m α) : DMat n n α :=
  let W := ((DMat.diagonal dinv).mul Rx).mul C
  (DMat.diagonal dinv).add (W.neg.mul W.transpose)

/-- the same with the certified inverse of the capacitance matrix in place of `C Cᵀ` (what is executed in ℚ) -/
def sgprInverseExact [Field α] (Rx : DMat n m α) (dinv : Fin n → α) (Minv : DMat m m α) : DMat n n α :=
  let DR := (DMat.diagonal dinv).mul Rx
  (DMat.diagonal dinv).sub (DR.mul (Minv.mul DR.transpose))

/-- `covar_cache = rootᵀ @ (inverse @ root)` -/
def sgprCache [Field α] (Rx : DMat n m α) (inverse : DMat n n α) : DMat m m α :=
  Rx.transpose.mul (inverse.mul Rx)

/-- `test_test_covar − L (covar_cache Lᵀ)` -/
def sgprPredCovar [Field α] (Kss : DMat ns ns α) (L : DMat ns m α) (cache : DMat m m α) : DMat ns ns α :=
  Kss.sub (L.mul (cache.mul L.transpose))

/-- predictive mean through the default `mean_cache` with the `MatmulLinearOperator` cross term `L Rxᵀ` -/
def sgprPredMean [Field α] (L : DMat ns m α) (Rx : DMat n m α) (Ainv : DMat n n α) (r : DMat n 1 α) : DMat ns 1 α :=
  (L.mul Rx.transpose).mul (Ainv.mul r)

/-- `InducingPointKernelAddedLossTerm.loss`: `−0.5 · Σ (diag(K) − diag(Q)) / noise_diag` -/
def titsiasAddedLoss [Field α] (kdiag qdiag noise : Fin n → α) : α :=
  -(1 / 2) * ∑ i, (kdiag i - qdiag i) / noise i

end sgpr

/-! ### random Fourier features -/

section rff
variable {n ns k : Nat}

/-- `I − (Fᵀ A⁻¹ F)·c` -/
def rffInner [Field α] (c : α) (F : DMat n k α) (Ainv : DMat n n α) : DMat k k α :=
  DMat.one.sub ((F.transpose.mul (Ainv.mul F)).smul c)

/-- `RootLinearOperator(factor @ covar_cache)` with `factor = F*·√c` and `covar_cache = chol(inner)` -/
def rffPredCovar [Field α] (sqrtc : α) (Fs : DMat ns k α) (L : DMat k k α) : DMat ns ns α :=
  lowRank ((Fs.smul sqrtc).mul L)

/-- the same without the two square roots (what is executed in ℚ): `c · F* inner F*ᵀ` -/
def rffPredCovarExact [Field α] (c : α) (Fs : DMat ns k α) (inner : DMat k k α) : DMat ns ns α :=
  (Fs.mul (inner.mul Fs.transpose)).smul c

end rff

/-! ### interpolation (KISS-GP) -/

section interp
variable {n ns g c : Nat}

/-- dense `W` from `(interp_indices, interp_values)`: `W[i, u] = Σ_{j : idx i j = u} val i j` (the meaning of
`left_interp`) -/
def wDense [Field α] (idx : Fin n → Fin c → Nat) (val : Fin n → Fin c → α) : DMat n g α :=
  DMat.ofMatrix (Matrix.of fun i u => ∑ j, if idx i j = u.1 then val i j else 0)

/-- `InterpolatedLinearOperator(K_uu, W_l, W_r)` -/
def interpKernel [Field α] {m : Nat} (Wl : DMat n g α) (Kuu : DMat g g α) (Wr : DMat m g α) : DMat n m α :=
  (Wl.mul Kuu).mul Wr.transpose

/-- `mean_cache = K_uu · left_t_interp(W, A⁻¹ r)` -/
def interpMeanCache [Field α] (Kuu : DMat g g α) (W : DMat n g α) (Ainv : DMat n n α) (r : DMat n 1 α) : DMat g 1 α :=
  Kuu.mul (W.transpose.mul (Ainv.mul r))

/-- `left_interp(W*, cache)` -/
def interpApply [Field α] {k : Nat} (Ws : DMat ns g α) (cache : DMat g k α) : DMat ns k α := Ws.mul cache

/-- `covar_cache[1] = K_uu · left_t_interp(W, S)` with `S Sᵀ = A⁻¹` -/
def interpCovarCache [Field α] {k : Nat} (Kuu : DMat g g α) (W : DMat n g α) (S : DMat n k α) : DMat g k α :=
  Kuu.mul (W.transpose.mul S)

/-- fast_pred_var: `K** − (W* cache)(W* cache)ᵀ` -/
def interpPredCovarFast [Field α] {k : Nat} (Kss : DMat ns ns α) (Ws : DMat ns g α) (cache : DMat g k α) : DMat ns ns α :=
  Kss.sub (lowRank (interpApply Ws cache))

/-- fast_pred_samples: `(W* T)(W* T)ᵀ` with `T Tᵀ = K_uu − cache cacheᵀ` -/
def interpPredCovarSamples [Field α] {k : Nat} (Ws : DMat ns g α) (T : DMat g k α) : DMat ns ns α :=
  lowRank (interpApply Ws T)

/-- rows of `A` followed by rows of `B` (training data followed by fantasy data) -/
def vstack {nf k : Nat} (A : DMat n k α) (B : DMat nf k α) : DMat (n + nf) k α :=
  DMat.ofMatrix (Matrix.of fun i j => Fin.addCases (fun a => A.toMatrix a j) (fun b => B.toMatrix b j) i)

/-- WISKI `interp_inner_prod = wmat D⁻¹ wmatᵀ` (`wmat = Wᵀ`) -/
def wiskiInnerProd [Field α] (W : DMat n g α) (dinv : Fin n → α) : DMat g g α :=
  W.transpose.mul ((DMat.diagonal dinv).mul W)

/-- WISKI `interp_response_cache = wmat D⁻¹ (y − μ)` -/
def wiskiResponse [Field α] (W : DMat n g α) (dinv : Fin n → α) (r : DMat n 1 α) : DMat g 1 α :=
  W.transpose.mul ((DMat.diagonal dinv).mul r)

/-- fantasy update of both caches (`add_low_rank`, `+ fant_wmat (D_f⁻¹ (y_f − μ_f))`) -/
def wiskiUpdate [Field α] {nf : Nat} (P : DMat g g α) (resp : DMat g 1 α) (Wf : DMat nf g α) (dinvf : Fin nf → α)
    (rf : DMat nf 1 α) : DMat g g α × DMat g 1 α :=
  (P.add (wiskiInnerProd Wf dinvf), resp.add (wiskiResponse Wf dinvf rf))

/-- `fantasy_mean_cache = K m − K L (LᵀKL + I)⁻¹ Lᵀ K m` with `L Lᵀ = P`, `m = resp` -/
def wiskiMeanCache [Field α] {k : Nat} (Kuu : DMat g g α) (L : DMat g k α) (resp : DMat g 1 α) (Qinv : DMat k k α) :
    DMat g 1 α :=
  let M := Kuu.mul L
  let kr := Kuu.mul resp
  kr.sub (M.mul (Qinv.mul (L.transpose.mul kr)))

/-- `fantasy_covar_cache`, non-`fast_pred_var` branch: `inner_cache = M Q⁻¹ Mᵀ` with `M = K_uu L` -/
def wiskiInnerCache [Field α] {k : Nat} (Kuu : DMat g g α) (L : DMat g k α) (Qinv : DMat k k α) : DMat g g α :=
  (Kuu.mul L).mul (Qinv.mul (Kuu.mul L).transpose)

/-- the same without the root of `P` (what is executed in ℚ): `(I + K P)⁻¹ K m` -/
def wiskiMeanCacheExact [Field α] (Kuu : DMat g g α) (Tinv : DMat g g α) (resp : DMat g 1 α) : DMat g 1 α :=
  Tinv.mul (Kuu.mul resp)

/-- `I + K_uu P` -/
def wiskiT [Field α] (Kuu P : DMat g g α) : DMat g g α := DMat.one.add (Kuu.mul P)

end interp

/-! ### WISKI fantasy HISTORIES: `get_fantasy_model` called repeatedly on one (base) object

`get_fantasy_strategy` reads the two caches of the strategy it is called on and hands UPDATED caches to the new strategy.
The update must be out of place: the object it is called on keeps its caches, so a second, third, … fantasy model derived
from the same base object is again "base data ++ its own fantasy data" (and never sees the earlier fantasy targets). -/

section wiskiHistory
variable {g : Nat}

/-- the two WISKI caches a strategy object holds (`interp_inner_prod`, `interp_response_cache`) -/
structure WiskiState (g : Nat) (α : Type) where
  innerProd : DMat g g α
  response : DMat g 1 α

/-- one `get_fantasy_model(x_f, y_f)` request: fantasy interpolation matrix `W_f`, inverse fantasy noise, residual `y_f − μ_f` -/
structure FantasyReq (g : Nat) (α : Type) where
  nf : Nat
  Wf : DMat nf g α
  dinvf : Fin nf → α
  rf : DMat nf 1 α

/-- the caches of the base data `(W, D, r)` -/
def wiskiBase [Field α] {n : Nat} (W : DMat n g α) (dinv : Fin n → α) (r : DMat n 1 α) : WiskiState g α :=
  ⟨wiskiInnerProd W dinv, wiskiResponse W dinv r⟩

/-- `get_fantasy_strategy` as a transition of the object it is called on: `(caches of self AFTER the call, caches handed
to the new strategy)`.  Out of place: `self` is returned unchanged. -/
def wiskiFantasyStep [Field α] (self : WiskiState g α) (q : FantasyReq g α) : WiskiState g α × WiskiState g α :=
  let u := wiskiUpdate self.innerProd self.response q.Wf q.dinvf q.rf
  (self, ⟨u.1, u.2⟩)

/-- a history of requests all issued against the same object, for an arbitrary transition `step` (the hand-written one
above, or the one regenerated from the source): `(caches of the object after the history, caches of the new strategies)` -/
def wiskiFantasyHistory (step : WiskiState g α → FantasyReq g α → WiskiState g α × WiskiState g α)
    (self : WiskiState g α) : List (FantasyReq g α) → WiskiState g α × List (WiskiState g α)
  | [] => (self, [])
  | q :: qs =>
    let s1 := step self q
    let rest := wiskiFantasyHistory step s1.1 qs
    (rest.1, s1.2 :: rest.2)

/-- the caches recomputed from scratch on base data ++ the fantasy data of request `q` -/
def wiskiRecompute [Field α] {n : Nat} (W : DMat n g α) (dinv : Fin n → α) (r : DMat n 1 α) (q : FantasyReq g α) :
    WiskiState g α :=
  ⟨wiskiInnerProd (vstack W q.Wf) (Fin.addCases dinv q.dinvf), wiskiResponse (vstack W q.Wf) (Fin.addCases dinv q.dinvf) (vstack r q.rf)⟩

end wiskiHistory

/-! ### `GridInterpolationKernel._compute_grid`: which input entry each interpolated coordinate is

`_compute_grid(inputs, last_dim_is_batch)` flattens the `n × d` inputs into a list of points for
`Interpolation.interpolate`.  Ordinary mode: point `p` is row `p`, coordinate `c` is column `c`.  `last_dim_is_batch`
(additive structure, one 1-D kernel per input dimension): the inputs are TRANSPOSED first, so the `d·n` one-coordinate
points are column 0 of all rows, then column 1 of all rows, …: point `p = i·n + a` is entry `(a, i)`. -/

/-- `(row, column)` of the `n × d` input read as coordinate `c` of flattened point `p` -/
def computeGridSource (lastDimIsBatch : Bool) (n : Nat) (p c : Nat) : Nat × Nat :=
  if lastDimIsBatch then (p % n, p / n) else (p, c)

/-! ### copies of an SGPR model: object identity under `copy.deepcopy(x, memo)`

`InducingPointKernel` holds a REFERENCE to the model's likelihood (the added loss term reads its noise).  A deep copy of
the model must map the two references to one new object, which is what threading the `memo` dictionary does. -/

/-- how `__deepcopy__` treats one constructor argument -/
inductive CopyMode where
  /-- `copy.deepcopy(self.x, memo)` -/
  | memo
  /-- `copy.deepcopy(self.x)`: a private memo — always a new object -/
  | fresh
  /-- `self.x` passed on as it is -/
  | shared
  /-- anything else -/
  | other
  deriving DecidableEq, Repr

/-- state of one `deepcopy` traversal: the memo (old id ↦ new id) and the next unused object id -/
structure CopySt where
  memo : List (Nat × Nat)
  next : Nat

/-- copying one reference to object `id` -/
def copyRef (mode : CopyMode) (st : CopySt) (id : Nat) : Nat × CopySt :=
  match mode with
  | .memo =>
    match st.memo.lookup id with
    | some j => (j, st)
    | none => (st.next, ⟨(id, st.next) :: st.memo, st.next + 1⟩)
  | .fresh => (st.next, ⟨st.memo, st.next + 1⟩)
  | _ => (id, st)

/-- a named Boolean fact of a generated table (`false` when absent) -/
def factOf (t : List (String × Bool)) (k : String) : Bool := (t.lookup k).getD false

/-- training objective of an SGPR model whose kernel reads the noise `noiseK` for the added loss term while the marginal
likelihood term `logN` was computed with the model's own likelihood -/
def sgprObjective [Field α] {n : Nat} (logN : α) (kdiag qdiag noiseK : Fin n → α) : α :=
  logN + titsiasAddedLoss kdiag qdiag noiseK

/-! ### primitives of linear_operator / torch that the regenerated strategy algebra (`Gen/StructuredAlgebra.lean`)
is written against.  Their contracts (`inv A = A⁻¹`, `cholL A · (cholL A)ᵀ = A`, `cholLInv A = (cholL A)⁻¹`,
`cholUInv A = U⁻¹` with `UᵀU = A`, `sqrt c · sqrt c = c`) are hypotheses of the theorems, never assumed here. -/

/-- oracle record for the non-rational primitives -/
structure Prim (α : Type) where
  /-- `A.solve(B) = inv A · B` -/
  inv : {n : Nat} → DMat n n α → DMat n n α
  /-- `psd_safe_cholesky(A)` / `A.cholesky()` (lower factor) -/
  cholL : {n : Nat} → DMat n n α → DMat n n α
  /-- `solve_triangular(cholesky(A), B, upper=False) = cholLInv A · B` -/
  cholLInv : {n : Nat} → DMat n n α → DMat n n α
  /-- `solve_triangular(psd_safe_cholesky(A, upper=True), B, upper=True) = cholUInv A · B` -/
  cholUInv : {n : Nat} → DMat n n α → DMat n n α
  /-- `c.sqrt()` -/
  sqrt : α → α

/-- `KroneckerProductLinearOperator(*factors)`: the first factor varies slowest (standard Kronecker product) -/
abbrev kronList [Mul α] [Zero α] [One α] (Ks : List (Sq α)) : Sq α := gridKronRowMajor Ks

end Structured

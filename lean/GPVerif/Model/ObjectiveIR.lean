/-
C08 (wave 3): IR + semantics (core Lean) for three further source fragments that `g3_batch_choreography.py` reads off
the Python AST into `Gen/BatchChoreo.lean`:

* `NormE`      — the integer by which an exact objective divides its per-batch-element value
                 (`ExactMarginalLogLikelihood.forward`: `function_dist.event_shape.numel()`;
                  `LeaveOneOutPseudoLikelihood.forward`: `target.size(-1)`), together with `runNormalise`
                 (`res.div_(num_data) - shift`);
* `MaskE`      — how the `'fill'` NaN-policy branches build their missing / observed mask from the (batched) targets
                 (`torch.isnan(labels)` per entry, or `observation_nan_policy._get_observed`, which reduces over every
                 batch element);
* `ListProp`   — how `IndependentModelList.train_inputs` / `train_targets` are evaluated (at every read, or once and
                 cached) and which member attribute they collect; with a small history semantics
                 (read a property / replace a member's training data) over version-numbered values.

Shapes are innermost-first (`Bcast.RShape`): a target of torch shape `(*batch, n)` is `n :: batch`.
-/
import GPVerif.Model.ChoreoIR

namespace Choreo
open Bcast

variable {α : Type}

/-! ### objective normalisers -/

inductive NormE where
  | targetSize (k : Nat)    -- `target.size(-(k+1))` / `target.shape[-(k+1)]`
  | targetNumel             -- `target.numel()`; also `m.numel()` after `m = m.reshape(*target.shape)`
  | eventNumel              -- `function_dist.event_shape.numel()`
  | lit (n : Nat)
  deriving Repr, DecidableEq, Inhabited

/-- value of the normaliser for a target of shape `target` and a distribution with event shape `event` -/
def NormE.eval (target event : RShape) : NormE → Nat
  | .targetSize k => target.getD k 1
  | .targetNumel => numel target
  | .eventNumel => numel event
  | .lit n => n

/-- `res.div_(num_data) - shift` on the tensor of per-batch-element values -/
def runNormalise [Div α] [Sub α] [NatCast α] (e : NormE) (shift : α) (res : T α) (target event : RShape) : T α :=
  ⟨res.shape, fun b => res.get b / ((e.eval target event : Nat) : α) - shift⟩

/-- the value a NON-batched replica holding batch element `b` computes: its `res` is the scalar `res[b]`, its target
has shape `(n,)` -/
def replicaNormalise [Div α] [Sub α] [NatCast α] (e : NormE) (shift : α) (resb : α) (n : Nat) : α :=
  resb / ((e.eval [n] [n] : Nat) : α) - shift

/-! ### missing-observation masks of the `'fill'` policy -/

inductive MaskE where
  | isnanPerEntry           -- `torch.isnan(labels)`                       : missing mask, shape of the labels
  | notIsnanPerEntry        -- `~torch.isnan(labels)`                      : observed mask, shape of the labels
  | getObserved             -- `observation_nan_policy._get_observed(labels, (n,))` : observed mask of shape `(n,)`,
                            --   a point counts as missing when it is NaN in ANY batch element
  deriving Repr, DecidableEq, Inhabited

/-- all batch indices of a label tensor `(*batch, n)` -/
def batchIdx (labels : T Bool) : List RIdx := allIdx (labels.shape.drop 1)

/-- the OBSERVED mask the code works with, as a function of the full index `i :: b` (point `i`, batch element `b`);
`labels.get idx = true` means "is NaN" -/
def MaskE.observedAt (labels : T Bool) : MaskE → RIdx → Bool
  | .isnanPerEntry, idx => !labels.get idx
  | .notIsnanPerEntry, idx => !labels.get idx
  | .getObserved, idx => (batchIdx labels).all fun b => !labels.get (idx.headD 0 :: b)

/-! ### `IndependentModelList` properties over a history -/

inductive MemberAttr where
  | trainInputs | trainTargets
  deriving Repr, DecidableEq, Inhabited

inductive ReadKind where
  | perRead      -- `@property`: the body runs at every read
  | once         -- `functools.cached_property` / memoised: the body runs at the first read, the result is kept
  deriving Repr, DecidableEq, Inhabited

/-- one list attribute: how it is evaluated, and which member attribute its body collects over `self.models` -/
structure ListProp where
  kind : ReadKind
  attr : MemberAttr
  deriving Repr, DecidableEq, Inhabited

/-- state of a model list: the members' current `(train_inputs, train_targets)` and the list object's attribute cache -/
structure MLState (V : Type) where
  members : List (V × V)
  cacheI : Option (List V) := none
  cacheT : Option (List V) := none

inductive MLEvent (V : Type) where
  | read (a : MemberAttr)                                -- read `model.train_inputs` / `model.train_targets`
  | setData (i : Nat) (inputs targets : Option V)        -- `models[i].set_train_data(inputs, targets)`

variable {V : Type}

def MemberAttr.proj : MemberAttr → V × V → V
  | .trainInputs, p => p.1
  | .trainTargets, p => p.2

def MLState.cache (st : MLState V) : MemberAttr → Option (List V)
  | .trainInputs => st.cacheI
  | .trainTargets => st.cacheT

def MLState.setCache (st : MLState V) (a : MemberAttr) (v : List V) : MLState V :=
  match a with
  | .trainInputs => { st with cacheI := some v }
  | .trainTargets => { st with cacheT := some v }

/-- read the list attribute named `name`, defined by `p` -/
def ListProp.read (p : ListProp) (name : MemberAttr) (st : MLState V) : List V × MLState V :=
  let now := st.members.map p.attr.proj
  match p.kind with
  | .perRead => (now, st)
  | .once =>
    match st.cache name with
    | some c => (c, st)
    | none => (now, st.setCache name now)

def updateMember (m : V × V) (inputs targets : Option V) : V × V :=
  (inputs.getD m.1, targets.getD m.2)

/-- what the members hold after the updates of a history (reads do not matter) -/
def membersAfter : List (V × V) → List (MLEvent V) → List (V × V)
  | ms, [] => ms
  | ms, .read _ :: h => membersAfter ms h
  | ms, .setData i x y :: h => membersAfter (ms.modify i fun m => updateMember m x y) h

/-- run a history on a model list whose `train_inputs` / `train_targets` are defined by `pI` / `pT`; returns the final
state and the values of the reads in order -/
def runHist (pI pT : ListProp) : MLState V → List (MLEvent V) → MLState V × List (List V)
  | st, [] => (st, [])
  | st, .read a :: h =>
    let r := (match a with | .trainInputs => pI | .trainTargets => pT).read a st
    let rest := runHist pI pT r.2 h
    (rest.1, r.1 :: rest.2)
  | st, .setData i x y :: h =>
    runHist pI pT { st with members := st.members.modify i fun m => updateMember m x y } h

/-- read attribute `a` after the history `h` -/
def readAfter (pI pT : ListProp) (st : MLState V) (h : List (MLEvent V)) (a : MemberAttr) : List V :=
  ((match a with | .trainInputs => pI | .trainTargets => pT).read a (runHist pI pT st h).1).1

end Choreo
